(* C20 — heap-level model of the pre-confirmed chain storage.

   The list model (ChainModel.v) represents the chain as an immutable Coq list, so "a view never
   changes afterwards" holds there by construction.  Here the same operations run over a store of
   objects addressed by ids, with the allocation, the aliasing and the in-place writes of the Go
   code, read line by line from

     sync/preconfirmed/chain_storage.go   bootstrapChain / extend / replaceSlot (block, delta,
                                          no-change) / mergeClassesCopying / AdvanceTo / rebuild /
                                          SnapshotForBlock / PreConfirmedStateAt /
                                          PreConfirmedStateBeforeIndexAt / mergeClassesInto
     adapters/sn2core/sn2core.go          AdaptStateDiff / AdaptPreConfirmedBlock /
                                          AdaptPreConfirmedWithDelta
     core/state_update.go                 EmptyStateDiff / StateDiff.Merge
     core/pending/pending.go              PreConfirmed (a struct copied by value: next := *current)

   Objects.  One object per Go allocation whose identity can be shared:
     ONode     *node{preconfirmed, parent}
     OEntry    *pending.PreConfirmed{Block, StateUpdate, NewClasses, TransactionStateDiffs, BlockIdentifier}
     OBlock    *core.Block{Header, Transactions, Receipts}
     OHeader   *core.Header (the number; TransactionCount = len(Transactions), see ChainModel.v)
     OSU       *core.StateUpdate{StateDiff}
     ODiff     *core.StateDiff{StorageDiffs, Nonces, DeployedContracts, ReplacedClasses,
                               DeclaredV1Classes, MigratedClasses, DeclaredV0Classes}
     OMapN     a Go map felt -> felt / felt -> class definition (contents: association list)
     OMapO     the outer StorageDiffs map: contract -> inner map (an id)
     OArr      the backing array of a slice (capacity = number of cells)
   A slice is a value {array id or nil, len, cap}.  Transactions, receipts, felts and class
   definitions are values inside cells / maps (they are never written by the modelled code).

   What is reused by reference and what is copied (each marked REF / COPY below):
     bootstrap / extend / replace by a block:  next.NewClasses = newClasses            REF (caller's map)
     replace by a block below the tip:         newNode.parent = target.parent          REF (older nodes)
     delta:  mergedTxs/Receipts/StateDiffs = make + copy                               COPY of the arrays,
             the per-transaction *StateDiff pointers inside                            REF
             nextStateDiff = EmptyStateDiff(); Merge(current diff); Merge(each new)     COPY (fresh maps)
             nextHeader := *Header; nextBlock := *Block; next := *current               COPY of the structs
             next.NewClasses = mergeClassesCopying(current's, newClasses)               REF if no new
                                                                                        classes, else COPY
     no-change:  next := *target.preconfirmed                                          COPY of the struct;
                 Block, StateUpdate, TransactionStateDiffs                             REF
                 next.NewClasses = maps.Clone(target's) + maps.Copy                    COPY
     AdvanceTo / rebuild:  fresh nodes, node.preconfirmed                              REF
     SnapshotForBlock:  ChainReader{head: current.head, length}                        REF (all nodes)
     Merge:  d.StorageDiffs[a] exists -> maps.Copy(d's inner, incoming's inner)        WRITE d's inner
             else d.StorageDiffs[a] = maps.Clone(incoming's inner)                     COPY, WRITE d's outer
             maps.Copy(d.Nonces, ...) x5                                               WRITE d's maps
             d.DeclaredV0Classes = append(d.DeclaredV0Classes, incoming...)            WRITE into d's backing
                                                          array when it has spare capacity, else fresh array
     AdaptStateDiff:  stateDiff.DeclaredV0Classes = response.OldDeclaredContracts       REF (wire array)

   Elided (documented in findings/C20.md): allocations that are garbage when the call returns an
   error or a no-op from an adapter that reads nothing of the stored chain; the cell-by-cell
   initialisation of an array allocated by make in the same function (allocated with its final
   contents); in AdaptPreConfirmedWithDelta the AdaptStateDiff calls of the appended transactions
   are hoisted before EmptyStateDiff()/Merge (they read only the wire object and allocate; ids are
   names, the correspondence compares graphs up to renaming).

   No proofs in this file; it is extracted to OCaml and run against the Go code. *)
From Coq Require Import List NArith Bool FMapPositive.
From V Require Import C20.ChainModel.
Import ListNotations.
Open Scope N_scope.

Definition oid := N.

Record slice := mkSlice { s_arr : option oid; s_len : N; s_cap : N }.
Definition nil_slice : slice := mkSlice None 0 0.

Inductive cell :=
| CTx (h t : N)       (* a core.Transaction: hash, payload          *)
| CRc (h r : N)       (* a *core.TransactionReceipt: hash, payload  *)
| CRef (o : oid)      (* a *core.StateDiff                          *)
| CVal (v : N)        (* a *felt.Felt                               *)
| CNil.

(* pending.PreConfirmed, the struct value *)
Record pcv := mkPcv { p_blk : oid; p_su : oid; p_cls : option oid; p_txd : slice; p_ident : N }.

Inductive obj :=
| ONode (e : oid) (parent : option oid)
| OEntry (p : pcv)
| OBlock (hdr : oid) (txs rcs : slice)
| OHeader (num : N)
| OSU (d : oid)
| ODiff (st no de re d1 mi : oid) (d0 : slice)
| OMapN (m : list (N * N))
| OMapO (m : list (N * oid))
| OArr (c : list cell).

(* ---------- the store ---------- *)
Record heap := mkHeap { h_map : PositiveMap.t obj; h_next : N }.

Definition hempty : heap := mkHeap (PositiveMap.empty obj) 0.
Definition hget (h : heap) (i : oid) : option obj := PositiveMap.find (N.succ_pos i) (h_map h).
Definition halloc (h : heap) (o : obj) : heap * oid :=
  (mkHeap (PositiveMap.add (N.succ_pos (h_next h)) o (h_map h)) (h_next h + 1), h_next h).
Definition hset (h : heap) (i : oid) (o : obj) : heap :=
  mkHeap (PositiveMap.add (N.succ_pos i) o (h_map h)) (h_next h).

(* typed reads; a read through a dangling or ill-typed id gives the empty value (never happens on
   reachable states: Proofs_heap, [hs_inv]) *)
Definition gmap (h : heap) (i : oid) : list (N * N) :=
  match hget h i with Some (OMapN m) => m | _ => [] end.
Definition gouter (h : heap) (i : oid) : list (N * oid) :=
  match hget h i with Some (OMapO m) => m | _ => [] end.
Definition garr (h : heap) (i : oid) : list cell :=
  match hget h i with Some (OArr c) => c | _ => [] end.
Definition gcls (h : heap) (o : option oid) : cmap :=
  match o with None => [] | Some i => gmap h i end.

Definition sl_cells (h : heap) (s : slice) : list cell :=
  match s_arr s with None => [] | Some a => firstn (N.to_nat (s_len s)) (garr h a) end.

(* ---------- denotation: the list-model value an id stands for in a heap ---------- *)
Definition flat_inner (a : N) (m : list (N * N)) : list ((N * N) * N) :=
  map (fun kv => ((a, fst kv), snd kv)) m.
Definition flatten (h : heap) (outer : list (N * oid)) : list ((N * N) * N) :=
  flat_map (fun ai => flat_inner (fst ai) (gmap h (snd ai))) outer.

Definition cell_val (c : cell) : N := match c with CVal v => v | _ => 0 end.

Definition denote_diff (h : heap) (i : oid) : diff :=
  match hget h i with
  | Some (ODiff st no de re d1 mi d0) =>
      mkDiff (flatten h (gouter h st)) (gmap h no) (gmap h de) (gmap h re) (gmap h d1) (gmap h mi)
             (map cell_val (sl_cells h d0))
  | _ => empty_diff
  end.

Fixpoint zip_items (h : heap) (txs rcs tds : list cell) : list item :=
  match txs, rcs, tds with
  | CTx th tp :: txs', CRc rh rp :: rcs', CRef d :: tds' =>
      mkItem th tp rh rp (denote_diff h d) :: zip_items h txs' rcs' tds'
  | _, _, _ => []
  end.

Definition hdr_num (h : heap) (i : oid) : N := match hget h i with Some (OHeader n) => n | _ => 0 end.
Definition su_diff (h : heap) (i : oid) : oid := match hget h i with Some (OSU d) => d | _ => 0 end.

Definition denote_pcv (h : heap) (p : pcv) : entry :=
  match hget h (p_blk p) with
  | Some (OBlock hdr txs rcs) =>
      mkEntry (hdr_num h hdr) (p_ident p)
              (zip_items h (sl_cells h txs) (sl_cells h rcs) (sl_cells h (p_txd p)))
              (denote_diff h (su_diff h (p_su p))) (gcls h (p_cls p))
  | _ => mkEntry 0 (p_ident p) [] empty_diff []
  end.

Definition gpcv (h : heap) (i : oid) : pcv :=
  match hget h i with Some (OEntry p) => p | _ => mkPcv 0 0 None nil_slice 0 end.
Definition denote_entry (h : heap) (i : oid) : entry := denote_pcv h (gpcv h i).

(* a view handle: ChainReader{head, length} *)
Definition view := (option oid * nat)%type.
Definition empty_view : view := (None, O).

Fixpoint walk_entries (h : heap) (n : option oid) (k : nat) : list oid :=   (* newest first *)
  match k, n with
  | S k', Some i => match hget h i with
                    | Some (ONode e p) => e :: walk_entries h p k'
                    | _ => []
                    end
  | _, _ => []
  end.

Definition denote_view (h : heap) (v : view) : chain :=
  map (denote_entry h) (walk_entries h (fst v) (snd v)).

(* ---------- Go primitives ---------- *)
(* a slice over a fresh array holding exactly [c] (make + fill, or a caller-supplied wire slice) *)
Definition mk_slice (h : heap) (c : list cell) : heap * slice :=
  match c with
  | [] => (h, nil_slice)
  | _ => let (h1, a) := halloc h (OArr c) in (h1, mkSlice (Some a) (len c) (len c))
  end.

(* runtime.growslice for 8-byte pointer elements: nextslicecap, then the malloc size class
   (exact up to 64 elements = 512 bytes; the correspondence compares capacities) *)
Definition roundup_elems (n : N) : N :=
  if n <=? 4 then n
  else if n <=? 32 then 2 * ((n + 1) / 2)
  else if n <=? 64 then 4 * ((n + 3) / 4)
  else n.
Definition growcap (old needed : N) : N :=
  roundup_elems (if 2 * old <? needed then needed else if old <? 256 then 2 * old else needed).

(* append(s, xs...): in place when the backing array has room (WRITE), else a fresh array *)
Definition h_append (h : heap) (s : slice) (xs : list cell) : heap * slice :=
  match xs with
  | [] => (h, s)
  | _ =>
    let n := s_len s + len xs in
    match s_arr s with
    | Some a =>
        if n <=? s_cap s then
          (hset h a (OArr (firstn (N.to_nat (s_len s)) (garr h a) ++ xs
                           ++ skipn (N.to_nat n) (garr h a))),
           mkSlice (Some a) n (s_cap s))
        else
          let c := growcap (s_cap s) n in
          let (h1, a') := halloc h (OArr (sl_cells h s ++ xs ++ repeat CNil (N.to_nat (c - n)))) in
          (h1, mkSlice (Some a') n c)
    | None =>
        let c := growcap 0 n in
        let (h1, a') := halloc h (OArr (xs ++ repeat CNil (N.to_nat (c - n)))) in
        (h1, mkSlice (Some a') n c)
    end
  end.

(* core.EmptyStateDiff() — six fresh maps, an empty non-nil slice; the struct escapes (&stateDiff) *)
Definition h_empty_diff (h : heap) : heap * oid :=
  let (h1, st) := halloc h (OMapO []) in
  let (h2, no) := halloc h1 (OMapN []) in
  let (h3, de) := halloc h2 (OMapN []) in
  let (h4, re) := halloc h3 (OMapN []) in
  let (h5, d1) := halloc h4 (OMapN []) in
  let (h6, mi) := halloc h5 (OMapN []) in
  halloc h6 (ODiff st no de re d1 mi nil_slice).

(* the storage loop of Merge, one (addr, incoming inner map) at a time *)
Definition merge_storage_step (st : oid) (h : heap) (ai : N * oid) : heap :=
  match alookup (fst ai) (gouter h st) with
  | Some old => hset h old (OMapN (gmap h (snd ai) ++ gmap h old))          (* maps.Copy: WRITE *)
  | None =>
      let (h1, nid) := halloc h (OMapN (gmap h (snd ai))) in                (* maps.Clone      *)
      hset h1 st (OMapO ((fst ai, nid) :: gouter h1 st))                    (* WRITE d's outer *)
  end.

(* (d *StateDiff).Merge(incoming) *)
Definition hmerge (h : heap) (d inc : oid) : heap :=
  match hget h d, hget h inc with
  | Some (ODiff st no de re d1 mi d0), Some (ODiff st' no' de' re' d1' mi' d0') =>
      let h1 := fold_left (merge_storage_step st) (gouter h st') h in
      let h2 := hset h1 no (OMapN (gmap h1 no' ++ gmap h1 no)) in
      let h3 := hset h2 de (OMapN (gmap h2 de' ++ gmap h2 de)) in
      let h4 := hset h3 d1 (OMapN (gmap h3 d1' ++ gmap h3 d1)) in
      let h5 := hset h4 re (OMapN (gmap h4 re' ++ gmap h4 re)) in
      let h6 := hset h5 mi (OMapN (gmap h5 mi' ++ gmap h5 mi)) in
      let (h7, d0n) := h_append h6 d0 (sl_cells h6 d0') in
      hset h7 d (ODiff st no de re d1 mi d0n)                              (* d.DeclaredV0Classes = *)
  | _, _ => h
  end.

(* ---------- sn2core ---------- *)
Definition sproj (a : N) (s : list ((N * N) * N)) : list (N * N) :=
  map (fun e => (snd (fst e), snd e)) (filter (fun e => fst (fst e) =? a) s).
Definition addrs_of (s : list ((N * N) * N)) : list N :=
  nodup N.eq_dec (map (fun e => fst (fst e)) s).

Fixpoint alloc_inners (h : heap) (s : list ((N * N) * N)) (addrs : list N) : heap * list (N * oid) :=
  match addrs with
  | [] => (h, [])
  | a :: r => let (h1, i) := halloc h (OMapN (sproj a s)) in
              let (h2, o) := alloc_inners h1 s r in (h2, (a, i) :: o)
  end.

(* AdaptStateDiff(response): fresh maps; DeclaredV0Classes aliases the wire slice *)
Definition h_adapt_sd (h : heap) (w : diff) : heap * oid :=
  let (h1, d0) := mk_slice h (map CVal (d_decl0 w)) in
  let (h2, d1) := halloc h1 (OMapN (d_decl1 w)) in
  let (h3, mi) := halloc h2 (OMapN (d_migrated w)) in
  let (h4, re) := halloc h3 (OMapN (d_replaced w)) in
  let (h5, de) := halloc h4 (OMapN (d_deployed w)) in
  let (h6, no) := halloc h5 (OMapN (d_nonces w)) in
  let (h7, outer) := alloc_inners h6 (d_storage w) (addrs_of (d_storage w)) in
  let (h8, st) := halloc h7 (OMapO outer) in
  halloc h8 (ODiff st no de re d1 mi d0).

Fixpoint h_adapt_sds (h : heap) (ws : list diff) : heap * list oid :=
  match ws with
  | [] => (h, [])
  | w :: r => let (h1, i) := h_adapt_sd h w in
              let (h2, l) := h_adapt_sds h1 r in (h2, i :: l)
  end.

Definition tx_cells (its : list item) : list cell := map (fun it => CTx (it_hash it) (it_tx it)) its.
Definition rc_cells (its : list item) : list cell := map (fun it => CRc (it_rhash it) (it_rc it)) its.

Definition hmerge_all (h : heap) (d : oid) (incs : list oid) : heap :=
  fold_left (fun h i => hmerge h d i) incs h.

(* AdaptPreConfirmedBlock(response, number); NewClasses is set by the caller *)
Definition h_adapt_block (h : heap) (b : ublock) (n : N) (cls : option oid) : heap * pcv :=
  let (h1, sds) := h_adapt_sds h (map it_diff (ub_items b)) in
  let (h2, txs) := mk_slice h1 (tx_cells (ub_items b)) in
  let (h3, rcs) := mk_slice h2 (rc_cells (ub_items b)) in
  let (h4, tds) := mk_slice h3 (map CRef sds) in
  let (h5, d) := h_empty_diff h4 in
  let h6 := hmerge_all h5 d sds in
  let (h7, su) := halloc h6 (OSU d) in
  let (h8, hdr) := halloc h7 (OHeader n) in
  let (h9, blk) := halloc h8 (OBlock hdr txs rcs) in
  (h9, mkPcv blk su cls tds (ub_id b)).

(* copy(make(n+added), existing) followed by the appended cells *)
Definition pad (n : nat) (c : list cell) : list cell := firstn n (c ++ repeat CNil n).

(* AdaptPreConfirmedWithDelta(current, delta) after the identifier check; next := *current *)
Definition h_adapt_delta (h : heap) (cur : pcv) (dl : udelta) : heap * pcv :=
  match hget h (p_blk cur) with
  | Some (OBlock hdr txs rcs) =>
      let n := N.to_nat (s_len txs) in
      let (h1, sds) := h_adapt_sds h (map it_diff (ud_items dl)) in
      let (h2, mtx) := mk_slice h1 (pad n (sl_cells h1 txs) ++ tx_cells (ud_items dl)) in
      let (h3, mrc) := mk_slice h2 (pad n (sl_cells h2 rcs) ++ rc_cells (ud_items dl)) in
      let (h4, mtd) := mk_slice h3 (pad n (sl_cells h3 (p_txd cur)) ++ map CRef sds) in
      let (h5, d) := h_empty_diff h4 in
      let h6 := hmerge h5 d (su_diff h5 (p_su cur)) in
      let h7 := hmerge_all h6 d sds in
      let (h8, nhdr) := halloc h7 (OHeader (hdr_num h7 hdr)) in            (* nextHeader := *Header *)
      let (h9, nblk) := halloc h8 (OBlock nhdr mtx mrc) in                  (* nextBlock := *Block   *)
      let (h10, nsu) := halloc h9 (OSU d) in
      (h10, mkPcv nblk nsu (p_cls cur) mtd (p_ident cur))                   (* NewClasses: REF       *)
  | _ => (h, cur)
  end.

(* mergeClassesCopying(base, extra) *)
Definition h_merge_classes_copying (h : heap) (base extra : option oid) : heap * option oid :=
  match gcls h extra with
  | [] => (h, base)                                                         (* REF *)
  | _ =>
    let (h1, m) := halloc h (OMapN (gcls h base)) in                        (* maps.Clone / make *)
    (hset h1 m (OMapN (ccopy (gmap h1 m) (gcls h1 extra))), Some m)         (* maps.Copy: WRITE  *)
  end.

(* mergeClassesInto(dst, src) *)
Definition h_merge_classes_into (h : heap) (dst src : option oid) : heap * option oid :=
  match gcls h src with
  | [] => (h, dst)
  | _ =>
    match dst with
    | None => let (h1, m) := halloc h (OMapN (ccopy [] (gcls h src))) in (h1, Some m)   (* maps.Clone *)
    | Some m => (hset h m (OMapN (ccopy (gmap h m) (gcls h src))), dst)                 (* WRITE dst  *)
    end
  end.

(* ---------- ChainReader accessors on a handle ---------- *)
Definition entry_num (h : heap) (e : oid) : N :=
  match hget h (p_blk (gpcv h e)) with Some (OBlock hdr _ _) => hdr_num h hdr | _ => 0 end.
Definition node_entry (h : heap) (n : option oid) : oid :=
  match n with Some i => match hget h i with Some (ONode e _) => e | _ => 0 end | None => 0 end.
Definition node_parent (h : heap) (n : option oid) : option oid :=
  match n with Some i => match hget h i with Some (ONode _ p) => p | _ => None end | None => None end.

Definition h_tip (h : heap) (v : view) : N :=
  match snd v with O => 0 | _ => entry_num h (node_entry h (fst v)) end.
Definition h_oldest (h : heap) (v : view) : N := h_tip h v - (N.of_nat (snd v) - 1).
Definition h_contains (h : heap) (v : view) (n : N) : bool :=
  match snd v with O => false | _ => (h_oldest h v <=? n) && (n <=? h_tip h v) end.

Fixpoint h_walk (h : heap) (n : option oid) (k : nat) : option oid :=
  match k with O => n | S k' => h_walk h (node_parent h n) k' end.

Definition entry_ntx (h : heap) (e : oid) : N :=
  match hget h (p_blk (gpcv h e)) with Some (OBlock _ txs _) => s_len txs | _ => 0 end.

(* shouldPreserveSlot(existing, incoming): incoming given by identifier / tx count / class count *)
Definition h_should_preserve (h : heap) (existing : oid) (inc_id inc_ntx inc_ncls : N) : bool :=
  let ex := gpcv h existing in
  if negb (inc_id =? p_ident ex) && negb (inc_id =? 0) then false
  else if entry_ntx h existing <? inc_ntx then false
  else if len (gcls h (p_cls ex)) <? inc_ncls then false
  else true.

(* ---------- computeUpdate ---------- *)
Inductive hres := HErr (e : err) | HNoop | HApplied (v : view) (affected : oid).

Definition fault_of (b : ublock) : option err :=
  if ub_fault b =? 1 then Some EAdapt else if ub_fault b =? 2 then Some EVersion else None.

(* adapt + CheckBlockVersion + next.NewClasses = newClasses; newNode := &node{&next, parent} *)
Definition h_new_block_node (h : heap) (b : ublock) (bn : N) (cls parent : option oid) : heap * oid * oid :=
  let (h1, p) := h_adapt_block h b bn cls in
  let (h2, e) := halloc h1 (OEntry p) in
  let (h3, nd) := halloc h2 (ONode e parent) in
  (h3, nd, e).

Definition h_replace_slot (h : heap) (cur : view) (u : upd) (bn base_tx : N) (cls : option oid)
  : heap * hres :=
  let depth := N.to_nat (h_tip h cur - bn) in
  let target := h_walk h (fst cur) depth in
  let te := node_entry h target in
  let tparent := node_parent h target in
  match u with
  | UBlock b =>
      match fault_of b with
      | Some e => (h, HErr e)
      | None =>
          if h_should_preserve h te (ub_id b) (len (ub_items b)) (len (gcls h cls)) then (h, HNoop)
          else let '(h1, nd, e) := h_new_block_node h b bn cls tparent in
               (h1, HApplied (Some nd, (snd cur - depth)%nat) e)
      end
  | UDelta dl =>
      if negb (Nat.eqb depth 0) then (h, HErr EDeltaNonTip)
      else if negb (entry_ntx h te =? base_tx) then (h, HErr EBaseTxCount)
      else if negb (p_ident (gpcv h te) =? ud_id dl) then (h, HErr EIdMismatch)
      else if ud_fault dl =? 1 then (h, HErr EAdapt)
      else
        let (h1, p) := h_adapt_delta h (gpcv h te) dl in
        let (h2, c) := h_merge_classes_copying h1 (p_cls p) cls in
        let (h3, e) := halloc h2 (OEntry (mkPcv (p_blk p) (p_su p) c (p_txd p) (p_ident p))) in
        let (h4, nd) := halloc h3 (ONode e tparent) in
        (h4, HApplied (Some nd, snd cur) e)
  | UNoChange =>
      match gcls h cls with
      | [] => (h, HNoop)
      | _ =>
        if negb (Nat.eqb depth 0) then (h, HErr ENoChangeNonTip)
        else
          let tp := gpcv h te in
          let (h1, merged) := h_merge_classes_copying h (p_cls tp) cls in
          if len (gcls h1 merged) =? len (gcls h1 (p_cls tp)) then (h1, HNoop)
          else
            let (h2, e) := halloc h1 (OEntry (mkPcv (p_blk tp) (p_su tp) merged (p_txd tp) (p_ident tp))) in
            let (h3, nd) := halloc h2 (ONode e tparent) in
            (h3, HApplied (Some nd, snd cur) e)
      end
  end.

Definition h_compute_update (h : heap) (cur : view) (u : upd) (bn base_tx oldest_pc : N) (cls0 : cmap)
  : heap * hres :=
  (* the caller's newClasses map: nil when there are none, else a map of its own *)
  let '(h0, cls) := match cnorm cls0 with
                    | [] => (h, None)
                    | m => let (h', i) := halloc h (OMapN m) in (h', Some i)
                    end in
  match snd cur with
  | O => match u with
         | UBlock b =>
             if negb (bn =? oldest_pc) then (h0, HErr EBootstrapHeight)
             else match fault_of b with
                  | Some e => (h0, HErr e)
                  | None => let '(h1, nd, e) := h_new_block_node h0 b bn cls None in
                            (h1, HApplied (Some nd, 1%nat) e)
                  end
         | _ => (h0, HErr EBootstrapKind)
         end
  | _ =>
    let cur_oldest := h_oldest h0 cur in
    if negb (cur_oldest =? oldest_pc) then (h0, HErr EUnaligned)
    else if bn <? cur_oldest then (h0, HErr EBelowOldest)
    else if h_tip h0 cur + 1 <? bn then (h0, HErr EGap)
    else if bn =? h_tip h0 cur + 1 then
      match u with
      | UBlock b =>
          match fault_of b with
          | Some e => (h0, HErr e)
          | None => let '(h1, nd, e) := h_new_block_node h0 b bn cls (fst cur) in
                    (h1, HApplied (Some nd, S (snd cur)) e)
          end
      | _ => (h0, HErr EAppendKind)
      end
    else h_replace_slot h0 cur u bn base_tx cls
  end.

(* ---------- AdvanceTo ---------- *)
(* rebuild(current, keep): fresh nodes over the same entries (REF), nil-terminated *)
Fixpoint h_rebuild (h : heap) (n : option oid) (keep : nat) : heap * option oid :=
  match keep, n with
  | S k, Some i =>
      let (h1, child) := h_rebuild h (node_parent h n) k in
      let (h2, nd) := halloc h1 (ONode (node_entry h n) child) in
      (h2, Some nd)
  | _, _ => (h, None)
  end.

Definition h_advance_to (h : heap) (cur : view) (oldest_pc : N) : heap * view * bool :=
  match snd cur with
  | O => (h, cur, false)
  | _ =>
    let cur_oldest := h_oldest h cur in
    if oldest_pc =? cur_oldest then (h, cur, false)
    else if negb (h_contains h cur oldest_pc) then (h, empty_view, true)
    else let drop := N.to_nat (oldest_pc - cur_oldest) in
         let keep := (snd cur - drop)%nat in
         let (h1, hd) := h_rebuild h (fst cur) keep in
         (h1, (hd, keep), true)
  end.

(* ---------- SnapshotForBlock ---------- *)
Definition h_snapshot (h : heap) (cur : view) (bn : N) : view :=
  if h_contains h cur bn then (fst cur, N.to_nat (h_tip h cur - bn + 1)) else empty_view.

(* ---------- PreConfirmedStateAt / PreConfirmedStateBeforeIndexAt (reader creation) ---------- *)
(* (block number, entry id) of the view, oldest first *)
Definition numbered (h : heap) (v : view) : list (N * oid) :=
  map (fun e => (entry_num h e, e)) (rev (walk_entries h (fst v) (snd v))).

Fixpoint upto_n (b : N) (l : list (N * oid)) : list oid :=
  match l with
  | [] => []
  | (n, e) :: r => if n =? b then [e] else e :: upto_n b r
  end.

Fixpoint before_n (b : N) (l : list (N * oid)) : list oid * option oid :=
  match l with
  | [] => ([], None)
  | (n, e) :: r => if n =? b then ([], Some e) else let (p, t) := before_n b r in (e :: p, t)
  end.

(* the loop body: stateDiff.Merge(entry.StateUpdate.StateDiff); newClasses = mergeClassesInto(...) *)
Definition fold_entry (d : oid) (acc : heap * option oid) (e : oid) : heap * option oid :=
  let (h, nc) := acc in
  let p := gpcv h e in
  let h1 := hmerge h d (su_diff h (p_su p)) in
  h_merge_classes_into h1 nc (p_cls p).

(* the overlay handed to pending.NewState: (stateDiff, newClasses) *)
Definition h_state_at (h : heap) (v : view) (b : N) : heap * (serr + (oid * option oid)) :=
  if negb (h_contains h v b) then (h, inl SNotFound)
  else
    let (h1, d) := h_empty_diff h in
    let (h2, nc) := fold_left (fold_entry d) (upto_n b (numbered h1 v)) (h1, None) in
    (h2, inr (d, nc)).

Definition ref_cells (l : list cell) : list oid :=
  flat_map (fun c => match c with CRef o => [o] | _ => [] end) l.

Definition h_state_before_index (h : heap) (v : view) (b i : N) : heap * (serr + (oid * option oid)) :=
  if negb (h_contains h v b) then (h, inl SNotFound)
  else match before_n b (numbered h v) with
       | (_, None) => (h, inl SBroken)
       | (pre, Some target) =>
           if entry_ntx h target <? i then (h, inl SIndexOOB)
           else
             let (h1, d) := h_empty_diff h in
             let (h2, nc) := fold_left (fold_entry d) pre (h1, None) in
             let tp := gpcv h2 target in
             let (h3, nc') := h_merge_classes_into h2 nc (p_cls tp) in
             let h4 := hmerge_all h3 d (ref_cells (firstn (N.to_nat i) (sl_cells h3 (p_txd tp)))) in
             (h4, inr (d, nc'))
       end.

(* ---------- the storage as a state machine over a heap ---------- *)
Record hstate := mkHS {
  hs_heap : heap;
  hs_cur : view;                       (* what s.inner points to *)
  hs_views : list view                 (* every view handed out so far, newest first *)
}.

Definition hinit : hstate := mkHS hempty empty_view [].

Inductive hop :=
| HOp (o : op)                                   (* ApplyUpdate / AdvanceTo / SnapshotForBlock *)
| HStateAt (vi : nat) (b : N)                    (* PreConfirmedStateAt on the vi-th view handed out *)
| HStateBefore (vi : nat) (b i : N).             (* PreConfirmedStateBeforeIndexAt                    *)

Inductive hout :=
| HOApply (r : hres)
| HOAdvance (changed : bool)
| HOSnap (v : view)
| HOState (r : serr + (oid * option oid)).

(* views are numbered from the first one handed out *)
Definition nth_view (s : hstate) (vi : nat) : view := nth vi (rev (hs_views s)) empty_view.

Definition hstep (s : hstate) (o : hop) : hstate * hout :=
  match o with
  | HOp (Apply u bn bt opc cls) =>
      let (h', r) := h_compute_update (hs_heap s) (hs_cur s) u bn bt opc cls in
      (mkHS h' (match r with HApplied v _ => v | _ => hs_cur s end) (hs_views s), HOApply r)
  | HOp (AdvanceTo n) =>
      let '(h', v, b) := h_advance_to (hs_heap s) (hs_cur s) n in
      (mkHS h' v (hs_views s), HOAdvance b)
  | HOp (Snapshot n) =>
      let v := h_snapshot (hs_heap s) (hs_cur s) n in
      (mkHS (hs_heap s) (hs_cur s) (v :: hs_views s), HOSnap v)
  | HStateAt vi b =>
      let (h', r) := h_state_at (hs_heap s) (nth_view s vi) b in
      (mkHS h' (hs_cur s) (hs_views s), HOState r)
  | HStateBefore vi b i =>
      let (h', r) := h_state_before_index (hs_heap s) (nth_view s vi) b i in
      (mkHS h' (hs_cur s) (hs_views s), HOState r)
  end.

Fixpoint hrun (s : hstate) (ops : list hop) : hstate * list hout :=
  match ops with
  | [] => (s, [])
  | o :: r => let (s', x) := hstep s o in let (s'', xs) := hrun s' r in (s'', x :: xs)
  end.

Definition hfinal (ops : list hop) : hstate := fst (hrun hinit ops).

(* the list-model operations a heap-level script stands for (reader creation is not an operation
   of the list model's state machine) *)
Definition abs_ops (ops : list hop) : list op :=
  flat_map (fun o => match o with HOp o' => [o'] | _ => [] end) ops.

(* ---------- the relation between what the heap denotes and the list model ---------- *)
(* Storage diffs are nested maps in the heap and one flat first-match-wins list in ChainModel.v
   ([merge] prepends).  Two flat lists stand for the same nested map when, for every contract, they
   list the same (slot, value) writes in the same order; every observation the list model makes on
   a storage list ([slookup], [touches]) depends on it only through these projections. *)
Definition seq_storage (s1 s2 : list ((N * N) * N)) : Prop := forall a, sproj a s1 = sproj a s2.

Definition deq (d1 d2 : diff) : Prop :=
  seq_storage (d_storage d1) (d_storage d2) /\
  d_nonces d1 = d_nonces d2 /\ d_deployed d1 = d_deployed d2 /\ d_replaced d1 = d_replaced d2 /\
  d_decl1 d1 = d_decl1 d2 /\ d_migrated d1 = d_migrated d2 /\ d_decl0 d1 = d_decl0 d2.

Definition ieq (a b : item) : Prop :=
  it_hash a = it_hash b /\ it_tx a = it_tx b /\ it_rhash a = it_rhash b /\ it_rc a = it_rc b /\
  deq (it_diff a) (it_diff b).

Definition eeq (a b : entry) : Prop :=
  e_num a = e_num b /\ e_id a = e_id b /\ Forall2 ieq (e_items a) (e_items b) /\
  deq (e_diff a) (e_diff b) /\ e_classes a = e_classes b.

Definition ceq (a b : chain) : Prop := Forall2 eeq a b.

(* outputs: the heap-level output denotes the list-model output *)
Definition out_rel (h : heap) (x : hout) (y : out) : Prop :=
  match x, y with
  | HOApply (HErr e), OApply (RErr e') => e = e'
  | HOApply HNoop, OApply RNoop => True
  | HOApply (HApplied v a), OApply (RApplied c a') => ceq (denote_view h v) c /\ eeq (denote_entry h a) a'
  | HOAdvance b, OAdvance b' => b = b'
  | HOSnap v, OSnap c => ceq (denote_view h v) c
  | _, _ => False
  end.
