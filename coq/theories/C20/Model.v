(* C20 — the executable model, in two layers (both extracted; no proofs in these files):

     ChainModel.v   the pre-confirmed chain as an immutable Coq list (computeUpdate / AdvanceTo /
                    SnapshotForBlock / overlay reads / lookups / the Load-CAS schedule model) — what
                    all the functional theorems are about;
     Heap.v         the same operations over a store of objects addressed by ids, with exactly the
                    allocation, aliasing and in-place writes of sync/preconfirmed/chain_storage.go,
                    adapters/sn2core (AdaptStateDiff / AdaptPreConfirmedBlock / ...WithDelta) and
                    core.StateDiff.Merge; [denote_view] maps a view handle in a heap to the list
                    model.

   bin/build builds only C20/Model.vo before extraction, hence this re-export. *)
From V Require Export C20.ChainModel C20.Heap.
