(* C20 — lemmas: contiguity invariant over all op sequences, snapshot alignment, lookups. *)
From Coq Require Import List NArith Bool Lia ZifyN ZifyNat ZifyBool.
From V Require Import C20.Model.
Import ListNotations.
Open Scope N_scope.

(* ---------- small list facts ---------- *)
Lemma list_eqb_eq : forall a b, list_eqb a b = true <-> a = b.
Proof.
  induction a as [|x a IH]; destruct b as [|y b]; simpl; split; intro H; try easy.
  - apply andb_true_iff in H as [H1 H2]. apply N.eqb_eq in H1. apply IH in H2. congruence.
  - inversion H; subst. rewrite N.eqb_refl. simpl. now apply IH.
Qed.

Lemma nseq_length : forall n s, length (nseq s n) = n.
Proof. induction n; intros; simpl; auto. Qed.

Lemma nseq_snoc : forall n s, nseq s (S n) = nseq s n ++ [s + N.of_nat n].
Proof.
  induction n; intros s.
  - simpl. f_equal. lia.
  - change (nseq s (S (S n))) with (s :: nseq (s + 1) (S n)).
    rewrite IHn. simpl. f_equal. f_equal. f_equal. lia.
Qed.

(* descending run: t, t-1, ... (n elements) *)
Fixpoint dseq (t : N) (n : nat) : list N :=
  match n with O => [] | S k => t :: dseq (t - 1) k end.

Lemma rev_dseq : forall n t, N.of_nat n <= t + 1 -> rev (dseq t n) = nseq (t + 1 - N.of_nat n) n.
Proof.
  induction n; intros t H; [reflexivity|].
  change (dseq t (S n)) with (t :: dseq (t - 1) n). simpl rev.
  rewrite nseq_snoc.
  destruct n as [|m]; [simpl; f_equal; lia|].
  rewrite IHn by lia.
  replace (t - 1 + 1 - N.of_nat (S m)) with (t + 1 - N.of_nat (S (S m))) by lia.
  f_equal. f_equal. lia.
Qed.

(* ---------- the chain invariant: numbers descend by one, newest first ---------- *)
Fixpoint desc (c : chain) : Prop :=
  match c with
  | [] => True
  | e :: r => match r with [] => True | e' :: _ => e_num e = e_num e' + 1 end /\ desc r
  end.

Lemma desc_tail : forall e r, desc (e :: r) -> desc r.
Proof. intros e r [_ H]. exact H. Qed.

Lemma desc_len : forall c, desc c -> N.of_nat (length c) <= tip c + 1.
Proof.
  induction c as [|e r IH]; intros H; simpl; [lia|].
  destruct r as [|e' r']; [simpl; lia|].
  destruct H as [H1 H2]. specialize (IH H2). simpl in *. lia.
Qed.

Lemma desc_numbers : forall c, desc c -> map e_num c = dseq (tip c) (length c).
Proof.
  induction c as [|e r IH]; intros H; [reflexivity|].
  destruct r as [|e' r']; [reflexivity|].
  destruct H as [H1 H2]. specialize (IH H2).
  change (map e_num (e :: e' :: r')) with (e_num e :: map e_num (e' :: r')).
  rewrite IH. simpl. f_equal. f_equal; [lia|]. f_equal. lia.
Qed.

Lemma desc_contiguous : forall c, desc c -> numbers c = nseq (oldest c) (length c).
Proof.
  intros c H. unfold numbers. rewrite map_rev, (desc_numbers c H).
  destruct c as [|e r]; [reflexivity|].
  pose proof (desc_len _ H) as L.
  rewrite rev_dseq by exact L. unfold oldest. f_equal. simpl length in *. lia.
Qed.

Lemma desc_skipn : forall k c t ps, desc c -> skipn k c = t :: ps ->
  e_num t + N.of_nat k = tip c /\ desc (t :: ps).
Proof.
  induction k; intros c t ps H E.
  - simpl in E. subst. split; [simpl; lia| exact H].
  - destruct c as [|e r]; [discriminate|]. simpl in E.
    destruct (IHk r t ps (desc_tail _ _ H) E) as [A B]. split; [|exact B].
    destruct r as [|e' r']; [destruct k; discriminate|].
    destruct H as [H1 _]. simpl in *. lia.
Qed.

Lemma desc_replace_head : forall t n ps, desc (t :: ps) -> e_num n = e_num t -> desc (n :: ps).
Proof. intros t n ps [H1 H2] E. split; [|exact H2]. destruct ps; [exact I| rewrite E; exact H1]. Qed.

Lemma desc_firstn : forall k c, desc c -> desc (firstn k c).
Proof.
  induction k; intros c H; [exact I|].
  destruct c as [|e r]; [exact I|]. simpl firstn.
  split; [| apply IHk; exact (desc_tail _ _ H)].
  destruct r as [|e' r']; [destruct k; exact I|].
  destruct k; [exact I|]. simpl. destruct H as [H1 _]. exact H1.
Qed.

Lemma desc_cons : forall e c, desc c -> c <> [] -> e_num e = tip c + 1 -> desc (e :: c).
Proof. intros e c H N E. destruct c; [congruence|]. split; [exact E| exact H]. Qed.

(* ---------- class maps stay duplicate-free ---------- *)
Definition keys (m : cmap) : list N := map fst m.

Lemma in_cins : forall k v m x, In x (keys (cins k v m)) -> x = k \/ In x (keys m).
Proof.
  induction m as [|[k' v'] r IH]; intros x H; simpl in *.
  - destruct H; auto.
  - destruct (k =? k') eqn:E; simpl in H.
    + apply N.eqb_eq in E. subst. destruct H; auto.
    + destruct H; auto. destruct (IH _ H); auto.
Qed.

Lemma cins_nodup : forall k v m, NoDup (keys m) -> NoDup (keys (cins k v m)).
Proof.
  induction m as [|[k' v'] r IH]; intros H; simpl.
  - constructor; [intros []| constructor].
  - inversion H as [|? ? Hn Hr]; subst. destruct (k =? k') eqn:E; simpl.
    + apply N.eqb_eq in E. subst. constructor; assumption.
    + constructor; [| apply IH; exact Hr].
      intro Hin. apply in_cins in Hin as [->|Hin]; [rewrite N.eqb_refl in E; discriminate| contradiction].
Qed.

Lemma ccopy_nodup : forall src dst, NoDup (keys dst) -> NoDup (keys (ccopy dst src)).
Proof.
  unfold ccopy. induction src as [|[k v] r IH]; intros dst H; simpl; [exact H|].
  apply IH. apply cins_nodup. exact H.
Qed.

Lemma cnorm_nodup : forall m, NoDup (keys (cnorm m)).
Proof. intros. apply ccopy_nodup. constructor. Qed.

Lemma mcc_nodup : forall b x, NoDup (keys b) -> NoDup (keys (merge_classes_copying b x)).
Proof. intros b x H. destruct x; [exact H|]. apply ccopy_nodup. exact H. Qed.

(* ---------- diffs form a monoid under Merge ---------- *)
Lemma merge_empty_l : forall d, merge empty_diff d = d.
Proof. destruct d; unfold merge; simpl. now rewrite !app_nil_r. Qed.

Lemma merge_empty_r : forall d, merge d empty_diff = d.
Proof. destruct d; unfold merge; simpl. now rewrite !app_nil_r. Qed.

Lemma merge_assoc : forall a b c, merge (merge a b) c = merge a (merge b c).
Proof. intros. unfold merge; simpl. now rewrite !app_assoc. Qed.

Lemma merge_all_acc : forall ds acc, merge_all acc ds = merge acc (merge_all empty_diff ds).
Proof.
  unfold merge_all. induction ds as [|d r IH]; intros acc; simpl.
  - now rewrite merge_empty_r.
  - rewrite IH. rewrite (IH (merge empty_diff d)). rewrite merge_empty_l. now rewrite merge_assoc.
Qed.

Lemma merge_all_app : forall a b acc, merge_all acc (a ++ b) = merge_all (merge_all acc a) b.
Proof. intros. unfold merge_all. now rewrite fold_left_app. Qed.

(* ---------- per-entry invariant ---------- *)
Definition entry_ok (e : entry) : Prop :=
  NoDup (keys (e_classes e)) /\ e_diff e = squash empty_diff (e_items e).

Definition inv (c : chain) : Prop := desc c /\ Forall entry_ok c.

Lemma adapt_checked_ok : forall b n cls e, NoDup (keys cls) -> adapt_checked b n cls = inr e ->
  e_num e = n /\ entry_ok e /\ e_id e = ub_id b /\ e_items e = ub_items b /\ e_classes e = cls.
Proof.
  intros b n cls e Hc H. unfold adapt_checked in H.
  destruct (ub_fault b =? 1); [discriminate|]. destruct (ub_fault b =? 2); [discriminate|].
  inversion H; subst; clear H. simpl. repeat split; auto.
Qed.

Lemma forall_skipn : forall {A} (P : A -> Prop) k l, Forall P l -> Forall P (skipn k l).
Proof. induction k; intros l H; simpl; auto. destruct l; auto. inversion H; auto. Qed.

Lemma forall_firstn : forall {A} (P : A -> Prop) k l, Forall P l -> Forall P (firstn k l).
Proof. induction k; intros l H; simpl; auto. destruct l; auto. inversion H; subst. constructor; auto. Qed.

Lemma replace_slot_inv : forall cur u bn bt cls c' a,
  inv cur -> NoDup (keys cls) -> bn <= tip cur ->
  replace_slot cur u bn bt cls = RApplied c' a -> inv c' /\ In a c'.
Proof.
  intros cur u bn bt cls c' a [D F] Hc Hle H. unfold replace_slot in H.
  destruct (skipn (N.to_nat (tip cur - bn)) cur) as [|target parents] eqn:Sk; [discriminate|].
  destruct (desc_skipn _ _ _ _ D Sk) as [Hn Dt].
  assert (Ft : Forall entry_ok (target :: parents)) by (rewrite <- Sk; apply forall_skipn; exact F).
  inversion Ft as [|? ? Ot Fp]; subst.
  destruct u as [b|d|].
  - destruct (adapt_checked b bn cls) as [e|next] eqn:A; [discriminate|].
    destruct (should_preserve target next); [discriminate|]. inversion H; subst; clear H.
    destruct (adapt_checked_ok _ _ _ _ Hc A) as (En & Eo & _).
    split; [|left; reflexivity]. split.
    + apply (desc_replace_head target); [exact Dt| lia].
    + constructor; assumption.
  - destruct (negb (Nat.eqb (N.to_nat (tip cur - bn)) 0)); [discriminate|].
    destruct (negb (len (e_items target) =? bt)); [discriminate|].
    destruct (negb (e_id target =? ud_id d)); [discriminate|].
    destruct (ud_fault d =? 1); [discriminate|]. inversion H; subst; clear H.
    split; [|left; reflexivity]. split.
    + apply (desc_replace_head target); [exact Dt| reflexivity].
    + constructor; [|exact Fp]. destruct Ot as [O1 O2]. split; simpl.
      * apply mcc_nodup. exact O1.
      * rewrite merge_empty_l, O2. unfold squash. rewrite map_app. now rewrite merge_all_app.
  - destruct cls as [|c0 cr]; [discriminate|].
    destruct (negb (Nat.eqb (N.to_nat (tip cur - bn)) 0)); [discriminate|].
    destruct (len (merge_classes_copying (e_classes target) (c0 :: cr)) =? len (e_classes target));
      [discriminate|]. inversion H; subst; clear H.
    split; [|left; reflexivity]. split.
    + apply (desc_replace_head target); [exact Dt| reflexivity].
    + constructor; [|exact Fp]. destruct Ot as [O1 O2]. split; [|exact O2].
      change (NoDup (keys (merge_classes_copying (e_classes target) (c0 :: cr)))).
      apply mcc_nodup. exact O1.
Qed.

Lemma compute_update_inv : forall cur u bn bt opc cls c' a,
  inv cur -> compute_update cur u bn bt opc cls = RApplied c' a -> inv c' /\ In a c'.
Proof.
  intros cur u bn bt opc cls c' a Iv H. unfold compute_update in H.
  pose proof (cnorm_nodup cls) as Hc.
  destruct cur as [|e0 r0].
  - destruct u as [b| |]; try discriminate. unfold bootstrap_chain in H.
    destruct (negb (bn =? opc)); [discriminate|].
    destruct (adapt_checked b bn (cnorm cls)) as [e|next] eqn:A; [discriminate|].
    inversion H; subst; clear H. destruct (adapt_checked_ok _ _ _ _ Hc A) as (En & Eo & _).
    split; [|left; reflexivity]. split; [split; exact I| constructor; [exact Eo| constructor]].
  - remember (e0 :: r0) as cur.
    destruct (negb (oldest cur =? opc)); [discriminate|].
    destruct (bn <? oldest cur); [discriminate|].
    destruct (tip cur + 1 <? bn) eqn:G; [discriminate|].
    destruct (bn =? tip cur + 1) eqn:E.
    + destruct u as [b| |]; try discriminate. unfold extend in H.
      destruct (adapt_checked b bn (cnorm cls)) as [e|next] eqn:A; [discriminate|].
      inversion H; subst c' a; clear H. destruct (adapt_checked_ok _ _ _ _ Hc A) as (En & Eo & _).
      destruct Iv as [D F]. split; [|left; reflexivity]. split.
      * apply desc_cons; [exact D| subst cur; discriminate| lia].
      * constructor; assumption.
    + apply (replace_slot_inv cur u bn bt (cnorm cls)); auto. lia.
Qed.

Lemma advance_inv : forall c n, inv c -> inv (fst (advance_to c n)).
Proof.
  intros c n [D F]. unfold advance_to. destruct c as [|e r]; [split; assumption|].
  remember (e :: r) as cur.
  destruct (n =? oldest cur); [split; assumption|].
  destruct (negb (contains cur n)); simpl; [split; [exact I| constructor]|].
  split; [apply desc_firstn; exact D| apply forall_firstn; exact F].
Qed.

Lemma step_inv : forall c o, inv c -> inv (fst (step c o)).
Proof.
  intros c o I. destruct o as [u bn bt opc cls|n|n]; simpl.
  - destruct (compute_update c u bn bt opc cls) as [e| |c' a] eqn:E; simpl; auto.
    apply (compute_update_inv _ _ _ _ _ _ _ _ I E).
  - pose proof (advance_inv c n I) as H. destruct (advance_to c n). exact H.
  - exact I.
Qed.

Lemma run_inv : forall ops c, inv c -> inv (fst (run c ops)).
Proof.
  induction ops as [|o r IH]; intros c I; simpl; [exact I|].
  pose proof (step_inv c o I) as H. destruct (step c o) as [c' x]. simpl in H.
  specialize (IH c' H). destruct (run c' r). exact IH.
Qed.

Lemma inv_nil : inv [].
Proof. split; [exact I| constructor]. Qed.

Lemma final_inv : forall ops, inv (final ops).
Proof. intros. apply run_inv. exact inv_nil. Qed.

Lemma contiguous_lemma : forall ops,
  contiguous_from (oldest (final ops)) (final ops) = true.
Proof.
  intros. unfold contiguous_from. apply list_eqb_eq. apply desc_contiguous. apply final_inv.
Qed.

Lemma classes_wf_lemma : forall ops e, In e (final ops) ->
  NoDup (keys (e_classes e)) /\ e_diff e = squash empty_diff (e_items e).
Proof.
  intros ops e H. destruct (final_inv ops) as [_ F]. rewrite Forall_forall in F. exact (F e H).
Qed.

(* the affected entry returned by ApplyUpdate is the entry now stored at the targeted slot *)
Lemma affected_lemma : forall ops u bn bt opc cls c' a,
  compute_update (final ops) u bn bt opc cls = RApplied c' a ->
  In a c' /\ e_num a = bn.
Proof.
  intros ops u bn bt opc cls c' a H.
  destruct (compute_update_inv _ _ _ _ _ _ _ _ (final_inv ops) H) as [_ Hin]. split; [exact Hin|].
  pose proof (final_inv ops) as [D F]. pose proof (cnorm_nodup cls) as Hc.
  unfold compute_update in H. destruct (final ops) as [|e0 r0].
  - destruct u as [b| |]; try discriminate. unfold bootstrap_chain in H.
    destruct (negb (bn =? opc)); [discriminate|].
    destruct (adapt_checked b bn (cnorm cls)) as [e|next] eqn:A; [discriminate|].
    inversion H; subst. now destruct (adapt_checked_ok _ _ _ _ Hc A).
  - remember (e0 :: r0) as cur.
    destruct (negb (oldest cur =? opc)); [discriminate|].
    destruct (bn <? oldest cur); [discriminate|].
    destruct (tip cur + 1 <? bn) eqn:G; [discriminate|].
    destruct (bn =? tip cur + 1) eqn:E.
    + destruct u as [b| |]; try discriminate. unfold extend in H.
      destruct (adapt_checked b bn (cnorm cls)) as [e|next] eqn:A; [discriminate|].
      inversion H; subst. now destruct (adapt_checked_ok _ _ _ _ Hc A).
    + unfold replace_slot in H.
      destruct (skipn (N.to_nat (tip cur - bn)) cur) as [|target parents] eqn:Sk; [discriminate|].
      destruct (desc_skipn _ _ _ _ D Sk) as [Hn _].
      assert (e_num target = bn) by lia.
      destruct u as [b|d|].
      * destruct (adapt_checked b bn (cnorm cls)) as [e|next] eqn:A; [discriminate|].
        destruct (should_preserve target next); [discriminate|]. inversion H; subst.
        now destruct (adapt_checked_ok _ _ _ _ Hc A).
      * destruct (negb (Nat.eqb (N.to_nat (tip cur - bn)) 0)); [discriminate|].
        destruct (negb (len (e_items target) =? bt)); [discriminate|].
        destruct (negb (e_id target =? ud_id d)); [discriminate|].
        destruct (ud_fault d =? 1); [discriminate|]. inversion H; subst. reflexivity.
      * destruct (cnorm cls) as [|c0 cr]; [discriminate|].
        destruct (negb (Nat.eqb (N.to_nat (tip cur - bn)) 0)); [discriminate|].
        destruct (len (merge_classes_copying (e_classes target) (c0 :: cr)) =? len (e_classes target));
          [discriminate|]. inversion H; subst. reflexivity.
Qed.

(* ---------- snapshots ---------- *)
Lemma snapshot_lemma : forall c n v, inv c -> snapshot c n = v -> v <> [] ->
  numbers v = nseq n (length v) /\ v = firstn (length v) c /\ tip v = tip c /\ desc v.
Proof.
  intros c n v [D F] S NE. unfold snapshot in S.
  destruct (contains c n) eqn:C; [|subst; congruence].
  destruct c as [|e r]; [discriminate|]. remember (e :: r) as cur.
  unfold contains in C. rewrite Heqcur in C at 1. apply andb_true_iff in C as [C1 C2].
  apply N.leb_le in C1, C2.
  pose proof (desc_len _ D) as L.
  set (k := N.to_nat (tip cur - n + 1)) in *.
  assert (Hk : (k <= length cur)%nat).
  { assert (length cur >= 1)%nat by (rewrite Heqcur; simpl; lia). unfold oldest in C1. subst k. lia. }
  assert (Hlen : length v = k) by (subst v; apply firstn_length_le; exact Hk).
  assert (Dv : desc v) by (subst v; apply desc_firstn; exact D).
  assert (Tv : tip v = tip cur).
  { subst v. subst cur. subst k. destruct (N.to_nat (tip (e :: r) - n + 1)) eqn:K; [lia|]. reflexivity. }
  split; [| split; [| split; [exact Tv| exact Dv]]].
  - assert (length cur >= 1)%nat by (rewrite Heqcur; simpl; lia).
    rewrite (desc_contiguous _ Dv). f_equal. unfold oldest. rewrite Tv, Hlen. subst k. lia.
  - rewrite Hlen. symmetry. exact S.
Qed.

Lemma snapshot_aligned_lemma : forall ops h,
  view_aligned h (snapshot (final ops) (h + 1)) = true.
Proof.
  intros ops h. unfold view_aligned.
  destruct (snapshot (final ops) (h + 1)) as [|e r] eqn:S; [reflexivity|].
  destruct (snapshot_lemma _ _ _ (final_inv ops) S) as [Hn _]; [discriminate|].
  unfold contiguous_from. apply list_eqb_eq. exact Hn.
Qed.

(* a snapshot never changes the store; ops that do not publish leave it as it is *)
Lemma snapshot_pure : forall c n, fst (step c (Snapshot n)) = c.
Proof. reflexivity. Qed.

(* ---------- lookups ---------- *)
Lemma find_tx_app : forall a b h,
  find_tx (a ++ b) h = match find_tx a h with Some t => Some t | None => find_tx b h end.
Proof. induction a as [|it a IH]; intros; simpl; [reflexivity|]. destruct (it_hash it =? h); auto. Qed.

Lemma tx_by_hash_flat : forall v h, tx_by_hash v h = find_tx (flat_map e_items v) h.
Proof.
  induction v as [|e r IH]; intros h; simpl; [reflexivity|].
  rewrite find_tx_app, IH. reflexivity.
Qed.

Lemma find_tx_some : forall its h t, find_tx its h = Some t ->
  exists it, In it its /\ it_hash it = h /\ it_tx it = t.
Proof.
  induction its as [|it r IH]; intros h t H; simpl in H; [discriminate|].
  destruct (it_hash it =? h) eqn:E.
  - inversion H; subst. apply N.eqb_eq in E. exists it. simpl; auto.
  - destruct (IH _ _ H) as (x & A & B). exists x. simpl; auto.
Qed.

Lemma find_tx_none : forall its h, find_tx its h = None <->
  (forall it, In it its -> it_hash it <> h).
Proof.
  induction its as [|it r IH]; intros h; simpl.
  - split; [intros _ x []| reflexivity].
  - destruct (it_hash it =? h) eqn:E.
    + apply N.eqb_eq in E. split; [discriminate|]. intro H. exfalso. apply (H it); auto.
    + apply N.eqb_neq in E. rewrite IH. split.
      * intros H x [<-|Hin]; auto.
      * intros H x Hin. apply H. auto.
Qed.

Lemma tx_lookup_lemma : forall v h,
  tx_by_hash v h = find_tx (flat_map e_items v) h /\
  (forall t, tx_by_hash v h = Some t ->
     exists e it, In e v /\ In it (e_items e) /\ it_hash it = h /\ it_tx it = t) /\
  (tx_by_hash v h = None <-> forall e it, In e v -> In it (e_items e) -> it_hash it <> h).
Proof.
  intros v h. split; [apply tx_by_hash_flat|]. split.
  - intros t H. rewrite tx_by_hash_flat in H. apply find_tx_some in H as (it & A & B & C).
    apply in_flat_map in A as (e & A1 & A2). exists e, it. auto.
  - rewrite tx_by_hash_flat, find_tx_none. split.
    + intros H e it A B. apply H. apply in_flat_map. exists e; auto.
    + intros H it A. apply in_flat_map in A as (e & A1 & A2). eapply H; eauto.
Qed.

Lemma find_rc_some : forall its h x, find_rc its h = Some x ->
  exists it, In it its /\ it_rhash it = h /\ it_rc it = x.
Proof.
  induction its as [|it r IH]; intros h t H; simpl in H; [discriminate|].
  destruct (it_rhash it =? h) eqn:E.
  - inversion H; subst. apply N.eqb_eq in E. exists it. simpl; auto.
  - destruct (IH _ _ H) as (x & A & B). exists x. simpl; auto.
Qed.

Lemma find_rc_none : forall its h, find_rc its h = None <->
  (forall it, In it its -> it_rhash it <> h).
Proof.
  induction its as [|it r IH]; intros h; simpl.
  - split; [intros _ x []| reflexivity].
  - destruct (it_rhash it =? h) eqn:E.
    + apply N.eqb_eq in E. split; [discriminate|]. intro H. exfalso. apply (H it); auto.
    + apply N.eqb_neq in E. rewrite IH. split.
      * intros H x [<-|Hin]; auto.
      * intros H x Hin. apply H. auto.
Qed.

Lemma rc_lookup_lemma : forall v h,
  (forall x n, rc_by_hash v h = Some (x, n) ->
     exists e it, In e v /\ e_num e = n /\ In it (e_items e) /\ it_rhash it = h /\ it_rc it = x) /\
  (rc_by_hash v h = None <-> forall e it, In e v -> In it (e_items e) -> it_rhash it <> h) /\
  (forall e r, v = e :: r -> rc_by_hash v h =
     match find_rc (e_items e) h with Some x => Some (x, e_num e) | None => rc_by_hash r h end).
Proof.
  intros v h. split; [|split].
  - induction v as [|e r IH]; intros x n H; simpl in H; [discriminate|].
    destruct (find_rc (e_items e) h) eqn:F.
    + inversion H; subst. apply find_rc_some in F as (it & A & B & C). exists e, it. simpl; auto 6.
    + destruct (IH _ _ H) as (e' & it & A & B). exists e', it. simpl; tauto.
  - induction v as [|e r IH]; simpl.
    + split; [intros _ e it []| reflexivity].
    + destruct (find_rc (e_items e) h) eqn:F.
      * split; [discriminate|]. intro H. exfalso.
        apply find_rc_some in F as (it & A & B & C). apply (H e it); auto.
      * rewrite IH. split.
        -- intros H e' it [<-|Hin] B; [apply (proj1 (find_rc_none _ _) F); auto| eapply H; eauto].
        -- intros H e' it A B. apply (H e' it); auto.
  - intros e r ->. reflexivity.
Qed.
