(* C20 — single writer / lock-free readers: with Load and CompareAndSwap as separate steps and
   reader loads interleaved anywhere, the CAS never fails, the published chain is the sequential
   run of the completed writer ops, and every view handed to a reader is a snapshot of the chain
   published after some prefix of them. *)
From Coq Require Import List NArith Bool Lia ZifyN ZifyNat ZifyBool.
From V Require Import C20.Model C20.Proofs.
Import ListNotations.
Open Scope N_scope.

Lemma run_app : forall a b c, fst (run c (a ++ b)) = fst (run (fst (run c a)) b).
Proof.
  induction a as [|o a IH]; intros b c; simpl; [reflexivity|].
  destruct (step c o) as [c' x]. specialize (IH b c').
  destruct (run c' (a ++ b)) as [c2 xs] eqn:E1. destruct (run c' a) as [c3 ys] eqn:E2. simpl in *.
  exact IH.
Qed.

Lemma final_snoc : forall done o, final (done ++ [o]) = fst (step (final done) o).
Proof.
  intros. unfold final. rewrite run_app. simpl.
  destruct (step (fst (run [] done)) o). reflexivity.
Qed.

Lemma advance_false : forall c n, snd (advance_to c n) = false -> fst (advance_to c n) = c.
Proof.
  intros c n. unfold advance_to. destruct c as [|e r]; [reflexivity|].
  destruct (n =? oldest (e :: r)); [reflexivity|].
  destruct (negb (contains (e :: r) n)); simpl; discriminate.
Qed.

Lemma step_nopub : forall c o, publishes c o = false -> fst (step c o) = c.
Proof.
  intros c o H. unfold publishes in H. destruct o as [u bn bt opc cls|n|n]; simpl in *.
  - destruct (compute_update c u bn bt opc cls) as [e| |c' a]; [reflexivity|reflexivity|discriminate].
  - pose proof (advance_false c n) as A. destruct (advance_to c n) as [c' b]. simpl in *.
    destruct b; [discriminate| now apply A].
  - reflexivity.
Qed.

Definition wr_ok (s : cstate) (p : option op) : Prop :=
  match p with
  | None => c_wr s = None
  | Some o => c_wr s = Some (c_ver s, c_pub s, o)
  end.

Definition view_ok (done : list op) (v : chain) : Prop :=
  exists k bn, (k <= length done)%nat /\ v = snapshot (final (firstn k done)) bn.

Definition cinv (s : cstate) (p : option op) (done : list op) : Prop :=
  c_pub s = final done /\ c_cas_failed s = false /\ wr_ok s p /\ Forall (view_ok done) (c_views s).

Lemma view_ok_snoc : forall done o v, view_ok done v -> view_ok (done ++ [o]) v.
Proof.
  intros done o v (k & bn & Hk & E). exists k, bn. split; [rewrite app_length; lia|].
  rewrite firstn_app. replace (k - length done)%nat with O by lia. simpl. now rewrite app_nil_r.
Qed.

Definition is_some {A} (p : option A) : bool := match p with Some _ => true | None => false end.

Lemma cas_gen : forall evs s p done,
  cinv s p done -> single_writer (is_some p) evs = true ->
  exists p', cinv (crun s evs) p' (done ++ completed p evs).
Proof.
  induction evs as [|e r IH]; intros s p done Hinv Hsw.
  - exists p. simpl. now rewrite app_nil_r.
  - destruct Hinv as (Hp & Hf & Hw & Hv). destruct e as [o| |bn]; simpl in Hsw.
    + apply andb_true_iff in Hsw as [Hn Hsw]. destruct p; [discriminate|]. simpl.
      apply (IH _ (Some o) done); [|exact Hsw].
      split; [exact Hp| split; [exact Hf| split; [reflexivity| exact Hv]]].
    + apply andb_true_iff in Hsw as [Hn Hsw]. destruct p as [o|]; [|discriminate].
      simpl in Hw. change (crun s (WCas :: r)) with (crun (cstep s WCas) r).
      unfold cstep. rewrite Hw.
      simpl completed.
      replace (done ++ o :: completed None r) with ((done ++ [o]) ++ completed None r)
        by (rewrite <- app_assoc; reflexivity).
      assert (Hv' : Forall (view_ok (done ++ [o])) (c_views s)).
      { eapply Forall_impl; [|exact Hv]. intros v. apply view_ok_snoc. }
      destruct (publishes (c_pub s) o) eqn:P; simpl.
      * rewrite N.eqb_refl. apply (IH _ None (done ++ [o])); [|exact Hsw].
        split; [|split; [exact Hf| split; [reflexivity| exact Hv']]].
        simpl. rewrite final_snoc, Hp. reflexivity.
      * apply (IH _ None (done ++ [o])); [|exact Hsw].
        split; [|split; [exact Hf| split; [reflexivity| exact Hv']]].
        simpl. rewrite final_snoc, <- Hp. symmetry. now apply step_nopub.
    + simpl. apply (IH _ p done); [|exact Hsw].
      split; [exact Hp| split; [exact Hf| split]].
      * destruct p; exact Hw.
      * constructor; [|exact Hv]. exists (length done), bn. split; [lia|].
        simpl. rewrite firstn_all, Hp. reflexivity.
Qed.

Lemma cas_lemma : forall evs,
  single_writer false evs = true ->
  let s := crun cinit evs in
  let done := completed None evs in
  c_cas_failed s = false /\ c_pub s = final done /\
  Forall (fun v => exists k bn, (k <= length done)%nat /\
                               v = snapshot (final (firstn k done)) bn) (c_views s).
Proof.
  intros evs H. destruct (cas_gen evs cinit None []) as (p' & A & B & C & D).
  - split; [reflexivity| split; [reflexivity| split; [reflexivity| constructor]]].
  - exact H.
  - simpl in *. auto.
Qed.

(* views already handed out are never touched by later events *)
Lemma views_kept : forall evs s, exists fresh, c_views (crun s evs) = fresh ++ c_views s.
Proof.
  induction evs as [|e r IH]; intros s; [exists []; reflexivity|].
  simpl. destruct (IH (cstep s e)) as [fresh E]. rewrite E.
  destruct e as [o| |bn]; simpl.
  - exists fresh. reflexivity.
  - unfold cstep. destruct (c_wr s) as [[[v cur] o]|]; [|exists fresh; reflexivity].
    match goal with |- context [if negb ?b then _ else _] => destruct b end; simpl;
      [destruct (v =? c_ver s)|]; exists fresh; reflexivity.
  - exists (fresh ++ [snapshot (c_pub s) bn]). now rewrite <- app_assoc.
Qed.

(* purely functional statement: what a Snapshot op returned is a value; later ops of the run do
   not occur in it *)
Lemma snapshot_value : forall c n ops, snapshot c n = snapshot c n /\
  snd (step c (Snapshot n)) = OSnap (snapshot c n) /\ fst (run (fst (step c (Snapshot n))) ops) = fst (run c ops).
Proof. intros. repeat split. Qed.
