(* C20 — heap-level model: the sn2core adapters (AdaptPreConfirmedBlock, AdaptPreConfirmedWithDelta)
   and the class-map helpers allocate only, write only to what they allocated, and denote the list
   model's [adapt_block] / [adapt_delta] / [merge_classes_copying] / [merge_classes_into]. *)
From Coq Require Import List NArith Arith Bool Lia ZifyN ZifyNat ZifyBool.
From V Require Import C20.Model C20.Proofs C20.Proofs_heap_base C20.Proofs_heap_merge.
Import ListNotations.
Open Scope N_scope.

(* h' extends h: same objects below h_next h, both well-formed *)
Definition ext (h h' : heap) : Prop :=
  hwf h /\ hwf h' /\ h_next h <= h_next h' /\ agree_below (h_next h) h h'.

Lemma ext_refl : forall h, hwf h -> ext h h.
Proof. intros h W. unfold ext. splits; auto using agree_refl. lia. Qed.

Lemma ext_trans : forall a b c, ext a b -> ext b c -> ext a c.
Proof.
  intros a b c (W1 & W2 & L1 & A1) (_ & W3 & L2 & A2). unfold ext. splits; auto; try lia.
  eapply agree_trans; [exact A1|]. eapply agree_mono; [exact A2|exact L1].
Qed.

Lemma ext_alloc : forall h o h' i, hwf h -> below (h_next h) (refs o) -> halloc h o = (h', i) -> ext h h'.
Proof.
  intros h o h' i W B E. unfold ext. splits; [exact W|eapply hwf_alloc; eassumption| |eapply agree_alloc; [exact E|lia]].
  apply halloc_inv in E. lia.
Qed.

Section Ext.
  Variables (h h' : heap).
  Hypothesis X : ext h h'.
  Let A := proj2 (proj2 (proj2 X)).
  Let C := hwf_closed h (proj1 X).

  Lemma ext_hget : forall i, i < h_next h -> hget h' i = hget h i.
  Proof. exact A. Qed.
  Lemma ext_gmap : forall i, i < h_next h -> gmap h' i = gmap h i.
  Proof. exact (gmap_frame _ h h' A). Qed.
  Lemma ext_gcls : forall o, below (h_next h) (oref o) -> gcls h' o = gcls h o.
  Proof. exact (gcls_frame _ h h' A). Qed.
  Lemma ext_sl_cells : forall s, below (h_next h) (sref s) -> sl_cells h' s = sl_cells h s.
  Proof. exact (sl_cells_frame _ h h' A). Qed.
  Lemma ext_denote_diff : forall i, i < h_next h -> denote_diff h' i = denote_diff h i.
  Proof. exact (denote_diff_frame _ h h' A C). Qed.
  Lemma ext_dnodup : forall i, i < h_next h -> dnodup h i -> dnodup h' i.
  Proof. exact (dnodup_frame _ h h' A C). Qed.
  Lemma ext_hdr_num : forall i, i < h_next h -> hdr_num h' i = hdr_num h i.
  Proof. exact (hdr_num_frame _ h h' A). Qed.
  Lemma ext_su_diff : forall i, i < h_next h -> su_diff h' i = su_diff h i.
  Proof. exact (su_diff_frame _ h h' A). Qed.
  Lemma ext_zip_items : forall txs rcs tds, below (h_next h) (flat_map cref tds) ->
    zip_items h' txs rcs tds = zip_items h txs rcs tds.
  Proof. exact (zip_items_frame _ h h' A C). Qed.
  Lemma ext_denote_pcv : forall p, below (h_next h) (prefs p) -> denote_pcv h' p = denote_pcv h p.
  Proof. exact (denote_pcv_frame _ h h' A C). Qed.
  Lemma ext_pcv_ok : forall p, below (h_next h) (prefs p) -> pcv_ok h p -> pcv_ok h' p.
  Proof. exact (pcv_ok_frame _ h h' A C). Qed.
  Lemma ext_gpcv : forall i, i < h_next h -> gpcv h' i = gpcv h i.
  Proof. exact (gpcv_frame _ h h' A). Qed.
  Lemma ext_denote_entry : forall i, i < h_next h -> denote_entry h' i = denote_entry h i.
  Proof. exact (denote_entry_frame _ h h' A C). Qed.
  Lemma ext_entry_ok : forall i, i < h_next h -> entry_ok h i -> entry_ok h' i.
  Proof. exact (entry_ok_frame _ h h' A C). Qed.
  Lemma ext_entry_num : forall i, i < h_next h -> entry_num h' i = entry_num h i.
  Proof. exact (entry_num_frame _ h h' A C). Qed.
  Lemma ext_walk : forall k o, below (h_next h) (oref o) -> walk_entries h' o k = walk_entries h o k.
  Proof. exact (walk_entries_frame _ h h' A C). Qed.
  Lemma ext_nodes_ok : forall k o, below (h_next h) (oref o) -> nodes_ok h o k -> nodes_ok h' o k.
  Proof. exact (nodes_ok_frame _ h h' A C). Qed.
  Lemma ext_denote_view : forall v, below (h_next h) (oref (fst v)) -> denote_view h' v = denote_view h v.
  Proof. exact (denote_view_frame _ h h' A C). Qed.
  Lemma ext_view_ok : forall v, view_ok h v -> view_ok h' v.
  Proof.
    intros v [B K]. split; [eapply below_mono; [exact B|exact (proj1 (proj2 (proj2 X)))]|].
    apply ext_nodes_ok; assumption.
  Qed.
  Lemma ext_below : forall l, below (h_next h) l -> below (h_next h') l.
  Proof. intros l B. eapply below_mono; [exact B|exact (proj1 (proj2 (proj2 X)))]. Qed.
End Ext.

(* ---------- the per-transaction state diffs ---------- *)
Lemma h_adapt_sds_spec : forall ws h h' ids, hwf h -> h_adapt_sds h ws = (h', ids) ->
  ext h h' /\ Forall (fun i => h_next h <= i < h_next h') ids /\
  Forall2 (fun i w => deq (denote_diff h' i) w) ids ws /\ Forall (dnodup h') ids.
Proof.
  induction ws as [|w r IH]; intros h h' ids W E; cbn [h_adapt_sds] in E.
  - inversion E; subst. splits; auto using ext_refl.
  - destruct (h_adapt_sd h w) as [h1 i] eqn:E1. destruct (h_adapt_sds h1 r) as [h2 l] eqn:E2.
    inversion E; subst; clear E.
    destruct (h_adapt_sd_spec _ _ _ _ W E1) as (W1 & Li & Li' & A1 & D1 & N1).
    destruct (IH _ _ _ W1 E2) as (X2 & F2 & D2 & N2).
    assert (X1 : ext h h1) by (unfold ext; splits; auto; lia).
    pose proof X2 as (_ & _ & L2 & _).
    splits.
    + eapply ext_trans; eassumption.
    + constructor; [lia|]. eapply Forall_impl; [|exact F2]. simpl. intros. lia.
    + constructor; [|exact D2]. rewrite (ext_denote_diff _ _ X2) by exact Li'. exact D1.
    + constructor; [|exact N2]. apply (ext_dnodup _ _ X2); assumption.
Qed.

Lemma ieq_refl_items : forall h its ids,
  Forall2 (fun i w => deq (denote_diff h i) w) ids (map it_diff its) ->
  Forall2 ieq (zip_items h (tx_cells its) (rc_cells its) (map CRef ids)) its.
Proof.
  induction its as [|it its IH]; intros ids F; inversion F; subst; [constructor|].
  cbn [tx_cells rc_cells map zip_items]. constructor.
  - unfold ieq. cbn [it_hash it_tx it_rhash it_rc it_diff]. splits; auto.
  - apply IH. assumption.
Qed.

Lemma forall2_length : forall {A B} (R : A -> B -> Prop) l l', Forall2 R l l' -> length l = length l'.
Proof. induction 1; simpl; auto. Qed.

Lemma below_crefs : forall n ids, Forall (fun i => i < n) ids -> below n (flat_map cref (map CRef ids)).
Proof. induction ids; intro F; inversion F; subst; simpl; constructor; auto. apply IHids. assumption. Qed.

Lemma below_tx_cells : forall n its, below n (flat_map cref (tx_cells its)).
Proof. induction its; simpl; [constructor|assumption]. Qed.
Lemma below_rc_cells : forall n its, below n (flat_map cref (rc_cells its)).
Proof. induction its; simpl; [constructor|assumption]. Qed.

Lemma ref_cells_map : forall ids, ref_cells (map CRef ids) = ids.
Proof. induction ids; simpl; [reflexivity|f_equal; assumption]. Qed.

Lemma mk_slice_ext : forall h c h' s, hwf h -> below (h_next h) (flat_map cref c) -> mk_slice h c = (h', s) ->
  ext h h' /\ sl_cells h' s = c /\ below (h_next h') (sref s) /\ s_len s = len c /\ slice_ok h' s.
Proof.
  intros h c h' s W B E. destruct (mk_slice_spec _ _ _ _ W B E) as (W1 & L1 & A1 & C1 & B1 & LN & _ & SO).
  unfold ext. splits; auto.
Qed.

Lemma forall2_deq_map : forall h h' ids ws, (forall i, In i ids -> denote_diff h' i = denote_diff h i) ->
  Forall2 (fun i w => deq (denote_diff h i) w) ids ws -> Forall2 (fun i w => deq (denote_diff h' i) w) ids ws.
Proof.
  intros h h' ids ws E F. induction F; constructor.
  - rewrite E by (left; reflexivity). assumption.
  - apply IHF. intros i I. apply E. right. exact I.
Qed.

Lemma forall2_map_l : forall {A B C} (R : B -> C -> Prop) (f : A -> B) l l',
  Forall2 (fun x y => R (f x) y) l l' -> Forall2 R (map f l) l'.
Proof. induction 1; simpl; constructor; auto. Qed.

(* the merged diff of a block / delta: EmptyStateDiff() followed by Merges of diffs that live below it *)
Lemma fresh_merge_spec : forall h h5 d incs, hwf h -> h_empty_diff h = (h5, d) ->
  Forall (fun i => i < h_next h /\ dnodup h i) incs ->
  let h6 := hmerge_all h5 d incs in
  ext h h6 /\ d < h_next h6 /\ h_next h <= d /\ own h6 d (h_next h) /\
  deq (denote_diff h6 d) (merge_all empty_diff (map (denote_diff h) incs)).
Proof.
  intros h h5 d incs W E FI h6. subst h6.
  destruct (h_empty_diff_spec _ _ _ W E) as (W5 & N5 & -> & A5 & (b & d0 & O5) & D5).
  pose proof (closed_mono_wf h _ h5 W eq_refl A5) as CL5.
  assert (FI5 : Forall (fun i => i < h_next h /\ dnodup h5 i) incs).
  { eapply Forall_impl; [|exact FI]. simpl. intros x [Lx Dx]. split; [exact Lx|].
    exact (dnodup_frame _ h h5 A5 (hwf_closed h W) x Lx Dx). }
  destruct (hmerge_all_spec incs h5 _ (h_next h) b d0 W5 O5 CL5 FI5) as (W6 & L6 & A6 & (d0' & O6 & _) & _ & D6).
  splits.
  - unfold ext. splits; auto; try lia. eapply agree_trans; eassumption.
  - lia.
  - lia.
  - exists b, d0'. exact O6.
  - rewrite D5 in D6. eapply deq_trans; [exact D6|].
    assert (E' : map (denote_diff h5) incs = map (denote_diff h) incs).
    { apply map_ext_in. intros x Ix. rewrite Forall_forall in FI. destruct (FI x Ix) as [Lx _].
      exact (denote_diff_frame _ h h5 A5 (hwf_closed h W) x Lx). }
    rewrite E'. apply deq_refl.
Qed.

Lemma h_adapt_block_spec : forall h b n cls h' p, hwf h -> below (h_next h) (oref cls) ->
  h_adapt_block h b n cls = (h', p) ->
  ext h h' /\ below (h_next h') (prefs p) /\ pcv_ok h' p /\ p_cls p = cls /\ p_ident p = ub_id b /\
  eeq (denote_pcv h' p) (mkEntry n (ub_id b) (ub_items b) (squash empty_diff (ub_items b)) (gcls h cls)).
Proof.
  intros h b n cls h' p W BC E. unfold h_adapt_block in E.
  destruct (h_adapt_sds h (map it_diff (ub_items b))) as [h1 sds] eqn:E1.
  destruct (mk_slice h1 (tx_cells (ub_items b))) as [h2 txs] eqn:E2.
  destruct (mk_slice h2 (rc_cells (ub_items b))) as [h3 rcs] eqn:E3.
  destruct (mk_slice h3 (map CRef sds)) as [h4 tds] eqn:E4.
  destruct (h_empty_diff h4) as [h5 d] eqn:E5.
  destruct (halloc (hmerge_all h5 d sds) (OSU d)) as [h7 su] eqn:E7.
  destruct (halloc h7 (OHeader n)) as [h8 hdr] eqn:E8.
  destruct (halloc h8 (OBlock hdr txs rcs)) as [h9 blk] eqn:E9.
  inversion E; subst h9 p; clear E.
  destruct (h_adapt_sds_spec _ _ _ _ W E1) as (X1 & F1 & D1 & N1).
  pose proof X1 as (_ & W1 & L1 & _).
  destruct (mk_slice_ext _ _ _ _ W1 (below_tx_cells _ _) E2) as (X2 & C2 & B2 & LN2 & SO2).
  pose proof X2 as (_ & W2 & L2 & _).
  destruct (mk_slice_ext _ _ _ _ W2 (below_rc_cells _ _) E3) as (X3 & C3 & B3 & LN3 & SO3).
  pose proof X3 as (_ & W3 & L3 & _).
  assert (BS : below (h_next h3) (flat_map cref (map CRef sds))).
  { apply below_crefs. eapply Forall_impl; [|exact F1]. simpl. intros. lia. }
  destruct (mk_slice_ext _ _ _ _ W3 BS E4) as (X4 & C4 & B4 & LN4 & SO4).
  pose proof X4 as (_ & W4 & L4 & _).
  assert (X14 : ext h1 h4) by (eapply ext_trans; [exact X2|eapply ext_trans; eassumption]).
  assert (FI : Forall (fun i => i < h_next h4 /\ dnodup h4 i) sds).
  { rewrite Forall_forall in *. intros x Ix. specialize (F1 x Ix). simpl in F1. split; [lia|].
    apply (ext_dnodup _ _ X14); [lia|apply N1; exact Ix]. }
  destruct (fresh_merge_spec h4 h5 d sds W4 E5 FI) as (X6 & Ld6 & Ld4 & O6 & D6).
  set (h6 := hmerge_all h5 d sds) in *.
  pose proof X6 as (_ & W6 & L6 & _).
  assert (X7 : ext h6 h7) by (eapply ext_alloc; [exact W6| |exact E7]; cbn [refs]; apply below_one; exact Ld6).
  pose proof X7 as (_ & W7 & L7 & _).
  assert (X8 : ext h7 h8) by (eapply ext_alloc; [exact W7| |exact E8]; constructor).
  pose proof X8 as (_ & W8 & L8 & _).
  apply halloc_inv in E7. destruct E7 as (-> & NX7 & G7 & _).
  apply halloc_inv in E8. destruct E8 as (-> & NX8 & G8 & _).
  assert (X9 : ext h8 h').
  { eapply ext_alloc; [exact W8| |exact E9]. cbn [refs]. constructor; [lia|]. apply below_app. split.
    - eapply below_mono; [exact B2|lia].
    - eapply below_mono; [exact B3|lia]. }
  pose proof X9 as (_ & W9 & L9 & _).
  apply halloc_inv in E9. destruct E9 as (-> & NX9 & G9 & _).
  (* extensions up to the final heap *)
  assert (X89 := X9). assert (X79 : ext h7 h') by (eapply ext_trans; eassumption).
  assert (X69 : ext h6 h') by (eapply ext_trans; eassumption).
  assert (X49 : ext h4 h') by (eapply ext_trans; eassumption).
  assert (X39 : ext h3 h') by (eapply ext_trans; eassumption).
  assert (X29 : ext h2 h') by (eapply ext_trans; eassumption).
  assert (X19 : ext h1 h') by (eapply ext_trans; eassumption).
  assert (X09 : ext h h') by (eapply ext_trans; eassumption).
  (* what the new objects hold in the final heap *)
  assert (Ctx : sl_cells h' txs = tx_cells (ub_items b)) by (rewrite (ext_sl_cells _ _ X29) by exact B2; exact C2).
  assert (Crc : sl_cells h' rcs = rc_cells (ub_items b)) by (rewrite (ext_sl_cells _ _ X39) by exact B3; exact C3).
  assert (Ctd : sl_cells h' tds = map CRef sds) by (rewrite (ext_sl_cells _ _ X49) by exact B4; exact C4).
  assert (Gsu : su_diff h' (h_next h6) = d).
  { unfold su_diff. rewrite (ext_hget _ _ X79) by lia. rewrite G7. reflexivity. }
  assert (Ghd : hdr_num h' (h_next h7) = n).
  { unfold hdr_num. rewrite (ext_hget _ _ X89) by lia. rewrite G8. reflexivity. }
  assert (D9 : Forall2 (fun i w => deq (denote_diff h' i) w) sds (map it_diff (ub_items b))).
  { eapply forall2_deq_map; [|exact D1]. intros i Ii. rewrite Forall_forall in F1. specialize (F1 i Ii). simpl in F1.
    apply (ext_denote_diff _ _ X19). lia. }
  pose proof (ieq_refl_items h' _ _ D9) as ZI.
  assert (LZ := forall2_length _ _ _ ZI).
  splits.
  - exact X09.
  - unfold prefs. cbn [p_blk p_su p_cls p_txd]. constructor; [lia|]. constructor; [lia|]. apply below_app. split.
    + eapply below_mono; [exact BC|]. destruct X09 as (_ & _ & L & _). exact L.
    + apply (ext_below _ _ X49). exact B4.
  - exists (h_next h7), txs, rcs. cbn [p_blk p_su p_cls p_txd]. split; [exact G9|]. cbv zeta.
    rewrite Ctx, Crc, Ctd, LN2, len_length, Gsu, ref_cells_map. unfold tx_cells, rc_cells in *. rewrite !map_length in *.
    splits; auto.
    + apply forall2_length in D9. rewrite map_length in D9. exact D9.
    + apply (ext_dnodup _ _ X69); [exact Ld6|]. eapply own_dnodup. exact O6.
    + rewrite Forall_forall in *. intros x Ix. specialize (F1 x Ix). simpl in F1.
      apply (ext_dnodup _ _ X19); [lia|apply N1; exact Ix].
  - reflexivity.
  - reflexivity.
  - unfold denote_pcv. cbn [p_blk p_su p_cls p_txd p_ident]. rewrite G9, Ctx, Crc, Ctd, Gsu, Ghd.
    unfold eeq. cbn [e_num e_id e_items e_diff e_classes]. splits; auto.
    + rewrite (ext_denote_diff _ _ X69) by exact Ld6. eapply deq_trans; [exact D6|]. unfold squash.
      apply deq_merge_all; [apply deq_refl|]. apply forall2_map_l.
      eapply forall2_deq_map; [|exact D1]. intros i Ii. rewrite Forall_forall in F1. specialize (F1 i Ii). simpl in F1.
      apply (ext_denote_diff _ _ X14). lia.
    + apply (ext_gcls _ _ X09). exact BC.
Qed.

(* ---------- AdaptPreConfirmedWithDelta ---------- *)
Lemma zip_items_app : forall h a b c a' b' c',
  length (zip_items h a b c) = length a -> length b = length a -> length c = length a ->
  zip_items h (a ++ a') (b ++ b') (c ++ c') = zip_items h a b c ++ zip_items h a' b' c'.
Proof.
  induction a as [|x a IH]; intros b c a' b' c' LZ LB LC.
  - destruct b; [|discriminate]. destruct c; [|discriminate]. reflexivity.
  - destruct b as [|y b]; [discriminate|]. destruct c as [|z c]; [discriminate|].
    destruct x; try discriminate. destruct y; try discriminate. destruct z; try discriminate.
    cbn [app zip_items] in *. f_equal. apply IH; simpl in *; lia.
Qed.

Lemma pad_id : forall n c, length c = n -> pad n c = c.
Proof. intros n c L. unfold pad. apply firstn_exact. auto. Qed.

Lemma ieq_refl : forall x, ieq x x.
Proof. intro x. unfold ieq. splits; auto using deq_refl. Qed.

Lemma ref_cells_app : forall a b, ref_cells (a ++ b) = ref_cells a ++ ref_cells b.
Proof. intros. unfold ref_cells. apply flat_map_app. Qed.

Lemma eeq_refl : forall e, eeq e e.
Proof. intro e. unfold eeq. splits; auto using deq_refl. apply forall2_refl. apply ieq_refl. Qed.

Lemma h_adapt_delta_spec : forall h cur dl h' p, hwf h -> below (h_next h) (prefs cur) -> pcv_ok h cur ->
  h_adapt_delta h cur dl = (h', p) ->
  ext h h' /\ below (h_next h') (prefs p) /\ pcv_ok h' p /\ p_cls p = p_cls cur /\ p_ident p = p_ident cur /\
  eeq (denote_pcv h' p) (adapt_delta (denote_pcv h cur) dl).
Proof.
  intros h cur dl h' p W BP (hdr & txs & rcs & GB & KZ & KT & KR & KD & DNC & DNT) E.
  cbv zeta in KZ, KT, KR, KD. unfold h_adapt_delta in E. rewrite GB in E.
  destruct (prefs_inv _ _ BP) as (Lblk & Lsu & Bcls & Btxd).
  destruct (block_refs _ h (hwf_closed h W) _ _ _ _ Lblk GB) as (Lhdr & Btxs & Brcs).
  destruct (h_adapt_sds h (map it_diff (ud_items dl))) as [h1 sds] eqn:E1.
  destruct (h_adapt_sds_spec _ _ _ _ W E1) as (X1 & F1 & D1 & N1).
  pose proof X1 as (_ & W1 & L1 & _).
  set (n := N.to_nat (s_len txs)) in *.
  rewrite (ext_sl_cells _ _ X1) in E by exact Btxs. rewrite (pad_id n (sl_cells h txs)) in E by exact KT.
  destruct (mk_slice h1 (sl_cells h txs ++ tx_cells (ud_items dl))) as [h2 mtx] eqn:E2.
  assert (B2 : below (h_next h1) (flat_map cref (sl_cells h txs ++ tx_cells (ud_items dl)))).
  { rewrite flat_map_app. apply below_app. split; [|apply below_tx_cells].
    eapply below_mono; [apply (below_sl_cells_wf _ _ W Btxs)|exact L1]. }
  destruct (mk_slice_ext _ _ _ _ W1 B2 E2) as (X2 & C2 & BB2 & LN2 & SO2).
  pose proof X2 as (_ & W2 & L2 & _).
  assert (X02 : ext h h2) by exact (ext_trans _ _ _ X1 X2).
  rewrite (ext_sl_cells _ _ X02) in E by exact Brcs. rewrite (pad_id n (sl_cells h rcs)) in E by exact KR.
  destruct (mk_slice h2 (sl_cells h rcs ++ rc_cells (ud_items dl))) as [h3 mrc] eqn:E3.
  assert (B3 : below (h_next h2) (flat_map cref (sl_cells h rcs ++ rc_cells (ud_items dl)))).
  { rewrite flat_map_app. apply below_app. split; [|apply below_rc_cells].
    eapply below_mono; [apply (below_sl_cells_wf _ _ W Brcs)|lia]. }
  destruct (mk_slice_ext _ _ _ _ W2 B3 E3) as (X3 & C3 & BB3 & LN3 & SO3).
  pose proof X3 as (_ & W3 & L3 & _).
  assert (X03 : ext h h3) by exact (ext_trans _ _ _ X02 X3).
  rewrite (ext_sl_cells _ _ X03) in E by exact Btxd. rewrite (pad_id n (sl_cells h (p_txd cur))) in E by exact KD.
  destruct (mk_slice h3 (sl_cells h (p_txd cur) ++ map CRef sds)) as [h4 mtd] eqn:E4.
  assert (B4 : below (h_next h3) (flat_map cref (sl_cells h (p_txd cur) ++ map CRef sds))).
  { rewrite flat_map_app. apply below_app. split.
    - eapply below_mono; [apply (below_sl_cells_wf _ _ W Btxd)|lia].
    - apply below_crefs. eapply Forall_impl; [|exact F1]. simpl. intros. lia. }
  destruct (mk_slice_ext _ _ _ _ W3 B4 E4) as (X4 & C4 & BB4 & LN4 & SO4).
  pose proof X4 as (_ & W4 & L4 & _).
  assert (X04 : ext h h4) by exact (ext_trans _ _ _ X03 X4).
  assert (X14 : ext h1 h4) by exact (ext_trans _ _ _ X2 (ext_trans _ _ _ X3 X4)).
  destruct (h_empty_diff h4) as [h5 d] eqn:E5.
  destruct (h_empty_diff_spec _ _ _ W4 E5) as (W5 & N5 & _ & A5 & _ & _).
  assert (X45 : ext h4 h5) by (unfold ext; splits; auto; lia).
  assert (X05 : ext h h5) by exact (ext_trans _ _ _ X04 X45).
  rewrite (ext_su_diff _ _ X05) in E by exact Lsu.
  set (cd := su_diff h (p_su cur)) in *.
  assert (Lcd : cd < h_next h) by (apply (su_diff_below _ h (hwf_closed h W)); exact Lsu).
  change (hmerge_all (hmerge h5 d cd) d sds) with (hmerge_all h5 d (cd :: sds)) in E.
  assert (FI : Forall (fun i => i < h_next h4 /\ dnodup h4 i) (cd :: sds)).
  { constructor.
    - split; [lia|]. apply (ext_dnodup _ _ X04); assumption.
    - rewrite Forall_forall in *. intros x Ix. specialize (F1 x Ix). simpl in F1. split; [lia|].
      apply (ext_dnodup _ _ X14); [lia|apply N1; exact Ix]. }
  destruct (fresh_merge_spec h4 h5 d (cd :: sds) W4 E5 FI) as (X7 & Ld7 & Ld4 & O7 & D7).
  set (h7 := hmerge_all h5 d (cd :: sds)) in *.
  pose proof X7 as (_ & W7 & L7 & _).
  assert (X07 : ext h h7) by exact (ext_trans _ _ _ X04 X7).
  rewrite (ext_hdr_num _ _ X07) in E by exact Lhdr.
  destruct (halloc h7 (OHeader (hdr_num h hdr))) as [h8 nhdr] eqn:E8.
  destruct (halloc h8 (OBlock nhdr mtx mrc)) as [h9 nblk] eqn:E9.
  destruct (halloc h9 (OSU d)) as [h10 nsu] eqn:E10.
  inversion E; subst h10 p; clear E.
  assert (X8 : ext h7 h8) by (eapply ext_alloc; [exact W7| |exact E8]; constructor).
  pose proof X8 as (_ & W8 & L8 & _).
  apply halloc_inv in E8. destruct E8 as (-> & NX8 & G8 & _).
  assert (X9 : ext h8 h9).
  { eapply ext_alloc; [exact W8| |exact E9]. cbn [refs]. constructor; [lia|]. apply below_app. split.
    - eapply below_mono; [exact BB2|lia].
    - eapply below_mono; [exact BB3|lia]. }
  pose proof X9 as (_ & W9 & L9 & _).
  apply halloc_inv in E9. destruct E9 as (-> & NX9 & G9 & _).
  assert (X10 : ext h9 h').
  { eapply ext_alloc; [exact W9| |exact E10]. cbn [refs]. apply below_one. lia. }
  pose proof X10 as (_ & W10 & L10 & _).
  apply halloc_inv in E10. destruct E10 as (-> & NX10 & G10 & _).
  assert (X8' : ext h8 h') by exact (ext_trans _ _ _ X9 X10).
  assert (X7' : ext h7 h') by exact (ext_trans _ _ _ X8 X8').
  assert (X4' : ext h4 h') by exact (ext_trans _ _ _ X7 X7').
  assert (X3' : ext h3 h') by exact (ext_trans _ _ _ X4 X4').
  assert (X2' : ext h2 h') by exact (ext_trans _ _ _ X3 X3').
  assert (X1' : ext h1 h') by exact (ext_trans _ _ _ X14 X4').
  assert (X0' : ext h h') by exact (ext_trans _ _ _ X1 X1').
  assert (Ctx : sl_cells h' mtx = sl_cells h txs ++ tx_cells (ud_items dl)) by (rewrite (ext_sl_cells _ _ X2') by exact BB2; exact C2).
  assert (Crc : sl_cells h' mrc = sl_cells h rcs ++ rc_cells (ud_items dl)) by (rewrite (ext_sl_cells _ _ X3') by exact BB3; exact C3).
  assert (Ctd : sl_cells h' mtd = sl_cells h (p_txd cur) ++ map CRef sds) by (rewrite (ext_sl_cells _ _ X4') by exact BB4; exact C4).
  assert (Gblk : hget h' (h_next h8) = Some (OBlock (h_next h7) mtx mrc)) by (rewrite (ext_hget _ _ X10) by lia; exact G9).
  assert (Gsu : su_diff h' (h_next h9) = d) by (unfold su_diff; rewrite G10; reflexivity).
  assert (Ghd : hdr_num h' (h_next h7) = hdr_num h hdr).
  { unfold hdr_num at 1. rewrite (ext_hget _ _ X8') by lia. rewrite G8. reflexivity. }
  assert (D9 : Forall2 (fun i w => deq (denote_diff h' i) w) sds (map it_diff (ud_items dl))).
  { eapply forall2_deq_map; [|exact D1]. intros i Ii. rewrite Forall_forall in F1. specialize (F1 i Ii). simpl in F1.
    apply (ext_denote_diff _ _ X1'). lia. }
  pose proof (ieq_refl_items h' _ _ D9) as ZI.
  assert (LZ := forall2_length _ _ _ ZI).
  assert (BT : below (h_next h) (flat_map cref (sl_cells h (p_txd cur)))) by (apply (below_sl_cells_wf _ _ W Btxd)).
  assert (ZO : zip_items h' (sl_cells h txs) (sl_cells h rcs) (sl_cells h (p_txd cur)) =
               zip_items h (sl_cells h txs) (sl_cells h rcs) (sl_cells h (p_txd cur))).
  { apply (ext_zip_items _ _ X0'). exact BT. }
  assert (ZA : zip_items h' (sl_cells h' mtx) (sl_cells h' mrc) (sl_cells h' mtd) =
               zip_items h (sl_cells h txs) (sl_cells h rcs) (sl_cells h (p_txd cur)) ++
               zip_items h' (tx_cells (ud_items dl)) (rc_cells (ud_items dl)) (map CRef sds)).
  { rewrite Ctx, Crc, Ctd. rewrite zip_items_app; [rewrite ZO; reflexivity|rewrite ZO; lia|lia|lia]. }
  splits.
  - exact X0'.
  - unfold prefs. cbn [p_blk p_su p_cls p_txd]. constructor; [lia|]. constructor; [lia|]. apply below_app. split.
    + apply (ext_below _ _ X0'). exact Bcls.
    + apply (ext_below _ _ X4'). exact BB4.
  - exists (h_next h7), mtx, mrc. cbn [p_blk p_su p_cls p_txd]. split; [exact Gblk|]. cbv zeta.
    rewrite ZA, Ctx, Crc, Ctd, LN2, len_length, Gsu, ref_cells_app, ref_cells_map, !app_length.
    unfold tx_cells, rc_cells in *. rewrite !map_length in *.
    apply forall2_length in D9. rewrite map_length in D9.
    splits; try lia.
    + apply (ext_dnodup _ _ X7'); [exact Ld7|]. eapply own_dnodup. exact O7.
    + apply Forall_app. split.
      * rewrite Forall_forall in *. intros x Ix. apply (ext_dnodup _ _ X0'); [|apply DNT; exact Ix].
        unfold below in BT. rewrite Forall_forall in BT. apply BT. exact Ix.
      * rewrite Forall_forall in *. intros x Ix. specialize (F1 x Ix). simpl in F1.
        apply (ext_dnodup _ _ X1'); [lia|apply N1; exact Ix].
  - reflexivity.
  - reflexivity.
  - unfold denote_pcv at 1. cbn [p_blk p_su p_cls p_txd p_ident]. rewrite Gblk, ZA, Gsu, Ghd.
    unfold denote_pcv, adapt_delta. rewrite GB. fold cd.
    unfold eeq. cbn [e_num e_id e_items e_diff e_classes]. splits; auto.
    + apply Forall2_app; [apply forall2_refl; apply ieq_refl|exact ZI].
    + rewrite (ext_denote_diff _ _ X7') by exact Ld7. eapply deq_trans; [exact D7|]. unfold squash.
      cbn [map]. unfold merge_all at 1. cbn [fold_left].
      fold (merge_all (merge empty_diff (denote_diff h4 cd)) (map (denote_diff h4) sds)).
      rewrite (ext_denote_diff _ _ X04) by exact Lcd.
      apply deq_merge_all; [apply deq_refl|]. apply forall2_map_l.
      eapply forall2_deq_map; [|exact D1]. intros i Ii. rewrite Forall_forall in F1. specialize (F1 i Ii). simpl in F1.
      apply (ext_denote_diff _ _ X14). lia.
    + apply (ext_gcls _ _ X0'). exact Bcls.
Qed.

(* ---------- class maps ---------- *)
Lemma h_mcc_spec : forall h base extra h' r, hwf h -> below (h_next h) (oref base) -> below (h_next h) (oref extra) ->
  h_merge_classes_copying h base extra = (h', r) ->
  ext h h' /\ below (h_next h') (oref r) /\
  gcls h' r = merge_classes_copying (gcls h base) (gcls h extra).
Proof.
  intros h base extra h' r W BB BE E. unfold h_merge_classes_copying in E.
  destruct (gcls h extra) as [|x xs] eqn:GE.
  - inversion E; subst. splits; auto using ext_refl.
  - destruct (halloc h (OMapN (gcls h base))) as [h1 m] eqn:EA. inversion E; subst; clear E.
    assert (X1 : ext h h1) by (eapply ext_alloc; [exact W| |exact EA]; constructor).
    pose proof X1 as (_ & W1 & L1 & _).
    apply halloc_inv in EA. destruct EA as (-> & NX & G & F).
    assert (GM : gmap h1 (h_next h) = gcls h base) by (unfold gmap; rewrite G; reflexivity).
    rewrite GM, (ext_gcls _ _ X1) by exact BE. rewrite GE.
    splits.
    + unfold ext. splits; [exact W|apply hwf_set; [exact W1|lia|constructor]|rewrite next_hset; lia|].
      intros i Li. rewrite hget_hset_other by lia. apply F. lia.
    + rewrite next_hset. apply below_one. lia.
    + cbn [gcls]. rewrite gmap_set_same. reflexivity.
Qed.
