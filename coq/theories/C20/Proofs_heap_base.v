(* C20 — heap-level model: the store, well-formedness, frame lemmas for every denotation. *)
From Coq Require Import List NArith Bool Lia ZifyN ZifyNat ZifyBool FMapPositive.
From V Require Import C20.Model.
Import ListNotations.
Open Scope N_scope.

Ltac splits := repeat match goal with |- _ /\ _ => split end.

(* ---------- the store ---------- *)
Lemma succ_pos_inj : forall a b, N.succ_pos a = N.succ_pos b -> a = b.
Proof. intros a b H. rewrite <- (N.pos_pred_succ a), <- (N.pos_pred_succ b), H. reflexivity. Qed.

Lemma hget_hset_same : forall h i o, hget (hset h i o) i = Some o.
Proof. intros. unfold hget, hset. simpl. apply PositiveMap.gss. Qed.

Lemma hget_hset_other : forall h i j o, j <> i -> hget (hset h i o) j = hget h j.
Proof.
  intros. unfold hget, hset. simpl. apply PositiveMap.gso. intro E. apply succ_pos_inj in E. auto.
Qed.

Lemma next_hset : forall h i o, h_next (hset h i o) = h_next h.
Proof. reflexivity. Qed.

Lemma halloc_inv : forall h o h' i, halloc h o = (h', i) ->
  i = h_next h /\ h_next h' = h_next h + 1 /\ hget h' i = Some o /\
  (forall j, j <> i -> hget h' j = hget h j).
Proof.
  intros h o h' i E. unfold halloc in E. inversion E; subst; clear E. repeat split.
  - unfold hget. simpl. apply PositiveMap.gss.
  - intros j NE. unfold hget. simpl. apply PositiveMap.gso. intro X. apply succ_pos_inj in X. auto.
Qed.

Lemma hget_hempty : forall i, hget hempty i = None.
Proof. intros. unfold hget, hempty. simpl. apply PositiveMap.gempty. Qed.

Global Opaque halloc hset hget.

(* ---------- references, well-formedness ---------- *)
Definition oref (o : option oid) : list oid := match o with Some i => [i] | None => [] end.
Definition sref (s : slice) : list oid := oref (s_arr s).
Definition cref (c : cell) : list oid := match c with CRef o => [o] | _ => [] end.
Definition prefs (p : pcv) : list oid := p_blk p :: p_su p :: oref (p_cls p) ++ sref (p_txd p).

Definition refs (o : obj) : list oid :=
  match o with
  | ONode e p => e :: oref p
  | OEntry p => prefs p
  | OBlock hdr txs rcs => hdr :: sref txs ++ sref rcs
  | OHeader _ => []
  | OSU d => [d]
  | ODiff st no de re d1 mi d0 => st :: no :: de :: re :: d1 :: mi :: sref d0
  | OMapN _ => []
  | OMapO m => map snd m
  | OArr c => flat_map cref c
  end.

Definition below (n : N) (l : list oid) : Prop := Forall (fun j => j < n) l.

(* every id in use is below [h_next]; every reference points below [h_next] *)
Definition hwf (h : heap) : Prop :=
  forall i, (h_next h <= i -> hget h i = None) /\
            (forall o, hget h i = Some o -> below (h_next h) (refs o)).

(* the part of the heap below n refers only to itself *)
Definition closed (n : N) (h : heap) : Prop :=
  forall i o, i < n -> hget h i = Some o -> below n (refs o).

Definition agree_below (n : N) (h h' : heap) : Prop := forall i, i < n -> hget h' i = hget h i.

Lemma below_mono : forall n m l, below n l -> n <= m -> below m l.
Proof. unfold below. intros. eapply Forall_impl; [|eassumption]. simpl. intros. lia. Qed.

Lemma below_app : forall n a b, below n (a ++ b) <-> below n a /\ below n b.
Proof. unfold below. intros. apply Forall_app. Qed.

Lemma hwf_empty : hwf hempty.
Proof. intro i. split; intros; [apply hget_hempty|]. rewrite hget_hempty in H. discriminate. Qed.

Lemma hwf_closed : forall h, hwf h -> closed (h_next h) h.
Proof. intros h W i o _ G. exact (proj2 (W i) o G). Qed.

Lemma hwf_lt : forall h i o, hwf h -> hget h i = Some o -> i < h_next h.
Proof.
  intros h i o W G. destruct (N.lt_ge_cases i (h_next h)) as [L|L]; [exact L|].
  rewrite (proj1 (W i) L) in G. discriminate.
Qed.

Lemma hwf_alloc : forall h o h' i, hwf h -> halloc h o = (h', i) -> below (h_next h) (refs o) -> hwf h'.
Proof.
  intros h o h' i W E B. apply halloc_inv in E. destruct E as (-> & NX & G & F).
  intro j. rewrite NX. split.
  - intro L. rewrite F by lia. apply (proj1 (W j)). lia.
  - intros o' G'. destruct (N.eq_dec j (h_next h)) as [->|NE].
    + rewrite G in G'. inversion G'; subst. eapply below_mono; [eassumption|lia].
    + rewrite F in G' by exact NE. eapply below_mono; [exact (proj2 (W j) o' G')|lia].
Qed.

Lemma hwf_set : forall h i o, hwf h -> i < h_next h -> below (h_next h) (refs o) -> hwf (hset h i o).
Proof.
  intros h i o W L B j. rewrite next_hset. split.
  - intro G. rewrite hget_hset_other by lia. apply (proj1 (W j)). exact G.
  - intros o' G'. destruct (N.eq_dec j i) as [->|NE].
    + rewrite hget_hset_same in G'. inversion G'; subst. exact B.
    + rewrite hget_hset_other in G' by exact NE. exact (proj2 (W j) o' G').
Qed.

Lemma agree_refl : forall n h, agree_below n h h.
Proof. intros n h i _. reflexivity. Qed.

Lemma agree_trans : forall n h1 h2 h3, agree_below n h1 h2 -> agree_below n h2 h3 -> agree_below n h1 h3.
Proof. intros n h1 h2 h3 A B i L. rewrite B, A by exact L. reflexivity. Qed.

Lemma agree_mono : forall n m h h', agree_below n h h' -> m <= n -> agree_below m h h'.
Proof. intros n m h h' A L i Li. apply A. lia. Qed.

Lemma agree_alloc : forall h o h' i n, halloc h o = (h', i) -> n <= h_next h -> agree_below n h h'.
Proof. intros h o h' i n E L j Lj. apply halloc_inv in E. destruct E as (-> & _ & _ & F). apply F. lia. Qed.

Lemma agree_set : forall h i o n, n <= i -> agree_below n h (hset h i o).
Proof. intros h i o n L j Lj. apply hget_hset_other. lia. Qed.

Lemma closed_agree : forall n h h', closed n h -> agree_below n h h' -> closed n h'.
Proof. intros n h h' C A i o L G. rewrite A in G by exact L. exact (C i o L G). Qed.

Lemma closed_mono_wf : forall h n h', hwf h -> n = h_next h -> agree_below n h h' -> closed n h'.
Proof. intros h n h' W -> A. eapply closed_agree; [apply hwf_closed; exact W|exact A]. Qed.

(* ---------- frame lemmas: a denotation below n depends only on the heap below n ---------- *)
Section Frame.
  Variables (n : N) (h h' : heap).
  Hypothesis A : agree_below n h h'.
  Hypothesis C : closed n h.

  Lemma gmap_frame : forall i, i < n -> gmap h' i = gmap h i.
  Proof. intros i L. unfold gmap. rewrite A by exact L. reflexivity. Qed.

  Lemma gouter_frame : forall i, i < n -> gouter h' i = gouter h i.
  Proof. intros i L. unfold gouter. rewrite A by exact L. reflexivity. Qed.

  Lemma garr_frame : forall i, i < n -> garr h' i = garr h i.
  Proof. intros i L. unfold garr. rewrite A by exact L. reflexivity. Qed.

  Lemma gcls_frame : forall o, below n (oref o) -> gcls h' o = gcls h o.
  Proof. intros [i|] B; [|reflexivity]. simpl. apply gmap_frame. inversion B; subst. assumption. Qed.

  Lemma sl_cells_frame : forall s, below n (sref s) -> sl_cells h' s = sl_cells h s.
  Proof.
    intros s B. unfold sl_cells. unfold sref in B. destruct (s_arr s) as [a|]; [|reflexivity].
    rewrite garr_frame; [reflexivity|]. inversion B; subst. assumption.
  Qed.

  Lemma flatten_frame : forall outer, below n (map snd outer) -> flatten h' outer = flatten h outer.
  Proof.
    induction outer as [|[a m] r IH]; intro B; [reflexivity|]. simpl in *. inversion B; subst.
    unfold flatten in *. simpl. rewrite gmap_frame by assumption. f_equal. apply IH. assumption.
  Qed.

  Lemma gouter_below : forall i, i < n -> below n (map snd (gouter h i)).
  Proof.
    intros i L. unfold gouter. destruct (hget h i) as [[]|] eqn:G; try constructor.
    exact (C i _ L G).
  Qed.

  Lemma garr_below : forall i, i < n -> below n (flat_map cref (garr h i)).
  Proof.
    intros i L. unfold garr. destruct (hget h i) as [[]|] eqn:G; try constructor.
    exact (C i _ L G).
  Qed.

  Lemma denote_diff_frame : forall i, i < n -> denote_diff h' i = denote_diff h i.
  Proof.
    intros i L. unfold denote_diff. rewrite A by exact L.
    destruct (hget h i) as [[]|] eqn:G; try reflexivity.
    pose proof (C i _ L G) as B. simpl in B.
    inversion B as [|? ? B0 B1]; subst. inversion B1 as [|? ? B2 B3]; subst.
    inversion B3 as [|? ? B4 B5]; subst. inversion B5 as [|? ? B6 B7]; subst.
    inversion B7 as [|? ? B8 B9]; subst. inversion B9 as [|? ? B10 B11]; subst.
    rewrite !gmap_frame, gouter_frame, flatten_frame, sl_cells_frame by (auto using gouter_below).
    reflexivity.
  Qed.

  Lemma below_firstn_cells : forall k l, below n (flat_map cref l) -> below n (flat_map cref (firstn k l)).
  Proof.
    induction k as [|k IH]; intros [|c l] B; simpl; try constructor.
    simpl in B. apply below_app in B. destruct B as [B1 B2]. apply below_app. split; auto.
  Qed.

  Lemma sl_cells_below : forall s, below n (sref s) -> below n (flat_map cref (sl_cells h s)).
  Proof.
    intros s B. unfold sl_cells. unfold sref in B. destruct (s_arr s) as [a|]; [|constructor].
    apply below_firstn_cells. apply garr_below. inversion B; subst. assumption.
  Qed.

  Lemma zip_items_frame : forall txs rcs tds, below n (flat_map cref tds) ->
    zip_items h' txs rcs tds = zip_items h txs rcs tds.
  Proof.
    induction txs as [|[] txs IH]; intros rcs tds B; try reflexivity.
    destruct rcs as [|[] rcs]; try reflexivity. destruct tds as [|[] tds]; try reflexivity.
    simpl in *. inversion B; subst. rewrite denote_diff_frame by assumption. f_equal. apply IH. assumption.
  Qed.

  Lemma hdr_num_frame : forall i, i < n -> hdr_num h' i = hdr_num h i.
  Proof. intros i L. unfold hdr_num. rewrite A by exact L. reflexivity. Qed.

  Lemma su_diff_frame : forall i, i < n -> su_diff h' i = su_diff h i.
  Proof. intros i L. unfold su_diff. rewrite A by exact L. reflexivity. Qed.

  Lemma su_diff_below : forall i, i < n -> su_diff h i < n.
  Proof.
    intros i L. unfold su_diff. destruct (hget h i) as [[]|] eqn:G; try lia.
    pose proof (C i _ L G) as B. inversion B; subst. assumption.
  Qed.

  Lemma prefs_inv : forall p, below n (prefs p) ->
    p_blk p < n /\ p_su p < n /\ below n (oref (p_cls p)) /\ below n (sref (p_txd p)).
  Proof.
    intros p B. unfold prefs in B. inversion B as [|? ? B0 B1]; subst. inversion B1 as [|? ? B2 B3]; subst.
    apply below_app in B3. tauto.
  Qed.

  Lemma block_refs : forall i hdr txs rcs, i < n -> hget h i = Some (OBlock hdr txs rcs) ->
    hdr < n /\ below n (sref txs) /\ below n (sref rcs).
  Proof.
    intros i hdr txs rcs L G. pose proof (C i _ L G) as B. simpl in B. inversion B as [|? ? B0 B1]; subst.
    apply below_app in B1. tauto.
  Qed.

  Lemma denote_pcv_frame : forall p, below n (prefs p) -> denote_pcv h' p = denote_pcv h p.
  Proof.
    intros p B. apply prefs_inv in B. destruct B as (B1 & B2 & B3 & B4).
    unfold denote_pcv. rewrite A by exact B1. destruct (hget h (p_blk p)) as [[]|] eqn:G; try reflexivity.
    destruct (block_refs _ _ _ _ B1 G) as (H1 & H2 & H3).
    rewrite hdr_num_frame, !sl_cells_frame, zip_items_frame, su_diff_frame, denote_diff_frame, gcls_frame
      by (auto using sl_cells_below, su_diff_below).
    reflexivity.
  Qed.

  Lemma gpcv_frame : forall i, i < n -> gpcv h' i = gpcv h i.
  Proof. intros i L. unfold gpcv. rewrite A by exact L. reflexivity. Qed.

  Lemma gpcv_below : forall i, i < n -> below n (prefs (gpcv h i)).
  Proof.
    intros i L. unfold gpcv. destruct (hget h i) as [[]|] eqn:G;
      try (unfold prefs; simpl; repeat constructor; lia).
    exact (C i _ L G).
  Qed.

  Lemma denote_entry_frame : forall i, i < n -> denote_entry h' i = denote_entry h i.
  Proof.
    intros i L. unfold denote_entry. rewrite gpcv_frame by exact L. apply denote_pcv_frame.
    apply gpcv_below. exact L.
  Qed.

  Lemma node_refs : forall i e p, i < n -> hget h i = Some (ONode e p) -> e < n /\ below n (oref p).
  Proof. intros i e p L G. pose proof (C i _ L G) as B. simpl in B. inversion B; subst. tauto. Qed.

  Lemma walk_entries_frame : forall k o, below n (oref o) -> walk_entries h' o k = walk_entries h o k.
  Proof.
    induction k as [|k IH]; intros [i|] B; try reflexivity. simpl. inversion B; subst.
    rewrite A by assumption. destruct (hget h i) as [[]|] eqn:G; try reflexivity.
    destruct (node_refs _ _ _ H1 G) as [_ Bp]. f_equal. apply IH. exact Bp.
  Qed.

  Lemma walk_entries_below : forall k o, below n (oref o) -> below n (walk_entries h o k).
  Proof.
    induction k as [|k IH]; intros [i|] B; try constructor. simpl. inversion B; subst.
    destruct (hget h i) as [[]|] eqn:G; try constructor.
    - destruct (node_refs _ _ _ H1 G) as [Le _]. exact Le.
    - apply IH. destruct (node_refs _ _ _ H1 G) as [_ Bp]. exact Bp.
  Qed.

  Lemma denote_view_frame : forall v, below n (oref (fst v)) -> denote_view h' v = denote_view h v.
  Proof.
    intros v B. unfold denote_view. rewrite walk_entries_frame by exact B.
    apply map_ext_in. intros e I. apply denote_entry_frame.
    pose proof (walk_entries_below (snd v) (fst v) B) as W. unfold below in W. rewrite Forall_forall in W. auto.
  Qed.

  Lemma entry_num_frame : forall i, i < n -> entry_num h' i = entry_num h i.
  Proof.
    intros i L. unfold entry_num. rewrite gpcv_frame by exact L.
    destruct (prefs_inv _ (gpcv_below i L)) as (B1 & _). rewrite A by exact B1.
    destruct (hget h (p_blk (gpcv h i))) as [[]|] eqn:G; try reflexivity.
    destruct (block_refs _ _ _ _ B1 G) as (H1 & _). apply hdr_num_frame. exact H1.
  Qed.
End Frame.

(* ---------- invariants of stored objects, and their frames ---------- *)
(* the outer StorageDiffs map of a state diff has one entry per contract (it is a Go map) *)
Definition dnodup (h : heap) (d : oid) : Prop :=
  match hget h d with Some (ODiff st _ _ _ _ _ _) => NoDup (map fst (gouter h st)) | _ => True end.

(* a pending.PreConfirmed value: a block whose three per-transaction slices are index-aligned *)
Definition pcv_ok (h : heap) (p : pcv) : Prop :=
  exists hdr txs rcs, hget h (p_blk p) = Some (OBlock hdr txs rcs) /\
    let k := N.to_nat (s_len txs) in
    length (zip_items h (sl_cells h txs) (sl_cells h rcs) (sl_cells h (p_txd p))) = k /\
    length (sl_cells h txs) = k /\ length (sl_cells h rcs) = k /\ length (sl_cells h (p_txd p)) = k /\
    dnodup h (su_diff h (p_su p)) /\ Forall (dnodup h) (ref_cells (sl_cells h (p_txd p))).

Definition entry_ok (h : heap) (e : oid) : Prop :=
  exists p, hget h e = Some (OEntry p) /\ pcv_ok h p.

Fixpoint nodes_ok (h : heap) (o : option oid) (k : nat) : Prop :=
  match k with
  | O => True
  | S k' => match o with
            | Some i => exists e p, hget h i = Some (ONode e p) /\ entry_ok h e /\ nodes_ok h p k'
            | None => False
            end
  end.

Definition view_ok (h : heap) (v : view) : Prop :=
  below (h_next h) (oref (fst v)) /\ nodes_ok h (fst v) (snd v).

Lemma ref_cells_below : forall n l, below n (flat_map cref l) -> below n (ref_cells l).
Proof. intros n l B. exact B. Qed.

Section Frame2.
  Variables (n : N) (h h' : heap).
  Hypothesis A : agree_below n h h'.
  Hypothesis C : closed n h.

  Lemma dnodup_frame : forall d, d < n -> dnodup h d -> dnodup h' d.
  Proof.
    intros d L D. unfold dnodup in *. rewrite A by exact L. destruct (hget h d) as [[]|] eqn:G; auto.
    pose proof (C d _ L G) as B. inversion B; subst. rewrite (gouter_frame n h h' A) by assumption. exact D.
  Qed.

  Lemma pcv_ok_frame : forall p, below n (prefs p) -> pcv_ok h p -> pcv_ok h' p.
  Proof.
    intros p B (hdr & txs & rcs & G & K1 & K2 & K3 & K4 & K5 & K6).
    destruct (prefs_inv n p B) as (B1 & B2 & B3 & B4).
    destruct (block_refs n h C _ _ _ _ B1 G) as (H1 & H2 & H3).
    exists hdr, txs, rcs. rewrite A by exact B1. split; [exact G|]. cbv zeta.
    pose proof (sl_cells_below n h C _ B4) as SB.
    rewrite !(sl_cells_frame n h h' A) by assumption.
    rewrite (zip_items_frame n h h' A C) by assumption.
    rewrite (su_diff_frame n h h' A) by assumption.
    repeat split; try assumption.
    - apply dnodup_frame; [apply su_diff_below; assumption|assumption].
    - rewrite Forall_forall in *. intros d I. apply dnodup_frame; [|auto].
      unfold below in SB. rewrite Forall_forall in SB. apply SB. exact I.
  Qed.

  Lemma entry_ok_frame : forall e, e < n -> entry_ok h e -> entry_ok h' e.
  Proof.
    intros e L (p & G & K). exists p. rewrite A by exact L. split; [exact G|].
    apply pcv_ok_frame; [exact (C e _ L G)|exact K].
  Qed.

  Lemma nodes_ok_frame : forall k o, below n (oref o) -> nodes_ok h o k -> nodes_ok h' o k.
  Proof.
    induction k as [|k IH]; intros o B K; [exact I|]. destruct o as [i|]; [|exact K].
    destruct K as (e & p & G & E & K). inversion B; subst.
    destruct (node_refs n h C _ _ _ H1 G) as [Le Bp].
    exists e, p. rewrite A by assumption. repeat split; [exact G|apply entry_ok_frame; assumption|apply IH; assumption].
  Qed.
End Frame2.
