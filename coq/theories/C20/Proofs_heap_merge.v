(* C20 — heap-level model: EmptyStateDiff, AdaptStateDiff, append, StateDiff.Merge.
   [own h d lo]: the state diff d was produced by EmptyStateDiff at or above lo, and everything a
   Merge INTO d writes to (d itself, its six maps, its inner storage maps, its backing array) is an
   object of its own, allocated at or above lo.  [hmerge_spec]: a Merge into an owned diff leaves
   the heap below lo untouched and denotes the list model's [merge]. *)
From Coq Require Import List NArith Arith Bool Lia ZifyN ZifyNat ZifyBool.
From V Require Import C20.Model C20.Proofs C20.Proofs_heap_base.
Import ListNotations.
Open Scope N_scope.

(* ---------- association lists ---------- *)
Lemma alookup_none : forall {V} a (l : list (N * V)), alookup a l = None <-> ~ In a (map fst l).
Proof.
  induction l as [|[k v] r IH]; simpl; [tauto|].
  destruct (N.eqb_spec a k) as [->|NE]; split; intro H; try discriminate.
  - exfalso. apply H. auto.
  - intros [E|I]; [congruence|]. apply IH in H. auto.
  - apply IH. tauto.
Qed.

Lemma alookup_in : forall {V} a (x : V) l, alookup a l = Some x -> In (a, x) l.
Proof.
  induction l as [|[k v] r IH]; simpl; [discriminate|].
  destruct (N.eqb_spec a k) as [->|NE]; intro H; [inversion H; auto|auto].
Qed.

Lemma nodup_snd_inj : forall (l : list (N * N)) a a' x, NoDup (map snd l) ->
  In (a, x) l -> In (a', x) l -> a = a'.
Proof.
  induction l as [|[k v] r IH]; simpl; intros a a' x ND I1 I2; [tauto|].
  inversion ND as [|? ? NI ND']; subst.
  destruct I1 as [E1|I1], I2 as [E2|I2].
  - congruence.
  - inversion E1; subst. exfalso. apply NI. change x with (snd (a', x)). apply in_map. exact I2.
  - inversion E2; subst. exfalso. apply NI. change x with (snd (a, x)). apply in_map. exact I1.
  - eauto.
Qed.

(* ---------- storage lists: per-contract projection ---------- *)
Lemma sproj_app : forall a x y, sproj a (x ++ y) = sproj a x ++ sproj a y.
Proof. intros. unfold sproj. rewrite filter_app, map_app. reflexivity. Qed.

Lemma sproj_flat_inner : forall a a' m, sproj a (flat_inner a' m) = if a' =? a then m else [].
Proof.
  intros a a' m. unfold sproj, flat_inner. induction m as [|[k v] r IH]; simpl.
  - destruct (a' =? a); reflexivity.
  - destruct (a' =? a); simpl; [f_equal|]; exact IH.
Qed.

Lemma sproj_flatten_notin : forall h a outer, ~ In a (map fst outer) -> sproj a (flatten h outer) = [].
Proof.
  induction outer as [|[k m] r IH]; intro NI; [reflexivity|]. unfold flatten in *. simpl in *.
  rewrite sproj_app, sproj_flat_inner. destruct (N.eqb_spec k a) as [->|NE]; [tauto|]. apply IH. tauto.
Qed.

Definition sget (h : heap) (st : oid) (a : N) : list (N * N) :=
  match alookup a (gouter h st) with Some m => gmap h m | None => [] end.

Lemma sproj_flatten : forall h a outer, NoDup (map fst outer) ->
  sproj a (flatten h outer) = match alookup a outer with Some m => gmap h m | None => [] end.
Proof.
  induction outer as [|[k m] r IH]; intro ND; [reflexivity|]. unfold flatten in *. simpl in *.
  inversion ND as [|? ? NI ND']; subst.
  rewrite sproj_app, sproj_flat_inner. rewrite (N.eqb_sym a k). destruct (N.eqb_spec k a) as [->|NE].
  - fold (flatten h r). rewrite sproj_flatten_notin by exact NI. apply app_nil_r.
  - apply IH. exact ND'.
Qed.

Lemma seq_refl : forall s, seq_storage s s.
Proof. intros s a. reflexivity. Qed.

Lemma deq_refl : forall d, deq d d.
Proof. intro d. unfold deq. repeat split. Qed.

Lemma deq_sym : forall a b, deq a b -> deq b a.
Proof. unfold deq, seq_storage. intros a b H. intuition; symmetry; auto. Qed.

Lemma deq_trans : forall a b c, deq a b -> deq b c -> deq a c.
Proof.
  unfold deq, seq_storage. intros a b c (S1 & ?) (S2 & ?). split; [|intuition congruence].
  intro x. rewrite S1. apply S2.
Qed.

Lemma deq_merge : forall a a' b b', deq a a' -> deq b b' -> deq (merge a b) (merge a' b').
Proof.
  unfold deq, seq_storage. intros a a' b b' (S1 & ?) (S2 & ?). simpl. split; [|intuition congruence].
  intro x. rewrite !sproj_app, S1, S2. reflexivity.
Qed.

Lemma deq_merge_all : forall l l' a a', deq a a' -> Forall2 deq l l' -> deq (merge_all a l) (merge_all a' l').
Proof.
  intros l l' a a' D F. revert a a' D. induction F; intros a a' D; [exact D|].
  simpl. apply IHF. apply deq_merge; assumption.
Qed.

(* ---------- slices ---------- *)
Definition slice_ok (h : heap) (s : slice) : Prop :=
  match s_arr s with
  | Some a => length (garr h a) = N.to_nat (s_cap s) /\ s_len s <= s_cap s
  | None => s_cap s = 0 /\ s_len s = 0
  end.

Lemma below_skipn_cells : forall n k l, below n (flat_map cref l) -> below n (flat_map cref (skipn k l)).
Proof.
  induction k as [|k IH]; intros [|c l] B; simpl; auto.
  simpl in B. apply below_app in B. apply IH. tauto.
Qed.

Lemma below_repeat_nil : forall n k, below n (flat_map cref (repeat CNil k)).
Proof. induction k; simpl; [constructor|exact IHk]. Qed.

Lemma len_length : forall {A} (l : list A), N.to_nat (len l) = length l.
Proof. intros. unfold len. lia. Qed.

Lemma mk_slice_spec : forall h c h' s, hwf h -> below (h_next h) (flat_map cref c) ->
  mk_slice h c = (h', s) ->
  hwf h' /\ h_next h <= h_next h' /\ agree_below (h_next h) h h' /\
  sl_cells h' s = c /\ below (h_next h') (sref s) /\ s_len s = len c /\
  Forall (fun i => h_next h <= i) (sref s) /\ slice_ok h' s.
Proof.
  intros h c h' s W B E. unfold mk_slice in E. destruct c as [|x c].
  - inversion E; subst. splits; try (constructor; fail); auto using agree_refl; try lia.
    unfold slice_ok. simpl. lia.
  - destruct (halloc h (OArr (x :: c))) as [h1 a] eqn:EA. inversion E; subst; clear E.
    pose proof (hwf_alloc _ _ _ _ W EA B) as W1. pose proof (agree_alloc _ _ _ _ (h_next h) EA (N.le_refl _)) as A1.
    apply halloc_inv in EA. destruct EA as (-> & NX & G & F).
    splits; auto; try lia.
    + unfold sl_cells, garr. cbn [s_arr s_len s_cap]. rewrite G. rewrite len_length. apply firstn_all.
    + unfold sref. simpl. constructor; [lia|constructor].
    + unfold sref. simpl. constructor; [lia|constructor].
    + unfold slice_ok, garr. cbn [s_arr s_len s_cap]. rewrite G. split; [rewrite len_length; reflexivity|lia].
Qed.

(* ---------- chasing reads through a sequence of allocations / writes ---------- *)
Ltac chase :=
  repeat match goal with
         | F : forall j, j <> ?i -> hget ?h j = hget _ j |- context [hget ?h ?x] => rewrite (F x) by lia
         | |- context [hget (hset ?h ?i ?o) ?x] => rewrite (hget_hset_other h i x o) by lia
         end.
Ltac hg :=
  chase;
  try match goal with
      | G : hget ?h ?i = Some _ |- context [hget ?h ?i] => rewrite G
      | |- context [hget (hset ?h ?i ?o) ?i] => rewrite (hget_hset_same h i o)
      end.

(* ---------- ownership of a merge target ---------- *)
Definition own_at (h : heap) (d : oid) (lo b : N) (d0 : slice) : Prop :=
  d = b + 6 /\ lo <= b /\ d < h_next h /\
  hget h d = Some (ODiff b (b + 1) (b + 2) (b + 3) (b + 4) (b + 5) d0) /\
  Forall (fun i => d < i < h_next h) (sref d0 ++ map snd (gouter h b)) /\
  NoDup (sref d0 ++ map snd (gouter h b)) /\
  NoDup (map fst (gouter h b)) /\ slice_ok h d0.

Definition own (h : heap) (d : oid) (lo : N) : Prop := exists b d0, own_at h d lo b d0.

(* what a Merge into d may write to *)
Definition owned_ids (h : heap) (b : N) (d0 : slice) : list oid := sref d0 ++ map snd (gouter h b).

Lemma h_empty_diff_spec : forall h h' d, hwf h -> h_empty_diff h = (h', d) ->
  hwf h' /\ h_next h' = h_next h + 7 /\ d = h_next h + 6 /\ agree_below (h_next h) h h' /\
  own h' d (h_next h) /\ denote_diff h' d = empty_diff.
Proof.
  intros h h' d W E. unfold h_empty_diff in E.
  destruct (halloc h (OMapO [])) as [h1 st] eqn:E1.
  destruct (halloc h1 (OMapN [])) as [h2 no] eqn:E2.
  destruct (halloc h2 (OMapN [])) as [h3 de] eqn:E3.
  destruct (halloc h3 (OMapN [])) as [h4 re] eqn:E4.
  destruct (halloc h4 (OMapN [])) as [h5 d1] eqn:E5.
  destruct (halloc h5 (OMapN [])) as [h6 mi] eqn:E6.
  assert (W1 : hwf h1) by (eapply hwf_alloc; [exact W|exact E1|constructor]).
  assert (W2 : hwf h2) by (eapply hwf_alloc; [exact W1|exact E2|constructor]).
  assert (W3 : hwf h3) by (eapply hwf_alloc; [exact W2|exact E3|constructor]).
  assert (W4 : hwf h4) by (eapply hwf_alloc; [exact W3|exact E4|constructor]).
  assert (W5 : hwf h5) by (eapply hwf_alloc; [exact W4|exact E5|constructor]).
  assert (W6 : hwf h6) by (eapply hwf_alloc; [exact W5|exact E6|constructor]).
  apply halloc_inv in E1. destruct E1 as (-> & N1 & G1 & F1).
  apply halloc_inv in E2. destruct E2 as (-> & N2 & G2 & F2).
  apply halloc_inv in E3. destruct E3 as (-> & N3 & G3 & F3).
  apply halloc_inv in E4. destruct E4 as (-> & N4 & G4 & F4).
  apply halloc_inv in E5. destruct E5 as (-> & N5 & G5 & F5).
  apply halloc_inv in E6. destruct E6 as (-> & N6 & G6 & F6).
  assert (W7 : hwf h').
  { eapply hwf_alloc; [exact W6|exact E|]. simpl. unfold below. repeat constructor; lia. }
  apply halloc_inv in E. destruct E as (-> & N7 & G7 & F7).
  assert (GO : gouter h' (h_next h) = []) by (unfold gouter; hg; reflexivity).
  splits; auto; try lia.
  - intros i L. chase. reflexivity.
  - exists (h_next h), nil_slice. unfold own_at.
    rewrite GO. splits; try lia; try (simpl; constructor; fail).
    + rewrite G7. repeat f_equal; lia.
    + unfold slice_ok. simpl. split; reflexivity.
  - unfold denote_diff. rewrite G7. rewrite GO. unfold gmap. hg. hg. hg. hg. hg. reflexivity.
Qed.

(* ---------- AdaptStateDiff ---------- *)
Lemma sproj_notin : forall a s, ~ In a (map (fun e => fst (fst e)) s) -> sproj a s = [].
Proof.
  induction s as [|[[k x] v] r IH]; intro NI; [reflexivity|]. unfold sproj in *. simpl in *.
  destruct (N.eqb_spec k a) as [->|NE]; [tauto|]. apply IH. tauto.
Qed.

Lemma alloc_inners_spec : forall s addrs h h' outer, hwf h -> alloc_inners h s addrs = (h', outer) ->
  hwf h' /\ h_next h <= h_next h' /\ agree_below (h_next h) h h' /\
  map fst outer = addrs /\ Forall (fun i => h_next h <= i < h_next h') (map snd outer) /\
  (forall a m, In (a, m) outer -> gmap h' m = sproj a s).
Proof.
  induction addrs as [|a r IH]; intros h h' outer W E; simpl in E.
  - inversion E; subst. splits; auto using agree_refl; try lia; try constructor. intros ? ? [].
  - destruct (halloc h (OMapN (sproj a s))) as [h1 i] eqn:E1.
    destruct (alloc_inners h1 s r) as [h2 o] eqn:E2. inversion E; subst; clear E.
    assert (W1 : hwf h1) by (eapply hwf_alloc; [exact W|exact E1|constructor]).
    destruct (IH _ _ _ W1 E2) as (W2 & L2 & A2 & M2 & B2 & S2).
    pose proof (agree_alloc _ _ _ _ (h_next h) E1 (N.le_refl _)) as A1.
    apply halloc_inv in E1. destruct E1 as (-> & N1 & G1 & F1).
    splits; auto; try lia.
    + eapply agree_trans; [exact A1|]. eapply agree_mono; [exact A2|lia].
    + simpl. f_equal. exact M2.
    + simpl. constructor; [lia|]. eapply Forall_impl; [|exact B2]. simpl. intros. lia.
    + intros a' m [X|X].
      * inversion X; subst. unfold gmap. rewrite (A2 (h_next h)) by lia. rewrite G1. reflexivity.
      * apply S2. exact X.
Qed.

Lemma h_adapt_sd_spec : forall h w h' i, hwf h -> h_adapt_sd h w = (h', i) ->
  hwf h' /\ h_next h <= i /\ i < h_next h' /\ agree_below (h_next h) h h' /\
  deq (denote_diff h' i) w /\ dnodup h' i.
Proof.
  intros h w h' i W E. unfold h_adapt_sd in E.
  destruct (mk_slice h (map CVal (d_decl0 w))) as [h1 d0] eqn:E1.
  destruct (halloc h1 (OMapN (d_decl1 w))) as [h2 d1] eqn:E2.
  destruct (halloc h2 (OMapN (d_migrated w))) as [h3 mi] eqn:E3.
  destruct (halloc h3 (OMapN (d_replaced w))) as [h4 re] eqn:E4.
  destruct (halloc h4 (OMapN (d_deployed w))) as [h5 de] eqn:E5.
  destruct (halloc h5 (OMapN (d_nonces w))) as [h6 no] eqn:E6.
  destruct (alloc_inners h6 (d_storage w) (addrs_of (d_storage w))) as [h7 outer] eqn:E7.
  destruct (halloc h7 (OMapO outer)) as [h8 st] eqn:E8.
  assert (BV : below (h_next h) (flat_map cref (map CVal (d_decl0 w)))).
  { clear. generalize (d_decl0 w). induction l; simpl; [constructor|assumption]. }
  destruct (mk_slice_spec _ _ _ _ W BV E1) as (W1 & L1 & A1 & C1 & B1 & LN1 & GE1 & SO1).
  assert (W2 : hwf h2) by (eapply hwf_alloc; [exact W1|exact E2|constructor]).
  assert (W3 : hwf h3) by (eapply hwf_alloc; [exact W2|exact E3|constructor]).
  assert (W4 : hwf h4) by (eapply hwf_alloc; [exact W3|exact E4|constructor]).
  assert (W5 : hwf h5) by (eapply hwf_alloc; [exact W4|exact E5|constructor]).
  assert (W6 : hwf h6) by (eapply hwf_alloc; [exact W5|exact E6|constructor]).
  destruct (alloc_inners_spec _ _ _ _ _ W6 E7) as (W7 & L7 & A7 & M7 & B7 & S7).
  assert (W8 : hwf h8).
  { eapply hwf_alloc; [exact W7|exact E8|]. simpl. eapply Forall_impl; [|exact B7]. simpl. intros. lia. }
  apply halloc_inv in E2. destruct E2 as (-> & N2 & G2 & F2).
  apply halloc_inv in E3. destruct E3 as (-> & N3 & G3 & F3).
  apply halloc_inv in E4. destruct E4 as (-> & N4 & G4 & F4).
  apply halloc_inv in E5. destruct E5 as (-> & N5 & G5 & F5).
  apply halloc_inv in E6. destruct E6 as (-> & N6 & G6 & F6).
  apply halloc_inv in E8. destruct E8 as (-> & N8 & G8 & F8).
  assert (W9 : hwf h').
  { eapply hwf_alloc; [exact W8|exact E|]. simpl. unfold below. repeat constructor; try lia.
    eapply below_mono; [exact B1|lia]. }
  apply halloc_inv in E. destruct E as (-> & N9 & G9 & F9).
  (* reads in the final heap *)
  assert (R1 : forall x, x < h_next h6 -> hget h' x = hget h6 x).
  { intros x Lx. rewrite F9, F8 by lia. apply A7. exact Lx. }
  assert (GO : gouter h' (h_next h7) = outer) by (unfold gouter; rewrite F9 by lia; rewrite G8; reflexivity).
  assert (GI : forall a m, In (a, m) outer -> gmap h' m = sproj a (d_storage w)).
  { intros a m I. rewrite <- (S7 a m I). unfold gmap. rewrite F9, F8; [reflexivity| |].
    - rewrite Forall_forall in B7. specialize (B7 m (in_map snd _ _ I)). simpl in B7. lia.
    - rewrite Forall_forall in B7. specialize (B7 m (in_map snd _ _ I)). simpl in B7. lia. }
  assert (ND : NoDup (map fst outer)) by (rewrite M7; apply NoDup_nodup).
  splits; auto; try lia.
  - intros x Lx. rewrite R1 by lia. rewrite F6, F5, F4, F3, F2 by lia. apply A1. exact Lx.
  - unfold denote_diff. rewrite G9, GO. unfold deq. cbn [d_storage d_nonces d_deployed d_replaced d_decl1 d_migrated d_decl0].
    unfold gmap. rewrite !R1 by lia. rewrite G6. rewrite F6, G5 by lia. rewrite F6, F5, G4 by lia.
    rewrite F6, F5, F4, F3, G2 by lia. rewrite F6, F5, F4, G3 by lia.
    splits; try reflexivity.
    + intro a. rewrite sproj_flatten by exact ND. destruct (alookup a outer) as [m|] eqn:AL.
      * apply GI. apply alookup_in. exact AL.
      * symmetry. apply sproj_notin. apply alookup_none in AL. rewrite M7 in AL. unfold addrs_of in AL.
        intro X. apply AL. apply nodup_In. exact X.
    + assert (SC : sl_cells h' d0 = map CVal (d_decl0 w)).
      { rewrite <- C1. unfold sl_cells. destruct (s_arr d0) as [a|] eqn:SA; [|reflexivity].
        unfold garr. rewrite R1; [rewrite F6, F5, F4, F3, F2; try reflexivity|];
          unfold sref in B1; rewrite SA in B1; inversion B1; subst; lia. }
      rewrite SC. rewrite map_map. simpl. apply map_id.
  - unfold dnodup. rewrite G9, GO. exact ND.
Qed.

(* ---------- append ---------- *)
Lemma roundup_ge : forall n, n <= roundup_elems n.
Proof.
  intro n. unfold roundup_elems.
  destruct (n <=? 4); [lia|]. destruct (n <=? 32).
  - pose proof (N.div_mod (n + 1) 2). pose proof (N.mod_lt (n + 1) 2). lia.
  - destruct (n <=? 64); [|lia]. pose proof (N.div_mod (n + 3) 4). pose proof (N.mod_lt (n + 3) 4). lia.
Qed.

Lemma growcap_ge : forall old needed, needed <= growcap old needed.
Proof.
  intros old needed. unfold growcap. etransitivity; [|apply roundup_ge].
  destruct (2 * old <? needed) eqn:E1; [lia|]. destruct (old <? 256); lia.
Qed.

Lemma firstn_exact : forall {A} (l1 l2 : list A) k, k = length l1 -> firstn k (l1 ++ l2) = l1.
Proof. intros A l1 l2 k ->. rewrite <- (Nat.add_0_r (length l1)), firstn_app_2. simpl. apply app_nil_r. Qed.

Lemma sl_cells_length : forall h s, slice_ok h s -> length (sl_cells h s) = N.to_nat (s_len s).
Proof.
  intros h s SO. unfold sl_cells, slice_ok in *. destruct (s_arr s) as [a|].
  - rewrite firstn_length. lia.
  - simpl. lia.
Qed.

Lemma below_sl_cells_wf : forall h s, hwf h -> below (h_next h) (sref s) -> below (h_next h) (flat_map cref (sl_cells h s)).
Proof. intros h s W B. apply (sl_cells_below _ h (hwf_closed h W)). exact B. Qed.

Lemma below_one : forall n i, i < n -> below n [i].
Proof. intros. constructor; [assumption|constructor]. Qed.

Lemma garr_set : forall h a c, garr (hset h a (OArr c)) a = c.
Proof. intros. unfold garr. rewrite hget_hset_same. reflexivity. Qed.

Lemma garr_get : forall h a c, hget h a = Some (OArr c) -> garr h a = c.
Proof. intros h a c G. unfold garr. rewrite G. reflexivity. Qed.

Lemma h_append_spec : forall h s xs h' s', hwf h -> slice_ok h s -> below (h_next h) (sref s) ->
  below (h_next h) (flat_map cref xs) -> h_append h s xs = (h', s') ->
  hwf h' /\ h_next h <= h_next h' /\ slice_ok h' s' /\ sl_cells h' s' = sl_cells h s ++ xs /\
  (forall i, i < h_next h -> ~ In i (sref s) -> hget h' i = hget h i) /\
  (sref s' = sref s \/ sref s' = [h_next h]) /\ below (h_next h') (sref s').
Proof.
  intros h s xs h' s' W SO BS BX E. unfold h_append in E. destruct xs as [|x xs].
  { inversion E; subst. rewrite app_nil_r. splits; auto; lia. }
  cbv beta iota in E. remember (x :: xs) as ys eqn:EY. clear EY x xs.
  assert (LY : len ys = N.of_nat (length ys)) by reflexivity.
  pose proof (sl_cells_length _ _ SO) as LC.
  pose proof (below_sl_cells_wf _ _ W BS) as BC.
  destruct (s_arr s) as [a|] eqn:SA.
  - assert (La : a < h_next h) by (unfold sref in BS; rewrite SA in BS; inversion BS; assumption).
    unfold slice_ok in SO. rewrite SA in SO. destruct SO as [LG LE].
    destruct (s_len s + len ys <=? s_cap s) eqn:CMP.
    + inversion E; subst; clear E. apply N.leb_le in CMP.
      assert (BG : below (h_next h) (flat_map cref (garr h a))).
      { apply (garr_below _ h (hwf_closed h W)). exact La. }
      splits.
      * apply hwf_set; [exact W|exact La|]. cbn [refs]. rewrite !flat_map_app. apply below_app. split.
        -- apply below_firstn_cells. exact BG.
        -- apply below_app. split; [exact BX|apply below_skipn_cells; exact BG].
      * rewrite next_hset. lia.
      * unfold slice_ok. cbn [s_arr s_len s_cap]. rewrite garr_set. split; [|lia].
        rewrite !app_length, firstn_length, skipn_length. lia.
      * unfold sl_cells at 1. cbn [s_arr s_len]. rewrite garr_set.
        rewrite app_assoc. rewrite firstn_exact.
        -- unfold sl_cells. rewrite SA. reflexivity.
        -- rewrite app_length, firstn_length. lia.
      * intros i Li NI. apply hget_hset_other. unfold sref in NI. rewrite SA in NI. simpl in NI. intro; subst; tauto.
      * left. unfold sref. simpl. rewrite SA. reflexivity.
      * rewrite next_hset. unfold sref. cbn [s_arr oref]. apply below_one. exact La.
    + apply N.leb_gt in CMP.
      destruct (halloc h (OArr (sl_cells h s ++ ys ++ repeat CNil (N.to_nat (growcap (s_cap s) (s_len s + len ys) - (s_len s + len ys)))))) as [h1 a'] eqn:EA.
      inversion E; subst; clear E.
      pose proof (growcap_ge (s_cap s) (s_len s + len ys)) as GG.
      assert (W1 : hwf h').
      { eapply hwf_alloc; [exact W|exact EA|]. cbn [refs]. rewrite !flat_map_app. apply below_app. split; [exact BC|].
        apply below_app. split; [exact BX|apply below_repeat_nil]. }
      apply halloc_inv in EA. destruct EA as (-> & NX & G & F).
      splits; auto; try lia.
      * unfold slice_ok. cbn [s_arr s_len s_cap]. rewrite (garr_get _ _ _ G). split; [|lia].
        rewrite !app_length, repeat_length. lia.
      * unfold sl_cells at 1. cbn [s_arr s_len]. rewrite (garr_get _ _ _ G).
        rewrite app_assoc. apply firstn_exact. rewrite app_length. lia.
      * intros i Li NI. apply F. lia.
      * unfold sref. cbn [s_arr oref]. apply below_one. lia.
  - unfold slice_ok in SO. rewrite SA in SO. destruct SO as [C0 L0].
    destruct (halloc h (OArr (ys ++ repeat CNil (N.to_nat (growcap 0 (s_len s + len ys) - (s_len s + len ys)))))) as [h1 a'] eqn:EA.
    inversion E; subst; clear E.
    pose proof (growcap_ge 0 (s_len s + len ys)) as GG.
    assert (W1 : hwf h').
    { eapply hwf_alloc; [exact W|exact EA|]. cbn [refs]. rewrite !flat_map_app. apply below_app. split; [exact BX|apply below_repeat_nil]. }
    apply halloc_inv in EA. destruct EA as (-> & NX & G & F).
    assert (SC : sl_cells h s = []) by (unfold sl_cells; rewrite SA; reflexivity).
    splits; auto; try lia.
    * unfold slice_ok. cbn [s_arr s_len s_cap]. rewrite (garr_get _ _ _ G). split; [|lia].
      rewrite !app_length, repeat_length. lia.
    * unfold sl_cells at 1. cbn [s_arr s_len]. rewrite (garr_get _ _ _ G). rewrite SC. simpl app at 2.
      apply firstn_exact. lia.
    * intros i Li NI. apply F. lia.
    * unfold sref. cbn [s_arr oref]. apply below_one. lia.
Qed.

(* ---------- the storage loop of Merge ---------- *)
Definition sinv (h : heap) (b d : oid) : Prop :=
  b < d /\ d < h_next h /\
  Forall (fun i => d < i < h_next h) (map snd (gouter h b)) /\
  NoDup (map snd (gouter h b)) /\ NoDup (map fst (gouter h b)).

Lemma notin_above : forall (d n i : N) l, Forall (fun j => d < j < n) l -> i <= d -> ~ In i l.
Proof. intros d n i l F L I. rewrite Forall_forall in F. specialize (F i I). simpl in F. lia. Qed.

Lemma notin_below : forall (d n i : N) l, Forall (fun j => d < j < n) l -> n <= i -> ~ In i l.
Proof. intros d n i l F L I. rewrite Forall_forall in F. specialize (F i I). simpl in F. lia. Qed.

Lemma gouter_set_other : forall h i o b, b <> i -> gouter (hset h i o) b = gouter h b.
Proof. intros. unfold gouter. rewrite hget_hset_other by assumption. reflexivity. Qed.

Lemma gouter_set_same : forall h b m, gouter (hset h b (OMapO m)) b = m.
Proof. intros. unfold gouter. rewrite hget_hset_same. reflexivity. Qed.

Lemma gmap_set_other : forall h i o b, b <> i -> gmap (hset h i o) b = gmap h b.
Proof. intros. unfold gmap. rewrite hget_hset_other by assumption. reflexivity. Qed.

Lemma gmap_set_same : forall h b m, gmap (hset h b (OMapN m)) b = m.
Proof. intros. unfold gmap. rewrite hget_hset_same. reflexivity. Qed.

Lemma merge_storage_step_spec : forall h b d a m,
  hwf h -> sinv h b d -> m < b ->
  let h' := merge_storage_step b h (a, m) in
  hwf h' /\ h_next h <= h_next h' /\ sinv h' b d /\
  (forall i, i < h_next h -> i <> b -> ~ In i (map snd (gouter h b)) -> hget h' i = hget h i) /\
  (forall i, In i (map snd (gouter h' b)) -> In i (map snd (gouter h b)) \/ h_next h <= i) /\
  (forall a', sget h' b a' = (if a' =? a then gmap h m else []) ++ sget h b a').
Proof.
  intros h b d a m W (Lbd & Ld & FI & ND2 & ND1) Lm h'. subst h'. unfold merge_storage_step. cbn [fst snd].
  destruct (alookup a (gouter h b)) as [old|] eqn:AL.
  - pose proof (alookup_in _ _ _ AL) as IN. pose proof (in_map snd _ _ IN) as INS. cbn [snd] in INS.
    assert (LO : d < old < h_next h) by (rewrite Forall_forall in FI; exact (FI old INS)).
    assert (GO : gouter (hset h old (OMapN (gmap h m ++ gmap h old))) b = gouter h b)
      by (apply gouter_set_other; lia).
    splits.
    + apply hwf_set; [exact W|lia|constructor].
    + rewrite next_hset. lia.
    + unfold sinv. rewrite GO, next_hset. tauto.
    + intros i Li NB NI. apply hget_hset_other. intro; subst. tauto.
    + intros i I. rewrite GO in I. auto.
    + intro a'. unfold sget. rewrite GO. destruct (N.eqb_spec a' a) as [->|NE].
      * rewrite AL. apply gmap_set_same.
      * simpl. destruct (alookup a' (gouter h b)) as [m'|] eqn:AL'; [|reflexivity].
        apply gmap_set_other. intro; subst m'. apply NE.
        eapply nodup_snd_inj; [exact ND2|apply alookup_in; exact AL'|exact IN].
  - destruct (halloc h (OMapN (gmap h m))) as [h1 nid] eqn:EA.
    assert (W1 : hwf h1) by (eapply hwf_alloc; [exact W|exact EA|constructor]).
    apply halloc_inv in EA. destruct EA as (-> & NX & G & F).
    assert (GO1 : gouter h1 b = gouter h b) by (unfold gouter; rewrite F by lia; reflexivity).
    rewrite GO1.
    assert (NK : ~ In a (map fst (gouter h b))) by (apply alookup_none; exact AL).
    splits.
    + apply hwf_set; [exact W1|lia|]. cbn [refs map snd]. constructor; [lia|].
      eapply Forall_impl; [|exact FI]. simpl. intros. lia.
    + rewrite next_hset. lia.
    + unfold sinv. rewrite gouter_set_same, next_hset. cbn [map fst snd]. splits; try lia.
      * constructor; [lia|]. eapply Forall_impl; [|exact FI]. simpl. intros. lia.
      * constructor; [|exact ND2]. eapply notin_below; [exact FI|lia].
      * constructor; assumption.
    + intros i Li NB NI. rewrite hget_hset_other by exact NB. apply F. lia.
    + intros i I. rewrite gouter_set_same in I. cbn [map snd] in I. destruct I as [<-|I]; [right; lia|left; exact I].
    + intro a'. unfold sget. rewrite gouter_set_same. cbn [alookup]. destruct (N.eqb_spec a' a) as [->|NE].
      * rewrite AL, app_nil_r. rewrite gmap_set_other by lia. unfold gmap. rewrite G.
        unfold gmap. reflexivity.
      * simpl. destruct (alookup a' (gouter h b)) as [m'|] eqn:AL'; [|reflexivity].
        pose proof (in_map snd _ _ (alookup_in _ _ _ AL')) as INS. cbn [snd] in INS.
        rewrite Forall_forall in FI. specialize (FI m' INS). simpl in FI.
        rewrite gmap_set_other by lia. unfold gmap. rewrite F by lia. reflexivity.
Qed.

Lemma merge_storage_spec : forall l h b d,
  hwf h -> sinv h b d -> NoDup (map fst l) -> Forall (fun ai => snd ai < b) l ->
  let h' := fold_left (merge_storage_step b) l h in
  hwf h' /\ h_next h <= h_next h' /\ sinv h' b d /\
  (forall i, i < h_next h -> i <> b -> ~ In i (map snd (gouter h b)) -> hget h' i = hget h i) /\
  (forall i, In i (map snd (gouter h' b)) -> In i (map snd (gouter h b)) \/ h_next h <= i) /\
  (forall a', sget h' b a' = (match alookup a' l with Some m => gmap h m | None => [] end) ++ sget h b a').
Proof.
  induction l as [|[a m] r IH]; intros h b d W SI ND FB h'; subst h'.
  - simpl. splits; auto; try lia.
  - cbn [fold_left]. inversion ND as [|? ? NI ND']; subst. inversion FB as [|? ? Lm FB']; subst. cbn [snd] in Lm.
    destruct (merge_storage_step_spec h b d a m W SI Lm) as (W1 & L1 & SI1 & K1 & I1 & S1).
    set (h1 := merge_storage_step b h (a, m)) in *.
    destruct (IH h1 b d W1 SI1 ND' FB') as (W2 & L2 & SI2 & K2 & I2 & S2).
    destruct SI as (Lbd & Ld & FI & _).
    splits; auto; try lia.
    + intros i Li NB NIi. rewrite K2; [apply K1; assumption|lia|exact NB|].
      intro X. apply I1 in X. destruct X as [X|X]; [tauto|lia].
    + intros i I. apply I2 in I. destruct I as [I|I]; [apply I1 in I; destruct I; [auto|right; lia]|right; lia].
    + intro a'. rewrite S2, S1. cbn [alookup]. destruct (N.eqb_spec a' a) as [->|NE].
      * assert (AN : alookup a r = None) by (apply alookup_none; exact NI). rewrite AN. reflexivity.
      * simpl. f_equal. destruct (alookup a' r) as [m'|] eqn:AL'; [|reflexivity].
        pose proof (in_map snd _ _ (alookup_in _ _ _ AL')) as INS. cbn [snd] in INS.
        rewrite Forall_forall in FB'. specialize (FB' _ (alookup_in _ _ _ AL')). cbn [snd] in FB'.
        unfold gmap. rewrite K1; [reflexivity|lia|lia|]. eapply notin_above; [exact FI|lia].
Qed.

(* ---------- StateDiff.Merge into an owned diff ---------- *)
Lemma forall_map_snd : forall (P : N -> Prop) (l : list (N * oid)),
  Forall P (map snd l) -> Forall (fun ai => P (snd ai)) l.
Proof. intros P l F. rewrite Forall_forall in *. intros x I. apply F. apply in_map. exact I. Qed.

Lemma below6 : forall n a b c d e f l, below n (a :: b :: c :: d :: e :: f :: l) ->
  a < n /\ b < n /\ c < n /\ d < n /\ e < n /\ f < n /\ below n l.
Proof.
  intros n a b c d e f l B. inversion B as [|? ? B0 B1]; subst. inversion B1 as [|? ? B2 B3]; subst.
  inversion B3 as [|? ? B4 B5]; subst. inversion B5 as [|? ? B6 B7]; subst.
  inversion B7 as [|? ? B8 B9]; subst. inversion B9 as [|? ? B10 B11]; subst. tauto.
Qed.

Lemma sl_cells_same : forall h h' s, (forall a, In a (sref s) -> hget h' a = hget h a) ->
  sl_cells h' s = sl_cells h s.
Proof.
  intros h h' s F. unfold sl_cells. unfold sref in F. destruct (s_arr s) as [a|]; [|reflexivity].
  unfold garr. rewrite F by (simpl; auto). reflexivity.
Qed.

Lemma slice_ok_same : forall h h' s, (forall a, In a (sref s) -> hget h' a = hget h a) ->
  slice_ok h s -> slice_ok h' s.
Proof.
  intros h h' s F. unfold slice_ok. unfold sref in F. destruct (s_arr s) as [a|]; [|auto].
  unfold garr. rewrite F by (simpl; auto). auto.
Qed.

Lemma nodup_app_iff : forall {A} (l1 l2 : list A),
  NoDup (l1 ++ l2) <-> NoDup l1 /\ NoDup l2 /\ (forall x, In x l1 -> In x l2 -> False).
Proof.
  induction l1 as [|a l1 IH]; intro l2; simpl.
  - split; [intro H; splits; [constructor|exact H|tauto]|tauto].
  - split.
    + intro H. inversion H as [|? ? NI ND]; subst. apply IH in ND. destruct ND as (N1 & N2 & DJ).
      splits; [constructor; [intro X; apply NI; apply in_or_app; auto|exact N1]|exact N2|].
      intros x [<-|I1] I2; [apply NI; apply in_or_app; auto|eauto].
    + intros (N1 & N2 & DJ). inversion N1 as [|? ? NI ND]; subst. constructor.
      * intro X. apply in_app_or in X. destruct X as [X|X]; [tauto|]. eapply DJ; [left; reflexivity|exact X].
      * apply IH. splits; [exact ND|exact N2|]. intros x I1 I2. eapply DJ; [right; exact I1|exact I2].
Qed.

Lemma hmerge_spec : forall h d inc lo b d0,
  hwf h -> own_at h d lo b d0 -> closed lo h -> inc < lo -> dnodup h inc ->
  let h' := hmerge h d inc in
  hwf h' /\ h_next h <= h_next h' /\ agree_below lo h h' /\
  (exists d0', own_at h' d lo b d0' /\
     (forall i, In i (owned_ids h' b d0') -> In i (owned_ids h b d0) \/ h_next h <= i)) /\
  (forall i, i < h_next h -> i < b \/ b + 6 < i -> ~ In i (owned_ids h b d0) -> hget h' i = hget h i) /\
  deq (denote_diff h' d) (merge (denote_diff h d) (denote_diff h inc)).
Proof.
  intros h d inc lo b d0 W OWN CL Linc DN h'. subst h'.
  pose proof OWN as (-> & Llo & Ld & Gd & FI & ND2 & ND1 & SO).
  unfold hmerge. rewrite Gd.
  destruct (hget h inc) as [[| | | | |st' no' de' re' d1' mi' d0'| | |]|] eqn:GI;
    try (splits; [exact W|lia|apply agree_refl|exists d0; split; [exact OWN|auto]|reflexivity|];
         assert (DE : denote_diff h inc = empty_diff) by (unfold denote_diff; rewrite GI; reflexivity);
         rewrite DE, merge_empty_r; apply deq_refl).
  pose proof (CL inc _ Linc GI) as BI. cbn [refs] in BI. apply below6 in BI.
  destruct BI as (Lst' & Lno' & Lde' & Lre' & Ld1' & Lmi' & Bd0').
  pose proof (gouter_below lo h CL st' Lst') as BIN.
  apply Forall_app in FI. destruct FI as [FA FIN].
  assert (SI : sinv h b (b + 6)) by (unfold sinv; splits; try lia; try assumption; apply nodup_app_iff in ND2; tauto).
  assert (NDI : NoDup (map fst (gouter h st'))) by (unfold dnodup in DN; rewrite GI in DN; exact DN).
  assert (FB : Forall (fun ai : N * oid => snd ai < b) (gouter h st')).
  { apply (forall_map_snd (fun x => x < b)). eapply Forall_impl; [|exact BIN]. simpl. intros. lia. }
  destruct (merge_storage_spec _ h b (b + 6) W SI NDI FB) as (W1 & L1 & SI1 & K1 & I1 & S1).
  cbv zeta.
  set (h1 := fold_left (merge_storage_step b) (gouter h st') h) in *.
  (* reads in h1 *)
  assert (R1 : forall i, i <= b + 6 -> i <> b -> hget h1 i = hget h i).
  { intros i Li NB. apply K1; [lia|exact NB|]. eapply notin_above; [exact FIN|lia]. }
  assert (R1a : forall a, In a (sref d0) -> hget h1 a = hget h a).
  { intros a Ia. rewrite Forall_forall in FA. pose proof (FA a Ia) as La. simpl in La.
    apply K1; [lia|lia|]. intro X. apply nodup_app_iff in ND2. destruct ND2 as (_ & _ & DJ). exact (DJ a Ia X). }
  set (h2 := hset h1 (b + 1) (OMapN (gmap h1 no' ++ gmap h1 (b + 1)))).
  set (h3 := hset h2 (b + 2) (OMapN (gmap h2 de' ++ gmap h2 (b + 2)))).
  set (h4 := hset h3 (b + 4) (OMapN (gmap h3 d1' ++ gmap h3 (b + 4)))).
  set (h5 := hset h4 (b + 3) (OMapN (gmap h4 re' ++ gmap h4 (b + 3)))).
  set (h6 := hset h5 (b + 5) (OMapN (gmap h5 mi' ++ gmap h5 (b + 5)))).
  assert (N6 : h_next h6 = h_next h1) by reflexivity.
  assert (W6 : hwf h6).
  { unfold h6, h5, h4, h3, h2. repeat (apply hwf_set; [|rewrite ?next_hset; lia|constructor]). exact W1. }
  assert (R6 : forall i, i <= b \/ b + 5 < i -> hget h6 i = hget h1 i).
  { intros i Li. unfold h6, h5, h4, h3, h2. rewrite !hget_hset_other by lia. reflexivity. }
  assert (SC' : sl_cells h6 d0' = sl_cells h d0').
  { apply sl_cells_same. intros a Ia. unfold below in Bd0'. rewrite Forall_forall in Bd0'. specialize (Bd0' a Ia).
    rewrite R6 by lia. apply R1; lia. }
  assert (SO6 : slice_ok h6 d0).
  { eapply slice_ok_same; [|exact SO]. intros a Ia. rewrite Forall_forall in FA. pose proof (FA a Ia) as La. simpl in La.
    rewrite R6 by lia. apply R1a. exact Ia. }
  assert (BS6 : below (h_next h6) (sref d0)).
  { rewrite N6. eapply Forall_impl; [|exact FA]. simpl. intros. lia. }
  assert (BX6 : below (h_next h6) (flat_map cref (sl_cells h6 d0'))).
  { apply below_sl_cells_wf; [exact W6|]. rewrite N6. eapply below_mono; [exact Bd0'|lia]. }
  destruct (h_append h6 d0 (sl_cells h6 d0')) as [h7 d0n] eqn:EA.
  destruct (h_append_spec _ _ _ _ _ W6 SO6 BS6 BX6 EA) as (W7 & L7 & SO7 & SC7 & K7 & OR7 & B7).
  set (h8 := hset h7 (b + 6) (ODiff b (b + 1) (b + 2) (b + 3) (b + 4) (b + 5) d0n)).
  assert (N8 : h_next h8 = h_next h7) by reflexivity.
  assert (W8 : hwf h8).
  { apply hwf_set; [exact W7|lia|]. cbn [refs]. unfold below. repeat (constructor; [lia|]). exact B7. }
  (* reads in the final heap *)
  assert (R7 : forall i, i < h_next h1 -> ~ In i (sref d0) -> hget h7 i = hget h6 i).
  { intros i Li NI. apply K7; [lia|exact NI]. }
  assert (NA : forall i, i <= b + 6 -> ~ In i (sref d0)).
  { intros i Li. eapply notin_above; [exact FA|lia]. }
  assert (R8 : forall i, i <= b + 5 -> hget h8 i = hget h6 i).
  { intros i Li. unfold h8. rewrite hget_hset_other by lia. apply R7; [lia|apply NA; lia]. }
  assert (GO8 : gouter h8 b = gouter h1 b).
  { unfold gouter. rewrite R8, R6 by lia. reflexivity. }
  assert (IN1 : forall m, In m (map snd (gouter h1 b)) -> b + 6 < m < h_next h1 /\ ~ In m (sref d0)).
  { intros m Im. destruct SI1 as (_ & _ & F1 & _). rewrite Forall_forall in F1. split; [exact (F1 m Im)|].
    intro X. apply I1 in Im. destruct Im as [Im|Im].
    - apply nodup_app_iff in ND2. destruct ND2 as (_ & _ & DJ). exact (DJ m X Im).
    - rewrite Forall_forall in FA. specialize (FA m X). simpl in FA. lia. }
  assert (GM8 : forall m, In m (map snd (gouter h1 b)) -> gmap h8 m = gmap h1 m).
  { intros m Im. destruct (IN1 m Im) as [Lm NIm]. unfold gmap, h8. rewrite hget_hset_other by lia.
    rewrite R7 by (try lia; exact NIm). rewrite R6 by lia. reflexivity. }
  assert (ALO : agree_below lo h h8).
  { intros i Li. unfold h8. rewrite hget_hset_other by lia. rewrite R7; [|lia|apply NA; lia].
    rewrite R6 by lia. apply R1; lia. }
  splits; [exact W8|rewrite N8; lia|exact ALO| | |].
  - (* ownership *)
    exists d0n. unfold own_at, owned_ids. rewrite GO8, N8. split; [|
      intros i Ii; apply in_app_or in Ii; destruct Ii as [Ii|Ii];
      [destruct OR7 as [E|E]; rewrite E in Ii; [left; apply in_or_app; auto|destruct Ii as [<-|[]]; right; lia]
      |apply I1 in Ii; destruct Ii as [Ii|Ii]; [left; apply in_or_app; auto|right; exact Ii]]].
    destruct SI1 as (_ & _ & F1 & NDS1 & NDF1).
    assert (FN : Forall (fun i => b + 6 < i < h_next h7) (sref d0n)).
    { destruct OR7 as [E|E]; rewrite E.
      - eapply Forall_impl; [|exact FA]. simpl. intros. lia.
      - rewrite E in B7. inversion B7; subst. constructor; [lia|constructor]. }
    splits; try lia; try reflexivity.
    + unfold h8. apply hget_hset_same.
    + apply Forall_app. split; [exact FN|]. eapply Forall_impl; [|exact F1]. simpl. intros. lia.
    + destruct OR7 as [E|E]; rewrite E.
      * apply nodup_app_iff. splits; [apply nodup_app_iff in ND2; tauto|exact NDS1|].
        intros x Ix Jx. destruct (IN1 x Jx) as [_ NX]. tauto.
      * apply nodup_app_iff. splits; [constructor; [intros []|constructor]|exact NDS1|].
        intros x [<-|[]] Jx. rewrite Forall_forall in F1. specialize (F1 _ Jx). simpl in F1. lia.
    + exact NDF1.
    + eapply slice_ok_same; [|exact SO7]. intros a Ia. unfold h8. apply hget_hset_other.
      rewrite Forall_forall in FN. specialize (FN a Ia). simpl in FN. lia.
  - (* precise frame *)
    intros i Li OUT NI. unfold owned_ids in NI.
    assert (NI1 : ~ In i (sref d0)) by (intro X; apply NI; apply in_or_app; auto).
    assert (NI2 : ~ In i (map snd (gouter h b))) by (intro X; apply NI; apply in_or_app; auto).
    unfold h8. rewrite hget_hset_other by lia. rewrite R7 by (try lia; exact NI1). rewrite R6 by lia.
    apply K1; [exact Li|lia|exact NI2].
  - (* denotation *)
    assert (G8 : hget h8 (b + 6) = Some (ODiff b (b + 1) (b + 2) (b + 3) (b + 4) (b + 5) d0n))
      by (unfold h8; apply hget_hset_same).
    assert (GM : forall x y, x <= b + 5 -> y < lo ->
              gmap h8 x = gmap h6 x /\ gmap h1 y = gmap h y).
    { intros x y Lx Ly. unfold gmap. rewrite R8 by lia. split; [reflexivity|]. rewrite R1 by lia. reflexivity. }
    unfold denote_diff at 1. rewrite G8, GO8. unfold denote_diff at 1. rewrite Gd.
    unfold denote_diff. rewrite GI. unfold deq, merge.
    cbn [d_storage d_nonces d_deployed d_replaced d_decl1 d_migrated d_decl0].
    splits.
    + intro a. rewrite sproj_app. destruct SI1 as (_ & _ & _ & _ & NDF1).
      rewrite !sproj_flatten by assumption.
      transitivity (sget h1 b a).
      * unfold sget. destruct (alookup a (gouter h1 b)) as [m|] eqn:AL; [|reflexivity].
        apply GM8. change m with (snd (a, m)). apply in_map. apply alookup_in. exact AL.
      * rewrite S1. reflexivity.
    + unfold gmap at 1. rewrite R8 by lia. unfold h6, h5, h4, h3. rewrite !hget_hset_other by lia.
      unfold h2. rewrite hget_hset_same. unfold gmap. rewrite !R1 by lia. reflexivity.
    + unfold gmap at 1. rewrite R8 by lia. unfold h6, h5, h4. rewrite !hget_hset_other by lia.
      unfold h3. rewrite hget_hset_same. unfold gmap, h2. rewrite !hget_hset_other by lia. rewrite !R1 by lia. reflexivity.
    + unfold gmap at 1. rewrite R8 by lia. unfold h6. rewrite !hget_hset_other by lia.
      unfold h5. rewrite hget_hset_same. unfold gmap, h4, h3, h2. rewrite !hget_hset_other by lia. rewrite !R1 by lia. reflexivity.
    + unfold gmap at 1. rewrite R8 by lia. unfold h6, h5. rewrite !hget_hset_other by lia.
      unfold h4. rewrite hget_hset_same. unfold gmap, h3, h2. rewrite !hget_hset_other by lia. rewrite !R1 by lia. reflexivity.
    + unfold gmap at 1. rewrite R8 by lia.
      unfold h6. rewrite hget_hset_same. unfold gmap, h5, h4, h3, h2. rewrite !hget_hset_other by lia. rewrite !R1 by lia. reflexivity.
    + assert (E8 : sl_cells h8 d0n = sl_cells h7 d0n).
      { apply sl_cells_same. intros a Ia. unfold h8. apply hget_hset_other.
        destruct OR7 as [E|E]; rewrite E in Ia.
        - rewrite Forall_forall in FA. specialize (FA a Ia). simpl in FA. lia.
        - destruct Ia as [<-|[]]. lia. }
      rewrite E8, SC7, SC', map_app. f_equal. f_equal.
      apply sl_cells_same. intros a Ia. rewrite R6; [apply R1a; exact Ia|].
      rewrite Forall_forall in FA. specialize (FA a Ia). simpl in FA. lia.
Qed.

Lemma forall2_refl : forall {A} (R : A -> A -> Prop) l, (forall x, R x x) -> Forall2 R l l.
Proof. induction l; intro H; constructor; auto. Qed.

Lemma hmerge_all_spec : forall incs h d lo b d0,
  hwf h -> own_at h d lo b d0 -> closed lo h -> Forall (fun i => i < lo /\ dnodup h i) incs ->
  let h' := hmerge_all h d incs in
  hwf h' /\ h_next h <= h_next h' /\ agree_below lo h h' /\
  (exists d0', own_at h' d lo b d0' /\
     (forall i, In i (owned_ids h' b d0') -> In i (owned_ids h b d0) \/ h_next h <= i)) /\
  (forall i, i < h_next h -> i < b \/ b + 6 < i -> ~ In i (owned_ids h b d0) -> hget h' i = hget h i) /\
  deq (denote_diff h' d) (merge_all (denote_diff h d) (map (denote_diff h) incs)).
Proof.
  induction incs as [|i r IH]; intros h d lo b d0 W OWN CL FI h'; subst h'.
  - simpl. splits; auto using agree_refl, deq_refl; try lia. exists d0. auto.
  - unfold hmerge_all. cbn [fold_left]. fold (hmerge_all (hmerge h d i) d r).
    inversion FI as [|? ? [Li Di] FR]; subst.
    destruct (hmerge_spec h d i lo b d0 W OWN CL Li Di) as (W1 & L1 & A1 & (d01 & O1 & J1) & F1 & D1).
    pose proof (closed_agree _ _ _ CL A1) as CL1.
    assert (FR1 : Forall (fun x => x < lo /\ dnodup (hmerge h d i) x) r).
    { eapply Forall_impl; [|exact FR]. simpl. intros x [Lx Dx]. split; [exact Lx|].
      exact (dnodup_frame lo h _ A1 CL x Lx Dx). }
    destruct (IH _ d lo b d01 W1 O1 CL1 FR1) as (W2 & L2 & A2 & (d02 & O2 & J2) & F2 & D2).
    splits; auto; try lia.
    + eapply agree_trans; eassumption.
    + exists d02. split; [exact O2|]. intros x Ix. apply J2 in Ix. destruct Ix as [Ix|Ix]; [|right; lia].
      apply J1 in Ix. exact Ix.
    + intros x Lx OUT NI. rewrite F2; [apply F1; assumption|lia|exact OUT|].
      intro X. apply J1 in X. destruct X as [X|X]; [tauto|lia].
    + eapply deq_trans; [exact D2|]. cbn [map]. unfold merge_all at 2. cbn [fold_left].
      fold (merge_all (merge (denote_diff h d) (denote_diff h i)) (map (denote_diff h) r)).
      apply deq_merge_all; [exact D1|].
      assert (E : map (denote_diff (hmerge h d i)) r = map (denote_diff h) r).
      { apply map_ext_in. intros x Ix. rewrite Forall_forall in FR. destruct (FR x Ix) as [Lx _].
        exact (denote_diff_frame lo h _ A1 CL x Lx). }
      rewrite E. apply forall2_refl. apply deq_refl.
Qed.

Lemma own_dnodup : forall h d lo, own h d lo -> dnodup h d.
Proof. intros h d lo (b & d0 & _ & _ & _ & G & _ & _ & ND & _). unfold dnodup. rewrite G. exact ND. Qed.

Lemma own_lt : forall h d lo, own h d lo -> lo <= d /\ d < h_next h.
Proof. intros h d lo (b & d0 & -> & L & L' & _). lia. Qed.
