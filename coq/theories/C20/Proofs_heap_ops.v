(* C20 — heap-level model: views, computeUpdate, AdvanceTo, SnapshotForBlock against the list model. *)
From Coq Require Import List NArith Arith Bool Lia ZifyN ZifyNat ZifyBool.
From V Require Import C20.Model C20.Proofs C20.Proofs_heap_base C20.Proofs_heap_merge C20.Proofs_heap_adapt.
Import ListNotations.
Open Scope N_scope.

(* ---------- walking a view ---------- *)
Lemma walk_length : forall h k o, nodes_ok h o k -> length (walk_entries h o k) = k.
Proof.
  induction k as [|k IH]; intros o K; [reflexivity|]. destruct o as [i|]; [|contradiction].
  destruct K as (e & p & G & _ & K). simpl. rewrite G. simpl. f_equal. apply IH. exact K.
Qed.

Lemma nodes_ok_le : forall h k j o, nodes_ok h o k -> (j <= k)%nat -> nodes_ok h o j.
Proof.
  induction k as [|k IH]; intros j o K L.
  - assert (j = O) by lia. subst. exact I.
  - destruct j as [|j]; [exact I|]. destruct o as [i|]; [|contradiction].
    destruct K as (e & p & G & E & K). exists e, p. splits; auto. apply (IH j p K). lia.
Qed.

Lemma walk_firstn : forall h k j o, nodes_ok h o k -> (j <= k)%nat ->
  walk_entries h o j = firstn j (walk_entries h o k).
Proof.
  induction k as [|k IH]; intros j o K L.
  - assert (j = O) by lia. subst. reflexivity.
  - destruct j as [|j]; [reflexivity|]. destruct o as [i|]; [|contradiction].
    destruct K as (e & p & G & E & K). simpl. rewrite G. simpl. f_equal. apply IH; [exact K|lia].
Qed.

Lemma h_walk_node : forall h j k o, nodes_ok h o k -> (j < k)%nat ->
  exists tn e p, h_walk h o j = Some tn /\ hget h tn = Some (ONode e p) /\ entry_ok h e /\
    nodes_ok h p (k - j - 1) /\ skipn j (walk_entries h o k) = e :: walk_entries h p (k - j - 1).
Proof.
  induction j as [|j IH]; intros k o K L.
  - destruct k as [|k]; [lia|]. destruct o as [i|]; [|contradiction].
    destruct K as (e & p & G & E & K). exists i, e, p. simpl. rewrite G. rewrite Nat.sub_0_r. splits; auto.
  - destruct k as [|k]; [lia|]. destruct o as [i|]; [|contradiction].
    destruct K as (e & p & G & E & K). cbn [h_walk]. unfold node_parent at 1. rewrite G.
    destruct (IH k p K ltac:(lia)) as (tn & e' & p' & H1 & H2 & H3 & H4 & H5).
    exists tn, e', p'. replace (S k - S j - 1)%nat with (k - j - 1)%nat by lia. splits; auto.
    simpl. rewrite G. exact H5.
Qed.

(* ---------- an entry against its denotation ---------- *)
Lemma e_num_denote : forall h e, e_num (denote_entry h e) = entry_num h e.
Proof.
  intros. unfold denote_entry, denote_pcv, entry_num.
  destruct (hget h (p_blk (gpcv h e))) as [[]|]; reflexivity.
Qed.

Lemma e_id_denote : forall h e, e_id (denote_entry h e) = p_ident (gpcv h e).
Proof.
  intros. unfold denote_entry, denote_pcv. destruct (hget h (p_blk (gpcv h e))) as [[]|]; reflexivity.
Qed.

Lemma entry_ok_gpcv : forall h e, entry_ok h e -> pcv_ok h (gpcv h e) /\ hget h e = Some (OEntry (gpcv h e)).
Proof. intros h e (p & G & K). unfold gpcv. rewrite G. auto. Qed.

Lemma items_len_denote : forall h e, entry_ok h e -> len (e_items (denote_entry h e)) = entry_ntx h e.
Proof.
  intros h e K. apply entry_ok_gpcv in K. destruct K as [(hdr & txs & rcs & G & KZ & _) _].
  unfold denote_entry, denote_pcv, entry_ntx. rewrite G. cbn [e_items]. cbv zeta in KZ. unfold len. lia.
Qed.

Lemma classes_denote : forall h e, entry_ok h e -> e_classes (denote_entry h e) = gcls h (p_cls (gpcv h e)).
Proof.
  intros h e K. apply entry_ok_gpcv in K. destruct K as [(hdr & txs & rcs & G & _) _].
  unfold denote_entry, denote_pcv. rewrite G. reflexivity.
Qed.

Lemma denote_view_length : forall h v, nodes_ok h (fst v) (snd v) -> length (denote_view h v) = snd v.
Proof. intros h v K. unfold denote_view. rewrite map_length. apply walk_length. exact K. Qed.

Lemma tip_denote : forall h v, nodes_ok h (fst v) (snd v) -> tip (denote_view h v) = h_tip h v.
Proof.
  intros h [o k] K. unfold denote_view, h_tip. cbn [fst snd] in *. destruct k as [|k]; [reflexivity|].
  destruct o as [i|]; [|contradiction]. destruct K as (e & p & G & _ & _). simpl. rewrite G. simpl.
  rewrite e_num_denote. reflexivity.
Qed.

Lemma oldest_denote : forall h v, nodes_ok h (fst v) (snd v) -> oldest (denote_view h v) = h_oldest h v.
Proof. intros h v K. unfold oldest, h_oldest. rewrite tip_denote, denote_view_length by exact K. reflexivity. Qed.

Lemma contains_denote : forall h v n, nodes_ok h (fst v) (snd v) ->
  contains (denote_view h v) n = h_contains h v n.
Proof.
  intros h v n K. unfold contains, h_contains. pose proof (denote_view_length h v K) as L.
  rewrite <- (oldest_denote h v K), <- (tip_denote h v K).
  destruct (denote_view h v) as [|x r]; destruct (snd v); simpl in L; try lia; reflexivity.
Qed.

(* ---------- installing a new entry on top of existing nodes ---------- *)
Lemma install_spec : forall h p parent k h2 e h3 nd,
  hwf h -> below (h_next h) (prefs p) -> pcv_ok h p -> below (h_next h) (oref parent) -> nodes_ok h parent k ->
  halloc h (OEntry p) = (h2, e) -> halloc h2 (ONode e parent) = (h3, nd) ->
  ext h h3 /\ view_ok h3 (Some nd, S k) /\ e < h_next h3 /\
  walk_entries h3 (Some nd) (S k) = e :: walk_entries h parent k /\
  denote_entry h3 e = denote_pcv h p.
Proof.
  intros h p parent k h2 e h3 nd W BP KP BPa KN E2 E3.
  assert (X2 : ext h h2) by (eapply ext_alloc; [exact W| |exact E2]; exact BP).
  pose proof X2 as (_ & W2 & L2 & _).
  apply halloc_inv in E2. destruct E2 as (-> & NX2 & G2 & F2).
  assert (X3 : ext h2 h3).
  { eapply ext_alloc; [exact W2| |exact E3]. cbn [refs]. constructor; [lia|]. eapply below_mono; [exact BPa|lia]. }
  pose proof X3 as (_ & W3 & L3 & _).
  apply halloc_inv in E3. destruct E3 as (-> & NX3 & G3 & F3).
  assert (X : ext h h3) by exact (ext_trans _ _ _ X2 X3).
  assert (G2' : hget h3 (h_next h) = Some (OEntry p)) by (rewrite F3 by lia; exact G2).
  assert (EO : entry_ok h3 (h_next h)).
  { exists p. split; [exact G2'|]. apply (ext_pcv_ok _ _ X); assumption. }
  splits.
  - exact X.
  - split; [cbn [fst oref]; apply below_one; lia|]. cbn [fst snd nodes_ok]. exists (h_next h), parent. splits; auto.
    apply (ext_nodes_ok _ _ X); assumption.
  - lia.
  - cbn [walk_entries]. rewrite G3. f_equal. apply (ext_walk _ _ X). exact BPa.
  - unfold denote_entry, gpcv. rewrite G2'. apply (ext_denote_pcv _ _ X). exact BP.
Qed.

(* ---------- results of computeUpdate: heap level against list model ---------- *)
Definition res_rel (h' : heap) (r : hres) (m : apply_res) : Prop :=
  match r, m with
  | HErr e, RErr e' => e = e'
  | HNoop, RNoop => True
  | HApplied v a, RApplied c a' => view_ok h' v /\ ceq (denote_view h' v) c /\ eeq (denote_entry h' a) a'
  | _, _ => False
  end.

Lemma ceq_refl : forall c, ceq c c.
Proof. intro c. apply forall2_refl. apply eeq_refl. Qed.

Lemma adapt_checked_fault : forall b bn cls,
  adapt_checked b bn cls = match fault_of b with
                           | Some e => inl e
                           | None => inr (mkEntry bn (ub_id b) (ub_items b) (squash empty_diff (ub_items b)) cls)
                           end.
Proof. intros. unfold adapt_checked, fault_of. destruct (ub_fault b =? 1); [reflexivity|]. destruct (ub_fault b =? 2); reflexivity. Qed.

Lemma view_cons_ceq : forall h h' nd e parent k a',
  ext h h' -> below (h_next h) (oref parent) ->
  walk_entries h' (Some nd) (S k) = e :: walk_entries h parent k -> eeq (denote_entry h' e) a' ->
  ceq (denote_view h' (Some nd, S k)) (a' :: map (denote_entry h) (walk_entries h parent k)).
Proof.
  intros h h' nd e parent k a' X B WK EQ. unfold denote_view. cbn [fst snd]. rewrite WK. cbn [map].
  constructor; [exact EQ|].
  assert (E : map (denote_entry h') (walk_entries h parent k) = map (denote_entry h) (walk_entries h parent k)).
  { apply map_ext_in. intros x Ix. apply (ext_denote_entry _ _ X).
    pose proof (walk_entries_below _ h (hwf_closed h (proj1 X)) k parent B) as WB.
    unfold below in WB. rewrite Forall_forall in WB. apply WB. exact Ix. }
  rewrite E. apply ceq_refl.
Qed.

Lemma new_block_node_spec : forall h b bn cls parent k h' nd e,
  hwf h -> below (h_next h) (oref cls) -> below (h_next h) (oref parent) -> nodes_ok h parent k ->
  h_new_block_node h b bn cls parent = (h', nd, e) ->
  ext h h' /\ view_ok h' (Some nd, S k) /\
  ceq (denote_view h' (Some nd, S k))
      (mkEntry bn (ub_id b) (ub_items b) (squash empty_diff (ub_items b)) (gcls h cls)
       :: map (denote_entry h) (walk_entries h parent k)) /\
  eeq (denote_entry h' e) (mkEntry bn (ub_id b) (ub_items b) (squash empty_diff (ub_items b)) (gcls h cls)).
Proof.
  intros h b bn cls parent k h' nd e W BC BPa KN E. unfold h_new_block_node in E.
  destruct (h_adapt_block h b bn cls) as [h1 p] eqn:E1.
  destruct (halloc h1 (OEntry p)) as [h2 e'] eqn:E2. destruct (halloc h2 (ONode e' parent)) as [h3 nd'] eqn:E3.
  inversion E; subst h3 nd' e'; clear E.
  destruct (h_adapt_block_spec _ _ _ _ _ _ W BC E1) as (X1 & BP & KP & _ & _ & EQ).
  pose proof X1 as (_ & W1 & L1 & _).
  destruct (install_spec h1 p parent k h2 e h' nd W1 BP KP (ext_below _ _ X1 _ BPa) (ext_nodes_ok _ _ X1 _ _ BPa KN) E2 E3)
    as (X3 & VO & Le & WK & DE).
  assert (X : ext h h') by exact (ext_trans _ _ _ X1 X3).
  assert (WK' : walk_entries h' (Some nd) (S k) = e :: walk_entries h parent k).
  { rewrite WK. f_equal. apply (ext_walk _ _ X1). exact BPa. }
  assert (EQ' : eeq (denote_entry h' e) (mkEntry bn (ub_id b) (ub_items b) (squash empty_diff (ub_items b)) (gcls h cls))).
  { rewrite DE. exact EQ. }
  splits; auto. eapply view_cons_ceq; eassumption.
Qed.

Lemma denote_pcv_with_cls : forall h p c, pcv_ok h p ->
  denote_pcv h (mkPcv (p_blk p) (p_su p) c (p_txd p) (p_ident p)) =
  let t := denote_pcv h p in mkEntry (e_num t) (e_id t) (e_items t) (e_diff t) (gcls h c).
Proof.
  intros h p c (hdr & txs & rcs & G & _). unfold denote_pcv. cbn [p_blk p_su p_cls p_txd p_ident]. rewrite G.
  reflexivity.
Qed.

Lemma eeq_with_cls : forall a b c, eeq a b ->
  eeq (mkEntry (e_num a) (e_id a) (e_items a) (e_diff a) c) (mkEntry (e_num b) (e_id b) (e_items b) (e_diff b) c).
Proof. intros a b c (H1 & H2 & H3 & H4 & _). unfold eeq. cbn. splits; auto. Qed.

Lemma should_preserve_denote : forall h te b bn cls, entry_ok h te ->
  should_preserve (denote_entry h te) (mkEntry bn (ub_id b) (ub_items b) (squash empty_diff (ub_items b)) cls) =
  h_should_preserve h te (ub_id b) (len (ub_items b)) (len cls).
Proof.
  intros h te b bn cls K. unfold should_preserve, h_should_preserve. cbn [e_id e_items e_classes].
  rewrite e_id_denote, items_len_denote, classes_denote by exact K. reflexivity.
Qed.


Lemma h_replace_slot_refines : forall h cur u bn bt cls h' r,
  hwf h -> view_ok h cur -> below (h_next h) (oref cls) -> (N.to_nat (h_tip h cur - bn) < snd cur)%nat ->
  h_replace_slot h cur u bn bt cls = (h', r) ->
  ext h h' /\ res_rel h' r (replace_slot (denote_view h cur) u bn bt (gcls h cls)).
Proof.
  intros h cur u bn bt cls h' r W [BH KN] BC LD E. unfold h_replace_slot in E.
  unfold replace_slot. rewrite (tip_denote h cur KN).
  set (depth := N.to_nat (h_tip h cur - bn)) in *.
  destruct (h_walk_node h depth (snd cur) (fst cur) KN LD) as (tn & te & tp & HW & GN & EO & KP & SK).
  rewrite HW in E. unfold node_entry, node_parent in E. rewrite GN in E.
  unfold denote_view at 1. rewrite skipn_map, SK. cbn [map].
  set (k := (snd cur - depth - 1)%nat) in *.
  assert (Ltn : tn < h_next h) by (eapply hwf_lt; eassumption).
  destruct (node_refs _ h (hwf_closed h W) _ _ _ Ltn GN) as [Lte Btp].
  destruct (entry_ok_gpcv _ _ EO) as [KPc GE].
  pose proof (gpcv_below _ h (hwf_closed h W) te Lte) as BPc.
  assert (SKk : (snd cur - depth)%nat = S k) by (unfold k; lia).
  destruct u as [b|dl|].
  - (* a full block at an existing slot *)
    rewrite adapt_checked_fault. destruct (fault_of b) as [er|] eqn:FO.
    { inversion E; subst. split; [apply ext_refl; exact W|reflexivity]. }
    rewrite should_preserve_denote by exact EO.
    destruct (h_should_preserve h te (ub_id b) (len (ub_items b)) (len (gcls h cls))).
    { inversion E; subst. split; [apply ext_refl; exact W|exact I]. }
    destruct (h_new_block_node h b bn cls tp) as [[h1 nd] e] eqn:E1. inversion E; subst h1 r; clear E.
    destruct (new_block_node_spec _ _ _ _ _ k _ _ _ W BC Btp KP E1) as (X & VO & CE & EQ).
    rewrite SKk. split; [exact X|]. cbn [res_rel]. splits; auto.
  - (* a delta *)
    rewrite items_len_denote, e_id_denote by exact EO.
    destruct (negb (Nat.eqb depth 0)) eqn:D0.
    { inversion E; subst. split; [apply ext_refl; exact W|reflexivity]. }
    destruct (negb (entry_ntx h te =? bt)).
    { inversion E; subst. split; [apply ext_refl; exact W|reflexivity]. }
    destruct (negb (p_ident (gpcv h te) =? ud_id dl)).
    { inversion E; subst. split; [apply ext_refl; exact W|reflexivity]. }
    destruct (ud_fault dl =? 1).
    { inversion E; subst. split; [apply ext_refl; exact W|reflexivity]. }
    destruct (h_adapt_delta h (gpcv h te) dl) as [h1 p] eqn:E1.
    destruct (h_merge_classes_copying h1 (p_cls p) cls) as [h2 c] eqn:E2.
    destruct (halloc h2 (OEntry (mkPcv (p_blk p) (p_su p) c (p_txd p) (p_ident p)))) as [h3 e] eqn:E3.
    destruct (halloc h3 (ONode e tp)) as [h4 nd] eqn:E4.
    inversion E; subst h4 r; clear E.
    destruct (h_adapt_delta_spec _ _ _ _ _ W BPc KPc E1) as (X1 & BP1 & KP1 & PC & PI & EQ1).
    pose proof X1 as (_ & W1 & L1 & _).
    destruct (prefs_inv _ _ BP1) as (Lb1 & Ls1 & Bc1 & Bt1).
    destruct (h_mcc_spec _ _ _ _ _ W1 Bc1 (ext_below _ _ X1 _ BC) E2) as (X2 & Bc2 & GC2).
    pose proof X2 as (_ & W2 & L2 & _).
    assert (X02 : ext h h2) by exact (ext_trans _ _ _ X1 X2).
    assert (BP2 : below (h_next h2) (prefs (mkPcv (p_blk p) (p_su p) c (p_txd p) (p_ident p)))).
    { unfold prefs. cbn [p_blk p_su p_cls p_txd]. constructor; [lia|]. constructor; [lia|]. apply below_app. split; [exact Bc2|].
      apply (ext_below _ _ X2). exact Bt1. }
    assert (KP2 : pcv_ok h2 (mkPcv (p_blk p) (p_su p) c (p_txd p) (p_ident p))).
    { pose proof (ext_pcv_ok _ _ X2 _ BP1 KP1) as K2. exact K2. }
    destruct (install_spec h2 _ tp k h3 e h' nd W2 BP2 KP2 (ext_below _ _ X02 _ Btp) (ext_nodes_ok _ _ X02 _ _ Btp KP) E3 E4)
      as (X4 & VO & Le & WK & DE).
    assert (X : ext h h') by exact (ext_trans _ _ _ X02 X4).
    assert (D0' : depth = O) by (destruct depth; [reflexivity|discriminate]).
    assert (SK' : snd cur = S k) by lia.
    assert (EQ : eeq (denote_entry h' e)
                  (let n0 := adapt_delta (denote_entry h te) dl in
                   mkEntry (e_num n0) (e_id n0) (e_items n0) (e_diff n0) (merge_classes_copying (e_classes n0) (gcls h cls)))).
    { rewrite DE. rewrite denote_pcv_with_cls by (exact (ext_pcv_ok _ _ X2 _ BP1 KP1)). cbv zeta.
      rewrite (ext_denote_pcv _ _ X2) by exact BP1. rewrite GC2.
      rewrite PC, (ext_gcls _ _ X1 _ (proj1 (proj2 (proj2 (prefs_inv _ _ BPc))))), (ext_gcls _ _ X1 _ BC).
      assert (EC : e_classes (adapt_delta (denote_entry h te) dl) = gcls h (p_cls (gpcv h te))).
      { unfold adapt_delta. cbn [e_classes]. apply classes_denote. exact EO. }
      rewrite EC. apply eeq_with_cls. exact EQ1. }
    rewrite SK'. split; [exact X|]. cbn [res_rel]. splits; auto.
    eapply view_cons_ceq; [exact X|exact Btp| |exact EQ].
    rewrite WK. f_equal. apply (ext_walk _ _ X02). exact Btp.
  - (* no change: register classes at the tip *)
    destruct (gcls h cls) as [|c0 cr] eqn:GC.
    { inversion E; subst. split; [apply ext_refl; exact W|exact I]. }
    rewrite <- GC in *.
    destruct (negb (Nat.eqb depth 0)) eqn:D0.
    { inversion E; subst. split; [apply ext_refl; exact W|reflexivity]. }
    destruct (h_merge_classes_copying h (p_cls (gpcv h te)) cls) as [h1 merged] eqn:E1.
    destruct (prefs_inv _ _ BPc) as (Lb & Ls & Bc & Bt).
    destruct (h_mcc_spec _ _ _ _ _ W Bc BC E1) as (X1 & Bm & GM).
    pose proof X1 as (_ & W1 & L1 & _).
    rewrite (ext_gcls _ _ X1 _ Bc) in E. rewrite GM in E.
    rewrite classes_denote by exact EO.
    destruct (len (merge_classes_copying (gcls h (p_cls (gpcv h te))) (gcls h cls)) =? len (gcls h (p_cls (gpcv h te)))).
    { inversion E; subst. split; [exact X1|exact I]. }
    set (tpv := gpcv h te) in *.
    destruct (halloc h1 (OEntry (mkPcv (p_blk tpv) (p_su tpv) merged (p_txd tpv) (p_ident tpv)))) as [h2 e] eqn:E2.
    destruct (halloc h2 (ONode e tp)) as [h3 nd] eqn:E3.
    inversion E; subst h3 r; clear E.
    assert (BP1 : below (h_next h1) (prefs (mkPcv (p_blk tpv) (p_su tpv) merged (p_txd tpv) (p_ident tpv)))).
    { unfold prefs. cbn [p_blk p_su p_cls p_txd]. constructor; [lia|]. constructor; [lia|]. apply below_app. split; [exact Bm|].
      apply (ext_below _ _ X1). exact Bt. }
    assert (KP1 : pcv_ok h1 (mkPcv (p_blk tpv) (p_su tpv) merged (p_txd tpv) (p_ident tpv))).
    { pose proof (ext_pcv_ok _ _ X1 _ BPc KPc) as K2. exact K2. }
    destruct (install_spec h1 _ tp k h2 e h' nd W1 BP1 KP1 (ext_below _ _ X1 _ Btp) (ext_nodes_ok _ _ X1 _ _ Btp KP) E2 E3)
      as (X3 & VO & Le & WK & DE).
    assert (X : ext h h') by exact (ext_trans _ _ _ X1 X3).
    assert (D0' : depth = O) by (destruct depth; [reflexivity|discriminate]).
    assert (SK' : snd cur = S k) by lia.
    assert (EQ : denote_entry h' e =
                 mkEntry (e_num (denote_entry h te)) (e_id (denote_entry h te))
                         (e_items (denote_entry h te)) (e_diff (denote_entry h te))
                         (merge_classes_copying (gcls h (p_cls tpv)) (gcls h cls))).
    { rewrite DE. rewrite denote_pcv_with_cls by (exact (ext_pcv_ok _ _ X1 _ BPc KPc)). cbv zeta.
      rewrite (ext_denote_pcv _ _ X1) by exact BPc. rewrite GM. reflexivity. }
    rewrite SK'. split; [exact X|]. cbn [res_rel]. splits; auto.
    + eapply view_cons_ceq; [exact X|exact Btp| |rewrite EQ; apply eeq_refl].
      rewrite WK. f_equal. apply (ext_walk _ _ X1). exact Btp.
    + rewrite EQ. apply eeq_refl.
Qed.

Lemma h_compute_update_refines : forall h cur u bn bt opc cls0 h' r,
  hwf h -> view_ok h cur -> h_compute_update h cur u bn bt opc cls0 = (h', r) ->
  ext h h' /\ res_rel h' r (compute_update (denote_view h cur) u bn bt opc cls0).
Proof.
  intros h cur u bn bt opc cls0 h' r W VO E. unfold h_compute_update in E.
  (* the caller's class map *)
  assert (CM : exists h0 cls, ext h h0 /\ below (h_next h0) (oref cls) /\ gcls h0 cls = cnorm cls0 /\
                (match cnorm cls0 with
                 | [] => (h, None)
                 | m => let (h', i) := halloc h (OMapN m) in (h', Some i)
                 end) = (h0, cls)).
  { destruct (cnorm cls0) as [|x xs] eqn:CN.
    - exists h, None. splits; auto using ext_refl. constructor.
    - destruct (halloc h (OMapN (x :: xs))) as [h0 i] eqn:EA. exists h0, (Some i).
      assert (X : ext h h0) by (eapply ext_alloc; [exact W| |exact EA]; constructor).
      apply halloc_inv in EA. destruct EA as (-> & NX & G & _).
      splits; auto. + apply below_one. lia. + cbn [gcls]. unfold gmap. rewrite G. reflexivity. }
  destruct CM as (h0 & cls & X0 & BC & GC & EC). rewrite EC in E. clear EC.
  pose proof X0 as (_ & W0 & L0 & _).
  pose proof (ext_view_ok _ _ X0 _ VO) as VO0. destruct VO as [BH KN]. destruct VO0 as [BH0 KN0].
  unfold compute_update. rewrite <- (ext_denote_view _ _ X0 cur BH). rewrite <- GC.
  assert (RT : forall hh rr, ext h0 hh -> res_rel hh rr (compute_update (denote_view h cur) u bn bt opc cls0) ->
               ext h hh /\ res_rel hh rr (compute_update (denote_view h cur) u bn bt opc cls0)).
  { intros hh rr Xh R. split; [exact (ext_trans _ _ _ X0 Xh)|exact R]. }
  pose proof (denote_view_length h0 cur KN0) as LV.
  destruct (snd cur) as [|k] eqn:SC.
  - (* empty storage: bootstrap *)
    destruct (denote_view h0 cur) as [|x xs]; [|discriminate LV].
    destruct u as [b|dl|]; try (inversion E; subst; split; [exact X0|reflexivity]).
    unfold bootstrap_chain. destruct (negb (bn =? opc)).
    { inversion E; subst. split; [exact X0|reflexivity]. }
    rewrite adapt_checked_fault. destruct (fault_of b) as [er|].
    { inversion E; subst. split; [exact X0|reflexivity]. }
    destruct (h_new_block_node h0 b bn cls None) as [[h1 nd] e] eqn:E1. inversion E; subst h1 r; clear E.
    destruct (new_block_node_spec _ _ _ _ None O _ _ _ W0 BC ltac:(constructor) I E1) as (X & VO' & CE & EQ).
    split; [exact (ext_trans _ _ _ X0 X)|]. cbn [res_rel]. splits; auto.
  - (* non-empty storage *)
    assert (NE : denote_view h0 cur <> []) by (intro Z; rewrite Z in LV; discriminate).
    assert (KN0' : nodes_ok h0 (fst cur) (snd cur)) by (rewrite SC; exact KN0).
    pose proof (oldest_denote h0 cur KN0') as OD. pose proof (tip_denote h0 cur KN0') as TD.
    destruct (denote_view h0 cur) as [|x xs] eqn:DV; [congruence|]. rewrite <- DV in *. clear NE.
    rewrite OD, TD. rewrite <- SC in *.
    destruct (negb (h_oldest h0 cur =? opc)) eqn:C1.
    { inversion E; subst. split; [exact X0|reflexivity]. }
    destruct (bn <? h_oldest h0 cur) eqn:C2.
    { inversion E; subst. split; [exact X0|reflexivity]. }
    destruct (h_tip h0 cur + 1 <? bn) eqn:C3.
    { inversion E; subst. split; [exact X0|reflexivity]. }
    destruct (bn =? h_tip h0 cur + 1) eqn:C4.
    + destruct u as [b|dl|]; try (inversion E; subst; split; [exact X0|reflexivity]).
      unfold extend. rewrite adapt_checked_fault. destruct (fault_of b) as [er|].
      { inversion E; subst. split; [exact X0|reflexivity]. }
      destruct (h_new_block_node h0 b bn cls (fst cur)) as [[h1 nd] e] eqn:E1. inversion E; subst h1 r; clear E.
      destruct (new_block_node_spec _ _ _ _ (fst cur) (snd cur) _ _ _ W0 BC BH0 KN0' E1) as (X & VO' & CE & EQ).
      split; [exact (ext_trans _ _ _ X0 X)|]. cbn [res_rel]. splits; auto.
    + assert (LD : (N.to_nat (h_tip h0 cur - bn) < snd cur)%nat).
      { unfold h_oldest in C2. rewrite SC in *. lia. }
      destruct (h_replace_slot_refines h0 cur u bn bt cls h' r W0 (conj BH0 KN0') BC LD E) as (X & R).
      split; [exact (ext_trans _ _ _ X0 X)|exact R].
Qed.

(* ---------- AdvanceTo ---------- *)
Lemma h_rebuild_spec : forall keep h o h' r, hwf h -> below (h_next h) (oref o) -> nodes_ok h o keep ->
  h_rebuild h o keep = (h', r) ->
  ext h h' /\ below (h_next h') (oref r) /\ nodes_ok h' r keep /\
  walk_entries h' r keep = walk_entries h o keep.
Proof.
  induction keep as [|k IH]; intros h o h' r W B K E.
  - simpl in E. inversion E; subst. splits; auto using ext_refl. constructor.
  - destruct o as [i|]; [|contradiction]. destruct K as (e & p & G & EO & K).
    cbn [h_rebuild] in E. unfold node_parent at 1 in E. unfold node_entry in E. rewrite G in E.
    destruct (h_rebuild h p k) as [h1 child] eqn:E1.
    destruct (halloc h1 (ONode e child)) as [h2 nd] eqn:E2. inversion E; subst h2 r; clear E.
    assert (Li : i < h_next h) by (inversion B; assumption).
    destruct (node_refs _ h (hwf_closed h W) _ _ _ Li G) as [Le Bp].
    destruct (IH h p h1 child W Bp K E1) as (X1 & Bc & K1 & WK1).
    pose proof X1 as (_ & W1 & L1 & _).
    assert (X2 : ext h1 h').
    { eapply ext_alloc; [exact W1| |exact E2]. cbn [refs]. constructor; [lia|exact Bc]. }
    pose proof X2 as (_ & W2 & L2 & _).
    apply halloc_inv in E2. destruct E2 as (-> & NX & G2 & F2).
    assert (X : ext h h') by exact (ext_trans _ _ _ X1 X2).
    splits.
    + exact X.
    + apply below_one. lia.
    + cbn [nodes_ok]. exists e, child. splits; auto.
      * apply (ext_entry_ok _ _ X); assumption.
      * apply (ext_nodes_ok _ _ X2); assumption.
    + cbn [walk_entries]. rewrite G2, G. f_equal. rewrite (ext_walk _ _ X2) by exact Bc. exact WK1.
Qed.

Lemma denote_view_firstn : forall h h' o k j r, ext h h' -> below (h_next h) (oref o) -> nodes_ok h o k -> (j <= k)%nat ->
  walk_entries h' r j = walk_entries h o j ->
  denote_view h' (r, j) = firstn j (denote_view h (o, k)).
Proof.
  intros h h' o k j r X B K L WK. unfold denote_view. cbn [fst snd]. rewrite WK.
  rewrite firstn_map, <- (walk_firstn h k j o K L).
  apply map_ext_in. intros x Ix. apply (ext_denote_entry _ _ X).
  pose proof (walk_entries_below _ h (hwf_closed h (proj1 X)) j o B) as WB.
  unfold below in WB. rewrite Forall_forall in WB. apply WB. exact Ix.
Qed.

Lemma h_advance_refines : forall h cur n h' v b, hwf h -> view_ok h cur -> h_advance_to h cur n = (h', v, b) ->
  ext h h' /\ view_ok h' v /\ denote_view h' v = fst (advance_to (denote_view h cur) n) /\
  b = snd (advance_to (denote_view h cur) n).
Proof.
  intros h [o k] n h' v b W [BH KN] E. unfold h_advance_to in E. cbn [fst snd] in *.
  unfold advance_to. pose proof (denote_view_length h (o, k) KN) as LV. cbn [snd] in LV.
  pose proof (oldest_denote h (o, k) KN) as OD. pose proof (contains_denote h (o, k) n KN) as CD.
  destruct k as [|k].
  - destruct (denote_view h (o, O)) as [|x xs]; [|discriminate LV].
    inversion E; subst. splits; auto using ext_refl. split; assumption.
  - destruct (denote_view h (o, S k)) as [|x xs] eqn:DV; [discriminate LV|]. rewrite <- DV in *.
    rewrite OD, CD, LV.
    destruct (n =? h_oldest h (o, S k)).
    { inversion E; subst. splits; auto using ext_refl. split; assumption. }
    destruct (negb (h_contains h (o, S k) n)) eqn:CT.
    { inversion E; subst. splits; auto using ext_refl. split; [constructor|exact I]. }
    set (keep := (S k - N.to_nat (n - h_oldest h (o, S k)))%nat) in *.
    destruct (h_rebuild h o keep) as [h1 hd] eqn:E1. inversion E; subst h1 v b; clear E.
    assert (LK : (keep <= S k)%nat) by (unfold keep; lia).
    destruct (h_rebuild_spec keep h o h' hd W BH (nodes_ok_le _ _ _ _ KN LK) E1) as (X & Bh & Kh & WK).
    splits; auto.
    + split; assumption.
    + cbn [fst]. apply (denote_view_firstn h h' o (S k) keep hd X BH KN LK WK).
Qed.

(* ---------- SnapshotForBlock ---------- *)
Lemma h_snapshot_refines : forall h cur n, hwf h -> view_ok h cur ->
  view_ok h (h_snapshot h cur n) /\ denote_view h (h_snapshot h cur n) = snapshot (denote_view h cur) n.
Proof.
  intros h [o k] n W [BH KN]. unfold h_snapshot, snapshot. cbn [fst snd] in *.
  rewrite (contains_denote h (o, k) n KN), (tip_denote h (o, k) KN).
  destruct (h_contains h (o, k) n) eqn:CT.
  - set (j := N.to_nat (h_tip h (o, k) - n + 1)).
    assert (LJ : (j <= k)%nat).
    { unfold h_contains, h_oldest in CT. cbn [snd] in CT. destruct k as [|k]; [discriminate|]. unfold j. lia. }
    split.
    + split; [exact BH|]. cbn [fst snd]. apply (nodes_ok_le _ _ _ _ KN LJ).
    + apply (denote_view_firstn h h o k j o (ext_refl h W) BH KN LJ eq_refl).
  - split; [split; [constructor|exact I]|reflexivity].
Qed.
