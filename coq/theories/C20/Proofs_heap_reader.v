(* C20 — heap-level model: PreConfirmedStateAt / PreConfirmedStateBeforeIndexAt build their overlay
   (one merged state diff, one merged class map) out of fresh objects only, leave every object that
   existed before the call untouched, and the overlay denotes the list model's [state_at] /
   [state_before_index]. *)
From Coq Require Import List NArith Arith Bool Lia ZifyN ZifyNat ZifyBool.
From V Require Import C20.Model C20.Proofs C20.Proofs_heap_base C20.Proofs_heap_merge C20.Proofs_heap_adapt
  C20.Proofs_heap_ops.
Import ListNotations.
Open Scope N_scope.

Lemma flatten_same : forall h h' outer, (forall m, In m (map snd outer) -> gmap h' m = gmap h m) ->
  flatten h' outer = flatten h outer.
Proof.
  induction outer as [|[a m] r IH]; intro F; [reflexivity|]. unfold flatten in *. cbn [flat_map fst snd].
  rewrite F by (left; reflexivity). f_equal. apply IH. intros x Ix. apply F. right. exact Ix.
Qed.

Lemma own_at_frame : forall h h' d lo b d0, own_at h d lo b d0 -> h_next h <= h_next h' ->
  (forall i, b <= i <= b + 6 \/ In i (owned_ids h b d0) -> hget h' i = hget h i) ->
  own_at h' d lo b d0 /\ owned_ids h' b d0 = owned_ids h b d0 /\ denote_diff h' d = denote_diff h d.
Proof.
  intros h h' d lo b d0 (-> & Llo & Ld & Gd & FI & ND2 & ND1 & SO) LN F.
  assert (GO : gouter h' b = gouter h b) by (unfold gouter; rewrite F by (left; lia); reflexivity).
  assert (OI : owned_ids h' b d0 = owned_ids h b d0) by (unfold owned_ids; rewrite GO; reflexivity).
  assert (SA : forall a, In a (sref d0) -> hget h' a = hget h a).
  { intros a Ia. apply F. right. unfold owned_ids. apply in_or_app. auto. }
  splits; auto.
  - unfold own_at. rewrite GO. splits; auto; try lia.
    + rewrite F by (left; lia). exact Gd.
    + eapply Forall_impl; [|exact FI]. simpl. intros. lia.
    + eapply slice_ok_same; [exact SA|exact SO].
  - unfold denote_diff. rewrite F by (left; lia). rewrite Gd, GO.
    assert (GM : forall x, b <= x <= b + 6 -> gmap h' x = gmap h x) by (intros x Lx; unfold gmap; rewrite F by (left; exact Lx); reflexivity).
    rewrite !GM by lia. rewrite (sl_cells_same h h' d0 SA). f_equal.
    apply flatten_same. intros m Im. unfold gmap. rewrite F; [reflexivity|]. right. unfold owned_ids. apply in_or_app. auto.
Qed.

(* the class-map accumulator of the loop: nil, or a map of its own that no Merge into d writes to *)
Definition nc_ok (h : heap) (nc : option oid) (b : N) (d0 : slice) (lo : N) : Prop :=
  match nc with
  | None => True
  | Some m => lo <= m < h_next h /\ ~ (b <= m <= b + 6) /\ ~ In m (owned_ids h b d0)
  end.

Lemma e_diff_denote : forall h e, entry_ok h e ->
  e_diff (denote_entry h e) = denote_diff h (su_diff h (p_su (gpcv h e))).
Proof.
  intros h e K. apply entry_ok_gpcv in K. destruct K as [(hdr & txs & rcs & G & _) _].
  unfold denote_entry, denote_pcv. rewrite G. reflexivity.
Qed.

Lemma owned_lt : forall h d lo b d0 i, own_at h d lo b d0 -> In i (owned_ids h b d0) -> b + 6 < i < h_next h.
Proof. intros h d lo b d0 i (-> & _ & _ & _ & FI & _) I. rewrite Forall_forall in FI. exact (FI i I). Qed.

Lemma fold_entry_spec : forall h d nc e lo b d0 h' nc',
  hwf h -> closed lo h -> own_at h d lo b d0 -> nc_ok h nc b d0 lo -> e < lo -> entry_ok h e ->
  fold_entry d (h, nc) e = (h', nc') ->
  hwf h' /\ h_next h <= h_next h' /\ agree_below lo h h' /\
  (exists d0', own_at h' d lo b d0' /\ nc_ok h' nc' b d0' lo) /\
  deq (denote_diff h' d) (merge (denote_diff h d) (e_diff (denote_entry h e))) /\
  gcls h' nc' = merge_classes_into (gcls h nc) (e_classes (denote_entry h e)).
Proof.
  intros h d nc e lo b d0 h' nc' W CL OWN NC Le EO E.
  rewrite (e_diff_denote h e EO), (classes_denote h e EO).
  unfold fold_entry in E. set (p := gpcv h e) in *.
  pose proof (gpcv_below lo h CL e Le) as BP. fold p in BP.
  destruct (prefs_inv _ _ BP) as (Lb & Ls & Bc & Bt).
  destruct (entry_ok_gpcv _ _ EO) as [(hdr & txs & rcs & GB & _ & _ & _ & _ & DNC & _) _]. fold p in GB, DNC.
  set (cd := su_diff h (p_su p)) in *.
  assert (Lcd : cd < lo) by (apply (su_diff_below lo h CL); exact Ls).
  destruct (hmerge_spec h d cd lo b d0 W OWN CL Lcd DNC) as (W1 & L1 & A1 & (d01 & O1 & J1) & F1 & D1).
  set (h1 := hmerge h d cd) in *.
  assert (NC1 : nc_ok h1 nc b d01 lo).
  { destruct nc as [m|]; [|exact I]. destruct NC as (Lm & NR & NO). cbn [nc_ok]. splits; auto; try lia.
    intro X. apply J1 in X. destruct X as [X|X]; [tauto|lia]. }
  assert (GN1 : gcls h1 nc = gcls h nc).
  { destruct nc as [m|]; [|reflexivity]. destruct NC as (Lm & NR & NO). cbn [gcls]. unfold gmap.
    rewrite F1; [reflexivity|lia|lia|exact NO]. }
  assert (GS1 : gcls h1 (p_cls p) = gcls h (p_cls p)) by (apply (gcls_frame lo h h1 A1); exact Bc).
  unfold h_merge_classes_into in E. rewrite GS1 in E. unfold merge_classes_into.
  destruct (gcls h (p_cls p)) as [|c0 cr] eqn:GS.
  { inversion E; subst h' nc'. splits; auto. exists d01. auto. }
  rewrite <- GS in *.
  destruct nc as [m|].
  - (* the accumulator exists: maps.Copy into it *)
    inversion E; subst h' nc'; clear E. destruct NC1 as (Lm & NR & NO).
    set (h2 := hset h1 m (OMapN (ccopy (gmap h1 m) (gcls h (p_cls p))))).
    assert (FR : forall i, b <= i <= b + 6 \/ In i (owned_ids h1 b d01) -> hget h2 i = hget h1 i).
    { intros i Hi. apply hget_hset_other. intro; subst i. destruct Hi; tauto. }
    assert (LN2 : h_next h1 <= h_next h2) by (unfold h2; rewrite next_hset; lia).
    destruct (own_at_frame h1 h2 d lo b d01 O1 LN2 FR) as (O2 & OI2 & DD2).
    splits.
    + apply hwf_set; [exact W1|lia|constructor].
    + unfold h2. rewrite next_hset. lia.
    + eapply agree_trans; [exact A1|]. apply agree_set. lia.
    + exists d01. split; [exact O2|]. cbn [nc_ok]. unfold h2 at 1. rewrite next_hset, OI2. auto.
    + rewrite DD2. exact D1.
    + cbn [gcls] in *. unfold h2. rewrite gmap_set_same, GN1. reflexivity.
  - (* first non-empty class map: maps.Clone *)
    destruct (halloc h1 (OMapN (ccopy [] (gcls h (p_cls p))))) as [h2 m] eqn:EA. inversion E; subst h' nc'; clear E.
    assert (W2 : hwf h2) by (eapply hwf_alloc; [exact W1|exact EA|constructor]).
    pose proof (agree_alloc _ _ _ _ (h_next h1) EA (N.le_refl _)) as A2.
    apply halloc_inv in EA. destruct EA as (-> & NX & G & F).
    pose proof O1 as (Ed & Llo & Ld & _).
    assert (FR : forall i, b <= i <= b + 6 \/ In i (owned_ids h1 b d01) -> hget h2 i = hget h1 i).
    { intros i Hi. apply F. destruct Hi as [Hi|Hi]; [lia|]. pose proof (owned_lt _ _ _ _ _ _ O1 Hi). lia. }
    assert (LN2 : h_next h1 <= h_next h2) by lia.
    destruct (own_at_frame h1 h2 d lo b d01 O1 LN2 FR) as (O2 & OI2 & DD2).
    splits; auto; try lia.
    + eapply agree_trans; [exact A1|]. eapply agree_mono; [exact A2|]. destruct OWN as (_ & ? & ? & _). lia.
    + exists d01. split; [exact O2|]. cbn [nc_ok]. rewrite OI2. splits; try lia.
      intro X. pose proof (owned_lt _ _ _ _ _ _ O1 X). lia.
    + rewrite DD2. exact D1.
    + cbn [gcls]. unfold gmap. rewrite G. reflexivity.
Qed.

Lemma fold_entries_spec : forall es h d nc lo b d0 h' nc',
  hwf h -> closed lo h -> own_at h d lo b d0 -> nc_ok h nc b d0 lo ->
  Forall (fun e => e < lo /\ entry_ok h e) es ->
  fold_left (fold_entry d) es (h, nc) = (h', nc') ->
  hwf h' /\ h_next h <= h_next h' /\ agree_below lo h h' /\
  (exists d0', own_at h' d lo b d0' /\ nc_ok h' nc' b d0' lo) /\
  deq (denote_diff h' d) (merge_all (denote_diff h d) (map e_diff (map (denote_entry h) es))) /\
  gcls h' nc' = fold_left (fun m e => merge_classes_into m (e_classes e)) (map (denote_entry h) es) (gcls h nc).
Proof.
  induction es as [|e r IH]; intros h d nc lo b d0 h' nc' W CL OWN NC FE E.
  - simpl in E. inversion E; subst. simpl. splits; auto using agree_refl, deq_refl; try lia. exists d0. auto.
  - cbn [fold_left] in E. destruct (fold_entry d (h, nc) e) as [h1 nc1] eqn:E1.
    inversion FE as [|? ? [Le EO] FR]; subst.
    destruct (fold_entry_spec _ _ _ _ _ _ _ _ _ W CL OWN NC Le EO E1) as (W1 & L1 & A1 & (d01 & O1 & NC1) & D1 & G1).
    pose proof (closed_agree _ _ _ CL A1) as CL1.
    assert (FR1 : Forall (fun x => x < lo /\ entry_ok h1 x) r).
    { eapply Forall_impl; [|exact FR]. simpl. intros x [Lx Ex]. split; [exact Lx|].
      exact (entry_ok_frame lo h h1 A1 CL x Lx Ex). }
    destruct (IH _ _ _ _ _ _ _ _ W1 CL1 O1 NC1 FR1 E) as (W2 & L2 & A2 & OW2 & D2 & G2).
    assert (EM : map (denote_entry h1) r = map (denote_entry h) r).
    { apply map_ext_in. intros x Ix. rewrite Forall_forall in FR. destruct (FR x Ix) as [Lx _].
      exact (denote_entry_frame lo h h1 A1 CL x Lx). }
    rewrite EM in *.
    splits; auto; try lia.
    + eapply agree_trans; eassumption.
    + eapply deq_trans; [exact D2|]. cbn [map]. unfold merge_all at 2. cbn [fold_left].
      apply deq_merge_all; [exact D1|]. apply forall2_refl. apply deq_refl.
    + rewrite G2, G1. reflexivity.
Qed.

Lemma h_mci_spec : forall h d nc src lo b d0 h' nc',
  hwf h -> closed lo h -> own_at h d lo b d0 -> nc_ok h nc b d0 lo -> below lo (oref src) ->
  h_merge_classes_into h nc src = (h', nc') ->
  hwf h' /\ h_next h <= h_next h' /\ agree_below lo h h' /\ own_at h' d lo b d0 /\ nc_ok h' nc' b d0 lo /\
  denote_diff h' d = denote_diff h d /\ gcls h' nc' = merge_classes_into (gcls h nc) (gcls h src).
Proof.
  intros h d nc src lo b d0 h' nc' W CL O1 NC BS E.
  unfold h_merge_classes_into in E. unfold merge_classes_into.
  destruct (gcls h src) as [|c0 cr] eqn:GS.
  { inversion E; subst h' nc'. splits; auto using agree_refl. lia. }
  rewrite <- GS in *.
  destruct nc as [m|].
  - inversion E; subst h' nc'; clear E. destruct NC as (Lm & NR & NO).
    set (h2 := hset h m (OMapN (ccopy (gmap h m) (gcls h src)))).
    assert (FR : forall i, b <= i <= b + 6 \/ In i (owned_ids h b d0) -> hget h2 i = hget h i).
    { intros i Hi. apply hget_hset_other. intro; subst i. destruct Hi; tauto. }
    assert (LN2 : h_next h <= h_next h2) by (unfold h2; rewrite next_hset; lia).
    destruct (own_at_frame h h2 d lo b d0 O1 LN2 FR) as (O2 & OI2 & DD2).
    splits; auto.
    + apply hwf_set; [exact W|lia|constructor].
    + apply agree_set. lia.
    + cbn [nc_ok]. unfold h2 at 1. rewrite next_hset, OI2. auto.
    + cbn [gcls] in *. unfold h2. rewrite gmap_set_same. reflexivity.
  - destruct (halloc h (OMapN (ccopy [] (gcls h src)))) as [h2 m] eqn:EA. inversion E; subst h' nc'; clear E.
    assert (W2 : hwf h2) by (eapply hwf_alloc; [exact W|exact EA|constructor]).
    pose proof (agree_alloc _ _ _ _ (h_next h) EA (N.le_refl _)) as A2.
    apply halloc_inv in EA. destruct EA as (-> & NX & G & F).
    pose proof O1 as (Ed & Llo & Ld & _).
    assert (FR : forall i, b <= i <= b + 6 \/ In i (owned_ids h b d0) -> hget h2 i = hget h i).
    { intros i Hi. apply F. destruct Hi as [Hi|Hi]; [lia|]. pose proof (owned_lt _ _ _ _ _ _ O1 Hi). lia. }
    assert (LN2 : h_next h <= h_next h2) by lia.
    destruct (own_at_frame h h2 d lo b d0 O1 LN2 FR) as (O2 & OI2 & DD2).
    splits; auto; try lia.
    + eapply agree_mono; [exact A2|]. lia.
    + cbn [nc_ok]. rewrite OI2. splits; try lia.
      intro X. pose proof (owned_lt _ _ _ _ _ _ O1 X). lia.
    + cbn [gcls]. unfold gmap. rewrite G. reflexivity.
Qed.

(* ---------- reads depend on a state diff only up to [deq] ---------- *)
Lemma slookup_sproj : forall a k s, slookup (a, k) s = alookup k (sproj a s).
Proof.
  intros a k. induction s as [|[[a' k'] v] r IH]; [reflexivity|]. unfold sproj in *. cbn [slookup filter fst snd].
  unfold k2eqb. cbn [fst snd]. rewrite (N.eqb_sym a' a). destruct (a =? a'); cbn [andb map alookup fst snd].
  - destruct (k =? k'); [reflexivity|exact IH].
  - exact IH.
Qed.

Lemma pstate_deq : forall d d' c base b q, deq d d' -> pstate d c base b q = pstate d' c base b q.
Proof.
  intros d d' c base b q (S1 & E2 & E3 & E4 & E5 & E6 & _). unfold pstate.
  destruct q; rewrite ?slookup_sproj, ?S1, ?E2, ?E3, ?E4, ?E5, ?E6; reflexivity.
Qed.

(* ---------- the entries of a view ---------- *)
Lemma walk_entries_ok : forall h k o, nodes_ok h o k -> Forall (entry_ok h) (walk_entries h o k).
Proof.
  induction k as [|k IH]; intros o K; [constructor|]. destruct o as [i|]; [|contradiction].
  destruct K as (e & p & G & EO & K). simpl. rewrite G. constructor; [exact EO|apply IH; exact K].
Qed.

Lemma upto_map : forall h b l,
  upto b (map (denote_entry h) l) = map (denote_entry h) (upto_n b (map (fun e => (entry_num h e, e)) l)).
Proof.
  induction l as [|e r IH]; [reflexivity|]. cbn [map upto upto_n]. rewrite e_num_denote.
  destruct (entry_num h e =? b); [reflexivity|]. cbn [map]. f_equal. exact IH.
Qed.

Lemma before_map : forall h b l,
  before b (map (denote_entry h) l) =
  (map (denote_entry h) (fst (before_n b (map (fun e => (entry_num h e, e)) l))),
   option_map (denote_entry h) (snd (before_n b (map (fun e => (entry_num h e, e)) l)))).
Proof.
  induction l as [|e r IH]; [reflexivity|]. cbn [map before before_n]. rewrite e_num_denote.
  destruct (entry_num h e =? b); [reflexivity|]. rewrite IH.
  destruct (before_n b (map (fun e0 => (entry_num h e0, e0)) r)) as [p t]. reflexivity.
Qed.

Lemma upto_n_in : forall b l e, In e (upto_n b l) -> In e (map snd l).
Proof.
  induction l as [|[n x] r IH]; intros e I; [contradiction|]. cbn [upto_n] in I. cbn [map snd].
  destruct (n =? b).
  - destruct I as [<-|[]]. left. reflexivity.
  - destruct I as [<-|I]; [left; reflexivity|right; apply IH; exact I].
Qed.

Lemma before_n_in : forall b l,
  (forall e, In e (fst (before_n b l)) -> In e (map snd l)) /\
  (forall t, snd (before_n b l) = Some t -> In t (map snd l)).
Proof.
  induction l as [|[n x] r [IH1 IH2]]; [split; [intros e []|discriminate]|]. cbn [before_n map snd].
  destruct (n =? b).
  - split; [intros e []|]. cbn [snd]. intros t E. inversion E. left. reflexivity.
  - destruct (before_n b r) as [p t] eqn:BN. cbn [fst snd] in *. split.
    + intros e [<-|I]; [left; reflexivity|right; apply IH1; exact I].
    + intros t' E. right. apply IH2. exact E.
Qed.

Definition reader_rel (h' : heap) (r : serr + (oid * option oid)) (m : reader -> serr + reader) (b : N) : Prop :=
  match r with
  | inl e => forall base, m base = inl e
  | inr (d, nc) => forall base, exists rd, m base = inr rd /\
                     forall q, rd q = pstate (denote_diff h' d) (gcls h' nc) base b q
  end.

Lemma numbered_frame : forall h h' v, ext h h' -> view_ok h v -> numbered h' v = numbered h v.
Proof.
  intros h h' v X [BH KN]. unfold numbered. rewrite (ext_walk _ _ X) by exact BH.
  apply map_ext_in. intros e Ie. f_equal. apply (ext_entry_num _ _ X).
  pose proof (walk_entries_below _ h (hwf_closed h (proj1 X)) (snd v) (fst v) BH) as WB.
  unfold below in WB. rewrite Forall_forall in WB. apply WB. apply in_rev. exact Ie.
Qed.

Lemma numbered_snd : forall h v, map snd (numbered h v) = rev (walk_entries h (fst v) (snd v)).
Proof. intros. unfold numbered. rewrite map_map. cbn [snd]. apply map_id. Qed.

Lemma view_entries : forall h v e, hwf h -> view_ok h v -> In e (map snd (numbered h v)) ->
  e < h_next h /\ entry_ok h e.
Proof.
  intros h v e W [BH KN] I. rewrite numbered_snd in I. apply in_rev in I. split.
  - pose proof (walk_entries_below _ h (hwf_closed h W) (snd v) (fst v) BH) as WB.
    unfold below in WB. rewrite Forall_forall in WB. apply WB. exact I.
  - pose proof (walk_entries_ok h _ _ KN) as WO. rewrite Forall_forall in WO. apply WO. exact I.
Qed.

Lemma denote_view_rev : forall h v,
  rev (denote_view h v) = map (denote_entry h) (map snd (numbered h v)).
Proof. intros. rewrite numbered_snd. unfold denote_view. symmetry. apply map_rev. Qed.

Lemma numbered_shape : forall h v,
  numbered h v = map (fun e => (entry_num h e, e)) (map snd (numbered h v)).
Proof. intros. rewrite numbered_snd. reflexivity. Qed.

Lemma h_state_at_refines : forall h v b h' r, hwf h -> view_ok h v -> h_state_at h v b = (h', r) ->
  ext h h' /\ reader_rel h' r (state_at (denote_view h v) b) b.
Proof.
  intros h v b h' r W VO E. pose proof VO as [BH KN]. unfold h_state_at in E. unfold state_at.
  rewrite (contains_denote h v b KN).
  destruct (negb (h_contains h v b)).
  { inversion E; subst. split; [apply ext_refl; exact W|]. intro base. reflexivity. }
  destruct (h_empty_diff h) as [h1 d] eqn:E1.
  destruct (h_empty_diff_spec _ _ _ W E1) as (W1 & N1 & Ed & A1 & (b0 & d0 & O1) & D1).
  assert (X1 : ext h h1) by (unfold ext; splits; auto; lia).
  rewrite (numbered_frame _ _ v X1 VO) in E.
  set (es := upto_n b (numbered h v)) in *.
  destruct (fold_left (fold_entry d) es (h1, None)) as [h2 nc] eqn:E2. inversion E; subst h2 r; clear E.
  assert (FE : Forall (fun e => e < h_next h /\ entry_ok h1 e) es).
  { rewrite Forall_forall. intros e Ie. apply upto_n_in in Ie. destruct (view_entries h v e W VO Ie) as [Le EO].
    split; [exact Le|]. apply (ext_entry_ok _ _ X1); assumption. }
  pose proof (closed_mono_wf h _ h1 W eq_refl A1) as CL1.
  destruct (fold_entries_spec es h1 d None (h_next h) b0 d0 h' nc W1 CL1 O1 I FE E2) as (W2 & L2 & A2 & _ & D2 & G2).
  assert (EM : map (denote_entry h1) es = map (denote_entry h) es).
  { apply map_ext_in. intros e Ie. rewrite Forall_forall in FE. destruct (FE e Ie) as [Le _].
    apply (ext_denote_entry _ _ X1). exact Le. }
  rewrite EM, D1 in D2. rewrite EM in G2.
  assert (ES : upto b (rev (denote_view h v)) = map (denote_entry h) es).
  { rewrite denote_view_rev, upto_map. unfold es. rewrite <- numbered_shape. reflexivity. }
  split.
  - unfold ext. splits; auto; try lia. eapply agree_trans; eassumption.
  - cbn [reader_rel]. intro base. eexists. split; [reflexivity|]. intro q.
    rewrite ES. unfold classes_of. cbn [gcls] in G2. rewrite <- G2. apply pstate_deq. apply deq_sym. exact D2.
Qed.

Lemma zip_diffs : forall h c a b i, length (zip_items h a b c) = length c ->
  map it_diff (firstn i (zip_items h a b c)) = map (denote_diff h) (ref_cells (firstn i c)).
Proof.
  induction c as [|z c IH]; intros a b i L.
  - destruct a as [|[] a]; try (destruct i; reflexivity); destruct b as [|[] b]; destruct i; reflexivity.
  - destruct a as [|x a]; [discriminate|]. destruct x; try discriminate.
    destruct b as [|y b]; [discriminate|]. destruct y; try discriminate. destruct z; try discriminate.
    cbn [zip_items] in *. destruct i as [|i]; [reflexivity|]. cbn [firstn map ref_cells flat_map app it_diff].
    f_equal. apply IH. simpl in L. lia.
Qed.

Lemma in_ref_cells_firstn : forall k l x, In x (ref_cells (firstn k l)) -> In x (ref_cells l).
Proof.
  induction k as [|k IH]; intros [|c l] x I; simpl in *; try contradiction.
  apply in_app_or in I. apply in_or_app. destruct I as [I|I]; [left; exact I|right; apply IH; exact I].
Qed.

Lemma h_state_before_index_refines : forall h v b i h' r, hwf h -> view_ok h v ->
  h_state_before_index h v b i = (h', r) ->
  ext h h' /\ reader_rel h' r (state_before_index (denote_view h v) b i) b.
Proof.
  intros h v b i h' r W VO E. pose proof VO as [BH KN]. unfold h_state_before_index in E. unfold state_before_index.
  rewrite (contains_denote h v b KN).
  destruct (negb (h_contains h v b)).
  { inversion E; subst. split; [apply ext_refl; exact W|]. intro base. reflexivity. }
  rewrite denote_view_rev, before_map, <- numbered_shape.
  destruct (before_n_in b (numbered h v)) as [INP INT].
  destruct (before_n b (numbered h v)) as [pre [target|]] eqn:BN; cbn [fst snd option_map] in *.
  2:{ inversion E; subst. split; [apply ext_refl; exact W|]. intro base. reflexivity. }
  destruct (view_entries h v target W VO (INT _ eq_refl)) as [Lt EOt].
  rewrite (items_len_denote h target EOt).
  destruct (entry_ntx h target <? i).
  { inversion E; subst. split; [apply ext_refl; exact W|]. intro base. reflexivity. }
  destruct (h_empty_diff h) as [h1 d] eqn:E1.
  destruct (h_empty_diff_spec _ _ _ W E1) as (W1 & N1 & Ed & A1 & (b0 & d0 & O1) & D1).
  assert (X1 : ext h h1) by (unfold ext; splits; auto; lia).
  destruct (fold_left (fold_entry d) pre (h1, None)) as [h2 nc] eqn:E2.
  assert (FE : Forall (fun e => e < h_next h /\ entry_ok h1 e) pre).
  { rewrite Forall_forall. intros e Ie. destruct (view_entries h v e W VO (INP e Ie)) as [Le EO].
    split; [exact Le|]. apply (ext_entry_ok _ _ X1); assumption. }
  pose proof (closed_mono_wf h _ h1 W eq_refl A1) as CL1.
  destruct (fold_entries_spec pre h1 d None (h_next h) b0 d0 h2 nc W1 CL1 O1 I FE E2)
    as (W2 & L2 & A2 & (d02 & O2 & NC2) & D2 & G2).
  assert (EM : map (denote_entry h1) pre = map (denote_entry h) pre).
  { apply map_ext_in. intros e Ie. rewrite Forall_forall in FE. destruct (FE e Ie) as [Le _].
    apply (ext_denote_entry _ _ X1). exact Le. }
  rewrite EM, D1 in D2. rewrite EM in G2. cbn [gcls] in G2.
  assert (A02 : agree_below (h_next h) h h2) by (eapply agree_trans; eassumption).
  pose proof (hwf_closed h W) as CL.
  pose proof (closed_agree _ _ _ CL A02) as CL2.
  rewrite (gpcv_frame _ h h2 A02 target Lt) in E.
  set (tp := gpcv h target) in *.
  pose proof (gpcv_below _ h CL target Lt) as BP. fold tp in BP.
  destruct (prefs_inv _ _ BP) as (Lb & Ls & Bc & Bt).
  destruct (h_merge_classes_into h2 nc (p_cls tp)) as [h3 nc'] eqn:E3.
  destruct (h_mci_spec h2 d nc (p_cls tp) (h_next h) b0 d02 h3 nc' W2 CL2 O2 NC2 Bc E3)
    as (W3 & L3 & A3 & O3 & NC3 & DD3 & G3).
  assert (A03 : agree_below (h_next h) h h3) by (eapply agree_trans; eassumption).
  pose proof (closed_agree _ _ _ CL A03) as CL3.
  rewrite (sl_cells_frame _ h h3 A03 _ Bt) in E.
  set (incs := ref_cells (firstn (N.to_nat i) (sl_cells h (p_txd tp)))) in *.
  destruct (entry_ok_gpcv _ _ EOt) as [(hdr & txs & rcs & GB & KZ & KT & KR & KD & DNC & DNT) _]. fold tp in GB, KZ, KT, KR, KD, DNC, DNT.
  cbv zeta in KZ, KT, KR, KD.
  assert (FI : Forall (fun x => x < h_next h /\ dnodup h3 x) incs).
  { rewrite Forall_forall. intros x Ix. apply in_ref_cells_firstn in Ix.
    pose proof (sl_cells_below _ h CL _ Bt) as SB. unfold below in SB. rewrite Forall_forall in SB.
    assert (Lx : x < h_next h) by (apply SB; exact Ix). split; [exact Lx|].
    rewrite Forall_forall in DNT. exact (dnodup_frame _ h h3 A03 CL x Lx (DNT x Ix)). }
  inversion E; subst h' r; clear E.
  destruct (hmerge_all_spec incs h3 d (h_next h) b0 d02 W3 O3 CL3 FI) as (W4 & L4 & A4 & _ & F4 & D4).
  set (h4 := hmerge_all h3 d incs) in *.
  assert (GN4 : gcls h4 nc' = gcls h3 nc').
  { destruct nc' as [m|]; [|reflexivity]. destruct NC3 as (Lm & NR & NO). cbn [gcls]. unfold gmap.
    rewrite F4; [reflexivity|lia|lia|exact NO]. }
  split.
  - unfold ext. splits; auto; try lia. eapply agree_trans; eassumption.
  - cbn [reader_rel]. intro base. eexists. split; [reflexivity|]. intro q.
    rewrite GN4, G3, G2. rewrite (gcls_frame _ h h2 A02 _ Bc). rewrite (classes_denote h target EOt). fold tp.
    unfold classes_of. apply pstate_deq. apply deq_sym. eapply deq_trans; [exact D4|]. unfold squash.
    apply deq_merge_all.
    + rewrite DD3. exact D2.
    + assert (EI : map (denote_diff h3) incs = map it_diff (firstn (N.to_nat i) (e_items (denote_entry h target)))).
      { unfold denote_entry, denote_pcv. fold tp. rewrite GB. cbn [e_items].
        rewrite zip_diffs by lia. fold incs. apply map_ext_in. intros x Ix.
        rewrite Forall_forall in FI. destruct (FI x Ix) as [Lx _]. exact (denote_diff_frame _ h h3 A03 CL x Lx). }
      rewrite EI. apply forall2_refl. apply deq_refl.
Qed.
