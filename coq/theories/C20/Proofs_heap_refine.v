(* C20 — heap-level model: the list model's operations respect the relation [ceq]; the heap-level
   run refines the list-model run; views handed out never change (frame invariant). *)
From Coq Require Import List NArith Arith Bool Lia ZifyN ZifyNat ZifyBool.
From V Require Import C20.Model C20.Proofs C20.Proofs_cas C20.Proofs_heap_base C20.Proofs_heap_merge
  C20.Proofs_heap_adapt C20.Proofs_heap_ops C20.Proofs_heap_reader.
Import ListNotations.
Open Scope N_scope.

(* ---------- [ceq] is an equivalence the list model cannot tell apart ---------- *)
Lemma ieq_sym : forall a b, ieq a b -> ieq b a.
Proof. unfold ieq. intros a b (H1 & H2 & H3 & H4 & H5). splits; auto using deq_sym. Qed.
Lemma ieq_trans : forall a b c, ieq a b -> ieq b c -> ieq a c.
Proof. unfold ieq. intros a b c (H1 & H2 & H3 & H4 & H5) (K1 & K2 & K3 & K4 & K5). splits; try congruence. eapply deq_trans; eassumption. Qed.

Lemma forall2_sym : forall {A} (R : A -> A -> Prop) l l', (forall x y, R x y -> R y x) -> Forall2 R l l' -> Forall2 R l' l.
Proof. intros A R l l' S F. induction F; constructor; auto. Qed.
Lemma forall2_trans : forall {A} (R : A -> A -> Prop) l1 l2 l3, (forall x y z, R x y -> R y z -> R x z) ->
  Forall2 R l1 l2 -> Forall2 R l2 l3 -> Forall2 R l1 l3.
Proof.
  intros A R l1 l2 l3 T F. revert l3. induction F; intros l3 G; inversion G; subst; constructor; eauto.
Qed.

Lemma eeq_sym : forall a b, eeq a b -> eeq b a.
Proof.
  unfold eeq. intros a b (H1 & H2 & H3 & H4 & H5). splits; auto using deq_sym.
  apply forall2_sym; [exact ieq_sym|exact H3].
Qed.
Lemma eeq_trans : forall a b c, eeq a b -> eeq b c -> eeq a c.
Proof.
  unfold eeq. intros a b c (H1 & H2 & H3 & H4 & H5) (K1 & K2 & K3 & K4 & K5). splits; try congruence.
  - eapply forall2_trans; [exact ieq_trans|exact H3|exact K3].
  - eapply deq_trans; eassumption.
Qed.
Lemma ceq_sym : forall a b, ceq a b -> ceq b a.
Proof. intros. apply forall2_sym; [exact eeq_sym|assumption]. Qed.
Lemma ceq_trans : forall a b c, ceq a b -> ceq b c -> ceq a c.
Proof. intros a b c. apply forall2_trans. exact eeq_trans. Qed.

Lemma ceq_length : forall a b, ceq a b -> length a = length b.
Proof. intros a b H. eapply forall2_length. exact H. Qed.
Lemma ceq_tip : forall a b, ceq a b -> tip a = tip b.
Proof. intros a b H. destruct H as [|x y l l' (E & _) _]; [reflexivity|exact E]. Qed.
Lemma ceq_oldest : forall a b, ceq a b -> oldest a = oldest b.
Proof. intros a b H. unfold oldest. rewrite (ceq_tip _ _ H), (ceq_length _ _ H). reflexivity. Qed.
Lemma ceq_contains : forall a b n, ceq a b -> contains a n = contains b n.
Proof.
  intros a b n H. unfold contains. rewrite (ceq_tip _ _ H), (ceq_oldest _ _ H). destruct H; reflexivity.
Qed.
Lemma forall2_firstn : forall {A} (R : A -> A -> Prop) k l l', Forall2 R l l' -> Forall2 R (firstn k l) (firstn k l').
Proof. intros A R k l l' F. revert k. induction F; intros [|k]; simpl; constructor; auto. Qed.
Lemma forall2_skipn : forall {A} (R : A -> A -> Prop) k l l', Forall2 R l l' -> Forall2 R (skipn k l) (skipn k l').
Proof. intros A R k l l' F. revert k. induction F; intros [|k]; simpl; try constructor; auto. Qed.

Definition res_eq (r1 r2 : apply_res) : Prop :=
  match r1, r2 with
  | RErr e, RErr e' => e = e'
  | RNoop, RNoop => True
  | RApplied c a, RApplied c' a' => ceq c c' /\ eeq a a'
  | _, _ => False
  end.

Lemma len_items_eeq : forall a b, eeq a b -> len (e_items a) = len (e_items b).
Proof. intros a b (_ & _ & H & _). unfold len. f_equal. eapply forall2_length. exact H. Qed.

Lemma should_preserve_eeq : forall a b x, eeq a b -> should_preserve a x = should_preserve b x.
Proof.
  intros a b x H. unfold should_preserve. rewrite (len_items_eeq _ _ H).
  destruct H as (_ & H2 & _ & _ & H5). rewrite H2, H5. reflexivity.
Qed.

Lemma adapt_delta_eeq : forall a b d, eeq a b -> eeq (adapt_delta a d) (adapt_delta b d).
Proof.
  intros a b d (H1 & H2 & H3 & H4 & H5). unfold adapt_delta, eeq. cbn [e_num e_id e_items e_diff e_classes].
  splits; auto.
  - apply Forall2_app; [exact H3|apply forall2_refl; apply ieq_refl].
  - unfold squash. apply deq_merge_all; [apply deq_merge; [apply deq_refl|exact H4]|apply forall2_refl; apply deq_refl].
Qed.

Lemma replace_slot_proper : forall c1 c2 u bn bt cls, ceq c1 c2 ->
  res_eq (replace_slot c1 u bn bt cls) (replace_slot c2 u bn bt cls).
Proof.
  intros c1 c2 u bn bt cls H. unfold replace_slot. rewrite (ceq_tip _ _ H).
  set (depth := N.to_nat (tip c2 - bn)).
  pose proof (forall2_skipn eeq depth _ _ H) as HS.
  destruct HS as [|t1 t2 p1 p2 HT HP]; [exact I|].
  destruct u as [b|d|].
  - destruct (adapt_checked b bn cls) as [e|next]; [reflexivity|].
    rewrite (should_preserve_eeq _ _ next HT). destruct (should_preserve t2 next); [exact I|].
    cbn [res_eq]. split; [constructor; [apply eeq_refl|exact HP]|apply eeq_refl].
  - destruct (negb (Nat.eqb depth 0)); [reflexivity|].
    rewrite (len_items_eeq _ _ HT). destruct (negb (len (e_items t2) =? bt)); [reflexivity|].
    pose proof HT as (_ & HI & _). rewrite HI. destruct (negb (e_id t2 =? ud_id d)); [reflexivity|].
    destruct (ud_fault d =? 1); [reflexivity|].
    pose proof (adapt_delta_eeq _ _ d HT) as HA. pose proof HA as (_ & _ & _ & _ & HC). rewrite HC.
    cbn [res_eq]. split; [constructor; [|exact HP]|]; apply eeq_with_cls; exact HA.
  - destruct cls as [|c0 cr]; [exact I|]. destruct (negb (Nat.eqb depth 0)); [reflexivity|].
    pose proof HT as (K1 & K2 & K3 & K4 & K5). rewrite K5.
    destruct (len (merge_classes_copying (e_classes t2) (c0 :: cr)) =? len (e_classes t2)); [exact I|].
    assert (HE : eeq (mkEntry (e_num t1) (e_id t1) (e_items t1) (e_diff t1) (merge_classes_copying (e_classes t2) (c0 :: cr)))
                     (mkEntry (e_num t2) (e_id t2) (e_items t2) (e_diff t2) (merge_classes_copying (e_classes t2) (c0 :: cr))))
      by (apply eeq_with_cls; exact HT).
    cbn [res_eq]. split; [constructor; [exact HE|exact HP]|exact HE].
Qed.

Lemma compute_update_proper : forall c1 c2 u bn bt opc cls, ceq c1 c2 ->
  res_eq (compute_update c1 u bn bt opc cls) (compute_update c2 u bn bt opc cls).
Proof.
  intros c1 c2 u bn bt opc cls H. unfold compute_update.
  pose proof (ceq_tip _ _ H) as HT. pose proof (ceq_oldest _ _ H) as HO.
  destruct H as [|x y l l' HX HL].
  - destruct u as [b|d|]; try reflexivity. unfold bootstrap_chain. destruct (negb (bn =? opc)); [reflexivity|].
    destruct (adapt_checked b bn (cnorm cls)); [reflexivity|]. cbn [res_eq]. split; [apply ceq_refl|apply eeq_refl].
  - rewrite HT, HO.
    destruct (negb (oldest (y :: l') =? opc)); [reflexivity|].
    destruct (bn <? oldest (y :: l')); [reflexivity|].
    destruct (tip (y :: l') + 1 <? bn); [reflexivity|].
    destruct (bn =? tip (y :: l') + 1).
    + destruct u as [b|d|]; try reflexivity. unfold extend.
      destruct (adapt_checked b bn (cnorm cls)); [reflexivity|]. cbn [res_eq].
      split; [constructor; [apply eeq_refl|constructor; assumption]|apply eeq_refl].
    + apply replace_slot_proper. constructor; assumption.
Qed.

Definition out_eq (y1 y2 : out) : Prop :=
  match y1, y2 with
  | OApply r1, OApply r2 => res_eq r1 r2
  | OAdvance b1, OAdvance b2 => b1 = b2
  | OSnap v1, OSnap v2 => ceq v1 v2
  | _, _ => False
  end.

Lemma step_proper : forall c1 c2 o, ceq c1 c2 ->
  ceq (fst (step c1 o)) (fst (step c2 o)) /\ out_eq (snd (step c1 o)) (snd (step c2 o)).
Proof.
  intros c1 c2 o H. destruct o as [u bn bt opc cls|n|n]; cbn [step].
  - pose proof (compute_update_proper c1 c2 u bn bt opc cls H) as R. cbn [fst snd out_eq].
    destruct (compute_update c1 u bn bt opc cls), (compute_update c2 u bn bt opc cls); cbn [res_eq] in R; try contradiction;
      (split; [|exact R]); try exact H. exact (proj1 R).
  - unfold advance_to. rewrite (ceq_oldest _ _ H), (ceq_contains _ _ n H), (ceq_length _ _ H).
    destruct H as [|x y l l' HX HL]; [split; [constructor|reflexivity]|].
    destruct (n =? oldest (y :: l')); [split; [constructor; assumption|reflexivity]|].
    destruct (negb (contains (y :: l') n)); [split; [constructor|reflexivity]|].
    split; [|reflexivity]. cbn [fst]. apply forall2_firstn. constructor; assumption.
  - cbn [fst snd out_eq]. split; [exact H|]. unfold snapshot. rewrite (ceq_contains _ _ n H), (ceq_tip _ _ H).
    destruct (contains c2 n); [apply forall2_firstn; exact H|constructor].
Qed.

(* ---------- the invariant of heap-level runs ---------- *)
Definition hs_inv (s : hstate) : Prop :=
  hwf (hs_heap s) /\ view_ok (hs_heap s) (hs_cur s) /\ Forall (view_ok (hs_heap s)) (hs_views s).

Lemma hs_inv_init : hs_inv hinit.
Proof. unfold hs_inv, hinit. cbn. splits; [apply hwf_empty|split; [constructor|exact I]|constructor]. Qed.

Lemma views_ext : forall h h' vs, ext h h' -> Forall (view_ok h) vs -> Forall (view_ok h') vs.
Proof. intros h h' vs X F. eapply Forall_impl; [|exact F]. intros v V. exact (ext_view_ok _ _ X v V). Qed.

Lemma nth_view_ok : forall s vi, hs_inv s -> view_ok (hs_heap s) (nth_view s vi).
Proof.
  intros s vi (W & _ & FV). unfold nth_view.
  destruct (nth_in_or_default vi (rev (hs_views s)) empty_view) as [I|E].
  - rewrite Forall_forall in FV. apply FV. apply in_rev. exact I.
  - rewrite E. split; [constructor|exact I].
Qed.

(* one step: the invariant is kept, the heap is only extended, views are only added *)
Lemma hstep_inv : forall s o s' x, hs_inv s -> hstep s o = (s', x) ->
  hs_inv s' /\ ext (hs_heap s) (hs_heap s') /\ (exists l, hs_views s' = l ++ hs_views s).
Proof.
  intros s o s' x INV E. pose proof INV as (W & VC & FV). destruct o as [[u bn bt opc cls|n|n]|vi b|vi b i]; cbn [hstep] in E.
  - destruct (h_compute_update (hs_heap s) (hs_cur s) u bn bt opc cls) as [h' r] eqn:EC. inversion E; subst s' x; clear E.
    destruct (h_compute_update_refines _ _ _ _ _ _ _ _ _ W VC EC) as (X & R). cbn [hs_heap hs_cur hs_views].
    split; [|split; [exact X|exists []; reflexivity]]. unfold hs_inv. cbn [hs_heap hs_cur hs_views]. splits.
    + exact (proj1 (proj2 X)).
    + destruct r as [e| |v a]; try exact (ext_view_ok _ _ X _ VC).
      destruct (compute_update (denote_view (hs_heap s) (hs_cur s)) u bn bt opc cls); cbn [res_rel] in R; try contradiction.
      exact (proj1 R).
    + exact (views_ext _ _ _ X FV).
  - destruct (h_advance_to (hs_heap s) (hs_cur s) n) as [[h' v] b] eqn:EA. inversion E; subst s' x; clear E.
    destruct (h_advance_refines _ _ _ _ _ _ W VC EA) as (X & VO & _). cbn [hs_heap hs_cur hs_views].
    split; [unfold hs_inv; cbn [hs_heap hs_cur hs_views]; splits; [exact (proj1 (proj2 X))|exact VO|exact (views_ext _ _ _ X FV)]
           |split; [exact X|exists []; reflexivity]].
  - inversion E; subst s' x; clear E. cbn [hs_heap hs_cur hs_views].
    destruct (h_snapshot_refines (hs_heap s) (hs_cur s) n W VC) as (VO & _).
    split; [unfold hs_inv; cbn [hs_heap hs_cur hs_views]; splits; auto|split].
    + apply ext_refl. exact W.
    + exists [h_snapshot (hs_heap s) (hs_cur s) n]. reflexivity.
  - destruct (h_state_at (hs_heap s) (nth_view s vi) b) as [h' r] eqn:ES. inversion E; subst s' x; clear E.
    destruct (h_state_at_refines _ _ _ _ _ W (nth_view_ok s vi INV) ES) as (X & _). cbn [hs_heap hs_cur hs_views].
    split; [unfold hs_inv; cbn [hs_heap hs_cur hs_views]; splits; [exact (proj1 (proj2 X))|exact (ext_view_ok _ _ X _ VC)|exact (views_ext _ _ _ X FV)]
           |split; [exact X|exists []; reflexivity]].
  - destruct (h_state_before_index (hs_heap s) (nth_view s vi) b i) as [h' r] eqn:ES. inversion E; subst s' x; clear E.
    destruct (h_state_before_index_refines _ _ _ _ _ _ W (nth_view_ok s vi INV) ES) as (X & _). cbn [hs_heap hs_cur hs_views].
    split; [unfold hs_inv; cbn [hs_heap hs_cur hs_views]; splits; [exact (proj1 (proj2 X))|exact (ext_view_ok _ _ X _ VC)|exact (views_ext _ _ _ X FV)]
           |split; [exact X|exists []; reflexivity]].
Qed.

Lemma hrun_inv : forall ops s, hs_inv s ->
  hs_inv (fst (hrun s ops)) /\ ext (hs_heap s) (hs_heap (fst (hrun s ops))) /\
  (exists l, hs_views (fst (hrun s ops)) = l ++ hs_views s).
Proof.
  induction ops as [|o r IH]; intros s INV.
  - simpl. splits; auto. + apply ext_refl. exact (proj1 INV). + exists []. reflexivity.
  - cbn [hrun]. destruct (hstep s o) as [s1 x] eqn:E1. destruct (hstep_inv _ _ _ _ INV E1) as (INV1 & X1 & (l1 & V1)).
    destruct (IH s1 INV1) as (INV2 & X2 & (l2 & V2)). destruct (hrun s1 r) as [s2 xs]. cbn [fst] in *.
    splits; [exact INV2|exact (ext_trans _ _ _ X1 X2)|]. exists (l2 ++ l1). rewrite V2, V1, app_assoc. reflexivity.
Qed.

Lemma hfinal_inv : forall ops, hs_inv (hfinal ops).
Proof. intro ops. exact (proj1 (hrun_inv ops hinit hs_inv_init)). Qed.

Lemma hrun_app : forall a b s, fst (hrun s (a ++ b)) = fst (hrun (fst (hrun s a)) b).
Proof.
  induction a as [|o a IH]; intros b s; [reflexivity|]. cbn [hrun app].
  destruct (hstep s o) as [s1 x]. specialize (IH b s1).
  destruct (hrun s1 (a ++ b)) as [s2 xs]. destruct (hrun s1 a) as [s3 ys]. exact IH.
Qed.

(* ---------- one operation against the list model ---------- *)
Lemma hstep_refines_denote : forall s o s' x, hs_inv s -> hstep s (HOp o) = (s', x) ->
  ceq (denote_view (hs_heap s') (hs_cur s')) (fst (step (denote_view (hs_heap s) (hs_cur s)) o)) /\
  out_rel (hs_heap s') x (snd (step (denote_view (hs_heap s) (hs_cur s)) o)).
Proof.
  intros s o s' x (W & VC & FV) E. destruct o as [u bn bt opc cls|n|n]; cbn [hstep step] in *.
  - destruct (h_compute_update (hs_heap s) (hs_cur s) u bn bt opc cls) as [h' r] eqn:EC. inversion E; subst s' x; clear E.
    destruct (h_compute_update_refines _ _ _ _ _ _ _ _ _ W VC EC) as (X & R). cbn [hs_heap hs_cur hs_views fst snd].
    destruct r as [e| |v a]; destruct (compute_update (denote_view (hs_heap s) (hs_cur s)) u bn bt opc cls);
      cbn [res_rel] in R; try contradiction; cbn [out_rel].
    + split; [|exact R]. rewrite (ext_denote_view _ _ X _ (proj1 VC)). apply ceq_refl.
    + split; [|exact I]. rewrite (ext_denote_view _ _ X _ (proj1 VC)). apply ceq_refl.
    + destruct R as (_ & R1 & R2). auto.
  - destruct (h_advance_to (hs_heap s) (hs_cur s) n) as [[h' v] b] eqn:EA. inversion E; subst s' x; clear E.
    destruct (h_advance_refines _ _ _ _ _ _ W VC EA) as (X & VO & DV & EB). cbn [hs_heap hs_cur hs_views].
    destruct (advance_to (denote_view (hs_heap s) (hs_cur s)) n) as [c' b']. cbn [fst snd out_rel] in *.
    rewrite DV. split; [apply ceq_refl|exact EB].
  - inversion E; subst s' x; clear E. cbn [hs_heap hs_cur hs_views fst snd out_rel].
    destruct (h_snapshot_refines (hs_heap s) (hs_cur s) n W VC) as (_ & DV).
    split; [apply ceq_refl|]. rewrite DV. apply ceq_refl.
Qed.

(* the heap-level output denotes the list-model output, up to [ceq] *)
Lemma out_rel_proper : forall h x y1 y2, out_rel h x y1 -> out_eq y1 y2 -> out_rel h x y2.
Proof.
  intros h x y1 y2 R Q. destruct x as [[e| |v a]|b|v|r]; destruct y1 as [[e1| |c1 a1]|b1|v1]; cbn [out_rel] in R; try contradiction;
    destruct y2 as [[e2| |c2 a2]|b2|v2]; cbn [out_eq res_eq] in Q; try contradiction; cbn [out_rel].
  - congruence.
  - exact I.
  - destruct R as [R1 R2]. destruct Q as [Q1 Q2]. split; [eapply ceq_trans; eassumption|eapply eeq_trans; eassumption].
  - congruence.
  - eapply ceq_trans; eassumption.
Qed.

Lemma abs_ops_app : forall a b, abs_ops (a ++ b) = abs_ops a ++ abs_ops b.
Proof. intros. unfold abs_ops. apply flat_map_app. Qed.

Lemma hfinal_snoc : forall ops o, hfinal (ops ++ [o]) = fst (hstep (hfinal ops) o).
Proof.
  intros. unfold hfinal. rewrite hrun_app. cbn [hrun]. destruct (hstep (fst (hrun hinit ops)) o). reflexivity.
Qed.

(* (a) refinement: after every operation the heap-level state denotes what the list model computes *)
Lemma heap_refines_lemma : forall ops,
  ceq (denote_view (hs_heap (hfinal ops)) (hs_cur (hfinal ops))) (final (abs_ops ops)).
Proof.
  intro ops. induction ops as [|o ops IH] using rev_ind.
  - unfold hfinal, final. cbn. constructor.
  - rewrite hfinal_snoc, abs_ops_app. pose proof (hfinal_inv ops) as INV.
    destruct (hstep (hfinal ops) o) as [s' x] eqn:E. cbn [fst].
    destruct o as [o'|vi b|vi b i].
    + cbn [abs_ops flat_map app]. rewrite final_snoc.
      destruct (hstep_refines_denote _ _ _ _ INV E) as (R1 & _).
      eapply ceq_trans; [exact R1|]. apply (proj1 (step_proper _ _ o' IH)).
    + cbn [abs_ops flat_map app]. rewrite app_nil_r.
      destruct (hstep_inv _ _ _ _ INV E) as (_ & X & _).
      cbn [hstep] in E. destruct (h_state_at (hs_heap (hfinal ops)) (nth_view (hfinal ops) vi) b) as [h' r].
      inversion E; subst s' x. cbn [hs_heap hs_cur] in *.
      rewrite (ext_denote_view _ _ X _ (proj1 (proj1 (proj2 INV)))). exact IH.
    + cbn [abs_ops flat_map app]. rewrite app_nil_r.
      destruct (hstep_inv _ _ _ _ INV E) as (_ & X & _).
      cbn [hstep] in E. destruct (h_state_before_index (hs_heap (hfinal ops)) (nth_view (hfinal ops) vi) b i) as [h' r].
      inversion E; subst s' x. cbn [hs_heap hs_cur] in *.
      rewrite (ext_denote_view _ _ X _ (proj1 (proj1 (proj2 INV)))). exact IH.
Qed.

Lemma heap_step_refines_lemma : forall ops o,
  out_rel (hs_heap (fst (hstep (hfinal ops) (HOp o)))) (snd (hstep (hfinal ops) (HOp o)))
          (snd (step (final (abs_ops ops)) o)).
Proof.
  intros ops o. pose proof (hfinal_inv ops) as INV.
  destruct (hstep (hfinal ops) (HOp o)) as [s' x] eqn:E. cbn [fst snd].
  destruct (hstep_refines_denote _ _ _ _ INV E) as (_ & R).
  eapply out_rel_proper; [exact R|]. apply (proj2 (step_proper _ _ o (heap_refines_lemma ops))).
Qed.

(* reader creation denotes the list model's overlay reads *)
Lemma heap_reader_lemma : forall ops vi b,
  let s := hfinal ops in
  match snd (hstep s (HStateAt vi b)) with
  | HOState r => reader_rel (hs_heap (fst (hstep s (HStateAt vi b)))) r
                            (state_at (denote_view (hs_heap s) (nth_view s vi)) b) b
  | _ => False
  end.
Proof.
  intros ops vi b s. pose proof (hfinal_inv ops) as INV. fold s in INV. cbn [hstep].
  destruct (h_state_at (hs_heap s) (nth_view s vi) b) as [h' r] eqn:ES. cbn [fst snd hs_heap].
  exact (proj2 (h_state_at_refines _ _ _ _ _ (proj1 INV) (nth_view_ok s vi INV) ES)).
Qed.

Lemma heap_reader_before_lemma : forall ops vi b i,
  let s := hfinal ops in
  match snd (hstep s (HStateBefore vi b i)) with
  | HOState r => reader_rel (hs_heap (fst (hstep s (HStateBefore vi b i)))) r
                            (state_before_index (denote_view (hs_heap s) (nth_view s vi)) b i) b
  | _ => False
  end.
Proof.
  intros ops vi b i s. pose proof (hfinal_inv ops) as INV. fold s in INV. cbn [hstep].
  destruct (h_state_before_index (hs_heap s) (nth_view s vi) b i) as [h' r] eqn:ES. cbn [fst snd hs_heap].
  exact (proj2 (h_state_before_index_refines _ _ _ _ _ _ (proj1 INV) (nth_view_ok s vi INV) ES)).
Qed.

(* (b) the frame invariant: an operation writes only to objects it allocates itself *)
Lemma heap_writes_fresh_only_lemma : forall ops o i,
  i < h_next (hs_heap (hfinal ops)) ->
  hget (hs_heap (fst (hstep (hfinal ops) o))) i = hget (hs_heap (hfinal ops)) i.
Proof.
  intros ops o i L. pose proof (hfinal_inv ops) as INV.
  destruct (hstep (hfinal ops) o) as [s' x] eqn:E. cbn [fst].
  destruct (hstep_inv _ _ _ _ INV E) as (_ & X & _). exact (ext_hget _ _ X i L).
Qed.

(* every object reachable from a view handed out (or from the published chain) was allocated
   before the view was handed out *)
Lemma heap_views_closed_lemma : forall ops v,
  In v (hs_cur (hfinal ops) :: hs_views (hfinal ops)) ->
  below (h_next (hs_heap (hfinal ops))) (oref (fst v)) /\ closed (h_next (hs_heap (hfinal ops))) (hs_heap (hfinal ops)).
Proof.
  intros ops v I. destruct (hfinal_inv ops) as (W & VC & FV). split; [|apply hwf_closed; exact W].
  destruct I as [<-|I]; [exact (proj1 VC)|]. rewrite Forall_forall in FV. exact (proj1 (FV v I)).
Qed.

(* ... hence every view handed out at any point denotes the same chain in every later heap *)
Lemma view_stable_heap_lemma : forall ops1 ops2 v,
  In v (hs_cur (hfinal ops1) :: hs_views (hfinal ops1)) ->
  denote_view (hs_heap (hfinal (ops1 ++ ops2))) v = denote_view (hs_heap (hfinal ops1)) v /\
  (In v (hs_views (hfinal ops1)) -> In v (hs_views (hfinal (ops1 ++ ops2)))).
Proof.
  intros ops1 ops2 v I.
  assert (EF : hfinal (ops1 ++ ops2) = fst (hrun (hfinal ops1) ops2)) by (unfold hfinal; apply hrun_app).
  rewrite EF.
  destruct (hrun_inv ops2 (hfinal ops1) (hfinal_inv ops1)) as (_ & X & (l & V)).
  split.
  - apply (ext_denote_view _ _ X). exact (proj1 (heap_views_closed_lemma ops1 v I)).
  - intro J. rewrite V. apply in_or_app. right. exact J.
Qed.

(* a view handed out by SnapshotForBlock denotes, then and ever after, the list model's snapshot *)
Lemma snapshot_stable_lemma : forall ops1 n ops2,
  let v := h_snapshot (hs_heap (hfinal ops1)) (hs_cur (hfinal ops1)) n in
  ceq (denote_view (hs_heap (hfinal (ops1 ++ HOp (Snapshot n) :: ops2))) v) (snapshot (final (abs_ops ops1)) n).
Proof.
  intros ops1 n ops2 v.
  replace (ops1 ++ HOp (Snapshot n) :: ops2) with ((ops1 ++ [HOp (Snapshot n)]) ++ ops2) by (rewrite <- app_assoc; reflexivity).
  assert (HV : In v (hs_views (hfinal (ops1 ++ [HOp (Snapshot n)])))).
  { rewrite hfinal_snoc. cbn [hstep fst hs_views]. left. reflexivity. }
  destruct (view_stable_heap_lemma (ops1 ++ [HOp (Snapshot n)]) ops2 v (or_intror HV)) as [E _]. rewrite E.
  rewrite hfinal_snoc. cbn [hstep fst hs_heap].
  destruct (hfinal_inv ops1) as (W & VC & _).
  unfold v. rewrite (proj2 (h_snapshot_refines _ _ n W VC)).
  pose proof (proj2 (step_proper _ _ (Snapshot n) (heap_refines_lemma ops1))) as Q. cbn [step snd out_eq] in Q. exact Q.
Qed.

(* ---------- theorems about reachable list-model chains carry over ---------- *)
Lemma ceq_numbers : forall a b, ceq a b -> numbers a = numbers b.
Proof.
  intros a b H. unfold numbers. rewrite !map_rev. f_equal. induction H as [|x y l l' (E & _) _ IH]; [reflexivity|].
  simpl. rewrite IH, E. reflexivity.
Qed.

Lemma heap_contiguous_lemma : forall ops,
  let c := denote_view (hs_heap (hfinal ops)) (hs_cur (hfinal ops)) in
  contiguous_from (oldest c) c = true.
Proof.
  intros ops c. pose proof (heap_refines_lemma ops) as R. fold c in R.
  unfold contiguous_from. rewrite (ceq_numbers _ _ R), (ceq_oldest _ _ R), (ceq_length _ _ R).
  exact (contiguous_lemma (abs_ops ops)).
Qed.

Lemma heap_snapshot_aligned_lemma : forall ops hd,
  view_aligned hd (denote_view (hs_heap (hfinal ops)) (h_snapshot (hs_heap (hfinal ops)) (hs_cur (hfinal ops)) (hd + 1))) = true.
Proof.
  intros ops hd. destruct (hfinal_inv ops) as (W & VC & _).
  rewrite (proj2 (h_snapshot_refines _ _ (hd + 1) W VC)).
  pose proof (proj2 (step_proper _ _ (Snapshot (hd + 1)) (heap_refines_lemma ops))) as Q. cbn [step snd out_eq] in Q.
  pose proof (snapshot_aligned_lemma (abs_ops ops) hd) as S.
  unfold view_aligned in *. pose proof (ceq_length _ _ Q) as LQ.
  destruct Q as [|x y l l' HX HL]; [reflexivity|].
  unfold contiguous_from in *. rewrite (ceq_numbers (x :: l) (y :: l')) by (constructor; assumption). rewrite LQ. exact S.
Qed.
