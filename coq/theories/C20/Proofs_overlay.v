(* C20 — the overlay read (one merged diff over the base) equals applying the view's diffs one
   block at a time, in order. *)
From Coq Require Import List NArith Bool Lia ZifyN ZifyNat ZifyBool.
From V Require Import C20.Model C20.Proofs.
Import ListNotations.
Open Scope N_scope.

Lemma alookup_app : forall {V} k (a b : list (N * V)),
  alookup k (a ++ b) = match alookup k a with Some v => Some v | None => alookup k b end.
Proof. induction a as [|[k' v] a IH]; intros; simpl; [reflexivity|]. destruct (k =? k'); auto. Qed.

Lemma amem_app : forall {V} k (a b : list (N * V)), amem k (a ++ b) = amem k a || amem k b.
Proof. intros. unfold amem. rewrite alookup_app. destruct (alookup k a); reflexivity. Qed.

Lemma slookup_app : forall k a b,
  slookup k (a ++ b) = match slookup k a with Some v => Some v | None => slookup k b end.
Proof. induction a as [|[k' v] a IH]; intros; simpl; [reflexivity|]. destruct (k2eqb k k'); auto. Qed.

Lemma untouched_storage : forall m a k,
  existsb (fun kv : N * N * N => fst (fst kv) =? a) m = false -> slookup (a, k) m = None.
Proof.
  induction m as [|[[a' k'] v] r IH]; intros a k H; simpl in *; [reflexivity|].
  apply orb_false_iff in H as [H1 H2]. unfold k2eqb. simpl.
  rewrite N.eqb_sym in H1. rewrite H1. simpl. now apply IH.
Qed.

Lemma amem_false : forall {V} k (m : list (N * V)), amem k m = false -> alookup k m = None.
Proof. intros V k m. unfold amem. destruct (alookup k m); [discriminate| reflexivity]. Qed.

Lemma deployed_fresh : forall (acc : diff) (dep : list (N * N)) a,
  forallb (fun kv : N * N => negb (touches acc (fst kv))) dep = true ->
  amem a dep = true -> touches acc a = false.
Proof.
  induction dep as [|[a' c] r IH]; intros a H M; [discriminate|].
  simpl in H. apply andb_true_iff in H as [H1 H2]. unfold amem in M. simpl in M.
  destruct (a =? a') eqn:E.
  - apply N.eqb_eq in E. subst. now apply negb_true_iff in H1.
  - apply IH; auto.
Qed.

(* class maps: Copy of a duplicate-free map = lookup there first *)
Lemma alookup_cins : forall h k v m, alookup h (cins k v m) = if h =? k then Some v else alookup h m.
Proof.
  induction m as [|[k' v'] r IH]; simpl.
  - reflexivity.
  - destruct (k =? k') eqn:E; simpl.
    + apply N.eqb_eq in E. subst. destruct (h =? k'); reflexivity.
    + rewrite IH. destruct (h =? k') eqn:E2; [|reflexivity].
      apply N.eqb_eq in E2. subst. rewrite N.eqb_sym, E. reflexivity.
Qed.

Lemma alookup_notin : forall h (m : cmap), ~ In h (keys m) -> alookup h m = None.
Proof.
  induction m as [|[k v] r IH]; intros H; simpl in *; [reflexivity|].
  destruct (h =? k) eqn:E; [apply N.eqb_eq in E; subst; tauto| apply IH; tauto].
Qed.

Lemma alookup_ccopy : forall src dst h, NoDup (keys src) ->
  alookup h (ccopy dst src) = match alookup h src with Some c => Some c | None => alookup h dst end.
Proof.
  unfold ccopy. induction src as [|[k v] r IH]; intros dst h H; simpl; [reflexivity|].
  inversion H; subst. rewrite IH by assumption. rewrite alookup_cins.
  destruct (h =? k) eqn:E; [|reflexivity].
  apply N.eqb_eq in E. subst. rewrite (alookup_notin k r); auto.
Qed.

Lemma alookup_mci : forall src dst h, NoDup (keys src) ->
  alookup h (merge_classes_into dst src) =
  match alookup h src with Some c => Some c | None => alookup h dst end.
Proof.
  intros src dst h H. destruct src as [|p r]; [reflexivity|].
  unfold merge_classes_into. now apply alookup_ccopy.
Qed.

(* pstate consults its head only on the query itself *)
Lemma pstate_cong : forall d cls r1 r2 n q, r1 q = r2 q -> pstate d cls r1 n q = pstate d cls r2 n q.
Proof. intros. destruct q; simpl; rewrite H; reflexivity. Qed.

Lemma apply_diffs_cong : forall ls r1 r2 q, r1 q = r2 q -> apply_diffs ls r1 q = apply_diffs ls r2 q.
Proof.
  unfold apply_diffs. induction ls as [|l r IH]; intros r1 r2 q H; simpl; [exact H|].
  apply IH. unfold overlay1. now apply pstate_cong.
Qed.

(* one block: merging d into acc then reading = reading d over (reading acc) *)
Lemma overlay_step : forall acc cacc d cls base bn bn' n q,
  is_lastupd q = false -> NoDup (keys cls) ->
  forallb (fun kv : N * N => negb (touches acc (fst kv))) (d_deployed d) = true ->
  pstate (merge acc d) (merge_classes_into cacc cls) base bn q =
  pstate d cls (pstate acc cacc base bn') n q.
Proof.
  intros acc cacc d cls base bn bn' n q L Hc Fr.
  destruct q as [a k|a|a|h|h|h|a k]; try discriminate; simpl.
  - rewrite slookup_app. destruct (slookup (a, k) (d_storage d)); [reflexivity|].
    rewrite amem_app. destruct (amem a (d_deployed d)) eqn:M; simpl; [|reflexivity].
    pose proof (deployed_fresh _ _ _ Fr M) as T. unfold touches in T.
    apply orb_false_iff in T as [T _]. apply orb_false_iff in T as [T _].
    now rewrite (untouched_storage _ _ k T).
  - rewrite alookup_app. destruct (alookup a (d_nonces d)); [reflexivity|].
    rewrite amem_app. destruct (amem a (d_deployed d)) eqn:M; simpl; [|reflexivity].
    pose proof (deployed_fresh _ _ _ Fr M) as T. unfold touches in T.
    apply orb_false_iff in T as [T _]. apply orb_false_iff in T as [_ T].
    now rewrite (amem_false _ _ T).
  - rewrite !alookup_app. destruct (alookup a (d_replaced d)); [reflexivity|].
    destruct (alookup a (d_deployed d)) eqn:M; [|reflexivity].
    assert (M' : amem a (d_deployed d) = true) by (unfold amem; now rewrite M).
    pose proof (deployed_fresh _ _ _ Fr M') as T. unfold touches in T.
    apply orb_false_iff in T as [_ T]. now rewrite (amem_false _ _ T).
  - rewrite alookup_mci by assumption. destruct (alookup h cls); reflexivity.
  - rewrite alookup_app. destruct (alookup h (d_decl1 d)); reflexivity.
  - rewrite alookup_app. destruct (alookup h (d_migrated d)); reflexivity.
Qed.


Definition classes_into (cacc : cmap) (ls : list layer) : cmap :=
  fold_left (fun m l => merge_classes_into m (lcls l)) ls cacc.

Lemma overlay_gen : forall ls acc cacc base bn bn' q,
  is_lastupd q = false ->
  Forall (fun l => NoDup (keys (lcls l))) ls ->
  deploy_fresh_acc acc (map ldiff ls) = true ->
  pstate (merge_all acc (map ldiff ls)) (classes_into cacc ls) base bn q =
  apply_diffs ls (pstate acc cacc base bn') q.
Proof.
  induction ls as [|[[n d] cls] r IH]; intros acc cacc base bn bn' q L Hc Fr.
  - simpl. destruct q; try discriminate; reflexivity.
  - simpl in Fr. apply andb_true_iff in Fr as [F1 F2]. inversion Hc as [|? ? C1 C2]; subst.
    change (merge_all acc (map ldiff ((n, d, cls) :: r))) with (merge_all (merge acc d) (map ldiff r)).
    change (classes_into cacc ((n, d, cls) :: r)) with (classes_into (merge_classes_into cacc cls) r).
    change (apply_diffs ((n, d, cls) :: r) (pstate acc cacc base bn'))
      with (apply_diffs r (overlay1 n d cls (pstate acc cacc base bn'))).
    rewrite (IH (merge acc d) (merge_classes_into cacc cls) base bn bn q L C2 F2).
    apply apply_diffs_cong. unfold overlay1.
    apply (overlay_step acc cacc d cls base bn bn' n q L C1 F1).
Qed.

Lemma pstate_empty : forall base bn q, is_lastupd q = false -> pstate empty_diff [] base bn q = base q.
Proof. intros base bn q L. destruct q; try discriminate; reflexivity. Qed.

Lemma overlay_layers : forall ls base bn q,
  is_lastupd q = false ->
  Forall (fun l => NoDup (keys (lcls l))) ls ->
  deploy_fresh (map ldiff ls) = true ->
  pstate (merge_all empty_diff (map ldiff ls)) (classes_into [] ls) base bn q =
  apply_diffs ls base q.
Proof.
  intros ls base bn q L Hc Fr.
  rewrite (overlay_gen ls empty_diff [] base bn bn q L Hc Fr).
  apply apply_diffs_cong. now apply pstate_empty.
Qed.

Lemma classes_of_layers : forall es acc,
  fold_left (fun m e => merge_classes_into m (e_classes e)) es acc = classes_into acc (map layer_of es).
Proof. unfold classes_into. induction es as [|e r IH]; intros acc; simpl; [reflexivity|]. apply IH. Qed.

Lemma map_ldiff_layer : forall es, map ldiff (map layer_of es) = map e_diff es.
Proof. intros. rewrite map_map. reflexivity. Qed.

(* PreConfirmedStateAt *)
Lemma state_at_spec : forall v b base r q,
  state_at v b base = inr r ->
  Forall (fun e => NoDup (keys (e_classes e))) (upto b (rev v)) ->
  deploy_fresh (map e_diff (upto b (rev v))) = true ->
  is_lastupd q = false ->
  r q = apply_diffs (map layer_of (upto b (rev v))) base q.
Proof.
  intros v b base r q H Hc Fr L. unfold state_at in H.
  destruct (negb (contains v b)); [discriminate|]. inversion H; subst; clear H.
  unfold classes_of. rewrite classes_of_layers, <- map_ldiff_layer.
  apply overlay_layers; auto.
  - rewrite Forall_map. exact Hc.
  - rewrite map_ldiff_layer. exact Fr.
Qed.

(* PreConfirmedStateBeforeIndexAt: blocks before b, then the first i transactions of b *)
Lemma classes_into_app : forall a b acc, classes_into acc (a ++ b) = classes_into (classes_into acc a) b.
Proof. intros. unfold classes_into. now rewrite fold_left_app. Qed.

Lemma state_before_index_spec : forall v b i base r pre target q,
  state_before_index v b i base = inr r ->
  before b (rev v) = (pre, Some target) ->
  Forall (fun e => NoDup (keys (e_classes e))) (target :: pre) ->
  deploy_fresh (map ldiff (before_layers pre target i)) = true ->
  is_lastupd q = false ->
  r q = apply_diffs (before_layers pre target i) base q.
Proof.
  intros v b i base r pre target q H B Hc Fr L. unfold state_before_index in H.
  destruct (negb (contains v b)); [discriminate|]. rewrite B in H.
  destruct (len (e_items target) <? i); [discriminate|]. inversion H; subst; clear H.
  inversion Hc as [|? ? Ct Cp]; subst.
  rewrite <- (overlay_layers (before_layers pre target i) base b q L); auto.
  - unfold before_layers. rewrite map_app, merge_all_app, classes_into_app. simpl.
    unfold classes_of. rewrite classes_of_layers, map_ldiff_layer.
    unfold squash at 1. rewrite merge_all_acc. unfold ldiff at 1. simpl.
    unfold squash. reflexivity.
  - unfold before_layers. apply Forall_app. split.
    + rewrite Forall_map. exact Cp.
    + constructor; [exact Ct| constructor].
Qed.

(* last-updated block: exact when the view up to b is the single block b *)
Lemma last_updated_single : forall e base a k,
  pstate (merge_all empty_diff (map e_diff [e])) (classes_of [e]) base (e_num e) (QLastUpd a k) =
  apply_diffs (map layer_of [e]) base (QLastUpd a k).
Proof.
  intros. unfold merge_all, apply_diffs, overlay1, layer_of. simpl.
  rewrite !app_nil_r. reflexivity.
Qed.
