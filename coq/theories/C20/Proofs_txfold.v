(* C20 — the overlay equals the in-order fold over the WIRE per-transaction diffs, and the state
   before index len(txs) of a block is the state at that block. *)
From Coq Require Import List NArith Bool Lia ZifyN ZifyNat ZifyBool.
From V Require Import C20.Model C20.Proofs C20.Proofs_overlay.
Import ListNotations.
Open Scope N_scope.

Lemma map_ldiff_txs : forall n (its : list item),
  map ldiff (map (fun it => (n, it_diff it, @nil (N * N))) its) = map it_diff its.
Proof. intros. rewrite map_map. reflexivity. Qed.

Lemma merge_all_cons_empty : forall acc ds, merge_all acc (empty_diff :: ds) = merge_all acc ds.
Proof. intros. unfold merge_all. simpl. now rewrite merge_empty_r. Qed.

Lemma merge_all_entry_layers : forall e acc,
  merge_all acc (map ldiff (entry_layers e)) = merge acc (squash empty_diff (e_items e)).
Proof.
  intros. unfold entry_layers. rewrite map_cons, map_ldiff_txs.
  change (ldiff (e_num e, empty_diff, e_classes e)) with empty_diff.
  rewrite merge_all_cons_empty, merge_all_acc. reflexivity.
Qed.

Definition diff_ok (e : entry) : Prop := e_diff e = squash empty_diff (e_items e).

Lemma merge_all_tx_layers : forall es acc, Forall diff_ok es ->
  merge_all acc (map ldiff (tx_layers es)) = merge_all acc (map e_diff es).
Proof.
  induction es as [|e r IH]; intros acc H; [reflexivity|].
  inversion H as [|? ? He Hr]; subst.
  change (tx_layers (e :: r)) with (entry_layers e ++ tx_layers r).
  rewrite map_app, merge_all_app, merge_all_entry_layers.
  rewrite IH by assumption. rewrite <- He. reflexivity.
Qed.

Lemma classes_into_nil_layers : forall n (its : list item) acc,
  classes_into acc (map (fun it => (n, it_diff it, @nil (N * N))) its) = acc.
Proof. unfold classes_into. induction its as [|it r IH]; intros acc; simpl; auto. Qed.

Lemma classes_into_tx_layers : forall es acc,
  classes_into acc (tx_layers es) = classes_into acc (map layer_of es).
Proof.
  induction es as [|e r IH]; intros acc; [reflexivity|].
  change (tx_layers (e :: r)) with (entry_layers e ++ tx_layers r).
  rewrite classes_into_app. unfold entry_layers.
  change (classes_into acc ((e_num e, empty_diff, e_classes e) :: ?l))
    with (classes_into (merge_classes_into acc (e_classes e)) l).
  rewrite classes_into_nil_layers, IH. reflexivity.
Qed.

Lemma nodup_nil_layers : forall n (its : list item),
  Forall (fun l => NoDup (keys (lcls l))) (map (fun it => (n, it_diff it, @nil (N * N))) its).
Proof. intros. rewrite Forall_map. apply Forall_forall. intros. constructor. Qed.

Lemma nodup_tx_layers : forall es, Forall (fun e => NoDup (keys (e_classes e))) es ->
  Forall (fun l => NoDup (keys (lcls l))) (tx_layers es).
Proof.
  induction es as [|e r IH]; intros H; [constructor|].
  inversion H; subst. change (tx_layers (e :: r)) with (entry_layers e ++ tx_layers r). apply Forall_app. split; [|apply IH; assumption].
  constructor; [assumption| apply nodup_nil_layers].
Qed.

(* PreConfirmedStateAt = fold over the wire per-transaction diffs of the view's blocks up to b *)
Lemma state_at_tx_fold : forall v b base r q,
  state_at v b base = inr r ->
  Forall entry_ok (upto b (rev v)) ->
  deploy_fresh (map ldiff (tx_layers (upto b (rev v)))) = true ->
  is_lastupd q = false ->
  r q = apply_diffs (tx_layers (upto b (rev v))) base q.
Proof.
  intros v b base r q H Ok Fr L. unfold state_at in H.
  destruct (negb (contains v b)); [discriminate|]. inversion H; subst; clear H.
  set (es := upto b (rev v)) in *.
  assert (D : Forall diff_ok es) by (eapply Forall_impl; [|exact Ok]; intros e [_ E]; exact E).
  assert (C : Forall (fun e => NoDup (keys (e_classes e))) es)
    by (eapply Forall_impl; [|exact Ok]; intros e [E _]; exact E).
  rewrite <- (merge_all_tx_layers es empty_diff D).
  unfold classes_of. rewrite classes_of_layers, <- classes_into_tx_layers.
  apply overlay_layers; auto. now apply nodup_tx_layers.
Qed.

Lemma state_before_index_tx_fold : forall v b i base r pre target q,
  state_before_index v b i base = inr r ->
  before b (rev v) = (pre, Some target) ->
  Forall entry_ok (target :: pre) ->
  deploy_fresh (map ldiff (before_tx_layers pre target i)) = true ->
  is_lastupd q = false ->
  r q = apply_diffs (before_tx_layers pre target i) base q.
Proof.
  intros v b i base r pre target q H B Ok Fr L. unfold state_before_index in H.
  destruct (negb (contains v b)); [discriminate|]. rewrite B in H.
  destruct (len (e_items target) <? i); [discriminate|]. inversion H; subst; clear H.
  inversion Ok as [|? ? Ot Op]; subst.
  assert (D : Forall diff_ok pre) by (eapply Forall_impl; [|exact Op]; intros e [_ E]; exact E).
  assert (C : Forall (fun e => NoDup (keys (e_classes e))) pre)
    by (eapply Forall_impl; [|exact Op]; intros e [E _]; exact E).
  rewrite <- (overlay_layers (before_tx_layers pre target i) base b q L); auto.
  - unfold before_tx_layers. rewrite map_app, merge_all_app, classes_into_app.
    rewrite (merge_all_tx_layers pre empty_diff D), classes_into_tx_layers.
    rewrite map_cons, map_ldiff_txs.
    change (ldiff (e_num target, empty_diff, e_classes target)) with empty_diff.
    rewrite merge_all_cons_empty.
    change (classes_into ?a ((e_num target, empty_diff, e_classes target) :: ?l))
      with (classes_into (merge_classes_into a (e_classes target)) l).
    rewrite classes_into_nil_layers.
    unfold classes_of. rewrite classes_of_layers. reflexivity.
  - unfold before_tx_layers. apply Forall_app. split; [now apply nodup_tx_layers|].
    constructor; [exact (proj1 Ot)| apply nodup_nil_layers].
Qed.

(* BeforeIndex(len(txs)) = StateAt *)
Lemma before_upto : forall b l pre t, before b l = (pre, Some t) -> upto b l = pre ++ [t].
Proof.
  induction l as [|e r IH]; intros pre t H; simpl in *; [discriminate|].
  destruct (e_num e =? b).
  - inversion H; subst. reflexivity.
  - destruct (before b r) as [p o] eqn:E. inversion H; subst. simpl. f_equal. now apply IH.
Qed.

Lemma before_index_full : forall v b base r1 r2 pre target,
  before b (rev v) = (pre, Some target) ->
  e_diff target = squash empty_diff (e_items target) ->
  state_before_index v b (len (e_items target)) base = inr r1 ->
  state_at v b base = inr r2 ->
  forall q, r1 q = r2 q.
Proof.
  intros v b base r1 r2 pre target B E H1 H2 q.
  unfold state_before_index in H1. unfold state_at in H2.
  destruct (negb (contains v b)); [discriminate|]. rewrite B in H1.
  rewrite N.ltb_irrefl in H1. inversion H1; subst; clear H1. inversion H2; subst; clear H2.
  rewrite (before_upto _ _ _ _ B).
  unfold len. rewrite Nat2N.id, firstn_all.
  rewrite map_app, merge_all_app. simpl map. unfold merge_all at 2. simpl fold_left.
  unfold squash at 1. rewrite merge_all_acc. fold (squash empty_diff (e_items target)). rewrite <- E.
  unfold classes_of. rewrite fold_left_app. reflexivity.
Qed.
