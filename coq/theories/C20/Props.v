(* C20 — property theorems only.  Each is closed by [exact] of a lemma and followed by
   Print Assumptions; Examples show hypotheses are satisfiable / refutation witnesses. *)
From Coq Require Import List NArith Bool.
From V Require Import C20.Model C20.Proofs C20.Proofs_overlay C20.Proofs_txfold C20.Proofs_cas
  C20.Proofs_heap_base C20.Proofs_heap_reader C20.Proofs_heap_refine.
Import ListNotations.
Open Scope N_scope.

(* Every chain the storage can reach — by any sequence of ApplyUpdate (full block, delta,
   no-change, new round replacing a slot, gaps and every other rejected call), AdvanceTo (head
   advance or revert) and SnapshotForBlock — is a gap-free run of block numbers: oldest, oldest+1,
   ..., tip. *)
Theorem C20_contiguous : forall ops : list op,
  contiguous_from (oldest (final ops)) (final ops) = true.
Proof. exact contiguous_lemma. Qed.
Print Assumptions C20_contiguous.

(* The view handed out for canonical head h (SnapshotForBlock(h+1), as sync.PreConfirmedChain and
   the poller call it) is empty or a gap-free run starting exactly at h+1 ... *)
Theorem C20_snapshot_aligned : forall (ops : list op) (h : N),
  view_aligned h (snapshot (final ops) (h + 1)) = true.
Proof. exact snapshot_aligned_lemma. Qed.
Print Assumptions C20_snapshot_aligned.

(* ... more precisely, for any requested first block n: a non-empty snapshot starts at n, is
   contiguous, is the newest part of the stored chain and ends at its tip. *)
Theorem C20_snapshot_shape : forall (ops : list op) (n : N) (v : chain),
  snapshot (final ops) n = v -> v <> [] ->
  numbers v = nseq n (length v) /\ v = firstn (length v) (final ops) /\ tip v = tip (final ops).
Proof.
  intros ops n v S NE. destruct (snapshot_lemma _ _ _ (final_inv ops) S NE) as (A & B & C & _). auto.
Qed.
Print Assumptions C20_snapshot_shape.

(* Reachable entries are internally consistent: the block's state diff is the in-order squash of
   its per-transaction diffs (full blocks and deltas alike), declared-class maps have no duplicate
   keys; the entry ApplyUpdate returns is the one now stored at the targeted slot. *)
Theorem C20_entry_consistent : forall (ops : list op) (e : entry), In e (final ops) ->
  NoDup (map fst (e_classes e)) /\ e_diff e = squash empty_diff (e_items e).
Proof. exact classes_wf_lemma. Qed.
Print Assumptions C20_entry_consistent.

Theorem C20_affected_entry : forall ops u bn bt opc cls c' a,
  compute_update (final ops) u bn bt opc cls = RApplied c' a -> In a c' /\ e_num a = bn.
Proof. exact affected_lemma. Qed.
Print Assumptions C20_affected_entry.

(* State read through a view at block b (PreConfirmedStateAt: ONE merged diff consulted before the
   base) = the base overlaid with the diffs of the view's blocks up to b, one block at a time,
   oldest first — for storage, nonce, class hash, class, compiled class hash (v1, v2), including
   contracts deployed inside the view.  [deploy_fresh]: a contract deployed by a block of the view
   was not touched by an earlier block of the view (the canonical chain rejects anything else). *)
Theorem C20_overlay_spec : forall (v : chain) (b : N) (base r : reader) (q : query),
  state_at v b base = inr r ->
  Forall (fun e => NoDup (map fst (e_classes e))) (upto b (rev v)) ->
  deploy_fresh (map e_diff (upto b (rev v))) = true ->
  is_lastupd q = false ->
  r q = apply_diffs (map layer_of (upto b (rev v))) base q.
Proof. exact state_at_spec. Qed.
Print Assumptions C20_overlay_spec.

(* Same for the state just before transaction i of block b (PreConfirmedStateBeforeIndexAt): blocks
   before b, then the first i per-transaction diffs of b. *)
Theorem C20_overlay_before_index : forall v b i base r pre target q,
  state_before_index v b i base = inr r ->
  before b (rev v) = (pre, Some target) ->
  Forall (fun e => NoDup (map fst (e_classes e))) (target :: pre) ->
  deploy_fresh (map ldiff (before_layers pre target i)) = true ->
  is_lastupd q = false ->
  r q = apply_diffs (before_layers pre target i) base q.
Proof. exact state_before_index_spec. Qed.
Print Assumptions C20_overlay_before_index.

(* The same against what the feeder SENT: the read equals the in-order fold over the wire
   per-transaction diffs of the view's blocks up to b (each block: its declared classes, then its
   transactions one by one, reverted or not) — for views whose entries are consistent, which
   C20_entry_consistent gives for every reachable entry. *)
Theorem C20_overlay_tx_fold : forall (v : chain) (b : N) (base r : reader) (q : query),
  state_at v b base = inr r ->
  Forall (fun e => NoDup (map fst (e_classes e)) /\ e_diff e = squash empty_diff (e_items e))
         (upto b (rev v)) ->
  deploy_fresh (map ldiff (tx_layers (upto b (rev v)))) = true ->
  is_lastupd q = false ->
  r q = apply_diffs (tx_layers (upto b (rev v))) base q.
Proof. exact state_at_tx_fold. Qed.
Print Assumptions C20_overlay_tx_fold.

Theorem C20_overlay_before_index_tx_fold : forall v b i base r pre target q,
  state_before_index v b i base = inr r ->
  before b (rev v) = (pre, Some target) ->
  Forall (fun e => NoDup (map fst (e_classes e)) /\ e_diff e = squash empty_diff (e_items e))
         (target :: pre) ->
  deploy_fresh (map ldiff (before_tx_layers pre target i)) = true ->
  is_lastupd q = false ->
  r q = apply_diffs (before_tx_layers pre target i) base q.
Proof. exact state_before_index_tx_fold. Qed.
Print Assumptions C20_overlay_before_index_tx_fold.

(* The state before index len(txs) of block b is the state at b — every query, no side condition
   beyond the entry's diff being the squash of its transactions' diffs. *)
Theorem C20_before_index_full_is_state_at : forall v b base r1 r2 pre target,
  before b (rev v) = (pre, Some target) ->
  e_diff target = squash empty_diff (e_items target) ->
  state_before_index v b (len (e_items target)) base = inr r1 ->
  state_at v b base = inr r2 ->
  forall q, r1 q = r2 q.
Proof. exact before_index_full. Qed.
Print Assumptions C20_before_index_full_is_state_at.

(* ContractStorageLastUpdatedBlock through the overlay: exact when the view up to b is the single
   block b ... *)
Theorem C20_last_updated_single_block : forall (e : entry) (base : reader) (a k : N),
  pstate (merge_all empty_diff (map e_diff [e])) (classes_of [e]) base (e_num e) (QLastUpd a k) =
  apply_diffs (map layer_of [e]) base (QLastUpd a k).
Proof. exact last_updated_single. Qed.
Print Assumptions C20_last_updated_single_block.

(* ... and NOT in general: with two blocks, a slot written only by the older one is reported as
   last updated at the block the state was requested for.  (Full statement that fails:
   C20_overlay_spec without the [is_lastupd q = false] hypothesis.) *)
Definition w_d1 : diff := mkDiff [((5, 1), 7)] [] [] [] [] [] [].
Definition w_view : chain := [mkEntry 2 22 [] empty_diff []; mkEntry 1 21 [] w_d1 []].
Definition w_base : reader := fun _ => Some 0.

Theorem C20_last_updated_refuted : exists (v : chain) (b : N) (base r : reader) (q : query),
  state_at v b base = inr r /\
  Forall (fun e => NoDup (map fst (e_classes e))) (upto b (rev v)) /\
  deploy_fresh (map e_diff (upto b (rev v))) = true /\
  r q = Some 2 /\ apply_diffs (map layer_of (upto b (rev v))) base q = Some 1.
Proof.
  exists w_view, 2, w_base, (pstate (merge_all empty_diff (map e_diff (upto 2 (rev w_view))))
                                    (classes_of (upto 2 (rev w_view))) w_base 2), (QLastUpd 5 1).
  repeat split.
  repeat constructor; intros [].
Qed.
Print Assumptions C20_last_updated_refuted.

(* the deploy_fresh hypothesis is not decorative: block 1 writes a slot of contract 5, block 2
   "deploys" 5 — merged read gives the old value, block-by-block application gives 0 *)
Definition n_d2 : diff := mkDiff [] [] [(5, 9)] [] [] [] [].
Definition n_view : chain := [mkEntry 2 22 [] n_d2 []; mkEntry 1 21 [] w_d1 []].

Theorem C20_overlay_deploy_fresh_needed : exists (v : chain) (b : N) (base r : reader) (q : query),
  state_at v b base = inr r /\ is_lastupd q = false /\
  deploy_fresh (map e_diff (upto b (rev v))) = false /\
  r q = Some 7 /\ apply_diffs (map layer_of (upto b (rev v))) base q = Some 0.
Proof.
  exists n_view, 2, w_base, (pstate (merge_all empty_diff (map e_diff (upto 2 (rev n_view))))
                                    (classes_of (upto 2 (rev n_view))) w_base 2), (QStorage 5 1).
  repeat split.
Qed.
Print Assumptions C20_overlay_deploy_fresh_needed.

(* Transaction / receipt lookup by hash finds exactly the items of the view's blocks: the result
   is the first match scanning blocks newest first and each block in order; a hit comes from a
   block of the view (with that block's number for receipts); a miss means no block of the view
   has an item with that hash. *)
Theorem C20_lookup_exact : forall (v : chain) (h : N),
  (tx_by_hash v h = find_tx (flat_map e_items v) h /\
   (forall t, tx_by_hash v h = Some t ->
      exists e it, In e v /\ In it (e_items e) /\ it_hash it = h /\ it_tx it = t) /\
   (tx_by_hash v h = None <-> forall e it, In e v -> In it (e_items e) -> it_hash it <> h)) /\
  ((forall x n, rc_by_hash v h = Some (x, n) ->
      exists e it, In e v /\ e_num e = n /\ In it (e_items e) /\ it_rhash it = h /\ it_rc it = x) /\
   (rc_by_hash v h = None <-> forall e it, In e v -> In it (e_items e) -> it_rhash it <> h) /\
   (forall e r, v = e :: r -> rc_by_hash v h =
      match find_rc (e_items e) h with Some x => Some (x, e_num e) | None => rc_by_hash r h end)).
Proof. intros v h. split; [exact (tx_lookup_lemma v h)| exact (rc_lookup_lemma v h)]. Qed.
Print Assumptions C20_lookup_exact.

(* Immutability of views, list level.  In the list model a view is a value: nothing a later op
   does can occur in it, so at this level the statement is true by construction (views already
   handed out are kept by every later event of any schedule; taking a snapshot does not disturb
   the store).  The statement with content is the heap-level one at the end of this file:
   C20_heap_writes_fresh_only / C20_view_stable_heap (aliasing of nodes, entries, slices and maps
   is modelled there and the frame invariant is proved). *)
Theorem C20_view_immutable : forall (evs : list ev) (s : cstate),
  exists fresh, c_views (crun s evs) = fresh ++ c_views s.
Proof. exact views_kept. Qed.
Print Assumptions C20_view_immutable.

Theorem C20_snapshot_pure : forall c n ops,
  snd (step c (Snapshot n)) = OSnap (snapshot c n) /\
  fst (run (fst (step c (Snapshot n))) ops) = fst (run c ops).
Proof. intros. exact (proj2 (snapshot_value c n ops)). Qed.
Print Assumptions C20_snapshot_pure.

(* One writer, lock-free readers, Load and CompareAndSwap as separate steps with reader loads
   anywhere in between: the CAS never fails, the published chain is the sequential run of the
   completed writer ops, and every view a reader got is SnapshotForBlock of the chain that was
   published after some prefix of them — so C20_contiguous / C20_snapshot_aligned apply to it. *)
Theorem C20_cas_linearisable : forall evs : list ev,
  single_writer false evs = true ->
  let s := crun cinit evs in
  let done := completed None evs in
  c_cas_failed s = false /\ c_pub s = final done /\
  Forall (fun v => exists k bn, (k <= length done)%nat /\
                               v = snapshot (final (firstn k done)) bn) (c_views s).
Proof. exact cas_lemma. Qed.
Print Assumptions C20_cas_linearisable.

(* ---------- the statements are not vacuous ---------- *)
Definition dA : diff := mkDiff [((5, 1), 7)] [(5, 3)] [] [] [] [] [].
Definition dB : diff := mkDiff [((6, 1), 8)] [] [(6, 40)] [] [(40, 41)] [] [].
Definition itA : item := mkItem 101 1 101 1 dA.
Definition itB : item := mkItem 102 2 102 2 dB.
Definition itC : item := mkItem 103 3 103 3 (mkDiff [((5, 1), 9)] [] [] [(5, 42)] [] [] []).
Definition ex_ops : list op :=
  [ Apply (UBlock (mkUBlock 11 [itA] 0)) 8 0 8 [];
    Apply (UDelta (mkUDelta 11 [itB] 0)) 8 1 8 [(40, 400)];
    Apply (UBlock (mkUBlock 12 [itC] 0)) 9 0 8 [];
    Apply (UBlock (mkUBlock 13 [] 0)) 10 0 8 [];
    Apply UNoChange 10 0 8 [(43, 430)];
    Apply (UBlock (mkUBlock 14 [itA] 0)) 12 0 8 [];         (* gap: rejected *)
    AdvanceTo 9;
    Apply (UBlock (mkUBlock 15 [itA; itB] 0)) 9 0 9 [] ].   (* new round at 9: truncates 10 *)

Example ex_chain_numbers : numbers (final ex_ops) = [9].
Proof. vm_compute. reflexivity. Qed.

Example ex_chain_before_advance : numbers (final (firstn 6 ex_ops)) = [8; 9; 10].
Proof. vm_compute. reflexivity. Qed.

Example ex_gap_rejected :
  nth 5 (snd (run [] ex_ops)) (OAdvance false) = OApply (RErr EGap).
Proof. vm_compute. reflexivity. Qed.

Example ex_snapshot_trimmed : numbers (snapshot (final (firstn 6 ex_ops)) 9) = [9; 10].
Proof. vm_compute. reflexivity. Qed.

(* overlay hypotheses hold on a view with a contract deployed inside it, and the read is non-trivial *)
Definition ex_view : chain := final (firstn 6 ex_ops).
Example ex_overlay_hyps :
  deploy_fresh (map e_diff (upto 10 (rev ex_view))) = true /\
  (exists r, state_at ex_view 10 w_base = inr r /\
             r (QStorage 5 1) = Some 9 /\ r (QNonce 6) = Some 0 /\ r (QClassHash 6) = Some 40 /\
             r (QClassHash 5) = Some 42 /\ r (QClass 40) = Some 400 /\ r (QCasm 40) = Some 41 /\
             r (QStorage 6 2) = Some 0).
Proof. split; [vm_compute; reflexivity|]. eexists. split; [reflexivity|]. vm_compute. repeat split. Qed.

Example ex_lookup : tx_by_hash ex_view 102 = Some 2 /\ rc_by_hash ex_view 103 = Some (3, 9) /\
  tx_by_hash ex_view 999 = None.
Proof. vm_compute. repeat split. Qed.

Example ex_schedule :
  let evs := [WLoad (nth 0 ex_ops (Snapshot 0)); RLoad 8; WCas; RLoad 8;
              WLoad (nth 1 ex_ops (Snapshot 0)); RLoad 8; WCas; RLoad 8] in
  single_writer false evs = true /\
  map (fun v => map (fun e => length (e_items e)) v) (c_views (crun cinit evs)) = [[2%nat]; [1%nat]; [1%nat]; []].
Proof. vm_compute. split; reflexivity. Qed.

(* ====================================================================================== *)
(* Heap level (Heap.v): the same operations over a store of objects addressed by ids, with the
   allocation, the aliasing and the in-place writes of chain_storage.go / sn2core / StateDiff.Merge.
   [hfinal ops] is the heap-level state after any script of ApplyUpdate / AdvanceTo /
   SnapshotForBlock / PreConfirmedStateAt / PreConfirmedStateBeforeIndexAt calls; [abs_ops ops]
   are the list-model operations it stands for; [denote_view h v] is the list-model chain a view
   handle {head, length} denotes in heap h; [ceq] relates chains that differ only in how a storage
   diff is laid out (nested maps vs. one flat first-match-wins list: same writes per contract, in
   the same order). *)

(* (a) Refinement.  After every operation sequence the published chain of the heap-level state
   denotes the chain the list model computes ... *)
Theorem C20_heap_refines : forall ops : list hop,
  ceq (denote_view (hs_heap (hfinal ops)) (hs_cur (hfinal ops))) (final (abs_ops ops)).
Proof. exact heap_refines_lemma. Qed.
Print Assumptions C20_heap_refines.

(* ... and every result (error class / no-op / new chain and affected entry / changed flag / view
   handed out) of every further operation denotes the list model's result. *)
Theorem C20_heap_step_refines : forall (ops : list hop) (o : op),
  out_rel (hs_heap (fst (hstep (hfinal ops) (HOp o)))) (snd (hstep (hfinal ops) (HOp o)))
          (snd (step (final (abs_ops ops)) o)).
Proof. exact heap_step_refines_lemma. Qed.
Print Assumptions C20_heap_step_refines.

(* Reader creation: the overlay (one merged state diff + one merged class map, all fresh objects)
   built by PreConfirmedStateAt / PreConfirmedStateBeforeIndexAt on any view handed out reads as the
   list model's [state_at] / [state_before_index] on the chain that view denotes (so
   C20_overlay_spec etc. apply to it). *)
Theorem C20_heap_reader_refines : forall (ops : list hop) (vi : nat) (b : N),
  let s := hfinal ops in
  match snd (hstep s (HStateAt vi b)) with
  | HOState r => reader_rel (hs_heap (fst (hstep s (HStateAt vi b)))) r
                            (state_at (denote_view (hs_heap s) (nth_view s vi)) b) b
  | _ => False
  end.
Proof. exact heap_reader_lemma. Qed.
Print Assumptions C20_heap_reader_refines.

Theorem C20_heap_reader_before_refines : forall (ops : list hop) (vi : nat) (b i : N),
  let s := hfinal ops in
  match snd (hstep s (HStateBefore vi b i)) with
  | HOState r => reader_rel (hs_heap (fst (hstep s (HStateBefore vi b i)))) r
                            (state_before_index (denote_view (hs_heap s) (nth_view s vi)) b i) b
  | _ => False
  end.
Proof. exact heap_reader_before_lemma. Qed.
Print Assumptions C20_heap_reader_before_refines.

(* (b) The frame invariant, over reachable sets.  In every reachable state, everything reachable
   from the published chain and from every view handed out so far lies below the allocation
   pointer, and that part of the heap refers only to itself ... *)
Theorem C20_heap_views_closed : forall (ops : list hop) (v : view),
  In v (hs_cur (hfinal ops) :: hs_views (hfinal ops)) ->
  below (h_next (hs_heap (hfinal ops))) (oref (fst v)) /\
  closed (h_next (hs_heap (hfinal ops))) (hs_heap (hfinal ops)).
Proof. exact heap_views_closed_lemma. Qed.
Print Assumptions C20_heap_views_closed.

(* ... and every operation (writer or reader) leaves every object below the allocation pointer
   exactly as it was: it writes only to objects it allocated itself. *)
Theorem C20_heap_writes_fresh_only : forall (ops : list hop) (o : hop) (i : oid),
  i < h_next (hs_heap (hfinal ops)) ->
  hget (hs_heap (fst (hstep (hfinal ops) o))) i = hget (hs_heap (hfinal ops)) i.
Proof. exact heap_writes_fresh_only_lemma. Qed.
Print Assumptions C20_heap_writes_fresh_only.

(* Hence: every view handed out at any point (and every chain ever published) denotes, in every
   LATER heap, the same chain as when it was handed out - whatever the poller, head moves and
   readers do afterwards. *)
Theorem C20_view_stable_heap : forall (ops1 ops2 : list hop) (v : view),
  In v (hs_cur (hfinal ops1) :: hs_views (hfinal ops1)) ->
  denote_view (hs_heap (hfinal (ops1 ++ ops2))) v = denote_view (hs_heap (hfinal ops1)) v.
Proof. intros ops1 ops2 v I. exact (proj1 (view_stable_heap_lemma ops1 ops2 v I)). Qed.
Print Assumptions C20_view_stable_heap.

(* ... namely the list model's snapshot of the chain published when SnapshotForBlock was called. *)
Theorem C20_snapshot_stable_heap : forall (ops1 : list hop) (n : N) (ops2 : list hop),
  let v := h_snapshot (hs_heap (hfinal ops1)) (hs_cur (hfinal ops1)) n in
  ceq (denote_view (hs_heap (hfinal (ops1 ++ HOp (Snapshot n) :: ops2))) v) (snapshot (final (abs_ops ops1)) n).
Proof. exact snapshot_stable_lemma. Qed.
Print Assumptions C20_snapshot_stable_heap.

(* The list-model theorems about reachable chains hold for what the heap denotes, e.g. *)
Theorem C20_heap_contiguous : forall ops : list hop,
  let c := denote_view (hs_heap (hfinal ops)) (hs_cur (hfinal ops)) in
  contiguous_from (oldest c) c = true.
Proof. exact heap_contiguous_lemma. Qed.
Print Assumptions C20_heap_contiguous.

Theorem C20_heap_snapshot_aligned : forall (ops : list hop) (hd : N),
  view_aligned hd (denote_view (hs_heap (hfinal ops))
                     (h_snapshot (hs_heap (hfinal ops)) (hs_cur (hfinal ops)) (hd + 1))) = true.
Proof. exact heap_snapshot_aligned_lemma. Qed.
Print Assumptions C20_heap_snapshot_aligned.

(* ---------- the heap-level statements are not vacuous ---------- *)
Definition dS (v : N) : diff := mkDiff [((16, 1), v)] [] [] [] [] [] [7].
Definition hex_ops : list hop :=
  [ HOp (Apply (UBlock (mkUBlock 11 [mkItem 101 1 101 1 (dS 5)] 0)) 3 0 3 [(40, 400)]);
    HOp (Snapshot 3);
    HOp (Apply (UDelta (mkUDelta 11 [mkItem 102 2 102 2 (dS 6)] 0)) 3 1 3 []);   (* same contract again *)
    HOp (Snapshot 3);
    HOp (Apply (UBlock (mkUBlock 12 [] 0)) 4 0 3 []);
    HStateAt 1 4;
    HOp (AdvanceTo 4);
    HOp (Snapshot 4) ].

(* three views are out, of lengths 1, 1 and 1 (after the head advance); the first still reads the
   first write, the second the delta's *)
Example hex_views :
  map (fun v => map (fun e => d_storage (e_diff e)) (denote_view (hs_heap (hfinal hex_ops)) v))
      (rev (hs_views (hfinal hex_ops)))
  = [ [[((16, 1), 5)]]; [[((16, 1), 6); ((16, 1), 5)]]; [[]] ].
Proof. vm_compute. reflexivity. Qed.

(* the delta did NOT copy the class map (no new classes): old and new entry share it by reference *)
Example hex_class_map_shared :
  let h := hs_heap (hfinal hex_ops) in
  map (fun v => map (fun e => p_cls (gpcv h e)) (walk_entries h (fst v) (snd v)))
      (firstn 2 (rev (hs_views (hfinal hex_ops))))
  = [ [Some 0]; [Some 0] ].
Proof. vm_compute. reflexivity. Qed.

(* The heap level CAN express an in-place write to an object a published view reaches (what the
   list model cannot): writing the inner storage map of the first block changes what the first view
   denotes.  The theorems above say the modelled operations never do this. *)
Theorem C20_heap_mutation_expressible : exists (h : heap) (v : view) (i : oid) (o : obj),
  denote_view (hset h i o) v <> denote_view h v.
Proof.
  exists (hs_heap (hfinal (firstn 2 hex_ops))), (nth 0 (hs_views (hfinal (firstn 2 hex_ops))) empty_view),
         7, (OMapN [(1, 99)]).
  vm_compute. discriminate.
Qed.
Print Assumptions C20_heap_mutation_expressible.
