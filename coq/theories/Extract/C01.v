From Coq Require Import Extraction ExtrOcamlBasic NArith ZArith.
From V Require Import C01.Model.
Extraction "c01_model.ml" t_run abs_run t_root t_spec_root t_canon t_get s_run commitment empty_state
  contract_root class_root storage_root bits_of_Z N.of_nat Z.of_N
  t1_run t1_empty t1_dump t1_root_key t1_dirty.
