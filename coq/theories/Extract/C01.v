From Coq Require Import Extraction ExtrOcamlBasic NArith ZArith.
From V Require Import C01.Model.
From V Require Import C01.BitArray.
Extraction "c01_model.ml" t_run abs_run t_root t_spec_root t_canon t_get s_run commitment empty_state
  contract_root class_root storage_root bits_of_Z N.of_nat Z.of_N
  t1_run t1_empty t1_dump t1_root_key t1_dirty
  (* core/trie/bitarray.go and node.go WriteTo/UnmarshalBinary at word / byte level *)
  val bits wfb inrangeb truncate lsbs_from_lsb lsbs msbs rsh lsh append append_bit append_zeros subset
  ba_or ba_and ba_xor ba_eqb oba_eqb ba_equal_msbs ba_common_msbs bit bit_from_lsb ba_is_bit_set
  is_bit_set_from_lsb ba_msb ba_lsb ba_is_empty ba_len ba_cmp set_bit ones zeros set_uint64 new_bit_array
  set_bytes set_felt set_felt251 ba_felt bytes32 ba_write ba_unmarshal encoded_len encoded_string ba_path
  find_first_set_bit node_encode node_decode node_fill N_of_bits.
