From Coq Require Import Extraction ExtrOcamlBasic NArith ZArith.
From V Require Import C01.Model C02.Model.
Extraction "c02_model.ml" tx_hash tx_commitment event_commitment receipt_commitment sd_hash sd_length
  concat_counts gas_prices_hash block_hash block_hash_0134 block_hash_0132 block_hash_post07 block_hash_pre07 tx_commitment_ped event_commitment_ped ver_ge counts_term
  accept_ev push_ev run_ev seal_ev verify_block_hash su_ok classes_ok class_ok class_hash class_key version_felt eps_hash
  diff_applicable casm_ok next_state accept push run term_eqb succession_ok roots_ok block_hash_ok tx_hashes_ok receipts_match new_state empty_chain felt_P
  commitment s_run apply_diff empty_state to_diff N.of_nat Z.of_N.
