(* Extraction of the C03 model. ExtrOcamlBasic only; N / positive / nat stay Coq datatypes. *)
From Coq Require Import Extraction ExtrOcamlBasic NArith ZArith.
From V Require Import C03.Model.
Extraction "c03_model.ml" run_new run_old read_new read_old read_head lookup truth_at c03_ok valid_diffb
  no_noop_zero_write blen st_empty Z.of_N sys_guard sys_guarded_new sys_guarded_old
  crun casm_read casm_head ctruth_at ctruth ans_of casm_ok cvalid clen.
