(* Extraction of the C04 model (includes the C03 definitions it builds on). *)
From Coq Require Import Extraction ExtrOcamlBasic NArith ZArith.
From V Require Import C03.Model C04.Model.
Extraction "c04_model.ml" node_empty store_new_node store_old_node revert_new_node revert_old_node valid_next guard_old
  nstep nrun_new nrun_old obs Z.of_N blen sys_guard.
