(* Extraction of the C05 model. ExtrOcamlBasic only; N / Z / positive / nat stay Coq datatypes. *)
From Coq Require Import Extraction ExtrOcamlBasic NArith ZArith.
From V Require Import C05.Model.
Extraction "c05_model.ml" run exec_crash exec_fault crash_disk batch_counts ops_env ops_fresh cont
  consistent windows_ok recover_ready index_covers mem_covers stores rf_equiv rf_superset reinit
  disk0 rf0 all_fams floor snap_discipline snap_pending N.of_nat Z.of_N.
