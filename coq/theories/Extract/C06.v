(* Extraction of the C06 synchroniser model. ExtrOcamlBasic only; N / Z / positive / nat stay Coq datatypes.
   Compiled by bin/build with the output directory as cwd. *)
From Coq Require Import Extraction ExtrOcamlBasic NArith ZArith.
From V Require Import C06.Model.
Extraction "c06_model.ml" init step run history_ok expected replay linkedb sched run_fair converged
  N.of_nat Z.of_N.
