(* Extraction of the C07 models. ExtrOcamlBasic only; N / Z / positive / nat stay Coq datatypes.
   Compiled by bin/build with the output directory as cwd. *)
From Coq Require Import Extraction ExtrOcamlBasic.
From V Require Import C07.Model.
Extraction "c07_model.ml" model_blob model_get_tx model_get_rc model_all_txs model_all_rcs model_hdr
  build_raw cbor_hdr_enc cbor_hdr_dec serialize parse get_tx get_rc get_pair all_txs all_rcs count to_int
  be64 be64_dec felt_bytes felt_dec bni_key bni_dec bucket_key block_txs_key num_key cbor_uint cbor_uint_dec
  lex_lt has_prefix bytes_eqb bytes_ok
  encode decode decode_all wf_item item_ok ht to_item of_item marshal unmarshal unmarshal_first shape_ok has_type
  shape_by_name shapes key_lt.
