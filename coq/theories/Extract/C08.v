(* Extraction of the C08 model. ExtrOcamlBasic only; N / Z / positive / nat stay Coq datatypes.
   Compiled by bin/build with the output directory as cwd. *)
From Coq Require Import Extraction ExtrOcamlBasic NArith ZArith.
From V Require Import C08.Model.
Extraction "c08_model.ml" w_step w_init w_run db_step db_init db_run op_ok ops_ok handle expected spec_answer deviates
  resolve finality N.of_nat Z.of_N Z.to_N.
