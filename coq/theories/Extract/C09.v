(* Extraction of the C09 model. ExtrOcamlBasic only; N / Z / positive / nat stay Coq datatypes.
   (Z.of_N is extracted only because oracle/common.ml mentions the type z.) *)
From Coq Require Import Extraction ExtrOcamlBasic ZArith.
From V Require Import C09.Model.
Extraction "c09_model.ml" step run init_state filter_spec cache_fresh_b disk_bad_kind disk_ok_b guarded pages
  member_exact bkey_eqb lookup_window cand_item do_query_pre do_rpc_events walk_blocks
  filter_spec_pre pre_start range_blocks resolve_bid
  page_chunk_ok page_empty_ok page_progress_ok pages_ok page_count_ok page_bound Z.of_N.
