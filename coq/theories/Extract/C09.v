(* Extraction of the C09 model. ExtrOcamlBasic only; N / Z / positive / nat stay Coq datatypes.
   (Z.of_N is extracted only because oracle/common.ml mentions the type z.) *)
From Coq Require Import Extraction ExtrOcamlBasic ZArith.
From V Require Import C09.Model.
Extraction "c09_model.ml" step run init_state filter_spec cache_fresh_b disk_bad_kind disk_ok_b guarded pages
  member_exact bkey_eqb lookup_window cand_item do_query_pre do_rpc_events walk_blocks Z.of_N.
