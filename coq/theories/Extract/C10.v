From Coq Require Import Extraction ExtrOcamlBasic NArith ZArith.
From V Require Import C10.Model.
Extraction "c10_model.ml" h_run h_root h_canon h_get h_prove2 h_prove1 h_verify2 h_verify1
  set_of2 set_of1 heqb qhash phash
  h_range_proof2 h_range2 h_range_proof1 h_range1 h_range2_cert z_rpc_slot
  z_verify2 z_verify1 z_verifyW z_erase_set z_of_path bits_of_Z not_forged result_is N.of_nat Z.of_N.
