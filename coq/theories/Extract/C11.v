(* Extraction of the C11 model. ExtrOcamlBasic only; nat / N / Z / positive / ascii / string stay Coq datatypes.
   Compiled by bin/build with the output directory as cwd. *)
From Coq Require Import Extraction ExtrOcamlBasic Ascii.
From V Require Import C11.Model.
Extraction "c11_model.ml" handle spec_handle consistent grammar_ok dev_batch_window
  dev_non_object dev_ill_typed dev_null_id dev_notif_error no_deviation
  resp_wellformed resp_correlated codes calls_once spec_ok obs_eqb norm_resp
  coerce_go zero_go run_echo optional_tail ascii_of_N N_of_ascii
  parse_first parse is_batch input_of_bytes print json_wf max_depth batch_window json_eqb.
