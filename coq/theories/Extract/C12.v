(* Extraction of the C12 model. ExtrOcamlBasic only; N / Z / positive / nat stay Coq datatypes.
   Compiled by bin/build with the output directory as cwd. *)
From Coq Require Import Extraction ExtrOcamlBasic.
From V Require Import C12.Model.
Extraction "c12_model.ml" step step_x init_state ok_input disciplined audit audit_has no_double_vote all_actions
  decisions_agree f_of q_of
  process_wal_x process_sync_x call_step_x call_inputs call_events call_impl_events ok_call disciplined_calls
  wentry_input wal_of_action wlog_of wal_written replay_wal replay_actions wal_ok_input wal_disciplined
  st_sim_b acts_eqb wal_replay_same.
