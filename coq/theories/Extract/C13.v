(* Extraction of the C13 driver model (and the C12 state machine it runs). ExtrOcamlBasic only;
   N / Z / positive / nat stay Coq datatypes.  Compiled by bin/build with the output directory as cwd. *)
From Coq Require Import Extraction ExtrOcamlBasic NArith ZArith.
From V Require Import C12.Model C13.Model.
Extraction "c13_model.ml" lifetime recover crash_at resume_height verdict flat load
  flush_before_visible no_conflict consecutive_from commits_in logged_first init_state
  good_run life_disc replay_covers at_or_above live_good
  plain_run live_plain fault_outcome end_disk stop_ok log_covers_visible prunes_follow_cb clean_when_visible
  logged_state entries_of replay_quiet wal_at pruned_upto st_sim_b
  N.of_nat Z.of_N.
