(* Extraction of the C14 WAL model. ExtrOcamlBasic only; N / positive / nat stay Coq datatypes. *)
From Coq Require Import Extraction ExtrOcamlBasic ZArith.
From V Require Import C14.Frame C14.Model.
Extraction "c14_model.ml" run run_res st0 step open load live reopen_obs recover_ok no_revive_ok
  covered prune_bound is_live entries maxprune cleanup_interval
  (* the byte-level framing (Frame.v) *)
  Frame.encode Frame.encode_closed Frame.trailer Frame.decode_full Frame.cut_view Frame.boundary
  Frame.layout Frame.cut_items Frame.crc32c Frame.pebble_crc Frame.nlen file_of_bytes
  Z.of_N. (* Z.of_N only so that oracle/common.ml's z helpers type-check *)
