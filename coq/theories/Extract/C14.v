(* Extraction of the C14 WAL model. ExtrOcamlBasic only; N / positive / nat stay Coq datatypes. *)
From Coq Require Import Extraction ExtrOcamlBasic ZArith.
From V Require Import C14.Model.
Extraction "c14_model.ml" run run_res st0 step open load live reopen_obs recover_ok no_revive_ok
  covered prune_bound is_live entries maxprune cleanup_interval
  Z.of_N. (* Z.of_N only so that oracle/common.ml's z helpers type-check *)
