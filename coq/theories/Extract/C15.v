(* Extraction of the C15 models. ExtrOcamlBasic only; N / Z / positive / nat / ascii stay Coq datatypes.
   Compiled by bin/build with the output directory as cwd. *)
From Coq Require Import Extraction ExtrOcamlBasic Ascii.
From V Require Import C15.Model.
Extraction "c15_model.ml" run_spec run_mem first_shape all_shapes in_contract_strict s_init m_init upper_bound
  ascii_of_N N_of_ascii.
