(* Extraction of the C16 model. ExtrOcamlBasic only; N / Z / positive / nat stay Coq datatypes.
   Compiled by bin/build with the output directory as cwd. *)
From Coq Require Import Extraction ExtrOcamlBasic NArith ZArith.
From V Require Import C16.Model.
Extraction "c16_model.ml" on_new_block on_new_l1_head after_prune prune_floor seed_floor floor_of raise_to
  bound_ok min_age_ok find_oldest sample_height apply_batches prune_plan plan_oldest_kept interrupted
  oldest pruned set_block set_window can_revert can_extend answers all_accs all_fams needs
  read_old read_new last_upd state_served store_bits full_store to_Z to_nat' N.of_nat Z.of_N.
