(* Extraction of the C16 model. ExtrOcamlBasic only; N / Z / positive / nat stay Coq datatypes.
   Compiled by bin/build with the output directory as cwd. *)
From Coq Require Import Extraction ExtrOcamlBasic NArith ZArith.
From V Require Import C16.Model.
Extraction "c16_model.ml" on_new_block on_new_l1_head after_prune prune_floor seed_floor floor_of raise_to
  bound_ok min_age_ok find_oldest sample_height apply_batches prune_plan plan_oldest_kept interrupted
  oldest pruned set_block set_window can_revert can_extend answers all_accs all_fams needs
  read_old read_new last_upd state_served store_bits full_store to_Z to_nat' N.of_nat Z.of_N
  (* the history-pruner migration (C16/Migrate.v) *)
  mig_run mig_plan next_blob run_floor sched_ok sched_exact run_pre restage mig_final full_mstore
  mapply_batches summary_tag mig_floor_ok compute_floor pure_floor setup2_seed_unguarded start_of eff_sp
  scr_empty oldest_retained.
