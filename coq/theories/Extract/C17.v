(* Extraction of the C17 model. ExtrOcamlBasic only; N / Z / positive / nat stay Coq datatypes.
   Compiled by bin/build with the output directory as cwd. *)
From Coq Require Import Extraction ExtrOcamlBasic NArith ZArith.
From V Require Import C17.Model.
Extraction "c17_model.ml" init step run env_step env_ok all_on commit_fin head_spec expected head_ok
  obs_of obs_spec_ok obs_never_ok obs_mono_ok sys_trace fw_real fw_drop_removed decode canon_of N.of_nat Z.of_N.
