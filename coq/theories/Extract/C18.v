(* Extraction of the C18 models. ExtrOcamlBasic only; N / positive / nat stay Coq datatypes. *)
From Coq Require Import Extraction ExtrOcamlBasic ZArith.
From V Require Import C18.Model.
Extraction "c18_model.ml" run_boot boot_end run_schedule applied_after_done invocations applied_events
  is_nil_ctx bits_of target_version opt_out_attempt beyond_registry vcontains
  bt_step bt_complete bt_migration commit_ranges preserved content acc_old acc_new wf_old no_empty_range get_first
  sdl_migrate sdl_done
  Z.of_N (* only so that the shared oracle glue finds the type z *).
