(* Extraction of the C18 models. ExtrOcamlBasic only; N / positive / nat stay Coq datatypes. *)
From Coq Require Import Extraction ExtrOcamlBasic ZArith.
From V Require Import C18.Model.
Extraction "c18_model.ml" run_boot boot_end run_schedule run_schedule_v applied_after_done invocations applied_events
  is_nil_ctx bits_of target_version opt_out_attempt beyond_registry vcontains
  bt_step bt_complete bt_migration commit_ranges preserved content acc_old acc_new wf_old no_empty_range get_first
  sdl_migrate sdl_done
  sdl_attempt_ok sdl_apply sdl_run sdl_attempts_ok sdl_trace sdl_commits sdl_ck_ok sdl_wf sdl_uninterrupted
  sdl_complete sdl_prepare sdl_step sdl_migration sdl_tok_ok
  hs_attempt_ok hs_apply hs_run hs_attempts_ok hs_trace hs_commits hs_wipe hs_complete hs_uninterrupted
  hs_legacy_view hs_new_view hs_consistent hs_wiped hs_ok hs_step hs_migration hs_tok_ok node_registry
  Z.of_N (* only so that the shared oracle glue finds the type z *).
