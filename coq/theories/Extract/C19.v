(* Extraction of the C19 model. ExtrOcamlBasic only; N / positive / nat / ascii stay Coq datatypes.
   Compiled by bin/build with the output directory as cwd. *)
From Coq Require Import Extraction ExtrOcamlBasic Ascii List ZArith.
From V Require Import C19.Model.
Extraction "c19_model.ml" uvarint uv_dec pad unpad proto_shards depth merkle_new mverify
  leaf_open leaf_close node_open node_mid node_close leaf_pre node_pre
  new_sched validate_origin peer_for_shard shard_index_for_publisher total_shards
  encode mk_units create construct mask_units count_true validate v_init same_shard delivered_ok
  term_eq_dec sigt_eq_dec t_sign t_sig_ok ideal_recover split
  code_copy_nonce ascii_of_N N_of_ascii Z.of_N from_proto from_proto_before_fix wire_wf.
