(* Extraction of the C20 model. ExtrOcamlBasic only; N / positive / nat stay Coq datatypes.
   Compiled by bin/build with the output directory as cwd. *)
From Coq Require Import Extraction ExtrOcamlBasic ZArith.
From V Require Import C20.Model.
Extraction "c20_model.ml" step run snapshot state_at state_before_index tx_by_hash rc_by_hash
  apply_diffs layer_of upto before before_layers tx_layers before_tx_layers ldiff deploy_fresh view_aligned contiguous_from
  oldest tip numbers is_lastupd empty_diff merge cnorm crun cinit single_writer completed
  hstep hrun hinit nth_view denote_view denote_entry denote_diff hget gouter gmap garr gcls gpcv sl_cells
  Z.of_N.
