#include <stdlib.h>
#include <stdio.h>
static void die(const char *s) { fprintf(stderr, "verif cstub: %s called\n", s); abort(); }
void compileSierraToCasm(void) { die("compileSierraToCasm"); }
void freeCstr(void) { die("freeCstr"); }
