/* Stub symbols for the Rust VM library so that packages importing juno/vm link without it.
   None of the checks may reach them: they abort. */
#include <stdlib.h>
#include <stdio.h>
static void die(const char *s) { fprintf(stderr, "verif cstub: %s called\n", s); abort(); }
void cairoVMCall(void) { die("cairoVMCall"); }
void cairoVMExecute(void) { die("cairoVMExecute"); }
void setVersionedConstants(void) { die("setVersionedConstants"); }
void freeString(void) { die("freeString"); }
