// Package chain builds synthetic but fully valid juno chains: a "sequencer" Blockchain on a memory
// database finalises generated blocks (juno computes hashes, commitments and roots), and the
// resulting (block, state update, classes) triples can be pushed into any other node through
// SanityCheckNewHeight + Store exactly as the synchroniser does. Shared by the history-based checks.
package chain

import (
	"fmt"
	"math/big"

	"github.com/NethermindEth/juno/blockchain"
	"github.com/NethermindEth/juno/blockchain/networks"
	"github.com/NethermindEth/juno/core"
	"github.com/NethermindEth/juno/core/felt"
	"github.com/NethermindEth/juno/db"
	"github.com/NethermindEth/juno/db/memory"
	_ "github.com/NethermindEth/juno/encoder/registry"
)

func F(x uint64) *felt.Felt { f := felt.FromUint64[felt.Felt](x); return &f }

// SierraClass builds the minimal Sierra class number id; its class hash is juno's own SierraClass.Hash().
func SierraClass(id uint64) *core.SierraClass {
	return &core.SierraClass{
		Abi: "[]", AbiHash: F(7000 + id), ProgramHash: F(8000 + id), SemanticVersion: "0.1.0",
		Program:  []felt.Felt{*F(id)},
		Compiled: &core.CasmClass{Bytecode: []felt.Felt{*F(id)}, CompilerVersion: "2.0.0", Prime: big.NewInt(0)},
	}
}

func SierraHash(id uint64) *felt.Felt {
	h, err := SierraClass(id).Hash()
	if err != nil {
		panic(err)
	}
	return &h
}

// Ev is one event emitted by the transaction at index Tx of the block.
type Ev struct {
	From uint64
	Keys []uint64
	Data []uint64
}

// BlockSpec describes the content of a block in small integers; everything is turned into felts.
type BlockSpec struct {
	Version   string // protocol version, default 0.14.0
	Timestamp uint64
	Deploy    map[uint64]uint64            // address -> class hash
	Replace   map[uint64]uint64            // address -> class hash
	Nonces    map[uint64]uint64            // address -> nonce
	Storage   map[uint64]map[uint64]uint64 // address -> slot -> value (0 = write zero)
	DeclareV0 []uint64                     // cairo0 class hashes
	DeclareV1 map[uint64]uint64            // sierra class id -> declared compiled (casm) class hash; class hash = SierraHash(id)
	Migrate   map[uint64]uint64            // sierra class id -> new compiled class hash (MigratedClasses)
	Txs       [][]Ev                       // one invoke transaction per entry, with its events
	Salt      uint64                       // makes otherwise identical blocks differ (sequencer address)
}

type Built struct {
	Block   *core.Block
	Update  *core.StateUpdate
	Classes map[felt.Felt]core.ClassDefinition
	Commit  *core.BlockCommitments
}

type Node struct {
	DB db.KeyValueStore
	BC *blockchain.Blockchain
}

func NewNode(database db.KeyValueStore, newState bool, opts ...blockchain.Option) *Node {
	if database == nil {
		database = memory.New()
	}
	all := append([]blockchain.Option{blockchain.WithNewState(newState)}, opts...)
	return &Node{DB: database, BC: blockchain.New(database, &networks.Sepolia, all...)}
}

// Reopen creates a fresh Blockchain over the same database (a restart).
func (n *Node) Reopen(newState bool, opts ...blockchain.Option) *Node {
	return NewNode(n.DB, newState, opts...)
}

func (s *BlockSpec) diff() *core.StateDiff {
	d := &core.StateDiff{
		StorageDiffs:      map[felt.Felt]map[felt.Felt]*felt.Felt{},
		Nonces:            map[felt.Felt]*felt.Felt{},
		DeployedContracts: map[felt.Felt]*felt.Felt{},
		DeclaredV1Classes: map[felt.Felt]*felt.Felt{},
		ReplacedClasses:   map[felt.Felt]*felt.Felt{},
	}
	for a, c := range s.Deploy {
		d.DeployedContracts[*F(a)] = F(c)
	}
	for a, c := range s.Replace {
		d.ReplacedClasses[*F(a)] = F(c)
	}
	for a, n := range s.Nonces {
		d.Nonces[*F(a)] = F(n)
	}
	for a, m := range s.Storage {
		mm := map[felt.Felt]*felt.Felt{}
		for k, v := range m {
			mm[*F(k)] = F(v)
		}
		d.StorageDiffs[*F(a)] = mm
	}
	for _, c := range s.DeclareV0 {
		d.DeclaredV0Classes = append(d.DeclaredV0Classes, F(c))
	}
	for id, casm := range s.DeclareV1 {
		d.DeclaredV1Classes[*SierraHash(id)] = F(casm)
	}
	if len(s.Migrate) > 0 {
		d.MigratedClasses = map[felt.SierraClassHash]felt.CasmClassHash{}
		for id, casm := range s.Migrate {
			d.MigratedClasses[felt.SierraClassHash(*SierraHash(id))] = felt.CasmClassHash(*F(casm))
		}
	}
	return d
}

func (s *BlockSpec) txs(n uint64) ([]core.Transaction, []*core.TransactionReceipt) {
	txs := make([]core.Transaction, 0, len(s.Txs))
	rcs := make([]*core.TransactionReceipt, 0, len(s.Txs))
	for i, evs := range s.Txs {
		tx := &core.InvokeTransaction{
			Version:       new(core.TransactionVersion).SetUint64(3),
			SenderAddress: F(77),
			Nonce:         F(n*1000 + uint64(i)*16 + s.Salt&0xf),
			CallData:      []felt.Felt{*F(uint64(i))},
			ResourceBounds: map[core.Resource]core.ResourceBounds{
				core.ResourceL1Gas:     {MaxAmount: 1, MaxPricePerUnit: F(1)},
				core.ResourceL2Gas:     {MaxAmount: 1, MaxPricePerUnit: F(1)},
				core.ResourceL1DataGas: {MaxAmount: 1, MaxPricePerUnit: F(1)},
			},
			TransactionSignature: []felt.Felt{*F(1), *F(2)},
		}
		hv, err := core.TransactionHash(tx, &networks.Sepolia)
		if err != nil {
			panic(err)
		}
		h := &hv
		tx.TransactionHash = h
		rc := &core.TransactionReceipt{TransactionHash: h, Fee: F(uint64(i) + 1), FeeUnit: core.STRK,
			ExecutionResources: &core.ExecutionResources{}}
		for _, e := range evs {
			ev := &core.Event{From: F(e.From)}
			for _, k := range e.Keys {
				ev.Keys = append(ev.Keys, *F(k))
			}
			for _, x := range e.Data {
				ev.Data = append(ev.Data, *F(x))
			}
			rc.Events = append(rc.Events, ev)
		}
		txs = append(txs, tx)
		rcs = append(rcs, rc)
	}
	return txs, rcs
}

// Finalise appends the block described by spec on top of the node's head and returns the triple juno
// produced (hash, commitments, roots filled in by juno).
func (n *Node) Finalise(spec *BlockSpec) (*Built, error) {
	var number uint64
	parent := &felt.Zero
	oldRoot := &felt.Zero
	if h, err := n.BC.HeadsHeader(); err == nil {
		number = h.Number + 1
		parent = h.Hash
		oldRoot = h.GlobalStateRoot
	}
	ver := spec.Version
	if ver == "" {
		ver = core.Ver0_14_0.String()
	}
	txs, rcs := spec.txs(number)
	var evCount uint64
	for _, r := range rcs {
		evCount += uint64(len(r.Events))
	}
	block := &core.Block{
		Header: &core.Header{
			ParentHash:       parent,
			Number:           number,
			SequencerAddress: F(1000 + spec.Salt),
			Timestamp:        spec.Timestamp,
			TransactionCount: uint64(len(txs)),
			EventCount:       evCount,
			EventsBloom:      core.EventsBloom(rcs),
			L1GasPriceETH:    F(1),
			L1GasPriceSTRK:   F(1),
			L1DataGasPrice:   &core.GasPrice{PriceInFri: F(1), PriceInWei: F(1)},
			L2GasPrice:       &core.GasPrice{PriceInFri: F(1), PriceInWei: F(1)},
			L1DAMode:         core.Blob,
			ProtocolVersion:  ver,
		},
		Transactions: txs,
		Receipts:     rcs,
	}
	su := &core.StateUpdate{OldRoot: oldRoot, StateDiff: spec.diff()}
	classes := map[felt.Felt]core.ClassDefinition{}
	for _, c := range spec.DeclareV0 {
		classes[*F(c)] = &core.DeprecatedCairoClass{Abi: []byte("[]"), Program: "p"}
	}
	for id := range spec.DeclareV1 {
		classes[*SierraHash(id)] = SierraClass(id)
	}
	if err := n.BC.Finalise(block, su, classes, nil); err != nil {
		return nil, err
	}
	cm, err := n.BC.BlockCommitmentsByNumber(number)
	if err != nil {
		return nil, fmt.Errorf("commitments: %w", err)
	}
	return &Built{Block: block, Update: su, Classes: classes, Commit: cm}, nil
}

// Store pushes a built block into this node the way sync does: SanityCheckNewHeight then Store.
func (n *Node) Store(b *Built) error {
	cm, err := n.BC.SanityCheckNewHeight(b.Block, b.Update, b.Classes)
	if err != nil {
		return fmt.Errorf("sanity: %w", err)
	}
	return n.BC.Store(b.Block, cm, b.Update, b.Classes)
}
