// C01 correspondence, stage "bitarray": the REAL trie.BitArray (core/trie/bitarray.go), its copy
// trieutils.BitArray (core/trie2/trieutils/bitarray.go, same word algorithms, different codec) and
// trie.Node.WriteTo / UnmarshalBinary (core/trie/node.go) against the extracted word-level model
// coq/theories/C01/BitArray.v. Every case is one request line of the oracle ("ba <op> <args>",
// "nenc ...", "ndec ..."): the same line is parsed here and executed on the real code, the two
// results are compared as text (len, words / bytes / booleans), so a replay is just the line.
package main

import (
	"bytes"
	"encoding/hex"
	"fmt"
	"math/big"
	"strconv"
	"strings"

	"github.com/NethermindEth/juno/core/felt"
	"github.com/NethermindEth/juno/core/trie"
	"github.com/NethermindEth/juno/core/trie2/trieutils"
	"verifharness/hx"
)

// ---------- the method set shared by the two BitArray types ----------
type baI[T any] interface {
	*T
	Len() uint8
	Bytes() [32]byte
	LSBsFromLSB(x *T, n uint8) *T
	LSBs(x *T, n uint8) *T
	MSBs(x *T, n uint8) *T
	Rsh(x *T, n uint8) *T
	Lsh(x *T, n uint8) *T
	Append(x, y *T) *T
	AppendBit(x *T, bit uint8) *T
	AppendZeros(x *T, n uint8) *T
	Subset(x *T, s, e uint8) *T
	Or(x, y *T) *T
	And(x, y *T) *T
	Xor(x, y *T) *T
	Equal(x *T) bool
	EqualMSBs(x *T) bool
	CommonMSBs(x, y *T) *T
	Bit(n uint8) uint8
	BitFromLSB(n uint8) uint8
	IsBitSet(n uint8) bool
	IsBitSetFromLSB(n uint8) bool
	MSB() uint8
	LSB() uint8
	IsEmpty() bool
	Cmp(x *T) int
	SetBit(bit uint8) *T
	Ones(n uint8) *T
	Zeros(n uint8) *T
	SetUint64(l uint8, d uint64) *T
	SetBytes(l uint8, d []byte) *T
	SetFelt(l uint8, f *felt.Felt) *T
	SetFelt251(f *felt.Felt) *T
	Felt() felt.Felt
	Set(x *T) *T
	Copy() T
	UnmarshalBinary([]byte) error
}

type baImpl[T any, P baI[T]] struct {
	name  string                 // "trie" | "trieutils"
	class string                 // violation class prefix
	raw   func(words [32]byte) P // a 255-bit-long array with exactly these 256 word bits (no truncation)
}

// (len, words) as text: L:W3.W2.W1.W0, words hex without leading zeros
func showBA(l uint8, b [32]byte) string {
	w := func(i int) string {
		var v uint64
		for _, x := range b[i : i+8] {
			v = v<<8 | uint64(x)
		}
		return strconv.FormatUint(v, 16)
	}
	return fmt.Sprintf("%d:%s.%s.%s.%s", l, w(0), w(8), w(16), w(24))
}

func parseBAText(s string) (uint8, [32]byte) {
	var out [32]byte
	f := strings.SplitN(s, ":", 2)
	l, err := strconv.Atoi(f[0])
	if err != nil || len(f) != 2 {
		hx.Fatalf("bad bit array %q", s)
	}
	ws := strings.Split(f[1], ".")
	if len(ws) != 4 {
		hx.Fatalf("bad bit array %q", s)
	}
	for i, h := range ws {
		v, err := strconv.ParseUint(h, 16, 64)
		if err != nil {
			hx.Fatalf("bad word in %q", s)
		}
		for k := 7; k >= 0; k-- {
			out[i*8+k] = byte(v)
			v >>= 8
		}
	}
	return uint8(l), out
}

func wfText(l uint8, b [32]byte) string {
	v := new(big.Int).SetBytes(b[:])
	if v.BitLen() <= int(l) {
		return "t"
	}
	return "f"
}

func obsBA[T any, P baI[T]](p P) string {
	b := p.Bytes()
	return "ba " + showBA(p.Len(), b) + " " + wfText(p.Len(), b)
}

// build an array with exactly this length and these words through exported operations only:
// raw(words) has len 255 and untruncated words; Or(Zeros(l), raw) takes the length of its first argument
func (im baImpl[T, P]) mk(s string) P {
	l, w := parseBAText(s)
	r := im.raw(w)
	if r == nil {
		return nil
	}
	z := P(new(T)).Zeros(l)
	res := P(P(new(T)).Or(z, r))
	if got := showBA(res.Len(), res.Bytes()); got != showBA(l, w) {
		return nil
	}
	return res
}

func boolText(b bool) string {
	if b {
		return "b t"
	}
	return "b f"
}

func u8(s string) uint8 {
	v, err := strconv.Atoi(s)
	if err != nil || v < 0 || v > 255 {
		hx.Fatalf("bad uint8 %q", s)
	}
	return uint8(v)
}

func bytesOfHex(s string) []byte {
	if s == "-" {
		return []byte{}
	}
	b, err := hex.DecodeString(s)
	if err != nil {
		hx.Fatalf("bad hex %q", s)
	}
	return b
}

func hexOfBytes(b []byte) string {
	if len(b) == 0 {
		return "-"
	}
	return hex.EncodeToString(b)
}

func feltOfHex(s string) *felt.Felt {
	v, ok := new(big.Int).SetString(s, 16)
	if !ok {
		hx.Fatalf("bad felt %q", s)
	}
	var buf [32]byte
	v.FillBytes(buf[:])
	f := new(felt.Felt)
	if err := f.SetBytesCanonical(buf[:]); err != nil {
		hx.Fatalf("felt %q is not canonical: %v", s, err)
	}
	return f
}

func hexOfFelt(f *felt.Felt) string {
	b := f.Bytes()
	return new(big.Int).SetBytes(b[:]).Text(16)
}

// ops where the receiver may be the first argument (Go mutates the receiver and returns it)
var aliasOps = map[string]bool{"lsbs_from_lsb": true, "lsbs": true, "msbs": true, "rsh": true, "lsh": true, "append": true,
	"append_bit": true, "append_zeros": true, "subset": true, "or": true, "and": true, "copy": true}

// exec runs one "ba" request on the real implementation. alias = use (a copy of) the first argument as receiver.
func (im baImpl[T, P]) exec(toks []string, alias bool) (res string) {
	var bad bool
	defer func() {
		if r := recover(); r != nil {
			res = fmt.Sprintf("panic %v", r)
		}
		if bad {
			res = "construct-failed"
		}
	}()
	op, a := toks[0], toks[1:]
	arg := func(i int) P {
		p := im.mk(a[i])
		if p == nil {
			bad = true
			return P(new(T))
		}
		return p
	}
	recv := func(x P) P {
		if alias {
			return x
		}
		return P(new(T))
	}
	out := func(p *T) string {
		if bad {
			return "construct-failed"
		}
		return obsBA[T, P](P(p))
	}
	switch op {
	case "lsbs_from_lsb":
		x := arg(0)
		return out(recv(x).LSBsFromLSB(x, u8(a[1])))
	case "lsbs":
		x := arg(0)
		return out(recv(x).LSBs(x, u8(a[1])))
	case "msbs":
		x := arg(0)
		return out(recv(x).MSBs(x, u8(a[1])))
	case "rsh":
		x := arg(0)
		return out(recv(x).Rsh(x, u8(a[1])))
	case "lsh":
		x := arg(0)
		return out(recv(x).Lsh(x, u8(a[1])))
	case "append":
		x, y := arg(0), arg(1)
		return out(recv(x).Append(x, y))
	case "append_bit":
		x := arg(0)
		return out(recv(x).AppendBit(x, u8(a[1])))
	case "append_zeros":
		x := arg(0)
		return out(recv(x).AppendZeros(x, u8(a[1])))
	case "subset":
		x := arg(0)
		return out(recv(x).Subset(x, u8(a[1]), u8(a[2])))
	case "or":
		x, y := arg(0), arg(1)
		return out(recv(x).Or(x, y))
	case "and":
		x, y := arg(0), arg(1)
		return out(recv(x).And(x, y))
	case "xor": // receiver has length a[0]
		r := P(P(new(T)).Zeros(u8(a[0])))
		x, y := arg(1), arg(2)
		return out(r.Xor(x, y))
	case "equal":
		var x, y P
		if a[0] != "nil" {
			x = arg(0)
		}
		if a[1] != "nil" {
			y = arg(1)
		}
		if bad {
			return "construct-failed"
		}
		return boolText(x.Equal(y))
	case "equal_msbs":
		x, y := arg(0), arg(1)
		return boolText(x.EqualMSBs(y))
	case "common_msbs":
		x, y := arg(0), arg(1)
		return out(P(new(T)).CommonMSBs(x, y))
	case "bit":
		return fmt.Sprintf("n %d", arg(0).Bit(u8(a[1])))
	case "bit_from_lsb":
		return fmt.Sprintf("n %d", arg(0).BitFromLSB(u8(a[1])))
	case "is_bit_set":
		return boolText(arg(0).IsBitSet(u8(a[1])))
	case "is_bit_set_from_lsb":
		return boolText(arg(0).IsBitSetFromLSB(u8(a[1])))
	case "msb":
		return fmt.Sprintf("n %d", arg(0).MSB())
	case "lsb":
		return fmt.Sprintf("n %d", arg(0).LSB())
	case "is_empty":
		return boolText(arg(0).IsEmpty())
	case "len":
		return fmt.Sprintf("n %d", arg(0).Len())
	case "cmp":
		x, y := arg(0), arg(1)
		return fmt.Sprintf("n %d", x.Cmp(y))
	case "set_bit":
		return out(P(new(T)).SetBit(u8(a[0])))
	case "ones":
		return out(P(new(T)).Ones(u8(a[0])))
	case "zeros":
		return out(P(new(T)).Zeros(u8(a[0])))
	case "set_uint64":
		r := arg(0)
		d, err := strconv.ParseUint(a[2], 16, 64)
		hx.Must(err)
		return out(r.SetUint64(u8(a[1]), d))
	case "new_bit_array":
		d, err := strconv.ParseUint(a[1], 16, 64)
		hx.Must(err)
		return out(P(new(T)).SetUint64(u8(a[0]), d))
	case "set_bytes":
		return out(P(new(T)).SetBytes(u8(a[0]), bytesOfHex(a[1])))
	case "set_felt":
		return out(P(new(T)).SetFelt(u8(a[0]), feltOfHex(a[1])))
	case "set_felt251":
		return out(P(new(T)).SetFelt251(feltOfHex(a[0])))
	case "felt":
		f := arg(0).Felt()
		return "h " + hexOfFelt(&f)
	case "bytes":
		b := arg(0).Bytes()
		return "x " + hexOfBytes(b[:])
	case "copy":
		x := arg(0)
		if alias {
			c := x.Copy()
			return out(&c)
		}
		return out(P(new(T)).Set(x))
	}
	hx.Fatalf("bitarray stage: unknown op %q", op)
	return ""
}

// the codec of core/trie only (trieutils has another wire format)
func execTrieCodec(toks []string) (res string) {
	defer func() {
		if r := recover(); r != nil {
			res = fmt.Sprintf("panic %v", r)
		}
	}()
	op, a := toks[0], toks[1:]
	switch op {
	case "write":
		x := trieImpl.mk(a[0])
		var buf bytes.Buffer
		n, err := x.Write(&buf)
		if err != nil || n != buf.Len() {
			return "err"
		}
		return "x " + hexOfBytes(buf.Bytes())
	case "unmarshal":
		x := new(trie.BitArray)
		if err := x.UnmarshalBinary(bytesOfHex(a[0])); err != nil {
			return "err"
		}
		return obsBA[trie.BitArray](x)
	case "encoded_len":
		return fmt.Sprintf("n %d", trieImpl.mk(a[0]).EncodedLen())
	case "encoded_string":
		return "x " + hexOfBytes([]byte(trieImpl.mk(a[0]).EncodedString()))
	case "path":
		k := trieImpl.mk(a[0])
		var p *trie.BitArray
		if a[1] != "nil" {
			p = trieImpl.mk(a[1])
		}
		r := trie.VerifPath(k, p)
		return obsBA[trie.BitArray](&r)
	case "find_first_set_bit":
		return fmt.Sprintf("n %d", trie.VerifFindFirstSetBit(trieImpl.mk(a[0])))
	}
	hx.Fatalf("bitarray stage: unknown codec op %q", op)
	return ""
}

var trieImpl = baImpl[trie.BitArray, *trie.BitArray]{name: "trie", class: "bitarray", raw: func(w [32]byte) *trie.BitArray {
	b := new(trie.BitArray)
	if err := b.UnmarshalBinary(append([]byte{255}, w[:]...)); err != nil {
		return nil // reported as <class>:construct with the case as replay
	}
	return b
}}

var utilImpl = baImpl[trieutils.BitArray, *trieutils.BitArray]{name: "trieutils", class: "bitarray2", raw: func(w [32]byte) *trieutils.BitArray {
	b := new(trieutils.BitArray)
	if err := b.UnmarshalBinary(append(append([]byte{}, w[:]...), 255)); err != nil {
		return nil
	}
	return b
}}

var codecOps = map[string]bool{"write": true, "unmarshal": true, "encoded_len": true, "encoded_string": true, "path": true, "find_first_set_bit": true}

// ---------- node codec ----------
func optFelt(s string) *felt.Felt {
	if s == "nil" {
		return nil
	}
	return feltOfHex(s)
}
func optBA(s string) *trie.BitArray {
	if s == "nil" {
		return nil
	}
	return trieImpl.mk(s)
}
func showOptFelt(f *felt.Felt) string {
	if f == nil {
		return "nil"
	}
	return hexOfFelt(f)
}
func showOptBA(b *trie.BitArray) string {
	if b == nil {
		return "nil"
	}
	return showBA(b.Len(), b.Bytes())
}

func execNode(toks []string) (res string) {
	defer func() {
		if r := recover(); r != nil {
			res = "err" // nil dereference in WriteTo (Left set, Right nil): the model's None
		}
	}()
	switch toks[0] {
	case "nenc":
		n := &trie.Node{Value: optFelt(toks[1]), Left: optBA(toks[2]), Right: optBA(toks[3]), LeftHash: optFelt(toks[4]), RightHash: optFelt(toks[5])}
		var buf bytes.Buffer
		cnt, err := n.WriteTo(&buf)
		if err != nil {
			return "err"
		}
		if cnt != buf.Len() {
			return fmt.Sprintf("x %s (reported %d bytes)", hexOfBytes(buf.Bytes()), cnt)
		}
		return "x " + hexOfBytes(buf.Bytes())
	case "ndec":
		n := &trie.Node{LeftHash: optFelt(toks[1]), RightHash: optFelt(toks[2])}
		if err := n.UnmarshalBinary(bytesOfHex(toks[3])); err != nil {
			return "err"
		}
		return "node " + showOptFelt(n.Value) + " " + showOptBA(n.Left) + " " + showOptBA(n.Right) + " " + showOptFelt(n.LeftHash) + " " + showOptFelt(n.RightHash)
	}
	hx.Fatalf("bitarray stage: unknown node request %q", toks[0])
	return ""
}

// ---------- one case ----------
type baCase struct {
	Impl string `json:"impl"` // trie | trieutils | node
	Line string `json:"line"` // the oracle request
}

// evalBA returns "" or a description of the disagreement; class is the violation class.
func evalBA(or *hx.Oracle, c baCase) (class, what string) {
	rep := or.AskUntil(c.Line, "end")
	if len(rep) != 1 {
		hx.Fatalf("bitarray stage: oracle reply to %q has %d lines", c.Line, len(rep))
	}
	model := rep[0]
	toks := strings.Fields(c.Line)
	switch {
	case c.Impl == "node":
		got := execNode(toks)
		if got != model {
			kind := "encode"
			if toks[0] == "ndec" {
				kind = "decode"
			}
			return "node-codec:" + kind, fmt.Sprintf("%s: core/trie gives %q, model %q", c.Line, got, model)
		}
		return "", ""
	case toks[0] != "ba":
		hx.Fatalf("bitarray stage: bad case line %q", c.Line)
	}
	op := toks[1]
	var got, gotAlias, prefix string
	switch {
	case codecOps[op]:
		if c.Impl != "trie" {
			hx.Fatalf("codec op on %s", c.Impl)
		}
		got, prefix = execTrieCodec(toks[1:]), "bitarray"
	case c.Impl == "trie":
		got, prefix = trieImpl.exec(toks[1:], false), trieImpl.class
		if aliasOps[op] {
			gotAlias = trieImpl.exec(toks[1:], true)
		}
	default:
		got, prefix = utilImpl.exec(toks[1:], false), utilImpl.class
		if aliasOps[op] {
			gotAlias = utilImpl.exec(toks[1:], true)
		}
	}
	if got == "construct-failed" {
		return prefix + ":construct", fmt.Sprintf("%s: an argument could not be built through UnmarshalBinary / Zeros / Or", c.Line)
	}
	if got != model {
		return prefix + ":" + op, fmt.Sprintf("%s (%s): implementation gives %q, model %q", c.Line, c.Impl, got, model)
	}
	if gotAlias != "" && gotAlias != model {
		return prefix + ":alias:" + op, fmt.Sprintf("%s (%s) with the receiver aliasing the first argument gives %q, model %q", c.Line, c.Impl, gotAlias, model)
	}
	return "", ""
}

// ---------- generators ----------
var boundaryLens = []int{0, 1, 63, 64, 65, 127, 128, 129, 191, 192, 193, 250, 251, 252, 255}

func genLen(r *hx.RNG) int {
	if r.Chance(55) {
		return boundaryLens[r.Intn(len(boundaryLens))]
	}
	return r.Intn(256)
}

func genAmount(r *hx.RNG) int { // shift counts / positions: boundaries, word edges +-1, anything
	switch r.Intn(4) {
	case 0:
		return boundaryLens[r.Intn(len(boundaryLens))]
	case 1:
		return []int{0, 1, 2, 62, 63, 64, 65, 66, 126, 127, 128, 129, 130, 190, 191, 192, 193, 194, 253, 254, 255}[r.Intn(21)]
	default:
		return r.Intn(256)
	}
}

func rand256(r *hx.RNG) *big.Int {
	var b [32]byte
	for i := 0; i < 4; i++ {
		v := r.U64()
		for k := 0; k < 8; k++ {
			b[i*8+k] = byte(v >> (8 * k))
		}
	}
	return new(big.Int).SetBytes(b[:])
}

var two256 = new(big.Int).Lsh(big.NewInt(1), 256)

func textOf(l int, v *big.Int) string {
	var b [32]byte
	new(big.Int).Mod(v, two256).FillBytes(b[:])
	return showBA(uint8(l), b)
}

// a (len, words) pair; hist records the shape. Mostly well-formed, sometimes with bits above len.
func genArr(r *hx.RNG, hist map[string]int, tag string) (int, *big.Int) {
	l := genLen(r)
	v := new(big.Int)
	mask := new(big.Int).Sub(new(big.Int).Lsh(big.NewInt(1), uint(l)), big.NewInt(1))
	shape := ""
	switch r.Intn(8) {
	case 0:
		v.Set(mask)
		shape = "all-ones"
	case 1:
		shape = "all-zero"
	case 2:
		if l > 0 {
			v.SetBit(v, r.Intn(l), 1)
		}
		shape = "single-bit"
	case 3: // whole words of ones / zeros
		for i := 0; i < 4; i++ {
			if r.Bool() {
				v.Or(v, new(big.Int).Lsh(new(big.Int).SetUint64(^uint64(0)), uint(64*i)))
			}
		}
		v.And(v, mask)
		shape = "word-pattern"
	default:
		v.And(rand256(r), mask)
		shape = "random"
	}
	if r.Chance(12) { // not well formed: bits above len (reachable through Xor / Or / UnmarshalBinary)
		hi := rand256(r)
		if r.Bool() {
			hi = new(big.Int).Lsh(big.NewInt(1), uint(r.Intn(256)))
		}
		v.Or(v, hi)
		shape = "bits-above-len"
	}
	hist["ba_"+tag+"_shape_"+shape]++
	hist[fmt.Sprintf("ba_"+tag+"_len_%s", lenBucket(l))]++
	return l, v
}

func lenBucket(l int) string {
	for _, b := range boundaryLens {
		if l == b {
			return strconv.Itoa(l)
		}
	}
	return fmt.Sprintf("%d-%d", l/64*64, l/64*64+63)
}

// a second array related to (l, v): shares k leading bits, then diverges / is a prefix / an extension
func genRelated(r *hx.RNG, l int, v *big.Int, hist map[string]int) (int, *big.Int) {
	if l == 0 || r.Chance(25) {
		return genArr(r, hist, "arg2")
	}
	vv := new(big.Int).And(v, new(big.Int).Sub(new(big.Int).Lsh(big.NewInt(1), uint(l)), big.NewInt(1)))
	k := r.Intn(l + 1) // shared prefix length
	if r.Chance(30) {
		k = l
	}
	l2 := genLen(r)
	if r.Chance(40) {
		l2 = l
	}
	if l2 < k {
		k = l2
	}
	pre := new(big.Int).Rsh(vv, uint(l-k)) // the first k bits of x
	res := new(big.Int).Lsh(pre, uint(l2-k))
	if l2 > k {
		tail := new(big.Int).And(rand256(r), new(big.Int).Sub(new(big.Int).Lsh(big.NewInt(1), uint(l2-k)), big.NewInt(1)))
		if r.Chance(50) && k < l { // force divergence right after the shared prefix
			xb := vv.Bit(l - k - 1)
			tail.SetBit(tail, l2-k-1, xb^1)
		}
		res.Or(res, tail)
	}
	hist["ba_arg2_related"]++
	hist[fmt.Sprintf("ba_arg2_len_%s", lenBucket(l2))]++
	return l2, res
}

var feltP, _ = new(big.Int).SetString("800000000000011000000000000000000000000000000000000000000000001", 16)

func genFelt(r *hx.RNG) *big.Int {
	switch r.Intn(6) {
	case 0:
		return new(big.Int)
	case 1:
		return new(big.Int).Sub(feltP, big.NewInt(1))
	case 2:
		return new(big.Int).Lsh(big.NewInt(1), uint(r.Intn(251)))
	default:
		return new(big.Int).Mod(rand256(r), feltP)
	}
}

func genBytes(r *hx.RNG, n int) []byte {
	b := make([]byte, n)
	mode := r.Intn(4)
	for i := range b {
		switch mode {
		case 0:
			b[i] = 0xff
		case 1:
			b[i] = 0
		default:
			b[i] = byte(r.U64())
		}
	}
	return b
}

var amtOps = []string{"lsbs_from_lsb", "lsbs", "msbs", "rsh", "lsh", "append_zeros", "bit", "bit_from_lsb", "is_bit_set", "is_bit_set_from_lsb"}
var unOps = []string{"msb", "lsb", "is_empty", "len", "felt", "bytes", "copy"}

func genBALine(r *hx.RNG, hist map[string]int, op string) string {
	arr := func(tag string) (int, *big.Int, string) {
		l, v := genArr(r, hist, tag)
		return l, v, textOf(l, v)
	}
	switch op {
	case "append", "or", "and", "equal_msbs", "common_msbs", "cmp":
		l, v, x := arr("arg1")
		l2, v2 := genRelated(r, l, v, hist)
		if r.Bool() {
			return fmt.Sprintf("ba %s %s %s", op, textOf(l2, v2), x)
		}
		return fmt.Sprintf("ba %s %s %s", op, x, textOf(l2, v2))
	case "equal":
		l, v, x := arr("arg1")
		if r.Chance(8) {
			return "ba equal nil " + x
		}
		if r.Chance(8) {
			return "ba equal " + x + " nil"
		}
		if r.Chance(3) {
			return "ba equal nil nil"
		}
		if r.Chance(30) {
			return "ba equal " + x + " " + x
		}
		l2, v2 := genRelated(r, l, v, hist)
		return fmt.Sprintf("ba equal %s %s", x, textOf(l2, v2))
	case "xor":
		l, v, x := arr("arg1")
		l2, v2 := genRelated(r, l, v, hist)
		return fmt.Sprintf("ba xor %d %s %s", genLen(r), x, textOf(l2, v2))
	case "subset":
		l, _, x := arr("arg1")
		s, e := genAmount(r), genAmount(r)
		if r.Chance(60) && l > 0 { // a proper window
			s = r.Intn(l)
			e = s + 1 + r.Intn(l-s)
			if r.Chance(15) {
				e = genAmount(r)
			}
		}
		return fmt.Sprintf("ba subset %s %d %d", x, s, e)
	case "append_bit":
		_, _, x := arr("arg1")
		return fmt.Sprintf("ba append_bit %s %d", x, []int{0, 1, 2, 3, 254, 255, r.Intn(256)}[r.Intn(7)])
	case "set_bit":
		return fmt.Sprintf("ba set_bit %d", []int{0, 1, 2, 3, 254, 255, r.Intn(256)}[r.Intn(7)])
	case "ones", "zeros":
		return fmt.Sprintf("ba %s %d", op, genAmount(r))
	case "set_uint64":
		_, _, x := arr("arg1")
		return fmt.Sprintf("ba set_uint64 %s %d %x", x, genAmount(r), genU64(r))
	case "new_bit_array":
		return fmt.Sprintf("ba new_bit_array %d %x", genAmount(r), genU64(r))
	case "set_bytes":
		n := r.Intn(34)
		if r.Chance(10) {
			n = 32 + r.Intn(9)
		}
		hist[fmt.Sprintf("ba_set_bytes_datalen_%d", min(n, 33))]++
		return fmt.Sprintf("ba set_bytes %d %s", genAmount(r), hexOfBytes(genBytes(r, n)))
	case "set_felt":
		return fmt.Sprintf("ba set_felt %d %s", genAmount(r), genFelt(r).Text(16))
	case "set_felt251":
		return fmt.Sprintf("ba set_felt251 %s", genFelt(r).Text(16))
	case "write", "encoded_len", "encoded_string", "find_first_set_bit":
		_, _, x := arr("arg1")
		return fmt.Sprintf("ba %s %s", op, x)
	case "unmarshal":
		return "ba unmarshal " + hexOfBytes(genBAWire(r, hist))
	case "path":
		l, v, x := arr("arg1")
		if r.Chance(15) {
			return "ba path " + x + " nil"
		}
		l2, v2 := genRelated(r, l, v, hist)
		if r.Chance(10) {
			l2 = 255 // parentKey.Len()+1 wraps to 0
		}
		return fmt.Sprintf("ba path %s %s", x, textOf(l2, v2))
	}
	for _, o := range amtOps {
		if o == op {
			_, _, x := arr("arg1")
			return fmt.Sprintf("ba %s %s %d", op, x, genAmount(r))
		}
	}
	for _, o := range unOps {
		if o == op {
			_, _, x := arr("arg1")
			return fmt.Sprintf("ba %s %s", op, x)
		}
	}
	hx.Fatalf("bitarray stage: no generator for %q", op)
	return ""
}

func genU64(r *hx.RNG) uint64 {
	switch r.Intn(5) {
	case 0:
		return 0
	case 1:
		return ^uint64(0)
	case 2:
		return 1 << uint(r.Intn(64))
	default:
		return r.U64()
	}
}

// wire bytes for BitArray.UnmarshalBinary: encodings of generated arrays, cut / extended, raw bytes
func genBAWire(r *hx.RNG, hist map[string]int) []byte {
	switch r.Intn(5) {
	case 0: // arbitrary bytes
		hist["ba_wire_raw"]++
		return genBytes(r, r.Intn(36))
	case 1: // empty
		hist["ba_wire_empty"]++
		return nil
	}
	l, v := genArr(r, hist, "wire")
	var b [32]byte
	new(big.Int).Mod(v, two256).FillBytes(b[:])
	bc := (l + 7) / 8
	w := append([]byte{byte(l)}, b[32-bc:]...)
	switch r.Intn(4) {
	case 0:
		if len(w) > 1 {
			w = w[:len(w)-1-r.Intn(len(w)-1)]
			hist["ba_wire_truncated"]++
		}
	case 1:
		w = append(w, genBytes(r, 1+r.Intn(4))...)
		hist["ba_wire_trailing"]++
	default:
		hist["ba_wire_exact"]++
	}
	return w
}

var allBAOps = []string{"unmarshal", "write", "encoded_len", "encoded_string", // the wire format first: arguments of all other cases are built through UnmarshalBinary
	"lsbs_from_lsb", "lsbs", "msbs", "rsh", "lsh", "append", "append_bit", "append_zeros", "subset", "or", "and", "xor",
	"equal", "equal_msbs", "common_msbs", "bit", "bit_from_lsb", "is_bit_set", "is_bit_set_from_lsb", "msb", "lsb", "is_empty", "len", "cmp",
	"set_bit", "ones", "zeros", "set_uint64", "new_bit_array", "set_bytes", "set_felt", "set_felt251", "felt", "bytes", "copy",
	"path", "find_first_set_bit"}

// node codec cases
func genNodeLine(r *hx.RNG, hist map[string]int) string {
	key := func() string {
		l, v := genArr(r, hist, "nodekey")
		if r.Chance(70) { // stored child keys are well formed
			v = new(big.Int).And(v, new(big.Int).Sub(new(big.Int).Lsh(big.NewInt(1), uint(l)), big.NewInt(1)))
		}
		return textOf(l, v)
	}
	f := func() string { return genFelt(r).Text(16) }
	enc := func() (string, bool) { // a node for WriteTo; ok = accepted by WriteTo
		v, l, rr, lh, rh := f(), "nil", "nil", "nil", "nil"
		shape := r.Intn(10)
		switch {
		case shape < 3:
			hist["node_leaf"]++
		case shape < 6:
			l, rr = key(), key()
			hist["node_inner"]++
		case shape < 8:
			l, rr, lh, rh = key(), key(), f(), f()
			hist["node_inner_with_hashes"]++
		default:
			hist["node_irregular"]++
			switch r.Intn(6) {
			case 0:
				v = "nil"
			case 1:
				lh = f()
			case 2:
				rh = f()
			case 3:
				l = key() // Right nil: WriteTo dereferences nil
			case 4:
				rr = key() // Left nil: Right is not written
			case 5:
				lh, rh = f(), f() // hashes without children
			}
		}
		return fmt.Sprintf("nenc %s %s %s %s %s", v, l, rr, lh, rh), shape < 8
	}
	if r.Chance(40) {
		line, _ := enc()
		return line
	}
	// decode: bytes of an encodable node (through the REAL WriteTo), possibly cut / extended / damaged, or raw bytes
	recvH := func() string {
		if r.Chance(60) {
			return "nil"
		}
		return f()
	}
	rl, rrh := recvH(), recvH()
	if r.Chance(12) {
		hist["node_wire_raw"]++
		return fmt.Sprintf("ndec %s %s %s", rl, rrh, hexOfBytes(genBytes(r, r.Intn(140))))
	}
	line, _ := enc()
	got := execNode(strings.Fields(line))
	if !strings.HasPrefix(got, "x ") || strings.Contains(got, "(") {
		hist["node_wire_short"]++
		return fmt.Sprintf("ndec %s %s %s", rl, rrh, hexOfBytes(genBytes(r, r.Intn(32))))
	}
	w := bytesOfHex(strings.TrimPrefix(got, "x "))
	switch r.Intn(6) {
	case 0:
		w = w[:r.Intn(len(w)+1)]
		hist["node_wire_truncated"]++
	case 1:
		w = append(w, genBytes(r, 1+r.Intn(70))...)
		hist["node_wire_extended"]++
	case 2:
		w[r.Intn(len(w))] ^= byte(1 << uint(r.Intn(8)))
		hist["node_wire_bitflip"]++
	case 3: // non-canonical value felt
		for i := 0; i < 32; i++ {
			w[i] = 0xff
		}
		hist["node_wire_value_above_P"]++
	default:
		hist["node_wire_exact"]++
	}
	return fmt.Sprintf("ndec %s %s %s", rl, rrh, hexOfBytes(w))
}

// the property predicate of C01_node_roundtrip evaluated on the real code: a well-formed node written by
// WriteTo and read back by UnmarshalBinary (fresh receiver) has the same Value / Left / Right, and the same
// hashes when it was written with hashes.
func nodeRoundtripReal(r *hx.RNG) (string, string) {
	mk := func() *trie.BitArray {
		l := genLen(r)
		v := new(big.Int).And(rand256(r), new(big.Int).Sub(new(big.Int).Lsh(big.NewInt(1), uint(l)), big.NewInt(1)))
		return trieImpl.mk(textOf(l, v))
	}
	n := &trie.Node{Value: feltOfHex(genFelt(r).Text(16))}
	shape := r.Intn(3)
	if shape > 0 {
		n.Left, n.Right = mk(), mk()
	}
	if shape > 1 {
		n.LeftHash, n.RightHash = feltOfHex(genFelt(r).Text(16)), feltOfHex(genFelt(r).Text(16))
	}
	var buf bytes.Buffer
	if _, err := n.WriteTo(&buf); err != nil {
		return "node-codec:roundtrip", "WriteTo of a well-formed node failed: " + err.Error()
	}
	m := new(trie.Node)
	if err := m.UnmarshalBinary(buf.Bytes()); err != nil {
		return "node-codec:roundtrip", fmt.Sprintf("UnmarshalBinary(WriteTo(%v)) failed: %v (bytes %x)", n, err, buf.Bytes())
	}
	same := m.Value.Equal(n.Value) && m.Left.Equal(n.Left) && m.Right.Equal(n.Right)
	if shape > 1 {
		same = same && m.LeftHash.Equal(n.LeftHash) && m.RightHash.Equal(n.RightHash)
	}
	if shape == 0 {
		same = same && m.LeftHash == nil && m.RightHash == nil
	}
	if !same {
		return "node-codec:roundtrip", fmt.Sprintf("UnmarshalBinary(WriteTo(n)) = %v differs from n = %v (bytes %x)", m, n, buf.Bytes())
	}
	return "", ""
}

// ---------- the stage ----------
func runBitArrayStage(c *hx.Ctx, or *hx.Oracle, r *hx.RNG) {
	perOp, nNode, nRound := 140, 1500, 600
	if c.Thorough() {
		perOp, nNode, nRound = 6000, 60000, 20000
	}
	report := func(bc baCase, class, what string) {
		c.Violation(class, what, map[string]any{"kind": "bitarray", "ba_case": bc}, false)
	}
	n := 0
	for _, op := range allBAOps {
		for i := 0; i < perOp; i++ {
			line := genBALine(r.Fork(uint64(7_000_000+n)), c.Hist, op)
			n++
			impls := []string{"trie"}
			if !codecOps[op] && !(op == "equal" && strings.Contains(line, "nil")) { // trieutils.Equal has no nil handling

				impls = append(impls, "trieutils")
			}
			for _, im := range impls {
				bc := baCase{Impl: im, Line: line}
				class, what := evalBA(or, bc)
				c.Hist["ba_op_"+op]++
				c.Count("ba:"+im+":"+line, true)
				if class != "" {
					report(bc, class, what)
				}
			}
			if i == 0 && len(c.Samples) < 6 && (op == "rsh" || op == "common_msbs") {
				c.Sample(baCase{Impl: "trie", Line: line})
			}
		}
	}
	for i := 0; i < nNode; i++ {
		bc := baCase{Impl: "node", Line: genNodeLine(r.Fork(uint64(8_000_000+i)), c.Hist)}
		class, what := evalBA(or, bc)
		c.Hist["node_"+strings.Fields(bc.Line)[0]]++
		c.Count("node:"+bc.Line, true)
		if class != "" {
			report(bc, class, what)
		}
	}
	rr := r.Fork(9_000_000)
	for i := 0; i < nRound; i++ {
		if class, what := nodeRoundtripReal(rr); class != "" {
			c.Violation(class, what, map[string]any{"kind": "bitarray", "ba_case": baCase{Impl: "node", Line: "roundtrip"}}, false)
		}
		c.Hist["node_roundtrip_real"]++
	}
}
