// C01 correspondence: trie roots, the legacy trie's stored node map and state commitments computed by juno (trie2, legacy trie, both
// temporary-trie backends, both state backends) against the extracted Coq model. The model returns
// hash TERMS; they are evaluated here with core/crypto (term package).
package main

import (
	"context"
	"fmt"
	"math/big"
	"sort"
	"strings"
	"time"

	"github.com/NethermindEth/juno/core"
	"github.com/NethermindEth/juno/core/crypto"
	"github.com/NethermindEth/juno/core/felt"
	"github.com/NethermindEth/juno/core/state"
	"github.com/NethermindEth/juno/core/trie"
	"github.com/NethermindEth/juno/core/trie2"
	"github.com/NethermindEth/juno/core/trie2/triedb/rawdb"
	"github.com/NethermindEth/juno/core/trie2/trienode"
	"github.com/NethermindEth/juno/core/trie2/trieutils"
	"github.com/NethermindEth/juno/db"
	"github.com/NethermindEth/juno/db/memory"
	"github.com/NethermindEth/juno/blockchain/networks"
	"github.com/NethermindEth/juno/migration/state/headstate"
	"github.com/NethermindEth/juno/utils/log"
	"verifharness/chain"
	"verifharness/hx"
	"verifharness/term"
)

type kv struct{ K, V *big.Int }

type trieCase struct {
	Hash   string   `json:"hash"` // ped | pos
	Height int      `json:"height"`
	Ops    []string `json:"ops"` // "k:v" hex, v=0 deletes
	Reopen []int    `json:"reopen"` // legacy trie: commit + reopen after these op indices
	NoHash []int    `json:"no_hash,omitempty"` // trie1 comparison: ops NOT followed by Hash() (lazy rehash over several Puts)
}

// the request for the Trie1 (legacy flat trie) model: k:v = Put+Hash(), k:v:n = Put only
func (c trieCase) line1() string {
	no := map[int]bool{}
	for _, i := range c.NoHash {
		no[i] = true
	}
	ops := make([]string, len(c.Ops))
	for i, o := range c.Ops {
		ops[i] = o
		if no[i] {
			ops[i] = o + ":n"
		}
	}
	return fmt.Sprintf("trie1 %s %d %s", c.Hash, c.Height, strings.Join(ops, " "))
}

func (c trieCase) line() string {
	return fmt.Sprintf("trie %s %d %s", c.Hash, c.Height, strings.Join(c.Ops, " "))
}

func parseOp(s string) (felt.Felt, felt.Felt) {
	f := strings.Split(s, ":")
	return term.FeltFromHex(f[0]), term.FeltFromHex(f[1])
}

func hashFn(name string) crypto.HashFn {
	if name == "ped" {
		return crypto.Pedersen
	}
	return crypto.Poseidon
}

// roots after every op on trie2
func runTrie2(c trieCase) ([]string, error) {
	t := trie2.NewEmpty(uint8(c.Height), hashFn(c.Hash))
	var res []string
	for _, o := range c.Ops {
		k, v := parseOp(o)
		if err := t.Update(&k, &v); err != nil {
			return nil, err
		}
		h, err := t.Hash()
		if err != nil {
			return nil, err
		}
		res = append(res, h.String())
	}
	return res, nil
}

// roots after every op on a PERSISTENT trie2 (class-trie id over the raw trie database on db/memory): zero writes
// alternate between Update(k,0) and Delete(k), the trie is committed through its collector / node tracer and
// re-opened from the database at the case's reopen points (and always at the end), and after the last re-open
// every key ever written is read back with Get and compared with the key/value set the ops describe
func runTrie2DB(c trieCase) ([]string, error) {
	disk := memory.New()
	tdb := rawdb.New(disk)
	root := felt.Zero
	open := func() (*trie2.Trie, error) {
		return trie2.New(trieutils.NewClassTrieID(felt.StateRootHash(root)), uint8(c.Height), hashFn(c.Hash), tdb)
	}
	t, err := open()
	if err != nil {
		return nil, err
	}
	reopen := map[int]bool{len(c.Ops) - 1: true}
	for _, i := range c.Reopen {
		reopen[i] = true
	}
	want := map[string]felt.Felt{}
	var res []string
	for i, o := range c.Ops {
		k, v := parseOp(o)
		if v.IsZero() && i%2 == 1 {
			err = t.Delete(&k)
		} else {
			err = t.Update(&k, &v)
		}
		if err != nil {
			return nil, fmt.Errorf("op %d: %w", i, err)
		}
		want[k.String()] = v
		h, err := t.Hash()
		if err != nil {
			return nil, err
		}
		res = append(res, h.String())
		if reopen[i] {
			newRoot, nodes := t.Commit()
			if newRoot.String() != h.String() {
				return nil, fmt.Errorf("op %d: Commit returns root %s after Hash returned %s", i, newRoot.String(), h.String())
			}
			if nodes != nil {
				batch := disk.NewBatch()
				nr, pr := felt.StateRootHash(newRoot), felt.StateRootHash(root)
				if err := tdb.Update(&nr, &pr, uint64(i), trienode.NewMergeNodeSet(nodes), nil, batch); err != nil {
					return nil, err
				}
				if err := batch.Write(); err != nil {
					return nil, err
				}
			}
			root = newRoot
			if t, err = open(); err != nil {
				return nil, fmt.Errorf("reopen after op %d: %w", i, err)
			}
			if h2, _ := t.Hash(); h2.String() != h.String() {
				return nil, fmt.Errorf("reopened trie after op %d has root %s, committed %s", i, h2.String(), h.String())
			}
		}
	}
	for _, o := range c.Ops {
		k, _ := parseOp(o)
		got, err := t.Get(&k)
		if err != nil {
			return nil, fmt.Errorf("Get(%s) after the last reopen: %w", k.String(), err)
		}
		if w := want[k.String()]; !got.Equal(&w) {
			return nil, fmt.Errorf("Get(%s) after the last reopen = %s, the key/value set has %s", k.String(), got.String(), w.String())
		}
	}
	return res, nil
}

// roots after every op on the legacy trie over a memory database, with commit+reopen points
func runLegacy(c trieCase) ([]string, error) {
	database := memory.New()
	prefix := []byte{0x7}
	newTrie := trie.NewTriePedersen
	if c.Hash == "pos" {
		newTrie = trie.NewTriePoseidon
	}
	txn := database.NewIndexedBatch()
	t, err := newTrie(txn, prefix, uint8(c.Height))
	if err != nil {
		return nil, err
	}
	reopen := map[int]bool{}
	for _, i := range c.Reopen {
		reopen[i] = true
	}
	var res []string
	for i, o := range c.Ops {
		k, v := parseOp(o)
		if _, err := t.Put(&k, &v); err != nil {
			return nil, err
		}
		h, err := t.Hash()
		if err != nil {
			return nil, err
		}
		res = append(res, h.String())
		if reopen[i] {
			if err := t.Commit(); err != nil {
				return nil, err
			}
			if err := txn.Write(); err != nil {
				return nil, err
			}
			txn = database.NewIndexedBatch()
			if t, err = newTrie(txn, prefix, uint8(c.Height)); err != nil {
				return nil, err
			}
		}
	}
	return res, nil
}

func bitsOf(b *trie.BitArray) string {
	if b == nil {
		return "nil"
	}
	if b.Len() == 0 {
		return "-"
	}
	var sb strings.Builder
	for i := uint8(0); i < b.Len(); i++ {
		if b.IsBitSet(i) {
			sb.WriteByte('1')
		} else {
			sb.WriteByte('0')
		}
	}
	return sb.String()
}

type storedNode struct{ key, left, right, value string }

var trie1NodesCompared, trie1RootsCompared int

// legacyFlat runs the real legacy trie with Hash() only after the ops not listed in NoHash and then
// takes a READ-ONLY look at the database under the trie's prefix: every stored node key with its
// child links and stored value, the in-memory root key and the persisted root key.
func legacyFlat(c trieCase) (roots []string, nodes []storedNode, rootKey, persisted string, err error) {
	database := memory.New()
	prefix := []byte{0x9}
	newTrie := trie.NewTriePedersen
	if c.Hash == "pos" {
		newTrie = trie.NewTriePoseidon
	}
	txn := database.NewIndexedBatch()
	t, err := newTrie(txn, prefix, uint8(c.Height))
	if err != nil {
		return nil, nil, "", "", err
	}
	no := map[int]bool{}
	for _, i := range c.NoHash {
		no[i] = true
	}
	for i, o := range c.Ops {
		k, v := parseOp(o)
		if _, err := t.Put(&k, &v); err != nil {
			return nil, nil, "", "", err
		}
		if no[i] {
			roots = append(roots, "skip")
			continue
		}
		h, err := t.Hash()
		if err != nil {
			return nil, nil, "", "", err
		}
		roots = append(roots, h.String())
	}
	rootKey = bitsOf(t.RootKey())
	persisted = "nil"
	it, err := txn.NewIterator(prefix, true)
	if err != nil {
		return nil, nil, "", "", err
	}
	defer it.Close()
	for ok := it.First(); ok; ok = it.Next() {
		key := it.Key()
		val, err := it.Value()
		if err != nil {
			return nil, nil, "", "", err
		}
		if len(key) == len(prefix) {
			var rk trie.BitArray
			if err := rk.UnmarshalBinary(val); err != nil {
				return nil, nil, "", "", err
			}
			persisted = bitsOf(&rk)
			continue
		}
		var nk trie.BitArray
		if err := nk.UnmarshalBinary(key[len(prefix):]); err != nil {
			return nil, nil, "", "", err
		}
		var n trie.Node
		if err := n.UnmarshalBinary(val); err != nil {
			return nil, nil, "", "", err
		}
		nodes = append(nodes, storedNode{bitsOf(&nk), bitsOf(n.Left), bitsOf(n.Right), n.Value.String()})
	}
	sort.Slice(nodes, func(i, j int) bool { return nodes[i].key < nodes[j].key })
	return roots, nodes, rootKey, persisted, nil
}

// evalTrie1 compares the real legacy trie with the Trie1 model: root after every hashed op, root key,
// the set of stored node keys with their child links, and every stored (cached) value.
func evalTrie1(or *hx.Oracle, c trieCase, model2 []string, obs map[string]any) *trieVerdict {
	rep := or.AskUntil(c.line1(), "end")
	n := len(c.Ops)
	if len(rep) < n {
		return &trieVerdict{"trie1model-error", "the Trie1 model returned an error (storage miss / one-sided node) on " + c.line1()}
	}
	roots, nodes, rootKey, persisted, err := legacyFlat(c)
	if err != nil {
		return &trieVerdict{"legacy-flat-error", err.Error()}
	}
	lastHashed := false
	for i := 0; i < n; i++ {
		lastHashed = false
		switch {
		case rep[i] == "error":
			return &trieVerdict{"trie1model-error", fmt.Sprintf("the Trie1 model returned an error at op %d", i)}
		case rep[i] == "skip":
			if roots[i] != "skip" {
				hx.Fatalf("trie1 reply out of step")
			}
		default:
			lastHashed = true
			tm := strings.TrimPrefix(rep[i], "root ")
			if tm != model2[i] {
				return &trieVerdict{"trie1model-vs-trie2model", fmt.Sprintf("root TERM after op %d: Trie1 model %s, Trie2 model %s (theorem C01_trie1_refines would be violated)", i, tm, model2[i])}
			}
			f := term.MustEval(tm)
			trie1RootsCompared++
			if f.String() != roots[i] {
				return &trieVerdict{"legacy-vs-trie1model:root", fmt.Sprintf("root after op %d: legacy trie %s, Trie1 model %s", i, roots[i], f.String())}
			}
		}
	}
	rest := rep[n:]
	if len(rest) == 0 || !strings.HasPrefix(rest[0], "rootkey ") {
		hx.Fatalf("trie1 reply without rootkey: %v", rest)
	}
	mrk := strings.TrimPrefix(rest[0], "rootkey ")
	obs["legacy_root_key"], obs["model_root_key"] = rootKey, mrk
	if mrk != rootKey {
		return &trieVerdict{"legacy-vs-trie1model:root-key", fmt.Sprintf("root key: legacy %s, model %s", rootKey, mrk)}
	}
	if lastHashed && persisted != rootKey {
		return &trieVerdict{"legacy:persisted-root-key", fmt.Sprintf("after Hash() the persisted root key is %s, the in-memory one %s", persisted, rootKey)}
	}
	mnodes := rest[1:]
	var lshape, mshape []string
	for _, x := range nodes {
		lshape = append(lshape, x.key+" "+x.left+" "+x.right)
	}
	mvals := make([]string, len(mnodes))
	for i, l := range mnodes {
		f := strings.SplitN(strings.TrimPrefix(l, "node "), " ", 4)
		if len(f) != 4 {
			hx.Fatalf("bad node line %q", l)
		}
		mshape = append(mshape, f[0]+" "+f[1]+" "+f[2])
		mvals[i] = f[3]
	}
	obs["legacy_nodes"], obs["model_nodes"] = lshape, mshape
	if strings.Join(lshape, "|") != strings.Join(mshape, "|") {
		return &trieVerdict{"legacy-vs-trie1model:node-set", fmt.Sprintf("stored node keys / child links differ: legacy %v, model %v", lshape, mshape)}
	}
	trie1NodesCompared += len(nodes)
	for i, x := range nodes {
		f := term.MustEval(mvals[i])
		if f.String() != x.value {
			return &trieVerdict{"legacy-vs-trie1model:stored-value", fmt.Sprintf("stored value of node %s: legacy %s, model %s", x.key, x.value, f.String())}
		}
	}
	return nil
}

// final root through the temporary-trie backends used for tx/event/receipt commitments
func runTemp(c trieCase, backend core.TempTrieBackend) (string, error) {
	run := backend.RunOnTempTriePedersen
	if c.Hash == "pos" {
		run = backend.RunOnTempTriePoseidon
	}
	var out string
	err := run(uint8(c.Height), func(t core.Trie) error {
		for _, o := range c.Ops {
			k, v := parseOp(o)
			if err := t.Update(&k, &v); err != nil {
				return err
			}
		}
		h, err := t.Hash()
		out = h.String()
		return err
	})
	return out, err
}

func genTrieCase(r *hx.RNG) trieCase {
	heights := []int{3, 8, 64, 251}
	c := trieCase{Hash: "ped", Height: heights[r.Intn(len(heights))]}
	if r.Chance(30) {
		c.Hash = "pos"
	}
	max := new(big.Int).Lsh(big.NewInt(1), uint(c.Height))
	// a small universe of keys with long shared prefixes: a few bases, low-bit perturbations
	nb := 1 + r.Intn(3)
	var universe []*big.Int
	for i := 0; i < nb; i++ {
		base := new(big.Int).SetUint64(r.U64())
		base.Lsh(base, uint(r.Intn(190)))
		base.Mod(base, max)
		universe = append(universe, base)
		for j := 0; j < 2+r.Intn(4); j++ {
			x := new(big.Int).Set(base)
			x.Xor(x, new(big.Int).Lsh(big.NewInt(1), uint(r.Intn(c.Height))))
			if r.Bool() {
				x.Xor(x, big.NewInt(int64(r.Intn(4))))
			}
			x.Mod(x, max)
			universe = append(universe, x)
		}
	}
	if r.Chance(20) {
		universe = append(universe, big.NewInt(0), new(big.Int).Sub(max, big.NewInt(1)))
	}
	n := 1 + r.Intn(30)
	if r.Chance(3) {
		// big batch: more than 100 updates between two commits (trie2 commits those through its parallel
		// collector), over a wider universe so that the upper levels branch
		for i := 0; i < 60; i++ {
			x := new(big.Int).SetUint64(r.U64())
			x.Lsh(x, uint(r.Intn(c.Height)))
			universe = append(universe, x.Mod(x, max))
		}
		n = 110 + r.Intn(120)
	}
	big1 := n > 100
	for i := 0; i < n; i++ {
		k := universe[r.Intn(len(universe))]
		v := big.NewInt(int64(1 + r.Intn(5)))
		if r.Chance(30) {
			v = big.NewInt(0) // delete / zero write (present or absent key)
		}
		c.Ops = append(c.Ops, fmt.Sprintf("%x:%x", k, v))
		if (!big1 && r.Chance(15)) || (big1 && i > 104 && r.Chance(4)) {
			c.Reopen = append(c.Reopen, i)
		}
	}
	// the Trie1 comparison calls Hash() only after some ops (several Puts share one lazy rehash)
	lazy := r.Intn(3) // 0: Hash after every Put, 1: ~half, 2: rarely
	for i := 0; i < n; i++ {
		if (lazy == 1 && r.Chance(50)) || (lazy == 2 && r.Chance(85)) {
			c.NoHash = append(c.NoHash, i)
		}
	}
	return c
}

type trieVerdict struct {
	class, what string
}

func evalTrieCase(or *hx.Oracle, c trieCase) (*trieVerdict, map[string]any) {
	rep := or.AskUntil(c.line(), "end")
	n := len(c.Ops)
	if len(rep) != n+2 {
		hx.Fatalf("oracle reply has %d lines for %d ops", len(rep), n)
	}
	model := make([]string, n)
	modelTerm := make([]string, n)
	for i := 0; i < n; i++ {
		modelTerm[i] = strings.TrimPrefix(rep[i], "root ")
		f := term.MustEval(modelTerm[i])
		model[i] = f.String()
	}
	canon := strings.TrimPrefix(rep[n], "canon ")
	specF := term.MustEval(strings.TrimPrefix(rep[n+1], "spec "))
	spec := specF.String()
	obs := map[string]any{"model_roots": model, "spec_root": spec}

	t2, err := runTrie2(c)
	if err != nil {
		return &trieVerdict{"trie2-error", err.Error()}, obs
	}
	lg, err := runLegacy(c)
	if err != nil {
		return &trieVerdict{"legacy-trie-error", err.Error()}, obs
	}
	obs["trie2"], obs["legacy"] = t2, lg
	t2db, err := runTrie2DB(c)
	if err != nil {
		return &trieVerdict{"trie2-persistent-error", err.Error()}, obs
	}
	obs["trie2_persistent"] = t2db
	for i := range t2db {
		if t2db[i] != model[i] {
			return &trieVerdict{"trie2-persistent-vs-model", fmt.Sprintf("root after op %d: persistent trie2 (commit+reopen at %v) %s model %s", i, c.Reopen, t2db[i], model[i])}, obs
		}
	}
	if canon != "t" {
		return &trieVerdict{"model-not-canonical", "the transcription of trie2 insert/delete left canonical form (theorem update_canon would be violated)"}, obs
	}
	if n > 0 && model[n-1] != spec {
		return &trieVerdict{"model-vs-spec", "model run differs from spec_root of the resulting key/value set (theorem run_is_build)"}, obs
	}
	for i := 0; i < n; i++ {
		// the property predicate: every implementation's root is the commitment of the key/value set
		if t2[i] != lg[i] {
			return &trieVerdict{"trie2-vs-legacy", fmt.Sprintf("roots differ after op %d: trie2 %s legacy %s (model %s)", i, t2[i], lg[i], model[i])}, obs
		}
		if t2[i] != model[i] {
			return &trieVerdict{"trie2-vs-model", fmt.Sprintf("root after op %d: trie2 %s model %s", i, t2[i], model[i])}, obs
		}
	}
	for name, b := range map[string]core.TempTrieBackend{"temp-trie2": core.TrieBackend, "temp-legacy": core.DeprecatedTrieBackend} {
		got, err := runTemp(c, b)
		if err != nil {
			return &trieVerdict{name + "-error", err.Error()}, obs
		}
		if n > 0 && got != spec {
			return &trieVerdict{name + "-vs-spec", fmt.Sprintf("final root %s, spec %s", got, spec)}, obs
		}
	}
	if v := evalTrie1(or, c, modelTerm, obs); v != nil {
		return v, obs
	}
	return nil, obs
}

func shrinkTrie(or *hx.Oracle, c trieCase, class string) trieCase {
	deadline := time.Now().Add(shrinkBudget)
	changed := true
	for changed && time.Now().Before(deadline) {
		changed = false
		for i := len(c.Ops) - 1; i >= 0 && time.Now().Before(deadline); i-- {
			d := c
			d.Ops = append(append([]string{}, c.Ops[:i]...), c.Ops[i+1:]...)
			d.Reopen = nil
			for _, x := range c.Reopen {
				if x < i {
					d.Reopen = append(d.Reopen, x)
				} else if x > i {
					d.Reopen = append(d.Reopen, x-1)
				}
			}
			d.NoHash = nil
			for _, x := range c.NoHash {
				if x < i {
					d.NoHash = append(d.NoHash, x)
				} else if x > i {
					d.NoHash = append(d.NoHash, x-1)
				}
			}
			if len(d.Ops) == 0 {
				continue
			}
			if v, _ := evalTrieCase(or, d); v != nil && v.class == class {
				c, changed = d, true
			}
		}
	}
	return c
}

// ---------- state level ----------
type stateCase struct {
	Pre    bool     `json:"pre_0_14"`
	Blocks []string `json:"blocks"` // oracle syntax, one string per block
	NewSt  bool     `json:"new_state"`
	Reopen []int    `json:"reopen"`
	// MigrateAfter (new state backend only): after these blocks every contract record goes through the head-state
	// migration (migration/state/headstate: the record is rebuilt from the legacy per-field buckets and its
	// StorageRoot is left zero "to be backfilled lazily") and the node restarts - a database that was switched to the
	// new state must keep committing to the same roots
	MigrateAfter []int `json:"migrate_after,omitempty"`
}

func btoi(b bool) int {
	if b {
		return 1
	}
	return 0
}

type blockGen struct {
	spec  chain.BlockSpec
	items []string
}

// classes: cairo0 class hashes 500..502 and sierra ids 1..2 (hash = chain.SierraHash)
func genStateCase(r *hx.RNG) (stateCase, []chain.BlockSpec) {
	sc := stateCase{Pre: r.Chance(40), NewSt: r.Bool()}
	ver := core.Ver0_14_0.String()
	if sc.Pre {
		ver = "0.13.5"
	}
	deployed := map[uint64]bool{}
	declared := map[uint64]bool{}
	cur := map[uint64]map[uint64]uint64{} // the generator's view of the non-zero slots
	var specs []chain.BlockSpec
	addrs := []uint64{100, 101, 0x1000000000000, 1, 2}
	nb := 2 + r.Intn(7)
	for b := 0; b < nb; b++ {
		sp := chain.BlockSpec{Version: ver, Timestamp: uint64(1000 + b), Deploy: map[uint64]uint64{}, Replace: map[uint64]uint64{},
			Nonces: map[uint64]uint64{}, Storage: map[uint64]map[uint64]uint64{}, DeclareV1: map[uint64]uint64{}}
		var items []string
		if b == 0 {
			sp.DeclareV0 = []uint64{500, 501}
		}
		for id := uint64(1); id <= 2; id++ {
			if !declared[id] && r.Chance(35) {
				declared[id] = true
				casm := 9000 + id
				sp.DeclareV1[id] = casm
				items = append(items, fmt.Sprintf("dec:%s:%x", chain.SierraHash(id).Text(16), casm))
			}
		}
		// CASM-hash migration (>= 0.14.1 state diffs): re-hash the class-trie leaf of a class declared in an
		// EARLIER block; often in a block that declares nothing (migration-only block)
		for id := uint64(1); id <= 2; id++ {
			if _, now := sp.DeclareV1[id]; declared[id] && !now && r.Chance(30) {
				casm := 9100 + uint64(r.Intn(50))
				if sp.Migrate == nil {
					sp.Migrate = map[uint64]uint64{}
				}
				sp.Migrate[id] = casm
				items = append(items, fmt.Sprintf("mig:%s:%x", chain.SierraHash(id).Text(16), casm))
			}
		}
		for _, a := range addrs[:3] {
			if !deployed[a] && r.Chance(50) {
				deployed[a] = true
				cls := uint64(500 + r.Intn(2))
				sp.Deploy[a] = cls
				items = append(items, fmt.Sprintf("dep:%x:%x", a, cls))
			}
		}
		for _, a := range addrs[:3] {
			if !deployed[a] {
				continue
			}
			if _, now := sp.Deploy[a]; !now && r.Chance(20) {
				cls := uint64(500 + r.Intn(2))
				sp.Replace[a] = cls
				items = append(items, fmt.Sprintf("rep:%x:%x", a, cls))
			}
			if r.Chance(40) {
				n := uint64(r.Intn(5))
				sp.Nonces[a] = n
				items = append(items, fmt.Sprintf("non:%x:%x", a, n))
			}
		}
		for _, a := range addrs {
			if a > 2 && !deployed[a] {
				continue
			}
			if !r.Chance(55) {
				// a per-contract storage entry WITHOUT any slot (feeder state diffs can carry one; sn2core keeps
				// it): no effect on the abstract state, often next to a nonce / class change of the same contract
				_, n := sp.Nonces[a]
				_, c := sp.Replace[a]
				if a > 2 && (n || c || r.Chance(10)) && r.Chance(50) {
					sp.Storage[a] = map[uint64]uint64{}
					items = append(items, fmt.Sprintf("ste:%x", a))
				}
				continue
			}
			m := map[uint64]uint64{}
			if len(cur[a]) > 0 && r.Chance(30) {
				// wipe: write zero to EVERY non-zero slot of the contract in one block (its storage trie
				// becomes empty while the contract stays deployed), later blocks touch it again
				for k := range cur[a] {
					m[k] = 0
				}
			}
			if r.Chance(5) {
				// bulk: more than 100 updates to ONE storage trie in one block (trie2 commits such batches
				// through its parallel collector), keys spread over 64 bits
				for i, n := 0, 101+r.Intn(60); i < n; i++ {
					m[r.U64()|1<<63] = uint64(1 + r.Intn(3))
				}
			}
			for i := 0; i < r.Intn(3)+btoi(len(m) == 0); i++ {
				k := uint64(r.Intn(4))
				if r.Chance(20) {
					k = 1<<62 + uint64(r.Intn(2))
				}
				v := uint64(r.Intn(4)) // includes writes of zero to absent and present slots
				m[k] = v
			}
			if cur[a] == nil {
				cur[a] = map[uint64]uint64{}
			}
			for k, v := range m {
				if v == 0 {
					delete(cur[a], k)
				} else {
					cur[a][k] = v
				}
			}
			sp.Storage[a] = m
			keys := make([]uint64, 0, len(m))
			for k := range m {
				keys = append(keys, k)
			}
			sort.Slice(keys, func(i, j int) bool { return keys[i] < keys[j] })
			for _, k := range keys {
				items = append(items, fmt.Sprintf("sto:%x:%x:%x", a, k, m[k]))
			}
		}
		specs = append(specs, sp)
		sc.Blocks = append(sc.Blocks, strings.Join(items, " "))
		if r.Chance(25) {
			sc.Reopen = append(sc.Reopen, b)
		}
	}
	if sc.NewSt && len(sc.Blocks) >= 2 && r.Chance(35) {
		sc.MigrateAfter = append(sc.MigrateAfter, r.Intn(len(sc.Blocks)-1))
	}
	return sc, specs
}

// specFromItems rebuilds the chain.BlockSpec from the oracle-syntax items of one block.
func specFromItems(sc stateCase, b int) chain.BlockSpec {
	ver := core.Ver0_14_0.String()
	if sc.Pre {
		ver = "0.13.5"
	}
	sp := chain.BlockSpec{Version: ver, Timestamp: uint64(1000 + b), Deploy: map[uint64]uint64{}, Replace: map[uint64]uint64{},
		Nonces: map[uint64]uint64{}, Storage: map[uint64]map[uint64]uint64{}, DeclareV1: map[uint64]uint64{}}
	if b == 0 {
		sp.DeclareV0 = []uint64{500, 501}
	}
	u := func(h string) uint64 {
		f := term.FeltFromHex(h)
		return f.Uint64()
	}
	for _, it := range strings.Fields(sc.Blocks[b]) {
		f := strings.Split(it, ":")
		switch f[0] {
		case "dec":
			for id := uint64(1); id <= 2; id++ {
				if chain.SierraHash(id).Text(16) == f[1] {
					sp.DeclareV1[id] = u(f[2])
				}
			}
		case "mig":
			for id := uint64(1); id <= 2; id++ {
				if chain.SierraHash(id).Text(16) == f[1] {
					if sp.Migrate == nil {
						sp.Migrate = map[uint64]uint64{}
					}
					sp.Migrate[id] = u(f[2])
				}
			}
		case "dep":
			sp.Deploy[u(f[1])] = u(f[2])
		case "rep":
			sp.Replace[u(f[1])] = u(f[2])
		case "non":
			sp.Nonces[u(f[1])] = u(f[2])
		case "ste": // per-contract storage entry without slots
			if sp.Storage[u(f[1])] == nil {
				sp.Storage[u(f[1])] = map[uint64]uint64{}
			}
		case "sto":
			if sp.Storage[u(f[1])] == nil {
				sp.Storage[u(f[1])] = map[uint64]uint64{}
			}
			sp.Storage[u(f[1])][u(f[2])] = u(f[3])
		}
	}
	return sp
}

func evalState(or *hx.Oracle, sc stateCase) (class, what string, detail map[string]any) {
	ver := "post"
	if sc.Pre {
		ver = "pre"
	}
	line := "state " + ver + " " + strings.Join(sc.Blocks, " | ")
	rep := or.AskUntil(line, "end")
	specs := make([]chain.BlockSpec, len(sc.Blocks))
	for b := range sc.Blocks {
		specs[b] = specFromItems(sc, b)
	}
	impl, err := runState(sc, specs)
	if err != nil {
		return "state-error", err.Error() + " on " + line, nil
	}
	for b := range impl {
		want := term.MustEval(strings.TrimPrefix(rep[b], "root "))
		if want.String() != impl[b] {
			backend := "legacy"
			if sc.NewSt {
				backend = "new"
			}
			if !sc.NewSt {
				// the legacy backend keeps a system contract whose storage became (or stayed) empty
				alt := term.MustEval(strings.TrimPrefix(rep[len(sc.Blocks)+b], "nopurge "))
				if alt.String() == impl[b] {
					return "state-root:legacy:system-contract-empty-storage-kept",
						fmt.Sprintf("block %d: legacy backend root %s keeps system contract 0x1/0x2 with empty storage in the contract trie; core/state and the commitment of the abstract state give %s; case: %s", b, impl[b], want.String(), line),
						map[string]any{"block": b, "impl": impl[b], "model": want.String()}
				}
			}
			return "state-root:" + backend, fmt.Sprintf("block %d: juno root %s, commitment of the abstract state %s; case: %s", b, impl[b], want.String(), line),
				map[string]any{"block": b, "impl": impl[b], "model": want.String()}
		}
	}
	return "", "", nil
}

// shrinkBudget bounds the time one shrink may take (bulk cases with hundreds of items re-run whole chains per
// candidate); when it is used up the smallest failing case found so far is reported
const shrinkBudget = 40 * time.Second

func shrinkState(or *hx.Oracle, sc stateCase, class string) stateCase {
	deadline := time.Now().Add(shrinkBudget)
	changed := true
	for changed && time.Now().Before(deadline) {
		changed = false
		for b := len(sc.Blocks) - 1; b >= 0 && time.Now().Before(deadline); b-- {
			items := strings.Fields(sc.Blocks[b])
			// delta debugging: drop chunks of items, halving the chunk size down to single items
			for chunk := (len(items) + 1) / 2; chunk >= 1; chunk /= 2 {
				for i := len(items) - chunk; i >= 0 && time.Now().Before(deadline); i -= chunk {
					if i+chunk > len(items) {
						continue
					}
					d := sc
					d.Blocks = append([]string{}, sc.Blocks...)
					d.Blocks[b] = strings.Join(append(append([]string{}, items[:i]...), items[i+chunk:]...), " ")
					if c, _, _ := evalState(or, d); c == class {
						sc, changed = d, true
						items = strings.Fields(sc.Blocks[b])
					}
				}
			}
			if b == len(sc.Blocks)-1 && len(sc.Blocks) > 1 && sc.Blocks[b] == "" {
				d := sc
				d.Blocks = sc.Blocks[:b]
				if c, _, _ := evalState(or, d); c == class {
					sc, changed = d, true
				}
			}
		}
	}
	return sc
}

func runState(sc stateCase, specs []chain.BlockSpec) ([]string, error) {
	var database db.KeyValueStore = memory.New()
	seq := chain.NewNode(database, sc.NewSt)
	reopen := map[int]bool{}
	for _, i := range sc.Reopen {
		reopen[i] = true
	}
	var roots []string
	for i := range specs {
		b, err := seq.Finalise(&specs[i])
		if err != nil {
			return roots, fmt.Errorf("block %d: %w", i, err)
		}
		roots = append(roots, b.Block.GlobalStateRoot.String())
		for _, m := range sc.MigrateAfter {
			if m == i && sc.NewSt {
				if err := headStateMigrate(database, specs[:i+1]); err != nil {
					return roots, fmt.Errorf("head-state migration after block %d: %w", i, err)
				}
				seq = seq.Reopen(sc.NewSt)
			}
		}
		if reopen[i] {
			seq = seq.Reopen(sc.NewSt)
		}
	}
	return roots, nil
}

// headStateMigrate puts every contract's head fields where the legacy state keeps them, drops the consolidated record
// and lets the real head-state migrator rebuild it (the state of a database that has just been switched over).
func headStateMigrate(database db.KeyValueStore, specs []chain.BlockSpec) error {
	addrs := map[uint64]bool{1: true, 2: true}
	for i := range specs {
		for a := range specs[i].Deploy {
			addrs[a] = true
		}
	}
	n := 0
	for a := range addrs {
		addr := chain.F(a)
		rec, err := state.GetContract(database, addr)
		if err != nil {
			continue // not deployed
		}
		if err := state.DeleteContract(database, addr); err != nil {
			return err
		}
		if err := core.WriteContractClassHash(database, addr, &rec.ClassHash); err != nil {
			return err
		}
		if err := core.WriteContractNonce(database, addr, &rec.Nonce); err != nil {
			return err
		}
		if err := core.WriteContractDeploymentHeight(database, addr, rec.DeployedHeight); err != nil {
			return err
		}
		n++
	}
	if n == 0 {
		return nil
	}
	_, err := headstate.Migrator{}.Migrate(context.Background(), database, &networks.Sepolia, log.NewNopZapLogger())
	if err != nil {
		return err
	}
	for a := range addrs {
		if rec, err := state.GetContract(database, chain.F(a)); err == nil && !rec.StorageRoot.IsZero() {
			return fmt.Errorf("contract %x: the migrator was expected to leave StorageRoot zero", a)
		}
	}
	return nil
}

func main() {
	c := hx.NewCtx("C01")
	or := hx.StartOracle(c.OraclePath)
	defer or.Close()

	reportTrie := func(tc trieCase, v *trieVerdict) {
		small := shrinkTrie(or, tc, v.class)
		v2, obs := evalTrieCase(or, small)
		if v2 != nil {
			v = v2
		}
		c.Violation(v.class, v.what+" on "+small.line(), map[string]any{"kind": "trie", "case": small, "observed": obs}, false)
	}

	if c.ReplayIn != "" {
		var rp struct {
			Kind string    `json:"kind"`
			Case trieCase  `json:"case"`
			SC   stateCase `json:"state_case"`
			BA   baCase    `json:"ba_case"`
		}
		c.LoadReplay(&rp)
		if rp.Kind == "bitarray" {
			if rp.BA.Line == "roundtrip" {
				rr := hx.NewRNG(c.Seed).Fork(0xBA).Fork(9_000_000)
				for i := 0; i < 600; i++ {
					if class, what := nodeRoundtripReal(rr); class != "" {
						c.Violation(class, what, map[string]any{"kind": "bitarray", "ba_case": rp.BA}, false)
					}
				}
			} else if class, what := evalBA(or, rp.BA); class != "" {
				c.Violation(class, what, map[string]any{"kind": "bitarray", "ba_case": rp.BA}, false)
			}
		} else if rp.Kind == "trie" {
			if v, _ := evalTrieCase(or, rp.Case); v != nil {
				reportTrie(rp.Case, v)
			}
		} else if class, what, det := evalState(or, rp.SC); class != "" {
			c.Violation(class, what, map[string]any{"kind": "state", "state_case": rp.SC, "detail": det}, false)
		}
		c.Count("replay", true)
		c.Finish("replay")
	}

	r := hx.NewRNG(c.Seed)
	// stage "bitarray": the real BitArray word operations and the node codec against BitArray.v
	tBA := time.Now()
	runBitArrayStage(c, or, r.Fork(0xBA))
	c.Extra["bitarray_stage_wall_s"] = time.Since(tBA).Seconds()
	ntrie, nstate := 400, 120
	if c.Thorough() {
		ntrie, nstate = 8000, 1500
	}
	for i := 0; i < ntrie; i++ {
		tc := genTrieCase(r.Fork(uint64(i)))
		v, _ := evalTrieCase(or, tc)
		c.Hist[fmt.Sprintf("trie_h%d_%s", tc.Height, tc.Hash)]++
		dels := 0
		for _, o := range tc.Ops {
			if strings.HasSuffix(o, ":0") {
				dels++
			}
		}
		c.Hist["trie_ops"] += len(tc.Ops)
		if len(tc.Ops) > 100 {
			c.Hist["trie_cases_over_100_ops_before_a_commit"]++
		}
		c.Hist["trie_zero_writes"] += dels
		c.Hist["trie1_puts_without_hash"] += len(tc.NoHash)
		c.Count(tc.line(), len(tc.Ops) >= 3)
		if i < 2 {
			c.Sample(tc)
		}
		if v != nil {
			reportTrie(tc, v)
		}
	}
	shrunk := map[string]bool{}
	for i := 0; i < nstate; i++ {
		sc, specs := genStateCase(r.Fork(uint64(1_000_000 + i)))
		line := strings.Join(sc.Blocks, " | ")
		_ = specs
		class, what, _ := evalState(or, sc)
		c.Hist[fmt.Sprintf("state_newstate_%v_pre014_%v", sc.NewSt, sc.Pre)]++
		if len(sc.MigrateAfter) > 0 {
			c.Hist["state_head_state_migrated_mid_chain"]++
		}
		for _, bl := range sc.Blocks {
			if strings.Contains(bl, "mig:") {
				c.Hist["state_blocks_with_casm_migration"]++
				if !strings.Contains(bl, "dec:") {
					c.Hist["state_blocks_migration_only"]++
				}
			}
			if strings.Count(bl, "sto:") > 100 {
				c.Hist["state_blocks_over_100_updates_one_trie"]++
			}
			c.Hist["state_storage_entries_without_slots"] += strings.Count(bl, "ste:")
		}
		c.Count(line+fmt.Sprint(sc.NewSt, sc.Reopen, sc.Pre), true)
		if i < 2 {
			c.Sample(sc)
		}
		if class != "" && shrunk[class] {
			c.Violation(class, what, map[string]any{"kind": "state", "state_case": sc}, false)
		} else if class != "" {
			shrunk[class] = true // one replay per class is kept: shrink only the first occurrence
			small := shrinkState(or, sc, class)
			_, what2, det := evalState(or, small)
			if what2 != "" {
				what = what2
			}
			c.Violation(class, what, map[string]any{"kind": "state", "state_case": small, "detail": det}, false)
		}
	}
	c.Hist["trie1_stored_nodes_compared"] = trie1NodesCompared
	c.Hist["trie1_roots_compared"] = trie1RootsCompared
	c.Finish("stage bitarray: every exported operation of the real trie.BitArray and trieutils.BitArray (random + boundary lengths 0,1,63,64,65,127,128,129,191,192,193,250,251,252,255; all-ones / all-zero / single-bit / whole-word patterns; arrays sharing prefixes; arrays with bits above len), BitArray.Write/UnmarshalBinary and Node.WriteTo/UnmarshalBinary (well-formed, irregular, cut, extended, bit-flipped, non-canonical wire bytes; receivers with stale hashes) compared as (len, words) / bytes with the extracted word-level model BitArray.v; " +
		"trie op sequences (heights 3/8/64/251, Pedersen+Poseidon, keys sharing long prefixes, ~30% zero writes, legacy trie committed+reopened at random points) " +
		"checked on trie2 (in memory, and persistent over the raw trie database with Update/Delete, commit through collector+tracer, reopen, Get of every key), legacy trie and both temp-trie backends against the model's per-op root terms and the spec root; the legacy trie additionally against its own transcription Trie1 (Hash() after a random subset of the Puts: root, root key, the set of stored node keys with child links read from the database, every stored value; Trie1 root TERM == Trie2 root TERM); state diff chains (deploy/replace/nonce/storage incl. zero writes, wipes and >100-slot bulk writes/Sierra declarations/CASM-hash migrations incl. migration-only blocks/system contracts 0x1,0x2) on both state backends with restarts, " +
		"<0.14.0 and >=0.14.0 formulas; non-trivial = at least 3 trie ops or any state chain; distinct by full case")
}
