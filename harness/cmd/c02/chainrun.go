package main

import (
	"fmt"
	"os"
	"sort"
	"strings"
	"sync"

	"github.com/NethermindEth/juno/core"
	"github.com/NethermindEth/juno/core/felt"
	"verifharness/chain"
	"verifharness/hx"
)

var debug = os.Getenv("C02_DEBUG") != ""

func feq(a, b *felt.Felt) bool { return a != nil && b != nil && a.Equal(b) }

// complete: model hashes + Finalise roots for the block generated from (seed, ctx) on top of parent.
// Returns the filling, or "" != why when the correspondence with juno's own functions broke.
func (r *runner) complete(seq *chain.Node, seed uint64, ctx blockCtx, parent *felt.Felt) (*filled, string) {
	b, _ := genBlock(seed, ctx)
	f := &filled{Parent: parent, Root: &felt.Zero, OldRoot: &felt.Zero, Hash: &felt.Zero}
	for i, tx := range b.Block.Transactions {
		h, ok := askTxHash(r.or, tx)
		if !ok {
			hx.Fatalf("generated a transaction outside the model")
		}
		hh := h
		f.TxHashes = append(f.TxHashes, &hh)
		jh, err := core.TransactionHash(tx, network)
		if err != nil || !jh.Equal(&h) { // (for the kinds juno does not recompute both sides are the declared hash)
			return nil, fmt.Sprintf("tx-hash:%s: juno %s (%v) model %s", b.Kinds[i], &jh, err, &h)
		}
		r.c.Hist["tx:"+b.Kinds[i]]++
	}
	f.apply(b)
	// roots: juno's Finalise on the sequencer node (it also recomputes the block hash its own way). The new
	// state backend opens the state at StateUpdate.OldRoot, and root 0 means "empty state": pass the head root.
	if hd, err := seq.BC.HeadsHeader(); err == nil {
		b.Update.OldRoot = hd.GlobalStateRoot
	}
	if err := seq.BC.Finalise(b.Block, b.Update, b.Classes, nil); err != nil {
		hx.Fatalf("sequencer Finalise of block %d: %v", ctx.Number, err)
	}
	f.Root, f.OldRoot = b.Block.GlobalStateRoot, b.Update.OldRoot
	if debug {
		fmt.Printf("block %d ver %s root %s old %s newroot %s\n", ctx.Number, ctx.Version, f.Root, f.OldRoot, b.Update.NewRoot)
	}
	junoHash := b.Block.Hash
	// the model's hashes for the completed block
	b2, _ := genBlock(seed, ctx)
	f.apply(b2)
	mh := askBlock(r.or, b2.Block, b2.Update.StateDiff)
	if !mh.HasBH {
		hx.Fatalf("model has no block hash for version %s", ctx.Version)
	}
	f.Hash = &mh.BH
	f.M = mh
	if !junoHash.Equal(&mh.BH) {
		return f, fmt.Sprintf("block-hash:finalise: juno %s model %s", junoHash, &mh.BH)
	}
	for name, be := range map[string]core.TempTrieBackend{"trie2": core.TrieBackend, "legacy-trie": core.DeprecatedTrieBackend} {
		jh, cm, err := core.BlockHash(b2.Block, b2.Update.StateDiff, network, nil, be)
		if err != nil {
			return f, fmt.Sprintf("block-hash:%s: error %v", name, err)
		}
		switch {
		case !jh.Equal(&mh.BH):
			return f, fmt.Sprintf("block-hash:%s: juno %s model %s", name, &jh, &mh.BH)
		case !cm.TransactionCommitment.Equal(&mh.TxC):
			return f, fmt.Sprintf("tx-commitment:%s: juno %s model %s", name, cm.TransactionCommitment, &mh.TxC)
		case !cm.EventCommitment.Equal(&mh.EvC):
			return f, fmt.Sprintf("event-commitment:%s: juno %s model %s", name, cm.EventCommitment, &mh.EvC)
		case !cm.ReceiptCommitment.Equal(&mh.RcC):
			return f, fmt.Sprintf("receipt-commitment:%s: juno %s model %s", name, cm.ReceiptCommitment, &mh.RcC)
		case cm.StateDiffCommitment != nil && !cm.StateDiffCommitment.Equal(&mh.SdH):
			return f, fmt.Sprintf("state-diff-hash:%s: juno %s model %s", name, cm.StateDiffCommitment, &mh.SdH)
		case cm.StateDiffLength != mh.SdLen:
			return f, fmt.Sprintf("state-diff-length:%s: juno %d model %d", name, cm.StateDiffLength, mh.SdLen)
		}
	}
	h := b2.Block.Header
	if cc := core.ConcatCounts(h.TransactionCount, h.EventCount, mh.SdLen, h.L1DAMode); !cc.Equal(&mh.CC) {
		return f, fmt.Sprintf("concat-counts: juno %s model %s", &cc, &mh.CC)
	}
	return f, ""
}

func (r *runner) runChain(seed uint64) { r.runPlan(seed, planChain(seed), false) }

// runTour: a fixed 3-block chain (post-0.7, 0.13.2 and >= 0.13.4 formats) whose blocks carry one transaction of
// EVERY kind at boundary values (zero nonce, empty calldata / paymaster / account-deployment data, tip 0, zero
// bounds, empty signature, nil-nonce L1 handler) and one at random values; every tampering is run, none sampled.
func (r *runner) runTour(seed uint64) { r.runPlan(seed, planTour(seed), true) }

func (r *runner) runPlan(seed uint64, plan chainPlan, full bool) {
	seq := chain.NewNode(nil, true)
	fols := []*follower{newFollower(false), newFollower(true)}
	var valid []func() *Built
	parent := &felt.Zero
	var allTx []*felt.Felt
	r.c.Hist[fmt.Sprintf("chain-len:%d", len(plan.Seeds))]++
	r.or.AskUntil("reset", "end") // model chain states: slot i = the chain before block i (slot 0: empty)
	for i := range plan.Seeds {
		i := i
		ctx := plan.Ctxs[i]
		r.c.Hist["version:"+ctx.Version]++
		f, why := r.complete(seq, plan.Seeds[i], ctx, parent)
		if why != "" {
			r.c.Violation("model-vs-juno:"+firstField(why), fmt.Sprintf("chain %d block %d (%s): %s", seed, i, ctx.Version, why),
				replayCase{ChainSeed: seed, Pos: i, Kind: "correspondence", Detail: why}, true)
			return
		}
		mk := func() *Built {
			b, _ := genBlock(plan.Seeds[i], ctx)
			f.apply(b)
			return b
		}
		allTx = append(allTx, f.TxHashes...)
		_, next := genBlock(plan.Seeds[i], ctx)
		var addrs, classes []felt.Felt
		for _, a := range next.Deployed {
			addrs = append(addrs, *fz(a))
		}
		addrs = append(addrs, *fz(0xabcdef), *fz(0x77777))
		for _, id := range next.Sierra {
			classes = append(classes, *sierraHash(id))
		}
		for c := uint64(500); c < next.NextClass && c < 520; c++ {
			classes = append(classes, *fz(c))
		}
		// the tamperings of this block
		var names []string
		forEachTamper(mk(), func(name string, _ func()) { names = append(names, name) })
		sort.Strings(names)
		// what this block's format does not commit to is not a tampering of a committed field: probed separately
		var uncommitted []string
		{
			ref := mk()
			kept := names[:0:0]
			for _, n := range names {
				if committedIn(ref, n) {
					kept = append(kept, n)
				} else {
					uncommitted = append(uncommitted, n)
				}
			}
			names = kept
			r.c.Hist["not-committed-in-post07-format"] += len(uncommitted)
		}
		// the extracted accept_ev must accept the valid block (its resulting chain state becomes slot i+1)
		if vb := mk(); !modelAccept(r.or, network, i, i+1, vb) {
			r.c.Violation("accept-verdict:reject-vs-accept:valid", fmt.Sprintf("chain %d block %d (%s): the extracted accept rejects the block juno's own Finalise produced roots for: %s",
				seed, i, ctx.Version, modelExplain(r.or, network, i, vb)), replayCase{ChainSeed: seed, Pos: i, Kind: "valid", Tour: full && !r.sparse, Sparse: r.sparse}, true)
			return
		}
		r.c.Hist["model-verdict:valid:accept"]++
		// The two followers (one per state backend) are independent nodes: their sweeps run side by side. Everything
		// they report is queued and replayed in follower order afterwards, so the output does not depend on scheduling.
		mvs := &verdictTable{m: map[string]*verdictEntry{}}
		var wg sync.WaitGroup
		reports := make([][]func(), len(fols))
		aborted := make([]bool, len(fols))
		for fi := range fols {
			fi := fi
			wg.Add(1)
			go func() {
				defer wg.Done()
				emit := func(f func()) { reports[fi] = append(reports[fi], f) }
				aborted[fi] = r.sweepFollower(fols, fi, emit, mvs, seed, i, ctx, full, names, valid, mk, f, allTx, addrs, classes)
			}()
		}
		wg.Wait()
		for fi := range fols {
			for _, rep := range reports[fi] {
				rep()
			}
		}
		if aborted[0] || aborted[1] {
			return
		}
		if len(r.c.Samples) < 4 {
			r.c.Sample(map[string]any{"chain": seed, "block": i, "version": ctx.Version, "txs": mk().Kinds, "tamperings": len(names), "hash": f.Hash.String()})
		}
		if r.only == nil && full {
			r.nilSweep(valid, mk, fols, i) // the kind/field tour chain carries every transaction kind
		}
		if r.only == nil {
			r.probes(valid, mk, fols, i)
			r.uncommittedProbes(valid, mk, fols, uncommitted, i)
		}
		valid = append(valid, mk)
		parent = f.Hash
	}
}

// sweepFollower: every selected tampering of block i against follower fi (must be rejected with database and Reader
// snapshot unchanged, and juno's verdict must equal the extracted accept_ev's), then the valid block (must become
// the head). Runs in its own goroutine: reports go through emit. Returns true when the chain cannot be continued.
func (r *runner) sweepFollower(fols []*follower, fi int, emit func(func()), mvs *verdictTable, seed uint64, i int, ctx blockCtx, full bool,
	names []string, valid []func() *Built, mk func() *Built, f *filled, allTx []*felt.Felt, addrs, classes []felt.Felt) bool {
	viol := func(class, what string, rc replayCase, noInput bool) {
		emit(func() { r.c.Violation(class, what, rc, noInput) })
	}
	fo := fols[fi]
	be := backendName(fo.newState)
	sel := r.selectTampers(names, seed+uint64(i)*7+uint64(fi))
	if full {
		sel = names
	}
	if r.only != nil && (r.only.Kind != "tamper" || r.only.Pos != i || r.only.NewState != fo.newState) {
		sel = nil
	}
	if r.only != nil && r.only.Kind == "tamper" && r.only.Pos == i {
		sel = []string{r.only.Tamper}
	}
	pre := rawDigest(fo.mem)
	preSnap := readerSnapshot(fo.node, allTx, addrs, classes)
	for _, name := range sel {
		for _, rehash := range []bool{false, true} {
			if rehash && !isRehashable(name) {
				continue
			}
			if r.only != nil && r.only.Kind == "tamper" && (r.only.Tamper != name || r.only.Rehash != rehash) {
				continue
			}
			t := mk()
			if carvedOut(t, name) {
				emit(func() { r.c.Hist["carved-out:0.13.2-empty-vs-zero-signature"]++ })
				continue
			}
			applied := false
			forEachTamper(t, func(n string, mutate func()) {
				if n == name && !applied {
					mutate()
					applied = true
				}
			})
			if !applied { // (a replay file naming a tampering this block does not have)
				emit(func() { r.c.Hist["tamper-not-applicable:"+tamperKind(name)]++ })
				continue
			}
			key := tamperKind(name)
			if rehash {
				mh := askBlock(r.or, t.Block, t.Update.StateDiff)
				t.Block.Hash, t.Update.BlockHash = &mh.BH, &mh.BH
				key += "+rehash"
			}
			// accept_ev's verdict on this tampering (one computation for both backends), decided by the oracle
			// process while juno decides
			var pending *verdictEntry
			if representable(t) {
				pending = mvs.get(key+"@"+name, func() string { return acceptLine(network, i, -1, t) }, r.or)
			} else {
				emit(func() { r.c.Hist["model-verdict:not-representable:"+key]++ })
			}
			err, pan := store(fo.node, t)
			mv, haveMV := false, false
			if pending != nil {
				<-pending.done
				mv, haveMV = pending.val, true
			}
			rc := replayCase{ChainSeed: seed, Pos: i, Tamper: name, Rehash: rehash, NewState: fo.newState, Kind: "tamper", Tour: full && !r.sparse, Sparse: r.sparse}
			emit(func() { r.c.Count(fmt.Sprintf("%d/%d/%s/%s/%v", seed, i, be, name, rehash), true) })
			if haveMV && pan == "" {
				emit(func() {
					r.compareVerdict(mv, err == nil, key, fmt.Sprintf("chain %d block %d (%s) tamper %s rehash=%v [%s]", seed, i, ctx.Version, name, rehash, be), i, t, err, rc)
				})
			}
			switch {
			case pan != "":
				viol("tamper-panic:"+be+":"+key, fmt.Sprintf("chain %d block %d tamper %s: panic %s", seed, i, name, pan), rc, false)
				fols[fi] = r.rebuild(fo, valid)
				fo = fols[fi]
			case err == nil:
				viol("tamper-accepted:"+be+":"+key, fmt.Sprintf("chain %d block %d (%s) tamper %s rehash=%v was stored", seed, i, ctx.Version, name, rehash), rc, false)
				fols[fi] = r.rebuild(fo, valid)
				fo = fols[fi]
			default:
				emit(func() { r.c.Hist["reject:"+errClass(err)]++ })
				if rehash && errClass(err) != "root-check" {
					emit(func() { r.c.Hist["rehash-rejected-elsewhere:"+errClass(err)]++ })
				}
				if d := rawDigest(fo.mem); d != pre {
					viol("reject-not-pure:db:"+be+":"+key, fmt.Sprintf("chain %d block %d tamper %s rejected (%v) but the database changed: %s -> %s", seed, i, name, err, pre, d), rc, false)
					fols[fi] = r.rebuild(fo, valid)
					fo = fols[fi]
				} else if s := readerSnapshot(fo.node, allTx, addrs, classes); s != preSnap {
					viol("reject-not-pure:reader:"+be+":"+key, fmt.Sprintf("chain %d block %d tamper %s rejected (%v) but the Reader snapshot changed", seed, i, name, err), rc, false)
				}
			}
			emit(func() { r.c.Hist["tamper:"+key]++ })
		}
	}
	// now the valid block
	vb := mk()
	err, pan := store(fo.node, vb)
	emit(func() { r.c.Count(fmt.Sprintf("%d/%d/%s/valid", seed, i, be), true) })
	if err != nil || pan != "" {
		viol("valid-rejected:"+be, fmt.Sprintf("chain %d block %d (%s): model-valid block rejected: %v %s", seed, i, ctx.Version, err, pan),
			replayCase{ChainSeed: seed, Pos: i, NewState: fo.newState, Kind: "valid"}, false)
		return true
	}
	hd, herr := fo.node.BC.HeadsHeader()
	if herr != nil || !feq(hd.Hash, f.Hash) || !feq(hd.GlobalStateRoot, f.Root) || hd.Number != ctx.Number {
		viol("valid-not-head:"+be, fmt.Sprintf("chain %d block %d: stored but head is %v (%v)", seed, i, hd, herr),
			replayCase{ChainSeed: seed, Pos: i, NewState: fo.newState, Kind: "valid"}, false)
		return true
	}
	// what juno stored for the block is what the model says its commitments are
	if cm, cerr := fo.node.BC.BlockCommitmentsByNumber(ctx.Number); cerr != nil || !feq(cm.TransactionCommitment, &f.M.TxC) ||
		!feq(cm.EventCommitment, &f.M.EvC) || !feq(cm.ReceiptCommitment, &f.M.RcC) || cm.StateDiffLength != f.M.SdLen ||
		(cm.StateDiffCommitment != nil && !feq(cm.StateDiffCommitment, &f.M.SdH)) {
		viol("stored-commitments-differ:"+be, fmt.Sprintf("chain %d block %d (%s): stored %+v (%v), model tx %s ev %s rc %s sd %s len %d",
			seed, i, ctx.Version, cm, cerr, &f.M.TxC, &f.M.EvC, &f.M.RcC, &f.M.SdH, f.M.SdLen),
			replayCase{ChainSeed: seed, Pos: i, NewState: fo.newState, Kind: "valid", Tour: full && !r.sparse, Sparse: r.sparse}, false)
	}
	emit(func() { r.c.Hist["accepted:"+be]++ })
	return false
}

// verdictTable: accept_ev's verdict per tampering of one block, computed once (by whichever follower gets there
// first) in a goroutine of its own, so that the oracle works while juno does.
type verdictEntry struct {
	done chan struct{}
	val  bool
}

type verdictTable struct {
	mu sync.Mutex
	m  map[string]*verdictEntry
}

func (vt *verdictTable) get(key string, line func() string, or *hx.Oracle) *verdictEntry {
	vt.mu.Lock()
	if e, ok := vt.m[key]; ok {
		vt.mu.Unlock()
		return e
	}
	e := &verdictEntry{done: make(chan struct{})}
	vt.m[key] = e
	vt.mu.Unlock()
	l := line() // rendered now: the block goes to juno next
	go func() {
		e.val = verdictOf(converse(or, l))
		close(e.done)
	}()
	return e
}

// compareVerdict: the verdict of the extracted accept_ev (on the fields juno was given, hash terms evaluated
// with juno's primitives) against SanityCheckNewHeight + Store's. A tampered block juno stores although the model
// rejects it is a failing input of the property; a block juno rejects although the model accepts it breaks the
// correspondence only.
func (r *runner) compareVerdict(model, juno bool, kind, where string, slot int, b *Built, jerr error, rc replayCase) {
	r.c.Hist["model-verdict:"+vname(model)+"/juno:"+vname(juno)]++
	if model == juno {
		return
	}
	if debug {
		be := where[strings.LastIndex(where, "[")+1:]
		es := ""
		if jerr != nil {
			es = shortErr(jerr)
		}
		r.c.Hist["DEBUG-mismatch:"+kind+":"+be+":"+es]++
	}
	r.c.Violation("accept-verdict:"+vname(model)+"-vs-"+vname(juno)+":"+kind,
		fmt.Sprintf("%s: extracted accept_ev says %s (%s), juno says %s (%v)", where, vname(model), modelExplain(r.or, network, slot, b), vname(juno), jerr),
		rc, !(juno && !model))
}

func firstField(s string) string {
	for i := 0; i < len(s); i++ {
		if s[i] == ':' {
			return s[:i]
		}
	}
	return s
}

// selectTampers: all header / state-update / structural tamperings, and a seeded sample of the rest (quick tier)
func (r *runner) selectTampers(names []string, seed uint64) []string {
	if len(names) <= r.maxTampers {
		return names
	}
	var always, rest []string
	for _, n := range names {
		if len(n) > 3 && (n[:4] == "hdr." || n[:3] == "su." || n[:3] == "su+" || n[:4] == "txs." || (len(n) > 6 && n[:6] == "class.")) {
			always = append(always, n)
		} else {
			rest = append(rest, n)
		}
	}
	rng := hx.NewRNG(seed)
	for i := len(rest) - 1; i > 0; i-- {
		j := rng.Intn(i + 1)
		rest[i], rest[j] = rest[j], rest[i]
	}
	k := r.maxTampers - len(always)
	if k < 20 {
		k = 20
	}
	if k > len(rest) {
		k = len(rest)
	}
	return append(always, rest[:k]...)
}

// tamperKind strips the positions from a tamper name: tx.3.sig.elem0 -> tx.sig.elem0
func tamperKind(name string) string {
	out := make([]byte, 0, len(name))
	i := 0
	for i < len(name) {
		j := i
		for j < len(name) && name[j] != '.' {
			j++
		}
		seg := name[i:j]
		num := len(seg) > 0
		for _, ch := range seg {
			if ch < '0' || ch > '9' {
				num = false
			}
		}
		if !num {
			if len(out) > 0 {
				out = append(out, '.')
			}
			out = append(out, seg...)
		}
		i = j + 1
	}
	return string(out)
}

// carvedOut: the one single-field change that the 0.13.2 format maps to the same leaf by design of the
// protocol (empty signature hashed as [0]): [0] -> [] is not a tampering of a committed value there.
func carvedOut(b *Built, name string) bool {
	if vge(b.Block.ProtocolVersion, 0, 13, 4) || !vge(b.Block.ProtocolVersion, 0, 13, 2) {
		return false
	}
	var idx int
	var rest string
	if n, _ := fmt.Sscanf(name, "tx.%d.%s", &idx, &rest); n != 2 || rest != "sig.droplast" {
		return false
	}
	s := rawSig(b.Block.Transactions[idx])
	return len(s) == 1 && s[0].IsZero()
}
