// C02: class definitions that come with a block. core.VerifyClassHashes (first step of SanityCheckNewHeight
// after the two root/hash comparisons) recomputes the hash of every Sierra class and skips Cairo-0 classes.
// The class hash itself is outside the Coq model (an oracle there); here the real-network class fixtures go
// through the feeder adapters and VerifyClassHashes: the file name is the hash the network declared.
package main

import (
	"encoding/json"
	"fmt"
	"os"
	"path/filepath"
	"strings"

	"github.com/NethermindEth/juno/adapters/sn2core"
	"github.com/NethermindEth/juno/core"
	"github.com/NethermindEth/juno/core/felt"
	"github.com/NethermindEth/juno/starknet"
	"verifharness/term"
)

func adaptClassFile(path string, tamper func(*starknet.ClassDefinition)) (core.ClassDefinition, bool, error) {
	raw, err := os.ReadFile(path)
	if err != nil {
		return nil, false, err
	}
	var def starknet.ClassDefinition
	if err := json.Unmarshal(raw, &def); err != nil {
		return nil, false, err
	}
	if tamper != nil {
		tamper(&def)
	}
	if def.Sierra != nil {
		var casm *starknet.CasmClass
		cp := filepath.Join(filepath.Dir(filepath.Dir(path)), "compiled_class", filepath.Base(path))
		if craw, err := os.ReadFile(cp); err == nil {
			casm = new(starknet.CasmClass)
			if json.Unmarshal(craw, casm) != nil {
				casm = nil
			}
		}
		c, err := sn2core.AdaptSierraClass(def.Sierra, casm)
		return c, true, err
	}
	if def.DeprecatedCairo != nil {
		c, err := sn2core.AdaptDeprecatedCairoClass(def.DeprecatedCairo)
		return c, false, err
	}
	return nil, false, fmt.Errorf("neither Sierra nor Cairo-0")
}

func (r *runner) classFixtures() {
	stats := map[string]int{}
	files, _ := filepath.Glob(filepath.Join(fixtureRoot, "*", "class", "0x*.json"))
	for _, path := range files {
		id := strings.TrimPrefix(path, fixtureRoot+"/")
		declared := term.FeltFromHex(strings.TrimPrefix(strings.TrimSuffix(filepath.Base(path), ".json"), "0x"))
		rc := replayCase{Kind: "class-fixture", Detail: id}
		cls, sierra, err := adaptClassFile(path, nil)
		if err != nil {
			stats["unadaptable: "+shortErr(err)]++
			continue
		}
		h, err := cls.Hash()
		r.c.Count("class-fixture/"+id, true)
		if err != nil || !h.Equal(&declared) {
			if sierra {
				// one integration fixture carries a re-indented ABI string (juno's tests use it for the CASM hash only):
				// the file is not byte-faithful, so this is recorded, not reported
				stats["sierra: computed hash differs from the file name (fixture not byte-faithful): "+id]++
			} else {
				stats["cairo0: computed hash differs from the file name (not verified on acceptance)"]++
			}
			continue
		}
		if !sierra {
			stats["cairo0: hash equals network-declared"]++
			// Cairo-0 definitions are not verified when a block is accepted (VerifyClassHashes skips them): observation
			bad, _, _ := adaptClassFile(path, func(d *starknet.ClassDefinition) { d.DeprecatedCairo.Abi = json.RawMessage(`[]`) })
			if bad != nil && core.VerifyClassHashes(map[felt.Felt]core.ClassDefinition{declared: bad}) == nil {
				stats["cairo0: tampered definition passes VerifyClassHashes (skipped by design)"]++
			}
			continue
		}
		stats["sierra: hash equals network-declared"]++
		if mh := modelClassHash(r.or, cls.(*core.SierraClass)); !mh.Equal(&declared) {
			r.c.Violation("class-hash:fixture", fmt.Sprintf("%s: network-declared class hash %s, model %s", id, &declared, &mh), rc, true)
		} else {
			stats["sierra: MODEL hash equals network-declared"]++
		}
		if err := core.VerifyClassHashes(map[felt.Felt]core.ClassDefinition{declared: cls}); err != nil {
			r.c.Violation("fixture:class-hash:juno-rejects", fmt.Sprintf("%s: %v", id, err), rc, true)
			continue
		}
		tampers := map[string]func(*starknet.ClassDefinition){
			"program.last+1": func(d *starknet.ClassDefinition) {
				p := append([]felt.Felt{}, d.Sierra.Program...)
				p[len(p)-1] = *bump(&p[len(p)-1])
				d.Sierra.Program = p
			},
			"program.drop-last": func(d *starknet.ClassDefinition) { d.Sierra.Program = d.Sierra.Program[:len(d.Sierra.Program)-1] },
			"abi":               func(d *starknet.ClassDefinition) { d.Sierra.Abi += " " },
			"version":           func(d *starknet.ClassDefinition) { d.Sierra.Version += "0" },
			"entrypoint.selector": func(d *starknet.ClassDefinition) {
				if len(d.Sierra.EntryPoints.External) > 0 {
					e := d.Sierra.EntryPoints.External[0]
					e.Selector = bump(e.Selector)
					d.Sierra.EntryPoints.External = append([]starknet.SierraEntryPoint{e}, d.Sierra.EntryPoints.External[1:]...)
				} else {
					d.Sierra.Abi += "x"
				}
			},
		}
		for name, tf := range tampers {
			bad, _, err := adaptClassFile(path, tf)
			r.c.Count("class-fixture-tamper/"+id+"/"+name, true)
			if err != nil {
				stats["sierra tamper "+name+": rejected by the adapter"]++
				continue
			}
			if core.VerifyClassHashes(map[felt.Felt]core.ClassDefinition{declared: bad}) == nil {
				r.c.Violation("fixture:class-tamper-accepted:"+name, fmt.Sprintf("%s: definition with tampered %s passes VerifyClassHashes under the declared hash", id, name),
					replayCase{Kind: "class-fixture", Detail: id, Tamper: name}, false)
			} else {
				stats["sierra tamper "+name+": rejected"]++
			}
		}
	}
	r.c.Extra["class_fixtures"] = stats
}
