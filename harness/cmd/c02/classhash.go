// C02: the Sierra class hash. Model.class_hash (version string, three entry-point lists, StarknetKeccak of the
// ABI text, Poseidon of the program) evaluated with juno's primitives must equal juno's own class hash
// (sn2core.AdaptSierraClass + SierraClass.Hash) on generated definitions of every shape, and every single-field
// tampering of a definition must change both (core.VerifyClassHashes under the original key must fail).
package main

import (
	"fmt"
	"math/big"
	"strings"

	"github.com/NethermindEth/juno/core"
	"github.com/NethermindEth/juno/core/felt"
	"github.com/NethermindEth/juno/starknet"
	"verifharness/hx"
)

func maxFelt() *felt.Felt {
	var f felt.Felt
	f.SetBigInt(new(big.Int).Sub(feltP, big.NewInt(1)))
	return &f
}

// shapedDef: definition number n of the class-hash tie; the first ones are fixed corner shapes
func shapedDef(n int, r *hx.RNG) (*starknet.SierraClass, string) {
	ep := func(sel *felt.Felt, idx uint64) starknet.SierraEntryPoint {
		return starknet.SierraEntryPoint{Selector: sel, Index: idx}
	}
	switch n {
	case 0:
		return &starknet.SierraClass{Version: "0.1.0"}, "all-empty(empty-program,empty-abi,no-entry-points)"
	case 1:
		return &starknet.SierraClass{Version: "", Abi: "", Program: []felt.Felt{core.SierraVersion010}}, "empty-version"
	case 2:
		return &starknet.SierraClass{Version: "0.1.0", Abi: "[]", Program: []felt.Felt{*fz(1), *fz(2), *fz(3)},
			EntryPoints: starknet.SierraEntryPoints{External: []starknet.SierraEntryPoint{ep(fz(0), 0)}}}, "one-external-zero"
	case 3:
		return &starknet.SierraClass{Version: "0.1.0", Abi: "[]", Program: []felt.Felt{*maxFelt(), *fz(0), *maxFelt()},
			EntryPoints: starknet.SierraEntryPoints{
				External:    []starknet.SierraEntryPoint{ep(maxFelt(), ^uint64(0)), ep(fz(0), 0), ep(maxFelt(), ^uint64(0))},
				L1Handler:   []starknet.SierraEntryPoint{ep(maxFelt(), 1<<63)},
				Constructor: []starknet.SierraEntryPoint{ep(fz(1), ^uint64(0)-1)}}}, "boundary-felts-and-indices"
	case 4:
		d := &starknet.SierraClass{Version: "0.1.0", Abi: strings.Repeat("x", 5000), Program: []felt.Felt{*fz(1), *fz(2), *fz(3)}}
		for i := 0; i < 40; i++ {
			d.EntryPoints.External = append(d.EntryPoints.External, ep(rf(r), uint64(i)))
			d.EntryPoints.L1Handler = append(d.EntryPoints.L1Handler, ep(rf(r), ru64(r)))
		}
		for i := 0; i < 200; i++ {
			d.Program = append(d.Program, *rf(r))
		}
		return d, "many-entry-points-long-program-long-abi"
	case 5:
		return &starknet.SierraClass{Version: "123456789012345", Abi: "\x00", Program: []felt.Felt{*fz(1), *fz(2), *fz(3)}}, "15-byte-version,nul-abi"
	case 6:
		// a 16-byte version makes the 32-byte string wrap around the field modulus only for very large values; still one felt
		return &starknet.SierraClass{Version: "1234567890123456", Abi: "[]", Program: []felt.Felt{*fz(1), *fz(2), *fz(3)}}, "16-byte-version"
	case 7:
		return &starknet.SierraClass{Version: strings.Repeat("\xff", 40), Abi: "[]", Program: []felt.Felt{*fz(1), *fz(2), *fz(3)}}, "40-byte-version(reduced-modulo-P)"
	case 8:
		return &starknet.SierraClass{Version: "0.1.0", Abi: "[]", Program: []felt.Felt{*fz(1), *fz(2), *fz(3)},
			EntryPoints: starknet.SierraEntryPoints{Constructor: []starknet.SierraEntryPoint{ep(fz(5), 7)}}}, "one-constructor"
	case 9:
		return &starknet.SierraClass{Version: "0.1.0", Abi: "[]", Program: []felt.Felt{*fz(1), *fz(2), *fz(3)},
			EntryPoints: starknet.SierraEntryPoints{L1Handler: []starknet.SierraEntryPoint{ep(fz(5), 7)}}}, "one-l1handler(same-entry-as-one-constructor)"
	case 10:
		return &starknet.SierraClass{Version: "0.1.0", Abi: "[]", Program: []felt.Felt{*fz(1), *fz(2)}}, "two-felt-program"
	}
	d := sierraDef(uint64(1000 + n))
	if r.Chance(20) {
		d.Program = rfs(r, 2) // possibly empty; the adapter refuses it
	}
	return d, "generated"
}

func (r *runner) classHashes() {
	n := 90
	if r.c.Thorough() {
		n = 3000
	}
	rng := hx.NewRNG(r.c.Seed ^ 0xc1a5)
	stats := map[string]int{}
	for i := 0; i < n; i++ {
		def, what := shapedDef(i, rng.Fork(uint64(i)))
		sc, viaAdapter := adaptSierra(def)
		if !viaAdapter {
			stats["adapter refuses the definition (program too short): hash fields filled the adapter's way"]++
		}
		jh, err := sc.Hash()
		mh := modelClassHash(r.or, sc)
		r.c.Count(fmt.Sprintf("class-hash/%d", i), true)
		rc := replayCase{Kind: "class-hash", Pos: i}
		if err != nil || !jh.Equal(&mh) {
			r.c.Violation("class-hash:"+what, fmt.Sprintf("definition %d (%s): juno's class hash %s (%v), model %s", i, what, &jh, err, &mh), rc, true)
			continue
		}
		stats["juno = model: "+what]++
		if core.VerifyClassHashes(map[felt.Felt]core.ClassDefinition{mh: sc}) != nil {
			r.c.Violation("class-hash:verify-rejects-own-hash", fmt.Sprintf("definition %d (%s)", i, what), rc, true)
			continue
		}
		// every single-field tampering of the definition: juno's VerifyClassHashes under the original key must fail,
		// and the model's hash must move as well
		b := &Built{Classes: map[felt.Felt]core.ClassDefinition{mh: sc}}
		var names []string
		tamperClasses(func(name string, _ func()) { names = append(names, name) }, b)
		for _, name := range names {
			if strings.HasSuffix(name, ".rekey") || strings.HasSuffix(name, ".withheld") {
				continue
			}
			sc2, _ := adaptSierra(def)
			t := &Built{Classes: map[felt.Felt]core.ClassDefinition{mh: sc2}}
			done := false
			tamperClasses(func(nm string, mutate func()) {
				if nm == name && !done {
					mutate()
					done = true
				}
			}, t)
			kind := tamperKind(name)
			r.c.Count(fmt.Sprintf("class-hash/%d/%s", i, name), true)
			if core.VerifyClassHashes(t.Classes) == nil {
				r.c.Violation("class-hash:tamper-same-hash:"+kind, fmt.Sprintf("definition %d (%s): tampering %s leaves juno's class hash unchanged", i, what, name),
					replayCase{Kind: "class-hash", Pos: i, Tamper: name}, false)
				continue
			}
			if t.ClassCacheTampered {
				stats["tamper of a cached hash field: rejected by VerifyClassHashes"]++
				continue
			}
			tsc := t.Classes[mh].(*core.SierraClass)
			if tm := modelClassHash(r.or, tsc); tm.Equal(&mh) {
				r.c.Violation("class-hash:model-tamper-same-hash:"+kind, fmt.Sprintf("definition %d (%s): tampering %s leaves the MODEL's class hash unchanged", i, what, name),
					replayCase{Kind: "class-hash", Pos: i, Tamper: name}, true)
			} else if jt, _ := tsc.Hash(); !jt.Equal(&tm) {
				r.c.Violation("class-hash:"+what+":tampered", fmt.Sprintf("definition %d tampering %s: juno %s model %s", i, name, &jt, &tm),
					replayCase{Kind: "class-hash", Pos: i, Tamper: name}, true)
			}
			stats["tamper rejected: "+kind]++
		}
	}
	// observation (not pass/fail): SierraClass.Hash reads the CACHED AbiHash / ProgramHash; a core object whose Abi
	// text or Program was edited without refreshing them still verifies. Every producer of a core.SierraClass in
	// juno (adapters/sn2core, adapters/p2p2core) derives the two fields from the text / the program.
	{
		sc := sierraClass(424242)
		k, _ := sc.Hash()
		sc.Abi += " "
		sc.Program = append(sc.Program, felt.Zero)
		if core.VerifyClassHashes(map[felt.Felt]core.ClassDefinition{k: sc}) == nil {
			stats["observation: core.SierraClass with Abi/Program edited but AbiHash/ProgramHash kept passes VerifyClassHashes (cached fields are what is hashed)"]++
		}
	}
	r.c.Extra["class_hash_tie"] = stats
}
