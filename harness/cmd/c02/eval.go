// C02: evaluation of the hash terms the extracted accept_ev asks about, with juno's own primitives
// (core/crypto), memoised per sub-term: across the tamperings of one block almost every sub-term (the state
// commitment, the untouched transaction hashes, the untouched trie branches) is asked about again.
// Grammar (oracle/c02/main.ml show_term): (C hex) | (P a b) | (S a b) | (SN a...) | (PN a...) | (A a n) | (B bits|-)
package main

import (
	"crypto/sha256"
	"math/big"
	"strconv"
	"sync"

	"github.com/NethermindEth/juno/core/crypto"
	"github.com/NethermindEth/juno/core/felt"
	"verifharness/hx"
	"verifharness/term"
)

type memoEval struct {
	mu         sync.Mutex
	cache      map[[16]byte]felt.Felt
	Hits, Miss int
}

func newMemoEval() *memoEval { return &memoEval{cache: map[[16]byte]felt.Felt{}} }

func (m *memoEval) eval(s string) felt.Felt {
	m.mu.Lock()
	defer m.mu.Unlock()
	// matching parentheses in one pass
	match := make([]int32, len(s))
	var stack []int32
	for i := 0; i < len(s); i++ {
		switch s[i] {
		case '(':
			stack = append(stack, int32(i))
		case ')':
			if len(stack) == 0 {
				hx.Fatalf("unbalanced term")
			}
			match[stack[len(stack)-1]] = int32(i)
			stack = stack[:len(stack)-1]
		}
	}
	if len(stack) != 0 || len(s) == 0 || s[0] != '(' || int(match[0]) != len(s)-1 {
		hx.Fatalf("malformed term %q", s[:min(len(s), 60)])
	}
	if len(m.cache) > 400_000 {
		m.cache = map[[16]byte]felt.Felt{}
	}
	return m.node(s, match, 0)
}

func skipSpace(s string, i int) int {
	for i < len(s) && s[i] == ' ' {
		i++
	}
	return i
}

func word(s string, i int) (string, int) {
	j := i
	for j < len(s) && s[j] != ' ' && s[j] != ')' && s[j] != '(' {
		j++
	}
	return s[i:j], j
}

// node evaluates the term that starts at s[i] == '('
func (m *memoEval) node(s string, match []int32, i int) felt.Felt {
	end := int(match[i])
	op, p := word(s, i+1)
	p = skipSpace(s, p)
	if op == "C" { // constants are not worth a cache entry
		h, _ := word(s, p)
		return term.FeltFromHex(h)
	}
	sum := sha256.Sum256([]byte(s[i : end+1]))
	var key [16]byte
	copy(key[:], sum[:16])
	if v, ok := m.cache[key]; ok {
		m.Hits++
		return v
	}
	m.Miss++
	var res felt.Felt
	switch op {
	case "B":
		bits, _ := word(s, p)
		if bits != "-" {
			b, ok := new(big.Int).SetString(bits, 2)
			if !ok {
				hx.Fatalf("bad bits %q", bits)
			}
			res.SetBigInt(b)
		}
	case "A":
		a := m.node(s, match, p)
		ns, _ := word(s, skipSpace(s, int(match[p])+1))
		n, err := strconv.ParseUint(ns, 10, 64)
		hx.Must(err)
		nf := felt.FromUint64[felt.Felt](n)
		res.Add(&a, &nf)
	case "P", "S", "SN", "PN":
		var as []felt.Felt
		for p < end {
			if s[p] != '(' {
				hx.Fatalf("term: expected ( at %d", p)
			}
			as = append(as, m.node(s, match, p))
			p = skipSpace(s, int(match[p])+1)
		}
		switch op {
		case "P":
			if len(as) != 2 {
				hx.Fatalf("P arity")
			}
			res = crypto.Pedersen(&as[0], &as[1])
		case "S":
			if len(as) != 2 {
				hx.Fatalf("S arity")
			}
			res = crypto.Poseidon(&as[0], &as[1])
		case "SN":
			res = crypto.PoseidonArray(as)
		case "PN":
			res = crypto.PedersenArray(as)
		}
	default:
		hx.Fatalf("term: unknown op %q", op)
	}
	m.cache[key] = res
	return res
}
