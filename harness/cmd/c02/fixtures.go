// C02: real-network fixture blocks from /repo/clients/feeder/testdata (offline JSON files) through model and
// code: every transaction hash the model covers must equal the hash the NETWORK declared, the model's
// commitments must equal the ones in the feeder response, the model's block hash must equal the declared one,
// core.VerifyBlockHash must accept the block and reject every single-field tampering of a committed field.
package main

import (
	"encoding/json"
	"fmt"
	"os"
	"path/filepath"
	"sort"
	"strconv"
	"strings"
	"time"

	"github.com/NethermindEth/juno/adapters/sn2core"
	"github.com/NethermindEth/juno/blockchain/networks"
	"github.com/NethermindEth/juno/core"
	"github.com/NethermindEth/juno/core/felt"
	"github.com/NethermindEth/juno/starknet"
	"verifharness/hx"
)

const fixtureRoot = "/repo/clients/feeder/testdata"

var fixtureNets = map[string]*networks.Network{
	"sepolia": &networks.Sepolia, "sepolia-integration": &networks.SepoliaIntegration, "mainnet": &networks.Mainnet,
	"integration": &networks.Integration, "goerli": &networks.Goerli, "goerli2": &networks.Goerli2,
}

type fixture struct {
	Net   string
	Name  string
	block []byte // JSON of starknet.Block
	su    []byte // JSON of starknet.StateUpdate, or nil
}

func loadFixtures() []fixture {
	var res []fixture
	for net := range fixtureNets {
		seen := map[string]bool{}
		// state_update_with_block: both parts in one file
		files, _ := filepath.Glob(filepath.Join(fixtureRoot, net, "state_update_with_block", "*.json"))
		for _, f := range files {
			raw, err := os.ReadFile(f)
			if err != nil {
				continue
			}
			var both struct {
				StateUpdate json.RawMessage `json:"state_update"`
				Block       json.RawMessage `json:"block"`
			}
			if json.Unmarshal(raw, &both) != nil || both.Block == nil {
				continue
			}
			name := strings.TrimSuffix(filepath.Base(f), ".json")
			if _, err := strconv.Atoi(name); err != nil {
				continue
			}
			seen[name] = true
			res = append(res, fixture{Net: net, Name: name, block: both.Block, su: both.StateUpdate})
		}
		files, _ = filepath.Glob(filepath.Join(fixtureRoot, net, "block", "*.json"))
		for _, f := range files {
			name := strings.TrimSuffix(filepath.Base(f), ".json")
			if _, err := strconv.Atoi(name); err != nil || seen[name] {
				continue
			}
			raw, err := os.ReadFile(f)
			if err != nil {
				continue
			}
			fx := fixture{Net: net, Name: name, block: raw}
			if su, err := os.ReadFile(filepath.Join(fixtureRoot, net, "state_update", name+".json")); err == nil {
				fx.su = su
			}
			res = append(res, fx)
		}
	}
	sort.Slice(res, func(i, j int) bool { return res[i].Net+"/"+res[i].Name < res[j].Net+"/"+res[j].Name })
	return res
}

// parse builds fresh juno objects (so that tamperings never share memory) plus the raw feeder block
func (fx *fixture) parse() (*Built, *starknet.Block, bool) {
	var resp starknet.Block
	if err := json.Unmarshal(fx.block, &resp); err != nil {
		return nil, nil, false
	}
	blk, err := sn2core.AdaptBlock(&resp, nil)
	if err != nil {
		return nil, nil, false
	}
	b := &Built{Block: blk}
	if fx.su != nil {
		var sresp starknet.StateUpdate
		if err := json.Unmarshal(fx.su, &sresp); err == nil {
			if su, err := sn2core.AdaptStateUpdate(&sresp); err == nil {
				b.Update = su
			}
		}
	}
	hasSU := b.Update != nil
	if !hasSU {
		d := core.EmptyStateDiff()
		b.Update = &core.StateUpdate{StateDiff: &d, BlockHash: blk.Hash, NewRoot: blk.GlobalStateRoot, OldRoot: &felt.Zero}
	}
	return b, &resp, hasSU
}

func nz(f *felt.Felt) bool { return f != nil && !f.IsZero() }

func (r *runner) fixtures() {
	fxs := loadFixtures()
	stats := map[string]int{}
	rng := hx.NewRNG(r.c.Seed ^ 0xf1f1)
	start := time.Now()
	// quick tier: rotate the starting fixture with the seed so that the budgeted sweep covers all of them over seeds
	if n := len(fxs); n > 0 && !r.c.Thorough() {
		k := int(r.c.Seed % uint64(n))
		fxs = append(append([]fixture{}, fxs[k:]...), fxs[:k]...)
	}
	for i := range fxs {
		fx := &fxs[i]
		net := fixtureNets[fx.Net]
		b, resp, hasSU := fx.parse()
		if b == nil {
			stats["unparsable"]++
			continue
		}
		id := fx.Net + "/" + fx.Name
		ver, err := core.ParseBlockVersion(b.Block.ProtocolVersion)
		if err != nil {
			continue
		}
		verStr := fmt.Sprintf("%d.%d.%d", ver.Major(), ver.Minor(), ver.Patch())
		rc := replayCase{Kind: "fixture", Detail: id}
		// 1. transaction hashes declared by the network
		verified := vge(b.Block.ProtocolVersion, 0, 11, 0)
		synthetic := false
		for _, tx := range b.Block.Transactions {
			spec := txSpec(tx)
			switch {
			case spec == "":
				stats["tx:outside-model"]++
			case strings.HasPrefix(spec, "unv|"):
				stats["tx:not-recomputed-by-juno"]++
			case !verified:
				stats["tx:block-version<0.11.0(not verified)"]++
			default:
				rep := r.or.AskUntil("tx "+net.L2ChainIDFelt().Text(16)+" "+spec, "end")
				mh := evalLine(rep[0], "hash")
				r.c.Count("fixture-tx/"+id+"/"+tx.Hash().String(), true)
				stats["tx:"+strings.SplitN(spec, "|", 2)[0]]++
				jh, jerr := core.TransactionHash(tx, net)
				switch {
				case jerr != nil || !jh.Equal(&mh):
					r.c.Violation("fixture:tx-hash:model-vs-juno:"+strings.SplitN(spec, "|", 2)[0],
						fmt.Sprintf("%s: juno %s (%v), model %s (%s)", id, &jh, jerr, &mh, spec), rc, true)
				case !mh.Equal(tx.Hash()):
					// juno and the model agree with each other but not with the file: the fixture is not a genuine
					// block of that network (hand-made test data); juno's VerifyBlockHash rejects it as well
					stats["tx:declared-hash-not-reproducible-by-juno-either(synthetic fixture):"+id]++
					synthetic = true
				default:
					stats["tx-hash-equals-network-declared"]++
				}
			}
		}
		// 2. which block-hash format, and is it inside the model?
		post0132 := !ver.LessThan(core.Ver0_13_2)
		meta := net.BlockHashMetaInfo
		inUnverifiable := meta.UnverifiableRange != nil && b.Block.Number >= meta.UnverifiableRange[0] && b.Block.Number <= meta.UnverifiableRange[1]
		pre07 := !post0132 && b.Block.Number < meta.First07Block
		b.Pre07 = pre07
		switch {
		case inUnverifiable:
			stats["block:unverifiable-range(outside model)"]++
			continue
		case b.Block.SequencerAddress == nil && !pre07:
			stats["block:no-sequencer-address(fallback, outside model)"]++
			continue
		}
		if synthetic {
			stats["block:synthetic-fixture(skipped)"]++
			continue
		}
		mh := askBlock(r.or, b.Block, b.Update.StateDiff)
		if pre07 {
			mh.BH, mh.HasBH = askBlock07(r.or, b.Block, b.Update.StateDiff, net), true
			verStr = "pre-0.7"
		}
		// commitments in the feeder response (for blocks older than 0.13.2 the feeder serves commitments recomputed
		// in the later Poseidon format, not the ones inside the block hash: compared only from 0.13.2 on)
		if post0132 && nz(resp.TransactionCommitment) && !resp.TransactionCommitment.Equal(&mh.TxC) {
			r.c.Violation("fixture:tx-commitment", fmt.Sprintf("%s (%s): feeder %s model %s", id, verStr, resp.TransactionCommitment, &mh.TxC), rc, true)
		}
		if post0132 && nz(resp.EventCommitment) && !resp.EventCommitment.Equal(&mh.EvC) {
			r.c.Violation("fixture:event-commitment", fmt.Sprintf("%s (%s): feeder %s model %s", id, verStr, resp.EventCommitment, &mh.EvC), rc, true)
		}
		if post0132 && nz(resp.ReceiptCommitment) && !resp.ReceiptCommitment.Equal(&mh.RcC) {
			r.c.Violation("fixture:receipt-commitment", fmt.Sprintf("%s (%s): feeder %s model %s", id, verStr, resp.ReceiptCommitment, &mh.RcC), rc, true)
		}
		if post0132 && hasSU && nz(resp.StateDiffCommitment) && !resp.StateDiffCommitment.Equal(&mh.SdH) {
			r.c.Violation("fixture:state-diff-hash", fmt.Sprintf("%s (%s): feeder %s model %s", id, verStr, resp.StateDiffCommitment, &mh.SdH), rc, true)
		}
		if post0132 {
			stats["block:commitments-equal-feeder:"+verStr]++
		} else if nz(resp.TransactionCommitment) && !resp.TransactionCommitment.Equal(&mh.TxC) {
			stats["block:feeder-commitment-of-later-format(pre-0.13.2 block)"]++
		}
		if post0132 && !hasSU {
			stats["block:no-state-update(hash not checkable)"]++
			continue
		}
		// 3. the block hash declared by the network
		r.c.Count("fixture-block/"+id, true)
		if !mh.HasBH || !mh.BH.Equal(b.Block.Hash) {
			r.c.Violation("fixture:block-hash", fmt.Sprintf("%s (%s): network-declared block hash %s, model %s", id, verStr, b.Block.Hash, &mh.BH), rc, true)
			continue
		}
		if _, err := core.VerifyBlockHash(b.Block, net, b.Update.StateDiff, core.TrieBackend); err != nil {
			r.c.Violation("fixture:juno-rejects", fmt.Sprintf("%s: VerifyBlockHash: %v", id, err), rc, true)
			continue
		}
		stats["block:hash-verified:"+verStr]++
		// the extracted verify_block_hash (receipts pairing, transaction hashes, block hash; hash terms evaluated with
		// juno's primitives) must say the same as core.VerifyBlockHash, on the fixture and on each tampering below
		modelled := !pre07 && representableVBH(b)
		if modelled {
			if !modelVBH(r.or, net, b) {
				r.c.Violation("accept-verdict:reject-vs-accept:fixture:valid", fmt.Sprintf("%s (%s): the extracted verify_block_hash rejects a block core.VerifyBlockHash accepts", id, verStr), rc, true)
			} else {
				stats["block:extracted-verify_block_hash-accepts:"+verStr]++
			}
		} else {
			stats["block:extracted-verdict-not-applicable(pre-0.7 format)"]++
		}
		// 4. tamper sweep against the hash verification part of SanityCheckNewHeight
		var names []string
		forEachTamper(b, func(n string, _ func()) {
			if strings.HasPrefix(n, "su.") || strings.HasPrefix(n, "su+") || n == "hdr.hash" {
				return
			}
			if !post0132 && strings.HasPrefix(n, "diff.") {
				return // not hashed in the post-0.7 format; the root check needs the state, which a fixture does not have
			}
			if !verified && strings.HasPrefix(n, "tx.") && !strings.HasSuffix(n, ".hash") && !strings.Contains(n, ".sig.") {
				return // below 0.11.0 juno does not recompute transaction hashes
			}
			if committedIn(b, n) {
				names = append(names, n)
			}
		})
		sort.Strings(names)
		limit := 12
		if r.c.Thorough() {
			// thorough tier: up to 300 alterations per fixture (each one re-parses the fixture and re-enumerates its
			// fields, so whole 1000-transaction blocks would take hours), 12 once 25 minutes are used up
			limit = min(len(names), 300)
			if time.Since(start) > 25*time.Minute {
				limit = min(len(names), 12)
				stats["tamper:sweep-sampled(thorough time budget)"]++
			}
		} else if time.Since(start) > 11*time.Second {
			limit = 0 // quick tier: the sweep over fixtures has a time budget; the correspondence part always runs
			stats["tamper:sweep-skipped(time budget)"]++
		}
		for i := len(names) - 1; i > 0; i-- {
			j := rng.Intn(i + 1)
			names[i], names[j] = names[j], names[i]
		}
		if len(names) > limit {
			names = names[:limit]
		}
		// regression input of the fixed defect sanity-panic:nil-gas-price-in-0.13.4-format: a real block of an older
		// format (no l2_gas_price / l1 data gas price object) whose version string alone is changed to a >= 0.13.4
		// one must be rejected, not panic — always run, whatever the sampling and the time budget
		if b.Block.L2GasPrice == nil || b.Block.L1DataGasPrice == nil {
			has := false
			for _, n := range names {
				has = has || n == "hdr.version.relabel0134"
			}
			if !has && !vge(b.Block.ProtocolVersion, 0, 13, 4) {
				names = append(names, "hdr.version.relabel0134")
			}
			stats["regression:nil-price-object-under-newer-version"]++
		}
		for _, name := range names {
			t, _, _ := fx.parse()
			t.Pre07 = pre07
			if carvedOut(t, name) {
				continue
			}
			done := false
			forEachTamper(t, func(n string, mutate func()) {
				if n == name && !done {
					mutate()
					done = true
				}
			})
			mv, haveMV := false, false
			if modelled && representableVBH(t) {
				mv, haveMV = modelVBH(r.or, net, t), true
			}
			var verr error
			func() {
				defer func() {
					if p := recover(); p != nil {
						verr = fmt.Errorf("panic: %v", p)
						stats["tamper:panic-in-VerifyBlockHash:"+id+":"+name+": "+fmt.Sprint(p)]++
					}
				}()
				_, verr = core.VerifyBlockHash(t.Block, net, t.Update.StateDiff, core.TrieBackend)
			}()
			r.c.Count("fixture-tamper/"+id+"/"+name, true)
			stats["tamper:probes"]++
			if haveMV && !(verr != nil && strings.HasPrefix(verr.Error(), "panic:")) {
				stats["tamper:extracted-verdict-compared"]++
				if mv != (verr == nil) {
					r.c.Violation("accept-verdict:"+vname(mv)+"-vs-"+vname(verr == nil)+":fixture:"+tamperKind(name),
						fmt.Sprintf("%s (%s) tampering %s: extracted verify_block_hash says %s, core.VerifyBlockHash says %s (%v)", id, verStr, name, vname(mv), vname(verr == nil), verr),
						replayCase{Kind: "fixture", Detail: id, Tamper: name}, !(verr == nil && !mv))
				}
			}
			if false {
			} else if verr != nil && strings.HasPrefix(verr.Error(), "panic:") {
				r.c.Violation("fixture:tamper-panic:"+tamperKind(name), fmt.Sprintf("%s (%s) tampering %s: %v", id, verStr, name, verr),
					replayCase{Kind: "fixture", Detail: id, Tamper: name}, false)
			}
			if verr == nil {
				r.c.Violation("fixture:tamper-accepted:"+tamperKind(name),
					fmt.Sprintf("%s (%s): tampering %s passes core.VerifyBlockHash", id, verStr, name), replayCase{Kind: "fixture", Detail: id, Tamper: name}, false)
			}
		}
	}
	r.c.Extra["fixtures"] = stats
	r.c.Extra["fixture_files"] = len(fxs)
}
