// C02 generator: synthetic blocks (header, every modelled transaction kind, receipts with events and
// messages, state diff) as juno objects. Generation is a pure function of (seed, immutable context), so a
// fresh, fully independent copy of any block is obtained by generating it again.
package main

import (
	"fmt"
	"math/big"
	"sort"

	"github.com/NethermindEth/juno/core"
	"github.com/NethermindEth/juno/core/felt"
	"github.com/NethermindEth/juno/l1/eth"
	"verifharness/chain"
	"verifharness/hx"
)

var feltP, _ = new(big.Int).SetString("800000000000011000000000000000000000000000000000000000000000001", 16)

func fz(x uint64) *felt.Felt { return chain.F(x) }

// rf: a felt from a distribution that mixes tiny values, 64/128-bit boundaries and full-width values
func rf(r *hx.RNG) *felt.Felt {
	var b *big.Int
	switch r.Intn(6) {
	case 0:
		b = big.NewInt(int64(r.Intn(4)))
	case 1:
		b = new(big.Int).SetUint64(r.U64())
	case 2:
		b = new(big.Int).Lsh(big.NewInt(1), uint(64*(1+r.Intn(3))))
		b.Add(b, big.NewInt(int64(r.Intn(3))-1))
	default:
		b = new(big.Int).SetUint64(r.U64())
		for i := 0; i < 3; i++ {
			b.Lsh(b, 64)
			b.Or(b, new(big.Int).SetUint64(r.U64()))
		}
		b.Mod(b, feltP)
	}
	var f felt.Felt
	f.SetBigInt(b)
	return &f
}

func rfs(r *hx.RNG, max int) []felt.Felt {
	n := r.Intn(max + 1)
	res := make([]felt.Felt, 0, n)
	for i := 0; i < n; i++ {
		res = append(res, *rf(r))
	}
	return res
}

func r128(r *hx.RNG) *felt.Felt {
	b := new(big.Int).SetUint64(r.U64())
	if r.Bool() {
		b.Lsh(b, 64)
		b.Or(b, new(big.Int).SetUint64(r.U64()))
	}
	var f felt.Felt
	f.SetBigInt(b)
	return &f
}

func ru64(r *hx.RNG) uint64 {
	switch r.Intn(4) {
	case 0:
		return uint64(r.Intn(3))
	case 1:
		return ^uint64(0) - uint64(r.Intn(2))
	default:
		return r.U64()
	}
}

// blockCtx is the immutable context a block is generated in.
type blockCtx struct {
	Number     uint64
	Version    string
	Timestamp  uint64
	Deployed   []uint64 // addresses deployed by earlier blocks
	Sierra     []uint64 // sierra class ids declared by earlier blocks
	Migratable []uint64 // of those: declared before 0.14.1 and not migrated yet
	NextAddr   uint64
	NextClass  uint64
}

type Built struct {
	Block   *core.Block
	Update  *core.StateUpdate
	Classes map[felt.Felt]core.ClassDefinition
	Kinds   []string // transaction kinds, for the histogram
}

var sierraCache = map[uint64]*felt.Felt{}

func sierraHash(id uint64) *felt.Felt {
	if h, ok := sierraCache[id]; ok {
		return h
	}
	h := chain.SierraHash(id)
	sierraCache[id] = h
	return h
}

func txVersion(v uint64, q bool) *core.TransactionVersion {
	tv := new(core.TransactionVersion).SetUint64(v)
	if q {
		qb := new(felt.Felt).Exp(fz(2), big.NewInt(128))
		tv.AsFelt().Add(tv.AsFelt(), qb)
	}
	return tv
}

func genBounds(r *hx.RNG, withL1Data bool) map[core.Resource]core.ResourceBounds {
	m := map[core.Resource]core.ResourceBounds{
		core.ResourceL1Gas: {MaxAmount: ru64(r), MaxPricePerUnit: r128(r)},
		core.ResourceL2Gas: {MaxAmount: ru64(r), MaxPricePerUnit: r128(r)},
	}
	if withL1Data {
		m[core.ResourceL1DataGas] = core.ResourceBounds{MaxAmount: ru64(r), MaxPricePerUnit: r128(r)}
	}
	return m
}

func genTx(r *hx.RNG, ver string) (core.Transaction, string) {
	q := r.Chance(8)
	l1data := ver >= "0.13.4" || r.Chance(30)
	da := func() core.DataAvailabilityMode { return core.DataAvailabilityMode(r.Intn(2)) }
	sig := rfs(r, 3)
	if r.Chance(10) {
		sig = []felt.Felt{{}} // the signature [0]
	}
	k := r.Intn(20)
	if ver < "0.13.2" && r.Chance(20) {
		k = 20 + r.Intn(2) // the kinds whose hash juno does not recompute, in old-format blocks
	}
	switch {
	case k == 20:
		return &core.DeployTransaction{TransactionHash: rf(r), Version: txVersion(uint64(r.Intn(2)), false), ContractAddress: rf(r),
			ContractAddressSalt: rf(r), ClassHash: rf(r), ConstructorCallData: rfs(r, 3)}, "deploy"
	case k == 21:
		return &core.DeclareTransaction{TransactionHash: rf(r), Version: txVersion(0, false), SenderAddress: rf(r), MaxFee: rf(r),
			Nonce: rf(r), ClassHash: rf(r), TransactionSignature: sig}, "declare_v0"
	case k < 6:
		t := &core.InvokeTransaction{Version: txVersion(3, q), SenderAddress: rf(r), Nonce: rf(r), CallData: rfs(r, 3),
			ResourceBounds: genBounds(r, l1data), Tip: ru64(r), PaymasterData: rfs(r, 2), AccountDeploymentData: rfs(r, 2),
			NonceDAMode: da(), FeeDAMode: da(), TransactionSignature: sig}
		if r.Chance(25) {
			t.ProofFacts = rfs(r, 2)
		}
		return t, "invoke_v3"
	case k < 8:
		return &core.InvokeTransaction{Version: txVersion(1, q), SenderAddress: rf(r), MaxFee: rf(r), Nonce: rf(r),
			CallData: rfs(r, 3), TransactionSignature: sig}, "invoke_v1"
	case k < 9:
		return &core.InvokeTransaction{Version: txVersion(0, q), ContractAddress: rf(r), EntryPointSelector: rf(r), MaxFee: rf(r),
			CallData: rfs(r, 3), TransactionSignature: sig}, "invoke_v0"
	case k < 11:
		return &core.DeclareTransaction{Version: txVersion(3, q), SenderAddress: rf(r), Nonce: rf(r), ClassHash: rf(r),
			CompiledClassHash: rf(r), ResourceBounds: genBounds(r, l1data), Tip: ru64(r), PaymasterData: rfs(r, 2),
			AccountDeploymentData: rfs(r, 2), NonceDAMode: da(), FeeDAMode: da(), TransactionSignature: sig}, "declare_v3"
	case k < 13:
		return &core.DeclareTransaction{Version: txVersion(2, q), SenderAddress: rf(r), MaxFee: rf(r), Nonce: rf(r), ClassHash: rf(r),
			CompiledClassHash: rf(r), TransactionSignature: sig}, "declare_v2"
	case k < 14:
		return &core.DeclareTransaction{Version: txVersion(1, q), SenderAddress: rf(r), MaxFee: rf(r), Nonce: rf(r), ClassHash: rf(r),
			TransactionSignature: sig}, "declare_v1"
	case k < 16:
		return &core.DeployAccountTransaction{
			DeployTransaction: core.DeployTransaction{Version: txVersion(3, q), ContractAddress: rf(r), ContractAddressSalt: rf(r),
				ClassHash: rf(r), ConstructorCallData: rfs(r, 3)},
			Nonce: rf(r), ResourceBounds: genBounds(r, l1data), Tip: ru64(r), PaymasterData: rfs(r, 2),
			NonceDAMode: da(), FeeDAMode: da(), TransactionSignature: sig}, "deploy_account_v3"
	case k < 18:
		return &core.DeployAccountTransaction{
			DeployTransaction: core.DeployTransaction{Version: txVersion(1, q), ContractAddress: rf(r), ContractAddressSalt: rf(r),
				ClassHash: rf(r), ConstructorCallData: rfs(r, 3)},
			MaxFee: rf(r), Nonce: rf(r), TransactionSignature: sig}, "deploy_account_v1"
	default:
		cd := rfs(r, 3)
		if len(cd) == 0 {
			cd = []felt.Felt{*rf(r)} // CallData[0] is the L1 sender (MessageHash reads it)
		}
		return &core.L1HandlerTransaction{Version: txVersion(0, q), ContractAddress: rf(r), EntryPointSelector: rf(r),
			Nonce: rf(r), CallData: cd}, "l1_handler"
	}
}

func genReceipt(r *hx.RNG, tx core.Transaction) *core.TransactionReceipt {
	rc := &core.TransactionReceipt{Fee: rf(r), FeeUnit: core.FeeUnit(r.Intn(2)),
		ExecutionResources: &core.ExecutionResources{Steps: uint64(r.Intn(1000)),
			TotalGasConsumed: &core.GasConsumed{L1Gas: ru64(r), L1DataGas: ru64(r), L2Gas: ru64(r)}}}
	if r.Chance(10) {
		rc.ExecutionResources.TotalGasConsumed = nil
	}
	for i, n := 0, r.Intn(4); i < n; i++ {
		rc.Events = append(rc.Events, &core.Event{From: rf(r), Keys: rfs(r, 3), Data: rfs(r, 3)})
	}
	for i, n := 0, r.Intn(3); i < n; i++ {
		var to [20]byte
		for j := range to {
			to[j] = byte(r.U64())
		}
		rc.L2ToL1Message = append(rc.L2ToL1Message, &core.L2ToL1Message{From: rf(r), To: eth.AddressFromBytes(to[:]), Payload: rfs(r, 3)})
	}
	if r.Chance(25) {
		rc.Reverted = true
		rc.RevertReason = fmt.Sprintf("reason-%d", r.Intn(1000))
	}
	if l1, ok := tx.(*core.L1HandlerTransaction); ok {
		rc.L1ToL2Message = &core.L1ToL2Message{Nonce: l1.Nonce, Payload: l1.CallData[1:], Selector: l1.EntryPointSelector, To: l1.ContractAddress}
	}
	return rc
}

func addrOf(i uint64) uint64 {
	if i%3 == 0 {
		return i + 1<<63 // addresses above 2^63: ordering must be unsigned
	}
	return i
}

// genDiff builds a state diff that is applicable in ctx and returns the context after it.
func genDiff(r *hx.RNG, ctx blockCtx) (*core.StateDiff, map[felt.Felt]core.ClassDefinition, blockCtx) {
	d := core.EmptyStateDiff()
	d.MigratedClasses = nil
	classes := map[felt.Felt]core.ClassDefinition{}
	next := ctx
	next.Deployed = append([]uint64{}, ctx.Deployed...)
	next.Sierra = append([]uint64{}, ctx.Sierra...)
	next.Migratable = append([]uint64{}, ctx.Migratable...)
	live := append([]uint64{}, ctx.Deployed...)
	nDep := r.Intn(3)
	if ctx.Number == 0 {
		nDep = 2
	}
	for i := 0; i < nDep; i++ {
		a := addrOf(next.NextAddr)
		next.NextAddr++
		c := next.NextClass
		next.NextClass++
		d.DeployedContracts[*fz(a)] = fz(c)
		d.DeclaredV0Classes = append(d.DeclaredV0Classes, fz(c))
		classes[*fz(c)] = &core.DeprecatedCairoClass{Abi: []byte("[]"), Program: "p"}
		live = append(live, a)
		next.Deployed = append(next.Deployed, a)
	}
	if len(ctx.Deployed) > 0 && r.Chance(30) {
		a := ctx.Deployed[r.Intn(len(ctx.Deployed))]
		c := next.NextClass
		next.NextClass++
		d.ReplacedClasses[*fz(a)] = fz(c)
		d.DeclaredV0Classes = append(d.DeclaredV0Classes, fz(c))
		classes[*fz(c)] = &core.DeprecatedCairoClass{Abi: []byte("[]"), Program: "p"}
	}
	for _, a := range live {
		if r.Chance(40) {
			d.Nonces[*fz(a)] = fz(uint64(1 + r.Intn(1000)))
		}
		if r.Chance(60) {
			m := map[felt.Felt]*felt.Felt{}
			for i, n := 0, r.Intn(4); i < n; i++ {
				v := uint64(1 + r.Intn(50))
				if r.Chance(10) {
					v = 0
				}
				k := uint64(r.Intn(6))
				if r.Chance(20) {
					k += 1 << 63
				}
				m[*fz(k)] = fz(v)
			}
			d.StorageDiffs[*fz(a)] = m // possibly an empty map: hashed as (address, 0)
		}
	}
	if r.Chance(35) {
		for i, n := 0, 1+r.Intn(2); i < n; i++ {
			id := next.NextClass
			next.NextClass++
			d.DeclaredV1Classes[*sierraHash(id)] = rf(r)
			classes[*sierraHash(id)] = chain.SierraClass(id)
			next.Sierra = append(next.Sierra, id)
			if ctx.Version != "0.14.1" {
				next.Migratable = append(next.Migratable, id)
			}
		}
	}
	if ctx.Version == "0.14.1" && len(ctx.Migratable) > 0 && r.Chance(60) {
		d.MigratedClasses = map[felt.SierraClassHash]felt.CasmClassHash{}
		j := r.Intn(len(ctx.Migratable))
		id := ctx.Migratable[j]
		d.MigratedClasses[felt.SierraClassHash(*sierraHash(id))] = felt.CasmClassHash(*rf(r))
		next.Migratable = append(append([]uint64{}, ctx.Migratable[:j]...), ctx.Migratable[j+1:]...)
	}
	return &d, classes, next
}

// genBlock: everything except hashes, commitments and roots (those come from the model / from Finalise).
func genBlock(seed uint64, ctx blockCtx) (*Built, blockCtx) {
	r := hx.NewRNG(seed)
	diff, classes, next := genDiff(r.Fork(1), ctx)
	tr := r.Fork(2)
	nTx := tr.Intn(6)
	if tr.Chance(10) {
		nTx = 0
	}
	var txs []core.Transaction
	var rcs []*core.TransactionReceipt
	var kinds []string
	evCount := uint64(0)
	for i := 0; i < nTx; i++ {
		tx, kind := genTx(tr, ctx.Version)
		rc := genReceipt(tr, tx)
		txs = append(txs, tx)
		rcs = append(rcs, rc)
		kinds = append(kinds, kind)
		evCount += uint64(len(rc.Events))
	}
	hr := r.Fork(3)
	mode := core.Calldata
	if hr.Bool() {
		mode = core.Blob
	}
	h := &core.Header{
		Number: ctx.Number, SequencerAddress: rf(hr), Timestamp: ctx.Timestamp,
		TransactionCount: uint64(len(txs)), EventCount: evCount, ProtocolVersion: ctx.Version,
		L1GasPriceETH: rf(hr), L1GasPriceSTRK: rf(hr), L1DAMode: mode,
		L1DataGasPrice: &core.GasPrice{PriceInWei: rf(hr), PriceInFri: rf(hr)},
		L2GasPrice:     &core.GasPrice{PriceInWei: rf(hr), PriceInFri: rf(hr)},
	}
	if txs == nil {
		txs = []core.Transaction{}
		rcs = []*core.TransactionReceipt{}
	}
	next.Number = ctx.Number + 1
	next.Timestamp = ctx.Timestamp + uint64(1+hr.Intn(100))
	return &Built{Block: &core.Block{Header: h, Transactions: txs, Receipts: rcs},
		Update: &core.StateUpdate{StateDiff: diff}, Classes: classes, Kinds: kinds}, next
}

var versions = []string{"0.11.0", "0.11.1", "0.12.3", "0.13.0", "0.13.1", "0.13.2", "0.13.3", "0.13.4", "0.13.5", "0.13.6", "0.14.0", "0.14.1"}

// chainPlan: seeds and contexts of an n-block chain with non-decreasing protocol versions.
type chainPlan struct {
	Seeds []uint64
	Ctxs  []blockCtx
}

func planChain(seed uint64) chainPlan {
	r := hx.NewRNG(seed)
	n := 3 + r.Intn(4)
	vi := r.Intn(len(versions))
	vers := make([]string, n)
	for i := 0; i < n; i++ {
		if i > 0 && r.Chance(35) && vi < len(versions)-1 {
			vi++
		}
		vers[i] = versions[vi]
	}
	ctx := blockCtx{Number: 0, Timestamp: 1_700_000_000 + uint64(r.Intn(1000)), NextAddr: 100, NextClass: 500}
	var p chainPlan
	for i := 0; i < n; i++ {
		ctx.Version = vers[i]
		s := r.U64()
		_, next := genBlock(s, ctx)
		p.Seeds = append(p.Seeds, s)
		p.Ctxs = append(p.Ctxs, ctx)
		ctx = next
	}
	return p
}

func sortedKeys[V any](m map[felt.Felt]V) []felt.Felt {
	ks := make([]felt.Felt, 0, len(m))
	for k := range m {
		ks = append(ks, k)
	}
	sort.Slice(ks, func(i, j int) bool { return ks[i].Cmp(&ks[j]) < 0 })
	return ks
}
