// C02 generator: synthetic blocks (header, every modelled transaction kind, receipts with events and
// messages, state diff) as juno objects. Generation is a pure function of (seed, immutable context), so a
// fresh, fully independent copy of any block is obtained by generating it again.
package main

import (
	"fmt"
	"math/big"
	"sort"
	"strings"
	"sync"

	"github.com/NethermindEth/juno/core"
	"github.com/NethermindEth/juno/core/felt"
	"github.com/NethermindEth/juno/l1/eth"
	"github.com/NethermindEth/juno/starknet"
	"verifharness/chain"
	"verifharness/hx"
)

var feltP, _ = new(big.Int).SetString("800000000000011000000000000000000000000000000000000000000000001", 16)

func fz(x uint64) *felt.Felt { return chain.F(x) }

// rf: a felt from a distribution that mixes tiny values, 64/128-bit boundaries and full-width values
func rf(r *hx.RNG) *felt.Felt {
	var b *big.Int
	switch r.Intn(6) {
	case 0:
		b = big.NewInt(int64(r.Intn(4)))
	case 1:
		b = new(big.Int).SetUint64(r.U64())
	case 2:
		b = new(big.Int).Lsh(big.NewInt(1), uint(64*(1+r.Intn(3))))
		b.Add(b, big.NewInt(int64(r.Intn(3))-1))
	default:
		b = new(big.Int).SetUint64(r.U64())
		for i := 0; i < 3; i++ {
			b.Lsh(b, 64)
			b.Or(b, new(big.Int).SetUint64(r.U64()))
		}
		b.Mod(b, feltP)
	}
	var f felt.Felt
	f.SetBigInt(b)
	return &f
}

func rfs(r *hx.RNG, max int) []felt.Felt {
	n := r.Intn(max + 1)
	res := make([]felt.Felt, 0, n)
	for i := 0; i < n; i++ {
		res = append(res, *rf(r))
	}
	return res
}

func r128(r *hx.RNG) *felt.Felt {
	b := new(big.Int).SetUint64(r.U64())
	if r.Bool() {
		b.Lsh(b, 64)
		b.Or(b, new(big.Int).SetUint64(r.U64()))
	}
	var f felt.Felt
	f.SetBigInt(b)
	return &f
}

func ru64(r *hx.RNG) uint64 {
	switch r.Intn(4) {
	case 0:
		return uint64(r.Intn(3))
	case 1:
		return ^uint64(0) - uint64(r.Intn(2))
	default:
		return r.U64()
	}
}

// blockCtx is the immutable context a block is generated in.
type blockCtx struct {
	Number     uint64
	Version    string
	Timestamp  uint64
	Deployed   []uint64 // addresses deployed by earlier blocks
	Sierra     []uint64 // sierra class ids declared by earlier blocks
	Migratable []uint64 // of those: declared before 0.14.1 and not migrated yet
	NextAddr   uint64
	NextClass  uint64
	Tour       bool // the block carries one transaction of every kind, boundary-valued and random (field coverage tour)
	NoTx       bool // directed: an empty block (header transaction count 0)
	NoEvents   bool // directed: transactions whose receipts carry no event (header event count 0)
}

type Built struct {
	Block   *core.Block
	Update  *core.StateUpdate
	Classes map[felt.Felt]core.ClassDefinition
	Kinds   []string // transaction kinds, for the histogram
	Pre07   bool     // fixture block hashed with the pre-0.7 rules of its network
	// a tampering edited the cached AbiHash / ProgramHash of a delivered core.SierraClass directly: not a
	// definition the model can be given (its class record holds the ABI text and the program)
	ClassCacheTampered bool
}

var sierraCache = map[uint64]*felt.Felt{}

// classKeyFn: the key a generated Sierra definition is delivered under = the MODEL's class hash, evaluated
// (set by main; juno's own SierraClass.Hash must agree, checked there)
var classKeyFn func(id uint64) *felt.Felt

var sierraMu sync.Mutex

func sierraHash(id uint64) *felt.Felt {
	sierraMu.Lock()
	defer sierraMu.Unlock()
	if h, ok := sierraCache[id]; ok {
		return h
	}
	h := classKeyFn(id)
	sierraCache[id] = h
	return h
}

var sierraVersions = []string{"0.1.0", "0.1.0", "0.1.0", "0.1.1", "", "0.12.0-rc1", "1", "0.1.0\x00"}

// sierraDef: Sierra definition number id, a pure function of id: empty / one / several entry points per kind,
// boundary selectors and indices, empty / short / non-ASCII ABI text, the two program shapes the adapter admits
func sierraDef(id uint64) *starknet.SierraClass {
	r := hx.NewRNG(id*0x9E37 + 0xC1A55)
	d := &starknet.SierraClass{Version: sierraVersions[r.Intn(len(sierraVersions))]}
	eps := func() []starknet.SierraEntryPoint {
		n := []int{0, 0, 1, 1, 2, 3}[r.Intn(6)]
		var l []starknet.SierraEntryPoint
		for i := 0; i < n; i++ {
			l = append(l, starknet.SierraEntryPoint{Selector: rf(r), Index: ru64(r)})
		}
		return l
	}
	d.EntryPoints.External, d.EntryPoints.L1Handler, d.EntryPoints.Constructor = eps(), eps(), eps()
	switch r.Intn(5) {
	case 0:
		d.Abi = ""
	case 1:
		d.Abi = "[]"
	case 2:
		d.Abi = string([]byte{0xff, 0x00, byte(r.U64()), 0x7f})
	default:
		d.Abi = fmt.Sprintf(`[{"type":"function","name":"f%d","inputs":[],"outputs":[]}]`, r.Intn(1000))
	}
	if r.Chance(25) {
		d.Program = []felt.Felt{core.SierraVersion010}
	} else {
		d.Program = append([]felt.Felt{*fz(1), *fz(uint64(r.Intn(8))), *fz(0)}, rfs(r, 3)...)
	}
	return d
}

func withCasm(sc *core.SierraClass, id uint64) *core.SierraClass {
	sc.Compiled = &core.CasmClass{Bytecode: []felt.Felt{*fz(id)}, CompilerVersion: "2.0.0", Prime: big.NewInt(0)}
	return sc
}

// sierraClass: a fresh core.SierraClass for definition id, through juno's adapter
func sierraClass(id uint64) *core.SierraClass {
	sc, ok := adaptSierra(sierraDef(id))
	if !ok {
		hx.Fatalf("generated a Sierra definition the adapter refuses")
	}
	return withCasm(sc, id)
}

func txVersion(v uint64, q bool) *core.TransactionVersion {
	tv := new(core.TransactionVersion).SetUint64(v)
	if q {
		qb := new(felt.Felt).Exp(fz(2), big.NewInt(128))
		tv.AsFelt().Add(tv.AsFelt(), qb)
	}
	return tv
}

func genBoundsUnused(r *hx.RNG, withL1Data bool) map[core.Resource]core.ResourceBounds {
	m := map[core.Resource]core.ResourceBounds{
		core.ResourceL1Gas: {MaxAmount: ru64(r), MaxPricePerUnit: r128(r)},
		core.ResourceL2Gas: {MaxAmount: ru64(r), MaxPricePerUnit: r128(r)},
	}
	if withL1Data {
		m[core.ResourceL1DataGas] = core.ResourceBounds{MaxAmount: ru64(r), MaxPricePerUnit: r128(r)}
	}
	return m
}

// src draws field values: random ones, or (boundary mode) the smallest legal value of every field - zero
// felts, zero integers, empty lists - so that valid blocks themselves contain zero nonces, empty calldata,
// empty paymaster / account-deployment data, tip 0, zero resource bounds and empty signatures.
type src struct {
	r *hx.RNG
	b bool
}

func (s src) f() *felt.Felt {
	if s.b {
		return fz(0)
	}
	return rf(s.r)
}

func (s src) fs(max int) []felt.Felt {
	if s.b {
		return nil
	}
	return rfs(s.r, max)
}

func (s src) u() uint64 {
	if s.b {
		return 0
	}
	return ru64(s.r)
}

func (s src) p() *felt.Felt {
	if s.b {
		return fz(0)
	}
	return r128(s.r)
}

func (s src) bounds(withL1Data bool) map[core.Resource]core.ResourceBounds {
	m := map[core.Resource]core.ResourceBounds{
		core.ResourceL1Gas: {MaxAmount: s.u(), MaxPricePerUnit: s.p()},
		core.ResourceL2Gas: {MaxAmount: s.u(), MaxPricePerUnit: s.p()},
	}
	if withL1Data {
		m[core.ResourceL1DataGas] = core.ResourceBounds{MaxAmount: s.u(), MaxPricePerUnit: s.p()}
	}
	return m
}

// the transaction kinds juno knows: nine whose hash it recomputes, three whose declared hash it trusts
const (
	kInvokeV3 = iota
	kInvokeV1
	kInvokeV0
	kDeclareV3
	kDeclareV2
	kDeclareV1
	kDeployAccountV3
	kDeployAccountV1
	kL1Handler
	kL1HandlerNoNonce // legacy shape: nil nonce, hash not recomputed
	kDeploy           // hash never recomputed
	kDeclareV0        // hash not recomputed
	nKinds
)

var kindNames = [nKinds]string{"invoke_v3", "invoke_v1", "invoke_v0", "declare_v3", "declare_v2", "declare_v1",
	"deploy_account_v3", "deploy_account_v1", "l1_handler", "l1_handler_nil_nonce", "deploy", "declare_v0"}

func genTx(r *hx.RNG, ver string) (core.Transaction, string) {
	weights := [nKinds]int{6, 2, 1, 2, 2, 1, 2, 2, 3, 0, 0, 0}
	if ver < "0.13.2" {
		weights[kL1HandlerNoNonce], weights[kDeploy], weights[kDeclareV0] = 1, 2, 2
	}
	total := 0
	for _, w := range weights {
		total += w
	}
	x, kind := r.Intn(total), 0
	for x >= weights[kind] {
		x -= weights[kind]
		kind++
	}
	return genTxOf(r, ver, kind, r.Chance(15))
}

func genTxOf(r *hx.RNG, ver string, kind int, boundary bool) (core.Transaction, string) {
	s := src{r, boundary}
	q := !boundary && r.Chance(8)
	l1data := ver >= "0.13.4" || r.Chance(30)
	da := func() core.DataAvailabilityMode {
		if boundary {
			return 0
		}
		return core.DataAvailabilityMode(r.Intn(2))
	}
	sig := s.fs(3)
	if !boundary && r.Chance(10) {
		sig = []felt.Felt{{}} // the signature [0]
	}
	name := kindNames[kind]
	if boundary {
		name += "(boundary)"
	}
	switch kind {
	case kDeploy:
		return &core.DeployTransaction{TransactionHash: rf(r), Version: txVersion(uint64(r.Intn(2)), false), ContractAddress: s.f(),
			ContractAddressSalt: s.f(), ClassHash: s.f(), ConstructorCallData: s.fs(3)}, name
	case kDeclareV0:
		return &core.DeclareTransaction{TransactionHash: rf(r), Version: txVersion(0, false), SenderAddress: s.f(), MaxFee: s.f(),
			Nonce: s.f(), ClassHash: s.f(), TransactionSignature: sig}, name
	case kInvokeV3:
		t := &core.InvokeTransaction{Version: txVersion(3, q), SenderAddress: s.f(), Nonce: s.f(), CallData: s.fs(3),
			ResourceBounds: s.bounds(l1data), Tip: s.u(), PaymasterData: s.fs(2), AccountDeploymentData: s.fs(2),
			NonceDAMode: da(), FeeDAMode: da(), TransactionSignature: sig}
		if !boundary && r.Chance(25) {
			t.ProofFacts = rfs(r, 2)
		}
		return t, name
	case kInvokeV1:
		return &core.InvokeTransaction{Version: txVersion(1, q), SenderAddress: s.f(), MaxFee: s.f(), Nonce: s.f(),
			CallData: s.fs(3), TransactionSignature: sig}, name
	case kInvokeV0:
		return &core.InvokeTransaction{Version: txVersion(0, q), ContractAddress: s.f(), EntryPointSelector: s.f(), MaxFee: s.f(),
			CallData: s.fs(3), TransactionSignature: sig}, name
	case kDeclareV3:
		return &core.DeclareTransaction{Version: txVersion(3, q), SenderAddress: s.f(), Nonce: s.f(), ClassHash: s.f(),
			CompiledClassHash: s.f(), ResourceBounds: s.bounds(l1data), Tip: s.u(), PaymasterData: s.fs(2),
			AccountDeploymentData: s.fs(2), NonceDAMode: da(), FeeDAMode: da(), TransactionSignature: sig}, name
	case kDeclareV2:
		return &core.DeclareTransaction{Version: txVersion(2, q), SenderAddress: s.f(), MaxFee: s.f(), Nonce: s.f(), ClassHash: s.f(),
			CompiledClassHash: s.f(), TransactionSignature: sig}, name
	case kDeclareV1:
		return &core.DeclareTransaction{Version: txVersion(1, q), SenderAddress: s.f(), MaxFee: s.f(), Nonce: s.f(), ClassHash: s.f(),
			TransactionSignature: sig}, name
	case kDeployAccountV3:
		return &core.DeployAccountTransaction{
			DeployTransaction: core.DeployTransaction{Version: txVersion(3, q), ContractAddress: s.f(), ContractAddressSalt: s.f(),
				ClassHash: s.f(), ConstructorCallData: s.fs(3)},
			Nonce: s.f(), ResourceBounds: s.bounds(l1data), Tip: s.u(), PaymasterData: s.fs(2),
			NonceDAMode: da(), FeeDAMode: da(), TransactionSignature: sig}, name
	case kDeployAccountV1:
		return &core.DeployAccountTransaction{
			DeployTransaction: core.DeployTransaction{Version: txVersion(1, q), ContractAddress: s.f(), ContractAddressSalt: s.f(),
				ClassHash: s.f(), ConstructorCallData: s.fs(3)},
			MaxFee: s.f(), Nonce: s.f(), TransactionSignature: sig}, name
	default: // the two L1 handler shapes
		cd := s.fs(3)
		if len(cd) == 0 {
			cd = []felt.Felt{*s.f()} // CallData[0] is the L1 sender (MessageHash reads it)
		}
		t := &core.L1HandlerTransaction{Version: txVersion(0, q), ContractAddress: s.f(), EntryPointSelector: s.f(), CallData: cd}
		switch {
		case kind == kL1HandlerNoNonce:
			t.TransactionHash = rf(r) // trusted by juno: nothing to recompute it from
		case boundary || r.Chance(30):
			t.Nonce = fz(0) // zero is a legitimate nonce (the first message a core contract sends)
		default:
			t.Nonce = rf(r)
		}
		return t, name
	}
}

func genReceipt(r *hx.RNG, tx core.Transaction, boundary bool) *core.TransactionReceipt {
	s := src{r, boundary}
	rc := &core.TransactionReceipt{Fee: s.f(), FeeUnit: core.FeeUnit(r.Intn(2)),
		ExecutionResources: &core.ExecutionResources{Steps: uint64(r.Intn(1000)),
			TotalGasConsumed: &core.GasConsumed{L1Gas: s.u(), L1DataGas: s.u(), L2Gas: s.u()}}}
	if !boundary && r.Chance(10) {
		rc.ExecutionResources.TotalGasConsumed = nil
	}
	for i, n := 0, r.Intn(4); i < n && !boundary; i++ {
		rc.Events = append(rc.Events, &core.Event{From: rf(r), Keys: rfs(r, 3), Data: rfs(r, 3)})
	}
	if boundary && r.Bool() {
		rc.Events = append(rc.Events, &core.Event{From: fz(0)}) // an event with no keys and no data
	}
	for i, n := 0, r.Intn(3); i < n && !boundary; i++ {
		var to [20]byte
		for j := range to {
			to[j] = byte(r.U64())
		}
		rc.L2ToL1Message = append(rc.L2ToL1Message, &core.L2ToL1Message{From: rf(r), To: eth.AddressFromBytes(to[:]), Payload: rfs(r, 3)})
	}
	if boundary && r.Bool() {
		rc.L2ToL1Message = append(rc.L2ToL1Message, &core.L2ToL1Message{From: fz(0)}) // zero address, empty payload
	}
	if r.Chance(25) {
		rc.Reverted = true
		rc.RevertReason = fmt.Sprintf("reason-%d", r.Intn(1000))
		if boundary {
			rc.RevertReason = ""
		}
	}
	if l1, ok := tx.(*core.L1HandlerTransaction); ok {
		rc.L1ToL2Message = &core.L1ToL2Message{Nonce: l1.Nonce, Payload: l1.CallData[1:], Selector: l1.EntryPointSelector, To: l1.ContractAddress}
	}
	return rc
}

func addrOf(i uint64) uint64 {
	if i%3 == 0 {
		return i + 1<<63 // addresses above 2^63: ordering must be unsigned
	}
	return i
}

// genDiff builds a state diff that is applicable in ctx and returns the context after it.
func genDiff(r *hx.RNG, ctx blockCtx) (*core.StateDiff, map[felt.Felt]core.ClassDefinition, blockCtx) {
	d := core.EmptyStateDiff()
	d.MigratedClasses = nil
	classes := map[felt.Felt]core.ClassDefinition{}
	next := ctx
	next.Deployed = append([]uint64{}, ctx.Deployed...)
	next.Sierra = append([]uint64{}, ctx.Sierra...)
	next.Migratable = append([]uint64{}, ctx.Migratable...)
	live := append([]uint64{}, ctx.Deployed...)
	nDep := r.Intn(3)
	if ctx.Number == 0 {
		nDep = 2
	}
	for i := 0; i < nDep; i++ {
		a := addrOf(next.NextAddr)
		next.NextAddr++
		c := next.NextClass
		next.NextClass++
		d.DeployedContracts[*fz(a)] = fz(c)
		d.DeclaredV0Classes = append(d.DeclaredV0Classes, fz(c))
		classes[*fz(c)] = &core.DeprecatedCairoClass{Abi: []byte("[]"), Program: "p"}
		live = append(live, a)
		next.Deployed = append(next.Deployed, a)
	}
	if len(ctx.Deployed) > 0 && r.Chance(30) {
		a := ctx.Deployed[r.Intn(len(ctx.Deployed))]
		c := next.NextClass
		next.NextClass++
		d.ReplacedClasses[*fz(a)] = fz(c)
		d.DeclaredV0Classes = append(d.DeclaredV0Classes, fz(c))
		classes[*fz(c)] = &core.DeprecatedCairoClass{Abi: []byte("[]"), Program: "p"}
	}
	for _, a := range live {
		if r.Chance(40) {
			d.Nonces[*fz(a)] = fz(uint64(1 + r.Intn(1000)))
		}
		if r.Chance(60) {
			m := map[felt.Felt]*felt.Felt{}
			for i, n := 0, r.Intn(4); i < n; i++ {
				v := uint64(1 + r.Intn(50))
				if r.Chance(10) {
					v = 0
				}
				k := uint64(r.Intn(6))
				if r.Chance(20) {
					k += 1 << 63
				}
				m[*fz(k)] = fz(v)
			}
			d.StorageDiffs[*fz(a)] = m // possibly an empty map: hashed as (address, 0)
		}
	}
	if r.Chance(35) {
		for i, n := 0, 1+r.Intn(2); i < n; i++ {
			id := next.NextClass
			next.NextClass++
			d.DeclaredV1Classes[*sierraHash(id)] = rf(r)
			classes[*sierraHash(id)] = sierraClass(id)
			next.Sierra = append(next.Sierra, id)
			if ctx.Version != "0.14.1" {
				next.Migratable = append(next.Migratable, id)
			}
		}
	}
	if ctx.Version == "0.14.1" && len(ctx.Migratable) > 0 && r.Chance(60) {
		d.MigratedClasses = map[felt.SierraClassHash]felt.CasmClassHash{}
		j := r.Intn(len(ctx.Migratable))
		id := ctx.Migratable[j]
		d.MigratedClasses[felt.SierraClassHash(*sierraHash(id))] = felt.CasmClassHash(*rf(r))
		next.Migratable = append(append([]uint64{}, ctx.Migratable[:j]...), ctx.Migratable[j+1:]...)
	}
	return &d, classes, next
}

// genBlock: everything except hashes, commitments and roots (those come from the model / from Finalise).
func genBlock(seed uint64, ctx blockCtx) (*Built, blockCtx) {
	r := hx.NewRNG(seed)
	diff, classes, next := genDiff(r.Fork(1), ctx)
	tr := r.Fork(2)
	nTx := tr.Intn(6)
	if tr.Chance(10) {
		nTx = 0
	}
	var txs []core.Transaction
	var rcs []*core.TransactionReceipt
	var kinds []string
	evCount := uint64(0)
	if ctx.Tour { // one transaction of every kind, at its boundary values and at random values
		nTx = 2 * nKinds
	}
	if ctx.NoTx {
		nTx = 0
	} else if ctx.NoEvents && nTx == 0 {
		nTx = 2
	}
	for i := 0; i < nTx; i++ {
		tx, kind := core.Transaction(nil), ""
		if ctx.Tour {
			tx, kind = genTxOf(tr, ctx.Version, i/2, i%2 == 0)
		} else {
			tx, kind = genTx(tr, ctx.Version)
		}
		rc := genReceipt(tr, tx, strings.HasSuffix(kind, "(boundary)"))
		if ctx.NoEvents {
			rc.Events = nil
		}
		txs = append(txs, tx)
		rcs = append(rcs, rc)
		kinds = append(kinds, kind)
		evCount += uint64(len(rc.Events))
	}
	hr := r.Fork(3)
	mode := core.Calldata
	if hr.Bool() {
		mode = core.Blob
	}
	h := &core.Header{
		Number: ctx.Number, SequencerAddress: rf(hr), Timestamp: ctx.Timestamp,
		TransactionCount: uint64(len(txs)), EventCount: evCount, ProtocolVersion: ctx.Version,
		L1GasPriceETH: rf(hr), L1GasPriceSTRK: rf(hr), L1DAMode: mode,
		L1DataGasPrice: &core.GasPrice{PriceInWei: rf(hr), PriceInFri: rf(hr)},
		L2GasPrice:     &core.GasPrice{PriceInWei: rf(hr), PriceInFri: rf(hr)},
	}
	if txs == nil {
		txs = []core.Transaction{}
		rcs = []*core.TransactionReceipt{}
	}
	next.Number = ctx.Number + 1
	next.Timestamp = ctx.Timestamp + uint64(1+hr.Intn(100))
	return &Built{Block: &core.Block{Header: h, Transactions: txs, Receipts: rcs},
		Update: &core.StateUpdate{StateDiff: diff}, Classes: classes, Kinds: kinds}, next
}

var versions = []string{"0.11.0", "0.11.1", "0.12.3", "0.13.0", "0.13.1", "0.13.2", "0.13.3", "0.13.4", "0.13.5", "0.13.6", "0.14.0", "0.14.1"}

// chainPlan: seeds and contexts of an n-block chain with non-decreasing protocol versions.
type chainPlan struct {
	Seeds []uint64
	Ctxs  []blockCtx
}

func planChain(seed uint64) chainPlan {
	r := hx.NewRNG(seed)
	n := 3 + r.Intn(4)
	vi := r.Intn(len(versions))
	vers := make([]string, n)
	for i := 0; i < n; i++ {
		if i > 0 && r.Chance(35) && vi < len(versions)-1 {
			vi++
		}
		vers[i] = versions[vi]
	}
	ctx := blockCtx{Number: 0, Timestamp: 1_700_000_000 + uint64(r.Intn(1000)), NextAddr: 100, NextClass: 500}
	var p chainPlan
	for i := 0; i < n; i++ {
		ctx.Version = vers[i]
		s := r.U64()
		_, next := genBlock(s, ctx)
		p.Seeds = append(p.Seeds, s)
		p.Ctxs = append(p.Ctxs, ctx)
		ctx = next
	}
	return p
}

func planTour(seed uint64) chainPlan {
	r := hx.NewRNG(seed ^ 0x7007)
	ctx := blockCtx{Number: 0, Timestamp: 1_700_000_000, NextAddr: 100, NextClass: 500, Tour: true}
	var p chainPlan
	for _, v := range []string{"0.12.3", "0.13.3", "0.14.1"} {
		ctx.Version = v
		s := r.U64()
		_, next := genBlock(s, ctx)
		p.Seeds = append(p.Seeds, s)
		p.Ctxs = append(p.Ctxs, ctx)
		ctx = next
	}
	return p
}

// planSparse: the block shapes whose header counts are zero - an empty block and a block whose transactions emit no
// event - under both hash formats with state-diff commitment, every tampering applied (body-only additions that leave
// the header counts alone included). Added after the round-5 seed header-count-gates-commitments was detected only when
// the time-budgeted random chains happened to produce such a block.
func planSparse(seed uint64) chainPlan {
	r := hx.NewRNG(seed ^ 0x5ba75e)
	ctx := blockCtx{Number: 0, Timestamp: 1_700_000_000, NextAddr: 100, NextClass: 500}
	var p chainPlan
	for i, v := range []string{"0.13.3", "0.13.3", "0.14.1", "0.14.1"} {
		ctx.Version = v
		ctx.NoTx, ctx.NoEvents = i%2 == 0, i%2 == 1
		s := r.U64()
		_, next := genBlock(s, ctx)
		p.Seeds = append(p.Seeds, s)
		p.Ctxs = append(p.Ctxs, ctx)
		ctx = next
	}
	return p
}

func sortedKeys[V any](m map[felt.Felt]V) []felt.Felt {
	ks := make([]felt.Felt, 0, len(m))
	for k := range m {
		ks = append(ks, k)
	}
	sort.Slice(ks, func(i, j int) bool { return ks[i].Cmp(&ks[j]) < 0 })
	return ks
}
