// C02: juno objects -> oracle request lines (the field-by-field correspondence between core.* structs and
// the records of coq/theories/C02/Model.v), and evaluation of the returned hash terms.
package main

import (
	"fmt"
	"math/big"
	"strings"

	"github.com/NethermindEth/juno/blockchain/networks"
	"github.com/NethermindEth/juno/core"
	"github.com/NethermindEth/juno/core/crypto"
	"github.com/NethermindEth/juno/core/felt"
	"verifharness/hx"
	"verifharness/term"
)

var network = &networks.Sepolia

func gp(g *core.GasPrice) *core.GasPrice {
	if g == nil {
		return &core.GasPrice{}
	}
	return g
}

func hx16(f *felt.Felt) string {
	if f == nil {
		return "0"
	}
	return f.Text(16)
}

func fl(l []felt.Felt, sep string) string {
	if len(l) == 0 {
		return "-"
	}
	s := make([]string, len(l))
	for i := range l {
		s[i] = l[i].Text(16)
	}
	return strings.Join(s, sep)
}

func qbit(v *core.TransactionVersion) string {
	if v.HasQueryBit() {
		return "1"
	}
	return "0"
}

func v3spec(rb map[core.Resource]core.ResourceBounds, tip uint64, pm []felt.Felt, nda, fda core.DataAvailabilityMode) string {
	l1, l2 := rb[core.ResourceL1Gas], rb[core.ResourceL2Gas]
	l1d := "-"
	if b, ok := rb[core.ResourceL1DataGas]; ok && b.MaxPricePerUnit != nil {
		l1d = fmt.Sprintf("%x:%s", b.MaxAmount, hx16(b.MaxPricePerUnit))
	}
	return fmt.Sprintf("%x|%x|%s|%x|%s|%s|%s|%x|%x", tip, l1.MaxAmount, hx16(l1.MaxPricePerUnit), l2.MaxAmount, hx16(l2.MaxPricePerUnit),
		l1d, fl(pm, ","), uint32(nda), uint32(fda))
}

// txSpec: the model's view of a transaction; "" if the kind/version is outside the model.
func txSpec(tx core.Transaction) string {
	switch t := tx.(type) {
	case *core.InvokeTransaction:
		switch {
		case t.Version.Is(0):
			return fmt.Sprintf("inv0|%s|%s|%s|%s|%s", qbit(t.Version), hx16(t.ContractAddress), hx16(t.EntryPointSelector), hx16(t.MaxFee), fl(t.CallData, ","))
		case t.Version.Is(1):
			return fmt.Sprintf("inv1|%s|%s|%s|%s|%s", qbit(t.Version), hx16(t.SenderAddress), hx16(t.MaxFee), hx16(t.Nonce), fl(t.CallData, ","))
		case t.Version.Is(3):
			return fmt.Sprintf("inv3|%s|%s|%s|%s|%s|%s|%s", qbit(t.Version), hx16(t.SenderAddress), hx16(t.Nonce),
				v3spec(t.ResourceBounds, t.Tip, t.PaymasterData, t.NonceDAMode, t.FeeDAMode),
				fl(t.AccountDeploymentData, ","), fl(t.CallData, ","), fl(t.ProofFacts, ","))
		}
	case *core.DeclareTransaction:
		switch {
		case t.Version.Is(1):
			return fmt.Sprintf("dcl1|%s|%s|%s|%s|%s", qbit(t.Version), hx16(t.SenderAddress), hx16(t.MaxFee), hx16(t.Nonce), hx16(t.ClassHash))
		case t.Version.Is(2):
			return fmt.Sprintf("dcl2|%s|%s|%s|%s|%s|%s", qbit(t.Version), hx16(t.SenderAddress), hx16(t.MaxFee), hx16(t.Nonce), hx16(t.ClassHash), hx16(t.CompiledClassHash))
		case t.Version.Is(3):
			return fmt.Sprintf("dcl3|%s|%s|%s|%s|%s|%s|%s", qbit(t.Version), hx16(t.SenderAddress), hx16(t.Nonce),
				v3spec(t.ResourceBounds, t.Tip, t.PaymasterData, t.NonceDAMode, t.FeeDAMode),
				fl(t.AccountDeploymentData, ","), hx16(t.ClassHash), hx16(t.CompiledClassHash))
		}
	case *core.DeployAccountTransaction:
		switch {
		case t.Version.Is(1):
			return fmt.Sprintf("dac1|%s|%s|%s|%s|%s|%s|%s", qbit(t.Version), hx16(t.ContractAddress), hx16(t.MaxFee), hx16(t.Nonce),
				hx16(t.ClassHash), hx16(t.ContractAddressSalt), fl(t.ConstructorCallData, ","))
		case t.Version.Is(3):
			return fmt.Sprintf("dac3|%s|%s|%s|%s|%s|%s|%s", qbit(t.Version), hx16(t.ContractAddress), hx16(t.Nonce),
				v3spec(t.ResourceBounds, t.Tip, t.PaymasterData, t.NonceDAMode, t.FeeDAMode),
				fl(t.ConstructorCallData, ","), hx16(t.ClassHash), hx16(t.ContractAddressSalt))
		}
	case *core.L1HandlerTransaction:
		if t.Version.Is(0) && t.Nonce != nil {
			return fmt.Sprintf("l1h|%s|%s|%s|%s|%s", qbit(t.Version), hx16(t.ContractAddress), hx16(t.EntryPointSelector), hx16(t.Nonce), fl(t.CallData, ","))
		}
		if t.Version.Is(0) {
			return "unv|0" // no nonce: juno returns the declared hash
		}
	case *core.DeployTransaction:
		return "unv|0" // never recomputed; Signature() is empty
	}
	if t, ok := tx.(*core.DeclareTransaction); ok && t.Version.Is(0) && t.TransactionHash != nil {
		return "unv|1" // declare v0: the declared hash is returned
	}
	return ""
}

func rawSig(tx core.Transaction) []felt.Felt {
	switch t := tx.(type) {
	case *core.InvokeTransaction:
		return t.TransactionSignature
	case *core.DeclareTransaction:
		return t.TransactionSignature
	case *core.DeployAccountTransaction:
		return t.TransactionSignature
	}
	return nil
}

func receiptSpec(rc *core.TransactionReceipt) string {
	msgs := "-"
	if len(rc.L2ToL1Message) > 0 {
		var ms []string
		for _, m := range rc.L2ToL1Message {
			to := new(big.Int).SetBytes(m.To.Bytes())
			ms = append(ms, fmt.Sprintf("%s:%x:%s", hx16(m.From), to, fl(m.Payload, "+")))
		}
		msgs = strings.Join(ms, ";")
	}
	rev := "-"
	if rc.Reverted {
		k := crypto.StarknetKeccak([]byte(rc.RevertReason)) // opaque constant of the model (r_revert)
		rev = k.Text(16)
	}
	var g1, g2 uint64
	if rc.ExecutionResources != nil && rc.ExecutionResources.TotalGasConsumed != nil {
		g1, g2 = rc.ExecutionResources.TotalGasConsumed.L1Gas, rc.ExecutionResources.TotalGasConsumed.L1DataGas
	}
	evs := "-"
	if len(rc.Events) > 0 {
		var es []string
		for _, e := range rc.Events {
			es = append(es, fmt.Sprintf("%s:%s:%s", hx16(e.From), fl(e.Keys, "+"), fl(e.Data, "+")))
		}
		evs = strings.Join(es, ";")
	}
	return fmt.Sprintf("%s~%s~%s~%s~%x~%x~%s", hx16(rc.TransactionHash), hx16(rc.Fee), msgs, rev, g1, g2, evs)
}

func pairsSpec(m map[felt.Felt]*felt.Felt) string {
	if len(m) == 0 {
		return "-"
	}
	var s []string
	for k, v := range m { // Go map order: the model sorts
		s = append(s, k.Text(16)+":"+hx16(v))
	}
	return strings.Join(s, ";")
}

func diffTokens(d *core.StateDiff) []string {
	var toks []string
	toks = append(toks, "dep="+pairsSpec(d.DeployedContracts), "rep="+pairsSpec(d.ReplacedClasses),
		"non="+pairsSpec(d.Nonces), "dec="+pairsSpec(d.DeclaredV1Classes))
	mig := "-"
	if len(d.MigratedClasses) > 0 {
		var s []string
		for k, v := range d.MigratedClasses {
			kf, vf := felt.Felt(k), felt.Felt(v)
			s = append(s, kf.Text(16)+":"+vf.Text(16))
		}
		mig = strings.Join(s, ";")
	}
	toks = append(toks, "mig="+mig)
	v0 := "-"
	if len(d.DeclaredV0Classes) > 0 {
		var s []string
		for _, c := range d.DeclaredV0Classes {
			s = append(s, c.Text(16))
		}
		v0 = strings.Join(s, ",")
	}
	toks = append(toks, "v0="+v0)
	sto := "-"
	if len(d.StorageDiffs) > 0 {
		var s []string
		for a, m := range d.StorageDiffs {
			kv := "-"
			if len(m) > 0 {
				var x []string
				for k, v := range m {
					x = append(x, k.Text(16), hx16(v))
				}
				kv = strings.Join(x, "+")
			}
			s = append(s, a.Text(16)+":"+kv)
		}
		sto = strings.Join(s, ";")
	}
	return append(toks, "sto="+sto)
}

func blockLine(b *core.Block, d *core.StateDiff) string {
	h := b.Header
	blob := "0"
	if h.L1DAMode == core.Blob {
		blob = "1"
	}
	ver, err := core.ParseBlockVersion(h.ProtocolVersion)
	hx.Must(err)
	toks := []string{"block",
		fmt.Sprintf("num=%x", h.Number), "root=" + hx16(h.GlobalStateRoot), "seq=" + hx16(h.SequencerAddress),
		fmt.Sprintf("ts=%x", h.Timestamp), fmt.Sprintf("txc=%x", h.TransactionCount), fmt.Sprintf("evc=%x", h.EventCount),
		"blob=" + blob,
		fmt.Sprintf("g=%s,%s,%s,%s,%s,%s", hx16(h.L1GasPriceETH), hx16(h.L1GasPriceSTRK), hx16(gp(h.L1DataGasPrice).PriceInWei),
			hx16(gp(h.L1DataGasPrice).PriceInFri), hx16(gp(h.L2GasPrice).PriceInWei), hx16(gp(h.L2GasPrice).PriceInFri)),
		fmt.Sprintf("vs=%x", new(big.Int).SetBytes([]byte(h.ProtocolVersion))),
		fmt.Sprintf("ver=%d.%d.%d", ver.Major(), ver.Minor(), ver.Patch()),
		"parent=" + hx16(h.ParentHash)}
	for _, tx := range b.Transactions {
		toks = append(toks, fmt.Sprintf("t=%s~%s~%s", txSpec(tx), fl(rawSig(tx), ","), hx16(tx.Hash())))
	}
	for _, rc := range b.Receipts {
		toks = append(toks, "r="+receiptSpec(rc))
	}
	toks = append(toks, diffTokens(d)...)
	return strings.Join(toks, " ")
}

// modelHashes: what the model says the hashes of this block are (terms evaluated with juno's primitives).
type modelHashes struct {
	TxC, EvC, RcC, SdH, Gph, BH felt.Felt
	SdLen                       uint64
	CC                          felt.Felt
	HasBH                       bool
}

func evalLine(l, tag string) felt.Felt {
	if !strings.HasPrefix(l, tag+" ") {
		hx.Fatalf("oracle reply %q, expected %s", l[:min(len(l), 60)], tag)
	}
	return term.MustEval(strings.TrimPrefix(l, tag+" "))
}

func askBlock(or *hx.Oracle, b *core.Block, d *core.StateDiff) modelHashes {
	orMu.Lock()
	rep := or.AskUntil(blockLine(b, d), "end")
	orMu.Unlock()
	if len(rep) != 8 {
		hx.Fatalf("oracle block reply has %d lines", len(rep))
	}
	var m modelHashes
	m.TxC, m.EvC, m.RcC, m.SdH = evalLine(rep[0], "txc"), evalLine(rep[1], "evc"), evalLine(rep[2], "rcc"), evalLine(rep[3], "sdh")
	sdl, _ := new(big.Int).SetString(strings.TrimPrefix(rep[4], "sdl "), 16)
	m.SdLen = sdl.Uint64()
	m.CC = term.FeltFromHex(strings.TrimPrefix(rep[5], "cc "))
	m.Gph = evalLine(rep[6], "gph")
	if rep[7] != "bh none" {
		m.BH, m.HasBH = evalLine(rep[7], "bh"), true
	}
	return m
}

func askTxHash(or *hx.Oracle, tx core.Transaction) (felt.Felt, bool) {
	spec := txSpec(tx)
	if spec == "" {
		return felt.Felt{}, false
	}
	if strings.HasPrefix(spec, "unv|") {
		return *tx.Hash(), true // hash not recomputed by juno: the declared one stands (model: Unverified)
	}
	orMu.Lock()
	rep := or.AskUntil("tx "+network.L2ChainIDFelt().Text(16)+" "+spec, "end")
	orMu.Unlock()
	return evalLine(rep[0], "hash"), true
}

func setTxHash(tx core.Transaction, h *felt.Felt) {
	switch t := tx.(type) {
	case *core.InvokeTransaction:
		t.TransactionHash = h
	case *core.DeclareTransaction:
		t.TransactionHash = h
	case *core.DeployAccountTransaction:
		t.TransactionHash = h
	case *core.L1HandlerTransaction:
		t.TransactionHash = h
	case *core.DeployTransaction:
		t.TransactionHash = h
	}
}

// askBlock07: the model's pre-0.7 block hash (selected by the network's First07Block, which the model's
// version-only dispatch does not know)
func askBlock07(or *hx.Oracle, b *core.Block, d *core.StateDiff, net *networks.Network) felt.Felt {
	line := blockLine(b, d)
	rep := or.AskUntil("block07 "+net.L2ChainIDFelt().Text(16)+strings.TrimPrefix(line, "block"), "end")
	return evalLine(rep[0], "bh07")
}
