// C02 harness. The harness never asks juno what a valid block is: transaction hashes, commitments, state
// diff hash, counts word and block hash come from the extracted Coq model (hash terms evaluated with
// core/crypto); only the state roots come from juno's Finalise on a separate sequencer node. The real
// SanityCheckNewHeight + Store (both state backends) must accept the model-valid block, reject every
// single-field tampering of it, and a rejection must leave database and Reader API unchanged.
package main

import (
	"fmt"
	"os"
	"runtime/pprof"
	"strings"
	"time"

	"github.com/NethermindEth/juno/core"
	"github.com/NethermindEth/juno/core/felt"
	"github.com/NethermindEth/juno/db/memory"
	"verifharness/chain"
	"verifharness/hx"
)

type replayCase struct {
	ChainSeed uint64 `json:"chain_seed"`
	Pos       int    `json:"pos"`
	Tamper    string `json:"tamper"`
	Rehash    bool   `json:"rehash"`
	NewState  bool   `json:"new_state"`
	Tour      bool   `json:"tour,omitempty"`
	Sparse    bool   `json:"sparse,omitempty"` // the directed plan of empty / event-less blocks (planSparse)
	Kind      string `json:"kind"` // tamper | valid | stale | correspondence
	Detail    string `json:"detail,omitempty"`
}

// filled: the values that complete a generated block (from the model and from Finalise)
type filled struct {
	Parent, Root, OldRoot, Hash *felt.Felt
	TxHashes                    []*felt.Felt
	M                           modelHashes
}

func (f *filled) apply(b *Built) {
	h := b.Block.Header
	h.ParentHash, h.GlobalStateRoot, h.Hash = f.Parent, f.Root, f.Hash
	h.EventsBloom = core.EventsBloom(b.Block.Receipts)
	b.Update.OldRoot, b.Update.NewRoot, b.Update.BlockHash = f.OldRoot, f.Root, f.Hash
	for i, tx := range b.Block.Transactions {
		setTxHash(tx, f.TxHashes[i])
		b.Block.Receipts[i].TransactionHash = f.TxHashes[i]
	}
}

func backendName(newState bool) string {
	if newState {
		return "new-state"
	}
	return "legacy-state"
}

// store = what the synchroniser does; panics are turned into an error-like outcome
func store(n *chain.Node, b *Built) (err error, panicked string) {
	defer func() {
		if r := recover(); r != nil {
			panicked = fmt.Sprint(r)
		}
	}()
	cm, err := n.BC.SanityCheckNewHeight(b.Block, b.Update, b.Classes)
	if err != nil {
		return fmt.Errorf("sanity: %w", err), ""
	}
	return n.BC.Store(b.Block, cm, b.Update, b.Classes), ""
}

func errClass(err error) string {
	s := err.Error()
	for _, p := range [][2]string{
		{"block hashes do not match", "su-blockhash"}, {"GlobalStateRoot does not match", "su-newroot"},
		{"can not verify hash in block header", "block-hash"}, {"cannot verify transaction hash", "tx-hash"},
		{"does not match receipt's hash", "receipt-txhash"}, {"len of transactions", "tx-receipt-count"},
		{"expected block #", "succession-number"}, {"parent hash does not match", "succession-parent"},
		{"state commitment mismatch", "root-check"}, {"does not match the head's state root", "root-check"}, {"does not match the expected root", "root-check"},
		{"unsupported block version", "version"}, {"missing L1 data gas price or L2 gas price", "missing-gas-price"}, {"cannot verify class hash", "class-hash"},
		{"invalid Transaction", "tx-version"}, {"cannot calculate transaction hash", "tx-version"},
	} {
		if strings.Contains(s, p[0]) {
			return p[1]
		}
	}
	return "other"
}

type runner struct {
	c  *hx.Ctx
	or *hx.Oracle
	// budget
	maxTampers int
	sparse     bool // the plan being run is planSparse (recorded in replays)
	only       *replayCase
}

type follower struct {
	node     *chain.Node
	mem      *memory.Database
	newState bool
}

func newFollower(newState bool) *follower {
	m := memory.New()
	return &follower{node: chain.NewNode(m, newState), mem: m, newState: newState}
}

func (r *runner) rebuild(f *follower, valid []func() *Built) *follower {
	nf := newFollower(f.newState)
	for _, mk := range valid {
		if err, p := store(nf.node, mk()); err != nil || p != "" {
			hx.Fatalf("rebuilding follower: %v %s", err, p)
		}
	}
	return nf
}

func main() {
	if os.Getenv("C02_NIL_CHILD") != "" {
		nilChild() // isolated worker of the nil-member sweep (nilsweep.go)
		return
	}
	c := hx.NewCtx("C02")
	if pf := os.Getenv("C02_PROF"); pf != "" { // development aid: CPU profile of the harness process
		f, err := os.Create(pf)
		hx.Must(err)
		hx.Must(pprof.StartCPUProfile(f))
		defer pprof.StopCPUProfile()
	}
	or := hx.StartOracle(c.OraclePath)
	defer or.Close()
	r := &runner{c: c, or: or, maxTampers: 90}
	budget := 22 * time.Second
	if c.Thorough() {
		r.maxTampers = 1 << 30
		budget = 15 * time.Minute
	}
	classKeyFn = func(id uint64) *felt.Felt {
		sc := sierraClass(id)
		mh := modelClassHash(or, sc)
		if jh, err := sc.Hash(); err != nil || !jh.Equal(&mh) {
			c.Violation("class-hash:generated", fmt.Sprintf("Sierra definition %d of the block generator: juno's class hash %s (%v), model %s", id, &jh, err, &mh),
				replayCase{Kind: "class-hash", Pos: int(id)}, true)
		}
		return &mh
	}
	rule := "model-valid blocks (hashes and class keys from the extracted model) accepted by SanityCheckNewHeight+Store on both state backends; every single-field tampering (incl. every field of a delivered Sierra class) rejected with raw database digest and Reader snapshot unchanged; the verdict of the extracted accept_ev (hash terms evaluated with juno's primitives) equals juno's verdict on every valid, tampered, probed and fixture block; juno's TransactionHash/BlockHash/commitments/class hash equal the evaluated model terms"
	if c.ReplayIn != "" {
		var rc replayCase
		c.LoadReplay(&rc)
		if rc.Kind == "stale" {
			r.staleOldRoot()
		} else if rc.Kind == "class-fixture" {
			r.classFixtures()
		} else if rc.Kind == "class-hash" {
			r.classHashes()
		} else if rc.Kind == "crossing" {
			r.crossingRegression()
		} else if rc.Kind == "fixture" || rc.Kind == "probe" {
			r.fixtures()
			if rc.Kind == "probe" {
				r.runChain(rc.ChainSeed)
			}
		} else {
			r.only = &rc
			if rc.Sparse {
				r.sparse = true
				r.runPlan(rc.ChainSeed, planSparse(rc.ChainSeed), true)
			} else if rc.Tour {
				r.runTour(rc.ChainSeed)
			} else {
				r.runChain(rc.ChainSeed)
			}
		}
		c.Finish(rule)
	}
	phases := map[string]float64{}
	timed := func(name string, f func()) {
		t0 := time.Now()
		f()
		phases[name] = time.Since(t0).Seconds()
	}
	c.Extra["phase_seconds"] = phases
	timed("stale-old-root", r.staleOldRoot)
	timed("version-crossing", r.crossingRegression)
	timed("fixtures", r.fixtures)
	timed("class-fixtures", r.classFixtures)
	timed("class-hash-tie", r.classHashes)
	timed("tour", func() { r.runTour(c.Seed) })
	timed("sparse-blocks", func() {
		r.sparse = true
		r.runPlan(c.Seed, planSparse(c.Seed), true)
		r.sparse = false
	})
	rng := hx.NewRNG(c.Seed)
	start := time.Now()
	chains := 0
	for time.Since(start) < budget {
		r.runChain(rng.U64())
		chains++
		if c.NViolations() > 3 {
			break
		}
	}
	c.Extra["chains"] = chains
	phases["random-chains"] = time.Since(start).Seconds()
	c.Extra["term_evaluator"] = map[string]any{"subterm_cache_hits": evaluator.Hits, "subterm_evaluations": evaluator.Miss,
		"model_requests": converseCalls, "model_seconds_total": converseTime.Seconds(), "of_which_term_evaluation_seconds": evalTime.Seconds()}
	pprof.StopCPUProfile()
	c.Finish(rule)
}
