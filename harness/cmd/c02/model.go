// C02: the verdict of the EXTRACTED acceptance function. The oracle runs Model.accept_ev (the Gallina function the
// theorems of Props.v are about) on the very fields juno is given - header, transactions, receipts, state
// diff, declared hashes and roots of block and state update, delivered class definitions - against the model
// chain state it keeps per slot; whenever accept_ev evaluates a hash term the oracle asks this process, which
// answers with juno's Pedersen / Poseidon (eval.go). The verdict is compared with SanityCheckNewHeight + Store.
package main

import (
	"encoding/hex"
	"fmt"
	"strings"
	"sync"
	"time"

	"github.com/NethermindEth/juno/adapters/sn2core"
	"github.com/NethermindEth/juno/blockchain/networks"
	"github.com/NethermindEth/juno/core"
	"github.com/NethermindEth/juno/core/crypto"
	"github.com/NethermindEth/juno/core/felt"
	"github.com/NethermindEth/juno/starknet"
	"verifharness/hx"
)

var evaluator = newMemoEval()

// converse: send a request, answer the oracle's "eval <term>" questions, return the final reply lines
var converseTime, evalTime time.Duration
var converseCalls int

// orMu: one conversation with the oracle process at a time (the follower sweeps run side by side)
var orMu sync.Mutex

func converse(or *hx.Oracle, line string) []string {
	orMu.Lock()
	defer orMu.Unlock()
	t0 := time.Now()
	rep := or.AskUntil(line, "end")
	for len(rep) == 1 && strings.HasPrefix(rep[0], "eval ") {
		t1 := time.Now()
		v := evaluator.eval(strings.TrimPrefix(rep[0], "eval "))
		evalTime += time.Since(t1)
		rep = or.AskUntil("val "+v.Text(16), "end")
	}
	converseTime += time.Since(t0)
	converseCalls++
	return rep
}

func hexBytes(b []byte) string {
	if len(b) == 0 {
		return "-"
	}
	return hex.EncodeToString(b)
}

func epsSpec(l []core.SierraEntryPoint) string {
	if len(l) == 0 {
		return "-"
	}
	s := make([]string, len(l))
	for i, e := range l {
		s[i] = fmt.Sprintf("%s:%x", hx16(e.Selector), e.Index)
	}
	return strings.Join(s, ";")
}

// sierraSpec: the model's view of a Sierra definition: version string, entry points, ABI TEXT (with its
// StarknetKeccak, the one primitive the model takes as a parameter) and program felts - not the cached
// AbiHash / ProgramHash fields (both producers of a core.SierraClass derive them from the text / the program)
func sierraSpec(sc *core.SierraClass) string {
	k := crypto.StarknetKeccak([]byte(sc.Abi))
	return fmt.Sprintf("S~%s~%s~%s~%s~%s~%s~%s", hexBytes([]byte(sc.SemanticVersion)), epsSpec(sc.EntryPoints.External),
		epsSpec(sc.EntryPoints.L1Handler), epsSpec(sc.EntryPoints.Constructor), hexBytes([]byte(sc.Abi)), k.Text(16), fl(sc.Program, ","))
}

func classTokens(classes map[felt.Felt]core.ClassDefinition) []string {
	var toks []string
	for _, k := range sortedKeys(classes) {
		switch c := classes[k].(type) {
		case *core.SierraClass:
			toks = append(toks, "c="+k.Text(16)+"~"+sierraSpec(c))
		default:
			toks = append(toks, "c="+k.Text(16)+"~C")
		}
	}
	return toks
}

// fullTokens: everything SanityCheckNewHeight + Store are given for this block
func fullTokens(b *Built) string {
	line := strings.TrimPrefix(blockLine(b.Block, b.Update.StateDiff), "block ")
	h := b.Block.Header
	present := "1"
	if h.L1DataGasPrice == nil || h.L2GasPrice == nil {
		present = "0"
	}
	toks := []string{line, "present=" + present, "hash=" + hx16(h.Hash), "oldroot=" + hx16(b.Update.OldRoot),
		"suhash=" + hx16(b.Update.BlockHash), "sunewroot=" + hx16(b.Update.NewRoot)}
	toks = append(toks, classTokens(b.Classes)...)
	return strings.Join(toks, " ")
}

// representable: can the block be handed to the model? (every transaction inside the model, parsable version,
// the fields the model treats as always present are present)
func representable(b *Built) bool {
	if b.Update == nil || b.Update.OldRoot == nil || b.Update.NewRoot == nil || b.Update.BlockHash == nil {
		return false
	}
	return representableVBH(b)
}

// representableVBH: the part verify_block_hash looks at (no state update roots)
func representableVBH(b *Built) bool {
	if _, err := core.ParseBlockVersion(b.Block.ProtocolVersion); err != nil {
		return false
	}
	h := b.Block.Header
	if h.Hash == nil || h.ParentHash == nil || h.GlobalStateRoot == nil || h.SequencerAddress == nil ||
		b.Update == nil || b.Update.StateDiff == nil {
		return false
	}
	for _, tx := range b.Block.Transactions {
		if txSpec(tx) == "" || tx.Hash() == nil {
			return false
		}
	}
	for _, rc := range b.Block.Receipts {
		if rc.TransactionHash == nil {
			return false
		}
	}
	// a bloom filter of another geometry is outside the model's header (the model has no bloom at all: the
	// protocol does not commit to it); juno refuses such a block late, inside the batch, when the running
	// event filter cannot merge it
	if eb := b.Block.EventsBloom; eb != nil && (eb.Cap() != core.EventsBloomLength || eb.K() != core.EventsBloomHashFuncs) {
		return false
	}
	return !b.ClassCacheTampered
}

func verdictOf(rep []string) bool {
	if len(rep) != 1 || !strings.HasPrefix(rep[0], "verdict ") {
		hx.Fatalf("oracle verdict reply %v", rep)
	}
	return rep[0] == "verdict accept"
}

// modelAccept: accept_ev on slot `from`; when it accepts and to >= 0 the resulting model chain state goes to slot `to`
func modelAccept(or *hx.Oracle, net *networks.Network, from, to int, b *Built) bool {
	return <-modelAcceptAsync(or, net, from, to, b)
}

// modelAcceptAsync: the request is rendered now (the block may be handed to juno afterwards); the conversation
// with the oracle process runs while the caller lets juno decide. At most one conversation at a time.
func acceptLine(net *networks.Network, from, to int, b *Built) string {
	dest := "-"
	if to >= 0 {
		dest = fmt.Sprint(to)
	}
	return fmt.Sprintf("accept from=%d to=%s chain=%s %s", from, dest, net.L2ChainIDFelt().Text(16), fullTokens(b))
}

func modelAcceptAsync(or *hx.Oracle, net *networks.Network, from, to int, b *Built) <-chan bool {
	line := acceptLine(net, from, to, b)
	ch := make(chan bool, 1)
	go func() { ch <- verdictOf(converse(or, line)) }()
	return ch
}

// modelExplain: the seven conjuncts of accept_ev, for the report of a disagreement
func modelExplain(or *hx.Oracle, net *networks.Network, from int, b *Built) string {
	rep := converse(or, fmt.Sprintf("explain from=%d chain=%s %s", from, net.L2ChainIDFelt().Text(16), fullTokens(b)))
	return strings.Join(rep, " ")
}

// modelVBH: verify_block_hash (receipts pairing, transaction hashes, block hash) - what core.VerifyBlockHash decides
func modelVBH(or *hx.Oracle, net *networks.Network, b *Built) bool {
	return verdictOf(converse(or, fmt.Sprintf("vbh chain=%s %s", net.L2ChainIDFelt().Text(16), fullTokens(b))))
}

func vname(accepted bool) string {
	if accepted {
		return "accept"
	}
	return "reject"
}

// ---------- Sierra definitions ----------

// adaptSierra: the feeder-level definition through juno's own adapter (which fills AbiHash = StarknetKeccak(abi)
// and ProgramHash = PoseidonArray(program)). The adapter refuses programs shorter than three felts (other than the
// single felt "0.1.0"); for those the two cached hashes are filled in the same way by hand (class-hash tie only,
// such a definition never reaches Store through the adapter).
func adaptSierra(def *starknet.SierraClass) (*core.SierraClass, bool) {
	sc, err := sn2core.AdaptSierraClass(def, nil)
	if err == nil {
		return sc, true
	}
	ph := crypto.PoseidonArray(def.Program)
	ah := crypto.StarknetKeccak([]byte(def.Abi))
	sc = &core.SierraClass{SemanticVersion: def.Version, Program: def.Program, ProgramHash: &ph, Abi: def.Abi, AbiHash: &ah}
	for _, e := range def.EntryPoints.External {
		sc.EntryPoints.External = append(sc.EntryPoints.External, core.SierraEntryPoint{Index: e.Index, Selector: e.Selector})
	}
	for _, e := range def.EntryPoints.L1Handler {
		sc.EntryPoints.L1Handler = append(sc.EntryPoints.L1Handler, core.SierraEntryPoint{Index: e.Index, Selector: e.Selector})
	}
	for _, e := range def.EntryPoints.Constructor {
		sc.EntryPoints.Constructor = append(sc.EntryPoints.Constructor, core.SierraEntryPoint{Index: e.Index, Selector: e.Selector})
	}
	return sc, false
}

// defOf: back from a core.SierraClass to the definition level (the tamperings of a delivered class edit the
// definition and send it through the adapter again, as a peer serving a different definition would)
func defOf(sc *core.SierraClass) *starknet.SierraClass {
	d := &starknet.SierraClass{Abi: sc.Abi, Version: sc.SemanticVersion, Program: append([]felt.Felt{}, sc.Program...)}
	cp := func(l []core.SierraEntryPoint) []starknet.SierraEntryPoint {
		var r []starknet.SierraEntryPoint
		for _, e := range l {
			r = append(r, starknet.SierraEntryPoint{Index: e.Index, Selector: e.Selector})
		}
		return r
	}
	d.EntryPoints.External, d.EntryPoints.L1Handler, d.EntryPoints.Constructor = cp(sc.EntryPoints.External), cp(sc.EntryPoints.L1Handler), cp(sc.EntryPoints.Constructor)
	return d
}

// modelClassHash: the model's class hash term for the definition, evaluated
func modelClassHash(or *hx.Oracle, sc *core.SierraClass) felt.Felt {
	rep := converse(or, "class c=0~"+sierraSpec(sc))
	if len(rep) != 1 || !strings.HasPrefix(rep[0], "ch ") {
		hx.Fatalf("oracle class reply %v", rep)
	}
	return evaluator.eval(strings.TrimPrefix(rep[0], "ch "))
}
