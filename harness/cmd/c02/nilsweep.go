// C02 harness: nil-field sweep. A block comes from a feeder gateway or a peer; before anything is verified its
// pointer-typed members can be absent. Every pointer / slice / map member of the header, of each transaction, of
// each receipt (events, messages), of the state update and its diff is set to nil in turn (one at a time, on a fresh
// copy of a valid block of the kind/field tour) and the block is offered to SanityCheckNewHeight + Store under
// recover. Whatever juno answers - accept (member not needed) or reject - is recorded; a PANIC is a violation (a
// block that does not verify must be rejected, not take the node down), and so is a rejection that changes the
// database or after which the same node refuses the valid block.
package main

import (
	"fmt"
	"os"
	"os/exec"
	"path/filepath"
	"reflect"
	"sort"
	"strconv"
	"strings"

	"github.com/NethermindEth/juno/core"
	"github.com/NethermindEth/juno/core/felt"
	"github.com/NethermindEth/juno/encoder"
	"verifharness/hx"
)

type nilPath struct {
	name string
	set  func(b *Built) bool
}

// walk collects a setter for every nil-able member reachable from v (depth-limited, first few elements of slices)
func walkNil(prefix string, get func(b *Built) reflect.Value, sample reflect.Value, depth int, out *[]nilPath) {
	if depth > 5 || !sample.IsValid() {
		return
	}
	switch sample.Kind() {
	case reflect.Pointer, reflect.Interface:
		if sample.IsNil() {
			return
		}
		if sample.Kind() == reflect.Pointer && sample.Elem().Kind() == reflect.Struct {
			walkNil(prefix, func(b *Built) reflect.Value {
				v := get(b)
				if !v.IsValid() || v.IsNil() {
					return reflect.Value{}
				}
				return v.Elem()
			}, sample.Elem(), depth+1, out)
		}
		if sample.Kind() == reflect.Interface {
			walkNil(prefix, func(b *Built) reflect.Value {
				v := get(b)
				if !v.IsValid() || v.IsNil() {
					return reflect.Value{}
				}
				return v.Elem()
			}, sample.Elem(), depth+1, out)
		}
	case reflect.Struct:
		t := sample.Type()
		if t.PkgPath() != "" && !strings.Contains(t.PkgPath(), "juno/core") {
			return // felt.Felt, bloom filters, big.Int ...: opaque
		}
		for i := 0; i < sample.NumField(); i++ {
			f := t.Field(i)
			if !f.IsExported() {
				continue
			}
			i := i
			name := prefix + "." + f.Name
			fget := func(b *Built) reflect.Value {
				v := get(b)
				if !v.IsValid() {
					return reflect.Value{}
				}
				return v.Field(i)
			}
			fv := sample.Field(i)
			switch fv.Kind() {
			case reflect.Pointer, reflect.Slice, reflect.Map, reflect.Interface:
				if !fv.IsNil() {
					*out = append(*out, nilPath{name, func(b *Built) bool {
						v := fget(b)
						if !v.IsValid() || !v.CanSet() || v.IsNil() {
							return false
						}
						v.Set(reflect.Zero(v.Type()))
						return true
					}})
				}
			}
			walkNil(name, fget, fv, depth+1, out)
		}
	case reflect.Slice:
		n := sample.Len()
		if n > 16 {
			n = 16
		}
		for i := 0; i < n; i++ {
			i := i
			eget := func(b *Built) reflect.Value {
				v := get(b)
				if !v.IsValid() || v.Len() <= i {
					return reflect.Value{}
				}
				return v.Index(i)
			}
			// elements are named by what they are, not by their position: tx(InvokeTransaction), receipt, event, msg
			ev := sample.Index(i)
			name := prefix + "[]"
			if ev.Kind() == reflect.Interface && !ev.IsNil() {
				t := ev.Elem().Type()
				if t.Kind() == reflect.Pointer {
					t = t.Elem()
				}
				name = prefix + "(" + t.Name() + ")"
			}
			if k := ev.Kind(); (k == reflect.Pointer || k == reflect.Interface) && !ev.IsNil() {
				*out = append(*out, nilPath{name, func(b *Built) bool {
					v := eget(b)
					if !v.IsValid() || !v.CanSet() || v.IsNil() {
						return false
					}
					v.Set(reflect.Zero(v.Type()))
					return true
				}})
			}
			walkNil(name, eget, ev, depth+1, out)
		}
	case reflect.Map:
		// a nil VALUE inside a map (state diff entries are *felt.Felt)
		keys := sample.MapKeys()
		sort.Slice(keys, func(a, b int) bool { return fmt.Sprint(keys[a]) < fmt.Sprint(keys[b]) })
		if len(keys) > 0 && sample.Type().Elem().Kind() == reflect.Pointer {
			k := keys[0]
			*out = append(*out, nilPath{prefix + "{first}", func(b *Built) bool {
				v := get(b)
				if !v.IsValid() || v.IsNil() || !v.MapIndex(k).IsValid() {
					return false
				}
				v.SetMapIndex(k, reflect.Zero(v.Type().Elem()))
				return true
			}})
		}
	}
}

func nilPaths(sample *Built) []nilPath {
	var out []nilPath
	walkNil("block", func(b *Built) reflect.Value { return reflect.ValueOf(b.Block).Elem() }, reflect.ValueOf(sample.Block).Elem(), 0, &out)
	walkNil("update", func(b *Built) reflect.Value { return reflect.ValueOf(b.Update).Elem() }, reflect.ValueOf(sample.Update).Elem(), 0, &out)
	out = append(out, nilPath{"update=nil", func(b *Built) bool { b.Update = nil; return true }},
		nilPath{"block.Header=nil", func(b *Built) bool { b.Block.Header = nil; return true }})
	// one case per distinct member name (the first element of each kind represents its kind)
	seen := map[string]bool{}
	var uniq []nilPath
	for _, p := range out {
		if !seen[p.name] {
			seen[p.name] = true
			uniq = append(uniq, p)
		}
	}
	return uniq
}

// ---- isolation: a nil member can blow up inside a goroutine the verifier spawns (commitment workers), which no
// recover() in the calling goroutine can catch. The sweep therefore runs in CHILD processes of this very binary: the
// parent hands over the chain prefix and the valid block (CBOR, juno's own encoder), the child announces each case
// before it runs it, and a child that dies marks its announced case as "crash" and is restarted behind it.
type wireBuilt struct {
	Header  *core.Header
	Txs     []core.Transaction
	Rcs     []*core.TransactionReceipt
	Update  *core.StateUpdate
	ClassKs []felt.Felt
	ClassVs []core.ClassDefinition
}

type nilJob struct {
	Slot   int
	Blocks []wireBuilt // the valid blocks 0..Slot (the last one is the block under test)
}

func toWire(b *Built) wireBuilt {
	w := wireBuilt{Header: b.Block.Header, Txs: b.Block.Transactions, Rcs: b.Block.Receipts, Update: b.Update}
	ks := make([]felt.Felt, 0, len(b.Classes))
	for k := range b.Classes {
		ks = append(ks, k)
	}
	sort.Slice(ks, func(i, j int) bool { return ks[i].Cmp(&ks[j]) < 0 })
	for _, k := range ks {
		w.ClassKs = append(w.ClassKs, k)
		w.ClassVs = append(w.ClassVs, b.Classes[k])
	}
	return w
}

func (w *wireBuilt) built() *Built {
	// a fresh deep copy every time: decode again
	raw, err := encoder.Marshal(w)
	hx.Must(err)
	var c wireBuilt
	hx.Must(encoder.Unmarshal(raw, &c))
	b := &Built{Block: &core.Block{Header: c.Header, Transactions: c.Txs, Receipts: c.Rcs}, Update: c.Update, Classes: map[felt.Felt]core.ClassDefinition{}}
	for i, k := range c.ClassKs {
		b.Classes[k] = c.ClassVs[i]
	}
	return b
}

// nilChild: C02_NIL_CHILD=<job file> C02_NIL_START=<first case index>
func nilChild() {
	raw, err := os.ReadFile(os.Getenv("C02_NIL_CHILD"))
	hx.Must(err)
	var job nilJob
	hx.Must(encoder.Unmarshal(raw, &job))
	start, _ := strconv.Atoi(os.Getenv("C02_NIL_START"))
	n := len(job.Blocks) - 1
	mk := func() *Built { return job.Blocks[n].built() }
	k := 0
	for _, newState := range []bool{false, true} {
		be := backendName(newState)
		// the decoded valid block must itself be storable (the hand-over is faithful)
		base := func() *follower {
			f := newFollower(newState)
			for i := 0; i < n; i++ {
				if err, p := store(f.node, job.Blocks[i].built()); err != nil || p != "" {
					fmt.Printf("SETUP-FAILED prefix block %d: %v %s\n", i, err, p)
					os.Exit(3)
				}
			}
			return f
		}
		if k >= start {
			f := base()
			if err, p := store(f.node, mk()); err != nil || p != "" {
				fmt.Printf("SETUP-FAILED valid block %d [%s]: %v %s\n", n, be, err, p)
				os.Exit(3)
			}
		}
		for _, p := range nilPaths(mk()) {
			if k < start {
				k++
				continue
			}
			b := mk()
			if !p.set(b) {
				k++
				continue
			}
			fmt.Printf("CASE %d %s %s\n", k, be, p.name)
			f := base()
			pre := rawDigest(f.mem)
			err, pan := store(f.node, b)
			out, detail := "accepted", ""
			switch {
			case pan != "":
				out, detail = "panic", pan
			case err != nil:
				out, detail = "rejected", err.Error()
				if d := rawDigest(f.mem); d != pre {
					out = "rejected-db-changed"
				} else if err2, pan2 := store(f.node, mk()); err2 != nil || pan2 != "" {
					out, detail = "rejected-then-valid-refused", fmt.Sprintf("%v %s (first: %v)", err2, pan2, err)
				}
			}
			fmt.Printf("DONE %d %s %s\n", k, out, strings.ReplaceAll(firstLine(detail), "\n", " "))
			k++
		}
	}
	fmt.Println("END")
}

func firstLine(s string) string {
	if i := strings.IndexByte(s, '\n'); i >= 0 {
		s = s[:i]
	}
	if len(s) > 200 {
		s = s[:200]
	}
	return s
}

// nilSweep runs the sweep for one position of a chain (valid = the blocks below it, mk = the valid block there)
func (r *runner) nilSweep(valid []func() *Built, mk func() *Built, fols []*follower, slot int) {
	obs, _ := r.c.Extra["nil_member_sweep"].(map[string]int)
	if obs == nil {
		obs = map[string]int{}
		r.c.Extra["nil_member_sweep"] = obs
	}
	job := nilJob{Slot: slot}
	for _, v := range valid {
		job.Blocks = append(job.Blocks, toWire(v()))
	}
	job.Blocks = append(job.Blocks, toWire(mk()))
	raw, err := encoder.Marshal(&job)
	hx.Must(err)
	dir := hx.TempDir("c02nil")
	defer os.RemoveAll(dir)
	file := filepath.Join(dir, "job.cbor")
	hx.Must(os.WriteFile(file, raw, 0o644))
	exe, err := os.Executable()
	hx.Must(err)
	start := 0
	for round := 0; round < 400; round++ {
		cmd := exec.Command(exe)
		cmd.Env = append(os.Environ(), "C02_NIL_CHILD="+file, "C02_NIL_START="+strconv.Itoa(start))
		outb, _ := cmd.CombinedOutput()
		lines := strings.Split(string(outb), "\n")
		pending, pendIdx := "", -1
		ended := false
		for _, l := range lines {
			f := strings.SplitN(l, " ", 4)
			switch f[0] {
			case "SETUP-FAILED":
				r.c.Violation("harness:nil-sweep-hand-over", "the CBOR hand-over of the chain to the child process is not faithful: "+l, replayCase{Kind: "nil", Pos: slot}, true)
				return
			case "CASE":
				pendIdx, _ = strconv.Atoi(f[1])
				pending = f[2] + " " + f[3]
			case "DONE":
				be, name, _ := strings.Cut(pending, " ")
				detail := ""
				if len(f) > 3 {
					detail = f[3]
				}
				r.nilOutcome(obs, slot, be, name, f[2], detail)
				pending = ""
			case "END":
				ended = true
			}
		}
		if ended {
			return
		}
		if pending == "" { // died outside a case: give up on this slot
			r.c.Violation("harness:nil-sweep-child-died", fmt.Sprintf("child process ended without END and without a pending case: %.300s", lastLines(outb)), replayCase{Kind: "nil", Pos: slot}, true)
			return
		}
		be, name, _ := strings.Cut(pending, " ")
		r.nilOutcome(obs, slot, be, name, "crash", lastPanicLine(string(outb)))
		start = pendIdx + 1
	}
}

func lastLines(b []byte) string {
	s := strings.TrimSpace(string(b))
	if len(s) > 300 {
		s = s[len(s)-300:]
	}
	return s
}

func lastPanicLine(s string) string {
	for _, l := range strings.Split(s, "\n") {
		if strings.HasPrefix(l, "panic:") || strings.HasPrefix(l, "fatal error:") {
			return firstLine(l)
		}
	}
	return "process died"
}

func (r *runner) nilOutcome(obs map[string]int, slot int, be, name, outcome, detail string) {
	r.c.Count(fmt.Sprintf("nil/%d/%s/%s", slot, be, name), true)
	obs[name+" => "+outcome]++
	rc := replayCase{Kind: "nil", Detail: name, NewState: be == backendName(true), Pos: slot}
	switch outcome {
	case "panic", "crash":
		// one class per member (both state backends behave alike: the class names the member only)
		r.c.Violation("nil-member-panic:"+name, fmt.Sprintf("block %d with %s = nil [%s]: SanityCheckNewHeight/Store %s: %s", slot, name, be,
			map[string]string{"panic": "panics", "crash": "panics inside a goroutine of the verifier (the process dies)"}[outcome], detail), rc, false)
	case "rejected-db-changed":
		r.c.Violation("reject-not-pure:db:nil:"+name, fmt.Sprintf("block %d with %s = nil [%s] rejected but the database changed", slot, name, be), rc, false)
	case "rejected-then-valid-refused":
		r.c.Violation("reject-not-pure:valid-block-refused-afterwards:nil:"+name, fmt.Sprintf("block %d with %s = nil [%s]: %s", slot, name, be, detail), rc, false)
	}
}
