// C02: probes of changes that the block hash does NOT cover by design of the protocol (carved out of the
// injectivity theorems): fields that are not committed, and the two "membership" moves the state-diff hash
// cannot see (deployed <-> replaced, declared <-> migrated). Each probe runs on a throw-away clone of the
// follower (rebuilt from the valid prefix), so an acceptance does not disturb the sweep. Outcomes are
// observations (evidence "carve_out_probes"), except where the property itself decides: a block whose
// declared root is not the root of (current state + its diff) must never be stored.
package main

import (
	"fmt"
	"regexp"

	"github.com/NethermindEth/juno/core"
	"github.com/NethermindEth/juno/core/felt"
	"github.com/bits-and-blooms/bloom/v3"
	"verifharness/hx"
)

type probe struct {
	name   string
	mutate func(b *Built) bool // false = not applicable to this block
	// after an acceptance: what did juno store? returns a short description
	after func(f *follower, b *Built) string
}

func firstKey(m map[felt.Felt]*felt.Felt) (felt.Felt, bool) {
	ks := sortedKeys(m)
	if len(ks) == 0 {
		return felt.Felt{}, false
	}
	return ks[0], true
}

func probeList() []probe {
	return []probe{
		{name: "uncommitted:hdr.EventsBloom=empty", mutate: func(b *Built) bool {
			if b.Block.EventCount == 0 {
				return false
			}
			b.Block.EventsBloom = bloom.New(core.EventsBloomLength, core.EventsBloomHashFuncs)
			return true
		}, after: func(f *follower, b *Built) string {
			h, err := f.node.BC.BlockHeaderByNumber(b.Block.Number)
			if err != nil {
				return "header unreadable: " + err.Error()
			}
			if h.EventsBloom.Equal(core.EventsBloom(b.Block.Receipts)) {
				return "stored bloom = bloom of the events"
			}
			return "stored bloom is the supplied (empty) one, not the bloom of the block's events"
		}},
		// a header bloom of the wrong geometry passes every hash check (the protocol does not commit to the bloom)
		// and is refused at the LAST step of Store, after the block was written into the batch: the rejection
		// must be as clean as an early one (database, Reader, and the next Store of the valid block)
		{name: "late-reject:hdr.EventsBloom=wrong-size", mutate: func(b *Built) bool {
			b.Block.EventsBloom = bloom.New(core.EventsBloomLength/2, core.EventsBloomHashFuncs)
			return true
		}},
		{name: "uncommitted:hdr.Signatures", mutate: func(b *Built) bool {
			b.Block.Signatures = [][]*felt.Felt{{fz(1), fz(2)}}
			return true
		}},
		{name: "uncommitted:hdr.L2GasPrice(0.13.2-format)", mutate: func(b *Built) bool {
			if vge(b.Block.ProtocolVersion, 0, 13, 4) {
				return false
			}
			b.Block.L2GasPrice = &core.GasPrice{PriceInWei: bump(b.Block.L2GasPrice.PriceInWei), PriceInFri: b.Block.L2GasPrice.PriceInFri}
			return true
		}},
		{name: "uncommitted:rc.FeeUnit", mutate: func(b *Built) bool {
			if len(b.Block.Receipts) == 0 {
				return false
			}
			b.Block.Receipts[0].FeeUnit = 1 - b.Block.Receipts[0].FeeUnit
			return true
		}},
		{name: "uncommitted:rc.ExecutionResources.Steps", mutate: func(b *Built) bool {
			if len(b.Block.Receipts) == 0 {
				return false
			}
			b.Block.Receipts[0].ExecutionResources.Steps += 1000
			return true
		}},
		{name: "uncommitted:rc.TotalGasConsumed.L2Gas", mutate: func(b *Built) bool {
			for _, rc := range b.Block.Receipts {
				if rc.ExecutionResources.TotalGasConsumed != nil {
					rc.ExecutionResources.TotalGasConsumed.L2Gas++
					return true
				}
			}
			return false
		}},
		{name: "uncommitted:rc.L1ToL2Message", mutate: func(b *Built) bool {
			for _, rc := range b.Block.Receipts {
				if rc.L1ToL2Message != nil {
					rc.L1ToL2Message = &core.L1ToL2Message{Nonce: fz(1), Selector: fz(2), To: fz(3)}
					return true
				}
			}
			return false
		}},
		{name: "uncommitted:tx.unused-field(invoke_v3.MaxFee)", mutate: func(b *Built) bool {
			for _, tx := range b.Block.Transactions {
				if t, ok := tx.(*core.InvokeTransaction); ok && t.Version.Is(3) {
					t.MaxFee = fz(12345)
					return true
				}
			}
			return false
		}},
		{name: "uncommitted:hdr.counts-vs-lists(TransactionCount+EventCount are hashed as declared)", mutate: func(b *Built) bool {
			return false // documented only: changing the counts changes the hash; see findings
		}},
		{name: "noninjective:0.13.2-signature[0]->[]", mutate: func(b *Built) bool {
			if vge(b.Block.ProtocolVersion, 0, 13, 4) || !vge(b.Block.ProtocolVersion, 0, 13, 2) {
				return false
			}
			for _, tx := range b.Block.Transactions {
				if s := rawSig(tx); len(s) == 1 && s[0].IsZero() {
					switch t := tx.(type) {
					case *core.InvokeTransaction:
						t.TransactionSignature = nil
					case *core.DeclareTransaction:
						t.TransactionSignature = nil
					case *core.DeployAccountTransaction:
						t.TransactionSignature = nil
					}
					return true
				}
			}
			return false
		}},
		{name: "move:deployed->replaced", mutate: func(b *Built) bool {
			d := b.Update.StateDiff
			k, ok := firstKey(d.DeployedContracts)
			if !ok {
				return false
			}
			if _, dup := d.ReplacedClasses[k]; dup {
				return false
			}
			d.ReplacedClasses[k] = d.DeployedContracts[k]
			delete(d.DeployedContracts, k)
			return true
		}},
		{name: "move:replaced->deployed", mutate: func(b *Built) bool {
			d := b.Update.StateDiff
			k, ok := firstKey(d.ReplacedClasses)
			if !ok {
				return false
			}
			d.DeployedContracts[k] = d.ReplacedClasses[k]
			delete(d.ReplacedClasses, k)
			return true
		}},
		{name: "move:declared_v1->migrated", mutate: func(b *Built) bool {
			d := b.Update.StateDiff
			k, ok := firstKey(d.DeclaredV1Classes)
			if !ok {
				return false
			}
			if d.MigratedClasses == nil {
				d.MigratedClasses = map[felt.SierraClassHash]felt.CasmClassHash{}
			}
			d.MigratedClasses[felt.SierraClassHash(k)] = felt.CasmClassHash(*d.DeclaredV1Classes[k])
			delete(d.DeclaredV1Classes, k)
			return true
		}, after: func(f *follower, b *Built) string {
			for k := range b.Update.StateDiff.MigratedClasses {
				kf := felt.Felt(k)
				st, closer, err := f.node.BC.HeadState()
				if err != nil {
					return "head state: " + err.Error()
				}
				defer closer()
				meta := "CASM-hash metadata stored"
				if _, err := core.GetClassCasmHashMetadata(f.mem, &k); err != nil {
					meta = "NO CASM-hash metadata stored for it"
				}
				if _, err := st.Class(&kf); err != nil {
					return "class definition of the moved class is NOT stored, " + meta
				}
				return "class definition of the moved class is stored, " + meta
			}
			return ""
		}},
		{name: "move:migrated->declared_v1", mutate: func(b *Built) bool {
			d := b.Update.StateDiff
			for k, v := range d.MigratedClasses {
				kf, vf := felt.Felt(k), felt.Felt(v)
				d.DeclaredV1Classes[kf] = &vf
				delete(d.MigratedClasses, k)
				return true
			}
			return false
		}},
	}
}

// probes runs every applicable probe against block i (built by mk) on clones of both followers.
func (r *runner) probes(valid []func() *Built, mk func() *Built, fols []*follower, slot int) {
	obs, _ := r.c.Extra["carve_out_probes"].(map[string]int)
	if obs == nil {
		obs = map[string]int{}
		r.c.Extra["carve_out_probes"] = obs
	}
	for _, p := range probeList() {
		for _, fo := range fols {
			b := mk()
			if !p.mutate(b) {
				continue
			}
			// the move probes and the uncommitted-field probes leave every hash unchanged: check that claim
			mh := askBlock(r.or, b.Block, b.Update.StateDiff)
			if !mh.BH.Equal(b.Block.Hash) {
				obs[p.name+" => MODEL HASH CHANGED (probe is not hash-neutral)"]++
				continue
			}
			clone := r.rebuild(fo, valid)
			pre := rawDigest(clone.mem)
			mv, haveMV := false, representable(b)
			if haveMV {
				mv = modelAccept(r.or, network, slot, -1, b)
			}
			err, pan := store(clone.node, b)
			be := backendName(fo.newState)
			r.c.Count("probe/"+p.name+"/"+be, true)
			if haveMV && pan == "" {
				r.compareVerdict(mv, err == nil, p.name, fmt.Sprintf("probe %s on block %d [%s]", p.name, b.Block.Number, be), slot, b, err,
					replayCase{Kind: "probe", Detail: p.name, NewState: fo.newState})
			}
			switch {
			case pan != "":
				obs[fmt.Sprintf("%s [%s] => PANIC %s", p.name, be, pan)]++
				r.c.Violation("probe-panic:"+be+":"+p.name, "panic: "+pan, replayCase{Kind: "probe", Detail: p.name, NewState: fo.newState}, false)
			case err != nil:
				obs[fmt.Sprintf("%s [%s] => rejected (%s)", p.name, be, shortErr(err))]++
				if d := rawDigest(clone.mem); d != pre {
					r.c.Violation("reject-not-pure:db:"+be+":"+p.name, fmt.Sprintf("probe rejected (%v) but the database changed", err),
						replayCase{Kind: "probe", Detail: p.name, NewState: fo.newState}, false)
				}
				// ... and the SAME node must still take the valid block (nothing in memory moved with the refused one)
				if err2, pan2 := store(clone.node, mk()); err2 != nil || pan2 != "" {
					r.c.Violation("reject-not-pure:valid-block-refused-afterwards:"+be+":"+p.name,
						fmt.Sprintf("block %d: probe rejected (%v), then the valid block %d is refused by the same node: %v %s", b.Block.Number, err, b.Block.Number, err2, pan2),
						replayCase{Kind: "probe", Detail: p.name, NewState: fo.newState}, false)
				}
			default:
				what := ""
				if p.after != nil {
					what = "; " + p.after(clone, b)
				}
				obs[fmt.Sprintf("%s [%s] => accepted%s", p.name, be, what)]++
			}
		}
	}
}

func shortErr(err error) string {
	c := errClass(err)
	if c != "other" {
		return c
	}
	s := hexRe.ReplaceAllString(err.Error(), "0x..")
	if len(s) > 90 {
		s = s[:90]
	}
	return s
}

var hexRe = regexp.MustCompile(`0x[0-9a-fA-F]+|block \d+`)

// crossingRegression: a chain whose class trie is EMPTY crosses from a pre-0.14.0 version to 0.14.0. The state
// commitment formula changes (contract root alone -> Poseidon(STATE_V0, contract root, class root)), so the
// commitment of the SAME state under the new block's version is not the root recorded in the previous header;
// juno's Finalise writes OldRoot = new-rule commitment. Positive regression (after /repo 14a038f both backends
// open the head's state and compare OldRoot with its commitment under the block's version): the chain must
// extend on both backends, and the same block with OldRoot = previous header's root must be rejected.
func (r *runner) crossingRegression() {
	for _, newState := range []bool{false, true} {
		be := backendName(newState)
		ctx := blockCtx{Number: 0, Timestamp: 1_700_000_000, NextAddr: 100, NextClass: 500, Version: "0.13.6"}
		var seeds []uint64
		var ctxs []blockCtx
		for i, s := 0, uint64(1); i < 3; s++ {
			b, next := genBlock(s, ctx)
			if len(b.Update.StateDiff.DeclaredV1Classes) > 0 {
				continue // keep the class trie empty
			}
			seeds, ctxs = append(seeds, s), append(ctxs, ctx)
			ctx = next
			ctx.Version = "0.14.0"
			i++
		}
		seq := newFollower(true)
		fol := newFollower(newState)
		parent := &felt.Zero
		var headRoot *felt.Felt
		r.or.AskUntil("reset", "end")
		for i := range seeds {
			f, why := r.complete(seq.node, seeds[i], ctxs[i], parent)
			if why != "" {
				r.c.Violation("model-vs-juno:"+firstField(why), "version-crossing regression: "+why, replayCase{Kind: "crossing"}, true)
				return
			}
			rc := replayCase{Kind: "crossing", NewState: newState, Pos: i}
			if i == 1 {
				if f.OldRoot.Equal(headRoot) {
					hx.Fatalf("version-crossing regression is vacuous: old root equals the previous header's root")
				}
				// the same block claiming the previous header's root as old root: not the commitment under 0.14.0
				b, _ := genBlock(seeds[i], ctxs[i])
				f.apply(b)
				b.Update.OldRoot = headRoot
				pre := rawDigest(fol.mem)
				mv := modelAccept(r.or, network, i, -1, b)
				err, pan := store(fol.node, b)
				r.c.Count("crossing/"+be+"/header-root-as-old-root", true)
				if pan == "" {
					r.compareVerdict(mv, err == nil, "version-crossing:old-root=previous-header-root", "version-crossing regression ["+be+"]", i, b, err, rc)
				}
				if err == nil || pan != "" {
					r.c.Violation("tamper-accepted:"+be+":version-crossing:old-root=previous-header-root",
						fmt.Sprintf("block 1 (0.14.0) with OldRoot = root in block 0's header (0.13.6 rule) was stored or panicked: %s", pan), rc, false)
					return
				}
				if rawDigest(fol.mem) != pre {
					r.c.Violation("reject-not-pure:db:"+be+":version-crossing", "rejected but the database changed", rc, false)
				}
				r.c.Hist["crossing:header-root-as-old-root-rejected:"+be]++
			}
			b, _ := genBlock(seeds[i], ctxs[i])
			f.apply(b)
			mv := modelAccept(r.or, network, i, i+1, b)
			err, pan := store(fol.node, b)
			r.c.Count(fmt.Sprintf("crossing/%s/%d", be, i), true)
			if pan == "" {
				r.compareVerdict(mv, err == nil, "version-crossing:valid", fmt.Sprintf("version-crossing regression block %d [%s]", i, be), i, b, err, rc)
			}
			if !mv {
				return
			}
			if err != nil || pan != "" {
				r.c.Violation("valid-rejected:"+be+":version-crossing-empty-class-trie",
					fmt.Sprintf("block %d (%s) of a chain crossing 0.13.6 -> 0.14.0 with an empty class trie rejected: %v %s", i, ctxs[i].Version, err, pan), rc, false)
				return
			}
			r.c.Hist["crossing:accepted:"+be]++
			parent, headRoot = f.Hash, f.Root
		}
	}
}

// uncommittedProbes: for a post-0.7-format block, one tampering of every KIND of field that format does not
// commit to, each on a clone: records whether juno stores the block (it should: nothing it checks changed).
func (r *runner) uncommittedProbes(valid []func() *Built, mk func() *Built, fols []*follower, names []string, slot int) {
	if len(names) == 0 {
		return
	}
	obs, _ := r.c.Extra["post07_uncommitted_probes"].(map[string]int)
	if obs == nil {
		obs = map[string]int{}
		r.c.Extra["post07_uncommitted_probes"] = obs
	}
	seen := map[string]bool{}
	for _, name := range names {
		k := tamperKind(name)
		if seen[k] {
			continue
		}
		seen[k] = true
		for _, fo := range fols {
			b := mk()
			done := false
			forEachTamper(b, func(n string, mutate func()) {
				if n == name && !done {
					mutate()
					done = true
				}
			})
			clone := r.rebuild(fo, valid)
			mv, haveMV := false, representable(b)
			if haveMV {
				mv = modelAccept(r.or, network, slot, -1, b)
			}
			err, pan := store(clone.node, b)
			r.c.Count("post07-uncommitted/"+k+"/"+backendName(fo.newState), true)
			if haveMV && pan == "" {
				r.compareVerdict(mv, err == nil, k, fmt.Sprintf("uncommitted-field tampering %s on block %d [%s]", name, b.Block.Number, backendName(fo.newState)), slot, b, err,
					replayCase{Kind: "probe", Detail: name, NewState: fo.newState})
			}
			switch {
			case pan != "":
				obs[fmt.Sprintf("%s [%s] => PANIC %s", k, backendName(fo.newState), pan)]++
			case err != nil:
				obs[fmt.Sprintf("%s [%s] => rejected (%s)", k, backendName(fo.newState), shortErr(err))]++
			default:
				obs[fmt.Sprintf("%s [%s] => accepted", k, backendName(fo.newState))]++
			}
		}
	}
}
