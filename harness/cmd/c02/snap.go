// C02: what "the stored chain, indexes and state are exactly as they were" is measured with — a digest
// of every key/value pair of the database and a snapshot taken through the Reader API.
package main

import (
	"crypto/sha256"
	"fmt"
	"sort"
	"strings"

	"github.com/NethermindEth/juno/core"
	"github.com/NethermindEth/juno/core/felt"
	"github.com/NethermindEth/juno/db/memory"
	"verifharness/chain"
)

func rawDigest(m *memory.Database) string {
	mp := m.Impl().(map[string][]byte)
	ks := make([]string, 0, len(mp))
	for k := range mp {
		ks = append(ks, k)
	}
	sort.Strings(ks)
	h := sha256.New()
	for _, k := range ks {
		fmt.Fprintf(h, "%d:%s=%d:%s;", len(k), k, len(mp[k]), mp[k])
	}
	return fmt.Sprintf("%d keys %x", len(ks), h.Sum(nil)[:12])
}

func es(err error) string {
	if err == nil {
		return "ok"
	}
	return "err:" + err.Error()
}

// readerSnapshot: everything the Reader API says about the chain, for all heights 0..height+1, all
// given transaction hashes and the head state of the given addresses.
func readerSnapshot(n *chain.Node, txHashes []*felt.Felt, addrs []felt.Felt, classes []felt.Felt) string {
	var sb strings.Builder
	bc := n.BC
	height, err := bc.Height()
	fmt.Fprintf(&sb, "height %d %s\n", height, es(err))
	if hh, err := bc.HeadsHeader(); err == nil {
		fmt.Fprintf(&sb, "head %d %s root %s parent %s\n", hh.Number, hh.Hash, hh.GlobalStateRoot, hh.ParentHash)
	} else {
		fmt.Fprintf(&sb, "head %s\n", es(err))
	}
	for i := uint64(0); i <= height+1; i++ {
		hd, err := bc.BlockHeaderByNumber(i)
		if err != nil {
			fmt.Fprintf(&sb, "block %d %s\n", i, es(err))
			continue
		}
		fmt.Fprintf(&sb, "block %d hash %s root %s seq %s txc %d evc %d ts %d ver %s\n", i, hd.Hash, hd.GlobalStateRoot, hd.SequencerAddress,
			hd.TransactionCount, hd.EventCount, hd.Timestamp, hd.ProtocolVersion)
		num, err := bc.BlockNumberByHash(hd.Hash)
		fmt.Fprintf(&sb, " byhash %d %s\n", num, es(err))
		txs, rcs, err := bc.TransactionsAndReceiptsByBlockNumber(i)
		fmt.Fprintf(&sb, " txs %d %s:", len(txs), es(err))
		for j := range txs {
			fmt.Fprintf(&sb, " %s/%s/%d", txs[j].Hash(), rcs[j].Fee, len(rcs[j].Events))
		}
		sb.WriteString("\n")
		su, err := bc.StateUpdateByNumber(i)
		if err == nil {
			dh := su.StateDiff.Hash()
			fmt.Fprintf(&sb, " su old %s new %s diffhash %s\n", su.OldRoot, su.NewRoot, &dh)
		} else {
			fmt.Fprintf(&sb, " su %s\n", es(err))
		}
		cm, err := bc.BlockCommitmentsByNumber(i)
		if err == nil {
			fmt.Fprintf(&sb, " cm %s %s %s %s %d\n", cm.TransactionCommitment, cm.EventCommitment, cm.ReceiptCommitment, cm.StateDiffCommitment, cm.StateDiffLength)
		} else {
			fmt.Fprintf(&sb, " cm %s\n", es(err))
		}
	}
	for _, th := range txHashes {
		tx, err := bc.TransactionByHash(th)
		if err != nil {
			fmt.Fprintf(&sb, "tx %s %s\n", th, es(err))
			continue
		}
		_, bh, bn, rerr := bc.Receipt(th)
		fmt.Fprintf(&sb, "tx %s found %T in %d %v %s\n", th, tx, bn, bh, es(rerr))
	}
	st, closer, err := bc.HeadState()
	if err != nil {
		fmt.Fprintf(&sb, "headstate %s\n", es(err))
		return sb.String()
	}
	defer closer()
	for i := range addrs {
		a := &addrs[i]
		ch, e1 := st.ContractClassHash(a)
		nc, e2 := st.ContractNonce(a)
		fmt.Fprintf(&sb, "contract %s class %s %s nonce %s %s slots", a, &ch, es(e1), &nc, es(e2))
		if e1 == nil {
			for k := uint64(0); k < 6; k++ {
				for _, kk := range []uint64{k, k + 1<<63} {
					v, e := st.ContractStorage(a, fz(kk))
					if e != nil || !v.IsZero() {
						fmt.Fprintf(&sb, " %x=%s%s", kk, &v, es(e))
					}
				}
			}
		}
		sb.WriteString("\n")
	}
	for i := range classes {
		c, err := st.Class(&classes[i])
		if err != nil {
			fmt.Fprintf(&sb, "class %s %s\n", &classes[i], es(err))
		} else {
			fmt.Fprintf(&sb, "class %s at %d %T\n", &classes[i], c.At, c.Class)
		}
	}
	return sb.String()
}

var _ = core.Blob
