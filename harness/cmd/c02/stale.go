package main

import (
	"fmt"

	"github.com/NethermindEth/juno/core"
	"github.com/NethermindEth/juno/core/felt"
	"verifharness/chain"
)

// staleOldRoot: regression input for the fixed defect new-state:store-accepts-stale-old-root (repaired in
// /repo by verifyOldRootMatchesHead); runs first on every check. Every variant must be rejected on both
// backends with the database unchanged; an acceptance is reported under the original class.
// The input: a block N+1 with the right number and parent
// hash, a correctly recomputed block hash, whose state update starts from the root of an OLDER block k < N
// and whose diff applied to state_k gives the root it declares. "Applying its state diff to the current
// state" does not give that root, so the property demands rejection on both backends.
func (r *runner) staleOldRoot() {
	for _, newState := range []bool{false, true} {
		for _, k := range []int{-1, 0, 1, 2} {
			specs := []*chain.BlockSpec{
				{Deploy: map[uint64]uint64{100: 500}, DeclareV0: []uint64{500}, Storage: map[uint64]map[uint64]uint64{100: {1: 11}}},
				{Storage: map[uint64]map[uint64]uint64{100: {2: 22}}, Txs: [][]chain.Ev{{{From: 5, Keys: []uint64{1}}}}},
				{Storage: map[uint64]map[uint64]uint64{100: {3: 33}}},
				{Nonces: map[uint64]uint64{100: 4}},
			}
			seq, old := chain.NewNode(nil, newState), chain.NewNode(nil, newState)
			fol := newFollower(newState)
			r.or.AskUntil("reset", "end")
			modelOK := true
			for i, sp := range specs {
				b, err := seq.Finalise(sp)
				if err != nil {
					panic(err)
				}
				// the model follows the same chain: accept_ev must accept what juno's sequencer produced
				if modelOK && !modelAccept(r.or, network, i, i+1, &Built{Block: b.Block, Update: b.Update, Classes: b.Classes}) {
					modelOK = false
					r.c.Violation("accept-verdict:reject-vs-accept:valid", fmt.Sprintf("stale-old-root setup block %d: the extracted accept rejects a block finalised by juno: %s", i,
						modelExplain(r.or, network, i, &Built{Block: b.Block, Update: b.Update, Classes: b.Classes})), replayCase{Kind: "stale", NewState: newState}, true)
				}
				if err := fol.node.Store(b); err != nil {
					panic(fmt.Sprintf("stale-old-root setup: follower store %d: %v", i, err))
				}
				if i <= k {
					if err := old.Store(b); err != nil {
						panic(err)
					}
				}
			}
			x := &chain.BlockSpec{Storage: map[uint64]map[uint64]uint64{100: {9: 99}}, Timestamp: 5000}
			if k < 0 { // the state before genesis: OldRoot = 0, the diff must be applicable to the empty state
				x = &chain.BlockSpec{Deploy: map[uint64]uint64{200: 501}, DeclareV0: []uint64{501},
					Storage: map[uint64]map[uint64]uint64{200: {9: 99}}, Timestamp: 5000}
			}
			bx, err := old.Finalise(x) // block k+1 on top of block k: OldRoot = root_k, NewRoot = root(state_k + diff)
			if err != nil {
				panic(err)
			}
			honest, err := seq.Finalise(x)
			if err != nil {
				panic(err)
			}
			head, _ := fol.node.BC.HeadsHeader()
			bx.Block.Number = head.Number + 1
			bx.Block.ParentHash = head.Hash
			// the hash that makes the re-parented block self-consistent, from the model
			mh := askBlock(r.or, bx.Block, bx.Update.StateDiff)
			bx.Block.Hash, bx.Update.BlockHash = &mh.BH, &mh.BH
			if jh, _, err := core.BlockHash(bx.Block, bx.Update.StateDiff, network, nil, core.TrieBackend); err != nil || !jh.Equal(&mh.BH) {
				r.c.Violation("model-vs-juno:block-hash", fmt.Sprintf("stale-old-root probe: juno %s model %s (%v)", &jh, &mh.BH, err),
					replayCase{Kind: "stale", NewState: newState}, true)
				continue
			}
			pre := rawDigest(fol.mem)
			mbx := &Built{Block: bx.Block, Update: bx.Update, Classes: bx.Classes}
			mv := modelOK && modelAccept(r.or, network, len(specs), -1, mbx)
			err = fol.node.Store(&chain.Built{Block: bx.Block, Update: bx.Update, Classes: bx.Classes})
			r.c.Count(fmt.Sprintf("stale/%v/%d", newState, k), true)
			be := backendName(newState)
			if modelOK {
				r.compareVerdict(mv, err == nil, "stale-old-root", fmt.Sprintf("stale-old-root probe k=%d [%s]", k, be), len(specs), mbx, err,
					replayCase{Kind: "stale", NewState: newState, Pos: k})
			}
			if bx.Block.GlobalStateRoot.Equal(honest.Block.GlobalStateRoot) {
				panic("stale-old-root probe is vacuous: stale and honest roots coincide")
			}
			if err == nil {
				obs := ""
				if st, closer, e := fol.node.BC.HeadState(); e == nil {
					v1, e1 := st.ContractStorage(fz(100), fz(1))
					c1, e2 := st.ContractClassHash(fz(100))
					v9, e3 := st.ContractStorage(fz(200), fz(9))
					obs = fmt.Sprintf("; afterwards head state reads: contract 100 class %s (%v) slot 1 = %s (%v), contract 200 slot 9 = %s (%v)", &c1, e2, &v1, e1, &v9, e3)
					closer()
				}
				fresh := fol.node.Reopen(newState)
				if st, closer, e := fresh.BC.HeadState(); e == nil {
					if sr, ok := st.(interface {
						Commitment(string) (felt.Felt, error)
					}); ok {
						cm, ce := sr.Commitment(bx.Block.ProtocolVersion)
						obs += fmt.Sprintf("; commitment recomputed from the stored tries by a reopened node: %s (%v)", &cm, ce)
					}
					closer()
				}
				r.c.Extra["stale_old_root_observation"] = obs
				r.c.Violation(be+":store-accepts-stale-old-root",
					fmt.Sprintf("head %d (root %s); stored block %d with OldRoot %s = root of block %d and declared root %s; diff applied to the head state gives %s%s",
						head.Number, head.GlobalStateRoot, bx.Block.Number, bx.Update.OldRoot, k, bx.Block.GlobalStateRoot, honest.Block.GlobalStateRoot, obs),
					replayCase{Kind: "stale", NewState: newState, Pos: k}, false)
				continue
			}
			r.c.Hist["stale-old-root:rejected:"+be+":"+errClass(err)]++
			if d := rawDigest(fol.mem); d != pre {
				r.c.Violation("reject-not-pure:db:"+be+":stale-old-root", fmt.Sprintf("rejected (%v) but the database changed", err),
					replayCase{Kind: "stale", NewState: newState, Pos: k}, false)
			}
		}
	}
}
