// C02: enumeration of single-field tamperings of a block. forEachTamper walks one copy of a block and
// offers, for every committed field, a closure that modifies exactly that field of THAT copy. To apply
// tamper X to a fresh copy, walk the fresh copy and run the closure whose name is X.
package main

import (
	"fmt"
	"math/big"

	"github.com/NethermindEth/juno/core"
	"github.com/NethermindEth/juno/core/felt"
	"github.com/NethermindEth/juno/l1/eth"
	"github.com/NethermindEth/juno/starknet"
)

type visitFn func(name string, mutate func())

func bump(f *felt.Felt) *felt.Felt {
	if f == nil {
		return fz(1)
	}
	return new(felt.Felt).Add(f, fz(1))
}

func tFelt(v visitFn, name string, p **felt.Felt) {
	v(name, func() { *p = bump(*p) })
}

func tU64(v visitFn, name string, p *uint64) {
	v(name, func() { *p = *p + 1 })
}

func tSlice(v visitFn, name string, p *[]felt.Felt) {
	if len(*p) > 0 {
		v(name+".elem0", func() {
			c := append([]felt.Felt{}, (*p)...)
			c[0] = *bump(&c[0])
			*p = c
		})
		v(name+".droplast", func() { *p = append([]felt.Felt{}, (*p)[:len(*p)-1]...) })
		if len(*p) > 1 {
			v(name+".swap01", func() {
				c := append([]felt.Felt{}, (*p)...)
				if c[0].Equal(&c[1]) {
					c[0] = *bump(&c[0])
				} else {
					c[0], c[1] = c[1], c[0]
				}
				*p = c
			})
		}
	}
	v(name+".append7", func() { *p = append(append([]felt.Felt{}, (*p)...), *fz(7)) })
}

func tBounds(v visitFn, name string, m map[core.Resource]core.ResourceBounds) {
	for _, res := range []core.Resource{core.ResourceL1Gas, core.ResourceL2Gas, core.ResourceL1DataGas} {
		if _, ok := m[res]; !ok {
			continue
		}
		res := res
		v(fmt.Sprintf("%s.%s.amount", name, res), func() { b := m[res]; b.MaxAmount++; m[res] = b })
		v(fmt.Sprintf("%s.%s.price", name, res), func() { b := m[res]; b.MaxPricePerUnit = bump(b.MaxPricePerUnit); m[res] = b })
	}
	if _, ok := m[core.ResourceL1DataGas]; ok {
		v(name+".L1_DATA.remove", func() { delete(m, core.ResourceL1DataGas) })
	} else {
		v(name+".L1_DATA.addzero", func() { m[core.ResourceL1DataGas] = core.ResourceBounds{MaxAmount: 0, MaxPricePerUnit: fz(0)} })
	}
}

func tDA(v visitFn, name string, p *core.DataAvailabilityMode) {
	v(name, func() { *p = 1 - *p })
}

func tVersion(v visitFn, name string, p **core.TransactionVersion) {
	v(name+".querybit", func() {
		w := (*p).WithoutQueryBit()
		*p = txVersion(w.AsFelt().Uint64(), !(*p).HasQueryBit())
	})
}

func tamperTx(v visitFn, pre string, tx core.Transaction) {
	switch t := tx.(type) {
	case *core.InvokeTransaction:
		tFelt(v, pre+".hash", &t.TransactionHash)
		tVersion(v, pre+".version", &t.Version)
		tSlice(v, pre+".calldata", &t.CallData)
		tSlice(v, pre+".sig", &t.TransactionSignature)
		switch {
		case t.Version.Is(0):
			tFelt(v, pre+".contract", &t.ContractAddress)
			tFelt(v, pre+".selector", &t.EntryPointSelector)
			tFelt(v, pre+".maxfee", &t.MaxFee)
		case t.Version.Is(1):
			tFelt(v, pre+".sender", &t.SenderAddress)
			tFelt(v, pre+".maxfee", &t.MaxFee)
			tFelt(v, pre+".nonce", &t.Nonce)
		default:
			tFelt(v, pre+".sender", &t.SenderAddress)
			tFelt(v, pre+".nonce", &t.Nonce)
			tBounds(v, pre+".rb", t.ResourceBounds)
			tU64(v, pre+".tip", &t.Tip)
			tSlice(v, pre+".paymaster", &t.PaymasterData)
			tSlice(v, pre+".acctdeploy", &t.AccountDeploymentData)
			tSlice(v, pre+".prooffacts", &t.ProofFacts)
			tDA(v, pre+".nonce_da", &t.NonceDAMode)
			tDA(v, pre+".fee_da", &t.FeeDAMode)
		}
	case *core.DeployTransaction:
		tFelt(v, pre+".hash", &t.TransactionHash) // nothing else is committed: juno does not recompute this hash
	case *core.DeclareTransaction:
		tFelt(v, pre+".hash", &t.TransactionHash)
		if t.Version.Is(0) { // hash not recomputed: only the declared hash and the signature are committed
			tSlice(v, pre+".sig", &t.TransactionSignature)
			return
		}
		tVersion(v, pre+".version", &t.Version)
		tFelt(v, pre+".sender", &t.SenderAddress)
		tFelt(v, pre+".nonce", &t.Nonce)
		tFelt(v, pre+".class", &t.ClassHash)
		tSlice(v, pre+".sig", &t.TransactionSignature)
		if !t.Version.Is(3) {
			tFelt(v, pre+".maxfee", &t.MaxFee)
		}
		if !t.Version.Is(1) {
			tFelt(v, pre+".compiled", &t.CompiledClassHash)
		}
		if t.Version.Is(3) {
			tBounds(v, pre+".rb", t.ResourceBounds)
			tU64(v, pre+".tip", &t.Tip)
			tSlice(v, pre+".paymaster", &t.PaymasterData)
			tSlice(v, pre+".acctdeploy", &t.AccountDeploymentData)
			tDA(v, pre+".nonce_da", &t.NonceDAMode)
			tDA(v, pre+".fee_da", &t.FeeDAMode)
		}
	case *core.DeployAccountTransaction:
		tFelt(v, pre+".hash", &t.TransactionHash)
		tVersion(v, pre+".version", &t.Version)
		tFelt(v, pre+".contract", &t.ContractAddress)
		tFelt(v, pre+".salt", &t.ContractAddressSalt)
		tFelt(v, pre+".class", &t.ClassHash)
		tSlice(v, pre+".ctor", &t.ConstructorCallData)
		tFelt(v, pre+".nonce", &t.Nonce)
		tSlice(v, pre+".sig", &t.TransactionSignature)
		if t.Version.Is(1) {
			tFelt(v, pre+".maxfee", &t.MaxFee)
		} else {
			tBounds(v, pre+".rb", t.ResourceBounds)
			tU64(v, pre+".tip", &t.Tip)
			tSlice(v, pre+".paymaster", &t.PaymasterData)
			tDA(v, pre+".nonce_da", &t.NonceDAMode)
			tDA(v, pre+".fee_da", &t.FeeDAMode)
		}
	case *core.L1HandlerTransaction:
		tFelt(v, pre+".hash", &t.TransactionHash)
		tVersion(v, pre+".version", &t.Version)
		tFelt(v, pre+".contract", &t.ContractAddress)
		tFelt(v, pre+".selector", &t.EntryPointSelector)
		tFelt(v, pre+".nonce", &t.Nonce)
		tSlice(v, pre+".calldata", &t.CallData)
	}
}

func tamperReceipt(v visitFn, pre string, rc *core.TransactionReceipt) {
	tFelt(v, pre+".txhash", &rc.TransactionHash)
	tFelt(v, pre+".fee", &rc.Fee)
	v(pre+".reverted.flip", func() {
		rc.Reverted = !rc.Reverted
		if rc.Reverted {
			rc.RevertReason = "tampered"
		}
	})
	if rc.Reverted {
		v(pre+".revertreason", func() { rc.RevertReason += "x" })
	}
	if rc.ExecutionResources != nil && rc.ExecutionResources.TotalGasConsumed != nil {
		tU64(v, pre+".l1gas", &rc.ExecutionResources.TotalGasConsumed.L1Gas)
		tU64(v, pre+".l1datagas", &rc.ExecutionResources.TotalGasConsumed.L1DataGas)
	}
	for i, m := range rc.L2ToL1Message {
		mp := fmt.Sprintf("%s.msg.%d", pre, i)
		tFelt(v, mp+".from", &m.From)
		m := m
		v(mp+".to", func() {
			b := new(big.Int).SetBytes(m.To.Bytes())
			b.Xor(b, big.NewInt(1))
			var raw [20]byte
			b.FillBytes(raw[:])
			m.To = eth.AddressFromBytes(raw[:])
		})
		tSlice(v, mp+".payload", &m.Payload)
	}
	if n := len(rc.L2ToL1Message); n > 0 {
		v(pre+".msg.droplast", func() { rc.L2ToL1Message = rc.L2ToL1Message[:n-1] })
	}
	v(pre+".msg.add", func() {
		rc.L2ToL1Message = append(append([]*core.L2ToL1Message{}, rc.L2ToL1Message...), &core.L2ToL1Message{From: fz(1)})
	})
	for i, e := range rc.Events {
		ep := fmt.Sprintf("%s.ev.%d", pre, i)
		tFelt(v, ep+".from", &e.From)
		tSlice(v, ep+".keys", &e.Keys)
		tSlice(v, ep+".data", &e.Data)
		if len(e.Keys) > 0 {
			e := e
			// move the last key to the front of data: the flattened felts stay the same, only the length prefixes move
			v(ep+".key2data", func() {
				k := e.Keys[len(e.Keys)-1]
				e.Keys = append([]felt.Felt{}, e.Keys[:len(e.Keys)-1]...)
				e.Data = append([]felt.Felt{k}, e.Data...)
			})
		}
	}
	if n := len(rc.Events); n > 0 {
		v(pre+".ev.droplast", func() { rc.Events = rc.Events[:n-1] })
	}
	v(pre+".ev.add", func() {
		rc.Events = append(append([]*core.Event{}, rc.Events...), &core.Event{From: fz(5)})
	})
}

func tamperDiff(v visitFn, pre string, d *core.StateDiff) {
	tMap := func(name string, m map[felt.Felt]*felt.Felt) {
		ks := sortedKeys(m)
		for i, k := range ks {
			k := k
			v(fmt.Sprintf("%s.%d.value", name, i), func() { m[k] = bump(m[k]) })
			v(fmt.Sprintf("%s.%d.key", name, i), func() {
				val := m[k]
				delete(m, k)
				nk := bump(&k)
				for {
					if _, ok := m[*nk]; !ok {
						break
					}
					nk = bump(nk)
				}
				m[*nk] = val
			})
			v(fmt.Sprintf("%s.%d.remove", name, i), func() { delete(m, k) })
		}
		v(name+".add", func() {
			nk := fz(0xabcdef)
			for {
				if _, ok := m[*nk]; !ok {
					break
				}
				nk = bump(nk)
			}
			m[*nk] = fz(3)
		})
	}
	tMap(pre+".deployed", d.DeployedContracts)
	tMap(pre+".replaced", d.ReplacedClasses)
	tMap(pre+".nonces", d.Nonces)
	tMap(pre+".declared_v1", d.DeclaredV1Classes)
	for i, a := range sortedKeys(d.StorageDiffs) {
		a := a
		tMap(fmt.Sprintf("%s.storage.%d", pre, i), d.StorageDiffs[a])
		v(fmt.Sprintf("%s.storage.%d.address", pre, i), func() {
			m := d.StorageDiffs[a]
			delete(d.StorageDiffs, a)
			na := bump(&a)
			for {
				if _, ok := d.StorageDiffs[*na]; !ok {
					break
				}
				na = bump(na)
			}
			d.StorageDiffs[*na] = m
		})
		v(fmt.Sprintf("%s.storage.%d.removeaddr", pre, i), func() { delete(d.StorageDiffs, a) })
	}
	v(pre+".storage.addemptyaddr", func() {
		na := fz(0x77777)
		d.StorageDiffs[*na] = map[felt.Felt]*felt.Felt{}
	})
	for i := range d.DeclaredV0Classes {
		i := i
		v(fmt.Sprintf("%s.declared_v0.%d.value", pre, i), func() {
			c := append([]*felt.Felt{}, d.DeclaredV0Classes...)
			c[i] = new(felt.Felt).Add(c[i], fz(1_000_000))
			d.DeclaredV0Classes = c
		})
		v(fmt.Sprintf("%s.declared_v0.%d.remove", pre, i), func() {
			c := append([]*felt.Felt{}, d.DeclaredV0Classes[:i]...)
			d.DeclaredV0Classes = append(c, d.DeclaredV0Classes[i+1:]...)
		})
	}
	v(pre+".declared_v0.add", func() { d.DeclaredV0Classes = append(append([]*felt.Felt{}, d.DeclaredV0Classes...), fz(0x999999)) })
	if len(d.MigratedClasses) > 0 {
		for k, val := range d.MigratedClasses {
			k, val := k, val
			v(pre+".migrated.value", func() { d.MigratedClasses[k] = felt.CasmClassHash(*bump((*felt.Felt)(&val))) })
			v(pre+".migrated.remove", func() { delete(d.MigratedClasses, k) })
			break
		}
	}
}

var nextVersion = map[string]string{"0.11.0": "0.10.3", "0.11.1": "0.12.0", "0.12.3": "0.12.2", "0.13.0": "0.13.1", "0.13.1": "0.13.0", "0.13.2": "0.13.3", "0.13.3": "0.13.2", "0.13.4": "0.13.5", "0.13.5": "0.13.6", "0.13.6": "0.13.4",
	"0.14.0": "0.14.1", "0.14.1": "0.14.0"}

// forEachTamper: every single-field tampering of a committed field of b (header, transactions, receipts,
// events, messages, state diff, counts, roots, hashes).
func forEachTamper(b *Built, v visitFn) {
	h := b.Block.Header
	su := b.Update
	tFelt(v, "hdr.hash", &h.Hash)
	tFelt(v, "hdr.parent", &h.ParentHash)
	tU64(v, "hdr.number", &h.Number)
	if h.Number > 0 {
		v("hdr.number-1", func() { h.Number-- })
	}
	tFelt(v, "hdr.stateroot", &h.GlobalStateRoot)
	tFelt(v, "hdr.sequencer", &h.SequencerAddress)
	tU64(v, "hdr.txcount", &h.TransactionCount)
	tU64(v, "hdr.eventcount", &h.EventCount)
	tU64(v, "hdr.timestamp", &h.Timestamp)
	v("hdr.version.sameformat", func() { h.ProtocolVersion = nextVersion[h.ProtocolVersion] })
	v("hdr.version.otherformat", func() {
		if !vge(h.ProtocolVersion, 0, 13, 2) {
			h.ProtocolVersion = "0.13.2"
		} else if !vge(h.ProtocolVersion, 0, 13, 4) {
			h.ProtocolVersion = "0.13.4"
		} else {
			h.ProtocolVersion = "0.13.3"
		}
	})
	if !vge(h.ProtocolVersion, 0, 13, 4) {
		// an older-format block relabelled as 0.13.4 (a different hash format; when the price objects are absent
		// this is the fixture form of the nil-price regression)
		v("hdr.version.relabel0134", func() { h.ProtocolVersion = "0.13.4" })
	}
	v("hdr.version.patchsuffix", func() { h.ProtocolVersion += ".1" }) // parses to the same semver, different string
	tFelt(v, "hdr.l1gas.wei", &h.L1GasPriceETH)
	tFelt(v, "hdr.l1gas.fri", &h.L1GasPriceSTRK)
	v("hdr.damode", func() { h.L1DAMode = 1 - h.L1DAMode })
	if h.L1DataGasPrice != nil {
		tFelt(v, "hdr.l1datagas.wei", &h.L1DataGasPrice.PriceInWei)
		tFelt(v, "hdr.l1datagas.fri", &h.L1DataGasPrice.PriceInFri)
	}
	if vge(h.ProtocolVersion, 0, 13, 4) && h.L2GasPrice != nil { // the 0.13.2 format does not commit to the L2 gas price
		tFelt(v, "hdr.l2gas.wei", &h.L2GasPrice.PriceInWei)
		tFelt(v, "hdr.l2gas.fri", &h.L2GasPrice.PriceInFri)
	}
	if vge(h.ProtocolVersion, 0, 13, 4) {
		// a >= 0.13.4 block that lacks a price object (the feeder adapter leaves the pointer nil when the JSON
		// member is absent): must be rejected like any other malformed block. Regression input of the fixed
		// defect sanity-panic:nil-gas-price-in-0.13.4-format (/repo 6c79775): always part of the sweep (hdr.*)
		v("hdr.l2gasprice.nil", func() { h.L2GasPrice = nil })
		v("hdr.l1datagasprice.nil", func() { h.L1DataGasPrice = nil })
	}
	tFelt(v, "su.blockhash", &su.BlockHash)
	tFelt(v, "su.newroot", &su.NewRoot)
	tFelt(v, "su.oldroot", &su.OldRoot)
	v("su+hdr.root", func() { h.GlobalStateRoot = bump(h.GlobalStateRoot); su.NewRoot = h.GlobalStateRoot })
	v("su+hdr.hash", func() { h.Hash = bump(h.Hash); su.BlockHash = h.Hash })
	for i, tx := range b.Block.Transactions {
		tamperTx(v, fmt.Sprintf("tx.%d", i), tx)
	}
	for i, rc := range b.Block.Receipts {
		tamperReceipt(v, fmt.Sprintf("rc.%d", i), rc)
	}
	if n := len(b.Block.Transactions); n > 0 {
		v("txs.droplast", func() {
			b.Block.Transactions = b.Block.Transactions[:n-1]
			b.Block.Receipts = b.Block.Receipts[:n-1]
		})
		v("txs.droplast.keepreceipt", func() { b.Block.Transactions = b.Block.Transactions[:n-1] })
		v("txs.duplast", func() {
			b.Block.Transactions = append(append([]core.Transaction{}, b.Block.Transactions...), b.Block.Transactions[n-1])
			b.Block.Receipts = append(append([]*core.TransactionReceipt{}, b.Block.Receipts...), b.Block.Receipts[n-1])
		})
		if n > 1 {
			v("txs.swap01", func() {
				t, r := b.Block.Transactions, b.Block.Receipts
				t[0], t[1] = t[1], t[0]
				r[0], r[1] = r[1], r[0]
			})
			// move an event from one receipt to the next: the set of events is the same, their transaction changes
			if len(b.Block.Receipts[0].Events) > 0 {
				v("rc.moveevent01", func() {
					r0, r1 := b.Block.Receipts[0], b.Block.Receipts[1]
					e := r0.Events[len(r0.Events)-1]
					r0.Events = r0.Events[:len(r0.Events)-1]
					r1.Events = append([]*core.Event{e}, r1.Events...)
				})
			}
		}
	}
	tamperDiff(v, "diff", su.StateDiff)
	// the class definitions shipped with the block: VerifyClassHashes recomputes every Sierra class hash
	tamperClasses(v, b)
}

// tamperClasses: every single-field tampering of a delivered Sierra definition, made at the DEFINITION level
// (version string, each entry-point field, order and length of the three lists, an entry point moved to another
// list, ABI bytes, program felts) and sent through juno's adapter again - what a peer or feeder serving a
// different definition under the same class hash amounts to; plus the cached AbiHash / ProgramHash of the
// core object, delivery under another key, and a withheld definition.
func tamperClasses(v visitFn, b *Built) {
	for i, k := range sortedKeys(b.Classes) {
		k := k
		sc, ok := b.Classes[k].(*core.SierraClass)
		if !ok {
			continue // Cairo-0 definitions are not verified on acceptance (by design; recorded by classFixtures)
		}
		pre := fmt.Sprintf("class.%d.sierra", i)
		// edit applies f to the definition and replaces the delivered object by its adaptation
		edit := func(name string, f func(d *starknet.SierraClass)) {
			v(pre+"."+name, func() {
				d := defOf(sc)
				f(d)
				n, _ := adaptSierra(d)
				n.Compiled = sc.Compiled
				b.Classes[k] = n
			})
		}
		edit("semver", func(d *starknet.SierraClass) { d.Version += "1" })
		if len(sc.SemanticVersion) > 0 {
			edit("version.droplast", func(d *starknet.SierraClass) { d.Version = d.Version[:len(d.Version)-1] })
			edit("version.byte0", func(d *starknet.SierraClass) { d.Version = string([]byte{d.Version[0] ^ 1}) + d.Version[1:] })
		}
		lists := []struct {
			name string
			get  func(d *starknet.SierraClass) *[]starknet.SierraEntryPoint
			n    int
		}{
			{"external", func(d *starknet.SierraClass) *[]starknet.SierraEntryPoint { return &d.EntryPoints.External }, len(sc.EntryPoints.External)},
			{"l1handler", func(d *starknet.SierraClass) *[]starknet.SierraEntryPoint { return &d.EntryPoints.L1Handler }, len(sc.EntryPoints.L1Handler)},
			{"constructor", func(d *starknet.SierraClass) *[]starknet.SierraEntryPoint { return &d.EntryPoints.Constructor }, len(sc.EntryPoints.Constructor)},
		}
		for li, l := range lists {
			l, li := l, li
			for j := 0; j < l.n; j++ {
				j := j
				edit(fmt.Sprintf("%s.%d.selector", l.name, j), func(d *starknet.SierraClass) { (*l.get(d))[j].Selector = bump((*l.get(d))[j].Selector) })
				edit(fmt.Sprintf("%s.%d.index", l.name, j), func(d *starknet.SierraClass) { (*l.get(d))[j].Index++ })
			}
			if l.n > 0 {
				edit(l.name+".droplast", func(d *starknet.SierraClass) { *l.get(d) = (*l.get(d))[:l.n-1] })
				edit(l.name+".duplast", func(d *starknet.SierraClass) { *l.get(d) = append(*l.get(d), (*l.get(d))[l.n-1]) })
				// the last entry point goes to the front of the next list: same flattened felts overall, other list boundaries
				edit(l.name+".movelast", func(d *starknet.SierraClass) {
					e := (*l.get(d))[l.n-1]
					*l.get(d) = (*l.get(d))[:l.n-1]
					nx := lists[(li+1)%3].get(d)
					*nx = append([]starknet.SierraEntryPoint{e}, *nx...)
				})
			}
			if l.n > 1 {
				edit(l.name+".swap01", func(d *starknet.SierraClass) {
					x := *l.get(d)
					if x[0].Selector.Equal(x[1].Selector) && x[0].Index == x[1].Index {
						x[0].Index++
					} else {
						x[0], x[1] = x[1], x[0]
					}
				})
			}
			edit(l.name+".add", func(d *starknet.SierraClass) {
				*l.get(d) = append(*l.get(d), starknet.SierraEntryPoint{Selector: fz(0), Index: 0})
			})
		}
		if len(sc.Abi) > 0 {
			edit("abi.byte0", func(d *starknet.SierraClass) { d.Abi = string([]byte{d.Abi[0] ^ 1}) + d.Abi[1:] })
			edit("abi.bytelast", func(d *starknet.SierraClass) {
				d.Abi = d.Abi[:len(d.Abi)-1] + string([]byte{d.Abi[len(d.Abi)-1] ^ 0x20})
			})
			edit("abi.droplast", func(d *starknet.SierraClass) { d.Abi = d.Abi[:len(d.Abi)-1] })
		}
		edit("abi.append", func(d *starknet.SierraClass) { d.Abi += " " })
		edit("abi.appendnul", func(d *starknet.SierraClass) { d.Abi += "\x00" })
		if len(sc.Program) > 0 {
			edit("program.elem0", func(d *starknet.SierraClass) { d.Program[0] = *bump(&d.Program[0]) })
			edit("program.last", func(d *starknet.SierraClass) { d.Program[len(d.Program)-1] = *bump(&d.Program[len(d.Program)-1]) })
		}
		edit("program.append0", func(d *starknet.SierraClass) { d.Program = append(d.Program, felt.Zero) })
		if len(sc.Program) > 3 { // below, the adapter refuses the definition: nothing is delivered at all
			edit("program.droplast", func(d *starknet.SierraClass) { d.Program = d.Program[:len(d.Program)-1] })
			edit("program.swaplast2", func(d *starknet.SierraClass) {
				n := len(d.Program)
				if d.Program[n-1].Equal(&d.Program[n-2]) {
					d.Program[n-1] = *bump(&d.Program[n-1])
				} else {
					d.Program[n-1], d.Program[n-2] = d.Program[n-2], d.Program[n-1]
				}
			})
		}
		// the cached hashes of the core object (what SierraClass.Hash reads)
		v(pre+".programhash", func() { sc.ProgramHash = bump(sc.ProgramHash); b.ClassCacheTampered = true })
		v(pre+".abihash", func() { sc.AbiHash = bump(sc.AbiHash); b.ClassCacheTampered = true })
		// the same definition delivered under another key; the definition withheld
		v(pre+".rekey", func() {
			delete(b.Classes, k)
			nk := bump(&k)
			for {
				if _, ok := b.Classes[*nk]; !ok {
					break
				}
				nk = bump(nk)
			}
			b.Classes[*nk] = sc
		})
		v(pre+".withheld", func() { delete(b.Classes, k) })
	}
}

// isRehashable: tamperings of the state diff that change the resulting state; after recomputing the state
// diff hash and the block hash consistently the block must still be rejected, by the root check alone.
func isRehashable(name string) bool {
	if len(name) < 5 || name[:5] != "diff." {
		return false
	}
	if len(name) > 15 && name[:16] == "diff.declared_v0" {
		return false
	}
	return name[len(name)-6:] == ".value"
}

// committedIn: is the tampered field covered by what juno checks for this protocol version? The post-0.7
// format (version < 0.13.2) hashes only number, root, sequencer, timestamp, the two counts, parent, the
// transaction commitment (hash + signature; before 0.11.1 only invoke signatures) and the event commitment
// (from, keys, data - not the emitting transaction); version string, gas prices, DA mode, receipts and the state
// diff are covered only through the state root (tamperings of the diff that change the state fall to the
// root check). Everything is committed in the >= 0.13.2 formats.
// vge: numeric comparison of a protocol version string (as juno parses it) with major.minor.patch
func vge(v string, major, minor, patch uint64) bool {
	sv, err := core.ParseBlockVersion(v)
	if err != nil {
		return false
	}
	if sv.Major() != major {
		return sv.Major() > major
	}
	if sv.Minor() != minor {
		return sv.Minor() > minor
	}
	return sv.Patch() >= patch
}

func committedIn(b *Built, name string) bool {
	ver := b.Block.ProtocolVersion
	// an L1 handler without nonce (legacy shape): juno returns the declared hash, so its other fields are not
	// committed in any format; giving it a nonce switches the recomputation on
	if len(name) > 3 && name[:3] == "tx." {
		var idx int
		var rest string
		fmt.Sscanf(name, "tx.%d.%s", &idx, &rest)
		if l, ok := b.Block.Transactions[idx].(*core.L1HandlerTransaction); ok && l.Nonce == nil {
			return rest == "hash" || rest == "nonce"
		}
	}
	if vge(ver, 0, 13, 2) {
		return true
	}
	has := func(p string) bool { return len(name) >= len(p) && name[:len(p)] == p }
	if b.Pre07 { // number, root, transaction count, transaction commitment, parent; receipts still pair with transactions
		switch {
		case has("txs."):
			return true
		case has("hdr."):
			switch name {
			case "hdr.parent", "hdr.number", "hdr.number-1", "hdr.stateroot", "hdr.txcount", "hdr.version.otherformat", "hdr.version.relabel0134":
				return true
			}
			return false
		case has("rc."):
			return tamperKind(name) == "rc.txhash"
		case has("tx."):
			// falls through to the signature rule below
		default:
			return false
		}
	}
	switch {
	case has("su.") || has("su+") || has("txs.") || has("class."):
		return true
	case has("hdr."):
		switch name {
		case "hdr.hash", "hdr.parent", "hdr.number", "hdr.number-1", "hdr.stateroot", "hdr.sequencer", "hdr.txcount",
			"hdr.eventcount", "hdr.timestamp", "hdr.version.otherformat", "hdr.version.relabel0134":
			return true
		}
		return false
	case has("tx."):
		var idx int
		var rest string
		fmt.Sscanf(name, "tx.%d.%s", &idx, &rest)
		if len(rest) >= 4 && rest[:4] == "sig." && !vge(ver, 0, 11, 1) {
			_, isInvoke := b.Block.Transactions[idx].(*core.InvokeTransaction)
			return isInvoke
		}
		return true
	case has("rc."):
		k := tamperKind(name)
		switch {
		case k == "rc.txhash", k == "rc.ev.add", k == "rc.ev.droplast", k == "rc.ev.from", k == "rc.ev.key2data":
			return true
		case len(k) > 11 && (k[:11] == "rc.ev.keys." || k[:11] == "rc.ev.data."):
			return true
		}
		return false
	case has("diff."):
		return isRehashable(name)
	}
	return false
}
