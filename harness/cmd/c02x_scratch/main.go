// scratch: candidate defect replay (to be deleted; integrated in cmd/c02)
package main

import (
	"fmt"

	"github.com/NethermindEth/juno/blockchain/networks"
	"github.com/NethermindEth/juno/core"
	"verifharness/chain"
)

func run(newState bool) {
	specs := []*chain.BlockSpec{
		{Deploy: map[uint64]uint64{100: 500}, DeclareV0: []uint64{500}, Storage: map[uint64]map[uint64]uint64{100: {1: 11}}},
		{Storage: map[uint64]map[uint64]uint64{100: {2: 22}}},
		{Storage: map[uint64]map[uint64]uint64{100: {3: 33}}},
	}
	seq := chain.NewNode(nil, newState)
	fol := chain.NewNode(nil, newState)
	old := chain.NewNode(nil, newState) // second sequencer, stays at height k = 0
	var built []*chain.Built
	for i, sp := range specs {
		b, err := seq.Finalise(sp)
		if err != nil {
			panic(err)
		}
		built = append(built, b)
		if err := fol.Store(b); err != nil {
			panic(fmt.Sprintf("follower store %d: %v", i, err))
		}
		if i == 0 {
			if err := old.Store(b); err != nil {
				panic(err)
			}
		}
	}
	x := &chain.BlockSpec{Storage: map[uint64]map[uint64]uint64{100: {9: 99}}, Timestamp: 5000}
	bx, err := old.Finalise(x) // block 1 on top of block 0: OldRoot = root_0
	if err != nil {
		panic(err)
	}
	// what the honest successor of the follower's head would declare
	honest, err := seq.Finalise(x)
	if err != nil {
		panic(err)
	}
	head, _ := fol.BC.HeadsHeader()
	bx.Block.Number = head.Number + 1
	bx.Block.ParentHash = head.Hash
	h, _, err := core.BlockHash(bx.Block, bx.Update.StateDiff, &networks.Sepolia, nil, core.TrieBackend)
	if err != nil {
		panic(err)
	}
	bx.Block.Hash = &h
	bx.Update.BlockHash = &h
	fmt.Printf("newState=%v head=%d headRoot=%s\n  stale block: number=%d oldRoot=%s newRoot=%s\n  honest newRoot=%s\n", newState, head.Number, head.GlobalStateRoot, bx.Block.Number, bx.Update.OldRoot, bx.Update.NewRoot, honest.Block.GlobalStateRoot)
	err = fol.Store(bx)
	fmt.Printf("  Store => %v\n", err)
	if err == nil {
		h2, _ := fol.BC.HeadsHeader()
		fmt.Printf("  ACCEPTED: head now %d root %s\n", h2.Number, h2.GlobalStateRoot)
		st, closer, err := fol.BC.HeadState()
		if err == nil {
			a := chain.F(100)
			for _, k := range []uint64{1, 2, 3, 9} {
				v, e := st.ContractStorage(a, chain.F(k))
				fmt.Printf("   slot %d = %s %v\n", k, v.String(), e)
			}
			closer()
		} else {
			fmt.Println("  headstate err", err)
		}
	}
}

func main() {
	run(false)
	run(true)
}
