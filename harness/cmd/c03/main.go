// C03 correspondence: head and historical state reads of the real node (both state backends) against
// the extracted Coq model (C03.Model: read_new / read_old / read_head) and the abstract ground truth
// (truth_at), on generated interleavings of block additions and head reverts. The property predicate
// c03_ok is evaluated by the oracle on the implementation's own answers ("chk").
package main

import (
	"encoding/json"
	"flag"
	"fmt"
	"os"
	"path/filepath"
	"runtime"
	"runtime/pprof"
	"sort"
	"strconv"
	"strings"
	"sync"

	"verifharness/hx"
	sh "verifharness/statehist"
)

// Case is the replay object.
type Case struct {
	// "" = main family; "syscontract" = system contracts 0x1 / 0x2 (model-checked, classes syscontract:...);
	// "casm" = Sierra declarations + CASM-hash migrations (classes casm:...); "deploy+replace" = optional probe
	Probe    string       `json:"probe,omitempty"`
	Backend  string       `json:"backend"` // new | legacy
	Universe *sh.Universe `json:"universe"`
	Ops      []sh.Op      `json:"ops"`
}

// prefix of the violation classes of the case's family
func (cs *Case) prefix() string {
	switch cs.Probe {
	case "syscontract":
		return "syscontract:"
	case "casm":
		return "casm:"
	}
	return ""
}

func (cs *Case) line() string { return sh.CaseLine(cs.Backend, cs.Universe, cs.Ops) }

// ---------- oracle reply ----------
type reply struct {
	bits   string
	sysg   string // per op: the sequence up to it satisfies the system-contract guard
	height int
	t, m   [][]string
	h      []string
}

// unguarded: some accepted block emptied a system contract (or wrote only zeros to a missing one)
func (r *reply) unguarded() bool { return strings.Contains(r.sysg, "0") }

// askCasm runs the ops through the CASM-metadata machine of the model.
func askCasm(or *hx.Oracle, classes []string, ops []sh.Op) *reply {
	cl := "-"
	if len(classes) > 0 {
		cl = strings.Join(classes, ",")
	}
	return parseReply(or.AskUntil("ccase "+cl+" | "+sh.CasmOpsLine(ops), "end"))
}

func ask(or *hx.Oracle, backend string, u *sh.Universe, ops []sh.Op) *reply {
	return parseReply(or.AskUntil(sh.CaseLine(backend, u, ops), "end"))
}

func parseReply(lines []string) *reply {
	r := &reply{}
	for _, l := range lines {
		f := strings.Fields(l)
		switch f[0] {
		case "ops":
			r.bits = f[1]
			if r.bits == "-" {
				r.bits = ""
			}
		case "sysg":
			r.sysg = f[1]
		case "height":
			r.height, _ = strconv.Atoi(f[1])
			r.t = make([][]string, r.height)
			r.m = make([][]string, r.height)
		case "t":
			n, _ := strconv.Atoi(f[1])
			r.t[n] = f[2:]
		case "m":
			n, _ := strconv.Atoi(f[1])
			r.m[n] = f[2:]
		case "h":
			r.h = f[1:]
		default:
			hx.Fatalf("unexpected oracle line %q", l)
		}
	}
	return r
}

// ---------- running one case ----------
type finding struct {
	class   string
	what    string
	noInput bool
}

type result struct {
	findings []finding
	answers  int    // single answers of the implementation that were compared
	realBits string // outcome of every op on the real nodes
	modBits  string // outcome of every op in the model (last observation)
	height   int
	errs     []string // error text of every failed op (diagnostics)
	detail   []string // replay diagnostics
}

func (r *result) add(class, what string, noInput bool) {
	for _, f := range r.findings {
		if f.class == class {
			return
		}
	}
	r.findings = append(r.findings, finding{class, what, noInput})
}

func (r *result) has(class string) bool {
	for _, f := range r.findings {
		if f.class == class {
			return true
		}
	}
	return false
}

// compare one observation (how, block n) with the truth line t and the model line m, and evaluate the
// property predicate through the oracle.
// ref (head only) = the by-number answers at the head block, used to give the known symptom "head
// storage read of a zeroed slot answers the old value while the historical read is right" its own class.
// unguarded = some block of the sequence emptied a system contract: the faithful model then predicts wrong
// answers for that contract; an answer that is wrong exactly as modelled gets the class of its root cause.
func compare(or *hx.Oracle, res *result, cs *Case, qs []sh.Query, how sh.How, n int, got, t, m, ref []string, unguarded, verbose bool) {
	res.answers += len(got)
	if len(got) != len(t) || len(got) != len(m) {
		res.add("c03:answer-count", fmt.Sprintf("%d answers observed, truth %d, model %d", len(got), len(t), len(m)), true)
		return
	}
	firstBad, anyErr := -1, false
	for i := range got {
		if sh.IsErrToken(got[i]) {
			anyErr = true
		}
		mm := sh.Mismatch(got[i], t[i])
		if mm != "" {
			if firstBad < 0 {
				firstBad = i
			}
			class := fmt.Sprintf("%s%s:%s:%s:%s", cs.prefix(), cs.Backend, how, qs[i].Kind, mm)
			if cs.Backend == "new" && how == sh.Head && qs[i].Kind == "slot" && mm == "wrong-value" && t[i] == "0" && ref != nil && ref[i] == t[i] {
				class = "new:head:slot:zeroed-slot-reads-stale-value"
			}
			if unguarded && qs[i].Kind != "decl" && sh.IsSysAddr(qs[i].A) && got[i] == m[i] {
				what := fmt.Sprintf("%s:%s:%s", how, qs[i].Kind, mm)
				switch {
				case cs.Backend == "new" && how != sh.Head && mm == "notfound-vs-value":
					what = "history-lost-after-emptying"
				case cs.Backend == "legacy" && mm == "value-vs-notfound":
					what = "empty-contract-reported-as-existing"
				}
				class = "syscontract:" + cs.Backend + ":" + what
			}
			res.add(class,
				fmt.Sprintf("%s backend, %s %s at block %d: juno answers %s, the state after block %d has %s (model read: %s) after: %s",
					cs.Backend, how, qs[i], n, got[i], n, t[i], m[i], sh.OpsLine(cs.Ops)), false)
		} else if got[i] != m[i] {
			// juno is right, the transcription reads something else: the correspondence is broken but no
			// input fails the property
			res.add(fmt.Sprintf("model-mismatch:%s%s:%s", cs.prefix(), cs.Backend, qs[i].Kind),
				fmt.Sprintf("%s backend, %s %s at block %d: juno answers %s (= truth), C03.Model reads %s after: %s",
					cs.Backend, how, qs[i], n, got[i], m[i], sh.OpsLine(cs.Ops)), true)
		}
		if verbose && (mm != "" || got[i] != m[i]) {
			res.detail = append(res.detail, fmt.Sprintf("  %-8s block %d %-14s juno=%s truth=%s model=%s", how, n, qs[i], got[i], t[i], m[i]))
		}
	}
	if anyErr {
		return // the predicate takes values / not-found only; the error is already reported above
	}
	ans := or.Ask("chk "+strconv.Itoa(n)+" "+strings.Join(got, " "), 1)[0]
	want := "ok"
	if firstBad >= 0 {
		want = "bad " + strconv.Itoa(firstBad)
	}
	if ans != want {
		res.add("c03:predicate-vs-truth-line", fmt.Sprintf("c03_ok says %q, comparison with the truth line says %q (%s block %d)", ans, want, how, n), true)
	}
}

// compareCasm: the compiled class hashes of the listed Sierra classes (CompiledClassHash of the reader
// opened by number / by hash / at head) against the truth line, the model read and casm_ok.
func compareCasm(or *hx.Oracle, res *result, cs *Case, how sh.How, n int, got, t, m []string, verbose bool) {
	res.answers += len(got)
	if len(got) != len(t) || len(got) != len(m) {
		res.add("c03:answer-count", fmt.Sprintf("casm: %d answers observed, truth %d, model %d", len(got), len(t), len(m)), true)
		return
	}
	firstBad, anyErr := -1, false
	for i := range got {
		anyErr = anyErr || sh.IsErrToken(got[i])
		if mm := sh.Mismatch(got[i], t[i]); mm != "" {
			if firstBad < 0 {
				firstBad = i
			}
			res.add(fmt.Sprintf("casm:%s:%s:%s", cs.Backend, how, mm),
				fmt.Sprintf("%s backend, %s CompiledClassHash(%s) at block %d: juno answers %s, the chain's diffs up to block %d give %s (model read: %s) after: %s",
					cs.Backend, how, cs.Universe.Classes[i], n, got[i], n, t[i], m[i], sh.CasmOpsLine(cs.Ops)), false)
		} else if got[i] != m[i] {
			res.add("model-mismatch:casm:"+cs.Backend,
				fmt.Sprintf("%s backend, %s CompiledClassHash(%s) at block %d: juno answers %s (= truth), C03.Model.casm_read gives %s after: %s",
					cs.Backend, how, cs.Universe.Classes[i], n, got[i], m[i], sh.CasmOpsLine(cs.Ops)), true)
		}
		if verbose && got[i] != m[i] {
			res.detail = append(res.detail, fmt.Sprintf("  %-8s block %d casm(%s) juno=%s truth=%s model=%s", how, n, cs.Universe.Classes[i], got[i], t[i], m[i]))
		}
	}
	if anyErr {
		return
	}
	ans := or.Ask("cchk "+strconv.Itoa(n)+" "+strings.Join(got, " "), 1)[0]
	want := "ok"
	if firstBad >= 0 {
		want = "bad " + strconv.Itoa(firstBad)
	}
	if ans != want {
		res.add("c03:predicate-vs-truth-line", fmt.Sprintf("casm_ok says %q, comparison with the truth line says %q (%s block %d)", ans, want, how, n), true)
	}
}

// runCase executes the ops on a fresh sequencer+follower pair and observes after op i when obs is nil
// or obs[i], and always after the last op.
func runCase(ar *sh.Arena, or *hx.Oracle, cs *Case, obs map[int]bool, verbose bool) *result {
	res := &result{}
	p := ar.NewPair(cs.Backend == "new")
	defer p.Close()
	u := cs.Universe
	qs := u.Queries()
	real := make([]byte, 0, len(cs.Ops))
	for i := range cs.Ops {
		out := p.Apply(&cs.Ops[i])
		if out.OK {
			real = append(real, '1')
		} else {
			real = append(real, '0')
			res.errs = append(res.errs, fmt.Sprintf("op %d (%s): %s", i, opName(&cs.Ops[i]), out.Err()))
		}
		res.realBits = string(real)
		if out.Diverged {
			res.add(cs.Backend+":sequencer-follower-diverged",
				fmt.Sprintf("%s backend: op %d (%s) succeeded on one node only: %s; after: %s", cs.Backend, i, opName(&cs.Ops[i]), out.Err(), sh.OpsLine(cs.Ops[:i+1])), false)
			return res
		}
		if !(obs == nil || obs[i] || i == len(cs.Ops)-1) {
			continue
		}
		rep := ask(or, cs.Backend, u, cs.Ops[:i+1])
		res.modBits, res.height = rep.bits, rep.height
		if rep.bits != string(real) {
			j := 0
			for j < len(real) && j < len(rep.bits) && real[j] == rep.bits[j] {
				j++
			}
			class, verb := "c03:store-outcome-mismatch", "Store"
			if j < len(cs.Ops) && cs.Ops[j].Revert {
				class, verb = "c03:revert-outcome-mismatch", "RevertHead"
			}
			res.add(class, fmt.Sprintf("%s backend: %s (op %d) outcome on juno / in the model: %s / %s (1 = took effect; juno error: %s) in: %s",
				cs.Backend, verb, j, string(real), rep.bits, strings.Join(res.errs, " | "), sh.OpsLine(cs.Ops[:i+1])), false)
			return res
		}
		H := int(p.Height())
		if H != rep.height || H != len(p.Chain) {
			res.add(cs.Backend+":height-mismatch", fmt.Sprintf("%s backend: chain has %d blocks on juno, %d in the model, %d tracked after: %s",
				cs.Backend, H, rep.height, len(p.Chain), sh.OpsLine(cs.Ops[:i+1])), false)
			return res
		}
		sub := &Case{Probe: cs.Probe, Backend: cs.Backend, Universe: u, Ops: cs.Ops[:i+1]}
		ung := rep.unguarded()
		var byNum []string
		for n := 0; n < H; n++ {
			byNum = sh.Observe(p.Fol.BC, u, sh.ByNumber, uint64(n), nil)
			compare(or, res, sub, qs, sh.ByNumber, n, byNum, rep.t[n], rep.m[n], nil, ung, verbose)
			compare(or, res, sub, qs, sh.ByHash, n, sh.Observe(p.Fol.BC, u, sh.ByHash, 0, p.Chain[n].Block.Hash), rep.t[n], rep.m[n], nil, ung, verbose)
		}
		head := sh.Observe(p.Fol.BC, u, sh.Head, 0, nil)
		if cs.Probe == "casm" {
			// compiled class hashes through the same readers, against the CASM-metadata machine
			crep := askCasm(or, u.Classes, cs.Ops[:i+1])
			if crep.bits != string(real) || crep.height != H {
				res.add("c03:casm-outcome-mismatch", fmt.Sprintf("%s backend: op outcomes on juno / in the casm machine: %s / %s, heights %d / %d in: %s",
					cs.Backend, string(real), crep.bits, H, crep.height, sh.CasmOpsLine(cs.Ops[:i+1])), false)
				return res
			}
			for n := 0; n < H; n++ {
				compareCasm(or, res, sub, sh.ByNumber, n, sh.ObserveCasm(p.Fol.BC, u.Classes, sh.ByNumber, uint64(n), nil), crep.t[n], crep.m[n], verbose)
				compareCasm(or, res, sub, sh.ByHash, n, sh.ObserveCasm(p.Fol.BC, u.Classes, sh.ByHash, 0, p.Chain[n].Block.Hash), crep.t[n], crep.m[n], verbose)
			}
			if H > 0 {
				compareCasm(or, res, sub, sh.Head, H-1, sh.ObserveCasm(p.Fol.BC, u.Classes, sh.Head, 0, nil), crep.t[H-1], crep.h, verbose)
			}
		}
		if H > 0 {
			compare(or, res, sub, qs, sh.Head, H-1, head, rep.t[H-1], rep.h, byNum, ung, verbose)
		} else {
			// empty chain: there is no head state (the reader cannot be opened: key not found) or every answer is "not found"
			res.answers += len(head)
			for i, tok := range head {
				if tok != sh.OpenNotFound && tok != sh.NotFound {
					res.add(fmt.Sprintf("%s:head:%s:empty-chain", cs.Backend, qs[i].Kind),
						fmt.Sprintf("%s backend: head %s on the empty chain answers %s after: %s", cs.Backend, qs[i], tok, sh.OpsLine(sub.Ops)), false)
				}
			}
		}
	}
	return res
}

func opName(o *sh.Op) string {
	if o.Revert {
		return "RevertHead"
	}
	return "Store"
}

// ---------- shrinking ----------
func shrink(ar *sh.Arena, or *hx.Oracle, cs *Case, class string) *Case {
	budget := 400
	fails := func(c *Case) bool {
		if len(c.Ops) == 0 || budget <= 0 {
			return false
		}
		budget--
		r := runCase(ar, or, c, nil, false).has(class)
		if os.Getenv("C03_DEBUG") != "" {
			fmt.Fprintf(os.Stderr, "shrink[%s] budget=%d %v: %s\n", class, budget, r, sh.OpsLine(c.Ops))
		}
		return r
	}
	cur := &Case{Probe: cs.Probe, Backend: cs.Backend, Universe: cs.Universe, Ops: sh.CloneOps(cs.Ops)}
	if !fails(cur) {
		return cs
	}
	// ddmin over ops: remove chunks (halves, quarters, ...), then single ops, until nothing can go
	for changed := true; changed; {
		changed = false
		size := len(cur.Ops) / 2
		if size < 1 {
			size = 1
		}
		for ; size >= 1; size /= 2 {
			for start := 0; start+size <= len(cur.Ops); {
				cand := &Case{Probe: cur.Probe, Backend: cur.Backend, Universe: cur.Universe}
				cand.Ops = append(append([]sh.Op{}, cur.Ops[:start]...), cur.Ops[start+size:]...)
				if fails(cand) {
					cur, changed = cand, true
				} else {
					start += size
				}
			}
		}
	}
	// then over the entries of every remaining diff (later blocks first: they depend on earlier ones)
	for changed := true; changed; {
		changed = false
		for i := len(cur.Ops) - 1; i >= 0; i-- {
			if cur.Ops[i].Revert {
				continue
			}
			for j := cur.Ops[i].Block.Diff.Len() - 1; j >= 0; j-- {
				cand := &Case{Probe: cur.Probe, Backend: cur.Backend, Universe: cur.Universe, Ops: sh.CloneOps(cur.Ops)}
				cand.Ops[i].Block.Diff = *cur.Ops[i].Block.Diff.Without(j)
				if fails(cand) {
					cur, changed = cand, true
				}
			}
			if cur.Ops[i].Block.Salt != 0 {
				cand := &Case{Probe: cur.Probe, Backend: cur.Backend, Universe: cur.Universe, Ops: sh.CloneOps(cur.Ops)}
				cand.Ops[i].Block.Salt = 0
				if fails(cand) {
					cur, changed = cand, true
				}
			}
		}
	}
	return cur
}

// one shrink + report per class and run (hx keeps one replay per class anyway)
var reported = map[string]bool{}

func report(c *hx.Ctx, ar *sh.Arena, or *hx.Oracle, cs *Case, f finding) {
	if reported[f.class] {
		return
	}
	reported[f.class] = true
	small := shrink(ar, or, cs, f.class)
	what := f.what
	if r := runCase(ar, or, small, nil, false); r.has(f.class) {
		for _, g := range r.findings {
			if g.class == f.class {
				what = g.what
			}
		}
	}
	c.Violation(f.class, what, small, f.noInput)
}

func numWorkers() int {
	w := runtime.GOMAXPROCS(0)
	if w > 16 {
		w = 16
	}
	return w
}

// ---------- main ----------
type job struct {
	idx    int
	cs     *Case
	obs    map[int]bool
	labels [][]string
	family string // "" | "syscontract" | "casm"
	res    *result
}

func main() {
	casesFlag := flag.Int("cases", 0, "number of generated cases per backend (0 = tier default)")
	profFlag := flag.String("cpuprofile", "", "write a CPU profile (development)")
	c := hx.NewCtx("C03")
	if *profFlag != "" {
		f, err := os.Create(*profFlag)
		hx.Must(err)
		pprof.StartCPUProfile(f)
		defer pprof.StopCPUProfile()
	}
	or := hx.StartOracle(c.OraclePath)
	defer or.Close()
	ar := sh.NewArena()

	if c.ReplayIn != "" {
		var cs Case
		c.LoadReplay(&cs)
		if cs.Universe == nil {
			cs.Universe = sh.DefaultUniverse()
		}
		if cs.Probe == "deploy+replace" {
			replayProbe(c, ar, &cs)
			c.Finish("replay of one recorded probe case")
		}
		res := runCase(ar, or, &cs, nil, true)
		fmt.Printf("replay: %s\n  outcomes juno=%s model=%s height=%d answers=%d\n", cs.line(), res.realBits, res.modBits, res.height, res.answers)
		for _, e := range res.errs {
			fmt.Printf("  %s\n", e)
		}
		for _, d := range res.detail {
			fmt.Println(d)
		}
		for _, f := range res.findings {
			fmt.Printf("  finding %s: %s\n", f.class, f.what)
			report(c, ar, or, &cs, f)
		}
		c.Count(cs.line(), sh.Nontrivial(cs.Ops))
		c.Extra["queries"] = res.answers
		c.Finish("replay of one recorded case (observed after every op)")
	}

	ncases := 2000
	if c.Thorough() {
		ncases *= 20
	}
	if *casesFlag > 0 {
		ncases = *casesFlag
	}
	u := sh.DefaultUniverse()
	master := hx.NewRNG(c.Seed)
	jobs := make([]*job, 0, 2*ncases)
	for i := 0; i < ncases; i++ {
		sub := master.U64()
		for _, backend := range []string{"new", "legacy"} {
			// the same sub-seed for both backends: identical sequences up to the first revert the
			// legacy backend is predicted to refuse
			g := sh.NewGen(hx.NewRNG(sub), u, sh.DefaultGenConfig(u, backend == "legacy"))
			ops, labels := g.Case()
			// observation points: after every revert, after two random ops, after the last op
			obs := map[int]bool{}
			for k, o := range ops {
				if o.Revert {
					obs[k] = true
				}
			}
			or2 := hx.NewRNG(sub ^ 0x0b5e)
			obs[or2.Intn(len(ops))] = true
			obs[or2.Intn(len(ops))] = true
			jobs = append(jobs, &job{idx: len(jobs), cs: &Case{Backend: backend, Universe: u, Ops: ops}, obs: obs, labels: labels})
		}
	}

	// system-contract family: every shape of writes to 0x1 / 0x2 (creation, growth, zero writes, emptying,
	// re-creation, reverts across them), 70% of the cases guarded (the shapes C03_new / C03_old cover)
	nsys := ncases / 5
	su := sh.SysUniverse()
	sysR := hx.NewRNG(c.Seed ^ 0x5c5c)
	for i := 0; i < nsys; i++ {
		sub := sysR.U64()
		guarded := i%10 < 7
		for _, backend := range []string{"new", "legacy"} {
			ops, info := sh.GenSysCase(hx.NewRNG(sub), su, guarded, backend == "legacy")
			labels := make([][]string, len(ops))
			if len(ops) > 0 {
				labels[0] = info.Labels
				if info.Guarded {
					labels[0] = append(labels[0], "sys:case-guarded")
				} else {
					labels[0] = append(labels[0], "sys:case-unguarded")
				}
			}
			obs := map[int]bool{}
			for k, o := range ops {
				if o.Revert || k%2 == 1 {
					obs[k] = true
				}
			}
			jobs = append(jobs, &job{idx: len(jobs), cs: &Case{Probe: "syscontract", Backend: backend, Universe: su, Ops: ops}, obs: obs, labels: labels, family: "syscontract"})
		}
	}
	// Sierra declarations and CASM-hash migrations: Class(h) "at that block" through the main model (declared-at)
	// and CompiledClassHash through the CASM-metadata machine, by number / by hash / at head, across reverts
	ncasm := ncases / 10
	casmR := hx.NewRNG(c.Seed ^ 0xca53)
	for i := 0; i < ncasm; i++ {
		ops, ids := sh.GenCasmCase(hx.NewRNG(casmR.U64()))
		cu := &sh.Universe{}
		for _, id := range ids {
			cu.Classes = append(cu.Classes, sh.Hex(sh.SierraHash(id)))
		}
		cu.Classes = append(cu.Classes, "a") // never declared
		obs := map[int]bool{}
		for k, o := range ops {
			if o.Revert || k%2 == 1 {
				obs[k] = true
			}
		}
		for _, backend := range []string{"new", "legacy"} {
			jobs = append(jobs, &job{idx: len(jobs), cs: &Case{Probe: "casm", Backend: backend, Universe: cu, Ops: ops}, obs: obs, labels: make([][]string, len(ops)), family: "casm"})
		}
	}

	// corpus: recorded minimal cases (regressions of repaired defects, e.g. the classes delivered for deployed
	// contracts that survived RevertHead before juno commit 007ff78); observed after every op, must pass
	if files, _ := filepath.Glob("/verif/corpus/C03/*.json"); len(files) > 0 {
		sort.Strings(files)
		for _, f := range files {
			var w struct {
				Replay Case `json:"replay"`
			}
			b, err := os.ReadFile(f)
			hx.Must(err)
			hx.Must(json.Unmarshal(b, &w))
			if w.Replay.Universe == nil {
				w.Replay.Universe = sh.DefaultUniverse()
			}
			jobs = append(jobs, &job{idx: len(jobs), cs: &w.Replay, labels: make([][]string, len(w.Replay.Ops)), family: "corpus"})
			c.Hist["corpus"]++
		}
	}

	workers := numWorkers()
	var wg sync.WaitGroup
	next := make(chan *job, len(jobs))
	for _, j := range jobs {
		next <- j
	}
	close(next)
	for w := 0; w < workers; w++ {
		wg.Add(1)
		go func() {
			defer wg.Done()
			wor := hx.StartOracle(c.OraclePath)
			war := sh.NewArena()
			defer wor.Close()
			for j := range next {
				j.res = runCase(war, wor, j.cs, j.obs, false)
			}
		}()
	}
	wg.Wait()

	total, sysAnswers, casmAnswers := 0, 0, 0
	for _, j := range jobs {
		total += j.res.answers
		if j.family == "casm" {
			c.Count("casm|"+j.cs.Backend+"|"+sh.CasmOpsLine(j.cs.Ops), len(j.cs.Universe.Classes) > 1)
			c.Hist["casm-case-"+j.cs.Backend]++
			for _, o := range j.cs.Ops {
				switch {
				case o.Revert:
					c.Hist["casm:revert"]++
				default:
					c.Hist["casm:sierra-declaration"] += len(o.Block.DeclareV1)
					c.Hist["casm:migration"] += len(o.Block.Migrate)
					c.Hist["casm:block-version-"+o.Block.Version]++
				}
			}
			casmAnswers += j.res.answers
		} else {
			c.Count(j.family+"|"+j.cs.Backend+"|"+sh.OpsLine(j.cs.Ops), sh.Nontrivial(j.cs.Ops))
		}
		if j.family == "syscontract" {
			c.Hist["syscontract-case-"+j.cs.Backend]++
			sysAnswers += j.res.answers
		} else if j.family == "" {
			c.Hist["backend-"+j.cs.Backend]++
		}
		for k, ls := range j.labels {
			if len(ls) == 0 {
				continue
			}
			if j.family != "" {
				for _, l := range ls {
					c.Hist[l]++
				}
				continue
			}
			// self-check of the generator: every generated Store is valid in the model (and, the outcomes
			// being equal, accepted by juno)
			if !j.cs.Ops[k].Revert && k < len(j.res.modBits) && j.res.modBits[k] == '0' && len(j.res.findings) == 0 {
				report(c, ar, or, j.cs, finding{"c03:generator-emitted-invalid-store", fmt.Sprintf("op %d of the generated case is invalid in the model: %s", k, j.cs.line()), true})
			}
			c.Hist["op:"+ls[0]]++
			for _, l := range ls[1:] {
				c.Hist[l]++
			}
			if j.cs.Ops[k].Revert && k < len(j.res.realBits) && j.res.realBits[k] == '0' && k < len(j.res.modBits) && j.res.modBits[k] == '0' {
				if ls[0] == "revert-empty" {
					c.Hist["revert-empty-chain-failed-as-modelled"]++
				} else {
					c.Hist["revert-failed-as-modelled"]++
					if ls[0] != "revert-predicted-to-fail" && os.Getenv("C03_DEBUG") != "" {
						fmt.Fprintf(os.Stderr, "unpredicted failing revert op %d (%s) bits %s: %s\n  %s\n", k, ls[0], j.res.realBits, j.cs.line(), strings.Join(j.res.errs, " | "))
					}
				}
			}
		}
		if j.family == "" {
			c.Hist[fmt.Sprintf("final-height-%02d", j.res.height)]++
		}
		if j.idx < 4 {
			c.Sample(map[string]any{"backend": j.cs.Backend, "ops": sh.OpsLine(j.cs.Ops), "outcomes": j.res.realBits,
				"final_height": j.res.height, "answers_compared": j.res.answers})
		}
		for _, f := range j.res.findings {
			c.Hist["finding:"+f.class]++
			report(c, ar, or, j.cs, f)
		}
	}
	c.Extra["queries"] = total
	c.Extra["syscontract_answers"] = sysAnswers
	c.Extra["syscontract_cases"] = nsys
	c.Extra["casm_answers"] = casmAnswers
	c.Extra["casm_cases"] = ncasm
	c.Extra["cases"] = ncases
	c.Extra["universe"] = u
	c.Extra["workers"] = workers

	if optionalProbes {
		runProbes(c, ar)
	}

	pprof.StopCPUProfile()
	c.Finish("op sequences (4..14 ops) of Store(diff) / RevertHead over 4 contracts x 4 slots (one at 2^250+5) x 3 Cairo0 classes, run on a sequencer+follower pair per state backend; " +
		"diffs are valid on the tracked abstract state: deployments, replacements of pre-existing contracts (also by the same class), nonces (bump, same, zero, on deploy), " +
		"writes (non-zero, overwrite, back to zero, same value, zero to a zero slot), deploy-and-touch, Cairo0 declarations (also repeated), class definitions delivered for the block's deployed contracts without being declared (10% of the deploying blocks; known and unknown hashes); reverts come in bursts (1..3 or down to genesis) and are " +
		"followed by a different block or (25%) the reverted block again (same or new salt); the follower is read by number, by hash (every block) and at head after every revert, two random ops and the last op; " +
		"every answer is compared with the truth line, the model read and c03_ok; non-trivial = a revert followed by a store, or a zero / same-value write; distinct by (backend, op sequence). " +
		"System-contract family (cases/5 per backend, classes syscontract:...): 3..11 ops over 0x1, 0x2 and one ordinary contract x 3 slots - creation by a first write, growth, overwrites, same-value and zero writes, zero writes to a missing contract, " +
		"writes that EMPTY the contract, re-creation, revert bursts across all of them; 70% of the cases keep every written system contract non-empty (sys_guard: the shapes C03_new / C03_old cover), the oracle reports sys_guarded per op; " +
		"read and compared like the main family (model read = C03.Model incl. auto-creation / purge by storage root of both backends). " +
		"Sierra / CASM family (cases/10, classes casm:...): 3..10 ops whose blocks (0.14.0 / 0.14.1) declare 0..2 Sierra classes and migrate the compiled class hash of classes declared under the old hash, with revert bursts; " +
		"Class(h) by number / by hash / at head against the main model (declared-at) and CompiledClassHash by number / by hash / at head against the CASM-metadata machine (casm_read / casm_head, truth ctruth_at, predicate casm_ok)")
}

// ---------- optional probes (outside the Coq model; Go-side truth) ----------
const optionalProbes = true

// probeFails runs one probe case and tells whether it yields the class.
func probeRun(ar *sh.Arena, cs *Case) ([]sh.ProbeFinding, int) {
	switch cs.Probe {
	case "deploy+replace":
		fs, _ := sh.RunDeployReplace(ar, cs.Backend == "new", cs.Ops)
		return fs, 2
	}
	hx.Fatalf("unknown probe %q", cs.Probe)
	return nil, 0
}

func probeReport(c *hx.Ctx, ar *sh.Arena, cs *Case, f sh.ProbeFinding) {
	if reported[f.Class] {
		return
	}
	reported[f.Class] = true
	budget := 300
	find := func(x *Case) *sh.ProbeFinding {
		if len(x.Ops) == 0 || budget <= 0 {
			return nil
		}
		budget--
		fs, _ := probeRun(ar, x)
		for k := range fs {
			if fs[k].Class == f.Class {
				return &fs[k]
			}
		}
		return nil
	}
	cur := &Case{Probe: cs.Probe, Backend: cs.Backend, Universe: cs.Universe, Ops: sh.CloneOps(cs.Ops)}
	what := f.What
	for changed := true; changed && false; {
		changed = false
		for k := len(cur.Ops) - 1; k >= 0; k-- {
			cand := &Case{Probe: cur.Probe, Backend: cur.Backend, Universe: cur.Universe}
			cand.Ops = append(sh.CloneOps(cur.Ops[:k]), sh.CloneOps(cur.Ops[k+1:])...)
			if g := find(cand); g != nil {
				cur, what, changed = cand, g.What, true
			}
		}
		for k := len(cur.Ops) - 1; k >= 0; k-- {
			if cur.Ops[k].Revert {
				continue
			}
			for j := cur.Ops[k].Block.Diff.Len() - 1; j >= 0; j-- {
				cand := &Case{Probe: cur.Probe, Backend: cur.Backend, Universe: cur.Universe, Ops: sh.CloneOps(cur.Ops)}
				cand.Ops[k].Block.Diff = *cur.Ops[k].Block.Diff.Without(j)
				if g := find(cand); g != nil {
					cur, what, changed = cand, g.What, true
				}
			}
		}
	}
	c.Violation(f.Class, what, cur, false)
}

func runProbes(c *hx.Ctx, ar *sh.Arena) {
	// deployment and class replacement of the same address in one block
	var notes []string
	for _, backend := range []string{"new", "legacy"} {
		for _, atGenesis := range []bool{true, false} {
			cs := &Case{Probe: "deploy+replace", Backend: backend, Ops: sh.DeployReplaceOps(atGenesis)}
			fs, note := sh.RunDeployReplace(ar, backend == "new", cs.Ops)
			notes = append(notes, fmt.Sprintf("genesis=%v %s", atGenesis, note))
			// A diff listing one address under deployed_contracts AND replaced_classes is not a
			// well-formed Starknet state diff (the sequencer squashes it into the deployment); the
			// observation is recorded in the evidence and in findings/C03.md, and is only turned into a
			// violation when explicitly asked for.
			if os.Getenv("C03_PROBE_DEPLOY_REPLACE") != "1" {
				for _, f := range fs {
					notes = append(notes, "observed (not reported): "+f.Class+": "+f.What)
				}
				continue
			}
			for _, f := range fs {
				probeReport(c, ar, cs, f)
			}
		}
	}
	c.Extra["probe_deploy_replace"] = notes
}

func replayProbe(c *hx.Ctx, ar *sh.Arena, cs *Case) {
	fs, a := probeRun(ar, cs)
	fmt.Printf("replay of probe %s (%s backend): %s\n  %d answers compared, %d findings\n", cs.Probe, cs.Backend, sh.OpsLine(cs.Ops), a, len(fs))
	for _, f := range fs {
		fmt.Printf("  finding %s: %s\n", f.Class, f.What)
		probeReport(c, ar, cs, f)
	}
	c.Count(cs.Probe+"|"+cs.Backend+"|"+sh.OpsLine(cs.Ops), true)
}
