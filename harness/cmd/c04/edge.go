// Scenario family "fork at a bloom-window edge". The aggregated bloom filter of a window of
// core.NumBlocksPerFilter (8192) blocks is persisted when the running filter rolls over, cached by
// Blockchain.EventFilter in an LRU, deleted again when a revert takes the head back into the window and
// rewritten when the window is filled a second time. The generic fork experiments never reach block 8191;
// this scenario does: a chain of cheap blocks (one transaction with one or two events each) up to head =
// 8191 (last block of window 0), 8192 or 8193, an events query on node A (so that window 0's filter is
// cached), RevertHead 1..3 blocks with an events query after every revert, a fork B with other emitters and
// keys, and then the two-node comparison of the generic experiment: node A (stored and reverted fork A,
// followed B) against node B (followed B only) on the events query (full range, edge range, per emitter, per
// key), the Reader API around the edge and for every fork block / transaction hash, and the raw database.
// The cache is not part of C04.Model (the running filter is abstract there): harness-only coverage.
package main

import (
	"fmt"

	sh "verifharness/statehist"
)

// EdgeSpec is the replay object of one edge history.
type EdgeSpec struct {
	Backend string `json:"backend"` // new | legacy
	Head    uint64 `json:"head"`    // number of the last fork-A block (8191, 8192 or 8193 for the real window)
	Depth   int    `json:"depth"`   // blocks reverted = length of fork A
	LenB    int    `json:"len_b"`   // length of fork B
	Salt    uint64 `json:"salt"`    // varies the contents of the fork blocks
}

func (e *EdgeSpec) String() string {
	return fmt.Sprintf("%s backend: window edge, chain 0..%d, events query, %d block(s) reverted with an events query after each revert, fork B of %d block(s) from block %d",
		e.Backend, e.Head, e.Depth, e.LenB, e.Head-uint64(e.Depth)+1)
}

var edgeEmitters = []string{"e1", "e2", "e3"}

const (
	edgeEmitterA = "a1" // only fork A blocks emit from here
	edgeEmitterB = "b1" // only fork B blocks emit from here
	edgeKeyA     = "aa"
	edgeKeyB     = "bb"
)

// prefix block n: one transaction, one event (two on every 5th block)
func edgePrefixBlock(n uint64) *sh.BlockSpec {
	evs := []sh.Ev{{From: edgeEmitters[n%3], Keys: []string{sh.U(n%7 + 1)}, Data: []string{sh.U(n)}}}
	if n%5 == 0 {
		evs = append(evs, sh.Ev{From: edgeEmitters[(n+1)%3], Keys: []string{sh.U(9), sh.U(n%3 + 1)}})
	}
	return &sh.BlockSpec{Txs: [][]sh.Ev{evs}}
}

func edgeForkBlock(emitter, key string, i int, salt uint64) *sh.BlockSpec {
	return &sh.BlockSpec{
		Salt: salt,
		Txs: [][]sh.Ev{
			{{From: emitter, Keys: []string{key, sh.U(uint64(i) + 1)}, Data: []string{sh.U(salt)}}},
			{{From: edgeEmitters[i%3], Keys: []string{key}}, {From: emitter, Keys: []string{sh.U(uint64(i) + 1)}}},
		},
	}
}

type edgeResult struct {
	findings []finding
	queries  int
	dbKeys   int
	blocks   int
	note     string
}

func (r *edgeResult) add(class, what string) {
	for _, f := range r.findings {
		if f.class == class {
			return
		}
	}
	r.findings = append(r.findings, finding{class: class, what: what})
}

// edgeWarm runs the events queries that make node A cache the persisted window(s).
func edgeWarm(n *sh.Node) int {
	bc := n.BC
	sh.EventsQuery(bc, nil, nil, nil, nil)
	sh.EventsQuery(bc, []string{edgeEmitterA}, nil, nil, nil)
	sh.EventsQuery(bc, []string{edgeEmitters[0]}, [][]string{{sh.U(1)}}, nil, nil)
	return 3
}
