package main

import (
	"fmt"
	"os"
	"strings"
	"time"

	"github.com/NethermindEth/juno/core"
	"verifharness/hx"
	sh "verifharness/statehist"
)

// edgeCompare: node A (prefix, fork A, reverts, fork B) against node B (prefix, fork B).
func edgeCompare(res *edgeResult, e *EdgeSpec, na, nb *sh.Node, forks []*sh.Built) {
	forkFrom := e.Head - uint64(e.Depth) + 1
	q := &sh.QueryCtx{MaxIndex: 2}
	if forkFrom > 3 {
		q.MinNumber = forkFrom - 3
	}
	q.MaxNumber = e.Head + 2
	if m := forkFrom + uint64(e.LenB) + 1; m > q.MaxNumber {
		q.MaxNumber = m
	}
	for _, b := range forks {
		q.BlockHashes = append(q.BlockHashes, b.Block.Hash)
		for _, tx := range b.Block.Transactions {
			q.TxHashes = append(q.TxHashes, tx.Hash())
		}
	}
	fa := append(edgeEventFacts(na, e), sh.ObserveNode(na, q)...)
	fb := append(edgeEventFacts(nb, e), sh.ObserveNode(nb, q)...)
	res.queries += len(fa)
	for _, d := range sh.DiffFacts(fa, fb) {
		va, vb := d.A.Val, d.B.Val
		if len(va) > 160 {
			va = va[:160] + "…"
		}
		if len(vb) > 160 {
			vb = vb[:160] + "…"
		}
		class := e.Backend + ":edge:" + d.A.Family
		if strings.HasPrefix(d.A.Family, "events:") {
			class = e.Backend + ":edge:events" // one class for the events query, the first differing query is in the text
		}
		res.add(class, fmt.Sprintf("%s: %s %s answers %s on the node that stored and reverted fork A, %s on the node that never saw it",
			e, d.A.Family, d.A.Key, va, vb))
	}
	da, err := sh.DumpDB(na.DB)
	hx.Must(err)
	dbb, err := sh.DumpDB(nb.DB)
	hx.Must(err)
	res.dbKeys += sh.DumpSize(da) + sh.DumpSize(dbb)
	if e.Backend == "legacy" {
		sh.NormaliseLegacyTrieNodes(da)
		sh.NormaliseLegacyTrieNodes(dbb)
	}
	for _, d := range sh.DiffDumps(da, dbb) {
		res.add(e.Backend+":edge:dbdump:"+sh.BucketName(d.Bucket), fmt.Sprintf("%s: raw database bucket %s differs: %d keys only on the fork node, %d only on the direct node, %d with different values",
			e, sh.BucketName(d.Bucket), len(d.OnlyA), len(d.OnlyB), len(d.Changed)))
	}
}

// edgeSpecs chooses the edge histories of a run. Quick tier: one history whose reverts cross the window
// edge (block 8191 is reverted), head / depth / fork-B length / backend from the seed. Thorough tier: every
// head in {8191, 8192, 8193} x depth 1..3 on both backends.
func edgeSpecs(seed uint64, thorough bool) []*EdgeSpec {
	last := uint64(core.NumBlocksPerFilter) - 1
	r := hx.NewRNG(seed ^ 0xed9e)
	if !thorough {
		head := last + uint64(r.Intn(3))
		minDepth := int(head-last) + 1 // reaches block 8191
		depth := minDepth + r.Intn(3-minDepth+1)
		backend := []string{"new", "legacy"}[(seed+uint64(r.Intn(2)))%2]
		return []*EdgeSpec{{Backend: backend, Head: head, Depth: depth, LenB: edgeLenB(r, head, depth), Salt: 1 + uint64(r.Intn(8))}}
	}
	var out []*EdgeSpec
	for _, backend := range []string{"new", "legacy"} {
		for h := uint64(0); h < 3; h++ {
			for depth := 1; depth <= 3; depth++ {
				out = append(out, &EdgeSpec{Backend: backend, Head: last + h, Depth: depth, LenB: edgeLenB(r, last+h, depth), Salt: 1 + uint64(r.Intn(8))})
			}
		}
	}
	return out
}

// edgeLenB: fork B fills the window again (reaches block 8191, so the window is persisted a second time)
// whenever the reverts emptied its last block, and goes 0..2 blocks further.
func edgeLenB(r *hx.RNG, head uint64, depth int) int {
	last := uint64(core.NumBlocksPerFilter) - 1
	forkFrom := head - uint64(depth) + 1
	minB := 1
	if forkFrom <= last {
		minB = int(last-forkFrom) + 1
	}
	return minB + r.Intn(3)
}

type edgeOut struct {
	spec *EdgeSpec
	res  *edgeResult
}

// computeEdges runs the histories (no access to the run context: it may run beside the worker pool).
func computeEdges(specs []*EdgeSpec) (outs []edgeOut, wall float64) {
	if os.Getenv("C04_NO_EDGE") == "1" { // development only
		return nil, 0
	}
	t0 := time.Now()
	for _, e := range specs {
		outs = append(outs, edgeOut{e, runEdge(e)})
	}
	return outs, time.Since(t0).Seconds()
}

// recordEdges enters the results into the evidence; violations carry the EdgeSpec as replay.
func recordEdges(c *hx.Ctx, outs []edgeOut, wall float64) {
	var notes []string
	for _, o := range outs {
		e, res := o.spec, o.res
		c.Count("edge "+e.String(), true)
		c.Hist["edge-history-"+e.Backend]++
		c.Hist[fmt.Sprintf("edge-head-%d-depth-%d", e.Head, e.Depth)]++
		notes = append(notes, fmt.Sprintf("%s: %d blocks built, %d answers compared, %d raw entries compared, %d findings", e, res.blocks, res.queries, res.dbKeys, len(res.findings)))
		for _, f := range res.findings {
			c.Hist["finding:"+f.class]++
			c.Violation(f.class, f.what, &Spec{Backend: e.Backend, Edge: e}, false)
		}
	}
	c.Extra["edge_histories"] = notes
	c.Extra["edge_wall_s"] = wall
}
