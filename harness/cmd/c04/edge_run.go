package main

import (
	"fmt"
	"sync"

	"github.com/NethermindEth/juno/core"
	"github.com/NethermindEth/juno/core/felt"
	"verifharness/hx"
	sh "verifharness/statehist"
)

// edgeEventFacts: the event queries compared between the two nodes.
func edgeEventFacts(n *sh.Node, e *EdgeSpec) []sh.Fact {
	bc := n.BC
	var fs []sh.Fact
	add := func(fam, key, val string) { fs = append(fs, sh.Fact{Family: fam, Key: key, Val: val}) }
	add("events:all", "", sh.EventsQuery(bc, nil, nil, nil, nil))
	for _, em := range append(append([]string{}, edgeEmitters...), edgeEmitterA, edgeEmitterB) {
		add("events:by-emitter", em, sh.EventsQuery(bc, []string{em}, nil, nil, nil))
	}
	for _, k := range []string{edgeKeyA, edgeKeyB, sh.U(1), sh.U(9)} {
		add("events:by-key", k, sh.EventsQuery(bc, nil, [][]string{{k}}, nil, nil))
	}
	add("events:by-second-key", "1", sh.EventsQuery(bc, nil, [][]string{{}, {sh.U(1)}}, nil, nil))
	add("events:by-emitter+key", edgeEmitterB+"/"+edgeKeyB, sh.EventsQuery(bc, []string{edgeEmitterB}, [][]string{{edgeKeyB}}, nil, nil))
	// ranges around the window edge
	w := uint64(core.NumBlocksPerFilter)
	lo, hi := uint64(0), e.Head+3
	if e.Head > uint64(e.Depth)+2 {
		lo = e.Head - uint64(e.Depth) - 2
	}
	last := w - 1
	for _, r := range []struct {
		name     string
		from, to *uint64
	}{{"edge-range", &lo, &hi}, {"to-window-end", nil, &last}, {"from-window-end", &last, nil}, {"from-next-window", &w, nil}} {
		add("events:"+r.name, "all", sh.EventsQuery(bc, nil, nil, r.from, r.to))
		add("events:"+r.name, edgeEmitterB, sh.EventsQuery(bc, []string{edgeEmitterB}, nil, r.from, r.to))
		add("events:"+r.name, "key "+edgeKeyB, sh.EventsQuery(bc, nil, [][]string{{edgeKeyB}}, r.from, r.to))
	}
	return fs
}

// runEdge builds the two nodes of one edge history and compares them.
func runEdge(e *EdgeSpec) *edgeResult {
	res := &edgeResult{}
	newState := e.Backend == "new"
	na, nb := sh.NewNode(nil, newState), sh.NewNode(nil, newState) // juno's default running filter
	forkFrom := e.Head - uint64(e.Depth) + 1                        // first block of the forks
	var builtA, builtB []*sh.Built                                  // fork A on NA; fork B on NB
	var bOnA []*sh.Built                                            // fork B as built on NA
	var errA, errB error
	var wg sync.WaitGroup
	wg.Add(2)
	go func() { // node B: prefix, fork B
		defer wg.Done()
		for n := uint64(0); n < forkFrom && errB == nil; n++ {
			_, errB = nb.Build(edgePrefixBlock(n))
		}
		for i := 0; i < e.LenB && errB == nil; i++ {
			var b *sh.Built
			b, errB = nb.Build(edgeForkBlock(edgeEmitterB, edgeKeyB, i, e.Salt+16))
			builtB = append(builtB, b)
		}
	}()
	revertNote := ""
	go func() { // node A: prefix, fork A, events query, reverts (query after each), fork B
		defer wg.Done()
		for n := uint64(0); n < forkFrom && errA == nil; n++ {
			_, errA = na.Build(edgePrefixBlock(n))
		}
		for i := 0; i < e.Depth && errA == nil; i++ {
			var b *sh.Built
			b, errA = na.Build(edgeForkBlock(edgeEmitterA, edgeKeyA, i, e.Salt))
			builtA = append(builtA, b)
		}
		if errA != nil {
			return
		}
		res.queries += edgeWarm(na)
		for i := 0; i < e.Depth; i++ {
			if err := na.BC.RevertHead(); err != nil {
				revertNote = fmt.Sprintf("RevertHead of block %d fails: %v", e.Head-uint64(i), err)
				return
			}
			res.queries += edgeWarm(na)
		}
		for i := 0; i < e.LenB && errA == nil; i++ {
			var b *sh.Built
			b, errA = na.Build(edgeForkBlock(edgeEmitterB, edgeKeyB, i, e.Salt+16))
			bOnA = append(bOnA, b)
		}
	}()
	wg.Wait()
	res.blocks = int(forkFrom)*2 + e.Depth + 2*e.LenB
	if errA != nil || errB != nil {
		hx.Fatalf("edge history: building failed: node A %v, node B %v (%s)", errA, errB, e)
	}
	if revertNote != "" {
		res.add(e.Backend+":edge:revert-fails", fmt.Sprintf("%s: %s", e, revertNote))
		return res
	}
	for i := range builtB {
		if !builtB[i].Block.Hash.Equal(bOnA[i].Block.Hash) {
			// same parent, same content, same state: a different hash means the state roots differ
			res.add(e.Backend+":edge:fork-b-block-differs", fmt.Sprintf("%s: block %d finalised on node A has hash %s, on node B %s (state root %s vs %s)",
				e, builtB[i].Block.Number, sh.Hex(bOnA[i].Block.Hash), sh.Hex(builtB[i].Block.Hash),
				sh.Hex(bOnA[i].Block.GlobalStateRoot), sh.Hex(builtB[i].Block.GlobalStateRoot)))
			return res
		}
	}
	edgeCompare(res, e, na, nb, append(append([]*sh.Built{}, builtA...), builtB...))
	return res
}

var _ = felt.Zero
