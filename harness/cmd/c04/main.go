// C04 correspondence: RevertHead exactly undoes a block; forks converge. Per state backend a node NA
// stores a common prefix P, a fork A, reverts A block by block and stores a fork B; a node NB stores P
// and B only. Both are followers (SanityCheckNewHeight+Store) fed by sequencer nodes. NA and NB must
// be indistinguishable: every blockchain.Reader query, the state readers (by number, by hash, head),
// the event filter, and the raw database bucket by bucket. NA's op sequence also runs through the
// extracted model C04.Model (store_node / revert_node): op outcomes and the decoded content of every
// index family are compared. Every stored block must be revertible on both backends (zero writes to
// absent slots, which broke the legacy RevertHead before juno commit 1b89e86, are generated on purpose).
package main

import (
	"encoding/hex"
	"encoding/json"
	"flag"
	"fmt"
	"os"
	"path/filepath"
	"runtime"
	"runtime/pprof"
	"sort"
	"strings"
	"sync"

	"github.com/NethermindEth/juno/core"
	"github.com/NethermindEth/juno/core/felt"
	"github.com/NethermindEth/juno/db"
	"verifharness/hx"
	sh "verifharness/statehist"
)

// Spec is the replay object: a fork experiment on one backend. B empty = "store P, store A, revert A"
// against "store P".
type Spec struct {
	Probe   string          `json:"probe,omitempty"` // "duplicate-tx-hash": replay of the optional probe
	Backend string          `json:"backend"`         // new | legacy
	P       []*sh.BlockSpec `json:"prefix"`
	A       []*sh.BlockSpec `json:"fork_a"`
	B       []*sh.BlockSpec `json:"fork_b"`
	Edge    *EdgeSpec       `json:"edge,omitempty"` // replay of a "fork at a bloom-window edge" history (edge.go)
	// Restart: node A is restarted (a fresh Blockchain over the same database, real lazy filter initialisation)
	// right before fork A is reverted, so the revert is the first operation that touches its running event filter
	Restart bool `json:"restart,omitempty"`
}

func cloneBlocks(l []*sh.BlockSpec) []*sh.BlockSpec {
	out := make([]*sh.BlockSpec, len(l))
	for i, b := range l {
		c := b.Clone()
		c.Txs = append([][]sh.Ev(nil), b.Txs...)
		c.L1 = append([]sh.L1Msg(nil), b.L1...)
		c.DeclareV1 = append([]sh.SierraDecl(nil), b.DeclareV1...)
		c.Migrate = append([]sh.SierraDecl(nil), b.Migrate...)
		out[i] = c
	}
	return out
}

func (s *Spec) clone() *Spec {
	return &Spec{Backend: s.Backend, P: cloneBlocks(s.P), A: cloneBlocks(s.A), B: cloneBlocks(s.B), Restart: s.Restart}
}

func blockLine(b *sh.BlockSpec) string {
	s := b.Diff.String()
	var x []string
	if b.Version != "" && b.Version != "0.14.0" {
		x = append(x, "v"+b.Version)
	}
	if len(b.Txs) > 0 {
		ne := 0
		for _, t := range b.Txs {
			ne += len(t)
		}
		x = append(x, fmt.Sprintf("%dtx/%dev", len(b.Txs), ne))
	}
	if len(b.L1) > 0 {
		x = append(x, fmt.Sprintf("%dl1", len(b.L1)))
	}
	for _, d := range b.DeclareV1 {
		x = append(x, fmt.Sprintf("sierra#%d", d.ID))
	}
	for _, d := range b.Migrate {
		x = append(x, fmt.Sprintf("migrate#%d", d.ID))
	}
	if b.Salt != 0 {
		x = append(x, fmt.Sprintf("salt%d", b.Salt))
	}
	if len(x) > 0 {
		s += " {" + strings.Join(x, " ") + "}"
	}
	return s
}

func (s *Spec) String() string {
	part := func(l []*sh.BlockSpec) string {
		p := make([]string, len(l))
		for i, b := range l {
			p[i] = blockLine(b)
		}
		return "[" + strings.Join(p, " ; ") + "]"
	}
	rs := ""
	if s.Restart {
		rs = " (node restarted before the reverts)"
	}
	return fmt.Sprintf("%s backend: prefix %s fork A %s reverted%s, fork B %s", s.Backend, part(s.P), part(s.A), rs, part(s.B))
}

// ---------- oracle ----------
func opLine(b *sh.Built) string {
	var txs, casm, migr []string
	for _, tx := range b.Block.Transactions {
		t := sh.Hex(tx.Hash())
		if l1, ok := tx.(*core.L1HandlerTransaction); ok {
			t += ":" + hexNum(l1.MessageHash())
		}
		txs = append(txs, t)
	}
	_ = casm
	_ = migr
	// <v2> <declared h:c:v2hash,..> <migrated h:c,..> as the CASM-metadata machine sees the block
	return "S " + b.Spec.ModelDiff().String() + " " + sh.Hex(b.Block.Hash) + " " + dash(txs) + " " + b.Spec.CasmLine()
}

func hexNum(b []byte) string {
	s := strings.TrimLeft(hex.EncodeToString(b), "0")
	if s == "" {
		return "0"
	}
	return s
}

func dash(l []string) string {
	if len(l) == 0 {
		return "-"
	}
	return strings.Join(l, ",")
}

type reply struct {
	bits, guard string
	sysg        string // per op: for S whether the block leaves the system contracts it writes to non-empty
	height      string
	fam         map[string]string
}

// unguarded: node A stored (and possibly reverted) a block that emptied a system contract
func (r *reply) unguarded() bool { return strings.Contains(r.sysg, "0") }

func ask(or *hx.Oracle, backend string, ops []string) *reply {
	b := "new"
	if backend != "new" {
		b = "old"
	}
	r := &reply{fam: map[string]string{}}
	for _, l := range or.AskUntil("case "+b+" | "+strings.Join(ops, ";"), "end") {
		f := strings.SplitN(l, " ", 3)
		switch f[0] {
		case "ops":
			r.bits = f[1]
		case "guard":
			r.guard = f[1]
		case "sysg":
			r.sysg = f[1]
		case "height":
			r.height = f[1]
		case "d":
			r.fam[f[1]] = f[2]
		default:
			hx.Fatalf("unexpected oracle line %q", l)
		}
	}
	return r
}

// ---------- one experiment ----------
type finding struct {
	class, what string
	noInput     bool
}

type result struct {
	findings    []finding
	queries     int // facts compared NA vs NB
	dbKeys      int // raw entries compared
	families    int // model families compared
	reverts     int
	normalised  int  // legacy trie records whose zero-hash trailer was stripped before the raw comparison
	stopped     string
	detail      []string
}

func (r *result) add(class, what string, noInput bool) {
	for _, f := range r.findings {
		if f.class == class {
			return
		}
	}
	r.findings = append(r.findings, finding{class, what, noInput})
}

func (r *result) has(class string) bool {
	for _, f := range r.findings {
		if f.class == class {
			return true
		}
	}
	return false
}

func shortReason(err error) string {
	s := err.Error()
	switch {
	case strings.Contains(s, "check head state"):
		return "check-head-state"
	case strings.Contains(s, "key not found"):
		return "key-not-found"
	}
	s = strings.Map(func(r rune) rune {
		if (r >= 'a' && r <= 'z') || (r >= '0' && r <= '9') {
			return r
		}
		if r >= 'A' && r <= 'Z' {
			return r + 32
		}
		return '-'
	}, s)
	if len(s) > 40 {
		s = s[:40]
	}
	return strings.Trim(s, "-")
}

func runSpec(ar *sh.Arena, or *hx.Oracle, sp *Spec, verbose bool) *result {
	res := &result{}
	newState := sp.Backend == "new"
	s1, s2 := ar.NewNode(newState), ar.NewNode(newState)
	na, nb := ar.NewNode(newState), ar.NewNode(newState)
	naArena := na
	defer func() { s1.Close(); s2.Close(); naArena.Close(); nb.Close() }()

	var all []*sh.Built // every block ever built: P, A, B
	var ops []string    // NA's op sequence for the oracle
	var opBlock []int   // ops index of the S that stored chain position i of NA
	reject := func(who string, i int, part string, err error) *result {
		res.add("model-mismatch:store-outcome", fmt.Sprintf("%s backend: %s rejects block %d of %s: %v in %s", sp.Backend, who, i, part, err, sp), false)
		res.stopped = "store rejected"
		return res
	}
	// prefix: built by S1, stored by S2, NA, NB
	for i, b := range sp.P {
		bt, err := s1.Build(b)
		if err != nil {
			return reject("sequencer 1 (Finalise)", i, "the prefix", err)
		}
		all = append(all, bt)
		for _, n := range []struct {
			who string
			n   *sh.Node
		}{{"sequencer 2", s2}, {"node A", na}, {"node B", nb}} {
			if err := n.n.Store(bt); err != nil {
				return reject(n.who, i, "the prefix", err)
			}
		}
		opBlock = append(opBlock, len(ops))
		ops = append(ops, opLine(bt))
	}
	// fork A: built by S2 on top of the prefix, stored by NA
	for i, b := range sp.A {
		bt, err := s2.Build(b)
		if err != nil {
			return reject("sequencer 2 (Finalise)", i, "fork A", err)
		}
		all = append(all, bt)
		if err := na.Store(bt); err != nil {
			return reject("node A", i, "fork A", err)
		}
		opBlock = append(opBlock, len(ops))
		ops = append(ops, opLine(bt))
	}
	// fork B is built now (S1 still stands at the prefix) so that its hashes are part of every query
	var builtB []*sh.Built
	for i, b := range sp.B {
		bt, err := s1.Build(b)
		if err != nil {
			return reject("sequencer 1 (Finalise)", i, "fork B", err)
		}
		all = append(all, bt)
		builtB = append(builtB, bt)
	}
	q := queryCtx(sp, all)
	// the unchanged-after-a-failed-revert check reads the state at head only (the raw dump compared with
	// it covers the history buckets); the legacy history readers copy the memory database per query
	qLight := *q
	qLight.HeadOnly = true

	// revert fork A on NA
	var revertErr error
	revertedBlock := -1
	for k := len(sp.A) - 1; k >= 0; k-- {
		before := sh.ObserveNode(na, &qLight)
		dumpBefore, err := sh.DumpDB(na.DB)
		hx.Must(err)
		pos := len(sp.P) + k
		if sp.Restart && k == len(sp.A)-1 {
			na = na.Reopen()
		}
		rerr := na.BC.RevertHead()
		ops = append(ops, "R")
		res.reverts++
		if rerr == nil {
			continue
		}
		revertErr, revertedBlock = rerr, pos
		// a failed revert must leave the node as it was
		after := sh.ObserveNode(na, &qLight)
		dumpAfter, err := sh.DumpDB(na.DB)
		hx.Must(err)
		if d := sh.DiffFacts(before, after); len(d) > 0 {
			res.add(sp.Backend+":failed-revert-changed-node", fmt.Sprintf("%s backend: RevertHead of block %d failed (%v) and %s %s changed from %s to %s; %s",
				sp.Backend, pos, rerr, d[0].A.Family, d[0].A.Key, d[0].A.Val, d[0].B.Val, sp), false)
		} else if d := sh.DiffDumps(dumpBefore, dumpAfter); len(d) > 0 {
			res.add(sp.Backend+":failed-revert-changed-node", fmt.Sprintf("%s backend: RevertHead of block %d failed (%v) and the database changed: %s; %s",
				sp.Backend, pos, rerr, d[0].String(), sp), false)
		}
		break
	}
	proceeded := revertErr == nil
	if proceeded {
		for i, bt := range builtB {
			if err := na.Store(bt); err != nil {
				return reject("node A", i, "fork B (after the reverts)", err)
			}
			if err := nb.Store(bt); err != nil {
				return reject("node B", i, "fork B", err)
			}
			ops = append(ops, opLine(bt))
		}
	}

	// ----- model tie -----
	rep := ask(or, sp.Backend, ops)
	if verbose {
		res.detail = append(res.detail, "ops   "+strings.Join(ops, ";"), "bits  "+rep.bits, "guard "+rep.guard, "sysg  "+rep.sysg)
	}
	for i, o := range ops {
		if i >= len(rep.bits) {
			break
		}
		if o != "R" {
			if rep.bits[i] != '1' {
				res.add("model-mismatch:store-outcome", fmt.Sprintf("%s backend: juno stored op %d but C04.Model.valid_next rejects it: %s in %s", sp.Backend, i, o, sp), true)
			}
			continue
		}
	}
	// outcome of the reverts: the i-th R is ops index firstR+i
	firstR := len(sp.P) + len(sp.A)
	for i := 0; i < res.reverts; i++ {
		idx := firstR + i
		pos := len(sp.P) + len(sp.A) - 1 - i // chain position of the block this R reverts
		failed := revertErr != nil && pos == revertedBlock
		predictedOK := idx < len(rep.bits) && rep.bits[idx] == '1'
		switch {
		case failed && !predictedOK && rep.unguarded() && sp.Backend == "legacy" && strings.Contains(revertErr.Error(), "does not match the expected root"):
			// the modelled failure: Update kept a system contract whose storage became empty,
			// purgesystemContracts (run by every RevertHead) removes it, the old state root no longer matches
			res.add("syscontract:legacy:revert-fails-after-emptying",
				fmt.Sprintf("legacy backend: RevertHead of block %d fails: %v (as C04.Model.revert_old predicts: an earlier block left a system contract with an empty storage); %s", pos, revertErr, sp), false)
		case failed:
			// every block the node stored must be revertible on both backends
			res.add(fmt.Sprintf("%s:revert-fails:%s", sp.Backend, shortReason(revertErr)),
				fmt.Sprintf("%s backend: RevertHead of block %d fails: %v (model predicts success=%v); %s", sp.Backend, pos, revertErr, predictedOK, sp), false)
		case !predictedOK:
			res.add("model-mismatch:revert-outcome", fmt.Sprintf("%s backend: RevertHead of block %d succeeded but C04.Model predicts a failure; %s", sp.Backend, pos, sp), true)
		}
	}
	nodeDiffers := false
	if proceeded {
		// the model's view of node B (prefix, fork B): where the faithful model itself says the two nodes
		// differ on a system contract's deployment height, juno's differences on that contract are the modelled
		// defect (Revert re-creates an emptied system contract stamped with the reverted block's number)
		var opsB []string
		for i := range sp.P {
			opsB = append(opsB, ops[opBlock[i]])
		}
		opsB = append(opsB, ops[len(ops)-len(builtB):]...)
		restamped := map[string]bool{}
		if sp.Backend == "new" && rep.unguarded() {
			dhB := "-"
			if len(opsB) > 0 {
				dhB = ask(or, sp.Backend, opsB).fam["dh"]
			}
			restamped = dhDiff(rep.fam["dh"], dhB)
		}
		nodeDiffers = compareNodes(res, sp, na, nb, q, restamped, verbose)
	} else {
		res.stopped = "revert failed"
	}
	// decoded database of NA against the model's index families
	fams, err := sh.ModelFamilies(na)
	if err != nil {
		res.add("c04:db-decoding", fmt.Sprintf("%s backend: cannot decode the database of node A: %v; %s", sp.Backend, err, sp), true)
	} else if !res.has("model-mismatch:store-outcome") && !res.has("model-mismatch:revert-outcome") {
		for _, name := range sh.ModelFamilyNames {
			res.families++
			if fams[name] != rep.fam[name] {
				res.add(fmt.Sprintf("model-mismatch:%s:%s", sp.Backend, name),
					fmt.Sprintf("%s backend: index family %s of node A decodes to %q, C04.Model has %q; %s", sp.Backend, name, clip(fams[name]), clip(rep.fam[name]), sp), !nodeDiffers)
				if verbose {
					res.detail = append(res.detail, "family "+name+"\n    juno  "+fams[name]+"\n    model "+rep.fam[name])
				}
			}
		}
	}
	return res
}

func clip(s string) string {
	if len(s) > 300 {
		return s[:300] + "..."
	}
	return s
}

func queryCtx(sp *Spec, all []*sh.Built) *sh.QueryCtx {
	u := sh.DefaultUniverse()
	u.Addrs = append(u.Addrs, "1", "2")
	q := &sh.QueryCtx{U: u, Emitters: sh.Emitters}
	q.MaxNumber = uint64(len(sp.P) + len(sp.A))
	if n := uint64(len(sp.P) + len(sp.B)); n > q.MaxNumber {
		q.MaxNumber = n
	}
	seenH, seenT, seenM, seenC := map[string]bool{}, map[string]bool{}, map[string]bool{}, map[string]bool{}
	for _, b := range all {
		if h := sh.Hex(b.Block.Hash); !seenH[h] {
			seenH[h] = true
			q.BlockHashes = append(q.BlockHashes, b.Block.Hash)
		}
		if n := uint64(len(b.Block.Transactions)); n > q.MaxIndex {
			q.MaxIndex = n
		}
		for _, tx := range b.Block.Transactions {
			if h := sh.Hex(tx.Hash()); !seenT[h] {
				seenT[h] = true
				q.TxHashes = append(q.TxHashes, tx.Hash())
			}
			if l1, ok := tx.(*core.L1HandlerTransaction); ok {
				m := l1.MessageHash()
				if !seenM[string(m)] {
					seenM[string(m)] = true
					q.L1Msgs = append(q.L1Msgs, m)
				}
			}
		}
		for _, d := range b.Spec.DeclareV1 {
			if h := sh.Hex(sh.SierraHash(d.ID)); !seenC[h] {
				seenC[h] = true
				u.Classes = append(u.Classes, h)
			}
		}
		// classes delivered for deployed contracts that are not in the default universe ("dd")
		for _, h := range b.Spec.Diff.Deliv {
			known := seenC[h]
			for _, x := range u.Classes {
				known = known || x == h
			}
			if !known {
				seenC[h] = true
				u.Classes = append(u.Classes, h)
			}
		}
	}
	return q
}

// compareNodes: NA (prefix, fork A, reverts, fork B) against NB (prefix, fork B).
// dhDiff: the system addresses whose deployment height differs between two "dh" family strings.
func dhDiff(a, b string) map[string]bool {
	parse := func(s string) map[string]string {
		m := map[string]string{}
		if s == "-" || s == "" {
			return m
		}
		for _, e := range strings.Split(s, ",") {
			if kv := strings.SplitN(e, "=", 2); len(kv) == 2 {
				m[kv[0]] = kv[1]
			}
		}
		return m
	}
	ma, mb := parse(a), parse(b)
	out := map[string]bool{}
	for _, x := range []string{"1", "2"} {
		if ma[x] != mb[x] {
			out[x] = true
		}
	}
	return out
}

// sysOfKey: the system address a state fact's key "<block>/<kind>(<addr>[,<slot>])" is about, "" otherwise.
func sysOfKey(key string) string {
	i := strings.Index(key, "(")
	if i < 0 {
		return ""
	}
	a := strings.TrimRight(key[i+1:], ")")
	if j := strings.Index(a, ","); j >= 0 {
		a = a[:j]
	}
	if sh.IsSysAddr(a) {
		return a
	}
	return ""
}

func compareNodes(res *result, sp *Spec, na, nb *sh.Node, q *sh.QueryCtx, restamped map[string]bool, verbose bool) (differs bool) {
	fa, fb := sh.ObserveNode(na, q), sh.ObserveNode(nb, q)
	res.queries += len(fa)
	diffs := sh.DiffFacts(fa, fb)
	byNumberSlotDiffers := false
	for _, d := range diffs {
		byNumberSlotDiffers = byNumberSlotDiffers || d.A.Family == "state:bynumber:slot"
	}
	for _, d := range diffs {
		differs = true
		class := sp.Backend + ":" + d.A.Family
		// the known symptom of the new backend's stale storage leaves keeps its own class (see C03)
		if sp.Backend == "new" && d.A.Family == "state:head:slot" && !byNumberSlotDiffers && !sh.IsErrToken(d.A.Val) && !sh.IsErrToken(d.B.Val) {
			class = "new:head:slot:zeroed-slot-reads-stale-value"
		}
		// the modelled defect: historical reads of a system contract whose record the revert re-created
		if a := sysOfKey(d.A.Key); a != "" && restamped[a] && (strings.HasPrefix(d.A.Family, "state:bynumber:") || strings.HasPrefix(d.A.Family, "state:byhash:")) {
			class = "syscontract:new:revert-restamps-deployment-height"
		}
		res.add(class, fmt.Sprintf("%s backend: %s %s answers %s on the node that stored and reverted fork A, %s on the node that never saw it; %s",
			sp.Backend, d.A.Family, d.A.Key, d.A.Val, d.B.Val, sp), false)
		if verbose {
			res.detail = append(res.detail, fmt.Sprintf("api   %s %s: A=%s B=%s", d.A.Family, d.A.Key, d.A.Val, d.B.Val))
		}
	}
	da, err := sh.DumpDB(na.DB)
	hx.Must(err)
	dbb, err := sh.DumpDB(nb.DB)
	hx.Must(err)
	res.dbKeys += sh.DumpSize(da) + sh.DumpSize(dbb)
	if sp.Backend == "legacy" {
		res.normalised += sh.NormaliseLegacyTrieNodes(da) + sh.NormaliseLegacyTrieNodes(dbb)
	}
	for _, d := range sh.DiffDumps(da, dbb) {
		differs = true
		class := sp.Backend + ":dbdump:" + sh.BucketName(d.Bucket)
		if sp.Backend == "new" && db.Bucket(d.Bucket) == db.Contract && len(restamped) > 0 && onlySysRecords(&d, restamped) {
			class = "syscontract:new:revert-restamps-deployment-height"
		}
		if sp.Backend == "new" && onlyLeaves(&d) {
			switch db.Bucket(d.Bucket) {
			case db.ContractTrieStorage:
				class = "new:dbdump:stale-storage-leaf"
			case db.ContractTrieContract:
				class = "new:dbdump:stale-contract-leaf"
			case db.ClassTrie:
				class = "new:dbdump:stale-class-leaf"
			}
		}
		res.add(class, fmt.Sprintf("%s backend: raw database differs between the node that stored and reverted fork A (first) and the node that never saw it (second): %s; %s",
			sp.Backend, d.String(), sp), false)
		if verbose {
			res.detail = append(res.detail, "dump  "+d.String())
		}
	}
	return differs
}

// onlySysRecords: every differing contract record belongs to a system contract the model says was re-stamped.
func onlySysRecords(d *sh.DumpDiff, restamped map[string]bool) bool {
	for _, l := range [][]sh.KV{d.OnlyA, d.OnlyB, d.Changed} {
		for _, e := range l {
			if len(e.K) != 33 || !sh.IsSysKey(e.K[1:]) || !restamped[strings.TrimLeft(hex.EncodeToString(e.K[1:]), "0")] {
				return false
			}
		}
	}
	return true
}

// onlyLeaves: every differing key of the ContractTrieStorage bucket is a leaf node (trie2 leaves that
// a delete under a binary node leaves behind; C03 finding new:head:slot:zeroed-slot-reads-stale-value).
func onlyLeaves(d *sh.DumpDiff) bool {
	for _, l := range [][]sh.KV{d.OnlyA, d.OnlyB, d.Changed} {
		for _, e := range l {
			if !sh.IsTrieLeafKey(e.K) {
				return false
			}
		}
	}
	return true
}

// ---------- generator ----------
type genOut struct {
	sp     *Spec
	labels []string
}

func genSpec(r *hx.RNG) *genOut {
	u := sh.DefaultUniverse()
	cfg := sh.DefaultGenConfig(u, false)
	cfg.ZeroNoopPct = 0 // the no-op zero write is injected explicitly (known legacy defect) in a minority of blocks
	// 20% of the blocks that deploy contracts come with class definitions for (some of) the deployed contracts'
	// class hashes that they do not declare (sync's fetchUnknownClasses): never declared hashes and hashes the chain
	// knows already; Revert must remove exactly the records such a block registered (juno commit 007ff78)
	cfg.DelivPct = 20
	g := sh.NewGen(r, u, cfg)
	reg := sh.NewRegistry()
	ecfg := sh.DefaultExtrasConfig()
	// system contracts: 30% of the writes to 0x1 / 0x2 try a zero write - over a non-zero slot (may empty the
	// contract), else one time in three over a zero slot / to a contract that does not exist
	ecfg.SysPct, ecfg.SysZeroPct = 22, 30
	out := &genOut{sp: &Spec{}}
	// protocol-version crossing: blocks at heights below `cross` carry a version below 0.14.0 (the state commitment of
	// a state without Sierra classes is the bare contracts root there), so storing / reverting the first 0.14.0 block
	// crosses the formula change
	cross, height := 0, 0
	// class hashes fork A delivered for its deployed contracts; fork B re-delivers one of them in 40% of its deploying
	// blocks (a record that survived the revert of fork A would keep fork A's declared-at height and definition)
	var delivA []string
	inB := false
	mk := func(zeroNoopPct int) *sh.BlockSpec {
		pre := height < cross
		height++
		if r.Chance(7) {
			spec := &sh.BlockSpec{Version: "0.14.0", Salt: uint64(r.Intn(4))}
			if pre {
				spec.Version = sh.PreV014Version
			}
			out.labels = append(out.labels, "empty-block")
			g.Push(spec)
			return spec
		}
		spec, _ := g.NextStore(false)
		if inB && len(delivA) > 0 && len(spec.Diff.Deploy) > 0 && r.Chance(40) {
			h := delivA[r.Intn(len(delivA))]
			free := true
			for _, x := range append(append([]string{}, spec.Diff.Decl...), spec.Diff.Deliv...) {
				free = free && x != h
			}
			if free {
				spec.Diff.Deploy[r.Intn(len(spec.Diff.Deploy))].V = h
				// the re-pointed deployment may have been the only user of a delivered class
				var keep []string
				for _, x := range spec.Diff.Deliv {
					for _, e := range spec.Diff.Deploy {
						if e.V == x {
							keep = append(keep, x)
							break
						}
					}
				}
				spec.Diff.Deliv = append(keep, h)
				out.labels = append(out.labels, "shape:same-class-delivered-on-both-forks")
			}
		}
		if !inB {
			delivA = append(delivA, spec.Diff.Deliv...)
		}
		out.labels = append(out.labels, g.Cur().Kinds(&spec.Diff)...)
		ecfg.ZeroNoopPct, ecfg.PreV014 = zeroNoopPct, pre
		out.labels = append(out.labels, sh.AddExtras(r, g, reg, ecfg, spec)...)
		g.Push(spec)
		return spec
	}
	nP, nA, nB := r.Intn(5), 1+r.Intn(4), r.Intn(5)
	if r.Chance(25) { // single block stored and reverted
		nA, nB = 1, 0
		out.labels = append(out.labels, "shape:single-block")
	}
	if r.Chance(10) {
		nP = 0 // the fork starts at genesis
	}
	if r.Chance(30) && nP+nA >= 2 {
		cross = 1 + r.Intn(nP+nA-1)
		if r.Chance(50) && nP >= 1 {
			cross = nP // the first block of both forks is the first 0.14.0 block
		}
		out.labels = append(out.labels, "shape:version-crossing")
	}
	for i := 0; i < nP; i++ {
		out.sp.P = append(out.sp.P, mk(6))
	}
	regP := reg.Clone()
	delivA = nil // only what fork A itself delivers counts
	for i := 0; i < nA; i++ {
		out.sp.A = append(out.sp.A, mk(13))
	}
	inB = true
	for i := 0; i < nA; i++ {
		g.Pop()
	}
	reg = regP
	height = nP
	for i := 0; i < nB; i++ {
		out.sp.B = append(out.sp.B, mk(6))
	}
	if r.Chance(30) {
		out.sp.Restart = true
		out.labels = append(out.labels, "shape:restart-before-revert")
	}
	out.labels = append(out.labels, fmt.Sprintf("prefix-%d", nP), fmt.Sprintf("fork-a-%d", nA), fmt.Sprintf("fork-b-%d", nB))
	if nP == 0 {
		out.labels = append(out.labels, "shape:genesis-revert")
	}
	return out
}

func nontrivial(o *genOut) bool {
	if len(o.sp.A) >= 2 {
		return true
	}
	for _, l := range o.labels {
		switch l {
		case "write-nonzero", "write-overwrite", "empty-block", "empty-diff":
		default:
			if !strings.HasPrefix(l, "prefix-") && !strings.HasPrefix(l, "fork-") && !strings.HasPrefix(l, "shape:") {
				return true
			}
		}
	}
	return false
}

// ---------- shrinking ----------
func shrink(ar *sh.Arena, or *hx.Oracle, sp *Spec, class string) *Spec {
	budget := 300
	fails := func(c *Spec) bool {
		if len(c.A) == 0 || budget <= 0 {
			return false
		}
		budget--
		r := runSpec(ar, or, c, false).has(class)
		if os.Getenv("C04_DEBUG") != "" {
			fmt.Fprintf(os.Stderr, "shrink[%s] budget=%d %v: %s\n", class, budget, r, c)
		}
		return r
	}
	cur := sp.clone()
	if !fails(cur) {
		return sp
	}
	parts := func(s *Spec) []*[]*sh.BlockSpec { return []*[]*sh.BlockSpec{&s.B, &s.A, &s.P} }
	for changed := true; changed; {
		changed = false
		// whole blocks, last first
		for pi := 0; pi < 3; pi++ {
			for i := len(*parts(cur)[pi]) - 1; i >= 0; i-- {
				cand := cur.clone()
				l := parts(cand)[pi]
				*l = append((*l)[:i:i], (*l)[i+1:]...)
				if fails(cand) {
					cur, changed = cand, true
				}
			}
		}
		// extras and diff entries of every block
		for pi := 0; pi < 3; pi++ {
			for i := len(*parts(cur)[pi]) - 1; i >= 0; i-- {
				try := func(edit func(b *sh.BlockSpec) bool) {
					cand := cur.clone()
					if !edit((*parts(cand)[pi])[i]) {
						return
					}
					if fails(cand) {
						cur, changed = cand, true
					}
				}
				// everything but the diff at once, then whole entry lists, then single entries
				try(func(b *sh.BlockSpec) bool {
					ok := len(b.Txs)+len(b.L1)+len(b.Migrate)+len(b.DeclareV1) > 0 || b.Version == "0.14.1" || b.Salt != 0
					b.Txs, b.L1, b.Migrate, b.DeclareV1, b.Version, b.Salt = nil, nil, nil, nil, "0.14.0", 0
					return ok
				})
				try(func(b *sh.BlockSpec) bool { ok := len(b.Diff.Store) > 1; b.Diff.Store = nil; return ok })
				try(func(b *sh.BlockSpec) bool { ok := len(b.Diff.Nonce) > 1; b.Diff.Nonce = nil; return ok })
				try(func(b *sh.BlockSpec) bool { ok := len(b.Diff.Decl) > 1; b.Diff.Decl = nil; return ok })
				try(func(b *sh.BlockSpec) bool { ok := len(b.Diff.Replace) > 1; b.Diff.Replace = nil; return ok })
				try(func(b *sh.BlockSpec) bool { ok := len(b.Diff.Deliv) > 1; b.Diff.Deliv = nil; return ok })
				try(func(b *sh.BlockSpec) bool {
					ok := len(b.Diff.Deploy) > 1
					b.Diff.Deploy, b.Diff.Deliv = nil, nil
					return ok
				})
				try(func(b *sh.BlockSpec) bool { ok := len(b.Txs) > 0; b.Txs = nil; return ok })
				try(func(b *sh.BlockSpec) bool { ok := len(b.L1) > 0; b.L1 = nil; return ok })
				try(func(b *sh.BlockSpec) bool { ok := len(b.Migrate) > 0; b.Migrate = nil; return ok })
				try(func(b *sh.BlockSpec) bool { ok := len(b.DeclareV1) > 0; b.DeclareV1 = nil; return ok })
				try(func(b *sh.BlockSpec) bool { ok := b.Version == "0.14.1"; b.Version = "0.14.0"; return ok })
				try(func(b *sh.BlockSpec) bool { ok := b.Salt != 0; b.Salt = 0; return ok })
				for j := (*parts(cur)[pi])[i].Diff.Len() - 1; j >= 0; j-- {
					try(func(b *sh.BlockSpec) bool {
						if j >= b.Diff.Len() {
							return false
						}
						b.Diff = *b.Diff.Without(j)
						return true
					})
				}
			}
		}
	}
	return cur
}

var reported = map[string]bool{}

func report(c *hx.Ctx, ar *sh.Arena, or *hx.Oracle, sp *Spec, f finding) {
	if reported[f.class] {
		return
	}
	reported[f.class] = true
	small := shrink(ar, or, sp, f.class)
	what := f.what
	for _, g := range runSpec(ar, or, small, false).findings {
		if g.class == f.class {
			what = g.what
		}
	}
	c.Violation(f.class, what, small, f.noInput)
}

func numWorkers() int {
	w := runtime.GOMAXPROCS(0)
	if w > 16 {
		w = 16
	}
	return w
}

type job struct {
	idx int
	gen *genOut
	res *result
}

func main() {
	casesFlag := flag.Int("cases", 0, "number of generated fork experiments per backend (0 = tier default)")
	profFlag := flag.String("cpuprofile", "", "write a CPU profile (development)")
	c := hx.NewCtx("C04")
	if *profFlag != "" {
		f, err := os.Create(*profFlag)
		hx.Must(err)
		pprof.StartCPUProfile(f)
	}
	or := hx.StartOracle(c.OraclePath)
	defer or.Close()
	ar := sh.NewArena()

	if c.ReplayIn != "" {
		var sp Spec
		c.LoadReplay(&sp)
		if sp.Edge != nil {
			outs, wall := computeEdges([]*EdgeSpec{sp.Edge})
			for _, o := range outs {
				fmt.Printf("replay: %s\n  %d answers compared, %d raw entries compared\n", o.spec, o.res.queries, o.res.dbKeys)
				for _, f := range o.res.findings {
					fmt.Printf("  finding %s: %s\n", f.class, f.what)
				}
			}
			recordEdges(c, outs, wall)
			c.Finish("replay of one recorded window-edge history")
		}
		if sp.Probe != "" {
			runProbes(c, ar)
			c.Count("probe "+sp.Probe, true)
			c.Finish("replay of the optional probe " + sp.Probe)
		}
		res := runSpec(ar, or, &sp, true)
		fmt.Printf("replay: %s\n  reverts attempted %d, stopped: %q, api answers compared %d, raw entries compared %d, model families compared %d\n",
			&sp, res.reverts, res.stopped, res.queries, res.dbKeys, res.families)
		for _, d := range res.detail {
			fmt.Println("  " + d)
		}
		for _, f := range res.findings {
			fmt.Printf("  finding %s: %s\n", f.class, f.what)
			report(c, ar, or, &sp, f)
		}
		c.Count(sp.String(), true)
		c.Finish("replay of one recorded fork experiment")
	}

	ncases := 1000
	if c.Thorough() {
		ncases *= 20
	}
	if *casesFlag > 0 {
		ncases = *casesFlag
	}
	master := hx.NewRNG(c.Seed)
	var jobs []*job
	for i := 0; i < ncases; i++ {
		sub := master.U64()
		for _, backend := range []string{"new", "legacy"} {
			g := genSpec(hx.NewRNG(sub)) // the same experiment on both backends
			g.sp.Backend = backend
			jobs = append(jobs, &job{idx: len(jobs), gen: g})
		}
	}
	// corpus: recorded minimal experiments (regressions of repaired defects, e.g. the classes delivered for deployed
	// contracts that survived RevertHead before juno commit 007ff78): they run on every invocation and must pass
	if files, _ := filepath.Glob("/verif/corpus/C04/*.json"); len(files) > 0 {
		sort.Strings(files)
		for _, f := range files {
			var w struct {
				Replay Spec `json:"replay"`
			}
			b, err := os.ReadFile(f)
			hx.Must(err)
			hx.Must(json.Unmarshal(b, &w))
			jobs = append(jobs, &job{idx: len(jobs), gen: &genOut{sp: &w.Replay, labels: []string{"corpus"}}})
		}
	}
	// the window-edge history runs beside the worker pool (it is two long sequential chains)
	edgeDone := make(chan struct{})
	var edgeOuts []edgeOut
	var edgeWall float64
	go func() {
		edgeOuts, edgeWall = computeEdges(edgeSpecs(c.Seed, c.Thorough()))
		close(edgeDone)
	}()
	var wg sync.WaitGroup
	next := make(chan *job, len(jobs))
	for _, j := range jobs {
		next <- j
	}
	close(next)
	for w := 0; w < numWorkers(); w++ {
		wg.Add(1)
		go func() {
			defer wg.Done()
			wor := hx.StartOracle(c.OraclePath)
			defer wor.Close()
			war := sh.NewArena()
			for j := range next {
				j.res = runSpec(war, wor, j.gen.sp, false)
			}
		}()
	}
	wg.Wait()

	// shrinking starts from the smallest experiment showing the class
	size := func(sp *Spec) int {
		n := 0
		for _, l := range [][]*sh.BlockSpec{sp.P, sp.A, sp.B} {
			for _, b := range l {
				n += 3 + b.Diff.Len() + len(b.Txs) + len(b.L1) + len(b.DeclareV1) + len(b.Migrate)
			}
		}
		return n
	}
	best := map[string]*job{}
	for _, j := range jobs {
		for _, f := range j.res.findings {
			if b, ok := best[f.class]; !ok || size(j.gen.sp) < size(b.gen.sp) {
				best[f.class] = j
			}
		}
	}
	var queries, dbKeys, families int
	for _, j := range jobs {
		queries += j.res.queries
		dbKeys += j.res.dbKeys
		families += j.res.families
		c.Count(j.gen.sp.String(), nontrivial(j.gen))
		c.Hist["backend-"+j.gen.sp.Backend]++
		for _, l := range j.gen.labels {
			c.Hist[l]++
		}
		switch {
		case j.res.stopped != "":
			c.Hist["outcome:"+strings.ReplaceAll(j.res.stopped, " ", "-")]++
		default:
			c.Hist["outcome:revert-ok"]++
		}
		c.Hist["reverts-attempted"] += j.res.reverts
		c.Hist["legacy-trie-records-zero-hash-trailer-stripped"] += j.res.normalised
		if j.idx < 4 {
			c.Sample(map[string]any{"experiment": j.gen.sp.String(), "reverts": j.res.reverts, "api_answers": j.res.queries, "raw_entries": j.res.dbKeys})
		}
		for _, f := range j.res.findings {
			c.Hist["finding:"+f.class]++
			b := best[f.class]
			for _, g := range b.res.findings {
				if g.class == f.class {
					report(c, ar, or, b.gen.sp, g)
				}
			}
		}
	}
	c.Extra["queries"] = queries
	c.Extra["db_entries_compared"] = dbKeys
	c.Extra["model_families_compared"] = families
	c.Extra["cases"] = ncases
	fams := append([]string{}, sh.ModelFamilyNames...)
	sort.Strings(fams)
	c.Extra["model_families"] = fams

	<-edgeDone
	recordEdges(c, edgeOuts, edgeWall)
	if optionalProbes {
		runProbes(c, ar)
	}
	pprof.StopCPUProfile()
	c.Finish("fork experiments per state backend: prefix P (0..4 blocks), fork A (1..4 blocks) stored and reverted block by block, fork B (0..4 blocks); 25% single block stored+reverted, 10% forks from genesis; " +
		"blocks carry deployments, replacements, nonces, writes (incl. zero-over-nonzero, same value; zero to an absent slot injected in 13% of fork-A blocks), Cairo0 and Sierra declarations, CASM migrations (0.14.1 blocks), " +
		"class definitions DELIVERED for the block's deployed contracts without being declared (20% of the deploying blocks; hashes never declared and hashes the chain knows already; 40% of fork B's deploying blocks re-deliver a hash fork A delivered), " +
		"invoke transactions with events, L1-handler transactions, system-contract writes (22% of the blocks; 30% of them try a zero write: over a non-zero slot - which may empty the contract - else one time in three to a zero slot / a missing contract), empty blocks; node A (P, A, reverts, B) is compared with node B (P, B) on every Reader query over all numbers / block / tx / L1-message hashes ever produced, " +
		"the state readers (class hash, nonce, slots, declared-at, compiled class hash of every Sierra class - by number, by hash, at head; system contracts 0x1/0x2 included), the event filter and the raw database; node A's op sequence runs through C04.Model (outcomes, 13 decoded index families incl. the system contracts' entries and the full CASM metadata); non-trivial = fork depth >= 2 or a feature beyond plain writes. " +
		"Plus the window-edge family (harness only, the filter cache is not modelled): chain of cheap event blocks to head 8191/8192/8193, events queries on node A (caches the persisted aggregated bloom window), 1..3 reverts crossing block 8191 with a query after each, fork B with other emitters/keys, " +
		"then node A vs node B on events (full range, ranges ending/starting at the window edge, per emitter, per key), the Reader API around the edge and the raw database; quick: one history chosen by the seed, thorough: 3 heads x 3 depths x 2 backends")
}

var _ = felt.Zero

// ---------- optional probe: duplicate transaction hash ----------
const optionalProbes = true

// Block 1 and block 2 carry a transaction with the same hash (juno's Store does not check uniqueness).
// After RevertHead of block 2 the hash lookups are compared with a node that never stored block 2.
// Outside C04.Model (valid_next demands fresh transaction hashes), hence a separate probe.
func runProbes(c *hx.Ctx, ar *sh.Arena) {
	var notes []string
	for _, newState := range []bool{true, false} {
		backend := sh.BackendName(newState)
		seq, na, nb := ar.NewNode(newState), ar.NewNode(newState), ar.NewNode(newState)
		specs := []*sh.BlockSpec{
			{Diff: sh.Diff{Deploy: []sh.AV{{A: "64", V: "a"}}}},
			{Txs: [][]sh.Ev{{{From: "64", Keys: []string{"1"}}}}, TxSeed: 500},
			{Txs: [][]sh.Ev{{{From: "64", Keys: []string{"2"}}}}, TxSeed: 500, Salt: 16},
		}
		var built []*sh.Built
		note := ""
		for i, s := range specs {
			bt, err := seq.Build(s)
			if err == nil {
				err = na.Store(bt)
			}
			if err == nil && i < 2 {
				err = nb.Store(bt)
			}
			if err != nil {
				note = fmt.Sprintf("%s: block %d with the duplicate transaction is rejected: %v", backend, i, err)
				break
			}
			built = append(built, bt)
		}
		if note == "" {
			h1, h2 := built[1].Block.Transactions[0].Hash(), built[2].Block.Transactions[0].Hash()
			if !h1.Equal(h2) {
				note = backend + ": probe did not produce equal transaction hashes"
			} else if err := na.BC.RevertHead(); err != nil {
				note = fmt.Sprintf("%s: revert failed: %v", backend, err)
			} else {
				q := queryCtx(&Spec{P: specs[:2], A: specs[2:]}, built)
				q.U = nil
				d := sh.DiffFacts(sh.ObserveNode(na, q), sh.ObserveNode(nb, q))
				note = fmt.Sprintf("%s: duplicate accepted, %d differing families after the revert", backend, len(d))
				// Two blocks carrying the same transaction hash are not a valid Starknet chain (valid_next
				// demands fresh hashes); the observation is recorded in the evidence and findings/C04.md and
				// only turned into a violation when explicitly asked for.
				if len(d) > 0 && os.Getenv("C04_PROBE_DUPLICATE_TX") != "1" {
					note += fmt.Sprintf("; observed (not reported) revert:duplicate-tx-hash-lookup-lost: %s %s answers %s, on a node that never stored block 2 %s",
						d[0].A.Family, d[0].A.Key, d[0].A.Val, d[0].B.Val)
				} else if len(d) > 0 {
					c.Violation("revert:duplicate-tx-hash-lookup-lost",
						fmt.Sprintf("%s backend: blocks 1 and 2 both contain transaction %s; after RevertHead of block 2 %s %s answers %s, on a node that never stored block 2 %s",
							backend, sh.Hex(h1), d[0].A.Family, d[0].A.Key, d[0].A.Val, d[0].B.Val),
						map[string]any{"probe": "duplicate-tx-hash", "backend": backend, "blocks": specs}, false)
				}
			}
		}
		notes = append(notes, note)
		seq.Close()
		na.Close()
		nb.Close()
	}
	c.Extra["probe_duplicate_tx_hash"] = notes
}
