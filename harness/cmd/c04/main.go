package main

func main() {}
