package main

import (
	"fmt"
	"sort"
	"strings"

	"github.com/NethermindEth/juno/core"
	"github.com/NethermindEth/juno/core/felt"
	"github.com/NethermindEth/juno/db"
	"verifharness/chain"
)

// decodeImage reads every index family of the image through the plain accessors and renders the
// model's disk encoding (numbers >= w.lo only). Entries are identified with the registry of blocks
// the run has built. A family entry of a block is "present" when ALL items of that family are
// present, "partial" (reported in notes) when only some are.
func (w *world) decodeImage(store db.KeyValueStore) (enc string, notes []string) {
	r := db.KeyValueReader(store)
	hs := "-"
	var height uint64
	hasH := false
	if h, err := core.GetChainHeight(r); err == nil {
		hs = fmt.Sprintf("%x", h)
		height, hasH = h, true
	}
	maxN := height + 3
	for n := range w.byNum {
		if n > maxN {
			maxN = n
		}
	}
	fams := make([][]string, 8)
	add := func(f int, bi *blkInfo) { fams[f] = append(fams[f], bi.enc()) }
	unknown := func(f int, n uint64, what string) {
		fams[f] = append(fams[f], fmt.Sprintf("%x.dead%x.0.-", n, f))
		notes = append(notes, fmt.Sprintf("family %d holds an unidentified entry for number %d (%s)", f, n, what))
	}
	for n := w.lo; n <= maxN; n++ {
		// 0 headers
		if hd, err := core.GetBlockHeaderByNumber(r, n); err == nil {
			if bi, ok := w.reg[hexOf(hd.Hash)]; ok && bi.num == n {
				add(0, bi)
			} else {
				unknown(0, n, "header "+hexOf(hd.Hash))
			}
		}
		// 2 transactions + receipts
		if txs, err := core.GetTransactionsByBlockNumber(r, n); err == nil {
			rcs, rerr := core.GetReceiptsByBlockNumber(r, n)
			{
				var m *blkInfo
				for _, bi := range w.byNum[n] {
					if len(bi.txs) == len(txs) && rerr == nil && len(rcs) == len(txs) {
						eq := true
						for i := range txs {
							if !txs[i].Hash().Equal(bi.txs[i]) {
								eq = false
							}
						}
						if eq {
							m = bi // versions of one number differ in their transaction hashes (salted nonce); base blocks have none
						}
					}
				}
				if m != nil {
					add(2, m)
				} else {
					unknown(2, n, "transactions")
				}
			}
		}
		// 4 state update (vacuous families 6/7 of base blocks follow it)
		if su, err := core.GetStateUpdateByBlockNum(r, n); err == nil {
			if bi, ok := w.reg[hexOf(su.BlockHash)]; ok && bi.num == n {
				add(4, bi)
				if bi.class == nil {
					add(6, bi)
				}
				if len(bi.txs) == 0 {
					add(3, bi)
				}
			} else {
				unknown(4, n, "state update")
			}
		}
		// 7 history: every generated block above genesis writes slot 1 of contract 0x100, so it owns the
		// history entry keyed (0x100, 1, n). New state: the entry holds the block's own value, which
		// identifies the version. Legacy state: it holds the OLD value, the same for every version of
		// number n; the entry is attributed to the header (else state update) of that number.
		{
			var m *blkInfo
			found := false
			if w.seq.NewState {
				_ = store.Get(db.ContractStorageHistoryAtBlockKey(chain.F(0x100), chain.F(1), n), func(v []byte) error {
					found = true
					val := new(felt.Felt).SetBytes(v)
					for _, bi := range w.byNum[n] {
						if bi.slot != 0 && chain.F(bi.slot).Equal(val) {
							m = bi
						}
					}
					return nil
				})
			} else if has, _ := store.Has(db.DeprecatedContractStorageHistoryAtBlockKey(chain.F(0x100), chain.F(1), n)); has {
				found = true
				if hd, err := core.GetBlockHeaderByNumber(r, n); err == nil {
					m = w.reg[hexOf(hd.Hash)]
				} else if su, err := core.GetStateUpdateByBlockNum(r, n); err == nil {
					m = w.reg[hexOf(su.BlockHash)]
				}
				if m != nil && (m.num != n || m.slot == 0) {
					m = nil
				}
			}
			if !found && w.seq.NewState && n == 0 {
				// genesis deploys contract 0x100: the new state backend records a class-hash history entry for it
				// (the legacy backend records none for a deployment); same value for every version of block 0
				if has, _ := store.Has(db.ContractClassHashHistoryAtBlockKey(chain.F(0x100), 0)); has {
					found = true
					if hd, err := core.GetBlockHeaderByNumber(r, n); err == nil {
						m = w.reg[hexOf(hd.Hash)]
					} else if su, err := core.GetStateUpdateByBlockNum(r, n); err == nil {
						m = w.reg[hexOf(su.BlockHash)]
					}
				}
			}
			if found {
				if m != nil {
					add(7, m)
				} else {
					unknown(7, n, "storage history entry")
				}
			}
		}
		// blocks without a storage write have no history entry: vacuously present with their state update
		// (base chain: no transactions) or with their tx-hash lookups (genesis of the short universe), i.e.
		// with the family written/deleted in the same batches
		if su, err := core.GetStateUpdateByBlockNum(r, n); err == nil {
			if bi, ok := w.reg[hexOf(su.BlockHash)]; ok && bi.num == n && bi.slot == 0 && len(bi.txs) == 0 && !(w.seq.NewState && n == 0) {
				add(7, bi)
			}
		}
		// 5 commitments
		if cm, err := core.GetBlockCommitmentByBlockNum(r, n); err == nil {
			var m *blkInfo
			for _, bi := range w.byNum[n] {
				c := bi.built.Commit
				if c != nil && c.TransactionCommitment.Equal(cm.TransactionCommitment) && c.EventCommitment.Equal(cm.EventCommitment) &&
					c.ReceiptCommitment.Equal(cm.ReceiptCommitment) && c.StateDiffCommitment.Equal(cm.StateDiffCommitment) {
					m = bi
				}
			}
			if m != nil {
				add(5, m)
			} else {
				unknown(5, n, "commitments")
			}
		}
	}
	// hash-keyed families and classes: probe with every block the run has built
	for _, bi := range w.reg {
		if bi.num < w.lo {
			continue
		}
		if hh, err := felt.NewFromString[felt.Felt]("0x" + bi.id); err == nil {
			if n, err := core.GetBlockHeaderNumberByHash(r, hh); err == nil {
				if n == bi.num {
					add(1, bi)
				} else {
					unknown(1, n, "hash->number of "+bi.id)
				}
			}
		}
		if len(bi.txs) > 0 {
			cnt := 0
			for i, tx := range bi.txs {
				_ = i
				if _, err := core.TransactionBlockNumbersAndIndicesByHashBucket.Get(r, (*felt.TransactionHash)(tx)); err == nil {
					cnt++
				}
			}
			if cnt == len(bi.txs) {
				add(3, bi)
				if bi.slot == 0 && !(w.seq.NewState && bi.num == 0) {
					add(7, bi)
				}
			} else if cnt > 0 {
				notes = append(notes, fmt.Sprintf("tx-hash lookup of block %d partially present (%d of %d)", bi.num, cnt, len(bi.txs)))
			}
		}
		if bi.class != nil {
			if dc, err := core.GetClass(r, bi.class); err == nil {
				if dc.At == bi.num {
					add(6, bi)
				} else {
					unknown(6, dc.At, "class declared-at")
				}
			}
		}
	}
	// state tries: recompute the commitment and compare with the head header
	st := "-"
	if hasH {
		st = "dead"
		if hd, err := core.GetBlockHeaderByNumber(r, height); err == nil {
			root, err := recomputeRoot(store, w.seq.NewState, hd)
			if err == nil && root.Equal(hd.GlobalStateRoot) {
				st = hexOf(hd.Hash)
			} else {
				notes = append(notes, fmt.Sprintf("state commitment recomputed from the tries differs from the head header's root (err=%v)", err))
			}
		}
	} else {
		// empty chain: the tries must be empty
		hdr := &core.Header{ProtocolVersion: core.Ver0_14_0.String(), GlobalStateRoot: &felt.Zero}
		if root, err := recomputeRoot(store, w.seq.NewState, hdr); err == nil && !root.IsZero() {
			st = "dead"
			notes = append(notes, "chain height absent but the state tries are not empty")
		}
	}
	// persisted windows
	var wins []string
	for a := uint64(0); a <= maxN+W; a += W {
		if f, err := core.GetAggregatedBloomFilter(r, a, a+W-1); err == nil {
			wins = append(wins, fmt.Sprintf("%x@%s", a, colsOf(&f, w.lo, w.byNum)))
		}
	}
	snap := "-"
	if rf, err := core.GetRunningEventFilter(r); err == nil {
		inner, _ := rf.InnerFilter()
		next, _ := rf.NextBlock()
		snap = fmt.Sprintf("%x~%x~0~%s", inner.FromBlock(), next, colsOf(inner, w.lo, w.byNum))
	}
	l1 := "-"
	if h, err := core.GetL1Head(r); err == nil {
		l1 = fmt.Sprintf("%x", h.BlockNumber)
	}
	fs := make([]string, 8)
	for i := range fams {
		sort.Slice(fams[i], func(a, b int) bool {
			x, y := strings.SplitN(fams[i][a], ".", 3), strings.SplitN(fams[i][b], ".", 3)
			if x[0] != y[0] {
				return hexLess(x[0], y[0])
			}
			return hexLess(x[1], y[1])
		})
		if len(fams[i]) == 0 {
			fs[i] = "-"
		} else {
			fs[i] = strings.Join(fams[i], ",")
		}
	}
	ws := "-"
	if len(wins) > 0 {
		ws = strings.Join(wins, ",")
	}
	return fmt.Sprintf("h=%s|st=%s|l1=%s|snap=%s|win=%s|F=%s", hs, st, l1, snap, ws, strings.Join(fs, "/")), notes
}
