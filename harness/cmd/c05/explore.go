package main

// Exploratory replays of the window-boundary hypotheses (run with C05_EXPLORE=1). Kept as a
// developer tool: prints what the real code does, asserts nothing.

import (
	"fmt"
	"time"

	"github.com/NethermindEth/juno/blockchain"
	"github.com/NethermindEth/juno/core/felt"
	"github.com/NethermindEth/juno/db/memory"
	"verifharness/chain"
	"verifharness/faultdb"
)

func lightSpec(n uint64) *chain.BlockSpec {
	s := &chain.BlockSpec{Salt: n & 7}
	if n == 0 {
		s.Deploy = map[uint64]uint64{0x100: 0x55}
		s.DeclareV0 = []uint64{0x55}
	}
	return s
}

func evSpec(n uint64, from, key uint64) *chain.BlockSpec {
	s := lightSpec(n)
	s.Txs = [][]chain.Ev{{{From: from, Keys: []uint64{key}, Data: []uint64{n}}}}
	return s
}

func countEvents(n *chain.Node, from uint64, key uint64) (int, error) {
	f, err := n.BC.EventFilter([]felt.Address{felt.Address(*chain.F(from))}, [][]felt.Felt{{*chain.F(key)}},
		func() (blockchain.PreConfirmedReader, error) { return nil, nil })
	if err != nil {
		return 0, err
	}
	defer f.Close()
	evs, _, err := f.Events(nil, 1000)
	return len(evs), err
}

func exploreSnapshot() {
	for _, newState := range []bool{false, true} {
		sdb := memory.New()
		s := chain.NewNode(sdb, newState)
		tdb := memory.New()
		t := chain.NewNode(tdb, newState)
		for n := uint64(0); n <= 5; n++ {
			b, err := s.Finalise(evSpec(n, 9, 1))
			if err != nil {
				panic(err)
			}
			if err := t.Store(b); err != nil {
				panic(err)
			}
		}
		fmt.Println("snapshot:", t.BC.WriteRunningEventFilter())
		t = chain.NewNode(tdb, newState)
		for i := 0; i < 3; i++ {
			_ = t.BC.RevertHead()
			_ = s.BC.RevertHead()
		}
		for n := uint64(3); n <= 5; n++ {
			b, err := s.Finalise(evSpec(n, 7, 2))
			if err != nil {
				panic(err)
			}
			if err := t.Store(b); err != nil {
				panic(err)
			}
		}
		a, err := countEvents(t, 7, 2)
		fmt.Println(" same instance events(7,2):", a, err)
		fresh := chain.NewNode(tdb.Copy(), newState)
		a, err = countEvents(fresh, 7, 2)
		fmt.Println(" fresh instance (ungraceful restart) events(7,2):", a, err, " expected 3")
	}
}

func explore() {
	exploreSnapshot()
	for _, newState := range []bool{false, true} {
		t0 := time.Now()
		base := memory.New()
		seq := chain.NewNode(base, newState)
		for n := uint64(0); n <= 8189; n++ {
			if _, err := seq.Finalise(lightSpec(n)); err != nil {
				panic(err)
			}
		}
		fmt.Printf("newState=%v built 8190 blocks in %v\n", newState, time.Since(t0))
		t0 = time.Now()
		cp := base.Copy()
		fmt.Printf("copy %v\n", time.Since(t0))

		// --- experiment 1: failed Store of block 8191, then retry on the same instance
		{
			sdb := cp.Copy()
			s := chain.NewNode(sdb, newState)
			fd := faultdb.New(base.Copy())
			t := chain.NewNode(fd, newState)
			b8190, _ := s.Finalise(evSpec(8190, 9, 1))
			fmt.Println(" store 8190:", t.Store(b8190))
			b8191, _ := s.Finalise(evSpec(8191, 9, 1))
			fd.FailNext(1)
			fmt.Println(" store 8191 with failing commit:", t.Store(b8191))
			h, _ := t.BC.Height()
			fmt.Println(" height:", h)
			fmt.Println(" retry store 8191 same instance:", t.Store(b8191))
			fresh := chain.NewNode(fd, newState)
			fmt.Println(" retry store 8191 fresh instance:", fresh.Store(b8191))
		}
		// --- experiment 2: revert across the boundary, then ungraceful restart, then store 8191
		{
			sdb := cp.Copy()
			s := chain.NewNode(sdb, newState)
			tdb := base.Copy()
			t := chain.NewNode(tdb, newState)
			for n := uint64(8190); n <= 8192; n++ {
				b, err := s.Finalise(evSpec(n, 9, 1))
				if err != nil {
					panic(err)
				}
				if err := t.Store(b); err != nil {
					panic(err)
				}
			}
			fmt.Println(" revert 8192:", t.BC.RevertHead(), s.BC.RevertHead())
			fmt.Println(" revert 8191:", t.BC.RevertHead(), s.BC.RevertHead())
			b, err := s.Finalise(evSpec(8191, 7, 2))
			fmt.Println(" sequencer (same instance) finalise new 8191:", err)
			img := tdb.Copy()
			fmt.Println(" same-instance store new 8191:", t.Store(b))
			fresh := chain.NewNode(img, newState)
			h, _ := fresh.BC.Height()
			fmt.Println(" fresh instance on crash image, height:", h, " store new 8191:", fresh.Store(b))
			// graceful variant
			img2 := img.Copy()
			g := chain.NewNode(img2, newState)
			_ = g.BC.WriteRunningEventFilter()
			g2 := chain.NewNode(img2, newState)
			fmt.Println(" fresh instance after snapshot written by a fresh instance: store new 8191:", g2.Store(b))
		}
	}
}
