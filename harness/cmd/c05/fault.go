package main

import (
	"fmt"
	"os"
	"strings"

	"verifharness/chain"
	"verifharness/hx"
)

func removeDir(d string) error { return os.Remove(d) }

// snapshotAfter: is the running filter persisted (snapshot / graceful restart) after op i?
func snapshotAfter(ops []Op, i int) bool {
	for _, o := range ops[i+1:] {
		if o.K == "N" || o.K == "G" {
			return true
		}
	}
	return false
}

// runFault: the commit with global index K fails once; the run continues on the same Blockchain.
func runFault(c *hx.Ctx, seq *Seq, counts []int, K int) {
	// locate (op, commit within op)
	opI, j, acc := -1, 0, 0
	for i, n := range counts {
		if K < acc+n {
			opI, j = i, K-acc
			break
		}
		acc += n
	}
	if opI < 0 {
		return
	}
	w := newWorld(c, seq)
	defer w.cleanup()
	w.faultMode = true
	w.oracleInit()
	cs := Case{Seq: *seq, Mode: "fault", Index: K}
	kind := opName(seq.Ops[opI].K)
	atWindowEnd := false
	c.Count(fmt.Sprintf("fault/%s/%d/%v/%v/%s", kind, j, seq.NewState, seq.Boundary, seq.Engine), true)
	c.Hist["fault-in:"+kind]++
	where := fmt.Sprintf("commit %d of op %d (%s) fails [%s, newState=%v]: ", j, opI, kind, seq.Engine, seq.NewState)
	detail := ""
	classFor := func(check string) string {
		enc, _ := w.decodeImage(w.inner)
		switch {
		case strings.Contains(kind, "restart") && strings.Contains(detail, "initialize the running event filter"):
			// a direct write of the filter initialisation failed: the init error is sticky for this process
			return "failed-restart-init-write:filter-init-error-sticky"
		case kind == "revert" && check == "event-query-differs":
			return "failed-revert:running-filter-cleared-in-memory"
		case kind == "store" && atWindowEnd:
			// in-memory window already advanced: retries fail out-of-range, and queries below the new window
			// fail because the previous window was never persisted
			return "failed-store-at-window-end:retry-out-of-range"
		case kind == "store" && check == "event-query-differs" && snapshotAfter(seq.Ops, opI):
			return "failed-store:uncommitted-filter-state-persisted-by-snapshot"
		case kind == "store" && staleWindow(enc):
			// the failed store left next = N+1 in memory; a later revert of a window's last block then does not
			// take the window-crossing path and the persisted window survives above the head (model:
			// C05_crash_sync_needed)
			return "failed-store:filter-off-by-one:revert-leaves-stale-persisted-window"
		case staleWindow(enc):
			return "revert-across-window:stale-persisted-window"
		}
		return "failed-" + kind + ":" + check
	}
	for idx, o := range seq.Ops {
		if idx == opI {
			if o.K == "S" {
				if h, err := w.t.BC.Height(); err == nil && (h+2)%W == 0 {
					atWindowEnd = true
				}
			}
			w.fd.FailNext(j + 1)
		}
		err := w.exec(o)
		if idx == opI {
			if w.fd.Armed() {
				// the operation committed fewer writes than in the crash run: nothing to inject here
				w.fd.FailNext(0)
				c.Hist["fault-not-reached"]++
				return
			}
			if err == nil && o.K != "G" && o.K != "U" {
				c.Violation("failed-"+kind+":error-swallowed", where+"the operation returned nil although its commit failed", cs, false)
				return
			}
		}
		if idx < opI {
			continue
		}
		if idx > opI && o.K == "S" && err != nil {
			detail = err.Error()
			c.Violation(classFor("later-store-fails"), where+fmt.Sprintf("later store (op %d) fails on the same process: %v", idx, err), cs, false)
			return
		}
		// same process vs the disk. The reader observations of a second Blockchain on the live database never
		// touch its (lazy) running filter; event queries of a fresh process DO initialise it, and since the
		// repair that initialisation deletes the persisted snapshot: they run on a private copy of the image
		// (freshProbe) so that the probe does not change the database under test.
		fresh := chain.NewNode(w.inner, seq.NewState, w.opts()...)
		freshProbe := func() (bool, string) {
			img := w.copyImage(w.inner)
			defer closeIfPebble(img)
			return eventsOK(chain.NewNode(img, seq.NewState, w.opts()...), img, w.lo)
		}
		so, fo := readerObs(w.t, w.reg, w.lo), readerObs(fresh, w.reg, w.lo)
		if so != fo {
			c.Violation(classFor("reader-differs"), where+fmt.Sprintf("after op %d the same process answers\n   %s\n  a fresh process on the same database\n   %s", idx, so, fo), cs, false)
			return
		}
		// the disk itself: the extracted predicate on the decoded image (e.g. chain height vs presence of
		// the head block's families after a failed revert / store)
		encD, notesD := w.decodeImage(w.inner)
		if evD := strings.Fields(or.Ask("eval "+fmt.Sprintf("%x", W)+" ; "+encD, 1)[0]); len(evD) == 5 && (evD[0] != "1" || evD[4] != "1" || len(notesD) > 0) && !staleWindow(encD) {
			c.Violation("failed-"+kind+":inconsistent-disk", where+fmt.Sprintf("after op %d the database is not consistent (height vs index families): %s image=%s", idx, strings.Join(notesD, "; "), short(encD)), cs, false)
			return
		}
		evOK, evWhat := eventsOK(w.t, w.inner, w.lo)
		detail = evWhat
		ml := or.Ask(fmt.Sprintf("fault %x %d ; ", W, K)+strings.Join(w.mops, " ; "), 1)[0]
		mp := strings.Split(ml, " # ")
		if len(mp) != 3 || len(strings.Fields(mp[1])) != 5 {
			hx.Fatalf("oracle reply %q", ml)
		}
		enc := encD
		// (Until the revert repair — RevertHead deletes the persisted snapshot inside its batch — a wrong answer of
		// a restarted process in a history with a revert after a mid-life snapshot was attributed here to the
		// registered stale-snapshot finding. That finding is fixed: such histories are ordinary ones now, the model
		// of the repaired code predicts correct answers for them and a wrong one is reported below.)
		if !evOK && !strings.Contains(enc, "snap=-") && !(kind == "store" && snapshotAfter(seq.Ops, opI)) &&
			!strings.Contains(evWhat, "initialize the running event filter") {
			// is it the disk (a fresh process is wrong too) and is a persisted snapshot involved? Then it is
			// the stale-snapshot defect (crash class), not a memory/disk disagreement of this process
			if okFresh, _ := freshProbe(); !okFresh {
				class := "crash:stale-shutdown-snapshot:event-false-negatives"
				if strings.Fields(mp[1])[4] != "1" {
					class = staleMidlifeClass // mid-life snapshot + revert: repaired by the delete in the revert batch; NOT a known finding
				}
				c.Violation(class, where+fmt.Sprintf("after op %d a fresh process and the restarted process both miss events: %s", idx, evWhat), cs, false)
				return
			}
		}
		if !evOK && strings.Fields(mp[1])[0] == "1" {
			// the model's running filter covers the chain: is the wrong answer served by the LRU cache of
			// persisted windows (never invalidated on reorg — property C09's finding, not caused by the
			// failed write)? Then a cache-less process on the same database answers correctly and the
			// chain reaches below the running window.
			var rfFrom uint64
			fmt.Sscanf(strings.SplitN(mp[2], "~", 2)[0], "%x", &rfFrom)
			if okFresh, _ := freshProbe(); okFresh && rfFrom > w.lo {
				c.Hist["c09-stale-window-cache-observed(not-a-C05-violation)"]++
				return
			}
		}
		if !evOK {
			c.Violation(classFor("event-query-differs"), where+fmt.Sprintf("after op %d the same process: %s", idx, evWhat), cs, false)
		}
		if mp[0] != enc {
			c.Violation("model-mismatch:fault-disk", where+fmt.Sprintf("after op %d disk differs from the model's\n   impl : %s\n   model: %s", idx, enc, mp[0]), cs, true)
			return
		}
		if (strings.Fields(mp[1])[0] == "1") != evOK {
			c.Violation("model-mismatch:mem-covers", where+fmt.Sprintf("after op %d model mem_covers=%s (mem %s), same-process events ok=%v %s", idx, strings.Fields(mp[1])[0], mp[2], evOK, evWhat), cs, true)
			return
		}
		if !evOK {
			return
		}
	}
	// finally the next block must store on the same process
	bi, err := w.build(w.s, 1, 3)
	if err != nil {
		hx.Fatalf("sequencer: %v", err)
	}
	q := "? S " + strings.ReplaceAll(bi.enc(), ".", " ")
	ml := or.Ask(fmt.Sprintf("fault %x %d ; ", W, K)+strings.Join(w.mops, " ; ")+" ; "+q, 1)[0]
	pred := strings.Fields(strings.Split(ml, " # ")[1])
	serr := w.t.Store(bi.built)
	if serr != nil {
		detail = serr.Error()
		_ = w.s.BC.RevertHead()
		c.Violation(classFor("next-store-fails"), where+"at the end of the sequence the next block does not store on the same process: "+serr.Error(), cs, false)
	}
	if (pred[1] == "1") != (serr == nil) {
		c.Violation("model-mismatch:stores", where+fmt.Sprintf("model stores(mem)=%s, implementation error=%v", pred[1], serr), cs, true)
	}
}
