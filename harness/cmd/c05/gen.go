package main

import (
	"verifharness/hx"
)

// genSeq generates an operation sequence. Short universe: from genesis, with prunes; boundary
// universe: from height 8189, stores and reverts across the window end, snapshots, restarts.
func genSeq(r *hx.RNG, newState bool, engine string, boundary bool, n int) *Seq {
	s := &Seq{NewState: newState, Engine: engine, Boundary: boundary}
	h := int64(-1)
	floor := int64(0)
	if boundary {
		h = int64(W - 3)
	}
	start := h
	for len(s.Ops) < n {
		x := r.Intn(100)
		switch {
		case h < 2 && !boundary || x < 42:
			s.Ops = append(s.Ops, Op{K: "S", From: 1 + uint64(r.Intn(2)), Key: 3 + uint64(r.Intn(2))})
			h++
		case x < 62:
			// never below the base chain (its blocks are not in the decode window) nor onto a pruned block
			if h-1 < floor+1 || (boundary && h <= start-2) {
				continue
			}
			s.Ops = append(s.Ops, Op{K: "R"})
			h--
		case x < 70 && !boundary:
			if h-2 <= floor {
				continue
			}
			e := floor + 1 + int64(r.Intn(int(h-1-floor)))
			s.Ops = append(s.Ops, Op{K: "P", E: uint64(e)})
			floor = e
		case x < 76:
			s.Ops = append(s.Ops, Op{K: "L", E: uint64(r.Intn(20))})
		case x < 84:
			s.Ops = append(s.Ops, Op{K: "N"})
		case x < 92:
			s.Ops = append(s.Ops, Op{K: "G"})
		default:
			s.Ops = append(s.Ops, Op{K: "U"})
		}
	}
	return s
}

// directed sequences: the shapes named in the property and in DESIGN §8.5
// large blocks on Pebble: a Store whose write batch is ~10 MiB (one event with 300 000 data felts), its
// revert and a re-store; thorough adds a block with 20 000 (legacy state: 4 000) storage writes (large state / trie / history
// write set for store AND revert). Every commit fails once, every pre-commit view is compared with the
// pre-state (torn.go), every crash image is decoded. Added after the seeded change
// C05-pebble-batch-chunked-commit escaped (a backend that hands a big batch over in chunks).
func largeSeqs(newState, thorough bool) []*Seq {
	st := func(f, k uint64) Op { return Op{K: "S", From: f, Key: k} }
	big := Op{K: "S", From: 2, Key: 4, Big: 300000}
	seqs := []*Seq{{NewState: newState, Engine: "pebble", Ops: []Op{st(1, 3), big, {K: "R"}}}}
	if thorough {
		slots := 4000 // the legacy trie is slow: 20 000 slots take minutes per store
		if newState {
			slots = 20000
		}
		heavy := Op{K: "S", From: 1, Key: 4, Big: 150000, Slots: slots}
		seqs = append(seqs,
			&Seq{NewState: newState, Engine: "pebble", Ops: []Op{st(1, 3), heavy, {K: "R"}, big, {K: "U"}, {K: "R"}}},
			&Seq{NewState: newState, Engine: "memory", Ops: []Op{st(1, 3), big, {K: "R"}}})
	}
	return seqs
}

func directed(newState bool) []*Seq {
	st := func(f, k uint64) Op { return Op{K: "S", From: f, Key: k} }
	return []*Seq{
		// failed revert / failed store away from a window end
		{NewState: newState, Engine: "memory", Ops: []Op{st(1, 3), st(2, 4), st(1, 4), st(2, 3), {K: "R"}, st(1, 3), {K: "N"}, {K: "R"}, st(2, 4)}},
		// failed store, snapshot of the (uncommitted) in-memory filter, another block, ungraceful restart
		{NewState: newState, Engine: "memory", Ops: []Op{st(1, 4), st(1, 4), st(2, 4), {K: "N"}, st(1, 3), {K: "U"}, st(1, 4)}},
		// REPAIRED in /repo (the initialiser consumes the snapshot): graceful restart (snapshot at shutdown), the
		// new process reverts the head and stores a different block, ungraceful restart, store. Before the
		// repair the last restart accepted the stale snapshot (class crash:stale-filter-snapshot, model witness
		// C05_crash_index_refuted_before_fix); now every crash image and every failed-commit run must be clean
		// (C05_crash_index_repaired): a stale answer here is NOT a known finding (crash:stale-shutdown-snapshot).
		{NewState: newState, Engine: "memory", Ops: []Op{st(1, 3), st(2, 4), st(1, 4), {K: "G"}, {K: "R"}, st(2, 3), {K: "U"}, st(1, 3)}},
		// REPAIRED (shutdown variant of failed-store:uncommitted-filter-state-persisted-by-snapshot): when the commit of
		// the third store fails, its column stays in memory; the snapshot is taken AT SHUTDOWN: the new process reads
		// a future-dated snapshot (next = head + 2), consumes it and rebuilds from headers; a different block is
		// stored, ungraceful restart: correct answers (C05_fault_uncommitted_snapshot_refuted, r1).
		{NewState: newState, Engine: "memory", Ops: []Op{st(1, 4), st(1, 4), st(2, 4), {K: "G"}, st(1, 3), {K: "U"}, st(1, 4)}},
		// REPAIRED by findings/C05-snapshot-invalidated-by-revert.patch (RevertHead deletes the snapshot inside its
		// batch): the same history with the snapshot written in the middle of the process's life
		// (WriteRunningEventFilter without a restart). Before that repair the ungraceful restart accepted the stale
		// snapshot (C05_stale_snapshot_before_fix_refuted, the former known id crash:stale-filter-snapshot); now every
		// crash image and every failed-commit run must be clean (C05_stale_snapshot_repaired): a stale answer here is
		// an ordinary violation (crash:stale-midlife-snapshot-after-revert).
		{NewState: newState, Engine: "memory", Ops: []Op{st(1, 3), st(2, 4), st(1, 4), {K: "N"}, {K: "R"}, st(2, 3), {K: "U"}, {K: "U"}, st(1, 3)}},
		// the window end: stores of 8190, 8191 (end), 8192, reverts back across it, re-stores. This is the
		// regression input of the former class revert-across-window:stale-persisted-window (fixed in /repo
		// by 5440575): every crash image of it must be consistent and take the next block.
		{NewState: newState, Engine: "memory", Boundary: true, Ops: []Op{st(1, 3), st(2, 4), st(1, 4), {K: "R"}, {K: "R"}, st(2, 3), st(1, 3)}},
		{NewState: newState, Engine: "memory", Boundary: true, Ops: []Op{st(1, 3), st(2, 4), {K: "G"}, st(1, 4), {K: "U"}, {K: "R"}, st(2, 3)}},
		// mid-life snapshot at 8190, revert of 8190, a different 8190, 8191 (window end), ungraceful restarts: before the
		// revert repair the fill from the stale snapshot re-wrote the persisted window with the old block's column
		// (C05_stale_snapshot_permanent_before_fix_refuted: permanent false negatives)
		{NewState: newState, Engine: "memory", Boundary: true, Ops: []Op{st(1, 3), {K: "N"}, {K: "R"}, st(2, 4), st(1, 4), {K: "U"}, {K: "U"}, st(2, 3)}},
		// snapshot before the window end, the window's last block, ungraceful restart: the filter initialisation
		// fills from the snapshot, rolls over and re-writes the window with a direct Put (an extra commit)
		{NewState: newState, Engine: "memory", Boundary: true, Ops: []Op{st(1, 4), {K: "N"}, st(2, 4), {K: "U"}, st(2, 3)}},
		// failed store of 8192 (first block of a window), revert of 8191, store, restart
		{NewState: newState, Engine: "memory", Boundary: true, Ops: []Op{st(2, 3), st(2, 4), st(1, 3), {K: "R"}, st(2, 4), {K: "U"}, st(2, 4)}},
	}
}
