package main

// The LAZY initialisation point. juno's running filter is initialised by sync.Once at its FIRST USE
// (RunningEventFilter.ensureInit: first Store -> InsertWithBatch, first RevertHead -> OnReorgWithBatch,
// first event query, first WriteRunningEventFilter), not when the Blockchain is opened. The model's
// Restart operation stands for "process exit, process start, first use", and the other sequences force the
// first use right after opening (newNode). Here the restart does NOT force it: the initialisation — snapshot
// delete first, then the window writes of the fill — happens inside the next operation (inside the Store /
// Revert batch closure, before the batch commit; before the snapshot Put of a WriteRunningEventFilter).
// Over {store, revert, snapshot, graceful / ungraceful restart} the ORDER of committed writes is then
// exactly the model's (a restart whose process never uses the filter commits nothing of its own, and the
// next restart's initialisation performs the same writes), so image k of the implementation must equal the
// model's crash image k for every k, and every image must satisfy the extracted predicates.

import (
	"fmt"
	"strings"

	"github.com/NethermindEth/juno/db"
	"verifharness/chain"
	"verifharness/faultdb"
	"verifharness/hx"
)

func lazySeqs(newState bool) []*Seq {
	st := func(f, k uint64) Op { return Op{K: "S", From: f, Key: k} }
	return []*Seq{
		// first use = Store (snapshot caught up: consumed, used as-is)
		{NewState: newState, Engine: "memory", Lazy: true, Ops: []Op{st(1, 3), st(2, 4), st(1, 4), {K: "G"}, st(2, 3)}},
		// first use = RevertHead after a graceful restart; then a crash and first use = Store (rebuild: no snapshot)
		{NewState: newState, Engine: "memory", Lazy: true, Ops: []Op{st(1, 3), st(2, 4), st(1, 4), {K: "G"}, {K: "R"}, st(2, 3), {K: "U"}, st(1, 3)}},
		// first use = WriteRunningEventFilter (consumes the old snapshot, then persists the new one); a process that
		// never uses its filter (U directly after U)
		{NewState: newState, Engine: "memory", Lazy: true, Ops: []Op{st(1, 3), st(2, 4), {K: "N"}, st(1, 4), {K: "U"}, {K: "N"}, {K: "U"}, {K: "U"}, st(2, 3)}},
		// window end: snapshot at 8190, block 8191 ends the window, ungraceful restart, first use = Store(8192): inside
		// its closure the initialisation deletes the snapshot, fills from it, rolls over and Puts window [0,8191]
		{NewState: newState, Engine: "memory", Boundary: true, Lazy: true, Ops: []Op{st(1, 4), {K: "N"}, st(2, 4), {K: "U"}, st(2, 3)}},
		// window end: graceful restart above the window end, first use = RevertHead back across it
		{NewState: newState, Engine: "memory", Boundary: true, Lazy: true, Ops: []Op{st(1, 3), st(2, 4), st(1, 4), {K: "G"}, {K: "R"}, {K: "R"}, st(2, 3)}},
	}
}

func runLazy(c *hx.Ctx, seq *Seq) {
	for _, o := range seq.Ops {
		if !strings.Contains("SRNGU", o.K) {
			hx.Fatalf("lazy sequences are over S R N G U only")
		}
	}
	c.Hist[fmt.Sprintf("lazy-seq:newState=%v:boundary=%v", seq.NewState, seq.Boundary)]++
	w := newWorldLazy(c, seq)
	defer w.cleanup()
	w.oracleInit()
	cs := Case{Seq: *seq, Mode: "lazy", Index: -1}
	var images []db.KeyValueStore
	var kinds []string
	images = append(images, w.copyImage(w.inner))
	w.fd.OnWrite = func(cm faultdb.Commit) {
		if !cm.Failed {
			images = append(images, w.copyImage(w.inner))
			kinds = append(kinds, cm.Kind)
		}
	}
	for i, o := range seq.Ops {
		before := len(kinds)
		hadSnap := !strings.Contains(w.encNow(), "snap=-") && !strings.Contains(w.encNow(), "h=-")
		first := w.uninit
		if err := w.exec(o); err != nil {
			c.Violation("lazy-init:operation-fails", fmt.Sprintf("op %d (%s) with a lazily initialised filter [newState=%v]: %v", i, opName(o.K), seq.NewState, err), cs, false)
			return
		}
		if first && (o.K == "S" || o.K == "R" || o.K == "N") {
			c.Count(fmt.Sprintf("lazy-first-use/%s/%v/%v/snapshot=%v", opName(o.K), seq.NewState, seq.Boundary, hadSnap), true)
			// the consumed snapshot is deleted BEFORE anything else is written
			if hadSnap && (len(kinds) == before || kinds[before] != "delete") {
				c.Violation("lazy-init:snapshot-delete-is-not-the-first-write", fmt.Sprintf("op %d (%s): committed writes of the first use are %v", i, opName(o.K), kinds[before:]), cs, false)
			}
		}
	}
	// the last process may never have used its filter: force it now (the model's last Restart includes it)
	forceInit(w.t, w.inner, w.lo)
	w.fd.OnWrite = nil
	defer func() {
		for _, img := range images {
			closeIfPebble(img)
		}
	}()
	cl := strings.Fields(or.Ask("counts "+fmt.Sprintf("%x", W)+" ; "+strings.Join(w.mops, " ; "), 1)[0])
	total := 0
	for _, x := range cl {
		var n int
		fmt.Sscanf(x, "%d", &n)
		total += n
	}
	if total != len(images)-1 {
		c.Violation("model-mismatch:lazy-commit-count", fmt.Sprintf("lazy first use [newState=%v boundary=%v]: the implementation committed %d writes %v, the model %d %v", seq.NewState, seq.Boundary, len(images)-1, kinds, total, cl), cs, true)
	}
	for k, img := range images {
		enc, notes := w.decodeImage(img)
		ev := strings.Fields(or.Ask("eval "+fmt.Sprintf("%x", W)+" ; "+enc, 1)[0])
		if len(ev) != 5 {
			hx.Fatalf("oracle reply: %q", ev)
		}
		what := fmt.Sprintf("lazy first use, crash after %d committed writes [newState=%v boundary=%v]: ", k, seq.NewState, seq.Boundary)
		c.Count(fmt.Sprintf("lazy-crash/%v/%v", seq.NewState, seq.Boundary), k > 0)
		if ev[0] != "1" || ev[4] != "1" || len(notes) > 0 {
			c.Violation("lazy-init:inconsistent-image", what+"image not consistent: "+strings.Join(notes, "; ")+" image="+short(enc), Case{Seq: *seq, Mode: "lazy", Index: k}, false)
			continue
		}
		fresh := chain.NewNode(img, seq.NewState, w.opts()...)
		evOK, evWhat := eventsOK(fresh, img, w.lo)
		if nsErr := w.nextStore(img, fresh); nsErr != nil {
			c.Violation("lazy-init:next-store-fails", what+"the next block cannot be stored: "+nsErr.Error(), Case{Seq: *seq, Mode: "lazy", Index: k}, false)
		}
		if k > total {
			continue
		}
		mp := strings.SplitN(or.Ask(fmt.Sprintf("crash %x %d ; ", W, k)+strings.Join(w.mops, " ; "), 1)[0], " # ", 2)
		if len(mp) != 2 {
			hx.Fatalf("oracle reply: %q", mp)
		}
		mflags := strings.Fields(mp[1])
		if mp[0] != enc {
			c.Violation("model-mismatch:lazy-crash-image", what+"decoded image differs from the model's\n   impl : "+enc+"\n   model: "+mp[0], Case{Seq: *seq, Mode: "lazy", Index: k}, true)
			continue
		}
		if (mflags[2] == "1") != evOK {
			c.Violation("model-mismatch:index-covers", what+fmt.Sprintf("model index_covers=%s, events ok=%v %s", mflags[2], evOK, evWhat), Case{Seq: *seq, Mode: "lazy", Index: k}, true)
		}
		if !evOK {
			c.Violation("lazy-init:event-query-differs", what+"fresh process event query differs from the receipts: "+evWhat, Case{Seq: *seq, Mode: "lazy", Index: k}, false)
		}
	}
}

func (w *world) encNow() string {
	enc, _ := w.decodeImage(w.inner)
	return enc
}
