// C05 harness: crash / failed-commit consistency of block storage.
//
// For generated operation sequences over {store, revert, prune, SetL1Head, WriteRunningEventFilter,
// graceful / ungraceful restart}, on both state backends, on the memory and the pebblev2 engine, in two
// universes (short chains from genesis; chains around the real 8192-block bloom-window end):
//
//	(a) crash: the image right after EVERY committed write is copied, a fresh Blockchain is opened on
//	    the copy, every index family is decoded and compared with the image the extracted model
//	    predicts for "crash after k batches"; the extracted predicates (consistent, recover_ready,
//	    index_covers) are evaluated on the decoded image; event queries are compared with a naive
//	    receipt scan, the state commitment is recomputed from the tries, the next block is stored.
//	(b) fault: EVERY commit of every operation is made to fail once; the run continues on the SAME
//	    Blockchain; after every later operation height / reader observations / event queries must
//	    equal the disk's (fresh instance, naive scan); finally the next block must store.
package main

import (
	"context"
	"encoding/binary"
	"fmt"
	"os"
	"sort"
	"strings"

	"github.com/NethermindEth/juno/blockchain"
	"github.com/NethermindEth/juno/core"
	"github.com/NethermindEth/juno/core/felt"
	"github.com/NethermindEth/juno/db"
	"github.com/NethermindEth/juno/db/memory"
	"github.com/NethermindEth/juno/db/pebblev2"
	"github.com/NethermindEth/juno/pruner"
	"verifharness/chain"
	"verifharness/faultdb"
	"verifharness/hx"
)

const W = core.NumBlocksPerFilter

// ---------- cases ----------
type Op struct {
	K    string `json:"k"` // S R P L N G U
	From uint64 `json:"from,omitempty"`
	Key  uint64 `json:"key,omitempty"`
	E    uint64 `json:"e,omitempty"` // prune end (exclusive) / L1 head number
	// large blocks (S only): Big = number of data felts of the block's event (32 bytes each in the stored
	// receipts, so 300000 makes the block's write batch ~10 MiB); Slots = number of extra storage writes
	// (large state/trie/history write set, also on revert)
	Big   int `json:"big,omitempty"`
	Slots int `json:"slots,omitempty"`
}

type Seq struct {
	NewState bool   `json:"new_state"`
	Engine   string `json:"engine"`         // memory | pebble
	Boundary bool   `json:"boundary"`       // start from the 8190-block light chain
	Lazy     bool   `json:"lazy,omitempty"` // restarts do not force the first use of the running filter (lazy.go)
	Ops      []Op   `json:"ops"`
}

type Case struct {
	Seq   Seq    `json:"seq"`
	Mode  string `json:"mode"`  // crash | fault
	Index int    `json:"index"` // crash: committed writes survived; fault: global index of the failing commit
}

// ---------- registry of built blocks ----------
type blkInfo struct {
	built  *chain.Built
	num    uint64
	id     string // block hash, hex without 0x
	parent string
	keys   []uint64 // bloom keys: event from-address and key
	class  *felt.Felt
	txs    []*felt.Felt
	slot   uint64 // value the block writes to slot 1 of contract 0x100 (0 = no storage write: no history entry)
}

func hexOf(f *felt.Felt) string {
	s := strings.TrimPrefix(f.String(), "0x")
	s = strings.TrimLeft(s, "0")
	if s == "" {
		return "0"
	}
	return s
}

func keysStr(ks []uint64) string {
	if len(ks) == 0 {
		return "-"
	}
	ss := make([]string, 0, len(ks))
	seen := map[string]bool{}
	for _, k := range ks {
		s := fmt.Sprintf("%x", k)
		if !seen[s] {
			seen[s] = true
			ss = append(ss, s)
		}
	}
	sort.Strings(ss)
	return strings.Join(ss, "_")
}

func (b *blkInfo) enc() string {
	return fmt.Sprintf("%x.%s.%s.%s", b.num, b.id, b.parent, keysStr(b.keys))
}

// ---------- a running node under test ----------
type world struct {
	seq        *Seq
	c          *hx.Ctx
	inner      db.KeyValueStore // engine
	fd         *faultdb.DB
	t          *chain.Node // node under test (on fd)
	s          *chain.Node // sequencer: builds the blocks, mirrors t's disk chain (memory engine, no faults)
	reg        map[string]*blkInfo
	byNum      map[uint64][]*blkInfo
	versions   map[uint64]uint64
	classCtr   uint64
	lo         uint64   // decode window: numbers >= lo
	mops       []string // model ops issued so far
	dirs       []string
	initLine   string   // oracle init line ("" = reset)
	initWrote  bool     // a (re)initialisation of the running filter wrote to the database (unmodelled)
	big, slots int      // size parameters of the next block to build (consumed by build)
	torn       []string // pre-commit views that differed from the pre-state (see torn.go)
	curCase    *Case
	baseH      int64
	faultMode  bool // a commit failure is injected during this run (the snapshot-consumed check is skipped)
	lazy       bool // restarts do not force the first use of the filter (lazy.go)
	uninit     bool // lazy: the current process has not used its filter yet
}

func (w *world) opts() []blockchain.Option {
	// the pruning-aware initializer coincides with core's when nothing is pruned
	return []blockchain.Option{blockchain.WithRunningEventFilterInitializer(pruner.InitializeRunningEventFilter)}
}

// seqOpts: options of the block-building sequencers. Their running filter is never queried and its
// content is irrelevant (the node under test is the follower), so it is initialised directly at the
// right window instead of re-reading every header of the 8190-block base chain.
func (w *world) seqOpts() []blockchain.Option {
	return []blockchain.Option{blockchain.WithRunningEventFilterInitializer(func(d db.KeyValueStore) (*core.RunningEventFilter, error) {
		next := uint64(0)
		if h, err := core.GetChainHeight(d); err == nil {
			next = h + 1
		}
		f := core.NewAggregatedFilter(next - next%W)
		return core.NewRunningEventFilterHot(d, &f, next), nil
	})}
}

func (w *world) newNode(store db.KeyValueStore) *chain.Node {
	n := chain.NewNode(store, w.seq.NewState, w.opts()...)
	if w.lazy {
		w.uninit = true
		return n
	}
	// force the lazy initialisation now: memory := reinit(disk at restart)
	before := 0
	if w.fd != nil {
		before = w.fd.Count()
	}
	forceInit(n, store, w.lo)
	if w.fd != nil && w.fd.Count() > before {
		// the initialisation itself wrote to the database (a fill rolled over a window end and persisted
		// the window directly): not modelled, see findings
		w.initWrote = true
	}
	return n
}

var baseImages = map[bool]*memory.Database{}
var baseSeq = map[bool]*memory.Database{}

func baseChain(newState bool) *memory.Database {
	if b, ok := baseImages[newState]; ok {
		return b
	}
	base := memory.New()
	seq := chain.NewNode(base, newState)
	for n := uint64(0); n <= W-3; n++ {
		if _, err := seq.Finalise(lightSpec(n)); err != nil {
			hx.Fatalf("base chain: %v", err)
		}
	}
	// the base image is that of a pruning node (retention floor 22 blocks below the head): the filter
	// initialisation then reads ~20 headers instead of 8190, and the image is small. Non-pruned
	// rebuilds from genesis are exercised by the short universe.
	if _, _, err := pruner.PruneUpto(context.Background(), base, W-24, 10<<20); err != nil {
		hx.Fatalf("base chain prune: %v", err)
	}
	baseImages[newState] = base
	return base
}

func newWorldLazy(c *hx.Ctx, seq *Seq) *world { return newWorldOpt(c, seq, true) }
func newWorld(c *hx.Ctx, seq *Seq) *world     { return newWorldOpt(c, seq, false) }

func newWorldOpt(c *hx.Ctx, seq *Seq, lazy bool) *world {
	w := &world{seq: seq, c: c, reg: map[string]*blkInfo{}, byNum: map[uint64][]*blkInfo{}, versions: map[uint64]uint64{}, baseH: -1, lazy: lazy}
	var sdb *memory.Database
	if seq.Boundary {
		base := baseChain(seq.NewState)
		w.inner = base.Copy()
		sdb = base.Copy()
		w.lo = W - 12
		w.baseH = int64(W - 3)
	} else {
		sdb = memory.New()
		if seq.Engine == "pebble" {
			dir := hx.TempDir("c05")
			w.dirs = append(w.dirs, dir)
			p, err := pebblev2.New(dir)
			hx.Must(err)
			w.inner = p
		} else {
			w.inner = memory.New()
		}
	}
	w.s = chain.NewNode(sdb, seq.NewState, w.seqOpts()...)
	if seq.Boundary {
		// register the base blocks of the decode window
		for n := w.lo; n <= uint64(w.baseH); n++ {
			blk, err := w.s.BC.BlockByNumber(n)
			hx.Must(err)
			su, err := w.s.BC.StateUpdateByNumber(n)
			hx.Must(err)
			cm, err := w.s.BC.BlockCommitmentsByNumber(n)
			hx.Must(err)
			w.register(&chain.Built{Block: blk, Update: su, Commit: cm}, nil, nil)
		}
	}
	w.fd = faultdb.New(w.inner)
	w.t = w.newNode(w.fd)
	return w
}

func (w *world) cleanup() {
	if w.inner != nil && w.seq.Engine == "pebble" {
		_ = w.inner.Close()
	}
	for _, d := range w.dirs {
		_ = os.RemoveAll(d)
	}
}

func (w *world) register(b *chain.Built, keys []uint64, class *felt.Felt) *blkInfo {
	bi := &blkInfo{built: b, num: b.Block.Number, id: hexOf(b.Block.Hash), parent: hexOf(b.Block.ParentHash), keys: keys, class: class}
	for _, tx := range b.Block.Transactions {
		bi.txs = append(bi.txs, tx.Hash())
	}
	w.reg[bi.id] = bi
	w.byNum[bi.num] = append(w.byNum[bi.num], bi)
	return bi
}

// build the next block on the sequencer (which mirrors the disk chain of the node under test)
func (w *world) build(s *chain.Node, from, key uint64) (*blkInfo, error) {
	var num uint64
	if h, err := s.BC.Height(); err == nil {
		num = h + 1
	}
	w.versions[num]++
	w.classCtr++
	spec := &chain.BlockSpec{
		Salt:      w.versions[num],
		Txs:       [][]chain.Ev{{{From: from, Keys: []uint64{key}, Data: []uint64{num}}}},
		DeclareV0: []uint64{0x5000 + w.classCtr},
		Storage:   map[uint64]map[uint64]uint64{0x100: {1: 1000 + w.classCtr}},
	}
	if w.big > 0 {
		data := make([]uint64, w.big)
		for i := range data {
			data[i] = uint64(i) + 1
		}
		spec.Txs[0][0].Data = data
	}
	if w.slots > 0 && num != 0 {
		for i := 0; i < w.slots; i++ {
			spec.Storage[0x100][uint64(100+i)] = 1000 + w.classCtr + uint64(i)
		}
	}
	w.big, w.slots = 0, 0
	if num == 0 {
		spec.Deploy = map[uint64]uint64{0x100: 0x55}
		spec.DeclareV0 = append(spec.DeclareV0, 0x55)
		spec.Storage = nil
	}
	b, err := s.Finalise(spec)
	if err != nil {
		return nil, err
	}
	bi := w.register(b, []uint64{from, key}, chain.F(0x5000+w.classCtr))
	if num != 0 {
		bi.slot = 1000 + w.classCtr
	}
	return bi, nil
}

// exec runs one operation on the node under test; returns the error the operation returned.
func (w *world) exec(o Op) error {
	switch o.K {
	case "S":
		w.big, w.slots = o.Big, o.Slots
		bi, err := w.build(w.s, o.From, o.Key)
		if err != nil {
			hx.Fatalf("sequencer cannot build: %v", err)
		}
		w.mops = append(w.mops, "S "+strings.ReplaceAll(bi.enc(), ".", " "))
		if w.uninit {
			// lazy first use: the initialisation's direct writes happen inside this operation, before its batch
			w.uninit = false
			if err := w.t.Store(bi.built); err != nil {
				_ = w.s.BC.RevertHead()
				return err
			}
			return nil
		}
		err, torn := w.guarded(func() error { return w.t.Store(bi.built) })
		w.noteTorn("store", torn)
		if err != nil {
			_ = w.s.BC.RevertHead()
			return err
		}
		return nil
	case "R":
		w.mops = append(w.mops, "R")
		if w.uninit {
			w.uninit = false
			if err := w.t.BC.RevertHead(); err != nil {
				return err
			}
			return w.s.BC.RevertHead()
		}
		err, torn := w.guarded(func() error { return w.t.BC.RevertHead() })
		w.noteTorn("revert", torn)
		if err != nil {
			return err
		}
		return w.s.BC.RevertHead()
	case "P":
		kh := 0 // PruneUpto deletes the Deprecated* history buckets only: new-state history entries stay
		if w.seq.NewState {
			kh = 1
		}
		w.mops = append(w.mops, fmt.Sprintf("P %d %x", kh, o.E))
		_, _, err := pruner.PruneUpto(context.Background(), w.fd, o.E, 1)
		return err
	case "L":
		w.mops = append(w.mops, fmt.Sprintf("L %x", o.E))
		return w.t.BC.SetL1Head(&core.L1Head{BlockNumber: o.E, BlockHash: chain.F(o.E), StateRoot: chain.F(o.E)})
	case "N":
		w.mops = append(w.mops, "N")
		w.uninit = false
		return w.t.BC.WriteRunningEventFilter()
	case "G":
		w.mops = append(w.mops, "G")
		w.uninit = false
		err := w.t.BC.WriteRunningEventFilter()
		w.t = w.newNode(w.fd)
		w.snapshotConsumed("graceful-restart")
		return err
	case "U":
		w.mops = append(w.mops, "U")
		w.t = w.newNode(w.fd)
		w.snapshotConsumed("ungraceful-restart")
		return nil
	}
	hx.Fatalf("bad op %q", o.K)
	return nil
}

// snapshotConsumed evaluates the statement of C05_snapshot_consumed on the implementation: after a restart
// and the first use of the new process's running filter (forced by newNode), on a chain with a height, no
// running-filter snapshot is left in the database. Fault-free runs only (a failed delete leaves it).
func (w *world) snapshotConsumed(kind string) {
	if w.faultMode || w.lazy {
		return
	}
	if _, err := core.GetChainHeight(w.inner); err != nil {
		return // empty chain: the initialiser returns before it reads the snapshot
	}
	w.c.Hist["restart-with-height:snapshot-consumed-checked"]++
	if _, err := core.GetRunningEventFilter(w.inner); err == nil {
		cs := Case{Seq: *w.seq, Mode: "crash", Index: -1}
		w.c.Violation("restart:snapshot-not-consumed", fmt.Sprintf("op %d (%s) [%s, newState=%v]: after the restart and the first use of the running filter the persisted snapshot is still in the database (C05_snapshot_consumed)", len(w.mops)-1, kind, w.seq.Engine, w.seq.NewState), cs, false)
	}
}

func bloomKeyBytes(k uint64) []byte {
	b := chain.F(k).Bytes()
	if k >= 3 { // event key at index 0
		return binary.AppendVarint(b[:], 0)
	}
	return b[:]
}

var universe = []uint64{1, 2, 3, 4} // 1,2: from addresses; 3,4: first keys

func (w *world) noteTorn(kind, what string) {
	if what == "" {
		return
	}
	w.torn = append(w.torn, kind+": "+what)
	cs := Case{Seq: *w.seq, Mode: "crash", Index: len(w.mops)}
	if w.curCase != nil {
		cs = *w.curCase
	}
	w.c.Hist["torn-pre-commit-view"]++
	w.c.Violation("torn-block:"+w.seq.Engine+":"+kind+":state-visible-before-the-batch-commit",
		fmt.Sprintf("op %d (%s) [%s, newState=%v]: %s", len(w.mops)-1, kind, w.seq.Engine, w.seq.NewState, what), cs, false)
}
