package main

import "os"

func main() {
	if os.Getenv("C05_EXPLORE") != "" {
		explore()
		return
	}
}
