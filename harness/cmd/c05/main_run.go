package main

import (
	"fmt"
	"io"
	"log"
	"os"
	"runtime/debug"
	"runtime/pprof"

	"verifharness/hx"
)

func sum(a []int) int {
	t := 0
	for _, x := range a {
		t += x
	}
	return t
}

func runSeq(c *hx.Ctx, seq *Seq) {
	c.Hist[fmt.Sprintf("seq:%s:newState=%v:boundary=%v", seq.Engine, seq.NewState, seq.Boundary)]++
	for _, o := range seq.Ops {
		c.Hist["op:"+opName(o.K)]++
	}
	res := runCrash(c, seq, -1)
	total := sum(res.counts)
	c.Sample(map[string]any{"seq": seq, "committed_writes_per_op": res.counts})
	for K := 0; K < total; K++ {
		runFault(c, seq, res.counts, K)
	}
}

func realMain() {
	debug.SetGCPercent(400) // many short-lived copies of an 8190-block image
	if p := os.Getenv("C05_PROF"); p != "" {
		f, _ := os.Create(p)
		_ = pprof.StartCPUProfile(f)
		defer pprof.StopCPUProfile()
	}
	log.SetOutput(io.Discard) // pebble's default logger
	c := hx.NewCtx("C05")
	or = hx.StartOracle(c.OraclePath)
	defer or.Close()
	if c.ReplayIn != "" {
		var cs Case
		c.LoadReplay(&cs)
		if cs.Mode == "crash" {
			runCrash(c, &cs.Seq, cs.Index)
		} else {
			res := runCrash(c, &cs.Seq, 1<<30) // only to learn the commit counts
			runFault(c, &cs.Seq, res.counts, cs.Index)
		}
		c.Finish("replay")
	}
	rng := hx.NewRNG(c.Seed)
	nShort, nPebble, nBoundary, lenShort, lenB := 5, 1, 3, 10, 8
	if c.Thorough() {
		nShort, nPebble, nBoundary, lenShort, lenB = 60, 20, 25, 14, 10
	}
	for _, ns := range []bool{false, true} {
		for _, s := range directed(ns) {
			runSeq(c, s)
		}
		for _, s := range largeSeqs(ns, c.Thorough()) {
			c.Hist["large-block-sequences"]++
			runSeq(c, s)
		}
		for i := 0; i < nShort; i++ {
			runSeq(c, genSeq(rng.Fork(uint64(i)), ns, "memory", false, lenShort))
		}
		for i := 0; i < nPebble; i++ {
			runSeq(c, genSeq(rng.Fork(1000+uint64(i)), ns, "pebble", false, lenShort-2))
		}
		for i := 0; i < nBoundary; i++ {
			runSeq(c, genSeq(rng.Fork(2000+uint64(i)), ns, "memory", true, lenB))
		}
	}
	c.Extra["window"] = W
	c.Extra["largest_store_or_revert_batch_bytes"] = maxBatchBytes
	pprof.StopCPUProfile()
	c.Finish("every crash image (after each committed write) decodes to the image the extracted model predicts, satisfies the extracted predicates consistent / recover_ready / index_covers, answers event queries like a receipt scan and stores the next block; after every injected commit failure the same process answers like the disk and stores the next block")
}

func main() {
	if os.Getenv("C05_EXPLORE") != "" {
		explore()
		return
	}
	realMain()
}
