package main

import (
	"fmt"
	"io"
	"log"
	"os"
	"runtime/debug"
	"runtime/pprof"
	"time"

	"verifharness/hx"
)

func sum(a []int) int {
	t := 0
	for _, x := range a {
		t += x
	}
	return t
}

func runSeq(c *hx.Ctx, seq *Seq) {
	c.Hist[fmt.Sprintf("seq:%s:newState=%v:boundary=%v", seq.Engine, seq.NewState, seq.Boundary)]++
	for _, o := range seq.Ops {
		c.Hist["op:"+opName(o.K)]++
	}
	res := runCrash(c, seq, -1)
	total := sum(res.counts)
	c.Sample(map[string]any{"seq": seq, "committed_writes_per_op": res.counts})
	for K := 0; K < total; K++ {
		runFault(c, seq, res.counts, K)
	}
}

func realMain() {
	debug.SetGCPercent(400) // many short-lived copies of an 8190-block image
	if p := os.Getenv("C05_PROF"); p != "" {
		f, _ := os.Create(p)
		_ = pprof.StartCPUProfile(f)
		defer pprof.StopCPUProfile()
	}
	log.SetOutput(io.Discard) // pebble's default logger
	c := hx.NewCtx("C05")
	or = hx.StartOracle(c.OraclePath)
	defer or.Close()
	if c.ReplayIn != "" {
		var cs Case
		c.LoadReplay(&cs)
		if cs.Seq.Lazy || cs.Mode == "lazy" {
			cs.Seq.Lazy = true
			runLazy(c, &cs.Seq)
		} else if cs.Mode == "staged" {
			stagedOne(c, &cs.Seq, cs.Index/10000, cs.Index%10000, -1)
		} else if cs.Mode == "crash" {
			runCrash(c, &cs.Seq, cs.Index)
		} else {
			res := runCrash(c, &cs.Seq, 1<<30) // only to learn the commit counts
			runFault(c, &cs.Seq, res.counts, cs.Index)
		}
		c.Finish("replay")
	}
	rng := hx.NewRNG(c.Seed)
	nShort, nPebble, nBoundary, lenShort, lenB := 4, 1, 2, 10, 8 // quick: 2 random window-end sequences per backend (was 3) since the lazy-first-use family added 2 directed ones
	if c.Thorough() {
		nShort, nPebble, nBoundary, lenShort, lenB = 60, 20, 25, 14, 10
	}
	wall := map[string]float64{}
	timed := func(family string, f func()) {
		t0 := time.Now()
		f()
		wall[family] += time.Since(t0).Seconds()
	}
	for _, ns := range []bool{false, true} {
		for i, s := range directed(ns) {
			timed("directed", func() { runSeq(c, s) })
			if i < 3 || c.Thorough() { // staged-write faults (one Put / Delete inside the batch fails) on the first directed histories
				timed("staged-write-faults", func() { runStaged(c, s) })
			}
		}
		for _, s := range lazySeqs(ns) {
			timed("lazy-first-use", func() { runLazy(c, s) })
		}
		for _, s := range largeSeqs(ns, c.Thorough()) {
			c.Hist["large-block-sequences"]++
			timed("large-blocks-pebble", func() { runSeq(c, s) })
		}
		for i := 0; i < nShort; i++ {
			timed("random-short", func() { runSeq(c, genSeq(rng.Fork(uint64(i)), ns, "memory", false, lenShort)) })
		}
		for i := 0; i < nPebble; i++ {
			timed("random-pebble", func() { runSeq(c, genSeq(rng.Fork(1000+uint64(i)), ns, "pebble", false, lenShort-2)) })
		}
		for i := 0; i < nBoundary; i++ {
			timed("random-window-end", func() { runSeq(c, genSeq(rng.Fork(2000+uint64(i)), ns, "memory", true, lenB)) })
		}
	}
	for k, v := range wall {
		wall[k] = float64(int(v*10)) / 10
	}
	c.Extra["wall_s_by_family"] = wall
	c.Extra["window"] = W
	c.Extra["largest_store_or_revert_batch_bytes"] = maxBatchBytes
	pprof.StopCPUProfile()
	c.Finish("every crash image (after each committed write) decodes to the image the extracted model predicts, satisfies the extracted predicates consistent / recover_ready / index_covers, answers event queries like a receipt scan and stores the next block; after every injected commit failure the same process answers like the disk and stores the next block")
}

func main() {
	if os.Getenv("C05_EXPLORE") != "" {
		explore()
		return
	}
	realMain()
}
