package main

import (
	"errors"
	"fmt"
	"sort"
	"strings"

	"github.com/NethermindEth/juno/blockchain"
	"github.com/NethermindEth/juno/core"
	"github.com/NethermindEth/juno/core/deprecatedstate"
	"github.com/NethermindEth/juno/core/felt"
	"github.com/NethermindEth/juno/core/state"
	"github.com/NethermindEth/juno/core/trie2/triedb"
	"github.com/NethermindEth/juno/db"
	"github.com/NethermindEth/juno/pruner"
	"verifharness/chain"
)

var preConfNil = func() (blockchain.PreConfirmedReader, error) { return nil, nil }

// queryEvents: all events emitted by address k (k in {1,2}) or with first key k (k in {3,4}), from block lo.
func queryEvents(n *chain.Node, k uint64, _ bool, lo uint64) ([]string, error) {
	var addrs []felt.Address
	var keys [][]felt.Felt
	if k <= 2 {
		addrs = []felt.Address{felt.Address(*chain.F(k))}
	} else {
		keys = [][]felt.Felt{{*chain.F(k)}}
	}
	f, err := n.BC.EventFilter(addrs, keys, preConfNil)
	if err != nil {
		if errors.Is(err, db.ErrKeyNotFound) {
			return nil, nil // empty chain
		}
		return nil, err
	}
	defer f.Close()
	if lo > 0 {
		if err := f.SetRangeEndBlockByNumber(blockchain.EventFilterFrom, lo); err != nil {
			return nil, err
		}
	}
	var out []string
	var tok *blockchain.ContinuationToken
	for {
		evs, next, err := f.Events(tok, 100)
		if err != nil {
			return nil, err
		}
		for i := range evs {
			e := &evs[i]
			out = append(out, fmt.Sprintf("%d/%s/%d", e.BlockNumber, hexOf(e.BlockHash), e.TransactionIndex))
		}
		if next.IsEmpty() {
			break
		}
		nx := next
		tok = &nx
	}
	return out, nil
}

// naiveEvents scans the receipts of blocks [lo, height] through the plain accessors.
func naiveEvents(r db.KeyValueReader, k uint64, lo uint64) []string {
	h, err := core.GetChainHeight(r)
	if err != nil {
		return nil
	}
	var out []string
	for n := lo; n <= h; n++ {
		hash, err := core.GetBlockHeaderHashByNumber(r, n)
		if err != nil {
			continue
		}
		rcs, err := core.GetReceiptsByBlockNumber(r, n)
		if err != nil {
			continue
		}
		for ti, rc := range rcs {
			for _, ev := range rc.Events {
				match := false
				if k <= 2 {
					match = ev.From.Equal(chain.F(k))
				} else {
					match = len(ev.Keys) > 0 && ev.Keys[0].Equal(chain.F(k))
				}
				if match {
					out = append(out, fmt.Sprintf("%d/%s/%d", n, hexOf(hash), ti))
				}
			}
		}
	}
	return out
}

func sameStrs(a, b []string) bool {
	if len(a) != len(b) {
		return false
	}
	for i := range a {
		if a[i] != b[i] {
			return false
		}
	}
	return true
}

// forceInit makes node n use (and thereby initialise) its running event filter now: one event query over the
// retained range (a query that starts below the retention floor is rejected by RequireRetained BEFORE the filter is
// touched, which would leave the initialisation - and the consumption of a persisted snapshot - to the next operation).
func forceInit(n *chain.Node, r db.KeyValueReader, lo uint64) {
	if fl, err := pruner.OldestRetainedBlock(r); err == nil && fl > lo {
		lo = fl
	}
	_, _ = queryEvents(n, 1, true, lo)
}

// eventsOK: every universe query of node n equals the naive scan of the disk r.
func eventsOK(n *chain.Node, r db.KeyValueReader, lo uint64) (bool, string) {
	if fl, err := pruner.OldestRetainedBlock(r); err == nil && fl > lo {
		lo = fl // queries starting below the retention floor are rejected by design (RequireRetained)
	}
	for _, k := range universe {
		got, err := queryEvents(n, k, false, lo)
		want := naiveEvents(r, k, lo)
		if err != nil {
			return false, fmt.Sprintf("query %d: error %v (naive scan has %d events)", k, err, len(want))
		}
		if !sameStrs(got, want) {
			return false, fmt.Sprintf("query %d: node returns %d events %v, receipts hold %d %v", k, len(got), got, len(want), want)
		}
	}
	return true, ""
}

// readerObs: a canonical dump of Reader answers around the head.
func readerObs(n *chain.Node, reg map[string]*blkInfo, lo uint64) string {
	var sb strings.Builder
	h, err := n.BC.Height()
	fmt.Fprintf(&sb, "height=%d/%v;", h, err != nil)
	if err != nil {
		h = 0
	}
	if hd, err := n.BC.HeadsHeader(); err == nil {
		fmt.Fprintf(&sb, "head=%s;", hexOf(hd.Hash))
	}
	if l1, err := n.BC.L1Head(); err == nil {
		fmt.Fprintf(&sb, "l1=%d;", l1.BlockNumber)
	}
	from := lo
	if h > 4 && h-4 > from {
		from = h - 4
	}
	for x := from; x <= h+1; x++ {
		if b, err := n.BC.BlockByNumber(x); err == nil {
			fmt.Fprintf(&sb, "b%d=%s/%d/%d;", x, hexOf(b.Hash), len(b.Transactions), len(b.Receipts))
			if nn, err := n.BC.BlockNumberByHash(b.Hash); err != nil || nn != x {
				fmt.Fprintf(&sb, "byhash%d=BAD;", x)
			}
		} else {
			fmt.Fprintf(&sb, "b%d=-;", x)
		}
		if su, err := n.BC.StateUpdateByNumber(x); err == nil {
			fmt.Fprintf(&sb, "su%d=%s;", x, hexOf(su.BlockHash))
		}
		if _, err := n.BC.BlockCommitmentsByNumber(x); err == nil {
			fmt.Fprintf(&sb, "cm%d;", x)
		}
	}
	ids := make([]string, 0, len(reg))
	for id := range reg {
		ids = append(ids, id)
	}
	sort.Strings(ids)
	for _, id := range ids {
		bi := reg[id]
		for _, tx := range bi.txs {
			if _, bh, bn, err := n.BC.Receipt(tx); err == nil {
				fmt.Fprintf(&sb, "rc%s=%d/%s;", hexOf(tx)[:6], bn, hexOf(bh)[:6])
			}
		}
	}
	if st, closer, err := n.BC.HeadState(); err == nil {
		if v, err := st.ContractStorage(chain.F(0x100), chain.F(1)); err == nil {
			fmt.Fprintf(&sb, "slot=%s;", hexOf(&v))
		}
		_ = closer()
	}
	if h > lo {
		if st, closer, err := n.BC.StateAtBlockNumber(h - 1); err == nil {
			if v, err := st.ContractStorage(chain.F(0x100), chain.F(1)); err == nil {
				fmt.Fprintf(&sb, "slot@-1=%s;", hexOf(&v))
			}
			_ = closer()
		}
	}
	return sb.String()
}

// recomputeRoot recomputes the state commitment from the tries on disk.
func recomputeRoot(store db.KeyValueStore, newState bool, hdr *core.Header) (*felt.Felt, error) {
	if !newState {
		txn := store.NewIndexedBatch()
		defer txn.Close()
		r, err := deprecatedstate.New(txn).Commitment(hdr.ProtocolVersion)
		return &r, err
	}
	sdb := state.NewStateDB(store, triedb.New(store, nil))
	rd, err := state.NewStateReader(hdr.GlobalStateRoot, sdb)
	if err != nil {
		return nil, err
	}
	r, err := rd.Commitment(hdr.ProtocolVersion)
	return &r, err
}

func colsOf(f *core.AggregatedBloomFilter, lo uint64, byNum map[uint64][]*blkInfo) string {
	var parts []string
	nums := make([]uint64, 0, len(byNum))
	for n := range byNum {
		nums = append(nums, n)
	}
	sort.Slice(nums, func(i, j int) bool { return nums[i] < nums[j] })
	type col struct {
		n  uint64
		ks []uint64
	}
	var cs []col
	for _, k := range universe {
		bits := f.BlocksForKeys([][]byte{bloomKeyBytes(k)})
		for _, n := range nums {
			if n < f.FromBlock() || n > f.ToBlock() || n < lo {
				continue
			}
			if bits.Test(uint(n - f.FromBlock())) {
				found := false
				for i := range cs {
					if cs[i].n == n {
						cs[i].ks = append(cs[i].ks, k)
						found = true
					}
				}
				if !found {
					cs = append(cs, col{n, []uint64{k}})
				}
			}
		}
	}
	sort.Slice(cs, func(i, j int) bool { return hexLess(fmt.Sprintf("%x", cs[i].n), fmt.Sprintf("%x", cs[j].n)) })
	for _, c := range cs {
		parts = append(parts, fmt.Sprintf("%x:%s", c.n, keysStr(c.ks)))
	}
	if len(parts) == 0 {
		return "-"
	}
	return strings.Join(parts, "+")
}

func hexLess(a, b string) bool {
	if len(a) != len(b) {
		return len(a) < len(b)
	}
	return a < b
}
