package main

import (
	"fmt"
	"strings"

	"github.com/NethermindEth/juno/db"
	"github.com/NethermindEth/juno/db/memory"
	"github.com/NethermindEth/juno/db/pebblev2"
	"verifharness/chain"
	"verifharness/faultdb"
	"verifharness/hx"
)

var or *hx.Oracle

func (w *world) oracleInit() {
	if !w.seq.Boundary {
		or.Ask("reset", 1)
		return
	}
	enc, _ := w.decodeImage(w.inner)
	rf := fmt.Sprintf("0~%x~0~-", uint64(w.baseH+1))
	r := or.Ask("init ; "+enc+" ; "+rf, 1)
	if r[0] != "ok" {
		hx.Fatalf("oracle init: %s", r[0])
	}
}

// copyImage copies the engine's current image into an independent store.
func (w *world) copyImage(src db.KeyValueStore) db.KeyValueStore {
	if m, ok := src.(*memory.Database); ok {
		return m.Copy()
	}
	dir := hx.TempDir("c05img")
	_ = removeDir(dir)
	w.dirs = append(w.dirs, dir)
	hx.Must(faultdb.Checkpoint(src, dir))
	p, err := pebblev2.New(dir)
	hx.Must(err)
	return p
}

func closeIfPebble(s db.KeyValueStore) {
	if _, ok := s.(*memory.Database); !ok {
		_ = s.Close()
	}
}

func opName(k string) string {
	return map[string]string{"S": "store", "R": "revert", "P": "prune", "L": "set-l1-head", "N": "filter-snapshot", "G": "graceful-restart", "U": "ungraceful-restart"}[k]
}

func staleWindow(enc string) bool {
	// a persisted window whose end lies above the chain height
	var h uint64
	hasH := false
	var wins string
	for _, p := range strings.Split(enc, "|") {
		if strings.HasPrefix(p, "h=") && p != "h=-" {
			fmt.Sscanf(p[2:], "%x", &h)
			hasH = true
		}
		if strings.HasPrefix(p, "win=") {
			wins = p[4:]
		}
	}
	if wins == "-" || wins == "" {
		return false
	}
	for _, wv := range strings.Split(wins, ",") {
		var a uint64
		fmt.Sscanf(strings.SplitN(wv, "@", 2)[0], "%x", &a)
		if !hasH || a+W-1 > h {
			return true
		}
	}
	return false
}

// nextStore: can the recovered process take the next block? A sequencer on a copy of the image builds
// it (Finalise); the fresh process that was just opened on the image stores it (SanityCheckNewHeight +
// Store). The image is a private copy and is discarded afterwards.
func (w *world) nextStore(img db.KeyValueStore, fresh *chain.Node) error {
	a := w.copyImage(img)
	defer closeIfPebble(a)
	sq := chain.NewNode(a, w.seq.NewState, w.seqOpts()...)
	saveV, saveC := map[uint64]uint64{}, w.classCtr
	for k, v := range w.versions {
		saveV[k] = v
	}
	bi, err := w.build(sq, 2, 4)
	w.versions, w.classCtr = saveV, saveC+1
	if err != nil {
		return fmt.Errorf("sequencer Finalise on the image: %w", err)
	}
	delete(w.reg, bi.id)
	w.byNum[bi.num] = w.byNum[bi.num][:len(w.byNum[bi.num])-1]
	if err := fresh.Store(bi.built); err != nil {
		return fmt.Errorf("follower Store: %w", err)
	}
	if h, err := fresh.BC.Height(); err != nil || h != bi.num {
		return fmt.Errorf("height after store is %d/%v, want %d", h, err, bi.num)
	}
	return nil
}

type crashResult struct {
	counts []int // committed writes per op
}

// runCrash executes the sequence once, copying the image after every committed write, then examines
// every image. only >= 0 restricts the examination to that crash point (replay).
func runCrash(c *hx.Ctx, seq *Seq, only int) *crashResult {
	w := newWorld(c, seq)
	defer w.cleanup()
	w.oracleInit()
	var images []db.KeyValueStore
	images = append(images, w.copyImage(w.inner))
	w.fd.OnWrite = func(cm faultdb.Commit) {
		if !cm.Failed {
			images = append(images, w.copyImage(w.inner))
		}
	}
	res := &crashResult{}
	opOf := []int{-1} // image index -> op index during which it was taken
	for i, o := range seq.Ops {
		before := len(images)
		_ = w.exec(o)
		res.counts = append(res.counts, len(images)-before)
		for j := before; j < len(images); j++ {
			opOf = append(opOf, i)
		}
	}
	w.fd.OnWrite = nil
	// model's batch counts per op
	cl := or.Ask("counts "+fmt.Sprintf("%x", W)+" ; "+strings.Join(w.mops, " ; "), 1)[0]
	got := strings.Trim(fmt.Sprint(res.counts), "[]")
	withModel := cl == got
	for k, img := range images {
		if only >= 0 && k != only {
			closeIfPebble(img)
			continue
		}
		// when the commit structure differs from the model's, the images are still examined with the
		// property predicates (so that a concrete failing crash point is reported), without the model's image
		w.checkCrashImage(seq, k, opOf[k], img, withModel)
		closeIfPebble(img)
	}
	if !withModel {
		c.Violation("model-mismatch:batches-per-op", fmt.Sprintf("committed writes per operation: implementation [%s], model [%s]", got, cl),
			Case{Seq: *seq, Mode: "crash", Index: -1}, true)
	}
	return res
}

func (w *world) checkCrashImage(seq *Seq, k, opIdx int, img db.KeyValueStore, withModel bool) {
	c := w.c
	cs := Case{Seq: *seq, Mode: "crash", Index: k}
	during := "initial image"
	kind := "none"
	if opIdx >= 0 {
		kind = opName(seq.Ops[opIdx].K)
		during = fmt.Sprintf("op %d (%s)", opIdx, kind)
	}
	enc, notes := w.decodeImage(img)
	ev := strings.Fields(or.Ask("eval "+fmt.Sprintf("%x", W)+" ; "+enc, 1)[0])
	if len(ev) != 5 {
		hx.Fatalf("oracle reply: %q", ev)
	}
	var mp, mflags []string
	// The model is asked about the history UP TO AND INCLUDING the operation during which the process
	// died (the crash image depends on nothing later), so that the hypotheses of the theorems (ops_env,
	// ops_fresh, snap_discipline) are evaluated for exactly the history this image belongs to.
	prefix := w.mops[:opIdx+1]
	ml := or.Ask(fmt.Sprintf("crash %x %d ; ", W, k)+strings.Join(prefix, " ; "), 1)[0]
	mp = strings.SplitN(ml, " # ", 2)
	if len(mp) != 2 {
		hx.Fatalf("oracle reply: %q", ml)
	}
	mflags = strings.Fields(mp[1])
	if len(mflags) != 7 {
		hx.Fatalf("oracle reply: %q", ml)
	}
	disciplined := mflags[6] == "1" // no block reverted between a snapshot and the next restart (C05_index)
	hasSnap := !strings.Contains(enc, "snap=-")
	if hasSnap {
		c.Hist["crash-image-holds-a-snapshot"]++
	}
	consistent := ev[0] == "1" && ev[4] == "1" && len(notes) == 0
	// observations on a fresh process (behind a counting proxy: its initialisation may write), which finally
	// stores the next block
	probe := faultdb.New(img)
	fresh := chain.NewNode(probe, seq.NewState, w.opts()...)
	evOK, evWhat := eventsOK(fresh, img, w.lo)
	if probe.Count() > 0 {
		c.Hist["fresh-process-init-wrote-a-window"]++
	}
	nsErr := w.nextStore(img, fresh)
	c.Count(fmt.Sprintf("crash/%s/%v/%v/%s", kind, seq.NewState, seq.Boundary, seq.Engine), opIdx >= 0)
	c.Hist["crash-image-during:"+kind]++
	what := fmt.Sprintf("crash after %d committed writes, during %s [%s, newState=%v]: ", k, during, seq.Engine, seq.NewState)
	switch {
	case !consistent:
		class := "crash:inconsistent-image:" + kind
		if staleWindow(enc) {
			class = "revert-across-window:stale-persisted-window"
		}
		c.Violation(class, what+"image not consistent: "+strings.Join(notes, "; ")+" image="+short(enc), cs, false)
	case nsErr != nil:
		class := "crash:next-store-fails:" + kind
		if staleWindow(enc) {
			class = "revert-across-window:stale-persisted-window"
		}
		c.Violation(class, what+"the next block cannot be stored: "+nsErr.Error(), cs, false)
	case !evOK:
		class := "crash:event-query-differs:" + kind
		if hasSnap && !disciplined {
			// a snapshot written in the middle of the process's life (Blockchain.WriteRunningEventFilter before
			// shutdown) that outlived the revert of a block it covers: RevertHead must delete it inside its batch
			// (findings/C05-snapshot-invalidated-by-revert.patch). Ordinary history, ordinary violation: the class
			// is NOT registered (the former known id crash:stale-filter-snapshot:event-false-negatives is fixed)
			class = staleMidlifeClass
			c.Hist["stale-midlife-snapshot-accepted-by-fresh-process"]++
		} else if hasSnap {
			// a snapshot that the restart following it should have consumed (repaired in /repo 1231538): not known
			class = "crash:stale-shutdown-snapshot:event-false-negatives"
		}
		c.Violation(class, what+"fresh process event query differs from the receipts: "+evWhat, cs, false)
	}
	// correspondence with the model
	if !withModel {
		return
	}
	if mp[0] != enc {
		c.Violation("model-mismatch:crash-image", what+"decoded image differs from the model's\n   impl : "+enc+"\n   model: "+mp[0], cs, true)
		return
	}
	// C05_index: no hypothesis about snapshots is left; every crash image of an environment-respecting history
	// must have a complete event index — in the model and in the implementation
	if mflags[3] == "1" {
		c.Hist["crash-image-under-C05_index"]++
		if !disciplined {
			c.Hist["crash-image-of-history-with-a-revert-after-a-midlife-snapshot(C05_index applies since the revert repair)"]++
		}
		if !evOK || mflags[2] != "1" {
			c.Violation("theorem:index-covers-fails", what+fmt.Sprintf("ops_env holds but the event index has false negatives (model index_covers=%s, implementation ok=%v): %s", mflags[2], evOK, evWhat), cs, false)
		}
	}
	if mflags[3] == "1" && (mflags[0] != "1" || mflags[5] != "1" || mflags[1] != "1") {
		c.Violation("theorem:crash-image-not-consistent-in-model", what+"ops_env holds but the model's crash image is not consistent/continuous/ready", cs, true)
	}
	if mflags[3] != "1" {
		c.Violation("hypothesis:ops-env-false", what+"the generator produced a history outside ops_env (revert onto a pruned block / prune of the head)", cs, true)
	}
	if (mflags[1] == "1") != (nsErr == nil) {
		c.Violation("model-mismatch:recover-ready", what+fmt.Sprintf("model recover_ready=%s, next store error=%v", mflags[1], nsErr), cs, true)
	}
	if (mflags[2] == "1") != evOK {
		c.Violation("model-mismatch:index-covers", what+fmt.Sprintf("model index_covers=%s, events ok=%v %s", mflags[2], evOK, evWhat), cs, true)
	}
}

// a false negative served from a mid-life snapshot that a later revert should have deleted (the fixed finding)
const staleMidlifeClass = "crash:stale-midlife-snapshot-after-revert:event-false-negatives"

func short(s string) string {
	if len(s) > 400 {
		return s[:400] + "…"
	}
	return s
}
