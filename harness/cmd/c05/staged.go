// C05 harness: staged-write faults. runFault fails whole COMMITS; here a single Put / Delete staged into the batch of a
// Store or RevertHead fails (the error surfaces in the middle of the operation's batch closure, before anything is
// committed). "If ... a database write fails at any point while a block is being stored [or] reverted ... after the
// failed call returns the node is at a well-defined height ... In-memory caches never disagree with what is on disk
// after a failed write": the call must return the error, the disk must be untouched, the same process must answer
// reader and event queries like a fresh process on the same database, and the retried operation must succeed.
package main

import (
	"fmt"

	"verifharness/chain"
	"verifharness/hx"
)

func runStaged(c *hx.Ctx, seq *Seq) {
	// staged writes per operation in a fault-free run
	ref := newWorld(c, seq)
	ref.faultMode = true
	ref.oracleInit()
	counts := make([]int, len(seq.Ops))
	for i, o := range seq.Ops {
		before := ref.fd.StagedCount()
		if err := ref.exec(o); err != nil {
			ref.cleanup()
			return // not a fault-free sequence on this tree: runCrash / runFault report it
		}
		counts[i] = ref.fd.StagedCount() - before
	}
	ref.cleanup()
	for opI, o := range seq.Ops {
		if (o.K != "S" && o.K != "R") || counts[opI] == 0 {
			continue
		}
		n := counts[opI]
		ks := []int{1, 2, (n + 1) / 2, n - 1, n}
		if c.Thorough() {
			ks = nil
			for k := 1; k <= n; k++ {
				ks = append(ks, k)
			}
		}
		seen := map[int]bool{}
		for _, k := range ks {
			if k < 1 || k > n || seen[k] {
				continue
			}
			seen[k] = true
			stagedOne(c, seq, opI, k, n)
		}
	}
}

func stagedOne(c *hx.Ctx, seq *Seq, opI, k, n int) {
	w := newWorld(c, seq)
	defer w.cleanup()
	w.faultMode = true
	w.oracleInit()
	for _, o := range seq.Ops[:opI] {
		if err := w.exec(o); err != nil {
			return
		}
	}
	o := seq.Ops[opI]
	kind := opName(o.K)
	cs := Case{Seq: *seq, Mode: "staged", Index: opI*10000 + k}
	where := fmt.Sprintf("staged write %d/%d of op %d (%s) fails [%s, newState=%v]: ", k, n, opI, kind, seq.Engine, seq.NewState)
	c.Count(fmt.Sprintf("staged/%s/%d/%d/%v/%v/%s", kind, opI, k, seq.NewState, seq.Boundary, seq.Engine), true)
	c.Hist["staged-fault-in:"+kind]++
	pre, _ := w.decodeImage(w.inner)
	w.fd.FailStaged(k)
	err := w.exec(o)
	if w.fd.StagedArmed() {
		w.fd.FailStaged(0)
		c.Hist["staged-fault-not-reached"]++
		return
	}
	if err == nil {
		c.Violation("failed-"+kind+":staged-write:error-swallowed", where+"the operation returned nil although one of its writes failed", cs, false)
		return
	}
	if post, _ := w.decodeImage(w.inner); post != pre {
		c.Violation("failed-"+kind+":staged-write:disk-changed", where+fmt.Sprintf("the failed call changed the database\n   before: %s\n   after : %s", short(pre), short(post)), cs, false)
		return
	}
	fresh := chain.NewNode(w.inner, seq.NewState, w.opts()...)
	if so, fo := readerObs(w.t, w.reg, w.lo), readerObs(fresh, w.reg, w.lo); so != fo {
		c.Violation("failed-"+kind+":staged-write:reader-differs", where+fmt.Sprintf("the same process answers\n   %s\n  a fresh process on the same database\n   %s", so, fo), cs, false)
		return
	}
	if ok, what := eventsOK(w.t, w.inner, w.lo); !ok {
		c.Violation("failed-"+kind+":staged-write:event-query-differs", where+"the same process no longer answers event queries like the receipts on disk: "+what, cs, false)
		return
	}
	// the retried operation succeeds and leaves a process that still answers correctly
	if err := w.exec(o); err != nil {
		c.Violation("failed-"+kind+":staged-write:retry-fails", where+fmt.Sprintf("the retried %s fails on the same process: %v", kind, err), cs, false)
		return
	}
	if ok, what := eventsOK(w.t, w.inner, w.lo); !ok {
		c.Violation("failed-"+kind+":staged-write:event-query-differs-after-retry", where+"after the successful retry: "+what, cs, false)
	}
}
