package main

// "No torn block": the unit of atomicity is the write batch. For every Store / RevertHead the state
// that a second view of the engine shows at the moment the proxy sees the batch commit — BEFORE the
// commit is forwarded — must be exactly the pre-state of the operation: anything else is a write that
// bypassed the batch (a direct write, or a backend that hands parts of the batch over early). On Pebble
// the view is additionally taken as a copy of the on-disk directory (engine checkpoint), re-opened.

import (
	"crypto/sha256"
	"encoding/hex"
	"fmt"
	"sort"
	"strings"

	"github.com/NethermindEth/juno/db"
	"github.com/NethermindEth/juno/db/memory"
	"github.com/NethermindEth/juno/db/pebblev2"
	"verifharness/faultdb"
	"verifharness/hx"
)

// largest store/revert batch seen per engine (evidence: the large-block family really is large)
var maxBatchBytes = map[string]int{}

// digest: per-bucket (first key byte) hash over all key/value pairs, and the number of keys.
func digest(store db.KeyValueStore) map[byte]string {
	type acc struct {
		h interface {
			Write([]byte) (int, error)
			Sum([]byte) []byte
		}
		n int
	}
	accs := map[byte]*acc{}
	it, err := store.NewIterator(nil, false)
	hx.Must(err)
	defer it.Close()
	var lenbuf [8]byte
	for ok := it.First(); ok && it.Valid(); ok = it.Next() {
		k := it.Key()
		if len(k) == 0 {
			continue
		}
		v, err := it.UncopiedValue()
		hx.Must(err)
		a := accs[k[0]]
		if a == nil {
			a = &acc{h: sha256.New()}
			accs[k[0]] = a
		}
		for i, x := range []int{len(k), len(v)} {
			lenbuf[i*4], lenbuf[i*4+1], lenbuf[i*4+2], lenbuf[i*4+3] = byte(x>>24), byte(x>>16), byte(x>>8), byte(x)
		}
		a.h.Write(lenbuf[:])
		a.h.Write(k)
		a.h.Write(v)
		a.n++
	}
	out := map[byte]string{}
	for b, a := range accs {
		out[b] = fmt.Sprintf("%d:%s", a.n, hex.EncodeToString(a.h.Sum(nil))[:16])
	}
	return out
}

// digestDiff names the buckets whose content differs.
func digestDiff(pre, now map[byte]string) []string {
	seen := map[byte]bool{}
	var out []string
	for b, v := range pre {
		seen[b] = true
		if now[b] != v {
			out = append(out, fmt.Sprintf("%s(%s->%s)", db.Bucket(b).String(), v, orDash(now[b])))
		}
	}
	for b, v := range now {
		if !seen[b] {
			out = append(out, fmt.Sprintf("%s(-->%s)", db.Bucket(b).String(), v))
		}
	}
	sort.Strings(out)
	return out
}

func orDash(s string) string {
	if s == "" {
		return "-"
	}
	return s
}

// guarded runs a single-batch operation (store / revert) with the pre-commit views armed. It returns
// the operation's error and the description of a torn state ("" = none).
func (w *world) guarded(run func() error) (error, string) {
	pre := digest(w.inner)
	var torn []string
	_, isMem := w.inner.(*memory.Database)
	w.fd.BeforeWrite = func(cm faultdb.Commit) {
		if cm.Bytes > maxBatchBytes[w.seq.Engine] {
			maxBatchBytes[w.seq.Engine] = cm.Bytes
		}
		if cm.Kind != "batch" {
			torn = append(torn, "direct "+cm.Kind+" on the store during the operation")
			return
		}
		if d := digestDiff(pre, digest(w.inner)); len(d) > 0 {
			torn = append(torn, "engine view before the commit differs from the pre-state in "+strings.Join(d, ", "))
		}
		if !isMem {
			dir := hx.TempDir("c05pre")
			_ = removeDir(dir)
			w.dirs = append(w.dirs, dir)
			hx.Must(faultdb.Checkpoint(w.inner, dir))
			p, err := pebblev2.New(dir)
			hx.Must(err)
			if d := digestDiff(pre, digest(p)); len(d) > 0 {
				torn = append(torn, "copy of the on-disk directory taken before the commit differs from the pre-state in "+strings.Join(d, ", "))
			}
			_ = p.Close()
		}
	}
	err := run()
	w.fd.BeforeWrite = nil
	return err, strings.Join(torn, "; ")
}
