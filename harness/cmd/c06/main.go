// C06 trace-acceptance check: the real sync.Synchronizer + real Blockchain are driven by a scripted
// DataSource (per-request error / delay, stale latest header, corrupted block, reorgs of any depth at
// request-count-keyed moments, also while fetchers are in flight). Everything the node does is
// observed through the public hooks (EventListener, logger, newHeads / reorg feeds, final database),
// linearised with what the source served, and fed to the extracted Coq model as an acceptor: every
// observed store / revert / notification must be an enabled step. The property predicates
// (history_ok of Model.v, "reverted blocks are off the source's chain", final chain = source chain)
// are evaluated on the implementation's own trace.
package main

import (
	"context"
	"errors"
	"fmt"
	"os"
	"runtime"
	"strings"
	stdsync "sync"
	"time"

	"github.com/NethermindEth/juno/core"
	"github.com/NethermindEth/juno/core/felt"
	"github.com/NethermindEth/juno/starknet"
	"github.com/NethermindEth/juno/sync"
	"go.uber.org/zap"
	"verifharness/chain"
	"verifharness/hx"
)

// ---------- scripts ----------
type Action struct {
	At   int    `json:"at"`   // executed when the At-th request arrives (counted over all DataSource calls)
	Kind string `json:"kind"` // ext | reorg
	D    int    `json:"d"`    // reorg: blocks dropped from the tip
	K    int    `json:"k"`    // blocks appended
}
type Fault struct {
	At   int    `json:"at"`   // armed at this request count, consumed by the next applicable request
	Kind string `json:"kind"` // err | delay | corrupt | stale | laterr
	Arg  int    `json:"arg"`
}
type Script struct {
	Name      string   `json:"name"`
	Init      int      `json:"init"` // initial source chain length
	Actions   []Action `json:"actions"`
	Faults    []Fault  `json:"faults"`
	Procs     int      `json:"procs"`
	NewState  bool     `json:"new_state"`
	IgnoreCtx int      `json:"ignore_ctx_pct"` // how often the source answers although the request context is done
	Seed      uint64   `json:"seed"`           // yields / delays inside the data source
	StaleFork bool     `json:"stale_fork"`     // stale latest header = tip of the chain before the last reorg
	Expect    string   `json:"expect"`         // "" (converges) | "stuck" (scenario known not to converge)
	// HoldAt > 0: the first fetcher request for height HoldAt is answered only after the request for
	// HoldAt+1 has been answered (from the then-current chain) and the source has replaced every block
	// from HoldAt on: responses out of order with a reorg in between
	HoldAt int `json:"hold_at"`
	PollMs int `json:"poll_ms"` // > 0: pre-confirmed poller enabled with this interval (the source has no pre-confirmed data)
}

// ---------- the source ----------
type SBlock struct {
	B    *chain.Built
	Num  uint64
	Hash felt.Felt
	ID   int // model hash id (assigned when the block first joins the source chain)
	Par  int
}

func (b *SBlock) model(ok bool) string { return b.model2(ok, true) }

// model2: ok = passes SanityCheckNewHeight, st = Store accepts its state update
func (b *SBlock) model2(ok, st bool) string {
	o, t := 0, 0
	if ok {
		o = 1
	}
	if st {
		t = 1
	}
	return fmt.Sprintf("%d:%d:%d:%d:%d", b.Num, b.ID, b.Par, o, t)
}

type Ev struct {
	K   string
	H   uint64
	B   *SBlock
	Cor bool
	Uns bool // served copy passes the sanity checks but Store must reject it (wrong OldRoot)
	D   int
	S   felt.Felt // nreorg start hash / store hash / nhead hash
	E   felt.Felt
	SN  uint64
	EN  uint64
}

type served struct {
	b   *SBlock
	cor bool
	uns bool
	ch  chan error
	vis bool // already matched by a verify / verfail observation
}

type Run struct {
	sc  *Script
	mu  stdsync.Mutex
	log []Ev

	cur      []*SBlock // source chain, index = number
	prevTip  *SBlock   // tip before the last reorg
	all      []*SBlock
	byHash   map[felt.Felt]*SBlock
	nextID   int
	salt     uint64
	reqs     int
	ai       int
	armed    []Fault
	fi       int
	horizon  int
	rng      *hx.RNG
	fserved  []*served
	obs      []felt.Felt // observed local chain (hashes), updated in the store / revert hooks
	problems []string
	holdDone chan struct{}
	holdUsed bool
	catchUp  bool // mode announced by the last "Restarting sync process"
	inFetch  int  // fetcher requests currently inside the source
	maxFetch int
	local    *chain.Node
	nhSub    sync.NewHeadSubscription
	roSub    sync.ReorgSubscription
	pcSub    sync.PreConfirmedDataSubscription
	hist     map[string]int
}

func (r *Run) problem(f string, a ...any) {
	if len(r.problems) < 8 {
		r.problems = append(r.problems, fmt.Sprintf(f, a...))
	}
}

func spec(num uint64, salt uint64) *chain.BlockSpec {
	s := &chain.BlockSpec{Salt: salt, Timestamp: 1000 + num}
	if num == 0 {
		s.Deploy = map[uint64]uint64{0x100: 5}
	} else {
		s.Storage = map[uint64]map[uint64]uint64{0x100: {1 + num%3: 1 + (num*7+salt)%1000}}
		if num%2 == 0 {
			s.Txs = [][]chain.Ev{{{From: 0x100, Keys: []uint64{num}, Data: []uint64{salt}}}}
		}
	}
	return s
}

// build k new blocks on top of prefix with a fresh sequencer node
func (r *Run) build(prefix []*SBlock, k int) []*SBlock {
	r.salt++
	seq := chain.NewNode(nil, r.sc.NewState)
	for _, p := range prefix {
		hx.Must(seq.Store(p.B))
	}
	out := make([]*SBlock, 0, k)
	par := 0
	if len(prefix) > 0 {
		par = prefix[len(prefix)-1].ID
	}
	for i := 0; i < k; i++ {
		num := uint64(len(prefix) + i)
		b, err := seq.Finalise(spec(num, r.salt))
		hx.Must(err)
		sb := &SBlock{B: b, Num: num, Hash: *b.Block.Hash, Par: par}
		out = append(out, sb)
		par = -1 // filled when ids are assigned
	}
	return out
}

// callers hold r.mu
func (r *Run) extend(k int) {
	for _, sb := range r.build(r.cur, k) {
		r.nextID++
		sb.ID = r.nextID
		if len(r.cur) > 0 {
			sb.Par = r.cur[len(r.cur)-1].ID
		} else {
			sb.Par = 0
		}
		r.cur = append(r.cur, sb)
		r.all = append(r.all, sb)
		r.byHash[sb.Hash] = sb
		r.log = append(r.log, Ev{K: "ext", B: sb})
	}
}

func (r *Run) reorg(d, k int) {
	if d >= len(r.cur) {
		d = len(r.cur)
		if k < 2 && r.sc.Expect != "stuck" {
			k = 2 // a one-block replacement of the whole chain is the separate scenario (see findings)
		}
	}
	if len(r.cur) > 0 {
		r.prevTip = r.cur[len(r.cur)-1]
	}
	r.cur = r.cur[:len(r.cur)-d]
	r.log = append(r.log, Ev{K: "reorg", D: d})
	r.extend(k)
}

func (r *Run) applyActions() {
	for r.ai < len(r.sc.Actions) && r.sc.Actions[r.ai].At <= r.reqs {
		a := r.sc.Actions[r.ai]
		r.ai++
		switch a.Kind {
		case "ext":
			r.extend(a.K)
			r.hist["action:ext"]++
		case "reorg":
			whole := a.D >= len(r.cur)
			r.reorg(a.D, a.K)
			r.hist["action:reorg"]++
			if whole {
				r.hist["action:reorg-whole-chain"]++
			}
		}
	}
	for r.fi < len(r.sc.Faults) && r.sc.Faults[r.fi].At <= r.reqs {
		r.armed = append(r.armed, r.sc.Faults[r.fi])
		r.fi++
	}
	if r.reqs > r.horizon {
		r.armed = nil // the source is stable and honest from here on
	}
}

// take the first armed fault of one of the given kinds
func (r *Run) take(kinds ...string) *Fault {
	for i, f := range r.armed {
		for _, k := range kinds {
			if f.Kind == k {
				r.armed = append(r.armed[:i:i], r.armed[i+1:]...)
				r.hist["fault:"+k]++
				return &f
			}
		}
	}
	return nil
}

func callerKind() string {
	pcs := make([]uintptr, 32)
	n := runtime.Callers(3, pcs)
	frames := runtime.CallersFrames(pcs[:n])
	for {
		f, more := frames.Next()
		switch {
		case strings.HasSuffix(f.Function, ").isReverting"):
			return "isrev"
		case strings.HasSuffix(f.Function, ").revertTask"):
			return "revert"
		case strings.HasSuffix(f.Function, ").fetcherTask"):
			return "fetch"
		case strings.HasSuffix(f.Function, ").pollLatest"):
			return "poll"
		}
		if !more {
			return "other"
		}
	}
}

func (r *Run) yield() (ignoreCtx bool) {
	r.mu.Lock()
	x := r.rng.Intn(100)
	ign := r.rng.Intn(100) < r.sc.IgnoreCtx
	r.mu.Unlock()
	switch {
	case x < 30:
		runtime.Gosched()
	case x < 40:
		time.Sleep(time.Duration(20+x) * time.Microsecond)
	}
	return ign
}

// ---------- serving ----------
const nCorruptKinds = 5
const kindUnstorable = 6 // not a corruption: sane block, state update does not apply (wrong OldRoot)

// copyBuilt returns a fresh CommittedBlock; kind > 0 tampers one field so that SanityCheckNewHeight
// must fail while Number / ParentHash stay intact.
func copyBuilt(b *chain.Built, kind int) sync.CommittedBlock {
	h := *b.Block.Header
	blk := &core.Block{Header: &h, Transactions: b.Block.Transactions, Receipts: b.Block.Receipts}
	su := *b.Update
	switch kind {
	case 1:
		h.TransactionCount++
	case 2:
		h.Timestamp += 3
	case 3: // header hash no longer the state update's block hash
		x := new(felt.Felt).Add(h.Hash, chain.F(1))
		h.Hash = x
	case 4:
		x := new(felt.Felt).Add(su.NewRoot, chain.F(1))
		su.NewRoot = x
	case 5: // one more storage write than the block commits to
		d := *su.StateDiff
		sd := map[felt.Felt]map[felt.Felt]*felt.Felt{}
		for a, m := range d.StorageDiffs {
			sd[a] = m
		}
		sd[*chain.F(0x777)] = map[felt.Felt]*felt.Felt{*chain.F(1): chain.F(2)}
		d.StorageDiffs = sd
		su.StateDiff = &d
	case kindUnstorable: // the block hash does not cover OldRoot: passes SanityCheckNewHeight, fails in Store
		x := new(felt.Felt).Add(su.OldRoot, chain.F(0x5eed))
		su.OldRoot = x
	}
	return sync.CommittedBlock{Block: blk, StateUpdate: &su, NewClasses: b.Classes, Persisted: make(chan error, 1)}
}

type DS struct{ r *Run }

var errNotFound = errors.New("scripted source: block not found")
var errInjected = errors.New("scripted source: injected failure")

func (d DS) BlockByNumber(ctx context.Context, n uint64) (sync.CommittedBlock, error) {
	r := d.r
	kind := callerKind()
	ign := r.yield()
	if h := uint64(r.sc.HoldAt); h > 0 && kind == "fetch" && n == h {
		r.mu.Lock()
		r.holdUsed = true // a fetcher is waiting for its successor's response
		r.mu.Unlock()
		select {
		case <-r.holdDone:
		case <-ctx.Done():
		case <-time.After(2 * time.Second):
		}
		r.mu.Lock()
		r.holdUsed = false
		r.mu.Unlock()
	}
	r.mu.Lock()
	if kind == "fetch" {
		r.inFetch++
		r.maxFetch = max(r.maxFetch, r.inFetch)
		defer func() { r.mu.Lock(); r.inFetch--; r.mu.Unlock() }()
	}
	r.mu.Unlock()
	r.yield()
	r.mu.Lock()
	r.reqs++
	r.applyActions()
	if kind != "fetch" && kind != "revert" {
		r.problem("BlockByNumber from unexpected caller %q", kind)
		kind = "fetch"
	}
	fail := func(err error, pause bool) (sync.CommittedBlock, error) {
		if kind == "fetch" {
			r.log = append(r.log, Ev{K: "ferr", H: n})
		} else {
			r.log = append(r.log, Ev{K: "rferr", H: n})
		}
		r.mu.Unlock()
		if pause { // a source that has nothing new answers slowly instead of being hammered
			select {
			case <-ctx.Done():
			case <-time.After(400 * time.Microsecond):
			}
		}
		return sync.CommittedBlock{}, err
	}
	if ctx.Err() != nil && !ign {
		return fail(ctx.Err(), false)
	}
	if f := r.take("delay"); f != nil {
		r.mu.Unlock()
		select {
		case <-ctx.Done():
		case <-time.After(time.Duration(200+f.Arg%1500) * time.Microsecond):
		}
		r.mu.Lock()
	}
	if f := r.take("err"); f != nil {
		return fail(errInjected, false)
	}
	if kind == "revert" { // a failure aimed at revertTask's hash-comparison request: the walk back is interrupted
		if f := r.take("reverr"); f != nil {
			return fail(errInjected, false)
		}
	}
	if n >= uint64(len(r.cur)) {
		return fail(errNotFound, true)
	}
	sb := r.cur[n]
	if kind == "revert" {
		r.log = append(r.log, Ev{K: "rfok", H: n, B: sb})
		r.mu.Unlock()
		return copyBuilt(sb.B, 0), nil
	}
	ck := 0
	if f := r.take("corrupt"); f != nil {
		ck = 1 + f.Arg%nCorruptKinds
	} else if f := r.take("unstorable"); f != nil {
		ck = kindUnstorable
	}
	cb := copyBuilt(sb.B, ck)
	r.fserved = append(r.fserved, &served{b: sb, cor: ck != 0 && ck != kindUnstorable, uns: ck == kindUnstorable, ch: cb.Persisted})
	if ck == kindUnstorable {
		r.log = append(r.log, Ev{K: "funs", H: n, B: sb, Uns: true})
	} else if ck != 0 {
		r.log = append(r.log, Ev{K: "fcor", H: n, B: sb, Cor: true, D: ck})
	} else {
		r.log = append(r.log, Ev{K: "fok", H: n, B: sb})
	}
	if h := uint64(r.sc.HoldAt); h > 0 && n == h+1 && r.holdUsed {
		select {
		case <-r.holdDone:
		default: // the successor is out; now replace the chain from HoldAt on and release the held request
			d := len(r.cur) - int(h)
			r.reorg(d, d+1)
			r.hist["action:reorg-between-out-of-order-responses"]++
			close(r.holdDone)
		}
	}
	r.mu.Unlock()
	return cb, nil
}

func (d DS) BlockHeaderLatest(ctx context.Context) (*core.Header, error) {
	r := d.r
	kind := callerKind()
	ign := r.yield()
	r.mu.Lock()
	defer r.mu.Unlock()
	r.reqs++
	r.applyActions()
	hdr := func(sb *SBlock) *core.Header { h := *sb.B.Block.Header; return &h }
	if kind == "poll" {
		r.hist["poll-latest-calls"]++
		if len(r.cur) == 0 {
			return nil, errNotFound
		}
		return hdr(r.cur[len(r.cur)-1]), nil
	}
	if kind != "isrev" {
		r.problem("BlockHeaderLatest from unexpected caller %q", kind)
	}
	if ctx.Err() != nil && !ign {
		r.log = append(r.log, Ev{K: "laterr"})
		return nil, ctx.Err()
	}
	if f := r.take("laterr"); f != nil || len(r.cur) == 0 {
		r.log = append(r.log, Ev{K: "laterr"})
		return nil, errInjected
	}
	if f := r.take("stale"); f != nil {
		var sb *SBlock
		if r.sc.StaleFork && r.prevTip != nil {
			sb = r.prevTip // a lagging replica that is still on the abandoned fork
		} else if len(r.cur) >= 2 {
			sb = r.cur[len(r.cur)-2-f.Arg%(len(r.cur)-1)] // a lagging replica of the same chain
		}
		if sb != nil && sb != r.cur[len(r.cur)-1] {
			r.log = append(r.log, Ev{K: "stale", B: sb})
			return hdr(sb), nil
		}
	}
	sb := r.cur[len(r.cur)-1]
	r.log = append(r.log, Ev{K: "lat", B: sb})
	return hdr(sb), nil
}

func (d DS) PreConfirmedBlockByNumber(context.Context, uint64, string, uint64) (starknet.PreConfirmedUpdate, error) {
	return nil, errNotFound
}

func (d DS) PreConfirmedBlockLatest(context.Context, string, uint64) (starknet.PreConfirmedUpdate, uint64, error) {
	return nil, 0, errNotFound
}

func (d DS) Class(context.Context, *felt.Felt) (core.ClassDefinition, error) {
	return nil, errNotFound
}

// ---------- observation hooks ----------
func (r *Run) lastServed(n uint64) *served {
	for i := len(r.fserved) - 1; i >= 0; i-- {
		if s := r.fserved[i]; s.b.Num == n && !s.vis {
			return s
		}
	}
	return nil
}

func (r *Run) OnSyncStepDone(op string, n uint64, _ time.Duration) {
	switch op {
	case sync.OpVerify:
		r.mu.Lock()
		if s := r.lastServed(n); s != nil {
			s.vis = true
			r.log = append(r.log, Ev{K: "ver", H: n, B: s.b, Cor: s.cor, Uns: s.uns})
		} else {
			r.problem("verify hook for height %d without a served block", n)
		}
		r.mu.Unlock()
	case sync.OpStore:
		h, err := r.local.BC.HeadsHeader()
		r.mu.Lock()
		if err != nil || h.Number != n {
			r.log = append(r.log, Ev{K: "badstore", H: n}) // OpStore reported, block n is not the head
		} else {
			r.log = append(r.log, Ev{K: "store", H: n, S: *h.Hash})
			r.obs = append(r.obs, *h.Hash)
			if r.catchUp {
				r.hist["store:catch-up-mode"]++
			} else {
				r.hist["store:tip-following-mode"]++
			}
		}
		r.mu.Unlock()
	case sync.OpReorgCheckRemote, sync.OpReorgCheckLocal:
		// isReverting got past "localHeight+1 == nextHeight": block n-1 is committed; wait until its
		// store hook has been logged so that the log order is the causal order
		deadline := time.Now().Add(10 * time.Second)
		for {
			r.mu.Lock()
			if uint64(len(r.obs)) == n || time.Now().After(deadline) {
				if uint64(len(r.obs)) != n {
					r.problem("reorg check for height %d while %d blocks are stored", n, len(r.obs))
				}
				r.log = append(r.log, Ev{K: "chk", H: n})
				r.mu.Unlock()
				return
			}
			r.mu.Unlock()
			time.Sleep(20 * time.Microsecond)
		}
	}
}

func (r *Run) OnReorg(n uint64) {
	r.mu.Lock()
	defer r.mu.Unlock()
	r.log = append(r.log, Ev{K: "rev", H: n})
	if uint64(len(r.obs)) != n+1 {
		r.problem("revert hook for %d while %d blocks are stored", n, len(r.obs))
		return
	}
	r.obs = r.obs[:n]
}

func (r *Run) drainFeeds() {
	select {
	case ro := <-r.roSub.Recv():
		r.log = append(r.log, Ev{K: "nreorg", S: *ro.StartBlockHash, SN: ro.StartBlockNum, E: *ro.EndBlockHash, EN: ro.EndBlockNum})
	default:
	}
	select {
	case pc := <-r.pcSub.Recv():
		r.hist["pre-confirmed-notifications"]++
		if pc != nil && pc.Block != nil && pc.Block.Number < uint64(len(r.obs)) {
			r.problem("pre-confirmed notification for height %d at or below the head", pc.Block.Number)
		}
	default:
	}
	select {
	case b := <-r.nhSub.Recv():
		r.log = append(r.log, Ev{K: "nhead", H: b.Number, S: *b.Hash})
	default:
	}
}

// logger: the synchroniser's own log lines mark the moments no hook exposes
type obsLogger struct{ r *Run }

func num(fields []zap.Field, key string) (uint64, bool) {
	for _, f := range fields {
		if f.Key == key {
			return uint64(f.Integer), true
		}
	}
	return 0, false
}
func (l obsLogger) Debug(string, ...zap.Field) {}
func (l obsLogger) Trace(string, ...zap.Field) {}
func (l obsLogger) Error(msg string, _ ...zap.Field) {
	if msg == "Failed to retrieve the remote header" || msg == "Failed to retrieve the local head header" {
		return // revertTask's two expected exits: the source failed / the chain is empty
	}
	l.r.mu.Lock()
	l.r.problem("sync logged an error: %s", msg)
	l.r.mu.Unlock()
}
func (l obsLogger) Info(msg string, _ ...zap.Field) {
	if msg == "Stored Block" { // directly after reorgFeed.Send / newHeads.Send
		l.r.mu.Lock()
		l.r.drainFeeds()
		l.r.mu.Unlock()
	}
}
func (l obsLogger) Warn(msg string, fields ...zap.Field) {
	r := l.r
	r.mu.Lock()
	defer r.mu.Unlock()
	switch msg {
	case "Restarting sync process":
		r.log = append(r.log, Ev{K: "reset"})
		cu, _ := num(fields, "catchUpMode")
		r.catchUp = cu == 1
		if r.catchUp {
			r.hist["restart:catch-up-mode"]++
		} else {
			r.hist["restart:tip-following-mode"]++
		}
	case "Sanity checks failed":
		n, _ := num(fields, "number")
		if s := r.lastServed(n); s != nil {
			s.vis = true
			r.log = append(r.log, Ev{K: "verfail", H: n, B: s.b, Cor: s.cor, Uns: s.uns})
		} else {
			r.problem("sanity failure for height %d without a served block", n)
		}
	case "Failed storing Block":
		n, _ := num(fields, "number")
		r.log = append(r.log, Ev{K: "sfail", H: n})
	case "Failed reverting HEAD":
		r.problem("RevertHead failed inside revertTask")
	}
}

// ---------- one run ----------
func sameChain(obs []felt.Felt, cur []*SBlock) bool {
	if len(obs) != len(cur) {
		return false
	}
	for i := range obs {
		if obs[i] != cur[i].Hash {
			return false
		}
	}
	return true
}

type outcome struct {
	r         *Run
	converged bool
	hang      bool
	final     []felt.Felt
	wall      time.Duration
}

func runScript(sc *Script) *outcome {
	prev := runtime.GOMAXPROCS(sc.Procs)
	defer runtime.GOMAXPROCS(prev)
	start := time.Now()
	r := &Run{sc: sc, byHash: map[felt.Felt]*SBlock{}, rng: hx.NewRNG(sc.Seed), hist: map[string]int{}, holdDone: make(chan struct{})}
	r.local = chain.NewNode(nil, sc.NewState)
	for _, a := range sc.Actions {
		r.horizon = max(r.horizon, a.At)
	}
	for _, f := range sc.Faults {
		r.horizon = max(r.horizon, f.At)
	}
	r.horizon += 12 // faults armed last still get a few requests to hit
	r.mu.Lock()
	r.extend(sc.Init)
	r.mu.Unlock()
	syn := sync.New(r.local.BC, DS{r}, obsLogger{r}, time.Duration(sc.PollMs)*time.Millisecond, false, r.local.DB).WithListener(r)
	if sc.PollMs > 0 {
		r.hist["pre-confirmed-poller-enabled"]++
	}
	r.nhSub = syn.SubscribeNewHeads()
	r.roSub = syn.SubscribeReorg()
	r.pcSub = syn.SubscribePreConfirmed()
	ctx, cancel := context.WithCancel(context.Background())
	done := make(chan struct{})
	go func() { _ = syn.Run(ctx); close(done) }()

	o := &outcome{r: r}
	limit := 40 * time.Second
	convAt := -1
	for {
		r.mu.Lock()
		stable := r.reqs > r.horizon && r.ai == len(sc.Actions)
		conv := stable && sameChain(r.obs, r.cur)
		reqs := r.reqs
		r.mu.Unlock()
		if conv && convAt < 0 {
			convAt = reqs
		}
		if !conv {
			convAt = -1
		}
		if conv && reqs >= convAt+6 { // a few idle polling rounds after convergence are part of the trace
			o.converged = true
			break
		}
		if sc.Expect == "stuck" && stable && reqs > r.horizon+400 {
			break
		}
		if time.Since(start) > limit {
			break
		}
		time.Sleep(200 * time.Microsecond)
	}
	cancel()
	select {
	case <-done:
	case <-time.After(30 * time.Second):
		o.hang = true
	}
	r.mu.Lock()
	r.drainFeeds()
	r.mu.Unlock()
	r.nhSub.Unsubscribe()
	r.roSub.Unsubscribe()
	r.pcSub.Unsubscribe()
	if h, err := r.local.BC.Height(); err == nil {
		for i := uint64(0); i <= h; i++ {
			hd, err := r.local.BC.BlockHeaderByNumber(i)
			if err != nil {
				r.problem("final chain: header %d unreadable: %v", i, err)
				break
			}
			o.final = append(o.final, *hd.Hash)
		}
	}
	o.wall = time.Since(start)
	return o
}

// ---------- analysis: acceptor + predicates ----------
type finding struct {
	class, what string
	noInput     bool
}

func revIDs(l []*SBlock) string {
	if len(l) == 0 {
		return "-"
	}
	p := make([]string, 0, len(l))
	for i := len(l) - 1; i >= 0; i-- {
		p = append(p, fmt.Sprint(l[i].ID))
	}
	return strings.Join(p, ",")
}

func field(line, key string) string {
	for _, w := range strings.Fields(line) {
		if strings.HasPrefix(w, key+"=") {
			return w[len(key)+1:]
		}
	}
	return ""
}

func analyse(or *hx.Oracle, o *outcome) (fs []finding, stats map[string]int, modelEvents []string) {
	r := o.r
	stats = map[string]int{}
	add := func(class, what string, noInput bool) { fs = append(fs, finding{class, what, noInput}) }
	for _, p := range r.problems {
		add("observation-inconsistent", p, true)
	}
	if o.hang {
		add("shutdown-hang", "Run did not return within 30 s after cancel", false)
	}
	or.Ask("new", 1)
	var msrc, mloc []*SBlock
	type verEnt struct {
		b   *SBlock
		uns bool
	}
	lastVer := map[uint64]*verEnt{}
	var ilog, itr []string
	var inferred []*SBlock
	cause := ""
	genMax := uint64(0) // highest height answered to a fetcher in the current stream generation
	nStore := 0
	rejected := false
	send := func(i int, ev string) bool {
		modelEvents = append(modelEvents, ev)
		if or.Ask("ev "+ev, 1)[0] == "ok" {
			return true
		}
		q := or.Ask("q", 1)[0]
		add("acceptor-rejects:"+strings.Fields(ev)[0], fmt.Sprintf("log entry %d: event %q is not enabled in the model (%s)", i, ev, q), true)
		rejected = true
		return false
	}
	ensureRevert := func(i int) bool {
		if field(or.Ask("q", 1)[0], "rv") != "idle" {
			return true
		}
		cand := lastVer[uint64(len(mloc))]
		if cand == nil {
			add("revert-without-cause", fmt.Sprintf("log entry %d: revertTask acts but no reorg check succeeded and no verified block is waiting for height %d", i, len(mloc)), false)
			rejected = true
			return false
		}
		inferred = append(inferred, cand.b)
		stats["store-parent-mismatch"]++
		cause = "successor-on-source"
		if int(cand.b.Num) >= len(msrc) || msrc[cand.b.Num] != cand.b {
			cause = "successor-replaced" // the verified successor is itself no longer on the source's chain
		}
		return send(i, "mism "+cand.b.model2(true, !cand.uns))
	}
	for i, e := range r.log {
		if rejected {
			break
		}
		stats["ev:"+e.K]++
		switch e.K {
		case "ext":
			send(i, "ext")
			msrc = append(msrc, e.B)
		case "reorg":
			send(i, fmt.Sprintf("reorg %d", e.D))
			msrc = msrc[:len(msrc)-e.D]
		case "fok", "ferr", "fcor":
			send(i, fmt.Sprintf("%s %d", e.K, e.H))
			if e.K != "ferr" {
				if e.H < genMax {
					stats["out-of-order-fetch-completion"]++
				}
				genMax = max(genMax, e.H)
			}
		case "chk":
			send(i, fmt.Sprintf("%s %d", e.K, e.H))
			cause = "latest-header"
		case "lat", "laterr":
			send(i, e.K)
		case "stale":
			send(i, "stale "+e.B.model(true))
		case "ver":
			if send(i, "ver "+e.B.model2(!e.Cor, !e.Uns)) && !e.Cor {
				lastVer[e.H] = &verEnt{e.B, e.Uns}
			}
		case "verfail":
			send(i, "verfail "+e.B.model2(!e.Cor, !e.Uns))
		case "funs":
			send(i, fmt.Sprintf("funs %d", e.H))
		case "sfail": // Store failed for a reason other than the parent hash: nothing may follow from it
			if v := lastVer[e.H]; v != nil {
				send(i, "sfail "+v.b.model2(true, !v.uns))
				if v.uns {
					stats["store-rejected-unstorable-copy"]++
				}
			}
		case "badstore":
			add("store-reported-for-block-not-in-database", fmt.Sprintf("log entry %d: OpStore reported for block %d but the database head is not that block", i, e.H), false)
		case "store":
			sb := r.byHash[e.S]
			if sb == nil {
				add("stored-unknown-block", fmt.Sprintf("log entry %d: stored block %d has a hash the source never served", i, e.H), false)
				rejected = true
				break
			}
			// the property's own predicate, on the implementation's trace
			v := lastVer[e.H]
			if v != nil && v.b == sb && v.uns {
				add("stored-block-whose-state-update-does-not-apply", fmt.Sprintf("log entry %d: block %d stored from a copy with a wrong OldRoot", i, e.H), false)
			}
			if v == nil || v.b != sb {
				add("stored-unverified-block", fmt.Sprintf("log entry %d: block %d stored without a preceding successful verification of that block", i, e.H), false)
			}
			if uint64(len(mloc)) != sb.Num || (len(mloc) > 0 && *sb.B.Block.ParentHash != mloc[len(mloc)-1].Hash) {
				add("stored-not-extending-head", fmt.Sprintf("log entry %d: block %d stored on a head it does not extend", i, e.H), false)
			}
			send(i, "store "+sb.model2(true, v == nil || v.b != sb || !v.uns))
			mloc = append(mloc, sb)
			ilog = append(ilog, "a="+sb.model(true))
			nStore++
		case "rfok", "rferr":
			if ensureRevert(i) {
				send(i, e.K)
			}
		case "rev":
			if !ensureRevert(i) {
				break
			}
			send(i, "rev")
			if len(mloc) == 0 || mloc[len(mloc)-1].Num != e.H {
				add("revert-not-of-head", fmt.Sprintf("log entry %d: revert hook for %d but the head is different", i, e.H), false)
				rejected = true
				break
			}
			b := mloc[len(mloc)-1]
			mloc = mloc[:len(mloc)-1]
			ilog = append(ilog, "r="+b.model(true))
			if int(b.Num) < len(msrc) && msrc[b.Num] == b {
				stats["revert-of-live-block"]++
				stats["live:"+cause]++
			}
		case "reset":
			if field(or.Ask("q", 1)[0], "rv") == "run" {
				if !send(i, "rstop") {
					break
				}
			}
			send(i, "reset")
			genMax = 0
		case "nreorg":
			s, en := r.byHash[e.S], r.byHash[e.E]
			if s == nil || en == nil || s.Num != e.SN || en.Num != e.EN {
				add("reorg-notification-unknown-block", fmt.Sprintf("log entry %d", i), false)
				rejected = true
				break
			}
			send(i, "nreorg")
			itr = append(itr, "g="+s.model(true)+"="+en.model(true))
		case "nhead":
			sb := r.byHash[e.S]
			if sb == nil {
				add("newhead-notification-unknown-block", fmt.Sprintf("log entry %d", i), false)
				rejected = true
				break
			}
			// every new-head notification is for a block that is in the local chain at its height when
			// the notification is sent (it can only disappear later through a reverted range)
			if int(sb.Num) >= len(mloc) || mloc[sb.Num] != sb {
				add("newhead-for-block-not-in-local-chain", fmt.Sprintf("log entry %d: new-head notification for block %d which is not in the node's chain (height %d)", i, sb.Num, len(mloc)), false)
			}
			send(i, "nhead")
			itr = append(itr, "h="+sb.model(true))
		}
	}
	stats["log-entries"] = len(r.log)
	stats["max-fetchers-in-flight"] = r.maxFetch
	if os.Getenv("C06_DEBUG") != "" {
		for i, e := range r.log {
			if e.K != "ext" {
				fmt.Fprintf(os.Stderr, "%d:%s:%d ", i, e.K, e.H)
			}
		}
		fmt.Fprintln(os.Stderr)
	}
	if rejected {
		return
	}
	// model's final state vs the observed one
	q := or.Ask("q", 1)[0]
	if field(q, "loc") != revIDs(mloc) || field(q, "src") != revIDs(r.cur) || field(q, "obox") != "0" {
		add("model-state-differs", fmt.Sprintf("model %s ; observed loc=%s src=%s", q, revIDs(mloc), revIDs(r.cur)), true)
	}
	// database = observed chain
	dbOK := len(o.final) == len(mloc)
	for i := 0; dbOK && i < len(mloc); i++ {
		dbOK = o.final[i] == mloc[i].Hash
	}
	if !dbOK {
		add("database-differs-from-observed-stores", fmt.Sprintf("db has %d blocks, hooks say %d", len(o.final), len(mloc)), false)
	}
	// history_ok (Model.v) on the implementation's own history
	fin := make([]string, 0, len(mloc))
	for i := len(mloc) - 1; i >= 0; i-- {
		fin = append(fin, mloc[i].model(true))
	}
	j := func(l []string) string {
		if len(l) == 0 {
			return "-"
		}
		return strings.Join(l, ",")
	}
	if or.Ask("pred "+j(fin)+"|"+j(ilog)+"|"+j(itr), 1)[0] != "t" {
		add("history-predicate-fails", "history_ok(final chain, mutation log, notification trace) = false: "+j(ilog)+" | "+j(itr), false)
	}
	// Persisted outcomes of every block handed to a fetcher
	nNil, nMis := 0, 0
	for _, s := range r.fserved {
		select {
		case err := <-s.ch:
			switch {
			case err == nil:
				nNil++
				if s.cor {
					add("corrupt-block-persisted", fmt.Sprintf("tampered copy of block %d reported as persisted", s.b.Num), false)
				}
			case strings.Contains(err.Error(), "parent hash does not match"):
				nMis++
			}
		default:
		}
	}
	if nNil != nStore {
		add("persisted-count-differs", fmt.Sprintf("%d blocks reported persisted, %d store hooks", nNil, nStore), true)
	}
	if nMis != len(inferred) {
		add("parent-mismatch-count-differs", fmt.Sprintf("%d ErrParentDoesNotMatchHead outcomes, %d inferred from revert activity", nMis, len(inferred)), true)
	}
	return
}

// ---------- generation ----------
func genScript(rng *hx.RNG, idx int) *Script {
	sc := &Script{Name: fmt.Sprintf("gen-%d", idx), Init: 1 + rng.Intn(10), NewState: rng.Bool(), Seed: rng.U64()}
	if rng.Chance(25) {
		sc.Init = 12 + rng.Intn(24) // long enough to enter catch-up mode (several fetchers) also with 16 procs
	}
	if rng.Chance(50) {
		sc.IgnoreCtx = 10 + rng.Intn(60)
	}
	if rng.Chance(30) {
		sc.PollMs = 1 + rng.Intn(3)
	}
	at := 0
	for i, n := 0, rng.Intn(6); i < n; i++ {
		at += 1 + rng.Intn(30)
		if rng.Chance(50) {
			sc.Actions = append(sc.Actions, Action{At: at, Kind: "ext", K: 1 + rng.Intn(4)})
			continue
		}
		d := 1 + rng.Intn(6)
		if rng.Chance(18) {
			d = 1 << 20 // the whole chain, genesis included
		}
		sc.Actions = append(sc.Actions, Action{At: at, Kind: "reorg", D: d, K: 1 + rng.Intn(min(d, 6)+2)})
	}
	kinds := []string{"err", "err", "err", "delay", "delay", "corrupt", "corrupt", "stale", "stale", "laterr", "unstorable", "unstorable", "unstorable", "reverr", "reverr"}
	nf := rng.Intn(10)
	ats := make([]int, nf)
	for i := range ats {
		ats[i] = rng.Intn(at + 25)
	}
	for i := range ats { // insertion sort
		for j := i; j > 0 && ats[j] < ats[j-1]; j-- {
			ats[j], ats[j-1] = ats[j-1], ats[j]
		}
	}
	for _, a := range ats {
		sc.Faults = append(sc.Faults, Fault{At: a, Kind: kinds[rng.Intn(len(kinds))], Arg: rng.Intn(1 << 16)})
	}
	return sc
}

// deterministic scenarios for the two behaviours the model's proofs need a hypothesis for
func scenarios() []*Script {
	return []*Script{
		{Name: "stale-head-from-abandoned-fork", Init: 6, NewState: true, Seed: 7, StaleFork: true,
			Actions: []Action{{At: 40, Kind: "reorg", D: 3, K: 3}},
			Faults:  []Fault{{At: 90, Kind: "stale"}}},
		{Name: "tip-following", Init: 3, NewState: false, Seed: 3, PollMs: 1,
			Actions: []Action{{At: 30, Kind: "ext", K: 1}, {At: 45, Kind: "ext", K: 1}, {At: 60, Kind: "ext", K: 1},
				{At: 75, Kind: "ext", K: 1}, {At: 90, Kind: "reorg", D: 1, K: 1}, {At: 105, Kind: "ext", K: 1}}},
		// a copy with a wrong OldRoot passes the sanity checks and is rejected by Store: while following
		// the tip, right after a reorg (currReorg pending) and in catch-up mode
		{Name: "store-rejects-state-update", Init: 4, NewState: false, Seed: 13,
			Actions: []Action{{At: 30, Kind: "ext", K: 1}, {At: 50, Kind: "reorg", D: 2, K: 3}, {At: 80, Kind: "ext", K: 2}},
			Faults: []Fault{{At: 2, Kind: "unstorable"}, {At: 30, Kind: "unstorable"}, {At: 50, Kind: "unstorable"},
				{At: 52, Kind: "unstorable"}, {At: 80, Kind: "unstorable"}}},
		{Name: "store-rejects-state-update-catch-up", Init: 30, NewState: true, Seed: 17,
			Faults: []Fault{{At: 5, Kind: "unstorable"}, {At: 12, Kind: "unstorable"}, {At: 25, Kind: "unstorable"}}},
		// the walk back of a depth-3 reorg is interrupted (comparison request fails once) and resumed by a
		// second revertTask: one reorg notification must still cover the whole reverted range
		{Name: "interrupted-revert-walk", Init: 6, NewState: true, Seed: 19,
			Actions: []Action{{At: 40, Kind: "reorg", D: 3, K: 4}},
			Faults:  []Fault{{At: 40, Kind: "reverr"}}},
		{Name: "interrupted-revert-walk-twice", Init: 9, NewState: false, Seed: 23,
			Actions: []Action{{At: 50, Kind: "reorg", D: 5, K: 6}},
			Faults:  []Fault{{At: 50, Kind: "reverr"}, {At: 51, Kind: "reverr"}}},
		{Name: "catch-up", Init: 48, NewState: true, Seed: 5,
			Faults: []Fault{{At: 20, Kind: "delay", Arg: 900}, {At: 40, Kind: "delay", Arg: 1400}}},
		{Name: "reorg-between-out-of-order-responses", Init: 12, NewState: true, Seed: 11, HoldAt: 6, Procs: 4},
		{Name: "whole-chain-reorg-to-single-block", Init: 4, NewState: true, Seed: 9, Expect: "stuck",
			Actions: []Action{{At: 40, Kind: "reorg", D: 4, K: 1}}},
	}
}

const (
	classLiveRevertStale    = "revert-of-block-still-on-source:stale-latest-header-from-abandoned-fork"
	classLiveRevert         = "revert-of-block-still-on-source"
	classLiveRevertInFlight = "revert-of-block-still-on-source:in-flight-successor-from-replaced-chain"
	classStuckWrap          = "no-convergence:source-height-0-remoteHeight-minus-1-wraps"
	classNoConv             = "no-convergence"
)

func evaluate(c *hx.Ctx, or *hx.Oracle, sc *Script) []finding {
	o := runScript(sc)
	fs, stats, _ := analyse(or, o)
	r := o.r
	accepted := true
	for _, f := range fs {
		if strings.HasPrefix(f.class, "acceptor-rejects") {
			accepted = false
		}
	}
	if n := stats["revert-of-live-block"]; n > 0 {
		cl := classLiveRevert
		switch {
		case stats["live:successor-replaced"] == n:
			cl = classLiveRevertInFlight
		case sc.StaleFork && r.hist["fault:stale"] > 0 && stats["live:latest-header"] == n:
			cl = classLiveRevertStale
		}
		fs = append(fs, finding{cl, fmt.Sprintf("%d block(s) reverted while the source still had them at that height", n), false})
	}
	srcIsLen1 := len(r.cur) == 1 && len(o.final) >= 2 && o.final[0] != r.cur[0].Hash
	switch {
	case sc.Expect == "stuck":
		fair := or.Ask("fair 4000", 1)[0]
		if !o.converged && srcIsLen1 && strings.HasPrefix(fair, "stuck") {
			fs = append(fs, finding{classStuckWrap, fmt.Sprintf("source stable at a single (different) genesis block, node keeps %d blocks; model scheduler: %s", len(o.final), fair), false})
		} else if accepted {
			fs = append(fs, finding{"scenario-outcome-changed", fmt.Sprintf("%s: converged=%v model=%s", sc.Name, o.converged, fair), true})
		}
	case !o.converged && !o.hang:
		cl := classNoConv
		if srcIsLen1 {
			cl = classStuckWrap
		}
		fs = append(fs, finding{cl, fmt.Sprintf("source stable with %d blocks, node has %d blocks after %.1fs", len(r.cur), len(o.final), o.wall.Seconds()), false})
	case o.converged && accepted:
		if fair := or.Ask("fair 10", 1)[0]; fair != "conv 0" {
			fs = append(fs, finding{"model-not-converged", "implementation converged, model state says " + fair, true})
		}
	}
	for k, v := range r.hist {
		c.Hist[k] += v
	}
	for k, v := range stats {
		if strings.HasPrefix(k, "ev:") || k == "store-parent-mismatch" || k == "out-of-order-fetch-completion" || k == "store-rejected-unstorable-copy" {
			c.Hist[k] += v
		}
	}
	c.Hist[fmt.Sprintf("fetchers-in-flight:%d", stats["max-fetchers-in-flight"])]++
	c.Hist[fmt.Sprintf("procs:%d", sc.Procs)]++
	c.Hist[fmt.Sprintf("new_state:%v", sc.NewState)]++
	nontrivial := stats["ev:rev"] > 0 || stats["ev:verfail"] > 0 || stats["ev:stale"] > 0 || stats["ev:ferr"] > 3
	c.Count(fmt.Sprintf("%s/p%d", sc.Name, sc.Procs), nontrivial)
	c.Sample(map[string]any{"script": sc.Name, "procs": sc.Procs, "log_entries": stats["log-entries"],
		"stores": stats["ev:store"], "reverts": stats["ev:rev"], "reorg_notifications": stats["ev:nreorg"],
		"converged": o.converged, "wall_ms": o.wall.Milliseconds()})
	return fs
}

func selfTestCorruption(c *hx.Ctx) {
	n := chain.NewNode(nil, true)
	b0, err := n.Finalise(spec(0, 1))
	hx.Must(err)
	b1, err := n.Finalise(spec(1, 1))
	hx.Must(err)
	v := chain.NewNode(nil, true)
	hx.Must(v.Store(b0))
	g := copyBuilt(b1, 0)
	if _, err := v.BC.SanityCheckNewHeight(g.Block, g.StateUpdate, g.NewClasses); err != nil {
		hx.Fatalf("untampered copy fails the sanity check: %v", err)
	}
	for k := 1; k <= nCorruptKinds; k++ {
		t := copyBuilt(b1, k)
		if _, err := v.BC.SanityCheckNewHeight(t.Block, t.StateUpdate, t.NewClasses); err == nil {
			// not a harness problem: the genuine block 1 was verified a moment ago (and not stored); a copy with one
			// committed field altered now passes verification - a block that did not pass full verification can be stored
			c.Violation(fmt.Sprintf("verification:tampered-block-passes-sanity-check-after-genuine-one:kind-%d", k),
				fmt.Sprintf("follower at head 0: SanityCheckNewHeight(genuine block 1) ok (block not stored), then SanityCheckNewHeight(copy of block 1 with corruption kind %d: 1 tx count, 2 timestamp, 3 header hash, 4 new root, 5 extra storage write) returns no error", k),
				map[string]any{"self_test": "verify-genuine-then-tampered", "kind": k}, false)
		}
		if *t.Block.ParentHash != *b1.Block.ParentHash || t.Block.Number != 1 {
			hx.Fatalf("corruption kind %d alters linkage fields", k)
		}
	}
	for _, newState := range []bool{false, true} { // the unstorable copy: sane, rejected by Store, database untouched
		sq := chain.NewNode(nil, newState)
		c0, err := sq.Finalise(spec(0, 1))
		hx.Must(err)
		c1, err := sq.Finalise(spec(1, 1))
		hx.Must(err)
		w := chain.NewNode(nil, newState)
		hx.Must(w.Store(c0))
		u := copyBuilt(c1, kindUnstorable)
		cm, err := w.BC.SanityCheckNewHeight(u.Block, u.StateUpdate, u.NewClasses)
		if err != nil {
			hx.Fatalf("the wrong-OldRoot copy fails the sanity check (new_state=%v): %v", newState, err)
		}
		err = w.BC.Store(u.Block, cm, u.StateUpdate, u.NewClasses)
		if err == nil || strings.Contains(err.Error(), "parent hash does not match") {
			hx.Fatalf("the wrong-OldRoot copy is not rejected by Store as expected (new_state=%v): %v", newState, err)
		}
		if h, err := w.BC.Height(); err != nil || h != 0 {
			hx.Fatalf("a rejected Store moved the head (new_state=%v)", newState)
		}
		hx.Must(w.Store(c1)) // and the genuine copy is still storable afterwards
	}
}

func main() {
	c := hx.NewCtx("C06")
	or := hx.StartOracle(c.OraclePath)
	defer or.Close()
	selfTestCorruption(c)
	report := func(sc *Script, fs []finding) {
		for _, f := range fs {
			c.Violation(f.class, fmt.Sprintf("script %s procs=%d: %s", sc.Name, sc.Procs, f.what), sc, f.noInput)
		}
	}
	if c.ReplayIn != "" {
		var sc Script
		c.LoadReplay(&sc)
		report(&sc, evaluate(c, or, &sc))
		c.Finish("replay")
	}
	rng := hx.NewRNG(c.Seed)
	nScripts, procSets := 40, [][]int{{1, 4}, {2, 16}, {8, 1}, {4, 16}}
	if c.Thorough() {
		nScripts, procSets = 400, [][]int{{1, 2, 4, 8, 16}}
	}
	for _, sc := range scenarios() {
		for _, p := range []int{1, 4} {
			if sc.Procs != 0 && sc.Procs != p {
				continue
			}
			s := *sc
			s.Procs = p
			fs := evaluate(c, or, &s)
			// the out-of-order scenario needs two fetchers in flight at the held height: search a few schedules
			for try := 0; sc.HoldAt > 0 && len(fs) == 0 && try < 14; try++ {
				s.Seed++
				fs = evaluate(c, or, &s)
			}
			report(&s, fs)
		}
	}
	for i := 0; i < nScripts; i++ {
		sc := genScript(rng, i)
		for _, p := range procSets[i%len(procSets)] {
			s := *sc
			s.Procs = p
			fs := evaluate(c, or, &s)
			if len(fs) > 0 {
				fs = shrink(c, or, &s, fs)
			}
			report(&s, fs)
		}
	}
	multi := 0
	for k, v := range c.Hist {
		var n int
		if _, err := fmt.Sscanf(k, "fetchers-in-flight:%d", &n); err == nil && n >= 2 {
			multi += v
		}
	}
	c.Extra["pipeline_coverage"] = map[string]int{
		"runs_with_2_or_more_fetchers_in_flight": multi,
		"out_of_order_fetch_completions":         c.Hist["out-of-order-fetch-completion"],
		"stores_in_catch_up_mode":                c.Hist["store:catch-up-mode"],
		"stores_in_tip_following_mode":           c.Hist["store:tip-following-mode"],
		"restarts_into_catch_up_mode":            c.Hist["restart:catch-up-mode"],
		"restarts_into_tip_following_mode":       c.Hist["restart:tip-following-mode"],
		"runs_with_pre_confirmed_poller":         c.Hist["pre-confirmed-poller-enabled"],
		"poll_latest_calls":                      c.Hist["poll-latest-calls"],
	}
	if multi == 0 || c.Hist["out-of-order-fetch-completion"] == 0 || c.Hist["store:catch-up-mode"] == 0 ||
		c.Hist["store:tip-following-mode"] == 0 || c.Hist["pre-confirmed-poller-enabled"] == 0 {
		c.Violation("generator-degenerate", fmt.Sprintf("a pipeline mode was not exercised in this run: %v", c.Extra["pipeline_coverage"]), nil, true)
	}
	c.Extra["model_events"] = "SrcExtend SrcReorg FetchOk FetchErr FetchCorrupt FetchUnstorable FetchLatest FetchStaleHead FetchLatestErr ReorgCheck Verify VerifyFail StoreOk StoreParentMismatch StoreFail RevFetchOk RevFetchErr RevertOne RevertStop Reset NotifyReorg NotifyNewHead"
	c.Finish("every observed store/revert/notification is an enabled step of the extracted model given what the scripted source served; history_ok on the implementation's trace; final chain = source chain")
}

// shrink: drop actions / faults one at a time while a finding of the same class persists
func shrink(c *hx.Ctx, or *hx.Oracle, sc *Script, fs []finding) []finding {
	class := fs[0].class
	has := func(x []finding) bool {
		for _, f := range x {
			if f.class == class {
				return true
			}
		}
		return false
	}
	budget := 10
	for i := 0; i < len(sc.Faults) && budget > 0; {
		t := *sc
		t.Faults = append(append([]Fault{}, sc.Faults[:i]...), sc.Faults[i+1:]...)
		budget--
		if g := evaluate(c, or, &t); has(g) {
			sc.Faults, fs = t.Faults, g
		} else {
			i++
		}
	}
	for i := len(sc.Actions) - 1; i >= 0 && budget > 0; i-- {
		t := *sc
		t.Actions = append([]Action{}, sc.Actions[:i]...)
		budget--
		if g := evaluate(c, or, &t); has(g) {
			sc.Actions, fs = t.Actions, g
		}
	}
	return fs
}
