// CBOR tie of C07: the item codec itself (coq/theories/C07/Cbor.v) against encoder.Marshal /
// encoder.Unmarshal.
//
// Shapes: the Go types of the stored values are turned, by reflection with fxamacker's rules (visible
// fields through the translator package, cbor.Marshaler / BinaryMarshaler / byte arrays / interface
// values with registry tags), into the model's [ty]; the shapes written in Shapes.v must equal the
// derived ones (class cbor:shape-drift). Values are rendered by reflection along the same shape.
//
// Typed stream: encoder.Marshal(v) must equal the model's marshal t v byte for byte; what the real
// decoder makes of the bytes, rendered again, must equal v and the model's unmarshal. Structured
// mutations (truncation at every offset, dropped field, field set to null, swapped pairs, trailing
// byte) are decoded by both.
//
// Item stream: arbitrary data items; valid (encoded by the real encoder from Go values), a fixed probe
// list (limits, nesting, non-canonical heads, indefinite lengths, floats / simple values, reserved
// additional information, built-in tags) and byte mutations. Accept / reject verdict and remaining
// bytes of decMode.UnmarshalFirst into a cbor.RawMessage against the model's decode; every
// disagreement is classified with a lenient scanner.
package main

import (
	"bytes"
	"encoding"
	"encoding/binary"
	"encoding/hex"
	"fmt"
	"math"
	"os"
	"reflect"
	"sort"
	"strconv"
	"strings"
	"time"

	"github.com/NethermindEth/juno/core"
	"github.com/NethermindEth/juno/core/felt"
	"github.com/NethermindEth/juno/encoder"
	"github.com/fxamacker/cbor/v2"
	"verifharness/cmd/c07gen/layouts"
	"verifharness/hx"
)

// ---------- shapes ----------
type shape struct {
	k      byte // u b s o a y f p l m S I
	bits   int
	n      int
	elem   *shape
	key    *shape
	fields []sfield
	alts   []salt
}
type sfield struct {
	key    string
	keyInt bool
	omit   bool
	t      *shape
	idx    []int
}
type salt struct {
	tag uint64
	t   *shape
	rt  reflect.Type // the registered struct type
}

var (
	cborMarshalerT = reflect.TypeOf((*cbor.Marshaler)(nil)).Elem()
	binMarshalerT  = reflect.TypeOf((*encoding.BinaryMarshaler)(nil)).Elem()
	transactionT   = reflect.TypeOf((*core.Transaction)(nil)).Elem()
	txStructs      = []reflect.Type{
		reflect.TypeOf(core.DeclareTransaction{}), reflect.TypeOf(core.DeployTransaction{}),
		reflect.TypeOf(core.InvokeTransaction{}), reflect.TypeOf(core.L1HandlerTransaction{}),
		reflect.TypeOf(core.DeployAccountTransaction{}),
	}
	shapeCache = map[reflect.Type]*shape{}
)

func implEither(t, iface reflect.Type) bool {
	return t.Implements(iface) || reflect.PointerTo(t).Implements(iface)
}

// registryTag: the tag number the real encoder puts around a value of the registered struct type
func registryTag(t reflect.Type) (uint64, error) {
	b, err := encoder.Marshal(reflect.New(t).Interface())
	if err != nil {
		return 0, err
	}
	h, ok := scanHead(b)
	if !ok || h.major != 6 {
		return 0, fmt.Errorf("%s: the encoder does not tag the value (first byte %#x)", t, b[0])
	}
	return h.arg, nil
}

func deriveShape(t reflect.Type) (*shape, error) {
	if s, ok := shapeCache[t]; ok {
		return s, nil
	}
	s, err := deriveShape1(t)
	if err == nil {
		shapeCache[t] = s
	}
	return s, err
}

func deriveShape1(t reflect.Type) (*shape, error) {
	if t.Kind() == reflect.Array && t.Len() == 4 && t.Elem().Kind() == reflect.Uint64 {
		return &shape{k: 'f'}, nil // felt.Felt and its named copies: the four limbs as uints
	}
	if t.Kind() != reflect.Interface && t.Kind() != reflect.Pointer && implEither(t, cborMarshalerT) {
		return nil, fmt.Errorf("%s: custom cbor.Marshaler outside the translator's subset", t)
	}
	if t.Kind() == reflect.Struct && implEither(t, binMarshalerT) {
		return &shape{k: 'o'}, nil
	}
	switch t.Kind() {
	case reflect.Bool:
		return &shape{k: 'b'}, nil
	case reflect.Uint8:
		return &shape{k: 'u', bits: 8}, nil
	case reflect.Uint16:
		return &shape{k: 'u', bits: 16}, nil
	case reflect.Uint32:
		return &shape{k: 'u', bits: 32}, nil
	case reflect.Uint64, reflect.Uint:
		return &shape{k: 'u', bits: 64}, nil
	case reflect.String:
		return &shape{k: 's'}, nil
	case reflect.Pointer:
		e, err := deriveShape(t.Elem())
		if err != nil {
			return nil, err
		}
		return &shape{k: 'p', elem: e}, nil
	case reflect.Slice:
		if t.Elem().Kind() == reflect.Uint8 {
			return &shape{k: 'y'}, nil
		}
		e, err := deriveShape(t.Elem())
		if err != nil {
			return nil, err
		}
		return &shape{k: 'l', elem: e}, nil
	case reflect.Array:
		if t.Elem().Kind() == reflect.Uint8 {
			return &shape{k: 'a', n: t.Len()}, nil
		}
		return nil, fmt.Errorf("%s: arrays other than [n]byte and felts are outside the translator's subset", t)
	case reflect.Map:
		k, err := deriveShape(t.Key())
		if err != nil {
			return nil, err
		}
		e, err := deriveShape(t.Elem())
		if err != nil {
			return nil, err
		}
		return &shape{k: 'm', key: k, elem: e}, nil
	case reflect.Struct:
		fs, err := layouts.Collect(t)
		if err != nil {
			return nil, err
		}
		s := &shape{k: 'S'}
		for _, f := range fs {
			ft, err := deriveShape(t.FieldByIndex(f.Index()).Type)
			if err != nil {
				return nil, fmt.Errorf("%s.%s: %w", t, f.Go, err)
			}
			for _, ch := range f.Key {
				if !(ch == '_' || ch == '-' || ch >= '0' && ch <= '9' || ch >= 'a' && ch <= 'z' || ch >= 'A' && ch <= 'Z') {
					return nil, fmt.Errorf("%s.%s: key %q outside the translator's subset", t, f.Go, f.Key)
				}
			}
			s.fields = append(s.fields, sfield{key: f.Key, keyInt: f.KeyInt, omit: f.OmitEmpty, t: ft, idx: f.Index()})
		}
		return s, nil
	case reflect.Interface:
		if t != transactionT {
			return nil, fmt.Errorf("%s: interface type outside the translator's subset", t)
		}
		s := &shape{k: 'I'}
		for _, rt := range txStructs {
			tag, err := registryTag(rt)
			if err != nil {
				return nil, err
			}
			at, err := deriveShape(rt)
			if err != nil {
				return nil, err
			}
			s.alts = append(s.alts, salt{tag: tag, t: at, rt: rt})
		}
		sort.Slice(s.alts, func(i, j int) bool { return s.alts[i].tag < s.alts[j].tag })
		return s, nil
	}
	return nil, fmt.Errorf("%s: kind %s outside the translator's subset", t, t.Kind())
}

// text form understood by the oracle (and printed by it for the shapes of Shapes.v)
func (s *shape) text(sb *strings.Builder) {
	switch s.k {
	case 'u':
		fmt.Fprintf(sb, "u%d", s.bits)
	case 'a':
		fmt.Fprintf(sb, "a%d", s.n)
	case 'b', 's', 'o', 'y', 'f':
		sb.WriteByte(s.k)
	case 'p', 'l':
		sb.WriteByte(s.k)
		sb.WriteByte('(')
		s.elem.text(sb)
		sb.WriteByte(')')
	case 'm':
		sb.WriteString("m(")
		s.key.text(sb)
		sb.WriteByte(',')
		s.elem.text(sb)
		sb.WriteByte(')')
	case 'S':
		sb.WriteString("S(")
		for i, f := range s.fields {
			if i > 0 {
				sb.WriteByte(';')
			}
			if f.keyInt {
				sb.WriteByte('#')
			}
			sb.WriteString(f.key)
			if f.omit {
				sb.WriteByte('?')
			}
			sb.WriteByte(':')
			f.t.text(sb)
		}
		sb.WriteByte(')')
	case 'I':
		sb.WriteString("I(")
		for i, a := range s.alts {
			if i > 0 {
				sb.WriteByte(';')
			}
			fmt.Fprintf(sb, "%x:", a.tag)
			a.t.text(sb)
		}
		sb.WriteByte(')')
	}
}
func (s *shape) String() string {
	var sb strings.Builder
	s.text(&sb)
	return sb.String()
}

// Coq term of the shape (used once to write Shapes.v; --print-shapes)
func (s *shape) coq(names map[*shape]string, top bool) string {
	if n, ok := names[s]; ok && !top {
		return n
	}
	switch s.k {
	case 'u':
		return fmt.Sprintf("TUint %d", s.bits)
	case 'a':
		return fmt.Sprintf("TByteArr %d", s.n)
	case 'b':
		return "TBool"
	case 's':
		return "TText"
	case 'o':
		return "TBin"
	case 'y':
		return "TByteSlice"
	case 'f':
		return "TFelt"
	case 'p':
		return "TPtr (" + s.elem.coq(names, false) + ")"
	case 'l':
		return "TSlice (" + s.elem.coq(names, false) + ")"
	case 'm':
		return "TMap (" + s.key.coq(names, false) + ") (" + s.elem.coq(names, false) + ")"
	case 'S':
		var parts []string
		for _, f := range s.fields {
			k := "FText " + coqBytes(f.key)
			if f.keyInt {
				k = "FInt (" + f.key + ")%Z"
			}
			parts = append(parts, fmt.Sprintf("    (%s, %v, %s)", k, f.omit, f.t.coq(names, false)))
		}
		return "TStruct [\n" + strings.Join(parts, ";\n") + " ]"
	case 'I':
		var parts []string
		for _, a := range s.alts {
			parts = append(parts, fmt.Sprintf("    (%d, %s)", a.tag, a.t.coq(names, false)))
		}
		return "TIface [\n" + strings.Join(parts, ";\n") + " ]"
	}
	return "?"
}

func coqBytes(s string) string {
	var parts []string
	for _, b := range []byte(s) {
		parts = append(parts, strconv.Itoa(int(b)))
	}
	return "[" + strings.Join(parts, "; ") + "] (* " + s + " *)"
}

// renderShapes: the text of coq/theories/C07/Shapes.v's definitions (written once with --print-shapes,
// compared with the derived shapes on every run)
func renderShapes() (string, error) {
	var sb strings.Builder
	names := map[*shape]string{}
	var order []string
	for _, ts := range tieShapes {
		s, err := deriveShape(ts.t)
		if err != nil {
			return "", err
		}
		fmt.Fprintf(&sb, "Definition S_%s : ty :=\n  %s.\n\n", ts.name, s.coq(names, true))
		names[s] = "S_" + ts.name
		order = append(order, ts.name)
	}
	sb.WriteString("Definition shapes : list (bytes * ty) := [\n")
	for i, n := range order {
		sep := ";"
		if i == len(order)-1 {
			sep = ""
		}
		fmt.Fprintf(&sb, "  (%s, S_%s)%s\n", strings.Replace(coqBytes(n), " (*", ", (*", 0), n, sep)
	}
	sb.WriteString("].\n")
	return sb.String(), nil
}

// ---------- values ----------
func encKey(v reflect.Value) []byte {
	b, err := encoder.Marshal(v.Interface())
	hx.Must(err)
	return b
}

func hexN(u uint64) string { return strconv.FormatUint(u, 16) }

func dumpVal(s *shape, v reflect.Value, sb *strings.Builder) {
	switch s.k {
	case 'u':
		sb.WriteString(hexN(v.Uint()))
	case 'b':
		if v.Bool() {
			sb.WriteByte('T')
		} else {
			sb.WriteByte('F')
		}
	case 's':
		sb.WriteByte('"')
		sb.WriteString(hex.EncodeToString([]byte(v.String())))
	case 'o':
		var m encoding.BinaryMarshaler
		if v.CanAddr() {
			m = v.Addr().Interface().(encoding.BinaryMarshaler)
		} else {
			p := reflect.New(v.Type())
			p.Elem().Set(v)
			m = p.Interface().(encoding.BinaryMarshaler)
		}
		b, err := m.MarshalBinary()
		hx.Must(err)
		sb.WriteByte('x')
		sb.WriteString(hex.EncodeToString(b))
	case 'a':
		b := make([]byte, v.Len())
		for i := range b {
			b[i] = byte(v.Index(i).Uint())
		}
		sb.WriteByte('x')
		sb.WriteString(hex.EncodeToString(b))
	case 'y':
		if v.IsNil() {
			sb.WriteByte('~')
			return
		}
		sb.WriteByte('x')
		sb.WriteString(hex.EncodeToString(v.Bytes()))
	case 'f':
		fmt.Fprintf(sb, "<%x.%x.%x.%x>", v.Index(0).Uint(), v.Index(1).Uint(), v.Index(2).Uint(), v.Index(3).Uint())
	case 'p':
		if v.IsNil() {
			sb.WriteByte('~')
			return
		}
		dumpVal(s.elem, v.Elem(), sb)
	case 'l':
		if v.IsNil() {
			sb.WriteByte('~')
			return
		}
		sb.WriteByte('[')
		for i := 0; i < v.Len(); i++ {
			if i > 0 {
				sb.WriteByte(',')
			}
			dumpVal(s.elem, v.Index(i), sb)
		}
		sb.WriteByte(']')
	case 'm':
		if v.IsNil() {
			sb.WriteByte('~')
			return
		}
		type kv struct {
			enc  []byte
			k, v reflect.Value
		}
		var kvs []kv
		it := v.MapRange()
		for it.Next() {
			kvs = append(kvs, kv{encKey(it.Key()), it.Key(), it.Value()})
		}
		// the model represents a Go map as the association list sorted by encoded key, length first
		sort.Slice(kvs, func(i, j int) bool {
			if len(kvs[i].enc) != len(kvs[j].enc) {
				return len(kvs[i].enc) < len(kvs[j].enc)
			}
			return bytes.Compare(kvs[i].enc, kvs[j].enc) < 0
		})
		sb.WriteByte('{')
		for i, e := range kvs {
			if i > 0 {
				sb.WriteByte(',')
			}
			dumpVal(s.key, e.k, sb)
			sb.WriteByte('=')
			dumpVal(s.elem, e.v, sb)
		}
		sb.WriteByte('}')
	case 'S':
		sb.WriteByte('(')
		for i, f := range s.fields {
			if i > 0 {
				sb.WriteByte(',')
			}
			dumpVal(f.t, v.FieldByIndex(f.idx), sb)
		}
		sb.WriteByte(')')
	case 'I':
		if v.IsNil() {
			sb.WriteByte('~')
			return
		}
		c := v.Elem()
		for c.Kind() == reflect.Pointer {
			c = c.Elem()
		}
		for _, a := range s.alts {
			if a.rt == c.Type() {
				fmt.Fprintf(sb, "@%x:", a.tag)
				dumpVal(a.t, c, sb)
				return
			}
		}
		hx.Fatalf("interface value of unregistered type %s", c.Type())
	}
}

func valText(s *shape, v any) string {
	var sb strings.Builder
	rv := reflect.ValueOf(v)
	dumpVal(s, rv, &sb)
	return sb.String()
}

// ---------- a lenient scanner (classification of disagreements only) ----------
type head struct {
	major byte
	ai    byte
	arg   uint64
	size  int
}

func scanHead(b []byte) (head, bool) {
	if len(b) == 0 {
		return head{}, false
	}
	h := head{major: b[0] >> 5, ai: b[0] & 31, size: 1}
	switch {
	case h.ai < 24:
		h.arg = uint64(h.ai)
	case h.ai == 24:
		if len(b) < 2 {
			return h, false
		}
		h.arg, h.size = uint64(b[1]), 2
	case h.ai == 25:
		if len(b) < 3 {
			return h, false
		}
		h.arg, h.size = uint64(binary.BigEndian.Uint16(b[1:])), 3
	case h.ai == 26:
		if len(b) < 5 {
			return h, false
		}
		h.arg, h.size = uint64(binary.BigEndian.Uint32(b[1:])), 5
	case h.ai == 27:
		if len(b) < 9 {
			return h, false
		}
		h.arg, h.size = binary.BigEndian.Uint64(b[1:]), 9
	case h.ai == 31:
	default:
		return h, false
	}
	return h, true
}

type scanInfo struct {
	nonCanonical, indefinite, outside, builtinTag, registeredTag bool
	heads                                                        []int // offsets of heads
}

func canonicalHead(h head) bool {
	switch h.ai {
	case 24:
		return h.arg >= 24
	case 25:
		return h.arg >= 256
	case 26:
		return h.arg >= 65536
	case 27:
		return h.arg >= 1<<32
	}
	return true
}

// scan walks one data item leniently (indefinite lengths, any head form, floats); returns the number
// of bytes it spans or -1
func scan(b []byte, off int, info *scanInfo, depth int) int {
	if depth > 200 || off >= len(b) {
		return -1
	}
	h, ok := scanHead(b[off:])
	if !ok {
		return -1
	}
	info.heads = append(info.heads, off)
	p := off + h.size
	if h.major != 7 && !canonicalHead(h) {
		info.nonCanonical = true
	}
	switch h.major {
	case 0, 1:
		if h.ai == 31 {
			return -1
		}
		return p - off
	case 2, 3:
		if h.ai == 31 {
			info.indefinite = true
			for {
				if p >= len(b) {
					return -1
				}
				if b[p] == 0xff {
					return p + 1 - off
				}
				n := scan(b, p, info, depth+1)
				if n < 0 {
					return -1
				}
				p += n
			}
		}
		if h.arg > uint64(len(b)-p) {
			return -1
		}
		return p + int(h.arg) - off
	case 4, 5:
		mult := uint64(1)
		if h.major == 5 {
			mult = 2
		}
		if h.ai == 31 {
			info.indefinite = true
			for {
				if p >= len(b) {
					return -1
				}
				if b[p] == 0xff {
					return p + 1 - off
				}
				n := scan(b, p, info, depth+1)
				if n < 0 {
					return -1
				}
				p += n
			}
		}
		if h.arg > uint64(len(b)) {
			return -1
		}
		for i := uint64(0); i < h.arg*mult; i++ {
			n := scan(b, p, info, depth+1)
			if n < 0 {
				return -1
			}
			p += n
		}
		return p - off
	case 6:
		if h.ai == 31 {
			return -1
		}
		if h.arg <= 5 || (h.arg >= 21 && h.arg <= 36) || h.arg == 55799 || h.arg == 63 || h.arg == 257 {
			info.builtinTag = true
		}
		if h.arg >= 65536 && h.arg < 65536+64 {
			info.registeredTag = true
		}
		n := scan(b, p, info, depth+1)
		if n < 0 {
			return -1
		}
		return p + n - off
	default:
		if h.ai == 31 {
			return -1
		}
		if !(h.ai == 20 || h.ai == 21 || h.ai == 22) {
			info.outside = true // floats, undefined, other simple values
		}
		return p - off
	}
}

// ---------- the tie ----------
type cborTie struct {
	c               *hx.Ctx
	or              timedOracle
	shapes          map[string]*shape
	seed            uint64
	nViol           int
	diffs           map[string]int // recorded differences (not violations)
	exhaustive      bool           // truncate at every offset (suite) instead of a sample (per generated case)
	spent           time.Duration
	noInputReported int
}

var tieShapes = []struct {
	name string
	t    reflect.Type
}{
	{"GasPrice", reflect.TypeOf(core.GasPrice{})},
	{"Header", reflect.TypeOf(core.Header{})},
	{"ResourceBounds", reflect.TypeOf(core.ResourceBounds{})},
	{"DeclareTransaction", reflect.TypeOf(core.DeclareTransaction{})},
	{"DeployTransaction", reflect.TypeOf(core.DeployTransaction{})},
	{"InvokeTransaction", reflect.TypeOf(core.InvokeTransaction{})},
	{"L1HandlerTransaction", reflect.TypeOf(core.L1HandlerTransaction{})},
	{"DeployAccountTransaction", reflect.TypeOf(core.DeployAccountTransaction{})},
	{"Transaction", transactionT},
	{"Event", reflect.TypeOf(core.Event{})},
	{"ExecutionResources", reflect.TypeOf(core.ExecutionResources{})},
	{"L1ToL2Message", reflect.TypeOf(core.L1ToL2Message{})},
	{"L2ToL1Message", reflect.TypeOf(core.L2ToL1Message{})},
	{"TransactionReceipt", reflect.TypeOf(core.TransactionReceipt{})},
	{"StateDiff", reflect.TypeOf(core.StateDiff{})},
	{"StateUpdate", reflect.TypeOf(core.StateUpdate{})},
}

type cborReplay struct {
	Seed     uint64 `json:"seed"`
	Accessor string `json:"accessor"`
	Shape    string `json:"shape,omitempty"`
	Value    string `json:"value,omitempty"`
	Bytes    string `json:"bytes,omitempty"`
	Detail   string `json:"detail"`
}

func (t *cborTie) violation(class, detail string, rp cborReplay, noInput bool) {
	t.nViol++
	if t.nViol > 5 {
		return
	}
	rp.Seed, rp.Accessor, rp.Detail = t.seed, class, detail
	if noInput {
		t.noInputReported++
	}
	t.c.Violation(class, detail, rp, noInput)
}

func newCborTie(c *hx.Ctx, or timedOracle, seed uint64) *cborTie {
	t := &cborTie{c: c, or: or, shapes: map[string]*shape{}, seed: seed, diffs: map[string]int{}}
	drift := []string{}
	for _, ts := range tieShapes {
		s, err := deriveShape(ts.t)
		if err != nil {
			t.violation("cbor:shape-translator", ts.name+": "+err.Error(), cborReplay{Shape: ts.name}, true)
			continue
		}
		t.shapes[ts.name] = s
		// the shape proved about in Shapes.v must be the shape the code has now
		got := or.Ask("cshape "+ts.name, 1)[0]
		c.Evaluations++
		if got != s.String() {
			drift = append(drift, ts.name)
			t.violation("cbor:shape-drift:"+ts.name,
				fmt.Sprintf("the Go type %s no longer has the shape Shapes.v proves the round trip for: %s", ts.name, firstDiff(got, s.String())),
				cborReplay{Shape: s.String()}, true)
		}
	}
	c.Extra["cbor_shapes"] = map[string]any{"checked": len(tieShapes), "drift": drift}
	return t
}

func shortHex(b []byte) string {
	if len(b) > 96 {
		return hex.EncodeToString(b[:96]) + fmt.Sprintf("...(%d bytes)", len(b))
	}
	return hex.EncodeToString(b)
}

func hexArg(b []byte) string {
	if len(b) == 0 {
		return "-"
	}
	return hex.EncodeToString(b)
}

// typed: v is a pointer to (or an interface holding) a value of the named shape.
// Returns the real encoding.
func (t *cborTie) typed(name string, v any, mutate bool, r *hx.RNG) []byte {
	s := t.shapes[name]
	if s == nil {
		return nil
	}
	rv := reflect.ValueOf(v)
	if s.k != 'I' {
		rv = rv.Elem()
	} else {
		rv = rv.Elem() // *core.Transaction -> the interface value
	}
	var sb strings.Builder
	dumpVal(s, rv, &sb)
	vt := sb.String()
	var enc []byte
	var err error
	if s.k == 'I' {
		enc, err = encoder.Marshal(rv.Interface())
	} else {
		enc, err = encoder.Marshal(v)
	}
	t.c.Evaluations++
	t.c.Hist["cbor-typed:"+name]++
	if os.Getenv("VERIF_C07_DEBUG") != "" {
		t0 := time.Now()
		defer func() {
			if d := time.Since(t0); d > 20*time.Millisecond {
				fmt.Fprintf(os.Stderr, "cbor typed %s: %d bytes, %d chars, mutate=%v: %v\n", name, len(enc), len(vt), mutate, d)
			}
		}()
	}
	if err != nil {
		t.violation("cbor:encode-error:"+name, err.Error(), cborReplay{Shape: name, Value: vt}, false)
		return nil
	}
	if !t.exhaustive && len(enc) > 2600 && r.Intn(10) != 0 {
		// per generated case: large values are sampled (the extracted byte arithmetic costs ~10 us per byte)
		t.c.Hist["cbor-typed-skipped-large:"+name]++
		return enc
	}
	ans := t.or.Ask("cenc "+s.String()+" "+vt, 1)[0]
	f := strings.Fields(ans)
	if len(f) != 3 || f[0] != "ok" {
		t.violation("cbor:model-refuses:"+name, "the model does not accept the value ("+ans+"): outside has_type / shape_ok",
			cborReplay{Shape: name, Value: vt}, true)
		return enc
	}
	if f[1] != hexArg(enc) {
		mb, _ := hex.DecodeString(f[1])
		t.violation("cbor:encode-mismatch:"+name, "encoder.Marshal differs from the model's marshal: "+firstDiff(f[1], hex.EncodeToString(enc))+fmt.Sprintf(" (real %d bytes, model %d)", len(enc), len(mb)),
			cborReplay{Shape: name, Value: vt, Bytes: hex.EncodeToString(enc)}, true)
	}
	if f[2] != "t" {
		t.violation("cbor:model-roundtrip:"+name, "the extracted unmarshal (marshal v) is not Some v although the theorem says so",
			cborReplay{Shape: name, Value: vt}, true)
	}
	// the real decoder on the real bytes: property predicate decode(encode v) = v
	back, derr := t.decodeReal(s, name, enc)
	if derr != nil {
		t.violation("cbor:unreadable-after-encode:"+name, "encoder.Unmarshal(encoder.Marshal(v)) fails: "+derr.Error(),
			cborReplay{Shape: name, Value: vt, Bytes: hex.EncodeToString(enc)}, false)
	} else if back != vt {
		t.violation("cbor:decode-differs:"+name, "encoder.Unmarshal(encoder.Marshal(v)) differs from v: "+firstDiff(vt, back),
			cborReplay{Shape: name, Value: vt, Bytes: hex.EncodeToString(enc)}, false)
	}
	if mutate {
		t.mutateTyped(s, name, vt, enc, r, t.exhaustive)
	}
	return enc
}

// decodeReal: encoder.Unmarshal into a fresh value of the shape's Go type, rendered
func (t *cborTie) decodeReal(s *shape, name string, b []byte) (string, error) {
	var rt reflect.Type
	for _, ts := range tieShapes {
		if ts.name == name {
			rt = ts.t
		}
	}
	p := reflect.New(rt)
	if err := encoder.Unmarshal(b, p.Interface()); err != nil {
		return "", err
	}
	var sb strings.Builder
	dumpVal(s, p.Elem(), &sb)
	return sb.String(), nil
}

// compareDecode: both decoders on arbitrary bytes for a shape
func (t *cborTie) compareDecode(s *shape, name, what string, b []byte, origin string) {
	t.c.Evaluations++
	t.c.Hist["cbor-mut:"+what]++
	real, rerr := func() (s2 string, err error) {
		defer func() {
			if p := recover(); p != nil {
				err = fmt.Errorf("panic: %v", p)
			}
		}()
		return t.decodeReal(s, name, b)
	}()
	ans := t.or.Ask("cdec "+s.String()+" "+hexArg(b), 1)[0]
	modelOK := strings.HasPrefix(ans, "some ")
	rp := cborReplay{Shape: name, Value: origin, Bytes: hex.EncodeToString(b)}
	switch {
	case rerr == nil && modelOK:
		if ans[5:] != real {
			t.violation("cbor:mutant-value:"+what+":"+name, "real and model decoders accept the bytes with different values: "+firstDiff(ans[5:], real), rp, true)
		}
	case rerr != nil && !modelOK:
	case rerr != nil && modelOK:
		if strings.HasPrefix(rerr.Error(), "panic") {
			t.violation("cbor:decoder-panic:"+what+":"+name, rerr.Error(), rp, false)
		} else {
			t.violation("cbor:go-rejects:"+what+":"+name, "the real decoder rejects bytes the model decodes ("+rerr.Error()+")", rp, true)
		}
	default:
		// Go is more permissive than the strict model (coercions, case-insensitive keys, ...): recorded
		t.diffs["typed-go-accepts:"+what]++
	}
}

func (t *cborTie) mutateTyped(s *shape, name, vt string, enc []byte, r *hx.RNG, exhaustive bool) {
	// truncation: every proper prefix must be rejected by both
	offs := []int{}
	if len(enc) <= 96 || (exhaustive && len(enc) <= 4096) {
		for i := 0; i < len(enc); i++ {
			offs = append(offs, i)
		}
	} else {
		for i := 0; i < 8; i++ {
			offs = append(offs, i, len(enc)-1-i, r.Intn(len(enc)))
		}
	}
	for _, o := range offs {
		t.compareDecode(s, name, "truncated", enc[:o], vt)
	}
	t.compareDecode(s, name, "trailing-byte", append(append([]byte{}, enc...), 0x00), vt)
	// structured: on the top-level map (behind the tag for interface values)
	var info scanInfo
	if scan(enc, 0, &info, 0) != len(enc) {
		return
	}
	top := 0
	h, _ := scanHead(enc)
	if h.major == 6 {
		top = h.size
		h, _ = scanHead(enc[top:])
	}
	if h.major != 5 || h.ai >= 24 || h.arg == 0 {
		return
	}
	// pair boundaries
	type span struct{ k0, v0, end int }
	var pairs []span
	p := top + 1
	for i := uint64(0); i < h.arg; i++ {
		var i1, i2 scanInfo
		kn := scan(enc, p, &i1, 0)
		vn := scan(enc, p+kn, &i2, 0)
		pairs = append(pairs, span{p, p + kn, p + kn + vn})
		p += kn + vn
	}
	rebuild := func(ps [][]byte) []byte {
		out := append([]byte{}, enc[:top]...)
		out = append(out, 0xa0|byte(len(ps)))
		for _, q := range ps {
			out = append(out, q...)
		}
		return out
	}
	all := func() [][]byte {
		var ps [][]byte
		for _, sp := range pairs {
			ps = append(ps, enc[sp.k0:sp.end])
		}
		return ps
	}
	// drop one field: both leave the zero value
	i := r.Intn(len(pairs))
	ps := all()
	t.compareDecode(s, name, "dropped-field", rebuild(append(ps[:i:i], ps[i+1:]...)), vt)
	// one field's value replaced by null
	i = r.Intn(len(pairs))
	ps = all()
	ps[i] = append(append([]byte{}, enc[pairs[i].k0:pairs[i].v0]...), 0xf6)
	t.compareDecode(s, name, "null-field", rebuild(ps), vt)
	// two pairs swapped: order does not matter to either decoder
	if len(pairs) >= 2 {
		i, j := r.Intn(len(pairs)), r.Intn(len(pairs))
		ps = all()
		ps[i], ps[j] = ps[j], ps[i]
		t.compareDecode(s, name, "swapped-pairs", rebuild(ps), vt)
	}
	// an unknown key is ignored by both
	ps = all()
	ps = append(ps, []byte{0x63, 'z', 'z', 'z', 0x01})
	if len(ps) < 24 {
		t.compareDecode(s, name, "unknown-key", rebuild(ps), vt)
	}
}

// ---------- item stream ----------
var maxUint64 = uint64(math.MaxUint64)
var argEdges = []uint64{0, 1, 23, 24, 255, 256, 65535, 65536, 1<<32 - 1, 1 << 32, 1<<63 - 1, 1 << 63, maxUint64}
var safeTags = []uint64{6, 7, 20, 37, 100, 255, 256, 65535, 70000, 1 << 32, maxUint64}

func genItem(r *hx.RNG, depth int, hashable bool) any {
	n := 10
	if depth >= 4 {
		n = 6
	}
	switch r.Intn(n) {
	case 0:
		return argEdges[r.Intn(len(argEdges))]
	case 1:
		return r.U64() >> uint(r.Intn(64))
	case 2: // negative: -1-n
		a := argEdges[r.Intn(len(argEdges))]
		if a > 1<<63-1 {
			a = 1<<63 - 1
		}
		return -1 - int64(a)
	case 3:
		l := []int{0, 1, 23, 24, 255, 256}[r.Intn(6)]
		b := make([]byte, l)
		for i := range b {
			b[i] = byte(r.U64())
		}
		if hashable {
			return string(b) // text string (bytes as such; UTF-8 not validated)
		}
		return b
	case 4:
		l := []int{0, 1, 5, 23, 24, 300}[r.Intn(6)]
		b := make([]byte, l)
		for i := range b {
			b[i] = byte(r.U64())
		}
		return string(b)
	case 5:
		switch r.Intn(3) {
		case 0:
			return true
		case 1:
			return false
		}
		if hashable {
			return uint64(r.Intn(30))
		}
		return nil
	case 6, 7:
		if hashable {
			return uint64(r.Intn(1000))
		}
		l := []int{0, 1, 2, 3, 23, 24, 30}[r.Intn(7)]
		if depth >= 2 && l > 3 {
			l = 3
		}
		a := make([]any, l)
		for i := range a {
			a[i] = genItem(r, depth+1, false)
		}
		return a
	case 8:
		if hashable {
			return uint64(r.Intn(1000))
		}
		l := []int{0, 1, 2, 3, 23, 24}[r.Intn(6)]
		if depth >= 2 && l > 3 {
			l = 3
		}
		m := map[any]any{}
		for i := 0; i < l; i++ {
			m[genItem(r, depth+1, true)] = genItem(r, depth+1, false)
		}
		return m
	default:
		if hashable {
			return uint64(r.Intn(1000))
		}
		return cbor.Tag{Number: safeTags[r.Intn(len(safeTags))], Content: genItem(r, depth+1, false)}
	}
}

type goVerdict struct {
	ok   bool
	rest []byte
	err  string
}

func goFirst(b []byte) goVerdict {
	var raw cbor.RawMessage
	rest, err := encoder.UnmarshalFirst(b, &raw)
	if err != nil {
		return goVerdict{err: err.Error()}
	}
	return goVerdict{ok: true, rest: rest}
}

// item: compares the verdicts on arbitrary bytes. valid = the bytes were produced by the real encoder.
func (t *cborTie) item(what string, b []byte, valid bool) {
	t.c.Evaluations++
	t.c.Hist["cbor-item:"+what]++
	g := goFirst(b)
	ans := strings.Fields(t.or.Ask("cgen "+hexArg(b), 1)[0])
	rp := cborReplay{Bytes: hex.EncodeToString(b)}
	modelOK := len(ans) == 4 && ans[0] == "some"
	if modelOK && ans[3] != "exact" {
		t.violation("cbor:model-decode-inexact", "the model's strict decoder accepted bytes that are not encode(result) ++ rest", rp, true)
	}
	switch {
	case g.ok && modelOK:
		if ans[2] != hexArg(g.rest) {
			t.violation("cbor:rest-differs:"+what, "both decoders accept, remaining bytes differ: model "+ans[2]+" real "+hexArg(g.rest), rp, true)
		}
		if valid {
			// identity: the model decodes the real encoder's bytes and re-encodes them to the same bytes
			if ans[1] != hexArg(b[:len(b)-len(g.rest)]) {
				t.violation("cbor:item-encode-mismatch", "model encode(decode(bytes)) differs from the real encoder's bytes", rp, true)
			}
			// the decoded Go value re-encodes to the same canonical bytes
			var x any
			if err := encoder.Unmarshal(b, &x); err != nil {
				t.violation("cbor:item-unreadable", "a value encoded by encoder.Marshal is rejected by encoder.Unmarshal: "+err.Error(), rp, false)
			} else if b2, err := encoder.Marshal(x); err != nil || !bytes.Equal(b2, b) {
				t.violation("cbor:item-roundtrip", "decode-then-encode of a generic value is not the identity on canonical bytes", rp, false)
			}
		}
	case !g.ok && !modelOK:
	case g.ok && !modelOK:
		var info scanInfo
		n := scan(b, 0, &info, 0)
		switch {
		case n < 0:
			t.violation("cbor:unclassified-accept:"+what, "the real decoder accepts bytes the harness scanner cannot walk", rp, true)
		case info.nonCanonical:
			t.diffs["go-accepts:non-canonical-head"]++
		case info.indefinite:
			t.diffs["go-accepts:indefinite-length"]++
		case info.outside:
			t.diffs["go-accepts:float-or-simple-value"]++
		default:
			t.violation("cbor:model-rejects-canonical:"+what, "the real decoder accepts canonical bytes that the model rejects", rp, true)
		}
		if valid {
			t.violation("cbor:model-rejects-encoder-output", "the model rejects bytes produced by encoder.Marshal", rp, true)
		}
	default: // Go rejects, model accepts
		if topBuiltinTag(b) && !valid {
			// fxamacker validates the content type of a top-level chain of tags 0-3 (time, bignum) even
			// when decoding into a RawMessage; juno's encoder never emits these tags
			t.diffs["go-rejects:built-in-tag-content"]++
			return
		}
		t.violation("cbor:go-rejects-canonical:"+what, "the real decoder rejects canonical bytes within the limits ("+g.err+")", rp, !valid)
	}
}

// topBuiltinTag: the item starts with a chain of tags containing one of 0..3
func topBuiltinTag(b []byte) bool {
	off := 0
	for {
		h, ok := scanHead(b[off:])
		if !ok || h.major != 6 {
			return false
		}
		if h.arg <= 3 {
			return true
		}
		off += h.size
	}
}

func rep(b byte, n int) []byte { return bytes.Repeat([]byte{b}, n) }
func cat(bs ...[]byte) []byte  { return bytes.Join(bs, nil) }
func unhex(s string) []byte {
	b, err := hex.DecodeString(s)
	hx.Must(err)
	return b
}
func be32(u uint32) []byte { return binary.BigEndian.AppendUint32(nil, u) }

func (t *cborTie) probes(limits map[string]int64) {
	maxArr, maxMap := uint32(limits["MaxArrayElements"]), uint32(limits["MaxMapPairs"])
	type pr struct {
		what string
		b    []byte
	}
	ps := []pr{
		// limits: length in the head decides (content missing: at-limit is rejected for lack of bytes)
		{"array-over-limit", cat([]byte{0x9a}, be32(maxArr+1), rep(0x00, 64))},
		{"array-at-limit-short", cat([]byte{0x9a}, be32(maxArr), rep(0x00, 64))},
		{"map-over-limit", cat([]byte{0xba}, be32(maxMap+1), rep(0x00, 64))},
		{"map-at-limit-short", cat([]byte{0xba}, be32(maxMap), rep(0x00, 64))},
		{"array-len-2^63", cat(unhex("9b8000000000000000"), rep(0, 8))},
		{"bytes-len-2^63", cat(unhex("5b8000000000000000"), rep(0, 8))},
		{"bytes-len-2^64-1", cat(unhex("5bffffffffffffffff"), rep(0, 8))},
		// nesting
		{"nest-32-arrays", cat(rep(0x81, 32), []byte{0x00})},
		{"nest-33-arrays", cat(rep(0x81, 33), []byte{0x00})},
		{"nest-32-maps", cat(bytes.Repeat([]byte{0xa1, 0x00}, 32), []byte{0x00})},
		{"nest-33-maps", cat(bytes.Repeat([]byte{0xa1, 0x00}, 33), []byte{0x00})},
		{"nest-33-tags", cat(rep(0xc6, 33), []byte{0x00})},
		{"nest-34-tags", cat(rep(0xc6, 34), []byte{0x00})},
		{"nest-32-arrays-then-tag", cat(rep(0x81, 32), []byte{0xc6, 0x00})},
		{"nest-32-arrays-then-2-tags", cat(rep(0x81, 32), []byte{0xc6, 0xc6, 0x00})},
		{"nest-31-arrays-then-2-tags", cat(rep(0x81, 31), []byte{0xc6, 0xc6, 0x00})},
		// non-canonical heads
		{"nc-uint-1byte", unhex("1805")}, {"nc-uint-2byte", unhex("190005")}, {"nc-uint-4byte", unhex("1a000000ff")},
		{"nc-uint-8byte", unhex("1b00000000ffffffff")}, {"nc-array-len", unhex("980100")}, {"nc-text-len", unhex("780161")},
		{"nc-map-len", unhex("b800")}, {"nc-tag", unhex("d80600")}, {"nc-neg", unhex("3800")},
		// indefinite lengths
		{"indef-array", unhex("9f01ff")}, {"indef-map", unhex("bf0102ff")}, {"indef-bytes", unhex("5f4100ff")},
		{"indef-text", unhex("7f6161ff")}, {"indef-array-unterminated", unhex("9f01")}, {"indef-map-odd", unhex("bf01ff")},
		{"indef-uint", unhex("1f")}, {"indef-tag", unhex("df00")}, {"break-alone", unhex("ff")},
		// simple values and floats
		{"false", unhex("f4")}, {"true", unhex("f5")}, {"null", unhex("f6")}, {"undefined", unhex("f7")},
		{"simple-0", unhex("e0")}, {"simple-19", unhex("f3")}, {"simple-1byte-32", unhex("f820")}, {"simple-1byte-20", unhex("f814")},
		{"float16", unhex("f93c00")}, {"float32", unhex("fa3f800000")}, {"float64", unhex("fb3ff0000000000000")},
		// reserved additional information
		{"ai28", unhex("1c")}, {"ai29", unhex("5d")}, {"ai30", unhex("9e")},
		// built-in tags with content the library validates
		{"tag0-uint", unhex("c001")}, {"tag1-text", unhex("c16161")}, {"tag2-uint", unhex("c201")}, {"tag2-bytes", unhex("c24101")},
		{"tag55799", unhex("d9d9f701")},
		// integers at the edges
		{"uint-max", unhex("1bffffffffffffffff")}, {"neg-max", unhex("3bffffffffffffffff")}, {"empty", nil},
		{"trailing", unhex("0000")}, {"text-invalid-utf8", unhex("62ffff")},
		{"map-dup-keys", unhex("a201010102")}, {"map-array-key", unhex("a1810102")},
	}
	for _, p := range ps {
		t.item("probe:"+p.what, p.b, false)
		t.c.Count("cbor-probe:"+p.what, true)
		t.c.Evaluations--
	}
}

func (t *cborTie) items(r *hx.RNG, n int) {
	for i := 0; i < n; i++ {
		v := genItem(r, 0, false)
		b, err := encoder.Marshal(v)
		if err != nil {
			t.violation("cbor:item-encode-error", err.Error(), cborReplay{Value: fmt.Sprintf("%#v", v)}, true)
			continue
		}
		t.item("valid", b, true)
		if len(b) > 4096 {
			continue
		}
		// truncation at every offset (bounded), appended bytes, random byte flips
		step := 1
		if len(b) > 64 {
			step = len(b)/48 + 1
		}
		for o := 0; o < len(b); o += step {
			t.item("truncated", b[:o], false)
		}
		t.item("trailing", append(append([]byte{}, b...), byte(r.U64())), false)
		for j := 0; j < 6; j++ {
			m := append([]byte{}, b...)
			m[r.Intn(len(m))] = byte(r.U64())
			t.item("byte-flip", m, false)
		}
		// a head rewritten in a longer (non-canonical) form
		var info scanInfo
		if scan(b, 0, &info, 0) == len(b) && len(info.heads) > 0 {
			o := info.heads[r.Intn(len(info.heads))]
			h, _ := scanHead(b[o:])
			if h.major != 7 && h.ai < 27 {
				var nh []byte
				switch {
				case h.ai < 24:
					nh = []byte{b[o]&0xe0 | 24, byte(h.arg)}
				case h.ai == 24:
					nh = []byte{b[o]&0xe0 | 25, 0, byte(h.arg)}
				case h.ai == 25:
					nh = cat([]byte{b[o]&0xe0 | 26}, be32(uint32(h.arg)))
				default:
					nh = binary.BigEndian.AppendUint64([]byte{b[o]&0xe0 | 27}, h.arg)
				}
				t.item("inflated-head", cat(b[:o], nh, b[o+h.size:]), false)
			}
		}
	}
}

// ---------- boundary values of the stored shapes ----------
func feltOf(l0, l1, l2, l3 uint64) *felt.Felt { f := felt.Felt{l0, l1, l2, l3}; return &f }

func (t *cborTie) boundaries(r *hx.RNG, h map[string]int) {
	// every unsigned field at every head-width boundary
	for _, e := range argEdges {
		hd := genHeader(r, h, e, feltOf(e, 0, 1, e), e, e)
		hd.Timestamp = e
		t.typed("Header", hd, false, r)
		rc := genReceipt(r, h, feltOf(1, 2, 3, e))
		if rc.ExecutionResources == nil {
			rc.ExecutionResources = &core.ExecutionResources{}
		}
		rc.ExecutionResources.Steps, rc.ExecutionResources.MemoryHoles = e, e
		rc.ExecutionResources.BuiltinInstanceCounter.Pedersen = e
		rc.ExecutionResources.TotalGasConsumed = &core.GasConsumed{L1Gas: e, L1DataGas: e, L2Gas: e}
		t.typed("TransactionReceipt", rc, false, r)
		var tx core.Transaction = &core.InvokeTransaction{TransactionHash: feltOf(e, e, e, e), Tip: e,
			ResourceBounds: map[core.Resource]core.ResourceBounds{core.ResourceL1Gas: {MaxAmount: e}, core.ResourceL2Gas: {MaxAmount: e, MaxPricePerUnit: feltOf(e, 0, 0, 0)}}}
		t.typed("Transaction", &tx, false, r)
	}
	// container lengths and string lengths at the head-width boundaries; nil / empty
	lens := []int{0, 1, 23, 24, 255, 256, 65535, 65536}
	for _, n := range lens {
		fs := make([]felt.Felt, n)
		for i := range fs {
			fs[i] = felt.Felt{uint64(i), 0, 0, 0}
		}
		var tx core.Transaction = &core.InvokeTransaction{TransactionHash: feltOf(1, 0, 0, 0), CallData: fs}
		t.typed("Transaction", &tx, false, r)
		t.typed("TransactionReceipt", &core.TransactionReceipt{RevertReason: strings.Repeat("x", n), Reverted: n%2 == 0,
			L2ToL1Message: []*core.L2ToL1Message{}, Events: nil}, false, r)
		if n <= 256 {
			evs := make([]*core.Event, n)
			for i := range evs {
				evs[i] = &core.Event{From: feltOf(uint64(i), 0, 0, 0), Keys: []felt.Felt{}, Data: nil}
			}
			t.typed("TransactionReceipt", &core.TransactionReceipt{Events: evs}, false, r)
			m := map[felt.Felt]*felt.Felt{}
			for i := 0; i < n; i++ {
				m[felt.Felt{uint64(i) * 257, uint64(i % 3), 0, 0}] = feltOf(uint64(i), 0, 0, 0)
			}
			inner := map[felt.Felt]map[felt.Felt]*felt.Felt{{1, 0, 0, 0}: m, {2, 0, 0, 0}: nil, {3, 0, 0, 0}: {}}
			t.typed("StateUpdate", &core.StateUpdate{StateDiff: &core.StateDiff{Nonces: m, StorageDiffs: inner, DeclaredV0Classes: []*felt.Felt{nil}}}, false, r)
		}
		t.c.Count(fmt.Sprintf("cbor-len-%d", n), true)
		t.c.Evaluations--
	}
	// nil pointers, empty maps, nil interface
	t.typed("Header", &core.Header{}, true, r)
	t.typed("TransactionReceipt", &core.TransactionReceipt{}, true, r)
	t.typed("StateUpdate", &core.StateUpdate{}, true, r)
	t.typed("StateUpdate", &core.StateUpdate{StateDiff: &core.StateDiff{}}, true, r)
	t.typed("StateUpdate", &core.StateUpdate{StateDiff: &core.StateDiff{StorageDiffs: map[felt.Felt]map[felt.Felt]*felt.Felt{},
		Nonces: map[felt.Felt]*felt.Felt{}, DeclaredV0Classes: []*felt.Felt{}, MigratedClasses: map[felt.SierraClassHash]felt.CasmClassHash{}}}, true, r)
	var nilTx core.Transaction
	t.typed("Transaction", &nilTx, false, r)
	for _, tx := range []core.Transaction{&core.DeclareTransaction{}, &core.DeployTransaction{}, &core.InvokeTransaction{},
		&core.L1HandlerTransaction{}, &core.DeployAccountTransaction{}} {
		tx := tx
		t.typed("Transaction", &tx, true, r)
	}
	// omitempty: an empty non-nil slice reads back nil (the one nil/empty identification inside a stored
	// value, see findings): outside has_type, so only the real side is looked at by the accessor checks
}

// suite: everything that does not depend on the generated chain cases
func (t *cborTie) suite(limits map[string]int64, nItems int) {
	t0 := time.Now()
	defer func() { t.spent += time.Since(t0) }()
	t.exhaustive = true
	defer func() { t.exhaustive = false }()
	r := hx.NewRNG(t.seed ^ 0xCB07)
	t.probes(limits)
	t.boundaries(r, t.c.Hist)
	t.items(r, nItems)
}

// ofCase: the stored values of one generated chain case
func (t *cborTie) ofCase(cs *chainCase, r *hx.RNG) {
	t0 := time.Now()
	defer func() { t.spent += time.Since(t0) }()
	for _, b := range cs.Blocks {
		t.typed("Header", b.Header, r.Intn(4) == 0, r)
		for i := range b.Txs {
			if i < 2 || r.Intn(32) == 0 {
				tx := normTx(b.Txs[i])
				t.typed("Transaction", &tx, r.Intn(8) == 0, r)
			}
		}
		for i, rc := range b.Rcs {
			if i < 2 || r.Intn(32) == 0 {
				t.typed("TransactionReceipt", rc, r.Intn(8) == 0, r)
			}
		}
		if b.SU != nil {
			t.typed("StateUpdate", b.SU, r.Intn(6) == 0, r)
		}
	}
}

func (t *cborTie) finish(start time.Time) {
	t.c.Extra["cbor_recorded_differences"] = t.diffs
	t.c.Extra["cbor_seconds"] = t.spent.Seconds()
}
