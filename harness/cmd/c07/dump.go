package main

import (
	"encoding/hex"
	"fmt"
	"math/big"
	"reflect"
	"sort"
	"strings"

	"github.com/bits-and-blooms/bloom/v3"
)

// dump renders any value as a canonical string: pointers are followed, nil pointers / nil slices /
// nil maps are distinguished from empty ones, map entries are sorted, big.Int and bloom filters are
// rendered by value. Two values are "equal as stored data" iff their dumps are equal.
func dump(v any) string {
	var sb strings.Builder
	dumpValue(reflect.ValueOf(v), &sb)
	return sb.String()
}

var (
	bigIntType = reflect.TypeOf(big.Int{})
	bloomType  = reflect.TypeOf(bloom.BloomFilter{})
)

func dumpValue(v reflect.Value, sb *strings.Builder) {
	if !v.IsValid() {
		sb.WriteString("<nil>")
		return
	}
	switch v.Kind() {
	case reflect.Pointer:
		if v.IsNil() {
			sb.WriteString("nil")
			return
		}
		sb.WriteString("&")
		dumpValue(v.Elem(), sb)
	case reflect.Interface:
		if v.IsNil() {
			sb.WriteString("nil-iface")
			return
		}
		e := v.Elem()
		t := e.Type()
		for t.Kind() == reflect.Pointer {
			t = t.Elem()
		}
		sb.WriteString("<" + t.Name() + ">")
		dumpValue(e, sb)
	case reflect.Struct:
		if v.Type() == bigIntType {
			if v.CanAddr() {
				sb.WriteString("big:" + v.Addr().Interface().(*big.Int).String())
			} else {
				x := v.Interface().(big.Int)
				sb.WriteString("big:" + x.String())
			}
			return
		}
		if v.Type() == bloomType {
			var f *bloom.BloomFilter
			if v.CanAddr() {
				f = v.Addr().Interface().(*bloom.BloomFilter)
			} else {
				x := v.Interface().(bloom.BloomFilter)
				f = &x
			}
			b, err := f.MarshalBinary()
			if err != nil {
				sb.WriteString("bloom-err:" + err.Error())
				return
			}
			sb.WriteString("bloom:" + hex.EncodeToString(b))
			return
		}
		sb.WriteString("{")
		for i := 0; i < v.NumField(); i++ {
			if i > 0 {
				sb.WriteString(" ")
			}
			sb.WriteString(v.Type().Field(i).Name + ":")
			dumpValue(v.Field(i), sb)
		}
		sb.WriteString("}")
	case reflect.Slice:
		if v.IsNil() {
			sb.WriteString("nil[]")
			return
		}
		if v.Type().Elem().Kind() == reflect.Uint8 {
			b := make([]byte, v.Len())
			for i := range b {
				b[i] = byte(v.Index(i).Uint())
			}
			sb.WriteString("bytes:" + hex.EncodeToString(b))
			return
		}
		sb.WriteString("[")
		for i := 0; i < v.Len(); i++ {
			if i > 0 {
				sb.WriteString(",")
			}
			dumpValue(v.Index(i), sb)
		}
		sb.WriteString("]")
	case reflect.Array:
		sb.WriteString("(")
		for i := 0; i < v.Len(); i++ {
			if i > 0 {
				sb.WriteString(",")
			}
			dumpValue(v.Index(i), sb)
		}
		sb.WriteString(")")
	case reflect.Map:
		if v.IsNil() {
			sb.WriteString("nilmap")
			return
		}
		type kv struct{ k, v string }
		var es []kv
		it := v.MapRange()
		for it.Next() {
			var a, b strings.Builder
			dumpValue(it.Key(), &a)
			dumpValue(it.Value(), &b)
			es = append(es, kv{a.String(), b.String()})
		}
		sort.Slice(es, func(i, j int) bool { return es[i].k < es[j].k })
		sb.WriteString("map[")
		for i, e := range es {
			if i > 0 {
				sb.WriteString(",")
			}
			sb.WriteString(e.k + "=>" + e.v)
		}
		sb.WriteString("]")
	case reflect.String:
		sb.WriteString(fmt.Sprintf("%q", v.String()))
	case reflect.Bool:
		sb.WriteString(fmt.Sprintf("%v", v.Bool()))
	case reflect.Int, reflect.Int8, reflect.Int16, reflect.Int32, reflect.Int64:
		sb.WriteString(fmt.Sprintf("%d", v.Int()))
	case reflect.Uint, reflect.Uint8, reflect.Uint16, reflect.Uint32, reflect.Uint64, reflect.Uintptr:
		sb.WriteString(fmt.Sprintf("%d", v.Uint()))
	default:
		sb.WriteString(fmt.Sprintf("?%s", v.Kind()))
	}
}

// firstDiff gives a short window around the first differing position of two dumps.
func firstDiff(a, b string) string {
	n := len(a)
	if len(b) < n {
		n = len(b)
	}
	i := 0
	for i < n && a[i] == b[i] {
		i++
	}
	lo := i - 60
	if lo < 0 {
		lo = 0
	}
	cut := func(s string) string {
		hi := i + 60
		if hi > len(s) {
			hi = len(s)
		}
		if lo > len(s) {
			return ""
		}
		return s[lo:hi]
	}
	return fmt.Sprintf("at %d: stored …%s… read …%s…", i, cut(a), cut(b))
}
