package main

import (
	"encoding/json"
	"fmt"
	"math/big"
	"strings"

	"github.com/NethermindEth/juno/core"
	"github.com/NethermindEth/juno/core/felt"
	"github.com/NethermindEth/juno/l1/eth"
	"github.com/bits-and-blooms/bloom/v3"
	"verifharness/hx"
)

// ---------- felts ----------
// limb values that hit every width of the hand-written CBOR limb codec (core/felt/cbor.go)
// lean: blocks with hundreds of items keep each item small (the model walks the blob as a Coq list)
var lean bool

// tiny: blocks with >= 100 items
var tiny bool

var limbEdges = []uint64{0, 1, 23, 24, 255, 256, 65535, 65536, 1<<32 - 1, 1 << 32, 1<<63 - 1, 1 << 63, 1<<64 - 1}

func genFelt(r *hx.RNG, h map[string]int) felt.Felt {
	switch r.Intn(10) {
	case 0:
		h["felt:zero"]++
		return felt.Felt{}
	case 1: // raw Montgomery limbs with short encodings (top limb kept below the modulus' top limb)
		h["felt:short-limbs"]++
		return felt.Felt{limbEdges[r.Intn(len(limbEdges))], limbEdges[r.Intn(len(limbEdges))], limbEdges[r.Intn(len(limbEdges))], limbEdges[r.Intn(9)]}
	case 2:
		h["felt:small"]++
		var f felt.Felt
		f.SetUint64(limbEdges[r.Intn(len(limbEdges))])
		return f
	case 3:
		h["felt:p-1"]++
		var f, one felt.Felt
		one.SetUint64(1)
		f.Sub(&f, &one)
		return f
	default:
		h["felt:random"]++
		return felt.Felt{r.U64(), r.U64(), r.U64(), r.U64() & (1<<59 - 1)}
	}
}

func genFeltP(r *hx.RNG, h map[string]int, nilPct int) *felt.Felt {
	if r.Chance(nilPct) {
		return nil
	}
	f := genFelt(r, h)
	return &f
}

// unique, non-zero (hashes identify records)
func genHash(r *hx.RNG, used map[felt.Felt]bool) *felt.Felt {
	for {
		f := felt.Felt{r.U64(), r.U64(), r.U64(), r.U64() & (1<<59 - 1)}
		if r.Chance(15) {
			f = felt.Felt{}
			f.SetUint64(1 + uint64(r.Intn(1<<20)))
		}
		if f.IsZero() || used[f] {
			continue
		}
		used[f] = true
		return &f
	}
}

// nil / empty / populated
func genFelts(r *hx.RNG, h map[string]int, max int) []felt.Felt {
	switch r.Intn(5) {
	case 0:
		return nil
	case 1:
		return []felt.Felt{}
	}
	n := 1 + r.Intn(max)
	if tiny {
		n = 1 + r.Intn(2)
	}
	if r.Chance(3) && !lean {
		n = 24 + r.Intn(300) // array headers of 2 and 3 bytes
	}
	out := make([]felt.Felt, n)
	for i := range out {
		out[i] = genFelt(r, h)
	}
	return out
}

func genString(r *hx.RNG) string {
	// a Go string is any byte sequence: invalid UTF-8 is storable too (regression input for the decoder
	// fix b7e794b: it used to make the whole record unreadable)
	if r.Chance(10) {
		return []string{"\xff", "bad \xff\xfe utf8", "\xc3", "ok\x80", "\xed\xa0\x80 surrogate", "\xf8\x88\x80\x80\x80"}[r.Intn(6)]
	}
	switch r.Intn(7) {
	case 0:
		return ""
	case 1:
		return "Error in the called contract (0x1): Entry point EntryPointSelector(0x2) not found in contract."
	case 2:
		return "héllo wörld — ✓ 日本語 \u0000 \t\n\"quoted\" \\ back"
	case 3:
		return strings.Repeat("x", 23+r.Intn(3)) // text-string head boundary 23/24
	case 4:
		if lean {
			return "lean"
		}
		return strings.Repeat("revert ", 40+r.Intn(5000))
	case 5:
		return string(rune(0x10FFFF)) + string(rune(0xFFFD)) + " "
	default:
		b := make([]byte, 1+r.Intn(40))
		for i := range b {
			b[i] = byte(32 + r.Intn(95))
		}
		return string(b)
	}
}

// ---------- headers ----------
func genBloom(r *hx.RNG) *bloom.BloomFilter {
	f := bloom.New(core.EventsBloomLength, core.EventsBloomHashFuncs)
	for i := r.Intn(6); i > 0; i-- {
		x := felt.Felt{r.U64(), r.U64(), 0, 0}
		f.Add(x.Marshal())
	}
	return f
}

func genGasPrice(r *hx.RNG, h map[string]int) *core.GasPrice {
	if r.Chance(25) {
		return nil
	}
	return &core.GasPrice{PriceInWei: genFeltP(r, h, 20), PriceInFri: genFeltP(r, h, 20)}
}

func genHeader(r *hx.RNG, h map[string]int, number uint64, hash *felt.Felt, ntx, nev uint64) *core.Header {
	hd := &core.Header{
		Hash:             hash,
		ParentHash:       genFeltP(r, h, 10),
		Number:           number,
		GlobalStateRoot:  genFeltP(r, h, 8),
		SequencerAddress: genFeltP(r, h, 20),
		TransactionCount: ntx,
		EventCount:       nev,
		Timestamp:        limbEdges[r.Intn(len(limbEdges))],
		ProtocolVersion:  []string{"", "0.12.3", "0.13.2", "0.14.1"}[r.Intn(4)],
		L1GasPriceETH:    genFeltP(r, h, 20),
		L1GasPriceSTRK:   genFeltP(r, h, 20),
		L1DAMode:         core.L1DAMode(r.Intn(2)),
		L1DataGasPrice:   genGasPrice(r, h),
		L2GasPrice:       genGasPrice(r, h),
	}
	if r.Chance(50) {
		hd.Timestamp = r.U64()
	}
	if r.Chance(12) {
		hd.ProtocolVersion = genString(r) // any string is storable, valid UTF-8 or not
	}
	if r.Chance(8) { // the count is a stored field of its own: it need not equal len(txs)
		hd.TransactionCount = r.U64()
		h["header:count-differs"]++
	}
	if !r.Chance(8) {
		hd.EventsBloom = genBloom(r)
	} else {
		h["header:nil-bloom"]++
	}
	switch r.Intn(5) {
	case 0:
	case 1:
		hd.Signatures = [][]*felt.Felt{}
	case 2:
		hd.Signatures = [][]*felt.Felt{{}, nil}
	default:
		n := 1 + r.Intn(3)
		for i := 0; i < n; i++ {
			hd.Signatures = append(hd.Signatures, []*felt.Felt{genFeltP(r, h, 0), genFeltP(r, h, 10)})
		}
	}
	if hd.GlobalStateRoot == nil {
		h["header:nil-root"]++
	}
	return hd
}

// ---------- transactions ----------
func genVersion(r *hx.RNG, v uint64) *core.TransactionVersion {
	if r.Chance(4) {
		return nil
	}
	tv := new(core.TransactionVersion).SetUint64(v)
	if r.Chance(10) { // query bit set
		q := new(felt.Felt).Exp(new(felt.Felt).SetUint64(2), big.NewInt(128))
		q.Add(q, tv.AsFelt())
		x := core.TransactionVersion(*q)
		return &x
	}
	return tv
}

func genBounds(r *hx.RNG, h map[string]int) map[core.Resource]core.ResourceBounds {
	switch r.Intn(6) {
	case 0:
		return nil
	case 1:
		return map[core.Resource]core.ResourceBounds{}
	}
	m := map[core.Resource]core.ResourceBounds{}
	for _, res := range []core.Resource{core.ResourceL1Gas, core.ResourceL2Gas, core.ResourceL1DataGas} {
		if r.Chance(75) {
			m[res] = core.ResourceBounds{MaxAmount: limbEdges[r.Intn(len(limbEdges))], MaxPricePerUnit: genFeltP(r, h, 15)}
		}
	}
	return m
}

var txKinds = []string{"declare0", "declare1", "declare2", "declare3", "deploy0", "deploy1", "deployacc1", "deployacc3",
	"invoke0", "invoke1", "invoke3", "l1handler0", "l1handler-nononce", "invoke-all", "declare-all", "deployacc-all"}

func genTx(r *hx.RNG, h map[string]int, kind string, hash *felt.Felt) core.Transaction {
	h["tx:"+kind]++
	fp := func() *felt.Felt { return genFeltP(r, h, 6) }
	fs := func() []felt.Felt { return genFelts(r, h, 6) }
	da := func() core.DataAvailabilityMode { return core.DataAvailabilityMode(r.Intn(2)) }
	switch kind {
	case "declare0", "declare1":
		v := uint64(0)
		if kind == "declare1" {
			v = 1
		}
		return &core.DeclareTransaction{TransactionHash: hash, ClassHash: fp(), SenderAddress: fp(), MaxFee: fp(),
			TransactionSignature: fs(), Nonce: fp(), Version: genVersion(r, v)}
	case "declare2":
		return &core.DeclareTransaction{TransactionHash: hash, ClassHash: fp(), SenderAddress: fp(), MaxFee: fp(),
			TransactionSignature: fs(), Nonce: fp(), Version: genVersion(r, 2), CompiledClassHash: fp()}
	case "declare3", "declare-all":
		t := &core.DeclareTransaction{TransactionHash: hash, ClassHash: fp(), SenderAddress: fp(),
			TransactionSignature: fs(), Nonce: fp(), Version: genVersion(r, 3), CompiledClassHash: fp(),
			ResourceBounds: genBounds(r, h), Tip: limbEdges[r.Intn(len(limbEdges))], PaymasterData: fs(),
			AccountDeploymentData: fs(), NonceDAMode: da(), FeeDAMode: da()}
		if kind == "declare-all" {
			t.MaxFee = fp()
		}
		return t
	case "deploy0", "deploy1":
		v := uint64(0)
		if kind == "deploy1" {
			v = 1
		}
		return &core.DeployTransaction{TransactionHash: hash, ContractAddressSalt: fp(), ContractAddress: fp(),
			ClassHash: fp(), ConstructorCallData: fs(), Version: genVersion(r, v)}
	case "deployacc1":
		return &core.DeployAccountTransaction{
			DeployTransaction: core.DeployTransaction{TransactionHash: hash, ContractAddressSalt: fp(), ContractAddress: fp(),
				ClassHash: fp(), ConstructorCallData: fs(), Version: genVersion(r, 1)},
			MaxFee: fp(), TransactionSignature: fs(), Nonce: fp()}
	case "deployacc3", "deployacc-all":
		t := &core.DeployAccountTransaction{
			DeployTransaction: core.DeployTransaction{TransactionHash: hash, ContractAddressSalt: fp(), ContractAddress: fp(),
				ClassHash: fp(), ConstructorCallData: fs(), Version: genVersion(r, 3)},
			TransactionSignature: fs(), Nonce: fp(), ResourceBounds: genBounds(r, h), Tip: r.U64(),
			PaymasterData: fs(), NonceDAMode: da(), FeeDAMode: da()}
		if kind == "deployacc-all" {
			t.MaxFee = fp()
		}
		return t
	case "invoke0":
		return &core.InvokeTransaction{TransactionHash: hash, CallData: fs(), TransactionSignature: fs(), MaxFee: fp(),
			ContractAddress: fp(), Version: genVersion(r, 0), EntryPointSelector: fp()}
	case "invoke1":
		return &core.InvokeTransaction{TransactionHash: hash, CallData: fs(), TransactionSignature: fs(), MaxFee: fp(),
			Version: genVersion(r, 1), Nonce: fp(), SenderAddress: fp()}
	case "invoke3", "invoke-all":
		t := &core.InvokeTransaction{TransactionHash: hash, CallData: fs(), TransactionSignature: fs(),
			Version: genVersion(r, 3), Nonce: fp(), SenderAddress: fp(), ResourceBounds: genBounds(r, h),
			Tip: r.U64(), PaymasterData: fs(), AccountDeploymentData: fs(), NonceDAMode: da(), FeeDAMode: da(),
			ProofFacts: fs()}
		if kind == "invoke-all" {
			t.MaxFee, t.ContractAddress, t.EntryPointSelector = fp(), fp(), fp()
		}
		return t
	case "l1handler0", "l1handler-nononce":
		// MessageHash() needs CallData[0], ContractAddress, EntryPointSelector
		cd := []felt.Felt{genFelt(r, h)}
		for i := r.Intn(4); i > 0; i-- {
			cd = append(cd, genFelt(r, h))
		}
		t := &core.L1HandlerTransaction{TransactionHash: hash, ContractAddress: genFeltP(r, h, 0), EntryPointSelector: genFeltP(r, h, 0),
			Nonce: genFeltP(r, h, 0), CallData: cd, Version: genVersion(r, 0)}
		if kind == "l1handler-nononce" {
			t.Nonce = nil
		}
		return t
	}
	panic("tx kind " + kind)
}

// ---------- receipts ----------
func genEthAddr(r *hx.RNG) eth.Address {
	var a eth.Address
	if r.Chance(15) {
		return a
	}
	for i := range a {
		a[i] = byte(r.U64())
	}
	return a
}

func genEvents(r *hx.RNG, h map[string]int) []*core.Event {
	switch r.Intn(6) {
	case 0:
		h["events:nil"]++
		return nil
	case 1:
		h["events:empty"]++
		return []*core.Event{}
	}
	n := 1 + r.Intn(4)
	if tiny {
		n = 1
	}
	if r.Chance(4) && !lean {
		n = 24 + r.Intn(40)
	}
	h["events:populated"]++
	out := make([]*core.Event, n)
	for i := range out {
		out[i] = &core.Event{From: genFeltP(r, h, 5), Keys: genFelts(r, h, 4), Data: genFelts(r, h, 6)}
	}
	return out
}

func genResources(r *hx.RNG, h map[string]int) *core.ExecutionResources {
	if r.Chance(20) {
		h["resources:nil"]++
		return nil
	}
	e := func() uint64 { return limbEdges[r.Intn(len(limbEdges))] }
	er := &core.ExecutionResources{
		BuiltinInstanceCounter: core.BuiltinInstanceCounter{Pedersen: e(), RangeCheck: e(), Bitwise: e(), Output: e(), Ecsda: e(),
			EcOp: e(), Keccak: e(), Poseidon: e(), SegmentArena: e(), AddMod: e(), MulMod: e(), RangeCheck96: e()},
		MemoryHoles: e(), Steps: r.U64(),
	}
	if r.Chance(60) {
		er.DataAvailability = &core.DataAvailability{L1Gas: e(), L1DataGas: e()}
	}
	if r.Chance(60) {
		er.TotalGasConsumed = &core.GasConsumed{L1Gas: e(), L1DataGas: e(), L2Gas: e()}
	}
	return er
}

func genReceipt(r *hx.RNG, h map[string]int, txHash *felt.Felt) *core.TransactionReceipt {
	rc := &core.TransactionReceipt{
		Fee: genFeltP(r, h, 10), FeeUnit: core.FeeUnit(r.Intn(2)), Events: genEvents(r, h),
		ExecutionResources: genResources(r, h), TransactionHash: txHash,
	}
	if r.Chance(4) {
		rc.TransactionHash = nil
		h["receipt:nil-hash"]++
	}
	if r.Chance(30) && !(tiny && r.Chance(80)) {
		rc.L1ToL2Message = &core.L1ToL2Message{From: genEthAddr(r), Nonce: genFeltP(r, h, 20), Payload: genFelts(r, h, 5),
			Selector: genFeltP(r, h, 10), To: genFeltP(r, h, 10)}
		h["receipt:l1tol2"]++
	}
	switch r.Intn(5) {
	case 0:
	case 1:
		rc.L2ToL1Message = []*core.L2ToL1Message{}
	default:
		for i := 1 + r.Intn(3); i > 0; i-- {
			rc.L2ToL1Message = append(rc.L2ToL1Message, &core.L2ToL1Message{From: genFeltP(r, h, 10), Payload: genFelts(r, h, 5), To: genEthAddr(r)})
		}
		h["receipt:l2tol1"]++
	}
	switch r.Intn(4) {
	case 0:
		rc.Reverted, rc.RevertReason = true, genString(r)
		h["receipt:reverted"]++
	case 1: // a reason without the flag and the flag without a reason are both storable
		rc.RevertReason = genString(r)
	case 2:
		rc.Reverted = true
	}
	return rc
}

// ---------- state updates ----------
func genFeltMap(r *hx.RNG, h map[string]int) map[felt.Felt]*felt.Felt {
	switch r.Intn(4) {
	case 0:
		return nil
	case 1:
		return map[felt.Felt]*felt.Felt{}
	}
	m := map[felt.Felt]*felt.Felt{}
	for i := 1 + r.Intn(5); i > 0; i-- {
		m[genFelt(r, h)] = genFeltP(r, h, 8)
	}
	return m
}

func genStateUpdate(r *hx.RNG, h map[string]int, blockHash *felt.Felt) *core.StateUpdate {
	su := &core.StateUpdate{BlockHash: blockHash, NewRoot: genFeltP(r, h, 10), OldRoot: genFeltP(r, h, 10)}
	if r.Chance(6) {
		su.BlockHash = nil
	}
	if r.Chance(8) {
		h["su:nil-diff"]++
		return su
	}
	d := &core.StateDiff{Nonces: genFeltMap(r, h), DeployedContracts: genFeltMap(r, h), DeclaredV1Classes: genFeltMap(r, h),
		ReplacedClasses: genFeltMap(r, h)}
	switch r.Intn(4) {
	case 0:
		h["su:storage-nil"]++
	case 1:
		d.StorageDiffs = map[felt.Felt]map[felt.Felt]*felt.Felt{}
		h["su:storage-empty"]++
	default:
		d.StorageDiffs = map[felt.Felt]map[felt.Felt]*felt.Felt{}
		for i := 1 + r.Intn(4); i > 0; i-- {
			d.StorageDiffs[genFelt(r, h)] = genFeltMap(r, h)
		}
		h["su:storage-populated"]++
	}
	switch r.Intn(4) {
	case 0:
	case 1:
		d.DeclaredV0Classes = []*felt.Felt{}
	default:
		for i := 1 + r.Intn(4); i > 0; i-- {
			d.DeclaredV0Classes = append(d.DeclaredV0Classes, genFeltP(r, h, 10))
		}
	}
	switch r.Intn(4) {
	case 0:
	case 1:
		d.MigratedClasses = map[felt.SierraClassHash]felt.CasmClassHash{}
	default:
		d.MigratedClasses = map[felt.SierraClassHash]felt.CasmClassHash{}
		for i := 1 + r.Intn(3); i > 0; i-- {
			d.MigratedClasses[felt.SierraClassHash(genFelt(r, h))] = felt.CasmClassHash(genFelt(r, h))
		}
	}
	su.StateDiff = d
	return su
}

func genCommitments(r *hx.RNG, h map[string]int) *core.BlockCommitments {
	return &core.BlockCommitments{TransactionCommitment: genFeltP(r, h, 10), EventCommitment: genFeltP(r, h, 10),
		ReceiptCommitment: genFeltP(r, h, 10), StateDiffCommitment: genFeltP(r, h, 10), StateDiffLength: limbEdges[r.Intn(len(limbEdges))]}
}

// ---------- classes ----------
func genRaw(r *hx.RNG) json.RawMessage {
	switch r.Intn(4) {
	case 0:
		return nil
	case 1:
		return json.RawMessage{}
	case 2:
		return json.RawMessage(`[{"type":"function","name":"f","inputs":[],"outputs":[{"name":"r","type":"felt"}]}]`)
	default:
		return json.RawMessage(fmt.Sprintf(`{"k":%d,"s":"%s"}`, r.U64(), strings.Repeat("a", r.Intn(300))))
	}
}

func genDepEntry(r *hx.RNG, h map[string]int) []core.DeprecatedEntryPoint {
	switch r.Intn(4) {
	case 0:
		return nil
	case 1:
		return []core.DeprecatedEntryPoint{}
	}
	var out []core.DeprecatedEntryPoint
	for i := 1 + r.Intn(4); i > 0; i-- {
		out = append(out, core.DeprecatedEntryPoint{Selector: genFeltP(r, h, 5), Offset: genFeltP(r, h, 5)})
	}
	return out
}

func genSierraEntry(r *hx.RNG, h map[string]int) []core.SierraEntryPoint {
	switch r.Intn(4) {
	case 0:
		return nil
	case 1:
		return []core.SierraEntryPoint{}
	}
	var out []core.SierraEntryPoint
	for i := 1 + r.Intn(4); i > 0; i-- {
		out = append(out, core.SierraEntryPoint{Index: limbEdges[r.Intn(len(limbEdges))], Selector: genFeltP(r, h, 5)})
	}
	return out
}

func genCasmEntry(r *hx.RNG, h map[string]int) []core.CasmEntryPoint {
	switch r.Intn(4) {
	case 0:
		return nil
	case 1:
		return []core.CasmEntryPoint{}
	}
	var out []core.CasmEntryPoint
	for i := 1 + r.Intn(3); i > 0; i-- {
		e := core.CasmEntryPoint{Offset: r.U64(), Selector: genFeltP(r, h, 5)}
		switch r.Intn(3) {
		case 1:
			e.Builtins = []string{}
		case 2:
			e.Builtins = []string{"range_check", "pedersen", ""}
		}
		out = append(out, e)
	}
	return out
}

func genSegments(r *hx.RNG, depth int) core.SegmentLengths {
	s := core.SegmentLengths{Length: limbEdges[r.Intn(len(limbEdges))]}
	if depth > 0 {
		switch r.Intn(3) {
		case 1:
			s.Children = []core.SegmentLengths{}
		case 2:
			for i := 1 + r.Intn(3); i > 0; i-- {
				s.Children = append(s.Children, genSegments(r, depth-1))
			}
		}
	}
	return s
}

func genClass(r *hx.RNG, h map[string]int) core.ClassDefinition {
	if r.Bool() {
		h["class:cairo0"]++
		return &core.DeprecatedCairoClass{Abi: genRaw(r), Externals: genDepEntry(r, h), L1Handlers: genDepEntry(r, h),
			Constructors: genDepEntry(r, h), Program: genString(r)}
	}
	h["class:sierra"]++
	c := &core.SierraClass{Abi: genString(r), AbiHash: genFeltP(r, h, 10),
		EntryPoints: core.SierraEntryPointsByType{Constructor: genSierraEntry(r, h), External: genSierraEntry(r, h), L1Handler: genSierraEntry(r, h)},
		Program:     felt.Slice[felt.Felt](genFelts(r, h, 30)), ProgramHash: genFeltP(r, h, 10),
		SemanticVersion: []string{"", "0.1.0", "1.7.0"}[r.Intn(3)]}
	if r.Chance(70) {
		h["class:sierra-compiled"]++
		cc := &core.CasmClass{Bytecode: felt.Slice[felt.Felt](genFelts(r, h, 30)), PythonicHints: genRaw(r), CompilerVersion: genString(r),
			Hints: genRaw(r), External: genCasmEntry(r, h), L1Handler: genCasmEntry(r, h), Constructor: genCasmEntry(r, h),
			BytecodeSegmentLengths: genSegments(r, 2)}
		switch r.Intn(4) {
		case 0:
		case 1:
			cc.Prime = big.NewInt(0)
		case 2:
			cc.Prime = new(big.Int).SetUint64(r.U64())
		default:
			p, _ := new(big.Int).SetString("800000000000011000000000000000000000000000000000000000000000001", 16)
			cc.Prime = p
		}
		c.Compiled = cc
	}
	return c
}
