// C07: everything stored for a block is returned unchanged by every accessor.
//
// Per generated case (a few blocks with arbitrary headers, all transaction kinds/versions, receipts,
// state updates, commitments, classes) the harness
//   - writes through core.Write* on db/memory and db/pebblev2,
//   - reads back through every core.Get* accessor and blockchain.Reader method and compares with what
//     was stored (canonical deep dump; nil vs empty is only identified where noted in findings/C07.md),
//   - compares every partial decoder (projection struct) with the full decoder on every stored record,
//   - checks encode-then-decode = identity (and re-encoding is byte-stable) for every stored value,
//   - asks the extracted Coq model for the exact database value (index header + data), the result of
//     every indexed read including out-of-range ones, and the key bytes, and compares with the raw DB.
//
// Before that it regenerates coq/theories/Gen/C07_Layouts.v from /repo (translator) and re-checks the
// layout obligation with coqc.
package main

import (
	"bytes"
	"context"
	"encoding/hex"
	"errors"
	"flag"
	"fmt"
	"io"
	"log"
	"math/big"
	"os"
	"os/exec"
	"path/filepath"
	"reflect"
	"runtime"
	"sort"
	"strings"
	"time"

	"github.com/NethermindEth/juno/blockchain"
	"github.com/NethermindEth/juno/blockchain/networks"
	"github.com/NethermindEth/juno/core"
	"github.com/NethermindEth/juno/core/felt"
	"github.com/NethermindEth/juno/db"
	"github.com/NethermindEth/juno/db/memory"
	"github.com/NethermindEth/juno/db/pebblev2"
	"github.com/NethermindEth/juno/encoder"
	_ "github.com/NethermindEth/juno/encoder/registry"
	"github.com/NethermindEth/juno/l1/eth"
	"verifharness/cmd/c07gen/layouts"
	"verifharness/hx"
)

const genPath = "/verif/coq/theories/Gen/C07_Layouts.v"

// repoPath: the juno tree whose sources the translator's guard parses (the binary itself is always
// built against the tree go.mod points to). VERIF_REPO exists for mutation experiments on a copy.
func repoPath() string {
	if p := os.Getenv("VERIF_REPO"); p != "" {
		return p
	}
	return "/repo"
}

// ---------- cases ----------
type blockCase struct {
	exp     *expBlock
	Number  uint64
	Header  *core.Header
	Txs     []core.Transaction
	Rcs     []*core.TransactionReceipt
	SU      *core.StateUpdate
	Comm    *core.BlockCommitments
	Classes []classCase
}
type classCase struct {
	Hash felt.Felt
	Def  *core.DeclaredClassDefinition
}
type chainCase struct {
	Idx    int
	Blocks []*blockCase
	L1     core.L1Head
}

// Replay identifies a failing input: the case is regenerated from (seed, case index) and may be cut
// down to one block / one transaction.
type Replay struct {
	Seed      uint64 `json:"seed"`
	Case      int    `json:"case"`
	OnlyBlock int    `json:"only_block"` // -1 = all
	OnlyTx    int    `json:"only_tx"`    // -1 = all
	Backend   string `json:"backend"`
	Accessor  string `json:"accessor"`
	Block     uint64 `json:"block_number"`
	Index     int    `json:"index"`
	Detail    string `json:"detail"`
}

var numberEdges = []uint64{0, 1, 23, 24, 255, 256, 65535, 65536, 1<<32 - 1, 1 << 32, 1<<63 - 1, 1 << 63, 1<<64 - 2, 1<<64 - 1}

func genCase(seed uint64, idx int, thorough bool, h map[string]int) *chainCase {
	r := hx.NewRNG(seed*1_000_003 + uint64(idx)*7919 + 17)
	cs := &chainCase{Idx: idx}
	used := map[felt.Felt]bool{}
	nb := 1 + r.Intn(3)
	nums := map[uint64]bool{}
	for b := 0; b < nb; b++ {
		var num uint64
		for {
			switch r.Intn(3) {
			case 0:
				num = numberEdges[r.Intn(len(numberEdges))]
			case 1:
				num = uint64(r.Intn(2000))
			default:
				num = r.U64() >> uint(r.Intn(64))
			}
			if !nums[num] {
				nums[num] = true
				break
			}
		}
		ntx := 0
		switch x := r.Intn(100); {
		case x < 14:
			ntx = 0
		case x < 28:
			ntx = 1
		case x < 38:
			ntx = 2
		case x < 93:
			ntx = 3 + r.Intn(10)
		case x < 99:
			ntx = 23 + r.Intn(12) // array header boundary 23/24
		default:
			ntx = 100 + r.Intn(200)
			if thorough {
				ntx = 256 + r.Intn(600)
			}
		}
		if idx%97 == 5 && b == 0 {
			ntx = 256 + r.Intn(60) // a 3-byte array header in the index, deterministically present
		}
		h[fmt.Sprintf("block:ntx=%s", bucketN(ntx))]++
		lean = ntx >= 23
		tiny = ntx >= 100
		bc := &blockCase{Number: num}
		nev := uint64(0)
		for i := 0; i < ntx; i++ {
			hash := genHash(r, used)
			kind := txKinds[r.Intn(len(txKinds))]
			if ntx >= 100 { // hundreds of items: keep the blob small, the model's All() is quadratic in it
				kind = []string{"deploy0", "invoke0", "l1handler0", "declare1", "deployacc1"}[r.Intn(5)]
			}
			bc.Txs = append(bc.Txs, genTx(r, h, kind, hash))
			rc := genReceipt(r, h, hash)
			nev += uint64(len(rc.Events))
			bc.Rcs = append(bc.Rcs, rc)
		}
		// the write API stores the two lists independently: exercise unequal lengths too
		switch x := r.Intn(100); {
		case x < 3 && ntx > 0:
			bc.Rcs = nil
			h["block:txs-without-receipts"]++
		case x < 5 && ntx > 1:
			bc.Rcs = bc.Rcs[:1+r.Intn(ntx-1)]
			h["block:fewer-receipts"]++
		case x < 7:
			bc.Rcs = append(bc.Rcs, genReceipt(r, h, genHash(r, used)))
			h["block:more-receipts"]++
		}
		if ntx == 0 && r.Bool() {
			bc.Txs = []core.Transaction{}
		}
		if len(bc.Rcs) == 0 && r.Bool() {
			bc.Rcs = []*core.TransactionReceipt{}
		}
		bc.Header = genHeader(r, h, num, genHash(r, used), uint64(ntx), nev)
		bc.SU = genStateUpdate(r, h, bc.Header.Hash)
		bc.Comm = genCommitments(r, h)
		for i := r.Intn(3); i > 0; i-- {
			bc.Classes = append(bc.Classes, classCase{Hash: *genHash(r, used),
				Def: &core.DeclaredClassDefinition{At: num, Class: genClass(r, h)}})
		}
		cs.Blocks = append(cs.Blocks, bc)
	}
	lean, tiny = false, false
	cs.L1 = core.L1Head{BlockNumber: r.U64(), BlockHash: genFeltP(r, h, 10), StateRoot: genFeltP(r, h, 10)}
	return cs
}

func bucketN(n int) string {
	switch {
	case n <= 2:
		return fmt.Sprint(n)
	case n < 23:
		return "3-22"
	case n < 100:
		return "23-99"
	case n < 256:
		return "100-255"
	default:
		return "256+"
	}
}

func cut(cs *chainCase, onlyBlock, onlyTx int) *chainCase {
	if onlyBlock < 0 || onlyBlock >= len(cs.Blocks) {
		return cs
	}
	b := *cs.Blocks[onlyBlock]
	b.exp = nil
	if onlyTx >= 0 && onlyTx < len(b.Txs) {
		b.Txs = []core.Transaction{b.Txs[onlyTx]}
		if onlyTx < len(b.Rcs) {
			b.Rcs = []*core.TransactionReceipt{b.Rcs[onlyTx]}
		} else {
			b.Rcs = nil
		}
	}
	return &chainCase{Idx: cs.Idx, Blocks: []*blockCase{&b}, L1: cs.L1}
}

// ---------- expectations ----------
// the single documented nil/empty identification inside a stored value: InvokeTransaction.ProofFacts
// carries `cbor:",omitempty"`, so an empty slice is not written and reads back nil
func normTx(tx core.Transaction) core.Transaction {
	if inv, ok := tx.(*core.InvokeTransaction); ok && inv.ProofFacts != nil && len(inv.ProofFacts) == 0 {
		c := *inv
		c.ProofFacts = nil
		return &c
	}
	return tx
}
func dumpTx(tx core.Transaction) string {
	if tx == nil {
		return "nil-tx"
	}
	return fmt.Sprintf("%T", tx) + dump(tx)
}
func dumpClass(c core.ClassDefinition) string {
	if c == nil {
		return "nil-class"
	}
	return fmt.Sprintf("%T", c) + dump(c)
}

type failure struct {
	accessor string
	block    uint64
	index    int
	detail   string
}

var oracleTime time.Duration

type timedOracle struct{ o *hx.Oracle }

func (t timedOracle) Ask(line string, n int) []string {
	t0 := time.Now()
	r := t.o.Ask(line, n)
	oracleTime += time.Since(t0)
	return r
}

type checker struct {
	note    string
	c       *hx.Ctx
	or      timedOracle
	backend string
	fails   []failure
	nChecks int
}

func (k *checker) fail(acc string, blk uint64, idx int, detail string) {
	k.fails = append(k.fails, failure{acc, blk, idx, detail + k.note})
}
func (k *checker) eq(acc string, blk uint64, idx int, want, got string, err error) {
	k.nChecks++
	if err != nil {
		k.fail("error:"+acc, blk, idx, "unexpected error: "+err.Error())
		return
	}
	if want != got {
		k.fail("value:"+acc, blk, idx, firstDiff(want, got))
	}
}
func (k *checker) notFound(acc string, blk uint64, idx int, err error) {
	k.nChecks++
	if !errors.Is(err, db.ErrKeyNotFound) {
		k.fail("notfound:"+acc, blk, idx, fmt.Sprintf("expected db.ErrKeyNotFound, got %v", err))
	}
}
func (k *checker) missing(acc string, blk uint64, err error, field string) {
	k.nChecks++
	if err == nil || !strings.Contains(err.Error(), "missing "+field) {
		k.fail("missing:"+acc, blk, -1, fmt.Sprintf("stored nil %s: expected the documented 'missing %s' error, got %v", field, field, err))
	}
}

func felts(tx []core.Transaction) []felt.Felt {
	out := make([]felt.Felt, len(tx))
	for i, t := range tx {
		out[i] = *t.Hash()
	}
	return out
}

func dumpTxs(txs []core.Transaction) string {
	parts := make([]string, len(txs))
	for i, t := range txs {
		parts[i] = dumpTx(t)
	}
	return fmt.Sprintf("%d[%s]", len(txs), strings.Join(parts, " | "))
}
func dumpRcs(rcs []*core.TransactionReceipt) string {
	parts := make([]string, len(rcs))
	for i, t := range rcs {
		parts[i] = dump(t)
	}
	return fmt.Sprintf("%d[%s]", len(rcs), strings.Join(parts, " | "))
}

type expBlock struct {
	header, su, comm string
	txs              []string
	rcs              []string
	allTx, allRc     string
	status           []string
	events           string
	hashes           string
	block            string
	txItems, rcItems [][]byte
	wantRaw          []byte
	rawKey           []byte
}

func hexItems(items [][]byte) string {
	if len(items) == 0 {
		return "-"
	}
	p := make([]string, len(items))
	for i, b := range items {
		p[i] = hex.EncodeToString(b)
	}
	return strings.Join(p, ",")
}

func (k *checker) expect(b *blockCase) *expBlock {
	if b.exp != nil {
		return b.exp
	}
	e := &expBlock{header: dump(b.Header), su: dump(b.SU), comm: dump(b.Comm)}
	ntx := make([]core.Transaction, len(b.Txs))
	for i, t := range b.Txs {
		ntx[i] = normTx(t)
		e.txs = append(e.txs, dumpTx(ntx[i]))
		item, err := encoder.Marshal(t)
		hx.Must(err)
		e.txItems = append(e.txItems, item)
	}
	var evs []core.TransactionEvents
	for _, r := range b.Rcs {
		e.rcs = append(e.rcs, dump(r))
		e.status = append(e.status, dump(core.TransactionExecutionStatus{Reverted: r.Reverted, RevertReason: r.RevertReason}))
		evs = append(evs, core.TransactionEvents{Events: r.Events, TransactionHash: r.TransactionHash})
		item, err := encoder.Marshal(r)
		hx.Must(err)
		e.rcItems = append(e.rcItems, item)
	}
	e.allTx, e.allRc = dumpTxs(ntx), dumpRcs(b.Rcs)
	ev := make([]string, len(evs))
	for i := range evs {
		ev[i] = dump(evs[i])
	}
	e.events = fmt.Sprintf("%d[%s]", len(evs), strings.Join(ev, " | "))
	e.hashes = dump(felts(b.Txs))
	if len(b.Txs) == 0 {
		e.hashes = dump([]felt.Felt{})
	}
	e.block = "H:" + e.header + " T:" + e.allTx + " R:" + e.allRc
	// the model's database entry
	raw := k.or.Ask("blob "+hexItems(e.txItems)+" "+hexItems(e.rcItems), 1)[0]
	var err error
	e.wantRaw, err = hex.DecodeString(raw)
	hx.Must(err)
	key := k.or.Ask(fmt.Sprintf("key btx %x %x", byte(db.BlockTransactions), b.Number), 1)[0]
	e.rawKey, err = hex.DecodeString(key)
	hx.Must(err)
	b.exp = e
	return e
}

func rawGet(d db.KeyValueReader, key []byte) ([]byte, error) {
	var out []byte
	err := d.Get(key, func(v []byte) error { out = append([]byte{}, v...); return nil })
	return out, err
}

// ---------- one case on one backend ----------
func (k *checker) run(cs *chainCase, d db.KeyValueStore, useBatch bool, tb *layouts.Table, withModel bool) {
	exps := make([]*expBlock, len(cs.Blocks))
	for i, b := range cs.Blocks {
		exps[i] = k.expect(b)
	}
	// ---- write, the way blockchain/statebackend/block_ops.go does ----
	msgOwner := map[string]*felt.Felt{}
	write := func(w db.KeyValueWriter) error {
		for _, b := range cs.Blocks {
			if err := core.WriteBlockHeader(w, b.Header); err != nil {
				return err
			}
			if err := core.WriteTransactionsAndReceipts(w, b.Number, b.Txs, b.Rcs); err != nil {
				return err
			}
			if err := core.WriteStateUpdateByBlockNum(w, b.Number, b.SU); err != nil {
				return err
			}
			if err := core.WriteBlockCommitment(w, b.Number, b.Comm); err != nil {
				return err
			}
			if err := core.WriteL1HandlerMsgHashes(w, b.Txs); err != nil {
				return err
			}
			for _, c := range b.Classes {
				if err := core.WriteClass(w, &c.Hash, c.Def); err != nil {
					return err
				}
			}
			if err := core.WriteChainHeight(w, b.Number); err != nil {
				return err
			}
			for _, t := range b.Txs {
				if l, ok := t.(*core.L1HandlerTransaction); ok {
					msgOwner[string(l.MessageHash())] = l.Hash()
				}
			}
		}
		return core.WriteL1Head(w, &cs.L1)
	}
	var err error
	if useBatch {
		batch := d.NewBatch()
		if err = write(batch); err == nil {
			err = batch.Write()
		}
	} else {
		err = write(d)
	}
	if err != nil {
		k.fail("write", 0, -1, err.Error())
		return
	}
	// writing must not have modified what was handed in
	for i, b := range cs.Blocks {
		k.eq("stored-object-unchanged:header", b.Number, -1, exps[i].header, dump(b.Header), nil)
		k.eq("stored-object-unchanged:state-update", b.Number, -1, exps[i].su, dump(b.SU), nil)
	}

	bc := blockchain.New(d, &networks.Mainnet)
	var reader blockchain.Reader = bc
	last := cs.Blocks[len(cs.Blocks)-1]

	for bi, b := range cs.Blocks {
		e := exps[bi]
		n := b.Number
		hash := b.Header.Hash
		// ---- headers ----
		h1, err := core.GetBlockHeaderByNumber(d, n)
		k.eq("core.GetBlockHeaderByNumber", n, -1, e.header, dump(h1), err)
		h2, err := core.GetBlockHeaderByHash(d, hash)
		k.eq("core.GetBlockHeaderByHash", n, -1, e.header, dump(h2), err)
		nn, err := core.GetBlockHeaderNumberByHash(d, hash)
		k.eq("core.GetBlockHeaderNumberByHash", n, -1, dump(n), dump(nn), err)
		hh, err := core.GetBlockHeaderHashByNumber(d, n)
		k.eq("core.GetBlockHeaderHashByNumber", n, -1, dump(hash), dump(hh), err)
		root, err := core.GetGlobalStateRootByBlockNumber(d, n)
		if b.Header.GlobalStateRoot == nil {
			k.missing("core.GetGlobalStateRootByBlockNumber", n, err, "GlobalStateRoot")
		} else {
			k.eq("core.GetGlobalStateRootByBlockNumber", n, -1, dump(b.Header.GlobalStateRoot), dump(root), err)
		}
		cnt, err := core.GetBlockTransactionCountByNumber(d, n)
		k.eq("core.GetBlockTransactionCountByNumber", n, -1, dump(b.Header.TransactionCount), dump(cnt), err)
		ts, err := core.GetBlockHeaderTimestampByNumber(d, n)
		k.eq("core.GetBlockHeaderTimestampByNumber", n, -1, dump(b.Header.Timestamp), dump(ts), err)
		bl, err := core.GetBlockHeaderEventsBloomByNumber(d, n)
		if b.Header.EventsBloom == nil {
			k.missing("core.GetBlockHeaderEventsBloomByNumber", n, err, "EventsBloom")
		} else {
			k.eq("core.GetBlockHeaderEventsBloomByNumber", n, -1, dump(b.Header.EventsBloom), dump(bl), err)
		}
		ph, pr, err := core.GetBlockHeaderHashAndStateRootByNumber(d, n)
		if b.Header.GlobalStateRoot == nil {
			k.missing("core.GetBlockHeaderHashAndStateRootByNumber", n, err, "GlobalStateRoot")
		} else {
			k.eq("core.GetBlockHeaderHashAndStateRootByNumber", n, -1, dump(hash)+dump(b.Header.GlobalStateRoot), dump(ph)+dump(pr), err)
		}
		// ---- whole lists (bulk decoders), under the default GOMAXPROCS and, for larger blocks, under 3 ----
		m := len(b.Txs)
		if len(b.Rcs) > m {
			m = len(b.Rcs)
		}
		var bt core.BlockTransactions
		bulk := func() {
			txs, err := core.GetTransactionsByBlockNumber(d, n)
			k.eq("core.GetTransactionsByBlockNumber", n, -1, e.allTx, dumpTxs(txs), err)
			var iterTxs []core.Transaction
			var iterErr error
			for t, err := range core.GetTransactionsByBlockNumberIter(d, n) {
				if err != nil {
					iterErr = err
					break
				}
				iterTxs = append(iterTxs, t)
			}
			k.eq("core.GetTransactionsByBlockNumberIter", n, -1, e.allTx, dumpTxs(iterTxs), iterErr)
			rcs, err := core.GetReceiptsByBlockNumber(d, n)
			k.eq("core.GetReceiptsByBlockNumber", n, -1, e.allRc, dumpRcs(rcs), err)
			t2, r2, err := core.GetTransactionsAndReceiptsByBlockNumber(d, n)
			k.eq("core.GetTransactionsAndReceiptsByBlockNumber", n, -1, e.allTx+e.allRc, dumpTxs(t2)+dumpRcs(r2), err)
			evs, err := core.GetTransactionEventsByBlockNumber(d, n)
			evd := make([]string, len(evs))
			for i := range evs {
				evd[i] = dump(evs[i])
			}
			k.eq("core.GetTransactionEventsByBlockNumber", n, -1, e.events, fmt.Sprintf("%d[%s]", len(evs), strings.Join(evd, " | ")), err)
			hs, err := core.GetTransactionHashesByBlockNumber(d, n)
			k.eq("core.GetTransactionHashesByBlockNumber", n, -1, e.hashes, dump(hs), err)
			blk, err := core.GetBlockByNumber(d, n)
			if err == nil {
				k.eq("core.GetBlockByNumber", n, -1, e.block, "H:"+dump(blk.Header)+" T:"+dumpTxs(blk.Transactions)+" R:"+dumpRcs(blk.Receipts), nil)
			} else {
				k.eq("core.GetBlockByNumber", n, -1, "", "", err)
			}
			bt, err = core.BlockTransactionsBucket.Get(d, n)
			if err != nil {
				k.eq("core.BlockTransactionsBucket.Get", n, -1, "", "", err)
			} else {
				ta, err := bt.Transactions().All()
				k.eq("BlockTransactions.Transactions.All", n, -1, e.allTx, dumpTxs(ta), err)
				ra, err := bt.Receipts().All()
				k.eq("BlockTransactions.Receipts.All", n, -1, e.allRc, dumpRcs(ra), err)
				// bulk against by-index, element by element
				for i := range ta {
					one, err := bt.Transactions().Get(i)
					k.nChecks++
					if err != nil || dumpTx(one) != dumpTx(ta[i]) {
						k.fail("bulk-vs-index:transactions", n, i, fmt.Sprintf("All()[%d] of %d = %.80s, Get(%d) = %.80s (err %v)", i, len(ta), dumpTx(ta[i]), i, dumpTx(one), err))
						break
					}
				}
				for i := range ra {
					one, err := bt.Receipts().Get(i)
					k.nChecks++
					if err != nil || dump(one) != dump(ra[i]) {
						k.fail("bulk-vs-index:receipts", n, i, fmt.Sprintf("All()[%d] of %d = %.80s, Get(%d) = %.80s (err %v)", i, len(ra), dump(ra[i]), i, dump(one), err))
						break
					}
				}
			}
		}
		bulk()
		// ---- lazy results held across reads of ANOTHER block's entry: an iterator / lazy slice obtained for block n
		// must still yield block n's items after other entries were decoded in between (before the first item and
		// in the middle of the iteration) ----
		if n > 0 {
			other := n - 1
			touch := func() {
				_, _ = core.GetTransactionsByBlockNumber(d, other)
				_, _ = core.GetReceiptsByBlockNumber(d, other)
				_, _ = core.GetTransactionHashesByBlockNumber(d, other)
				_, _ = core.GetTransactionEventsByBlockNumber(d, other)
				if _, err := core.GetBlockByNumber(d, other); err == nil {
					_, _ = core.BlockTransactionsBucket.Get(d, other)
				}
			}
			for _, mid := range []int{0, 1, len(b.Txs) / 2} {
				seq := core.GetTransactionsByBlockNumberIter(d, n)
				heldBT, heldErr := core.BlockTransactionsBucket.Get(d, n)
				if mid == 0 {
					touch()
				}
				var got []core.Transaction
				var gerr error
				i := 0
				for t, err := range seq {
					if err != nil {
						gerr = err
						break
					}
					got = append(got, t)
					i++
					if i == mid {
						touch()
					}
				}
				k.eq("held-across-reads:core.GetTransactionsByBlockNumberIter", n, mid, e.allTx, dumpTxs(got), gerr)
				if heldErr == nil {
					ta, err := heldBT.Transactions().All()
					k.eq("held-across-reads:BlockTransactions.Transactions.All", n, mid, e.allTx, dumpTxs(ta), err)
					ra, err := heldBT.Receipts().All()
					k.eq("held-across-reads:BlockTransactions.Receipts.All", n, mid, e.allRc, dumpRcs(ra), err)
				}
				if len(b.Txs) < 2 {
					break
				}
			}
		}
		if m >= 200 {
			old := runtime.GOMAXPROCS(3)
			k.note = " [GOMAXPROCS=3]"
			bulk()
			runtime.GOMAXPROCS(old)
			k.note = ""
		}
		// ---- per index, including out of range ----
		// blocks of more than 300 items: every database-level by-index accessor re-reads the whole
		// entry, so those run on a boundary-heavy sample (the in-memory element-wise comparison above
		// covers every index)
		idxs := []int{}
		if m <= 300 {
			for i := 0; i < m; i++ {
				idxs = append(idxs, i)
			}
		} else {
			seen := map[int]bool{}
			for _, i := range []int{0, 1, 2, 254, 255, 256, 257, 510, 511, 512, 513, 1022, 1023, 1024, 1025, 4094, 4095, 4096, 4097, m / 3, m / 2, m - 3, m - 2, m - 1} {
				if i >= 0 && i < m && !seen[i] {
					seen[i] = true
					idxs = append(idxs, i)
				}
			}
			sort.Ints(idxs)
		}
		probes := []uint64{}
		for _, i := range idxs {
			probes = append(probes, uint64(i))
		}
		nIn := len(probes)
		probes = append(probes, uint64(m), uint64(m)+1, 1<<31, 1<<32, 1<<63-1, 1<<63, 1<<64-1)
		for _, u := range probes {
			i := int(u)
			tx, err := core.GetTransactionByBlockAndIndex(d, n, u)
			if u < uint64(len(b.Txs)) {
				k.eq("core.GetTransactionByBlockAndIndex", n, i, e.txs[i], dumpTx(tx), err)
			} else {
				k.notFound("core.GetTransactionByBlockAndIndex", n, i, err)
			}
			rc, err := core.GetReceiptByBlockAndIndex(d, n, u)
			if u < uint64(len(b.Rcs)) {
				k.eq("core.GetReceiptByBlockAndIndex", n, i, e.rcs[i], dump(rc), err)
			} else {
				k.notFound("core.GetReceiptByBlockAndIndex", n, i, err)
			}
			st, err := core.GetTransactionExecutionStatusByBlockAndIndex(d, n, u)
			if u < uint64(len(b.Rcs)) {
				k.eq("core.GetTransactionExecutionStatusByBlockAndIndex", n, i, e.status[i], dump(st), err)
			} else {
				k.notFound("core.GetTransactionExecutionStatusByBlockAndIndex", n, i, err)
			}
			ptx, prc, err := core.GetTransactionAndReceiptByBlockAndIndex(d, n, u)
			if u < uint64(len(b.Txs)) && u < uint64(len(b.Rcs)) {
				k.eq("core.GetTransactionAndReceiptByBlockAndIndex", n, i, e.txs[i]+e.rcs[i], dumpTx(ptx)+dump(prc), err)
			} else {
				k.notFound("core.GetTransactionAndReceiptByBlockAndIndex", n, i, err)
			}
			// blockchain.Reader
			tx, err = reader.TransactionByBlockNumberAndIndex(n, u)
			if u < uint64(len(b.Txs)) {
				k.eq("Reader.TransactionByBlockNumberAndIndex", n, i, e.txs[i], dumpTx(tx), err)
			} else {
				k.notFound("Reader.TransactionByBlockNumberAndIndex", n, i, err)
			}
			st, err = reader.TransactionExecutionStatusByBlockNumberAndIndex(n, u)
			if u < uint64(len(b.Rcs)) {
				k.eq("Reader.TransactionExecutionStatusByBlockNumberAndIndex", n, i, e.status[i], dump(st), err)
			} else {
				k.notFound("Reader.TransactionExecutionStatusByBlockNumberAndIndex", n, i, err)
			}
			atx, arc, abh, err := reader.TransactionAndReceiptByBlockNumberAndIndex(n, u)
			if u < uint64(len(b.Txs)) && u < uint64(len(b.Rcs)) {
				k.eq("Reader.TransactionAndReceiptByBlockNumberAndIndex", n, i, e.txs[i]+e.rcs[i]+dump(hash), dumpTx(atx)+dump(&arc)+dump(abh), err)
			} else {
				k.notFound("Reader.TransactionAndReceiptByBlockNumberAndIndex", n, i, err)
			}
		}
		// ---- by transaction hash ----
		for _, i := range idxs {
			if i >= len(b.Txs) {
				continue
			}
			t := b.Txs[i]
			th := t.Hash()
			tx, err := core.GetTransactionByHash(d, (*felt.TransactionHash)(th))
			k.eq("core.GetTransactionByHash", n, i, e.txs[i], dumpTx(tx), err)
			loc, err := core.TransactionBlockNumbersAndIndicesByHashBucket.Get(d, (*felt.TransactionHash)(th))
			k.eq("core.TransactionBlockNumbersAndIndicesByHashBucket.Get", n, i, dump(db.BlockNumIndexKey{Number: n, Index: uint64(i)}), dump(loc), err)
			tx, err = reader.TransactionByHash(th)
			k.eq("Reader.TransactionByHash", n, i, e.txs[i], dumpTx(tx), err)
			bn, bi2, err := reader.BlockNumberAndIndexByTxHash((*felt.TransactionHash)(th))
			k.eq("Reader.BlockNumberAndIndexByTxHash", n, i, fmt.Sprint(n, i), fmt.Sprint(bn, bi2), err)
			rc, bh, rn, err := reader.Receipt(th)
			if i < len(b.Rcs) {
				k.eq("Reader.Receipt", n, i, e.rcs[i]+dump(hash)+dump(n), dump(rc)+dump(bh)+dump(rn), err)
			} else {
				k.notFound("Reader.Receipt", n, i, err)
			}
			if l, ok := t.(*core.L1HandlerTransaction); ok {
				mh := l.MessageHash()
				want := msgOwner[string(mh)]
				got, err := core.GetL1HandlerTxnHashByMsgHash(d, mh)
				k.eq("core.GetL1HandlerTxnHashByMsgHash", n, i, dump(*want), dump(got), err)
				var eh eth.Hash
				copy(eh[:], mh)
				got, err = reader.L1HandlerTxnHash(&eh)
				k.eq("Reader.L1HandlerTxnHash", n, i, dump(*want), dump(got), err)
			}
		}
		// ---- state update, commitments, classes ----
		su, err := core.GetStateUpdateByBlockNum(d, n)
		k.eq("core.GetStateUpdateByBlockNum", n, -1, e.su, dump(su), err)
		su, err = core.GetStateUpdateByHash(d, hash)
		k.eq("core.GetStateUpdateByHash", n, -1, e.su, dump(su), err)
		cm, err := core.GetBlockCommitmentByBlockNum(d, n)
		k.eq("core.GetBlockCommitmentByBlockNum", n, -1, e.comm, dump(cm), err)
		for ci, c := range b.Classes {
			got, err := core.GetClass(d, &c.Hash)
			if err != nil {
				k.eq("core.GetClass", n, ci, "", "", err)
			} else {
				k.eq("core.GetClass", n, ci, dump(c.Def.At)+dumpClass(c.Def.Class), dump(got.At)+dumpClass(got.Class), nil)
			}
			has, err := core.HasClass(d, &c.Hash)
			k.eq("core.HasClass", n, ci, "true", dump(has), err)
		}
		// ---- blockchain.Reader: block level ----
		rb, err := reader.BlockByNumber(n)
		if err == nil {
			k.eq("Reader.BlockByNumber", n, -1, e.block, "H:"+dump(rb.Header)+" T:"+dumpTxs(rb.Transactions)+" R:"+dumpRcs(rb.Receipts), nil)
		} else {
			k.eq("Reader.BlockByNumber", n, -1, "", "", err)
		}
		rb, err = reader.BlockByHash(hash)
		if err == nil {
			k.eq("Reader.BlockByHash", n, -1, e.block, "H:"+dump(rb.Header)+" T:"+dumpTxs(rb.Transactions)+" R:"+dumpRcs(rb.Receipts), nil)
		} else {
			k.eq("Reader.BlockByHash", n, -1, "", "", err)
		}
		rh, err := reader.BlockHeaderByNumber(n)
		k.eq("Reader.BlockHeaderByNumber", n, -1, e.header, dump(rh), err)
		rh, err = reader.BlockHeaderByHash(hash)
		k.eq("Reader.BlockHeaderByHash", n, -1, e.header, dump(rh), err)
		rhh, err := reader.BlockHeaderHashByNumber(n)
		k.eq("Reader.BlockHeaderHashByNumber", n, -1, dump(hash), dump(rhh), err)
		rc2, err := reader.BlockTransactionCountByNumber(n)
		k.eq("Reader.BlockTransactionCountByNumber", n, -1, dump(b.Header.TransactionCount), dump(rc2), err)
		rn, err := reader.BlockNumberByHash(hash)
		k.eq("Reader.BlockNumberByHash", n, -1, dump(n), dump(rn), err)
		rt, err := reader.TransactionsByBlockNumber(n)
		k.eq("Reader.TransactionsByBlockNumber", n, -1, e.allTx, dumpTxs(rt), err)
		rt, rr, err := reader.TransactionsAndReceiptsByBlockNumber(n)
		k.eq("Reader.TransactionsAndReceiptsByBlockNumber", n, -1, e.allTx+e.allRc, dumpTxs(rt)+dumpRcs(rr), err)
		rhs, err := reader.TransactionHashesByBlockNumber(n)
		k.eq("Reader.TransactionHashesByBlockNumber", n, -1, e.hashes, dump(rhs), err)
		rsu, err := reader.StateUpdateByNumber(n)
		k.eq("Reader.StateUpdateByNumber", n, -1, e.su, dump(rsu), err)
		rsu, err = reader.StateUpdateByHash(hash)
		k.eq("Reader.StateUpdateByHash", n, -1, e.su, dump(rsu), err)
		rcm, err := reader.BlockCommitmentsByNumber(n)
		k.eq("Reader.BlockCommitmentsByNumber", n, -1, e.comm, dump(rcm), err)
		if b.Header.GlobalStateRoot != nil {
			gr, err := bc.GlobalStateRootByBlockNumber(n)
			k.eq("Blockchain.GlobalStateRootByBlockNumber", n, -1, dump(b.Header.GlobalStateRoot), dump(gr), err)
		}

		// ---- raw database value against the model's prediction ----
		raw, err := rawGet(d, e.rawKey)
		k.nChecks++
		if err != nil {
			k.fail("model-key:block-transactions", n, -1, fmt.Sprintf("no database entry under the model's key %x: %v", e.rawKey, err))
		} else if !bytes.Equal(raw, e.wantRaw) {
			k.fail("model-blob", n, -1, fmt.Sprintf("database value differs from the model's index header + data: %s", firstDiff(hex.EncodeToString(e.wantRaw), hex.EncodeToString(raw))))
		}
		if withModel && err == nil {
			mp := probes
			if m > 24 { // the model re-walks the whole blob per read: first, last and a spread of indices
				mp = []uint64{0, 1, 2, uint64(m) / 2, uint64(m) - 3, uint64(m) - 2, uint64(m) - 1}
				if m < 400 {
					for j := 1; j < 12; j++ {
						mp = append(mp, uint64(j*m/12))
					}
				} else {
					mp = []uint64{0, uint64(m) / 2, uint64(m) - 1}
				}
				mp = append(mp, probes[nIn:nIn+3]...)
			}
			k.modelReads(b, e, raw, bt, mp)
		}
		k.partialVsFull(d, b, e, tb)
	}

	// ---- chain level ----
	ht, err := core.GetChainHeight(d)
	k.eq("core.GetChainHeight", last.Number, -1, dump(last.Number), dump(ht), err)
	ht, err = reader.Height()
	k.eq("Reader.Height", last.Number, -1, dump(last.Number), dump(ht), err)
	le := exps[len(exps)-1]
	hd, err := reader.Head()
	if err == nil {
		k.eq("Reader.Head", last.Number, -1, le.block, "H:"+dump(hd.Header)+" T:"+dumpTxs(hd.Transactions)+" R:"+dumpRcs(hd.Receipts), nil)
	} else {
		k.eq("Reader.Head", last.Number, -1, "", "", err)
	}
	hh, err := reader.HeadsHeader()
	k.eq("Reader.HeadsHeader", last.Number, -1, le.header, dump(hh), err)
	l1, err := core.GetL1Head(d)
	k.eq("core.GetL1Head", 0, -1, dump(cs.L1), dump(l1), err)
	l1, err = reader.L1Head()
	k.eq("Reader.L1Head", 0, -1, dump(cs.L1), dump(l1), err)

	// ---- keys: iteration order of the block-transactions bucket = numeric order of block numbers ----
	nums := make([]uint64, 0, len(cs.Blocks))
	for _, b := range cs.Blocks {
		nums = append(nums, b.Number)
	}
	sort.Slice(nums, func(i, j int) bool { return nums[i] < nums[j] })
	it, err := d.NewIterator([]byte{byte(db.BlockTransactions)}, true)
	if err == nil {
		var keys [][]byte
		for ok := it.First(); ok && it.Valid(); ok = it.Next() {
			keys = append(keys, append([]byte{}, it.Key()...))
		}
		it.Close()
		k.nChecks++
		if len(keys) != len(nums) {
			k.fail("model-key:bucket-scan", 0, -1, fmt.Sprintf("%d entries in the block-transactions bucket, %d blocks stored", len(keys), len(nums)))
		} else {
			for i, n := range nums {
				want := k.or.Ask(fmt.Sprintf("key btx %x %x", byte(db.BlockTransactions), n), 1)[0]
				if hex.EncodeToString(keys[i]) != want {
					k.fail("model-key:order", n, i, fmt.Sprintf("entry %d of the bucket scan is %x, the model's key of the %d-th smallest block number is %s", i, keys[i], i, want))
				}
			}
		}
	}
	// not stored => not found
	absent := uint64(0xABCDEF0123)
	if _, err := core.GetBlockHeaderByNumber(d, absent); true {
		k.notFound("core.GetBlockHeaderByNumber(absent)", absent, -1, err)
	}
	if _, err := core.GetTransactionsByBlockNumber(d, absent); true {
		k.notFound("core.GetTransactionsByBlockNumber(absent)", absent, -1, err)
	}
	if _, err := core.GetTransactionByBlockAndIndex(d, absent, 0); true {
		k.notFound("core.GetTransactionByBlockAndIndex(absent)", absent, 0, err)
	}
}

func parseRes(s string) (kind string, data string) {
	if strings.HasPrefix(s, "ok:") {
		d := s[3:]
		if d == "e" || d == "-" {
			d = ""
		}
		return "ok", d
	}
	return s, ""
}

// modelReads: the model's reading of the real raw value must agree with the real accessors at every
// probed index and with the real index header.
func (k *checker) modelReads(b *blockCase, e *expBlock, raw []byte, bt core.BlockTransactions, probes []uint64) {
	us := make([]string, len(probes))
	for i, u := range probes {
		us[i] = fmt.Sprintf("%x", u)
	}
	// All() in the model is quadratic in the blob size: skipped for blocks of >= 100 items
	lite := len(b.Txs) >= 100 || len(b.Rcs) >= 100
	var rep []string
	if lite {
		rep = k.or.Ask("blocklite "+hex.EncodeToString(raw)+" "+strings.Join(us, ","), 3)
	} else {
		rep = k.or.Ask("block "+hex.EncodeToString(raw)+" "+strings.Join(us, ","), 5)
	}
	ints := func(l []int) string {
		if len(l) == 0 {
			return "-"
		}
		p := make([]string, len(l))
		for i, x := range l {
			p[i] = fmt.Sprint(x)
		}
		return strings.Join(p, ",")
	}
	k.nChecks++
	wantHdr := fmt.Sprintf("hdr %s %s %d", ints(bt.Indexes.Transactions), ints(bt.Indexes.Receipts), len(bt.Data))
	if rep[0] != wantHdr {
		k.fail("model-index-header", b.Number, -1, fmt.Sprintf("model parsed %q, real decoder %q", rep[0], wantHdr))
	}
	check := func(line, tag string, items [][]byte) {
		fs := strings.Fields(line)
		if len(fs) != len(probes)+1 || fs[0] != tag {
			k.fail("model-read:"+tag, b.Number, -1, "malformed oracle reply "+line)
			return
		}
		for i, u := range probes {
			kind, data := parseRes(fs[i+1])
			k.nChecks++
			if u < uint64(len(items)) {
				if kind != "ok" || data != hex.EncodeToString(items[u]) {
					k.fail("model-read:"+tag, b.Number, int(u), fmt.Sprintf("model reads %s, stored item is %x", fs[i+1], items[u]))
				}
			} else if kind != "notfound" {
				k.fail("model-read:"+tag+"-out-of-range", b.Number, int(u), fmt.Sprintf("model reads %s at an out-of-range index", fs[i+1]))
			}
		}
	}
	check(rep[1], "tx", e.txItems)
	check(rep[2], "rc", e.rcItems)
	if lite {
		return
	}
	k.nChecks += 2
	if want := "alltx ok:" + hexItems(e.txItems); rep[3] != want {
		k.fail("model-read:all-tx", b.Number, -1, firstDiff(want, rep[3]))
	}
	if want := "allrc ok:" + hexItems(e.rcItems); rep[4] != want {
		k.fail("model-read:all-rc", b.Number, -1, firstDiff(want, rep[4]))
	}
}

func derefDump(v any) string {
	rv := reflect.ValueOf(v)
	for rv.IsValid() && rv.Kind() == reflect.Pointer && !rv.IsNil() {
		rv = rv.Elem()
	}
	var sb strings.Builder
	dumpValue(rv, &sb)
	return sb.String()
}

// partialVsFull: every projection struct decoded from the stored bytes of a record must give, field by
// field, what the full struct decoded from the same bytes gives.
func (k *checker) partialVsFull(d db.KeyValueStore, b *blockCase, e *expBlock, tb *layouts.Table) {
	cmp := func(proj string, recKind string, idx int, raw []byte, full any) {
		got, err := core.VerifDecodeProjection(proj, raw)
		k.nChecks++
		if err != nil {
			k.fail("partial-vs-full:"+proj, b.Number, idx, "projection fails to decode a record the full decoder accepts: "+err.Error())
			return
		}
		fv := reflect.ValueOf(full)
		for fv.Kind() == reflect.Pointer || fv.Kind() == reflect.Interface {
			fv = fv.Elem()
		}
		for name, val := range got {
			f := fv.FieldByName(name)
			if !f.IsValid() {
				k.fail("partial-vs-full:"+proj, b.Number, idx, "projection field "+name+" does not exist in "+recKind)
				continue
			}
			if w, g := derefDump(f.Interface()), derefDump(val); w != g {
				k.fail("partial-vs-full:"+proj, b.Number, idx, fmt.Sprintf("field %s of %s: %s", name, recKind, firstDiff(w, g)))
			}
		}
	}
	hraw, err := rawGet(d, db.BlockHeaderByNumberKey(b.Number))
	if err != nil {
		k.fail("model-key:header", b.Number, -1, err.Error())
		return
	}
	wantKey := k.or.Ask(fmt.Sprintf("key num %x %x", byte(db.BlockHeadersByNumber), b.Number), 1)[0]
	k.nChecks++
	if hex.EncodeToString(db.BlockHeaderByNumberKey(b.Number)) != wantKey {
		k.fail("model-key:header", b.Number, -1, "db.BlockHeaderByNumberKey differs from bucket ++ be64 n")
	}
	var hfull core.Header
	if err := encoder.Unmarshal(hraw, &hfull); err != nil {
		k.fail("roundtrip:Header", b.Number, -1, err.Error())
		return
	}
	for _, p := range tb.Projections {
		switch p.Fulls[0] {
		case "Header":
			cmp(p.Name, "Header", -1, hraw, &hfull)
		case "TransactionReceipt":
			for i, item := range e.rcItems {
				var full core.TransactionReceipt
				if err := encoder.Unmarshal(item, &full); err != nil {
					k.fail("roundtrip:TransactionReceipt", b.Number, i, err.Error())
					continue
				}
				cmp(p.Name, "TransactionReceipt", i, item, &full)
			}
		default: // the union projection over the five transaction types
			for i, item := range e.txItems {
				var full core.Transaction
				if err := encoder.Unmarshal(item, &full); err != nil {
					k.fail("roundtrip:Transaction", b.Number, i, err.Error())
					continue
				}
				cmp(p.Name, fmt.Sprintf("%T", full), i, item, full)
			}
		}
	}
}

// ---------- encode-then-decode identity on every storable value ----------
func roundtrip[T any](k *checker, what string, blk uint64, idx int, v T, want string, d func(T) string) {
	k.nChecks++
	enc, err := encoder.Marshal(v)
	if err != nil {
		k.fail("roundtrip-encode:"+what, blk, idx, err.Error())
		return
	}
	var back T
	if err := encoder.Unmarshal(enc, &back); err != nil {
		k.fail("roundtrip-decode:"+what, blk, idx, err.Error())
		return
	}
	if got := d(back); got != want {
		k.fail("roundtrip:"+what, blk, idx, firstDiff(want, got))
		return
	}
	enc2, err := encoder.Marshal(back)
	if err != nil || !bytes.Equal(enc, enc2) {
		k.fail("roundtrip-stable:"+what, blk, idx, "re-encoding the decoded value gives different bytes")
	}
}

func (k *checker) roundtrips(cs *chainCase) {
	for _, b := range cs.Blocks {
		roundtrip(k, "Header", b.Number, -1, b.Header, dump(b.Header), func(x *core.Header) string { return dump(x) })
		for i, t := range b.Txs {
			roundtrip(k, fmt.Sprintf("%T", t), b.Number, i, t, dumpTx(normTx(t)), dumpTx)
		}
		for i, r := range b.Rcs {
			roundtrip(k, "TransactionReceipt", b.Number, i, r, dump(r), func(x *core.TransactionReceipt) string { return dump(x) })
			for j, ev := range r.Events {
				if j < 2 {
					roundtrip(k, "Event", b.Number, i, ev, dump(ev), func(x *core.Event) string { return dump(x) })
				}
			}
		}
		roundtrip(k, "StateUpdate", b.Number, -1, b.SU, dump(b.SU), func(x *core.StateUpdate) string { return dump(x) })
		roundtrip(k, "BlockCommitments", b.Number, -1, b.Comm, dump(b.Comm), func(x *core.BlockCommitments) string { return dump(x) })
		for i, c := range b.Classes {
			roundtrip(k, fmt.Sprintf("%T", c.Def.Class), b.Number, i, c.Def.Class, dumpClass(c.Def.Class), dumpClass)
			k.nChecks++
			bin, err := c.Def.MarshalBinary()
			var back core.DeclaredClassDefinition
			if err == nil {
				err = back.UnmarshalBinary(bin)
			}
			if err != nil {
				k.fail("roundtrip:DeclaredClassDefinition", b.Number, i, err.Error())
			} else if w, g := dump(c.Def.At)+dumpClass(c.Def.Class), dump(back.At)+dumpClass(back.Class); w != g {
				k.fail("roundtrip:DeclaredClassDefinition", b.Number, i, firstDiff(w, g))
			}
		}
		// key / value codecs of db/schema.go against the model
		key := db.BlockNumIndexKey{Number: b.Number, Index: uint64(len(b.Txs))}
		k.nChecks += 2
		if got := k.or.Ask(fmt.Sprintf("key bni %x %x", key.Number, key.Index), 1)[0]; got != hex.EncodeToString(key.Marshal()) {
			k.fail("model-key:bni", b.Number, -1, "BlockNumIndexKey.Marshal differs from be64 n ++ be64 i")
		}
		var kb db.BlockNumIndexKey
		if err := kb.UnmarshalBinary(key.Marshal()); err != nil || kb != key {
			k.fail("roundtrip:BlockNumIndexKey", b.Number, -1, "UnmarshalBinary(Marshal) is not the identity")
		}
		if got := k.or.Ask("dec bni "+hex.EncodeToString(key.Marshal()), 1)[0]; got != fmt.Sprintf("%x %x", key.Number, key.Index) {
			k.fail("model-key:bni-dec", b.Number, -1, "model decodes "+got)
		}
		hb := b.Header.Hash.Marshal()
		var bi big.Int
		b.Header.Hash.BigInt(&bi)
		if got := k.or.Ask("key felt "+bi.Text(16), 1)[0]; got != hex.EncodeToString(hb) {
			k.fail("model-key:felt", b.Number, -1, "felt.Marshal differs from 32 big-endian bytes")
		}
		var fb felt.Felt
		fb.Unmarshal(hb)
		if !fb.Equal(b.Header.Hash) {
			k.fail("roundtrip:felt-bytes", b.Number, -1, "felt Unmarshal(Marshal) is not the identity")
		}
	}
	roundtrip(k, "L1Head", 0, -1, &cs.L1, dump(&cs.L1), func(x *core.L1Head) string { return dump(x) })
}

// keyOrder: random pairs of block numbers; numeric order = byte order of the model's keys = byte order
// of the real keys (both be64 number keys and CBOR block-transaction keys).
func keyOrder(k *checker, r *hx.RNG) {
	pick := func() uint64 {
		switch r.Intn(3) {
		case 0:
			return numberEdges[r.Intn(len(numberEdges))]
		case 1:
			return limbEdges[r.Intn(len(limbEdges))] + uint64(r.Intn(3)) - 1
		default:
			return r.U64() >> uint(r.Intn(64))
		}
	}
	a, b := pick(), pick()
	ka := k.or.Ask(fmt.Sprintf("key cbor %x", a), 1)[0]
	kb := k.or.Ask(fmt.Sprintf("key cbor %x", b), 1)[0]
	ea, _ := encoder.Marshal(a)
	eb, _ := encoder.Marshal(b)
	k.nChecks += 3
	if hex.EncodeToString(ea) != ka || hex.EncodeToString(eb) != kb {
		k.fail("model-key:cbor-uint", a, -1, fmt.Sprintf("encoder.Marshal(uint64) %x / %x, model %s / %s", ea, eb, ka, kb))
	}
	lex := k.or.Ask("lex "+ka+" "+kb, 1)[0]
	if (lex == "t") != (a < b) || (bytes.Compare(ea, eb) < 0) != (a < b) {
		k.fail("model-key:cbor-order", a, -1, fmt.Sprintf("%d vs %d: numeric %v, model lex %s, real bytes %v", a, b, a < b, lex, bytes.Compare(ea, eb) < 0))
	}
	ha, hb := db.BlockHeaderByNumberKey(a), db.BlockHeaderByNumberKey(b)
	if (bytes.Compare(ha, hb) < 0) != (a < b) {
		k.fail("model-key:be64-order", a, -1, fmt.Sprintf("%d vs %d", a, b))
	}
	if a != b {
		pre := k.or.Ask("pre "+ka+" "+kb, 1)[0]
		if pre == "t" || bytes.HasPrefix(eb, ea) {
			k.fail("model-key:cbor-prefix", a, -1, fmt.Sprintf("key of %d is a prefix of the key of %d", a, b))
		}
	}
}

// utf8Probe: regression input for /repo b7e794b. A Go string is a storable value whatever its bytes; the
// encoder writes a string with invalid UTF-8 as a CBOR text string without complaint and the decoder
// used to refuse the whole record (default UTF8RejectInvalid): the write succeeded and the block's
// receipts could never be read again. The general generator now produces such strings everywhere a
// string is stored; this minimal case stays so that a regression gets its own narrow class.
func utf8Probe(c *hx.Ctx, reasonHex string) {
	raw, err := hex.DecodeString(reasonHex)
	hx.Must(err)
	d := memory.New()
	defer d.Close()
	h := new(felt.Felt).SetUint64(7)
	tx := &core.InvokeTransaction{TransactionHash: h, Version: new(core.TransactionVersion).SetUint64(1)}
	rc := &core.TransactionReceipt{TransactionHash: h, Reverted: true, RevertReason: string(raw)}
	c.Evaluations++
	if err := core.WriteTransactionsAndReceipts(d, 1, []core.Transaction{tx}, []*core.TransactionReceipt{rc}); err != nil {
		c.Hist["utf8-probe:write-refused"]++
		return // refusing the write keeps the property: nothing was stored
	}
	got, err := core.GetReceiptByBlockAndIndex(d, 1, 0)
	_, errAll := core.GetBlockByNumber(d, 1)
	_ = errAll
	if err == nil && got.RevertReason == string(raw) {
		c.Hist["utf8-probe:roundtrips"]++
		return
	}
	c.Hist["utf8-probe:unreadable"]++
	_, err2 := core.GetReceiptsByBlockNumber(d, 1)
	_, err3 := core.GetTransactionExecutionStatusByBlockAndIndex(d, 1, 0)
	c.Violation("unreadable-after-write:invalid-utf8-string",
		fmt.Sprintf("WriteTransactionsAndReceipts stores a receipt whose RevertReason is the %d byte(s) 0x%s (not valid UTF-8) without error; afterwards GetReceiptByBlockAndIndex: %v; GetReceiptsByBlockNumber: %v; GetTransactionExecutionStatusByBlockAndIndex: %v (same for Header.ProtocolVersion and class ABI / program strings)",
			len(raw), reasonHex, err, err2, err3),
		Replay{Seed: c.Seed, Case: -1, OnlyBlock: -1, OnlyTx: -1, Backend: "memory", Accessor: "unreadable-after-write:invalid-utf8-string", Block: 1, Index: 0, Detail: reasonHex}, false)
}

// ---------- translator + layout obligation ----------
func regenerate() (tb *layouts.Table, note string, broken string) {
	tb, err := layouts.Build(repoPath())
	if err != nil {
		return nil, "", "translator: " + err.Error()
	}
	txt := layouts.Render(tb)
	var changed bool
	if os.Getenv("VERIF_REPO") == "" { // experiments on a copy never touch the tree's Gen file
		changed, err = layouts.WriteIfChanged(genPath, txt)
	}
	if err != nil {
		note = "could not write " + genPath + ": " + err.Error()
	} else if changed {
		note = "regenerated " + genPath + " (content changed)"
	}
	dir := hx.TempDir("c07gen")
	defer os.RemoveAll(dir)
	hx.Must(os.WriteFile(filepath.Join(dir, "C07_Layouts.v"), []byte(txt), 0o644))
	hx.Must(os.WriteFile(filepath.Join(dir, "C07_Obl.v"), []byte(layouts.Obligation(tb, "G.C07_Layouts")), 0o644))
	for _, f := range []string{"C07_Layouts.v", "C07_Obl.v"} {
		ctx, cancel := context.WithTimeout(context.Background(), 300*time.Second)
		cmd := exec.CommandContext(ctx, "coqc", "-Q", "/verif/coq/theories", "V", "-Q", dir, "G", filepath.Join(dir, f))
		out, err := cmd.CombinedOutput()
		cancel()
		if err != nil {
			msg := strings.TrimSpace(string(out))
			if f == "C07_Obl.v" {
				// name the entry whose Example failed
				lines := strings.Split(layouts.Obligation(tb, "G.C07_Layouts"), "\n")
				var ln int
				if _, e := fmt.Sscanf(msg[strings.Index(msg, "line ")+5:], "%d", &ln); e == nil && ln >= 1 && ln <= len(lines) {
					msg = "obligation fails at: " + strings.SplitN(lines[ln-1], " Proof.", 2)[0] + " || " + msg
				}
			}
			return tb, note, "coqc " + f + ": " + msg
		}
	}
	return tb, note, ""
}

func main() {
	genOut := flag.String("gen", "", "only regenerate the layout table into this file and exit")
	maxCases := flag.Int("cases", 0, "override the number of cases")
	printShapes := flag.Bool("print-shapes", false, "print the Coq definitions of the stored value shapes (Shapes.v) and exit")
	c := hx.NewCtx("C07")
	if *printShapes {
		txt, err := renderShapes()
		if err != nil {
			fmt.Fprintln(os.Stderr, "c07 --print-shapes:", err)
			os.Exit(1)
		}
		fmt.Print(txt)
		return
	}
	if *genOut != "" {
		tb, err := layouts.Build(repoPath())
		if err != nil {
			fmt.Fprintln(os.Stderr, "c07 --gen:", err)
			os.Exit(1)
		}
		if _, err := layouts.WriteIfChanged(*genOut, layouts.Render(tb)); err != nil {
			fmt.Fprintln(os.Stderr, "c07 --gen:", err)
			os.Exit(2)
		}
		return
	}
	log.SetOutput(io.Discard) // pebble's default logger
	start := time.Now()
	tb, note, broken := regenerate()
	c.Extra["translator"] = map[string]any{"note": note, "broken": broken, "seconds": time.Since(start).Seconds()}
	if tb != nil {
		c.Extra["layout_table"] = map[string]int{"full_structs": len(tb.Fulls), "projections": len(tb.Projections), "skeletons": len(tb.Skeletons)}
	}
	if tb == nil {
		// without a table the per-record projection checks cannot be enumerated; still run the rest
		tb = &layouts.Table{}
	}
	// the extracted list functions are not tail recursive: give the oracle a deep stack
	or := hx.StartOracle("/bin/sh", "-c", "ulimit -s 4000000 2>/dev/null; exec "+c.OraclePath)
	defer or.Close()

	nCases := 160
	budget := 58 * time.Second // of harness wall time, suites included
	if c.Thorough() {
		nCases, budget = 6000, 20*time.Minute
	}
	if *maxCases > 0 {
		nCases = *maxCases
	}
	var only *Replay
	if c.ReplayIn != "" {
		only = &Replay{}
		c.LoadReplay(only)
		if only.Accessor == "unreadable-after-write:invalid-utf8-string" {
			utf8Probe(c, only.Detail)
			c.Finish("replay of the invalid-UTF-8 string probe")
		}
		if only.Accessor == "length-suite" {
			lengthSuite(c, []int{8, 10, 12, 16, 17, 18, 19, 20}, only.Detail, only.Index)
			c.Finish("replay of one container kind at one length")
		}
		if only.Accessor == "limit-probe" {
			if lim, err := layouts.DecoderLimits(repoPath()); err == nil {
				c.Extra["decoder_limit_probe"] = limitProbe(c, lim)
			}
			c.Finish("replay of the decoder limit probe")
		}
		if strings.HasPrefix(only.Accessor, "cbor:") {
			tie := newCborTie(c, timedOracle{or}, only.Seed)
			lim, _ := layouts.DecoderLimits(repoPath())
			tie.suite(lim, 150)
			for idx := 0; idx < 160; idx++ {
				tie.ofCase(genCase(only.Seed, idx, false, c.Hist), hx.NewRNG(only.Seed^uint64(idx)*31+7))
			}
			tie.finish(time.Now())
			c.Finish("replay of the CBOR tie")
		}
		if only.Accessor == "layout-obligation" || only.Accessor == "translator" {
			nCases = 40
			only = nil
		}
	}
	seed := c.Seed
	keyRNG := hx.NewRNG(seed ^ 0xC07)
	perAccessor := map[string]int{}
	runOne := func(cs *chainCase, idx int, backend string, useBatch bool, withModel bool) []failure {
		k := &checker{c: c, or: timedOracle{or}, backend: backend}
		var d db.KeyValueStore
		var dir string
		if backend == "pebblev2" {
			dir = hx.TempDir("c07")
			var err error
			d, err = pebblev2.New(dir)
			hx.Must(err)
		} else {
			d = memory.New()
		}
		func() {
			defer func() {
				if p := recover(); p != nil {
					k.fail("panic", 0, -1, fmt.Sprint(p))
				}
			}()
			k.run(cs, d, useBatch, tb, withModel)
			if backend == "memory" {
				k.roundtrips(cs)
			}
		}()
		d.Close()
		if dir != "" {
			os.RemoveAll(dir)
		}
		c.Evaluations += k.nChecks
		perAccessor[backend] += k.nChecks
		return k.fails
	}
	report := func(cs *chainCase, idx int, backend string, useBatch bool, fs []failure) {
		f := fs[0]
		// shrink: the block alone, then the block with only the failing transaction
		rp := Replay{Seed: seed, Case: idx, OnlyBlock: -1, OnlyTx: -1, Backend: backend, Accessor: f.accessor, Block: f.block, Index: f.index, Detail: f.detail}
		for bi, b := range cs.Blocks {
			if b.Number != f.block {
				continue
			}
			if g := runOne(cut(cs, bi, -1), idx, backend, useBatch, true); len(g) > 0 && g[0].accessor == f.accessor {
				rp.OnlyBlock, rp.Detail = bi, g[0].detail
				if f.index >= 0 {
					if g2 := runOne(cut(cs, bi, f.index), idx, backend, useBatch, true); len(g2) > 0 && g2[0].accessor == f.accessor {
						rp.OnlyTx, rp.Detail, rp.Index = f.index, g2[0].detail, g2[0].index
					}
				}
			}
		}
		noInput := strings.HasPrefix(f.accessor, "model-") // the tie broke, the accessors themselves agree with what was stored
		c.Violation(f.accessor, fmt.Sprintf("backend=%s case=%d block=%d index=%d: %s", backend, idx, f.block, f.index, f.detail), rp, noInput)
	}

	if only != nil {
		var full *chainCase
		if only.Case < 0 {
			full = boundaryCase(only.Seed, -only.Case-1, c.Hist)
		} else {
			full = genCase(only.Seed, only.Case, c.Thorough(), c.Hist)
		}
		cs := cut(full, only.OnlyBlock, only.OnlyTx)
		for _, be := range []string{"memory", "pebblev2"} {
			if fs := runOne(cs, only.Case, be, true, true); len(fs) > 0 {
				report(cs, only.Case, be, true, fs)
			}
		}
		c.Finish("replay of one generated case")
	}

	// ---- size thresholds: boundary block sizes and container lengths, in every run ----
	limits, lerr := layouts.DecoderLimits(repoPath())
	if lerr != nil {
		c.Extra["decoder_limits"] = "unreadable: " + lerr.Error()
	} else {
		c.Extra["decoder_limits"] = limits
	}
	tSizes := time.Now()
	for i := range boundarySizes {
		cs := boundaryCase(seed, i, c.Hist)
		// the model's raw value (index header ++ data) is compared for every size; its reads (each one
		// re-walks the blob as a Coq list) for one size per threshold
		nb := boundarySizes[i]
		withModel := nb <= 3 || nb == 256 || nb == 512 || nb == 1024 || c.Thorough()
		if fs := runOne(cs, cs.Idx, "memory", i%2 == 0, withModel); len(fs) > 0 {
			report(cs, cs.Idx, "memory", i%2 == 0, fs)
		}
		if n := boundarySizes[i]; n == 513 || c.Thorough() {
			if fs := runOne(cs, cs.Idx, "pebblev2", true, false); len(fs) > 0 {
				report(cs, cs.Idx, "pebblev2", true, fs)
			}
		}
		if os.Getenv("VERIF_C07_DEBUG") != "" {
			fmt.Fprintf(os.Stderr, "boundary %d: cumulative %v (oracle %v)\n", boundarySizes[i], time.Since(tSizes), oracleTime)
		}
		c.Count(fmt.Sprintf("boundary-%d", boundarySizes[i]), true)
		c.Evaluations--
	}
	c.Extra["boundary_suite_seconds"] = time.Since(tSizes).Seconds()
	tLen := time.Now()
	ks := []int{8, 10, 12, 16, 17}
	if c.Thorough() {
		ks = append(ks, 18, 19, 20)
	}
	lengthSuite(c, ks, "", 0)
	c.Extra["length_suite_seconds"] = time.Since(tLen).Seconds()

	if c.Thorough() && lerr == nil {
		c.Extra["decoder_limit_probe"] = limitProbe(c, limits)
	}

	// ---- the CBOR codec itself against the model (Cbor.v), in every run ----
	tCbor := time.Now()
	tie := newCborTie(c, timedOracle{or}, seed)
	nItems := 150
	if c.Thorough() {
		nItems = 3000
	}
	tie.suite(limits, nItems)
	c.Extra["cbor_suite_seconds"] = time.Since(tCbor).Seconds()

	done := 0
	for idx := 0; idx < nCases && time.Since(start) < budget; idx++ {
		cs := genCase(seed, idx, c.Thorough(), c.Hist)
		useBatch := idx%2 == 0
		t0 := time.Now()
		fs := runOne(cs, idx, "memory", useBatch, true)
		if os.Getenv("VERIF_C07_DEBUG") != "" {
			sz := 0
			for _, b := range cs.Blocks {
				sz += len(b.Txs)
			}
			fmt.Fprintf(os.Stderr, "case %d: %d blocks %d txs, memory run %v (oracle total %v)\n", idx, len(cs.Blocks), sz, time.Since(t0), oracleTime)
		}
		if len(fs) > 0 {
			report(cs, idx, "memory", useBatch, fs)
		}
		tie.ofCase(cs, hx.NewRNG(seed^uint64(idx)*31+7))
		if idx%4 == 0 || c.Thorough() {
			if fs := runOne(cs, idx, "pebblev2", useBatch, false); len(fs) > 0 {
				report(cs, idx, "pebblev2", useBatch, fs)
			}
			c.Hist["backend:pebblev2"]++
		}
		c.Hist["backend:memory"]++
		for i := 0; i < 4; i++ {
			k := &checker{c: c, or: timedOracle{or}}
			keyOrder(k, keyRNG)
			c.Evaluations += k.nChecks
			if len(k.fails) > 0 {
				c.Violation(k.fails[0].accessor, k.fails[0].detail, map[string]any{"seed": seed, "detail": k.fails[0].detail}, true)
			}
		}
		nontrivial := false
		for _, b := range cs.Blocks {
			if len(b.Txs) > 0 {
				nontrivial = true
			}
		}
		c.Count(fmt.Sprintf("case-%d", idx), nontrivial)
		c.Evaluations-- // Count adds one evaluation per case on top of the per-check counts
		if idx < 3 {
			b := cs.Blocks[0]
			kinds := []string{}
			for _, t := range b.Txs {
				kinds = append(kinds, fmt.Sprintf("%T", t))
			}
			c.Sample(map[string]any{"case": idx, "blocks": len(cs.Blocks), "first_block_number": b.Number, "txs": kinds, "receipts": len(b.Rcs), "classes": len(b.Classes)})
		}
		done++
	}
	tie.finish(tCbor)
	c.Extra["cases_run"] = done
	c.Extra["oracle_seconds"] = oracleTime.Seconds()
	c.Extra["checks_per_backend"] = perAccessor

	utf8Probe(c, "ff")

	// a broken obligation is reported after the search for a failing input
	if broken != "" {
		class := "layout-obligation"
		if strings.HasPrefix(broken, "translator:") {
			class = "translator"
		}
		c.Violation(class, broken, Replay{Seed: seed, Case: -1, OnlyBlock: -1, OnlyTx: -1, Accessor: class, Detail: broken}, c.NViolations()-tie.noInputReported == 0)
	}
	c.Finish("every accessor value = stored value (canonical deep dump) on memory and pebblev2; partial decoders = full decoder per field on every record; decode(encode v) = v and stable; raw block-transactions entry = model's index header ++ data under the model's key; model reads of the real entry = real accessors incl. out-of-range; key byte order = numeric order")
}
