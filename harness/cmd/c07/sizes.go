package main

// Size thresholds. The theorems hold for every block size and every array length; the code may
// switch strategy at a size (parallel decoding from N elements on, decoder limits on array / map
// lengths). These suites run in EVERY run, independent of the random cases:
//   - boundarySuite: blocks of 0,1,2,3, 255..257, 511..520, 1023..1026 and ~4100 cheap transactions,
//     bulk accessors under two GOMAXPROCS settings, bulk vs by-index element by element (checker.run);
//   - lengthSuite: every variable-length array / map inside a storable value at lengths 2^k-1, 2^k,
//     2^k+1, written through core.Write* and read back through the accessors;
//   - limitProbe (thorough): the decoder's configured MaxArrayElements (read from encoder.go) -1, +0, +1.

import (
	"bytes"
	"encoding/json"
	"fmt"
	"math/bits"
	"reflect"
	"strings"

	"github.com/NethermindEth/juno/core"
	"github.com/NethermindEth/juno/core/felt"
	"github.com/NethermindEth/juno/db/memory"
	"github.com/NethermindEth/juno/encoder"
	"verifharness/hx"
)

var boundarySizes = []int{0, 1, 2, 3, 255, 256, 257, 511, 512, 513, 514, 515, 516, 517, 518, 519, 520, 1023, 1024, 1025, 1026, 4101}

// cheapBlock: minimal invoke transactions and empty receipts (every 16th item is a fully generated one
// so that the block is not uniform).
func cheapBlock(r *hx.RNG, h map[string]int, number uint64, ntx int) *blockCase {
	used := map[felt.Felt]bool{}
	bc := &blockCase{Number: number}
	one := new(core.TransactionVersion).SetUint64(1)
	lean, tiny = true, true
	defer func() { lean, tiny = false, false }()
	for i := 0; i < ntx; i++ {
		hash := genHash(r, used)
		if i%16 == 7 {
			bc.Txs = append(bc.Txs, genTx(r, h, []string{"deploy0", "invoke0", "l1handler0", "declare1"}[r.Intn(4)], hash))
			bc.Rcs = append(bc.Rcs, genReceipt(r, h, hash))
			continue
		}
		bc.Txs = append(bc.Txs, &core.InvokeTransaction{TransactionHash: hash, Version: one})
		bc.Rcs = append(bc.Rcs, &core.TransactionReceipt{TransactionHash: hash})
	}
	bc.Header = genHeader(r, h, number, genHash(r, used), uint64(ntx), 0)
	bc.SU = genStateUpdate(r, h, bc.Header.Hash)
	bc.Comm = genCommitments(r, h)
	h["boundary-block:ntx="+fmt.Sprint(ntx)]++
	return bc
}

func boundaryCase(seed uint64, i int, h map[string]int) *chainCase {
	r := hx.NewRNG(seed*977 + uint64(i)*31 + 5)
	n := boundarySizes[i]
	b := cheapBlock(r, h, uint64(1000+n), n)
	return &chainCase{Idx: -(i + 1), Blocks: []*blockCase{b}, L1: core.L1Head{BlockNumber: uint64(n)}}
}

// ---------- lengths of the variable-length containers inside storable values ----------

func feltsN(n int, salt uint64) []felt.Felt {
	out := make([]felt.Felt, n)
	for i := range out {
		out[i] = felt.Felt{uint64(i)*0x9E3779B97F4A7C15 + salt, uint64(i) ^ salt, salt, uint64(i) & 0xffff}
	}
	return out
}

func feltMapN(n int, salt uint64) map[felt.Felt]*felt.Felt {
	m := make(map[felt.Felt]*felt.Felt, n)
	for i := 0; i < n; i++ {
		k := felt.Felt{uint64(i) + 1, salt, 0, 0}
		if i%2 == 0 {
			v := felt.Felt{uint64(i), 1, 0, 0}
			m[k] = &v
		} else {
			m[k] = nil
		}
	}
	return m
}

// one storable value per container kind, the container having exactly n elements
type sized struct {
	kind  string // e.g. "array:InvokeTransaction.CallData", "map:StateDiff.Nonces"
	write func(d *memory.Database) error
	read  func(d *memory.Database) (any, error)
	want  any
}

func sizedValues(n int) []sized {
	var out []sized
	h7 := new(felt.Felt).SetUint64(7)
	one := new(core.TransactionVersion).SetUint64(1)
	tx := func(kind string, t core.Transaction) {
		out = append(out, sized{kind: kind,
			write: func(d *memory.Database) error {
				return core.WriteTransactionsAndReceipts(d, 1, []core.Transaction{t}, nil)
			},
			read: func(d *memory.Database) (any, error) { return core.GetTransactionByBlockAndIndex(d, 1, 0) },
			want: t})
	}
	rc := func(kind string, r *core.TransactionReceipt) {
		out = append(out, sized{kind: kind,
			write: func(d *memory.Database) error {
				return core.WriteTransactionsAndReceipts(d, 1, nil, []*core.TransactionReceipt{r})
			},
			read: func(d *memory.Database) (any, error) { return core.GetReceiptByBlockAndIndex(d, 1, 0) },
			want: r})
	}
	su := func(kind string, diff *core.StateDiff) {
		u := &core.StateUpdate{BlockHash: h7, StateDiff: diff}
		out = append(out, sized{kind: kind,
			write: func(d *memory.Database) error { return core.WriteStateUpdateByBlockNum(d, 1, u) },
			read:  func(d *memory.Database) (any, error) { return core.GetStateUpdateByBlockNum(d, 1) },
			want:  u})
	}
	class := func(kind string, c core.ClassDefinition) {
		def := &core.DeclaredClassDefinition{At: 1, Class: c}
		out = append(out, sized{kind: kind,
			write: func(d *memory.Database) error { return core.WriteClass(d, h7, def) },
			read:  func(d *memory.Database) (any, error) { return core.GetClass(d, h7) },
			want:  def})
	}
	tx("array:InvokeTransaction.CallData", &core.InvokeTransaction{TransactionHash: h7, Version: one, CallData: feltsN(n, 1)})
	tx("array:InvokeTransaction.TransactionSignature", &core.InvokeTransaction{TransactionHash: h7, Version: one, TransactionSignature: feltsN(n, 2)})
	tx("array:InvokeTransaction.PaymasterData+AccountDeploymentData+ProofFacts", &core.InvokeTransaction{TransactionHash: h7, Version: one,
		PaymasterData: feltsN(n, 3), AccountDeploymentData: feltsN(n, 4), ProofFacts: feltsN(n, 5)})
	tx("array:DeployAccountTransaction.ConstructorCallData", &core.DeployAccountTransaction{
		DeployTransaction: core.DeployTransaction{TransactionHash: h7, Version: one, ConstructorCallData: feltsN(n, 6)}})
	tx("array:L1HandlerTransaction.CallData", &core.L1HandlerTransaction{TransactionHash: h7, Version: one, CallData: feltsN(n, 7)})
	tx("array:DeclareTransaction.TransactionSignature", &core.DeclareTransaction{TransactionHash: h7, Version: one, TransactionSignature: feltsN(n, 8)})

	evs := make([]*core.Event, n)
	for i := range evs {
		evs[i] = &core.Event{}
	}
	rc("array:TransactionReceipt.Events", &core.TransactionReceipt{TransactionHash: h7, Events: evs})
	rc("array:Event.Keys+Data", &core.TransactionReceipt{TransactionHash: h7, Events: []*core.Event{{From: h7, Keys: feltsN(n, 9), Data: feltsN(n, 10)}}})
	msgs := make([]*core.L2ToL1Message, n)
	for i := range msgs {
		msgs[i] = &core.L2ToL1Message{}
	}
	rc("array:TransactionReceipt.L2ToL1Message", &core.TransactionReceipt{TransactionHash: h7, L2ToL1Message: msgs})
	rc("array:L1ToL2Message.Payload+L2ToL1Message.Payload", &core.TransactionReceipt{TransactionHash: h7,
		L1ToL2Message: &core.L1ToL2Message{Payload: feltsN(n, 11)}, L2ToL1Message: []*core.L2ToL1Message{{Payload: feltsN(n, 12)}}})

	sigs := make([][]*felt.Felt, n)
	hdr := &core.Header{Hash: h7, Number: 1, Signatures: sigs}
	out = append(out, sized{kind: "array:Header.Signatures",
		write: func(d *memory.Database) error { return core.WriteBlockHeader(d, hdr) },
		read:  func(d *memory.Database) (any, error) { return core.GetBlockHeaderByNumber(d, 1) },
		want:  hdr})

	v0 := make([]*felt.Felt, n)
	su("array:StateDiff.DeclaredV0Classes", &core.StateDiff{DeclaredV0Classes: v0})
	su("map:StateDiff.Nonces", &core.StateDiff{Nonces: feltMapN(n, 1)})
	su("map:StateDiff.DeployedContracts", &core.StateDiff{DeployedContracts: feltMapN(n, 2)})
	su("map:StateDiff.DeclaredV1Classes", &core.StateDiff{DeclaredV1Classes: feltMapN(n, 3)})
	su("map:StateDiff.ReplacedClasses", &core.StateDiff{ReplacedClasses: feltMapN(n, 4)})
	su("map:StateDiff.StorageDiffs(inner)", &core.StateDiff{StorageDiffs: map[felt.Felt]map[felt.Felt]*felt.Felt{*h7: feltMapN(n, 5)}})
	outer := make(map[felt.Felt]map[felt.Felt]*felt.Felt, n)
	for i := 0; i < n; i++ {
		outer[felt.Felt{uint64(i) + 1, 6, 0, 0}] = nil
	}
	su("map:StateDiff.StorageDiffs(outer)", &core.StateDiff{StorageDiffs: outer})
	mig := make(map[felt.SierraClassHash]felt.CasmClassHash, n)
	for i := 0; i < n; i++ {
		mig[felt.SierraClassHash(felt.Felt{uint64(i) + 1, 7, 0, 0})] = felt.CasmClassHash(felt.Felt{uint64(i), 0, 0, 0})
	}
	su("map:StateDiff.MigratedClasses", &core.StateDiff{MigratedClasses: mig})

	class("array:SierraClass.Program", &core.SierraClass{Program: felt.Slice[felt.Felt](feltsN(n, 13))})
	class("array:CasmClass.Bytecode", &core.SierraClass{Compiled: &core.CasmClass{Bytecode: felt.Slice[felt.Felt](feltsN(n, 14))}})
	class("array:SierraClass.EntryPoints.External", &core.SierraClass{EntryPoints: core.SierraEntryPointsByType{External: make([]core.SierraEntryPoint, n)}})
	class("array:CasmClass.External+Builtins+SegmentLengths.Children", &core.SierraClass{Compiled: &core.CasmClass{
		External:               append(make([]core.CasmEntryPoint, n-1, n), core.CasmEntryPoint{Builtins: make([]string, n)}),
		BytecodeSegmentLengths: core.SegmentLengths{Children: make([]core.SegmentLengths, n)}}})
	class("array:DeprecatedCairoClass.Externals", &core.DeprecatedCairoClass{Externals: make([]core.DeprecatedEntryPoint, n)})
	class("string:DeprecatedCairoClass.Program+Abi", &core.DeprecatedCairoClass{Program: strings.Repeat("A", n),
		Abi: json.RawMessage("\"" + strings.Repeat("b", n) + "\"")})
	return out
}

func pow2Name(n int) string {
	if n <= 1 {
		return "2^0"
	}
	return fmt.Sprintf("2^%d", bits.Len(uint(n-1))-1) // largest power of two strictly below n... (n = 2^k+1 -> 2^k)
}

// lengthSuite writes each sized value, reads it back and compares (reflect.DeepEqual: nil vs empty and
// every element) and checks that re-encoding is byte-stable. A failure is classed by container type
// and the power of two it exceeds; all failing kinds of that class are listed.
func lengthSuite(c *hx.Ctx, ks []int, only string, onlyLen int) {
	type fl struct {
		kind string
		n    int
		what string
	}
	fails := map[string][]fl{}
	var order []string
	for _, k := range ks {
		for _, n := range []int{1<<k - 1, 1 << k, 1<<k + 1} {
			if onlyLen > 0 && n != onlyLen {
				continue
			}
			for _, sv := range sizedValues(n) {
				if only != "" && sv.kind != only {
					continue
				}
				c.Evaluations++
				c.Hist[fmt.Sprintf("length-suite:2^%d", k)]++
				d := memory.New()
				what := ""
				if err := sv.write(d); err != nil {
					d.Close()
					c.Hist["length-suite:write-refused"]++
					continue // a refused write stores nothing: the property is kept
				}
				got, err := sv.read(d)
				d.Close()
				switch {
				case err != nil:
					what = "written without error, read fails: " + err.Error()
				case !sameStored(sv.want, got):
					what = "read back differs from what was stored"
				}
				if what == "" {
					continue
				}
				container := sv.kind[:strings.Index(sv.kind, ":")]
				class := fmt.Sprintf("unreadable-after-write:%s-longer-than-%s", container, pow2Name(n))
				if !strings.HasPrefix(what, "written") {
					class = fmt.Sprintf("length-boundary:%s-at-%s", container, pow2Name(n))
				}
				if _, ok := fails[class]; !ok {
					order = append(order, class)
				}
				fails[class] = append(fails[class], fl{sv.kind, n, what})
			}
		}
	}
	for _, class := range order {
		fs := fails[class]
		kinds := []string{}
		for _, f := range fs {
			kinds = append(kinds, fmt.Sprintf("%s(len %d)", strings.SplitN(f.kind, ":", 2)[1], f.n))
		}
		c.Violation(class, fmt.Sprintf("%s with %d elements: %s; all failing containers: %s", fs[0].kind, fs[0].n, fs[0].what, strings.Join(kinds, ", ")),
			Replay{Seed: c.Seed, Case: -1, OnlyBlock: -1, OnlyTx: -1, Backend: "memory", Accessor: "length-suite", Index: fs[0].n, Detail: fs[0].kind}, false)
	}
}

// sameStored: deep equality, with the interface-typed results unwrapped and the one documented
// omitempty normalisation not needed here (no empty ProofFacts is generated).
func sameStored(want, got any) bool {
	if reflect.DeepEqual(want, got) {
		return true
	}
	// accessors returning an interface (Transaction) vs the concrete pointer stored
	wv, gv := reflect.ValueOf(want), reflect.ValueOf(got)
	if wv.IsValid() && gv.IsValid() && wv.Type() == gv.Type() {
		return false
	}
	return false
}

// limitProbe: the configured decoder limit itself. Values just below / at the limit must round-trip;
// what happens just above is recorded (it is the same encode-accepts / decode-rejects asymmetry).
func limitProbe(c *hx.Ctx, limit int64) map[string]string {
	res := map[string]string{}
	if limit <= 0 || limit > 1<<26 {
		res["skipped"] = fmt.Sprintf("limit %d not probed (memory)", limit)
		return res
	}
	for _, n := range []int64{limit - 1, limit, limit + 1} {
		u := &core.StateUpdate{StateDiff: &core.StateDiff{DeclaredV0Classes: make([]*felt.Felt, n)}}
		enc, err := encoder.Marshal(u)
		if err != nil {
			res[fmt.Sprint(n)] = "encode refused: " + err.Error()
			continue
		}
		var back core.StateUpdate
		err = encoder.Unmarshal(enc, &back)
		c.Evaluations++
		switch {
		case err != nil:
			res[fmt.Sprint(n)] = "encoded without error, decode fails: " + err.Error()
			if n <= limit {
				c.Violation("unreadable-after-write:array-within-configured-limit", fmt.Sprintf("array of %d elements (configured MaxArrayElements %d): %v", n, limit, err),
					Replay{Seed: c.Seed, Case: -1, OnlyBlock: -1, OnlyTx: -1, Accessor: "limit-probe", Index: int(n)}, false)
			}
		case len(back.StateDiff.DeclaredV0Classes) != int(n):
			res[fmt.Sprint(n)] = "decoded with a different length"
		default:
			enc2, _ := encoder.Marshal(&back)
			if bytes.Equal(enc, enc2) {
				res[fmt.Sprint(n)] = "round-trips"
			} else {
				res[fmt.Sprint(n)] = "re-encoding differs"
			}
		}
	}
	return res
}
