package main

// Size thresholds. The theorems hold for every block size and every array length; the code may
// switch strategy at a size (parallel decoding from N elements on, decoder limits on array / map
// lengths). These suites run in EVERY run, independent of the random cases:
//   - boundarySuite: blocks of 0,1,2,3, 255..257, 511..520, 1023..1026 and ~4100 cheap transactions,
//     bulk accessors under two GOMAXPROCS settings, bulk vs by-index element by element (checker.run);
//   - lengthSuite: every variable-length array / map inside a storable value at lengths 2^k-1, 2^k,
//     2^k+1, written through core.Write* and read back through the accessors;
//   - limitProbe (thorough): the decoder's configured MaxArrayElements (read from encoder.go) -1, +0, +1.

import (
	"encoding/json"
	"fmt"
	"math/bits"
	"reflect"
	"strings"
	"sync"

	"github.com/NethermindEth/juno/core"
	"github.com/NethermindEth/juno/core/felt"
	"github.com/NethermindEth/juno/db/memory"
	"github.com/NethermindEth/juno/encoder"
	"verifharness/hx"
)

var boundarySizes = []int{0, 1, 2, 3, 255, 256, 257, 511, 512, 513, 514, 515, 516, 517, 518, 519, 520, 1023, 1024, 1025, 1026, 4101}

// cheapBlock: minimal invoke transactions and empty receipts (every 16th item is a fully generated one
// so that the block is not uniform).
func cheapBlock(r *hx.RNG, h map[string]int, number uint64, ntx int) *blockCase {
	used := map[felt.Felt]bool{}
	bc := &blockCase{Number: number}
	one := new(core.TransactionVersion).SetUint64(1)
	lean, tiny = true, true
	defer func() { lean, tiny = false, false }()
	for i := 0; i < ntx; i++ {
		hash := genHash(r, used)
		if i%16 == 7 {
			bc.Txs = append(bc.Txs, genTx(r, h, []string{"deploy0", "invoke0", "l1handler0", "declare1"}[r.Intn(4)], hash))
			bc.Rcs = append(bc.Rcs, genReceipt(r, h, hash))
			continue
		}
		bc.Txs = append(bc.Txs, &core.InvokeTransaction{TransactionHash: hash, Version: one})
		bc.Rcs = append(bc.Rcs, &core.TransactionReceipt{TransactionHash: hash})
	}
	bc.Header = genHeader(r, h, number, genHash(r, used), uint64(ntx), 0)
	bc.SU = genStateUpdate(r, h, bc.Header.Hash)
	bc.Comm = genCommitments(r, h)
	h["boundary-block:ntx="+fmt.Sprint(ntx)]++
	return bc
}

func boundaryCase(seed uint64, i int, h map[string]int) *chainCase {
	r := hx.NewRNG(seed*977 + uint64(i)*31 + 5)
	n := boundarySizes[i]
	b := cheapBlock(r, h, uint64(1000+n), n)
	return &chainCase{Idx: -(i + 1), Blocks: []*blockCase{b}, L1: core.L1Head{BlockNumber: uint64(n)}}
}

// ---------- lengths of the variable-length containers inside storable values ----------

func feltsN(n int, salt uint64) []felt.Felt {
	out := make([]felt.Felt, n)
	for i := range out {
		out[i] = felt.Felt{uint64(i)*0x9E3779B97F4A7C15 + salt, uint64(i) ^ salt, salt, uint64(i) & 0xffff}
	}
	return out
}

func feltMapN(n int, salt uint64) map[felt.Felt]*felt.Felt {
	m := make(map[felt.Felt]*felt.Felt, n)
	for i := 0; i < n; i++ {
		k := felt.Felt{uint64(i) + 1, salt, 0, 0}
		if i%2 == 0 {
			v := felt.Felt{uint64(i), 1, 0, 0}
			m[k] = &v
		} else {
			m[k] = nil
		}
	}
	return m
}

// one storable value per container kind, the container having exactly n elements
type lazySized struct {
	kind  string
	build func() sized
}

type sized struct {
	kind  string // e.g. "array:InvokeTransaction.CallData", "map:StateDiff.Nonces"
	write func(d *memory.Database) error
	read  func(d *memory.Database) (any, error)
	want  any
}

func sizedValues(n int) []lazySized {
	var out []lazySized
	h7 := new(felt.Felt).SetUint64(7)
	one := new(core.TransactionVersion).SetUint64(1)
	tx := func(kind string, mk func() core.Transaction) {
		out = append(out, lazySized{kind, func() sized {
			t := mk()
			return sized{kind: kind,
				write: func(d *memory.Database) error {
					return core.WriteTransactionsAndReceipts(d, 1, []core.Transaction{t}, nil)
				},
				read: func(d *memory.Database) (any, error) { return core.GetTransactionByBlockAndIndex(d, 1, 0) },
				want: t}
		}})
	}
	rc := func(kind string, mk func() *core.TransactionReceipt) {
		out = append(out, lazySized{kind, func() sized {
			r := mk()
			return sized{kind: kind,
				write: func(d *memory.Database) error {
					return core.WriteTransactionsAndReceipts(d, 1, nil, []*core.TransactionReceipt{r})
				},
				read: func(d *memory.Database) (any, error) { return core.GetReceiptByBlockAndIndex(d, 1, 0) },
				want: r}
		}})
	}
	su := func(kind string, mk func() *core.StateDiff) {
		out = append(out, lazySized{kind, func() sized {
			u := &core.StateUpdate{BlockHash: h7, StateDiff: mk()}
			return sized{kind: kind,
				write: func(d *memory.Database) error { return core.WriteStateUpdateByBlockNum(d, 1, u) },
				read:  func(d *memory.Database) (any, error) { return core.GetStateUpdateByBlockNum(d, 1) },
				want:  u}
		}})
	}
	class := func(kind string, mk func() core.ClassDefinition) {
		out = append(out, lazySized{kind, func() sized {
			def := &core.DeclaredClassDefinition{At: 1, Class: mk()}
			return sized{kind: kind,
				write: func(d *memory.Database) error { return core.WriteClass(d, h7, def) },
				read:  func(d *memory.Database) (any, error) { return core.GetClass(d, h7) },
				want:  def}
		}})
	}
	type T = core.Transaction
	type R = *core.TransactionReceipt
	type D = *core.StateDiff
	type C = core.ClassDefinition
	tx("array:InvokeTransaction.CallData", func() T {
		return &core.InvokeTransaction{TransactionHash: h7, Version: one, CallData: feltsN(n, 1)}
	})
	tx("array:InvokeTransaction.TransactionSignature", func() T {
		return &core.InvokeTransaction{TransactionHash: h7, Version: one, TransactionSignature: feltsN(n, 2)}
	})
	tx("array:InvokeTransaction.PaymasterData+AccountDeploymentData+ProofFacts", func() T {
		return &core.InvokeTransaction{TransactionHash: h7, Version: one,
			PaymasterData: feltsN(n, 3), AccountDeploymentData: feltsN(n, 4), ProofFacts: feltsN(n, 5)}
	})
	tx("array:DeployAccountTransaction.ConstructorCallData", func() T {
		return &core.DeployAccountTransaction{
			DeployTransaction: core.DeployTransaction{TransactionHash: h7, Version: one, ConstructorCallData: feltsN(n, 6)}}
	})
	tx("array:L1HandlerTransaction.CallData", func() T {
		return &core.L1HandlerTransaction{TransactionHash: h7, Version: one, CallData: feltsN(n, 7)}
	})
	tx("array:DeclareTransaction.TransactionSignature", func() T {
		return &core.DeclareTransaction{TransactionHash: h7, Version: one, TransactionSignature: feltsN(n, 8)}
	})
	rc("array:TransactionReceipt.Events", func() R {
		evs := make([]*core.Event, n)
		for i := range evs {
			evs[i] = &core.Event{}
		}
		return &core.TransactionReceipt{TransactionHash: h7, Events: evs}
	})
	rc("array:Event.Keys+Data", func() R {
		return &core.TransactionReceipt{TransactionHash: h7, Events: []*core.Event{{From: h7, Keys: feltsN(n, 9), Data: feltsN(n, 10)}}}
	})
	rc("array:TransactionReceipt.L2ToL1Message", func() R {
		msgs := make([]*core.L2ToL1Message, n)
		for i := range msgs {
			msgs[i] = &core.L2ToL1Message{}
		}
		return &core.TransactionReceipt{TransactionHash: h7, L2ToL1Message: msgs}
	})
	rc("array:L1ToL2Message.Payload+L2ToL1Message.Payload", func() R {
		return &core.TransactionReceipt{TransactionHash: h7,
			L1ToL2Message: &core.L1ToL2Message{Payload: feltsN(n, 11)}, L2ToL1Message: []*core.L2ToL1Message{{Payload: feltsN(n, 12)}}}
	})
	out = append(out, lazySized{"array:Header.Signatures", func() sized {
		hdr := &core.Header{Hash: h7, Number: 1, Signatures: make([][]*felt.Felt, n)}
		return sized{kind: "array:Header.Signatures",
			write: func(d *memory.Database) error { return core.WriteBlockHeader(d, hdr) },
			read:  func(d *memory.Database) (any, error) { return core.GetBlockHeaderByNumber(d, 1) },
			want:  hdr}
	}})
	su("array:StateDiff.DeclaredV0Classes", func() D { return &core.StateDiff{DeclaredV0Classes: make([]*felt.Felt, n)} })
	su("map:StateDiff.Nonces", func() D { return &core.StateDiff{Nonces: feltMapN(n, 1)} })
	su("map:StateDiff.DeployedContracts", func() D { return &core.StateDiff{DeployedContracts: feltMapN(n, 2)} })
	su("map:StateDiff.DeclaredV1Classes", func() D { return &core.StateDiff{DeclaredV1Classes: feltMapN(n, 3)} })
	su("map:StateDiff.ReplacedClasses", func() D { return &core.StateDiff{ReplacedClasses: feltMapN(n, 4)} })
	su("map:StateDiff.StorageDiffs(inner)", func() D {
		return &core.StateDiff{StorageDiffs: map[felt.Felt]map[felt.Felt]*felt.Felt{*h7: feltMapN(n, 5)}}
	})
	su("map:StateDiff.StorageDiffs(outer)", func() D {
		outer := make(map[felt.Felt]map[felt.Felt]*felt.Felt, n)
		for i := 0; i < n; i++ {
			outer[felt.Felt{uint64(i) + 1, 6, 0, 0}] = nil
		}
		return &core.StateDiff{StorageDiffs: outer}
	})
	su("map:StateDiff.MigratedClasses", func() D {
		mig := make(map[felt.SierraClassHash]felt.CasmClassHash, n)
		for i := 0; i < n; i++ {
			mig[felt.SierraClassHash(felt.Felt{uint64(i) + 1, 7, 0, 0})] = felt.CasmClassHash(felt.Felt{uint64(i), 0, 0, 0})
		}
		return &core.StateDiff{MigratedClasses: mig}
	})
	class("array:SierraClass.Program", func() C { return &core.SierraClass{Program: felt.Slice[felt.Felt](feltsN(n, 13))} })
	class("array:CasmClass.Bytecode", func() C {
		return &core.SierraClass{Compiled: &core.CasmClass{Bytecode: felt.Slice[felt.Felt](feltsN(n, 14))}}
	})
	class("array:SierraClass.EntryPoints.External", func() C {
		return &core.SierraClass{EntryPoints: core.SierraEntryPointsByType{External: make([]core.SierraEntryPoint, n)}}
	})
	class("array:CasmClass.External+Builtins+SegmentLengths.Children", func() C {
		return &core.SierraClass{Compiled: &core.CasmClass{
			External:               append(make([]core.CasmEntryPoint, n-1, n), core.CasmEntryPoint{Builtins: make([]string, n)}),
			BytecodeSegmentLengths: core.SegmentLengths{Children: make([]core.SegmentLengths, n)}}}
	})
	class("array:DeprecatedCairoClass.Externals", func() C {
		return &core.DeprecatedCairoClass{Externals: make([]core.DeprecatedEntryPoint, n)}
	})
	class("string:DeprecatedCairoClass.Program+Abi", func() C {
		return &core.DeprecatedCairoClass{Program: strings.Repeat("A", n), Abi: json.RawMessage("\"" + strings.Repeat("b", n) + "\"")}
	})
	return out
}

func pow2Name(n int) string {
	if n <= 1 {
		return "2^0"
	}
	return fmt.Sprintf("2^%d", bits.Len(uint(n-1))-1) // largest power of two strictly below n... (n = 2^k+1 -> 2^k)
}

// lengthSuite writes each sized value, reads it back and compares (reflect.DeepEqual: nil vs empty and
// every element) and checks that re-encoding is byte-stable. A failure is classed by container type
// and the power of two it exceeds; all failing kinds of that class are listed.
func lengthSuite(c *hx.Ctx, ks []int, only string, onlyLen int) {
	type fl struct {
		kind string
		n    int
		what string
	}
	type job struct {
		k, n int
		lz   lazySized
		res  string // "" ok, "refused", or the failure
	}
	var jobs []*job
	for _, k := range ks {
		for _, n := range []int{1<<k - 1, 1 << k, 1<<k + 1} {
			if onlyLen > 0 && n != onlyLen {
				continue
			}
			for _, lz := range sizedValues(n) {
				if only != "" && lz.kind != only {
					continue
				}
				jobs = append(jobs, &job{k: k, n: n, lz: lz})
			}
		}
	}
	// independent values, each on its own memory database: run 8 at a time
	sem := make(chan struct{}, 8)
	var wg sync.WaitGroup
	for _, j := range jobs {
		wg.Add(1)
		sem <- struct{}{}
		go func(j *job) {
			defer wg.Done()
			defer func() { <-sem }()
			defer func() {
				if p := recover(); p != nil {
					j.res = fmt.Sprint("panic: ", p)
				}
			}()
			sv := j.lz.build()
			d := memory.New()
			defer d.Close()
			if err := sv.write(d); err != nil {
				j.res = "refused"
				return // a refused write stores nothing: the property is kept
			}
			got, err := sv.read(d)
			switch {
			case err != nil:
				j.res = "written without error, read fails: " + err.Error()
			case !sameStored(sv.want, got):
				j.res = "read back differs from what was stored"
			}
		}(j)
	}
	wg.Wait()
	fails := map[string][]fl{}
	groupClass := map[string]string{}
	var order []string
	for _, j := range jobs {
		c.Evaluations++
		c.Hist[fmt.Sprintf("length-suite:2^%d", j.k)]++
		if j.res == "refused" {
			c.Hist["length-suite:write-refused"]++
			continue
		}
		if j.res == "" {
			continue
		}
		// one class per container type and failure mode, named after the smallest failing length (jobs
		// are in increasing length order): larger lengths failing for the same reason are listed under it
		container := j.lz.kind[:strings.Index(j.lz.kind, ":")]
		group := container + "|unreadable"
		if !strings.HasPrefix(j.res, "written") {
			group = container + "|differs"
		}
		class, ok := groupClass[group]
		if !ok {
			class = fmt.Sprintf("unreadable-after-write:%s-longer-than-%s", container, pow2Name(j.n))
			if !strings.HasPrefix(j.res, "written") {
				class = fmt.Sprintf("length-boundary:%s-at-%s", container, pow2Name(j.n))
			}
			groupClass[group] = class
			order = append(order, class)
		}
		fails[class] = append(fails[class], fl{j.lz.kind, j.n, j.res})
	}
	for _, class := range order {
		fs := fails[class]
		kinds := []string{}
		for _, f := range fs {
			if len(kinds) == 12 {
				kinds = append(kinds, fmt.Sprintf("… %d more", len(fs)-12))
				break
			}
			kinds = append(kinds, fmt.Sprintf("%s(len %d)", strings.SplitN(f.kind, ":", 2)[1], f.n))
		}
		c.Violation(class, fmt.Sprintf("%s with %d elements: %s; all failing containers: %s", fs[0].kind, fs[0].n, fs[0].what, strings.Join(kinds, ", ")),
			Replay{Seed: c.Seed, Case: -1, OnlyBlock: -1, OnlyTx: -1, Backend: "memory", Accessor: "length-suite", Index: fs[0].n, Detail: fs[0].kind}, false)
	}
}

// sameStored: deep equality, with the interface-typed results unwrapped and the one documented
// omitempty normalisation not needed here (no empty ProofFacts is generated).
func sameStored(want, got any) bool { return reflect.DeepEqual(want, got) }

// limitProbe: the configured decoder limits themselves (read from encoder.go). Values just below / at
// a limit must round-trip; what happens just above is recorded in the evidence (the encoder has no
// limit, so anything beyond is still the encode-accepts / decode-rejects asymmetry, at sizes no suite
// demands). Arrays: 1-byte elements (nil entries of DeclaredV0Classes); maps: Nonces with nil values.
func limitProbe(c *hx.Ctx, limits map[string]int64) map[string]string {
	res := map[string]string{}
	probe := func(tag string, limit int64, mk func(n int64) *core.StateDiff, length func(d *core.StateDiff) int) {
		if limit <= 0 {
			res[tag] = "not set in encoder.go (library default)"
			return
		}
		if limit > 1<<24 {
			res[tag] = fmt.Sprintf("limit %d not probed (memory)", limit)
			return
		}
		for _, n := range []int64{limit - 1, limit, limit + 1} {
			key := fmt.Sprintf("%s:%d", tag, n)
			u := &core.StateUpdate{StateDiff: mk(n)}
			enc, err := encoder.Marshal(u)
			if err != nil {
				res[key] = "encode refused: " + err.Error()
				continue
			}
			var back core.StateUpdate
			err = encoder.Unmarshal(enc, &back)
			c.Evaluations++
			switch {
			case err != nil:
				res[key] = "encoded without error, decode fails: " + err.Error()
				if n <= limit {
					c.Violation("unreadable-after-write:"+tag+"-within-configured-limit", fmt.Sprintf("%s of %d elements (configured limit %d): %v", tag, n, limit, err),
						Replay{Seed: c.Seed, Case: -1, OnlyBlock: -1, OnlyTx: -1, Accessor: "limit-probe", Index: int(n)}, false)
				}
			case length(back.StateDiff) != int(n):
				res[key] = "decoded with a different length"
				c.Violation("length-boundary:"+tag+"-at-configured-limit", fmt.Sprintf("%s of %d elements decodes to %d", tag, n, length(back.StateDiff)),
					Replay{Seed: c.Seed, Case: -1, OnlyBlock: -1, OnlyTx: -1, Accessor: "limit-probe", Index: int(n)}, false)
			default:
				res[key] = "round-trips"
			}
		}
	}
	probe("array", limits["MaxArrayElements"],
		func(n int64) *core.StateDiff { return &core.StateDiff{DeclaredV0Classes: make([]*felt.Felt, n)} },
		func(d *core.StateDiff) int { return len(d.DeclaredV0Classes) })
	probe("map", limits["MaxMapPairs"],
		func(n int64) *core.StateDiff {
			m := make(map[felt.Felt]*felt.Felt, n)
			for i := int64(0); i < n; i++ {
				m[felt.Felt{uint64(i) + 1, 0, 0, 0}] = nil
			}
			return &core.StateDiff{Nonces: m}
		},
		func(d *core.StateDiff) int { return len(d.Nonces) })
	return res
}
