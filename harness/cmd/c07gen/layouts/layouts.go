// Package layouts is the C07 translator: by reflection (through the verif-tagged export
// core.VerifProjections / VerifFullLayouts) it computes, for every stored record struct and every
// projection struct of core/partial_cbor.go, the list of fields as the fxamacker CBOR decoder sees
// them (embedding flattened, shadowing resolved, tags applied) and renders it as a Coq table
// (coq/theories/Gen/C07_Layouts.v). It refuses anything outside the subset it understands.
package layouts

import (
	"fmt"
	"go/ast"
	"go/parser"
	"go/token"
	"os"
	"path/filepath"
	"reflect"
	"sort"
	"strconv"
	"strings"

	"github.com/NethermindEth/juno/core"
	"github.com/fxamacker/cbor/v2"
)

type Field struct {
	Go        string
	Key       string // string key, or decimal integer when KeyInt
	KeyInt    bool
	Kind      string // reflect.Kind of the type behind pointers
	Type      string // that type
	Ptr       bool
	Nested    bool
	Wanted    bool
	OmitEmpty bool
	depth     int
	tagged    bool
	idx       []int
}

// collect mirrors fxamacker/cbor structfields.go appendFields/getFields (v2.9): breadth-first over
// by-value anonymous struct fields, then per (name, keyasint) the shallowest field wins, at equal depth
// a tagged field beats untagged ones, otherwise the name is ambiguous (we refuse instead of dropping).
func collect(t reflect.Type, discarded reflect.Type) ([]Field, error) {
	if t.Kind() != reflect.Struct {
		return nil, fmt.Errorf("%s: not a struct", t)
	}
	if _, ok := t.FieldByName("_"); ok {
		return nil, fmt.Errorf("%s: struct-level cbor options (field _) are outside the translator's subset", t)
	}
	type level struct {
		t   reflect.Type
		idx []int
	}
	var all []Field
	cur := []level{{t, nil}}
	visited := map[reflect.Type]bool{t: true}
	for depth := 0; len(cur) > 0; depth++ {
		var next []level
		seen := map[reflect.Type]int{}
		for _, lv := range cur {
			for i := 0; i < lv.t.NumField(); i++ {
				f := lv.t.Field(i)
				ft := f.Type
				ptr := false
				for ft.Kind() == reflect.Pointer {
					ft = ft.Elem()
					ptr = true
				}
				if f.PkgPath != "" && !(f.Anonymous && ft.Kind() == reflect.Struct) {
					continue // unexported, invisible to the codec
				}
				tag, hasCbor := f.Tag.Lookup("cbor")
				if !hasCbor || tag == "" {
					if j := f.Tag.Get("json"); j != "" {
						return nil, fmt.Errorf("%s.%s: json tag fallback is outside the translator's subset", lv.t, f.Name)
					}
				}
				if tag == "-" {
					continue
				}
				parts := strings.Split(tag, ",")
				name := parts[0]
				var omitempty, keyasint bool
				for _, o := range parts[1:] {
					switch o {
					case "omitempty":
						omitempty = true
					case "keyasint":
						keyasint = true
					case "":
					default:
						return nil, fmt.Errorf("%s.%s: cbor tag option %q is outside the translator's subset", lv.t, f.Name, o)
					}
				}
				idx := append(append([]int{}, lv.idx...), i)
				if f.Anonymous && ft.Kind() == reflect.Struct && name == "" {
					if ptr {
						return nil, fmt.Errorf("%s.%s: embedding by pointer is outside the translator's subset", lv.t, f.Name)
					}
					if ft == discarded {
						return nil, fmt.Errorf("%s: embeds the discarded placeholder itself", lv.t)
					}
					seen[ft]++
					if seen[ft] > 1 {
						return nil, fmt.Errorf("%s: embeds %s twice at one level (the codec would ignore both)", lv.t, ft)
					}
					if visited[ft] {
						continue
					}
					visited[ft] = true
					next = append(next, level{ft, idx})
					continue
				}
				fieldName := name
				if fieldName == "" {
					fieldName = f.Name
				}
				fld := Field{Go: f.Name, Key: fieldName, KeyInt: keyasint, Kind: ft.Kind().String(), Type: ft.String(),
					Ptr: ptr, Nested: nested(ft), Wanted: ft != discarded, OmitEmpty: omitempty,
					depth: depth, tagged: tag != "", idx: idx}
				if keyasint {
					n, err := strconv.Atoi(fieldName)
					if err != nil {
						return nil, fmt.Errorf("%s.%s: keyasint with non-integer name %q", lv.t, f.Name, fieldName)
					}
					fld.Key = strconv.Itoa(n)
				}
				all = append(all, fld)
			}
		}
		cur = next
	}
	// dominance
	groups := map[string][]Field{}
	var order []string
	for _, f := range all {
		k := fmt.Sprintf("%v|%s", f.KeyInt, f.Key)
		if _, ok := groups[k]; !ok {
			order = append(order, k)
		}
		groups[k] = append(groups[k], f)
	}
	var out []Field
	for _, k := range order {
		g := groups[k]
		sort.SliceStable(g, func(i, j int) bool {
			if g[i].depth != g[j].depth {
				return g[i].depth < g[j].depth
			}
			return g[i].tagged && !g[j].tagged
		})
		if len(g) > 1 && g[0].depth == g[1].depth && g[0].tagged == g[1].tagged {
			return nil, fmt.Errorf("%s: key %q is ambiguous (fields %s and %s at the same depth); the codec would drop both",
				t, g[0].Key, g[0].Go, g[1].Go)
		}
		out = append(out, g[0])
	}
	sort.SliceStable(out, func(i, j int) bool {
		a, b := out[i].idx, out[j].idx
		for k := 0; k < len(a) && k < len(b); k++ {
			if a[k] != b[k] {
				return a[k] < b[k]
			}
		}
		return len(a) < len(b)
	})
	return out, nil
}

// Collect is collect for any struct type (no discarded placeholder): the fields the codec sees, in
// declaration order. Index returns the reflect index path of such a field (FieldByIndex).
func Collect(t reflect.Type) ([]Field, error) { return collect(t, nil) }
func (f Field) Index() []int                  { return f.idx }

func nested(t reflect.Type) bool {
	for {
		switch t.Kind() {
		case reflect.Pointer, reflect.Slice, reflect.Array, reflect.Map:
			t = t.Elem()
		case reflect.Struct:
			return true
		default:
			return false
		}
	}
}

// selfCheck compares the translator's key set of a full struct with what the real codec emits for a
// zero value of that struct (all keys except omitempty ones must be present, nothing else).
func selfCheck(t reflect.Type, fs []Field) error {
	b, err := cbor.Marshal(reflect.New(t).Interface())
	if err != nil {
		return fmt.Errorf("%s: zero value does not encode: %v", t, err)
	}
	var m map[any]any
	if err := cbor.Unmarshal(b, &m); err != nil {
		return fmt.Errorf("%s: zero value is not a CBOR map: %v", t, err)
	}
	want := map[string]bool{}
	for _, f := range fs {
		if !f.OmitEmpty {
			want[keyString(f)] = true
		}
	}
	got := map[string]bool{}
	for k := range m {
		switch x := k.(type) {
		case string:
			got["s:"+x] = true
		case uint64:
			got["i:"+strconv.FormatUint(x, 10)] = true
		case int64:
			got["i:"+strconv.FormatInt(x, 10)] = true
		default:
			return fmt.Errorf("%s: wire key of type %T", t, k)
		}
	}
	for k := range want {
		if !got[k] {
			return fmt.Errorf("%s: translator expects wire key %s, the codec does not emit it", t, k)
		}
	}
	for k := range got {
		if !want[k] {
			return fmt.Errorf("%s: the codec emits wire key %s, unknown to the translator", t, k)
		}
	}
	return nil
}

func keyString(f Field) string {
	if f.KeyInt {
		return "i:" + f.Key
	}
	return "s:" + f.Key
}

// sourceGuard: every struct declared in the three anchor files must be known to the translator, and
// every struct anywhere in package core that uses the discarded placeholder must be registered as a
// projection or skeleton.
func sourceGuard(repo string, known map[string]bool, ignore map[string]string) error {
	dir := filepath.Join(repo, "core")
	files, err := filepath.Glob(filepath.Join(dir, "*.go"))
	if err != nil {
		return err
	}
	anchor := map[string]bool{"partial_cbor.go": true, "block_transaction_serializer.go": true, "block_transaction.go": true}
	fset := token.NewFileSet()
	usesDiscarded := map[string]bool{}
	embeds := map[string][]string{}
	declared := map[string]string{}
	for _, fn := range files {
		base := filepath.Base(fn)
		if strings.HasSuffix(base, "_test.go") || base == "verif_export.go" {
			continue
		}
		af, err := parser.ParseFile(fset, fn, nil, parser.SkipObjectResolution)
		if err != nil {
			return err
		}
		for _, d := range af.Decls {
			gd, ok := d.(*ast.GenDecl)
			if !ok || gd.Tok != token.TYPE {
				continue
			}
			for _, sp := range gd.Specs {
				ts := sp.(*ast.TypeSpec)
				st, ok := ts.Type.(*ast.StructType)
				if !ok || st.Fields == nil || len(st.Fields.List) == 0 {
					continue
				}
				name := ts.Name.Name
				declared[name] = base
				for _, f := range st.Fields.List {
					id, isIdent := f.Type.(*ast.Ident)
					if isIdent && id.Name == "discardedCBOR" {
						usesDiscarded[name] = true
					}
					if len(f.Names) == 0 && isIdent {
						embeds[name] = append(embeds[name], id.Name)
					}
				}
				if anchor[base] && !known[name] {
					if _, ok := ignore[name]; !ok {
						return fmt.Errorf("core/%s declares struct %s which the C07 translator does not know (add it to core.VerifProjections / VerifFullLayouts)", base, name)
					}
				}
			}
		}
	}
	// transitive: embedding a struct that uses the placeholder
	changed := true
	for changed {
		changed = false
		for n, es := range embeds {
			if usesDiscarded[n] {
				continue
			}
			for _, e := range es {
				if usesDiscarded[e] {
					usesDiscarded[n] = true
					changed = true
				}
			}
		}
	}
	for n := range usesDiscarded {
		if !known[n] {
			return fmt.Errorf("core/%s: struct %s uses discardedCBOR but is not registered in core.VerifProjections / VerifSkeletons", declared[n], n)
		}
	}
	return nil
}

func coqString(s string) string { return `"` + strings.ReplaceAll(s, `"`, `""`) + `"` }

func coqBool(b bool) string {
	if b {
		return "true"
	}
	return "false"
}

func coqIdent(s string) string {
	var sb strings.Builder
	for _, r := range s {
		if r == '_' || (r >= '0' && r <= '9') || (r >= 'a' && r <= 'z') || (r >= 'A' && r <= 'Z') {
			sb.WriteRune(r)
		} else {
			sb.WriteRune('_')
		}
	}
	return sb.String()
}

func renderLayout(name string, fs []Field) string {
	var sb strings.Builder
	fmt.Fprintf(&sb, "Definition L_%s : layout := [\n", coqIdent(name))
	for i, f := range fs {
		key := "KStr " + coqString(f.Key)
		if f.KeyInt {
			key = "KInt (" + f.Key + ")%Z"
		}
		sep := ";"
		if i == len(fs)-1 {
			sep = ""
		}
		note := ""
		if f.OmitEmpty {
			note = " (* omitempty *)"
		}
		fmt.Fprintf(&sb, "  mkField %s (%s) %s %s %s %s %s%s%s\n", coqString(f.Go), key, coqString(f.Kind), coqString(f.Type),
			coqBool(f.Ptr), coqBool(f.Nested), coqBool(f.Wanted), sep, note)
	}
	sb.WriteString("].\n\n")
	return sb.String()
}

// Table is the machine-readable result (also used by the harness for its direct projection checks).
type Table struct {
	Fulls       map[string][]Field
	FullOrder   []string
	Projections []Entry
	Skeletons   []Entry
}
type Entry struct {
	Name   string
	Fields []Field
	Fulls  []string
}

func Build(repo string) (*Table, error) {
	disc := core.VerifDiscardedType()
	tb := &Table{Fulls: map[string][]Field{}}
	known := map[string]bool{}
	for _, t := range core.VerifFullLayouts() {
		fs, err := collect(t, disc)
		if err != nil {
			return nil, err
		}
		for _, f := range fs {
			if !f.Wanted {
				return nil, fmt.Errorf("%s.%s: a stored record has a discarded field", t, f.Go)
			}
		}
		if err := selfCheck(t, fs); err != nil {
			return nil, err
		}
		tb.Fulls[t.Name()] = fs
		tb.FullOrder = append(tb.FullOrder, t.Name())
		known[t.Name()] = true
	}
	mk := func(ps []core.VerifProjection) ([]Entry, error) {
		var es []Entry
		for _, p := range ps {
			fs, err := collect(p.Type, disc)
			if err != nil {
				return nil, err
			}
			e := Entry{Name: p.Name, Fields: fs}
			for _, ft := range p.Fulls {
				if _, ok := tb.Fulls[ft.Name()]; !ok {
					return nil, fmt.Errorf("%s: full struct %s is not in VerifFullLayouts", p.Name, ft.Name())
				}
				e.Fulls = append(e.Fulls, ft.Name())
			}
			es = append(es, e)
			known[p.Name] = true
		}
		return es, nil
	}
	var err error
	if tb.Projections, err = mk(core.VerifProjections()); err != nil {
		return nil, err
	}
	if tb.Skeletons, err = mk(core.VerifSkeletons()); err != nil {
		return nil, err
	}
	ignore := map[string]string{
		"BlockTransactions":       "in-memory container: Indexes is encoded on its own, Data is raw bytes",
		"TransactionAndReceipt":   "in-memory result pair, never encoded",
		"TransactionsAndReceipts": "in-memory result pair, never encoded",
	}
	if err := sourceGuard(repo, known, ignore); err != nil {
		return nil, err
	}
	return tb, nil
}

// Render produces coq/theories/Gen/C07_Layouts.v.
func Render(tb *Table) string {
	var sb strings.Builder
	sb.WriteString("(* GENERATED by /verif/harness/cmd/c07gen from the working tree of /repo (reflection over package core,\n")
	sb.WriteString("   build tag verif). Do not edit: regenerated on every run of the C07 check. *)\n")
	sb.WriteString("From Coq Require Import String ZArith List Bool.\nFrom V Require Import C07.Model.\nImport ListNotations.\nOpen Scope string_scope.\n\n")
	for _, n := range tb.FullOrder {
		sb.WriteString(renderLayout(n, tb.Fulls[n]))
	}
	ent := func(kind string, es []Entry) {
		for _, e := range es {
			sb.WriteString(renderLayout(e.Name, e.Fields))
		}
		for _, e := range es {
			var fl []string
			for _, f := range e.Fulls {
				fl = append(fl, fmt.Sprintf("(%s, L_%s)", coqString(f), coqIdent(f)))
			}
			fmt.Fprintf(&sb, "Definition P_%s : pentry := mkP %s L_%s [%s].\n", coqIdent(e.Name), coqString(e.Name), coqIdent(e.Name), strings.Join(fl, "; "))
		}
		var names []string
		for _, e := range es {
			names = append(names, "P_"+coqIdent(e.Name))
		}
		fmt.Fprintf(&sb, "\nDefinition %s : list pentry := [%s].\n\n", kind, strings.Join(names, "; "))
	}
	var fl []string
	for _, n := range tb.FullOrder {
		fl = append(fl, fmt.Sprintf("(%s, L_%s)", coqString(n), coqIdent(n)))
	}
	fmt.Fprintf(&sb, "Definition fulls : list (string * layout) := [%s].\n\n", strings.Join(fl, "; "))
	ent("projections", tb.Projections)
	ent("skeletons", tb.Skeletons)
	return sb.String()
}

// Obligation renders the small file whose compilation is the regenerated proof obligation.
func Obligation(tb *Table, genModule string) string {
	var sb strings.Builder
	sb.WriteString("From Coq Require Import List Bool String.\nFrom V Require Import C07.Model.\n")
	fmt.Fprintf(&sb, "Require Import %s.\nImport ListNotations.\nOpen Scope string_scope.\nOpen Scope list_scope.\n", genModule)
	for _, e := range tb.Projections {
		fmt.Fprintf(&sb, "Example ok_%s : check_entry P_%s = true. Proof. vm_compute. reflexivity. Qed.\n", coqIdent(e.Name), coqIdent(e.Name))
	}
	for _, e := range tb.Skeletons {
		fmt.Fprintf(&sb, "Example ok_%s : check_skeleton P_%s = true. Proof. vm_compute. reflexivity. Qed.\n", coqIdent(e.Name), coqIdent(e.Name))
	}
	sb.WriteString("Theorem layouts_ok : forallb check_entry projections = true. Proof. vm_compute. reflexivity. Qed.\n")
	sb.WriteString("Theorem skeletons_ok : forallb check_skeleton skeletons = true. Proof. vm_compute. reflexivity. Qed.\n")
	sb.WriteString("Theorem fulls_ok : forallb (fun nl => nodup_keys (snd nl) && forallb f_wanted (snd nl)) fulls = true. Proof. vm_compute. reflexivity. Qed.\n")
	// the value shapes the CBOR round-trip theorems are instantiated for (Shapes.v) are the shapes of the table
	for _, n := range tb.FullOrder {
		fmt.Fprintf(&sb, "Example cbor_shape_%s : shapes_match_layouts [(%s, L_%s)] = true. Proof. vm_compute. reflexivity. Qed.\n", coqIdent(n), coqString(n), coqIdent(n))
	}
	sb.WriteString("Theorem cbor_shapes_match_layouts : shapes_match_layouts fulls = true. Proof. vm_compute. reflexivity. Qed.\n")
	return sb.String()
}

// WriteIfChanged writes only on content change (so that make does not rebuild needlessly).
func WriteIfChanged(path, content string) (bool, error) {
	old, err := os.ReadFile(path)
	if err == nil && string(old) == content {
		return false, nil
	}
	if err := os.MkdirAll(filepath.Dir(path), 0o755); err != nil {
		return false, err
	}
	tmp := path + ".tmp"
	if err := os.WriteFile(tmp, []byte(content), 0o644); err != nil {
		return false, err
	}
	return true, os.Rename(tmp, path)
}

// DecoderLimits reads the decoder's configured size limits from encoder/encoder.go (the composite
// literal cbor.DecOptions{...}): MaxArrayElements, MaxMapPairs, MaxNestedLevels. A key that is not set
// is reported as 0 (= the library default: 131072 / 131072 / 32 in fxamacker/cbor v2).
func DecoderLimits(repo string) (map[string]int64, error) {
	fn := filepath.Join(repo, "encoder", "encoder.go")
	fset := token.NewFileSet()
	af, err := parser.ParseFile(fset, fn, nil, parser.SkipObjectResolution)
	if err != nil {
		return nil, err
	}
	consts := map[string]ast.Expr{}
	for _, d := range af.Decls {
		if gd, ok := d.(*ast.GenDecl); ok && gd.Tok == token.CONST {
			for _, sp := range gd.Specs {
				vs := sp.(*ast.ValueSpec)
				for i, n := range vs.Names {
					if i < len(vs.Values) {
						consts[n.Name] = vs.Values[i]
					}
				}
			}
		}
	}
	var eval func(e ast.Expr) (int64, error)
	eval = func(e ast.Expr) (int64, error) {
		switch x := e.(type) {
		case *ast.BasicLit:
			v, err := strconv.ParseInt(strings.ReplaceAll(x.Value, "_", ""), 0, 64)
			return v, err
		case *ast.Ident:
			if c, ok := consts[x.Name]; ok {
				return eval(c)
			}
		case *ast.ParenExpr:
			return eval(x.X)
		case *ast.BinaryExpr:
			a, err := eval(x.X)
			if err != nil {
				return 0, err
			}
			b, err := eval(x.Y)
			if err != nil {
				return 0, err
			}
			switch x.Op {
			case token.SHL:
				return a << uint(b), nil
			case token.MUL:
				return a * b, nil
			case token.ADD:
				return a + b, nil
			case token.SUB:
				return a - b, nil
			}
		}
		return 0, fmt.Errorf("encoder.go: decoder limit expression outside the translator's subset")
	}
	out := map[string]int64{"MaxArrayElements": 0, "MaxMapPairs": 0, "MaxNestedLevels": 0}
	found := false
	var ferr error
	ast.Inspect(af, func(n ast.Node) bool {
		cl, ok := n.(*ast.CompositeLit)
		if !ok {
			return true
		}
		se, ok := cl.Type.(*ast.SelectorExpr)
		if !ok || se.Sel.Name != "DecOptions" {
			return true
		}
		found = true
		for _, el := range cl.Elts {
			kv, ok := el.(*ast.KeyValueExpr)
			if !ok {
				continue
			}
			if id, ok := kv.Key.(*ast.Ident); ok {
				if _, want := out[id.Name]; want {
					v, err := eval(kv.Value)
					if err != nil {
						ferr = err
					}
					out[id.Name] = v
				}
			}
		}
		return true
	})
	if !found {
		return nil, fmt.Errorf("encoder.go: no cbor.DecOptions literal found")
	}
	return out, ferr
}
