// c07gen: the C07 translator. Regenerates coq/theories/Gen/C07_Layouts.v from /repo's working tree.
//
//	c07gen [--repo /repo] --gen <outfile>      write the table (only on content change)
//	c07gen --print                              print it to stdout
//
// Exit 0 = written / unchanged, 1 = the source left the translator's subset (a broken obligation).
package main

import (
	"flag"
	"fmt"
	"os"

	_ "github.com/NethermindEth/juno/encoder/registry"
	"verifharness/cmd/c07gen/layouts"
)

func main() {
	repo := flag.String("repo", "/repo", "juno working tree")
	out := flag.String("gen", "", "output file (coq/theories/Gen/C07_Layouts.v)")
	pr := flag.Bool("print", false, "print to stdout")
	flag.Parse()
	tb, err := layouts.Build(*repo)
	if err != nil {
		fmt.Fprintln(os.Stderr, "c07gen:", err)
		os.Exit(1)
	}
	txt := layouts.Render(tb)
	if *pr || *out == "" {
		fmt.Print(txt)
		return
	}
	changed, err := layouts.WriteIfChanged(*out, txt)
	if err != nil {
		fmt.Fprintln(os.Stderr, "c07gen:", err)
		os.Exit(2)
	}
	if changed {
		fmt.Println("c07gen: regenerated", *out)
	}
}
