// C08 chain construction: synthetic but fully valid blocks (juno computes hashes, commitments, roots)
// with distinguishable Cairo-0 classes, reverted receipts and events; pushed into follower nodes of
// both state backends the way sync does.
package main

import (
	"fmt"
	"sort"

	"github.com/NethermindEth/juno/blockchain/networks"
	"github.com/NethermindEth/juno/core"
	"github.com/NethermindEth/juno/core/felt"
	"verifharness/chain"
)

type TxSpec struct {
	Reverted bool `json:"reverted"`
	Events   int  `json:"events"`
}

// BSpec describes one block in small integers.
type BSpec struct {
	Salt    uint64                       `json:"salt"`
	Declare []uint64                     `json:"declare,omitempty"` // cairo0 class ids: hash = id, program = "p<id>"
	Deploy  map[uint64]uint64            `json:"deploy,omitempty"`  // address -> class id
	Replace map[uint64]uint64            `json:"replace,omitempty"` // address -> class id
	Nonces  map[uint64]uint64            `json:"nonces,omitempty"`
	Storage map[uint64]map[uint64]uint64 `json:"storage,omitempty"`
	Txs     []TxSpec                     `json:"txs,omitempty"`
}

func F(x uint64) *felt.Felt { return chain.F(x) }

func classDef(id uint64) core.ClassDefinition {
	return &core.DeprecatedCairoClass{Abi: []byte("[]"), Program: fmt.Sprintf("p%d", id)}
}

func (s *BSpec) diff() *core.StateDiff {
	d := &core.StateDiff{
		StorageDiffs:      map[felt.Felt]map[felt.Felt]*felt.Felt{},
		Nonces:            map[felt.Felt]*felt.Felt{},
		DeployedContracts: map[felt.Felt]*felt.Felt{},
		DeclaredV1Classes: map[felt.Felt]*felt.Felt{},
		ReplacedClasses:   map[felt.Felt]*felt.Felt{},
	}
	for a, c := range s.Deploy {
		d.DeployedContracts[*F(a)] = F(c)
	}
	for a, c := range s.Replace {
		d.ReplacedClasses[*F(a)] = F(c)
	}
	for a, n := range s.Nonces {
		d.Nonces[*F(a)] = F(n)
	}
	for a, m := range s.Storage {
		mm := map[felt.Felt]*felt.Felt{}
		for k, v := range m {
			mm[*F(k)] = F(v)
		}
		d.StorageDiffs[*F(a)] = mm
	}
	ids := append([]uint64{}, s.Declare...)
	sort.Slice(ids, func(i, j int) bool { return ids[i] < ids[j] })
	for _, c := range ids {
		d.DeclaredV0Classes = append(d.DeclaredV0Classes, F(c))
	}
	return d
}

func (s *BSpec) txs(number uint64) ([]core.Transaction, []*core.TransactionReceipt) {
	txs := make([]core.Transaction, 0, len(s.Txs))
	rcs := make([]*core.TransactionReceipt, 0, len(s.Txs))
	for i, t := range s.Txs {
		tx := &core.InvokeTransaction{
			Version:       new(core.TransactionVersion).SetUint64(3),
			SenderAddress: F(77),
			Nonce:         F(number*100000 + uint64(i)*1000 + s.Salt%1000),
			CallData:      []felt.Felt{*F(uint64(i))},
			ResourceBounds: map[core.Resource]core.ResourceBounds{
				core.ResourceL1Gas:     {MaxAmount: 1, MaxPricePerUnit: F(1)},
				core.ResourceL2Gas:     {MaxAmount: 1, MaxPricePerUnit: F(1)},
				core.ResourceL1DataGas: {MaxAmount: 1, MaxPricePerUnit: F(1)},
			},
			TransactionSignature: []felt.Felt{*F(1), *F(2)},
		}
		hv, err := core.TransactionHash(tx, &networks.Sepolia)
		if err != nil {
			panic(err)
		}
		tx.TransactionHash = &hv
		rc := &core.TransactionReceipt{TransactionHash: &hv, Fee: F(uint64(i) + 1), FeeUnit: core.STRK,
			ExecutionResources: &core.ExecutionResources{}}
		if t.Reverted {
			rc.Reverted = true
			rc.RevertReason = fmt.Sprintf("reverted-%d-%d", number, i)
		}
		for e := 0; e < t.Events; e++ {
			rc.Events = append(rc.Events, &core.Event{From: F(500 + uint64(e)), Keys: []felt.Felt{*F(uint64(e))}, Data: []felt.Felt{*F(number)}})
		}
		txs = append(txs, tx)
		rcs = append(rcs, rc)
	}
	return txs, rcs
}

// finalise appends the block described by spec on top of the sequencer node's head.
func finalise(n *chain.Node, spec *BSpec) (*chain.Built, error) {
	var number uint64
	parent := &felt.Zero
	oldRoot := &felt.Zero
	if h, err := n.BC.HeadsHeader(); err == nil {
		number = h.Number + 1
		parent = h.Hash
		oldRoot = h.GlobalStateRoot
	}
	txs, rcs := spec.txs(number)
	var evCount uint64
	for _, r := range rcs {
		evCount += uint64(len(r.Events))
	}
	block := &core.Block{
		Header: &core.Header{
			ParentHash:       parent,
			Number:           number,
			SequencerAddress: F(1000 + spec.Salt),
			Timestamp:        1700000000 + number,
			TransactionCount: uint64(len(txs)),
			EventCount:       evCount,
			EventsBloom:      core.EventsBloom(rcs),
			L1GasPriceETH:    F(1),
			L1GasPriceSTRK:   F(1),
			L1DataGasPrice:   &core.GasPrice{PriceInFri: F(1), PriceInWei: F(1)},
			L2GasPrice:       &core.GasPrice{PriceInFri: F(1), PriceInWei: F(1)},
			L1DAMode:         core.Blob,
			ProtocolVersion:  core.Ver0_14_0.String(),
		},
		Transactions: txs,
		Receipts:     rcs,
	}
	su := &core.StateUpdate{OldRoot: oldRoot, StateDiff: spec.diff()}
	classes := map[felt.Felt]core.ClassDefinition{}
	for _, c := range spec.Declare {
		classes[*F(c)] = classDef(c)
	}
	if err := n.BC.Finalise(block, su, classes, nil); err != nil {
		return nil, err
	}
	cm, err := n.BC.BlockCommitmentsByNumber(number)
	if err != nil {
		return nil, fmt.Errorf("commitments: %w", err)
	}
	return &chain.Built{Block: block, Update: su, Classes: classes, Commit: cm}, nil
}
