// C08 chain construction: synthetic but fully valid blocks (juno computes hashes, commitments, roots)
// with distinguishable Cairo-0 and Sierra classes, every transaction kind the RPC schema knows, reverted
// receipts, events and L2->L1 messages; pushed into follower nodes of both state backends the way sync does.
package main

import (
	"fmt"
	"math/big"
	"sort"

	"github.com/NethermindEth/juno/blockchain/networks"
	"github.com/NethermindEth/juno/core"
	"github.com/NethermindEth/juno/core/felt"
	"github.com/NethermindEth/juno/l1/eth"
	"verifharness/chain"
)

// TxSpec: Kind is one of txKinds; the content of the transaction is derived from (block number, index, salt).
type TxSpec struct {
	Kind     string `json:"kind,omitempty"` // default invoke3
	Reverted bool   `json:"reverted"`
	Events   int    `json:"events"`
	Msgs     int    `json:"msgs,omitempty"`
}

var txKinds = []string{"invoke3", "invoke1", "invoke0", "declare3", "declare2", "declare1", "declare0",
	"deploy_account3", "deploy_account1", "deploy", "l1_handler"}

// CDecl: a Cairo-0 class delivered with a block: the class hash is Hash (Cairo-0 hashes are not verified by
// juno), the definition is number Def (program "p<Def>", entry points derived from Def).
type CDecl struct {
	Hash uint64 `json:"hash"`
	Def  uint64 `json:"def"`
}

// class references used by deployments / replacements: below sierraRef a Cairo-0 hash, from sierraRef on the
// Sierra class number ref-sierraRef (its hash is juno's SierraClass.Hash()).
const sierraRef = 5000

func classHashOf(ref uint64) *felt.Felt {
	if ref >= sierraRef {
		return sierraHash(ref - sierraRef)
	}
	return F(ref)
}

// BSpec describes one block in small integers.
type BSpec struct {
	Salt     uint64                       `json:"salt"`
	Declare  []CDecl                      `json:"declare,omitempty"`  // deprecated_declared_classes
	DeclareS []uint64                     `json:"declare_s,omitempty"` // declared_classes: Sierra class numbers
	Extra    []CDecl                      `json:"extra,omitempty"`    // delivered for deployments, not declared
	Deploy   map[uint64]uint64            `json:"deploy,omitempty"`   // address -> class ref
	Replace  map[uint64]uint64            `json:"replace,omitempty"`  // address -> class ref
	Nonces   map[uint64]uint64            `json:"nonces,omitempty"`
	Storage  map[uint64]map[uint64]uint64 `json:"storage,omitempty"`
	Txs      []TxSpec                     `json:"txs,omitempty"`
}

func F(x uint64) *felt.Felt { return chain.F(x) }

// Cairo-0 definition number def.
func classDef0(def uint64) *core.DeprecatedCairoClass {
	c := &core.DeprecatedCairoClass{
		Abi:     []byte(fmt.Sprintf(`[{"name":"f%d","type":"function","inputs":[],"outputs":[]}]`, def)),
		Program: fmt.Sprintf("p%d", def),
		Externals: []core.DeprecatedEntryPoint{
			{Selector: F(0x1000 + def), Offset: F(def)},
			{Selector: F(0x2000 + def), Offset: F(def + 17)},
		},
		// never nil: the feeder adapters (adapters/sn2core) always make these slices, and rpc/v8 relies on it
		// (a nil list would be rendered as null by v0.8 and as [] by v0.9 / v0.10)
		L1Handlers:   []core.DeprecatedEntryPoint{},
		Constructors: []core.DeprecatedEntryPoint{},
	}
	if def%2 == 1 {
		c.Constructors = []core.DeprecatedEntryPoint{{Selector: F(0x3000 + def), Offset: F(3)}}
		c.L1Handlers = []core.DeprecatedEntryPoint{{Selector: F(0x4000 + def), Offset: F(0)}}
	}
	return c
}

// Sierra class number id; the definition id the model carries for it is sierraDefID(id).
func sierraClass(id uint64) *core.SierraClass {
	c := &core.SierraClass{
		Abi: fmt.Sprintf(`[{"type":"function","name":"s%d"}]`, id), AbiHash: F(7000 + id), ProgramHash: F(8000 + id),
		SemanticVersion: "0.1.0",
		Program:         []felt.Felt{*F(id), *F(id + 1), *F(0xabc)},
		Compiled:        &core.CasmClass{Bytecode: []felt.Felt{*F(id)}, CompilerVersion: "2.0.0", Prime: big.NewInt(0)},
	}
	c.EntryPoints.Constructor, c.EntryPoints.L1Handler = []core.SierraEntryPoint{}, []core.SierraEntryPoint{}
	c.EntryPoints.External = []core.SierraEntryPoint{{Index: id, Selector: F(0x5000 + id)}, {Index: 0, Selector: F(0x5100 + id)}}
	if id%2 == 0 {
		c.EntryPoints.Constructor = []core.SierraEntryPoint{{Index: 2, Selector: F(0x5200 + id)}}
	} else {
		c.EntryPoints.L1Handler = []core.SierraEntryPoint{{Index: 3, Selector: F(0x5300 + id)}}
	}
	return c
}

var sierraHashes = map[uint64]*felt.Felt{}

func sierraHash(id uint64) *felt.Felt {
	if h, ok := sierraHashes[id]; ok {
		return h
	}
	h, err := sierraClass(id).Hash()
	if err != nil {
		panic(err)
	}
	sierraHashes[id] = &h
	return &h
}

func sierraDefID(id uint64) uint64  { return 0x10000 + id }
func sierraCasmHash(id uint64) uint64 { return 0xcc00 + id }

func (s *BSpec) diff() *core.StateDiff {
	d := &core.StateDiff{
		StorageDiffs:      map[felt.Felt]map[felt.Felt]*felt.Felt{},
		Nonces:            map[felt.Felt]*felt.Felt{},
		DeployedContracts: map[felt.Felt]*felt.Felt{},
		DeclaredV1Classes: map[felt.Felt]*felt.Felt{},
		ReplacedClasses:   map[felt.Felt]*felt.Felt{},
	}
	for a, c := range s.Deploy {
		d.DeployedContracts[*F(a)] = classHashOf(c)
	}
	for a, c := range s.Replace {
		d.ReplacedClasses[*F(a)] = classHashOf(c)
	}
	for a, n := range s.Nonces {
		d.Nonces[*F(a)] = F(n)
	}
	for a, m := range s.Storage {
		mm := map[felt.Felt]*felt.Felt{}
		for k, v := range m {
			mm[*F(k)] = F(v)
		}
		d.StorageDiffs[*F(a)] = mm
	}
	ids := append([]CDecl{}, s.Declare...)
	sort.Slice(ids, func(i, j int) bool { return ids[i].Hash < ids[j].Hash })
	for _, c := range ids {
		d.DeclaredV0Classes = append(d.DeclaredV0Classes, F(c.Hash))
	}
	for _, id := range s.DeclareS {
		d.DeclaredV1Classes[*sierraHash(id)] = F(sierraCasmHash(id))
	}
	return d
}

// classes is the newClasses argument of Store: the definitions delivered with the block.
func (s *BSpec) classes() map[felt.Felt]core.ClassDefinition {
	m := map[felt.Felt]core.ClassDefinition{}
	for _, c := range s.Declare {
		m[*F(c.Hash)] = classDef0(c.Def)
	}
	for _, c := range s.Extra {
		m[*F(c.Hash)] = classDef0(c.Def)
	}
	for _, id := range s.DeclareS {
		m[*sierraHash(id)] = sierraClass(id)
	}
	return m
}

func rb(a1, p1, a2, p2, a3, p3 uint64) map[core.Resource]core.ResourceBounds {
	return map[core.Resource]core.ResourceBounds{
		core.ResourceL1Gas:     {MaxAmount: a1, MaxPricePerUnit: F(p1)},
		core.ResourceL2Gas:     {MaxAmount: a2, MaxPricePerUnit: F(p2)},
		core.ResourceL1DataGas: {MaxAmount: a3, MaxPricePerUnit: F(p3)},
	}
}

func ver(v uint64) *core.TransactionVersion { return new(core.TransactionVersion).SetUint64(v) }

// mkTx builds transaction i of block number `number`; u makes it unique across blocks and branches.
func mkTx(kind string, number uint64, i int, salt uint64) core.Transaction {
	u := number*100000 + uint64(i)*1000 + salt%1000
	sig := []felt.Felt{*F(1 + u%7), *F(2)}
	var tx core.Transaction
	switch kind {
	case "", "invoke3":
		t := &core.InvokeTransaction{Version: ver(3), SenderAddress: F(77), Nonce: F(u), CallData: []felt.Felt{*F(uint64(i)), *F(u)},
			ResourceBounds: rb(1, 1+u%5, 2+u%3, 1, 3, 7), TransactionSignature: sig, Tip: u % 4,
			PaymasterData: []felt.Felt{}, AccountDeploymentData: []felt.Felt{}}
		if u%3 == 0 {
			t.PaymasterData = []felt.Felt{*F(9)}
			t.AccountDeploymentData = []felt.Felt{*F(8), *F(7)}
			t.NonceDAMode, t.FeeDAMode = core.DAModeL2, core.DAModeL1
		}
		tx = t
	case "invoke1":
		tx = &core.InvokeTransaction{Version: ver(1), SenderAddress: F(78), Nonce: F(u), MaxFee: F(1000 + u),
			CallData: []felt.Felt{*F(uint64(i)), *F(5)}, TransactionSignature: sig}
	case "invoke0":
		tx = &core.InvokeTransaction{Version: ver(0), ContractAddress: F(79), EntryPointSelector: F(0x77 + u), MaxFee: F(1000 + u),
			CallData: []felt.Felt{*F(uint64(i))}, TransactionSignature: sig}
	case "declare3":
		tx = &core.DeclareTransaction{Version: ver(3), SenderAddress: F(80), Nonce: F(u), ClassHash: F(0xc1a55 + u),
			CompiledClassHash: F(0xca5 + u), ResourceBounds: rb(4, 1, 5, 2, 6, 3), Tip: 1, TransactionSignature: sig,
			PaymasterData: []felt.Felt{*F(u)}, AccountDeploymentData: []felt.Felt{}, FeeDAMode: core.DAModeL2}
	case "declare2":
		tx = &core.DeclareTransaction{Version: ver(2), SenderAddress: F(81), Nonce: F(u), ClassHash: F(0xc1a55 + u),
			CompiledClassHash: F(0xca5 + u), MaxFee: F(2000 + u), TransactionSignature: sig}
	case "declare1":
		tx = &core.DeclareTransaction{Version: ver(1), SenderAddress: F(82), Nonce: F(u), ClassHash: F(0xc1a55 + u),
			MaxFee: F(2000 + u), TransactionSignature: sig}
	case "declare0":
		tx = &core.DeclareTransaction{Version: ver(0), SenderAddress: F(1), Nonce: F(0), ClassHash: F(0xc1a55 + u),
			MaxFee: F(0), TransactionSignature: []felt.Felt{}}
	case "deploy_account3":
		t := &core.DeployAccountTransaction{ResourceBounds: rb(1, 1, 1, 1, 1, 1), Tip: 2, TransactionSignature: sig, Nonce: F(0),
			PaymasterData: []felt.Felt{}, NonceDAMode: core.DAModeL1, FeeDAMode: core.DAModeL1}
		t.Version, t.ContractAddressSalt, t.ClassHash = ver(3), F(u), F(0xacc0)
		t.ConstructorCallData = []felt.Felt{*F(u), *F(1)}
		t.ContractAddress = F(0xadd0000 + u)
		tx = t
	case "deploy_account1":
		t := &core.DeployAccountTransaction{MaxFee: F(3000 + u), TransactionSignature: sig, Nonce: F(0)}
		t.Version, t.ContractAddressSalt, t.ClassHash = ver(1), F(u), F(0xacc1)
		t.ConstructorCallData = []felt.Felt{}
		t.ContractAddress = F(0xadd1000 + u)
		tx = t
	case "deploy":
		tx = &core.DeployTransaction{Version: ver(0), ContractAddressSalt: F(u), ClassHash: F(0xdeb), ContractAddress: F(0xadd2000 + u),
			ConstructorCallData: []felt.Felt{*F(4)}, TransactionHash: F(0xdeb10000000 + u)}
	case "l1_handler":
		tx = &core.L1HandlerTransaction{Version: ver(0), ContractAddress: F(0x11), EntryPointSelector: F(0x12 + u), Nonce: F(u),
			CallData: []felt.Felt{*F(0xe7700 + u%9), *F(u), *F(3)}}
	default:
		panic("tx kind " + kind)
	}
	hv, err := core.TransactionHash(tx, &networks.Sepolia)
	if err != nil {
		panic(err)
	}
	switch t := tx.(type) {
	case *core.InvokeTransaction:
		t.TransactionHash = &hv
	case *core.DeclareTransaction:
		t.TransactionHash = &hv
	case *core.DeployAccountTransaction:
		t.TransactionHash = &hv
	case *core.L1HandlerTransaction:
		t.TransactionHash = &hv
	}
	return tx
}

func (s *BSpec) txs(number uint64) ([]core.Transaction, []*core.TransactionReceipt) {
	txs := make([]core.Transaction, 0, len(s.Txs))
	rcs := make([]*core.TransactionReceipt, 0, len(s.Txs))
	for i, t := range s.Txs {
		tx := mkTx(t.Kind, number, i, s.Salt)
		unit := core.WEI
		if tx.TxVersion().Is(3) {
			unit = core.STRK
		}
		rc := &core.TransactionReceipt{TransactionHash: tx.Hash(), Fee: F(uint64(i) + 1 + s.Salt%13), FeeUnit: unit,
			ExecutionResources: &core.ExecutionResources{Steps: 10 + uint64(i), MemoryHoles: 1,
				BuiltinInstanceCounter: core.BuiltinInstanceCounter{Pedersen: 2, RangeCheck: 3},
				DataAvailability:       &core.DataAvailability{L1Gas: 1, L1DataGas: 2},
				TotalGasConsumed:       &core.GasConsumed{L1Gas: 11 + uint64(i), L1DataGas: 22 + number, L2Gas: 33 + s.Salt%5}}}
		if t.Reverted {
			rc.Reverted = true
			rc.RevertReason = fmt.Sprintf("reverted-%d-%d", number, i)
		}
		for e := 0; e < t.Events; e++ {
			rc.Events = append(rc.Events, &core.Event{From: F(500 + uint64(e)), Keys: []felt.Felt{*F(uint64(e)), *F(number)}, Data: []felt.Felt{*F(number), *F(s.Salt % 97)}})
		}
		for m := 0; m < t.Msgs; m++ {
			var to eth.Address
			to[19], to[0] = byte(m+1), 0xc6
			rc.L2ToL1Message = append(rc.L2ToL1Message, &core.L2ToL1Message{From: F(600 + uint64(m)), To: to, Payload: []felt.Felt{*F(number), *F(uint64(m))}})
		}
		txs = append(txs, tx)
		rcs = append(rcs, rc)
	}
	return txs, rcs
}

// finalise appends the block described by spec on top of the sequencer node's head.
func finalise(n *chain.Node, spec *BSpec) (*chain.Built, error) {
	var number uint64
	parent := &felt.Zero
	oldRoot := &felt.Zero
	if h, err := n.BC.HeadsHeader(); err == nil {
		number = h.Number + 1
		parent = h.Hash
		oldRoot = h.GlobalStateRoot
	}
	txs, rcs := spec.txs(number)
	var evCount uint64
	for _, r := range rcs {
		evCount += uint64(len(r.Events))
	}
	da := core.Blob
	if spec.Salt%4 == 1 {
		da = core.Calldata
	}
	block := &core.Block{
		Header: &core.Header{
			ParentHash:       parent,
			Number:           number,
			SequencerAddress: F(1000 + spec.Salt),
			Timestamp:        1700000000 + number*7 + spec.Salt%5,
			TransactionCount: uint64(len(txs)),
			EventCount:       evCount,
			EventsBloom:      core.EventsBloom(rcs),
			L1GasPriceETH:    F(10 + spec.Salt%3),
			L1GasPriceSTRK:   F(20 + spec.Salt%7),
			L1DataGasPrice:   &core.GasPrice{PriceInFri: F(30 + number), PriceInWei: F(40 + spec.Salt%2)},
			L2GasPrice:       &core.GasPrice{PriceInFri: F(50 + spec.Salt%11), PriceInWei: F(60 + number)},
			L1DAMode:         da,
			ProtocolVersion:  core.Ver0_14_0.String(),
		},
		Transactions: txs,
		Receipts:     rcs,
	}
	su := &core.StateUpdate{OldRoot: oldRoot, StateDiff: spec.diff()}
	classes := spec.classes()
	if err := n.BC.Finalise(block, su, classes, nil); err != nil {
		return nil, err
	}
	cm, err := n.BC.BlockCommitmentsByNumber(number)
	if err != nil {
		return nil, fmt.Errorf("commitments: %w", err)
	}
	return &chain.Built{Block: block, Update: su, Classes: classes, Commit: cm}, nil
}
