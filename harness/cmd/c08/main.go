// C08 end-to-end correspondence: the real method tables of rpc (v0.8 / v0.9 / v0.10) mounted on real
// jsonrpc servers over real Blockchains (legacy and new state backend) built from generated store / revert /
// set-L1-head histories, against the extracted Coq model (C08.Model): for every request the handler model's
// answer (correspondence) and the answer the property demands of the abstract chain (the property predicate).
package main

import (
	"fmt"
	"os"
	"strings"
	"time"

	"verifharness/hx"
)

var tOracle, tRPC time.Duration

type outcome struct {
	Backend  string            `json:"backend"`
	Spec     string            `json:"expected"`
	Exp8     string            `json:"expected_v8"`
	Model    map[string]string `json:"model"`
	Impl     map[string]string `json:"impl"`
	Dev      string            `json:"deviation_class"`
	Classes  []string          `json:"-"`
	noInput  map[string]bool
	whatByCl map[string]string
}

func (o *outcome) expected(v string) string {
	if v == "v8" {
		return o.Exp8
	}
	return o.Spec
}

// evalReq runs one request on one backend through the three servers and asks the oracle.
func (e *env) evalReq(be string, r Req) *outcome {
	t0 := time.Now()
	rep := e.or.Ask("q "+be+" "+r.line(), 6)
	tOracle += time.Since(t0)
	cut := func(s, p string) string { return strings.TrimPrefix(s, p+" ") }
	o := &outcome{Backend: be, Spec: cut(rep[0], "spec"), Exp8: cut(rep[1], "exp8"),
		Model: map[string]string{"v8": cut(rep[2], "m8"), "v9": cut(rep[3], "m9"), "v10": cut(rep[4], "m10")},
		Impl:  map[string]string{}, Dev: cut(rep[5], "dev"), noInput: map[string]bool{}, whatByCl: map[string]string{}}
	idk := "-"
	if r.ID != nil {
		idk = r.ID.K
	}
	for _, v := range versions {
		t1 := time.Now()
		got, _ := e.srv[be].call(v, r)
		tRPC += time.Since(t1)
		o.Impl[v] = got
		exp := o.expected(v)
		if got != exp {
			// the property predicate fails on this input
			cl := fmt.Sprintf("unexpected:%s:%s", r.M, idk)
			switch {
			case o.Dev == "txidx-absent-block-number":
				cl = o.Dev
			case o.Dev == "state-by-zero-block-hash":
				cl = zeroHashClass(be, got)
			case staleHeadSlot(be, r, exp, got):
				cl = "new-backend-head-storage:zeroed-slot-reads-stale-value"
			}
			o.add(cl, fmt.Sprintf("%s %s on %s backend answers %s, the chain demands %s", v, r.line(), be, got, exp), false)
		}
		if got != o.Model[v] && !staleHeadSlot(be, r, o.Model[v], got) {
			o.add(fmt.Sprintf("model-mismatch:%s:%s", r.M, idk),
				fmt.Sprintf("%s %s on %s backend answers %s, the handler model (C08.Model.handle) %s", v, r.line(), be, got, o.Model[v]), got == exp)
		}
	}
	// versions agree wherever their specifications coincide (v0.8 has no l1_accepted)
	if o.Impl["v9"] != o.Impl["v10"] || (idk != "l1" && o.Impl["v8"] != o.Impl["v9"]) {
		cl := "versions-disagree:" + r.M + ":" + idk
		if o.Dev == "state-by-zero-block-hash" {
			cl = "state-by-zero-block-hash:versions-disagree:" + be
		}
		o.add(cl, fmt.Sprintf("%s on %s backend: v0.8 %s / v0.9 %s / v0.10 %s", r.line(), be, o.Impl["v8"], o.Impl["v9"], o.Impl["v10"]), false)
	}
	return o
}

// staleHeadSlot recognises the C03 finding (core/trie2 leaves the flat leaf of a deleted slot on disk when its
// sibling leaf exists; the new backend's head reader reads leaves by path): a head read on the new backend
// that should be zero and is not. The handler model takes the state reader's answers from the abstract
// state (C03's truth), so this is not a model mismatch of C08.
func staleHeadSlot(be string, r Req, want, got string) bool {
	head := r.ID != nil && (r.ID.K == "latest" || (r.ID.K == "h" && r.ID.H == "0"))
	return be == "new" && r.M == "storageAt" && head && want == "felt:0" && strings.HasPrefix(got, "felt:") && got != want
}

// block_hash 0x0 names no block; the state methods answer from an empty state (legacy) or from the head
// state (new backend) instead of BLOCK_NOT_FOUND.
func zeroHashClass(be, got string) string {
	if strings.HasPrefix(got, "err:") {
		return "state-by-zero-block-hash:wrong-error:" + be
	}
	if got == "felt:0" {
		return "state-by-zero-block-hash:answers-default-value:" + be
	}
	return "state-by-zero-block-hash:answers-head-data:" + be
}

func (o *outcome) add(class, what string, noInput bool) {
	if _, dup := o.whatByCl[class]; dup {
		return
	}
	o.Classes = append(o.Classes, class)
	o.whatByCl[class] = what
	o.noInput[class] = noInput
}

func runOps(or *hx.Oracle, ops []Op) (*env, string) {
	e := newEnv(or)
	for _, o := range ops {
		if msg := e.apply(o); msg != "" {
			return e, msg
		}
	}
	return e, ""
}

func has(l []string, x string) bool {
	for _, y := range l {
		if y == x {
			return true
		}
	}
	return false
}

// shrink removes ops while the request (re-bound to the new hashes) still fails with the same class.
func shrink(or *hx.Oracle, ops []Op, be string, r Req, class string) ([]Op, Req) {
	for changed := true; changed; {
		changed = false
		for i := len(ops) - 1; i >= 0; i-- {
			cand := append(append([]Op{}, ops[:i]...), ops[i+1:]...)
			e, msg := runOps(or, cand)
			if msg != "" {
				continue
			}
			r2, ok := e.reresolve(r)
			if !ok {
				continue
			}
			if o := e.evalReq(be, r2); has(o.Classes, class) {
				ops, r, changed = cand, r2, true
			}
		}
	}
	return ops, r
}

type replay struct {
	Ops     []Op     `json:"ops"`
	Backend string   `json:"backend"`
	Req     Req      `json:"req"`
	Lines   []string `json:"oracle_ops,omitempty"`
	Out     *outcome `json:"outcome,omitempty"`
}

func main() {
	c := hx.NewCtx("C08")
	or := hx.StartOracle(c.OraclePath)
	defer or.Close()

	reported := map[string]bool{}
	var live *env // the environment of the running scenario: the oracle is re-synchronised to it after shrinking
	report := func(ops []Op, be string, r Req, o *outcome) {
		defer func() {
			if live != nil {
				or.Ask("reset", 1)
				for _, l := range live.lines {
					or.Ask(l, 1)
				}
			}
		}()
		for _, cl := range o.Classes {
			if reported[cl] {
				continue // one (shrunk) replay per class per run
			}
			reported[cl] = true
			sops, sr := shrink(or, ops, be, r, cl)
			e, _ := runOps(or, sops)
			so := e.evalReq(be, sr)
			what := so.whatByCl[cl]
			if what == "" {
				sops, sr, so, what, e = ops, r, o, o.whatByCl[cl], nil
			}
			var lines []string
			if e != nil {
				lines = e.lines
			}
			c.Violation(cl, what+fmt.Sprintf(" [after %d ops]", len(sops)), replay{Ops: sops, Backend: be, Req: sr, Lines: lines, Out: so}, so.noInput[cl])
		}
	}

	if c.ReplayIn != "" {
		var rp replay
		c.LoadReplay(&rp)
		e, msg := runOps(or, rp.Ops)
		if msg != "" {
			c.Violation("op-failed", msg, rp, true)
			c.Finish("replay of one recorded case")
		}
		r, _ := e.reresolve(rp.Req)
		o := e.evalReq(rp.Backend, r)
		fmt.Printf("replay: %s\n  request: %s (%s backend)\n  expected %s\n", strings.Join(e.lines, " ; "), r.line(), rp.Backend, o.Spec)
		for _, v := range versions {
			fmt.Printf("  %-3s impl %s | model %s\n", v, o.Impl[v], o.Model[v])
		}
		c.Count(r.line(), true)
		if len(o.Classes) > 0 {
			report(rp.Ops, rp.Backend, r, o)
		}
		c.Finish("replay of one recorded case")
	}

	nscen, nops, sample := 14, 9, 40
	if c.Thorough() {
		nscen, nops, sample = 300, 16, 120
	}
	r := hx.NewRNG(c.Seed)
	if os.Getenv("C08_SCENARIOS") != "" {
		fmt.Sscanf(os.Getenv("C08_SCENARIOS"), "%d", &nscen)
	}
	sweep := func(e *env, ops []Op, rr *hx.RNG, l1Only bool, keep int) {
		for _, t := range e.universe(l1Only) {
			if keep < 100 && !rr.Chance(keep) {
				continue
			}
			t.Pos = rr.Chance(20)
			for _, be := range backends {
				o := e.evalReq(be, t.Req)
				c.Hist["method:"+t.M]++
				c.Hist["id:"+t.kind]++
				c.Hist[e.l1Kind()]++
				ak := strings.SplitN(o.Spec, ":", 2)[0]
				if ak == "err" {
					ak = o.Spec
				}
				c.Hist["expected:"+ak]++
				nontrivial := ak != "num" && ak != "hn" && (strings.HasPrefix(ak, "err") || t.kind != "number-existing" || strings.Contains(o.Spec, "L1"))
				c.Count(e.stateKey()+"|"+be+"|"+t.line(), nontrivial)
				if c.Evaluations%997 == 1 {
					c.Sample(map[string]any{"chain_ops": len(e.lines), "backend": be, "request": t.line(), "expected": o.Spec, "impl": o.Impl})
				}
				if len(o.Classes) > 0 {
					report(ops, be, t.Req, o)
				}
			}
		}
	}
	for s := 0; s < nscen; s++ {
		rr := r.Fork(uint64(s))
		ops := genScenario(rr, 3+rr.Intn(nops))
		e := newEnv(or)
		live = e
		failed := false
		for i, o := range ops {
			c.Hist["op:"+o.K]++
			if msg := e.apply(o); msg != "" {
				if strings.HasPrefix(msg, "invalid:") {
					hx.Fatalf("generator produced an invalid block: %s", msg)
				}
				c.Violation("op-failed:"+o.K, msg, replay{Ops: ops[:i+1]}, true)
				failed = true
				break
			}
			if i < len(ops)-1 { // a sample of the universe after every op
				u := len(e.universe(false))
				sweep(e, ops[:i+1], rr, false, 1+sample*100/(u+1))
			}
		}
		if failed {
			continue
		}
		// full universe in the final state, then every L1-head position around the chain
		sweep(e, ops, rr, false, 100)
		all := append([]Op{}, ops...)
		for n := uint64(0); n <= uint64(len(e.cur))+1; n++ {
			o := Op{K: "l1", N: n}
			all = append(all, o)
			e.apply(o)
			sweep(e, all, rr, true, 100)
		}
	}
	c.Extra["scenarios"] = nscen
	c.Extra["oracle_s"] = tOracle.Seconds()
	c.Extra["rpc_s"] = tRPC.Seconds()
	c.Extra["api_versions"] = versions
	c.Extra["state_backends"] = backends
	c.Finish("requests of every modelled read method through Server.HandleReader (named and positional params) over store/revert/set-L1 histories; " +
		"identifiers: every existing / absent number, every current, reverted, unknown and zero hash, latest, l1_accepted; every tx hash (current, reverted, unknown) " +
		"and index -1..max; contracts 0xa..0xf x slots 5..8; classes 0x384..0x388; non-trivial = expected answer is an error, or the identifier is not an existing number, " +
		"or finality is ACCEPTED_ON_L1; distinct by (op list, backend, request)")
}
