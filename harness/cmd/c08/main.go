// C08 end-to-end correspondence: the real method tables of rpc (v0.8 / v0.9 / v0.10) mounted on real
// jsonrpc servers over real Blockchains (legacy and new state backend) built from generated store / revert /
// set-L1-head histories, against the extracted Coq model (C08.Model): for every request the handler model's
// answer (correspondence) and the answer the property demands of the abstract chain (the property predicate).
package main

import (
	"encoding/json"
	"fmt"
	"os"
	"path/filepath"
	"sort"
	"strings"
	"time"

	"verifharness/hx"
)

var tOracle, tRPC time.Duration

type outcome struct {
	Backend  string            `json:"backend"`
	Spec     string            `json:"expected"`
	Exp8     string            `json:"expected_v8"`
	Exp9     string            `json:"expected_v9"`
	Model    map[string]string `json:"model"`
	Impl     map[string]string `json:"impl"`
	Dev      string            `json:"deviation_class"`
	Classes  []string          `json:"-"`
	noInput  map[string]bool
	whatByCl map[string]string
}

func (o *outcome) expected(v string) string {
	switch v {
	case "v8":
		return o.Exp8
	case "v9":
		return o.Exp9
	}
	return o.Spec
}

// evalReq runs one request on one backend through the three servers and asks the oracle.
func (e *env) evalReq(be string, r Req) *outcome {
	t0 := time.Now()
	rep := e.or.Ask("q "+be+" "+r.line(), 7)
	tOracle += time.Since(t0)
	cut := func(s, p string) string { return strings.TrimPrefix(s, p+" ") }
	o := &outcome{Backend: be, Spec: cut(rep[0], "spec"), Exp8: cut(rep[1], "exp8"), Exp9: cut(rep[2], "exp9"),
		Model: map[string]string{"v8": cut(rep[3], "m8"), "v9": cut(rep[4], "m9"), "v10": cut(rep[5], "m10")},
		Impl:  map[string]string{}, Dev: cut(rep[6], "dev"), noInput: map[string]bool{}, whatByCl: map[string]string{}}
	idk := "-"
	if r.ID != nil {
		idk = r.ID.K
	}
	for _, v := range versions {
		t1 := time.Now()
		got, _ := e.srv[be].call(v, r)
		tRPC += time.Since(t1)
		o.Impl[v] = got
		exp := o.expected(v)
		// C08_payload_agree evaluated on the observations themselves (independent of the renderings): one
		// payload per transaction hash / receipt / header, whatever method, version, backend returned it
		if cl, what := e.agree(v, be, r, got); cl != "" {
			o.add(cl, what, false)
		}
		if got != exp && o.Dev != "orphan-class" {
			// the property predicate fails on this input. (Dev orphan-class: the class hash was delivered by a
			// reverted block for something else than a deployed contract or a declaration - never done by the
			// synchroniser; such requests are compared with the handler model only, below.)
			cl := fmt.Sprintf("unexpected:%s:%s", r.M, idk)
			switch {
			case o.Dev == "txidx-absent-block-number":
				cl = o.Dev
			case o.Dev == "state-by-zero-block-hash":
				cl = zeroHashClass(be, got)
			case e.revertedDelivery(be, r):
				// the defect repaired by /repo 007ff78: a definition delivered for a deployed contract's class
				// survived the revert of its block
				cl = orphanClass(exp, got)
			case staleHeadSlot(be, r, exp, got):
				cl = "new-backend-head-storage:zeroed-slot-reads-stale-value"
			case payloadKind(got) != "":
				// a complete returned object equals no independent rendering of what was stored
				cl = fmt.Sprintf("payload-mismatch:%s:%s", payloadKind(got), r.M)
			}
			o.add(cl, fmt.Sprintf("%s %s on %s backend answers %s, the chain demands %s%s", v, r.line(), be, got, exp, explain(got)), false)
		}
		if got != o.Model[v] && !staleHeadSlot(be, r, o.Model[v], got) {
			o.add(fmt.Sprintf("model-mismatch:%s:%s", r.M, idk),
				fmt.Sprintf("%s %s on %s backend answers %s, the handler model (C08.Model.handle) %s%s", v, r.line(), be, got, o.Model[v], explain(got)), got == exp)
		}
	}
	// versions agree wherever their specifications coincide (v0.8 has no l1_accepted)
	// (response_flags exist from v0.10 on: for storageAtLU only v0.8 = v0.9 is demanded)
	if (r.M != "storageAtLU" && o.Impl["v9"] != o.Impl["v10"]) || (idk != "l1" && o.Impl["v8"] != o.Impl["v9"]) {
		cl := "versions-disagree:" + r.M + ":" + idk
		if o.Dev == "state-by-zero-block-hash" {
			cl = "state-by-zero-block-hash:versions-disagree:" + be
		}
		o.add(cl, fmt.Sprintf("%s on %s backend: v0.8 %s / v0.9 %s / v0.10 %s", r.line(), be, o.Impl["v8"], o.Impl["v9"], o.Impl["v10"]), false)
	}
	return o
}

// staleHeadSlot recognises the C03 finding (core/trie2 leaves the flat leaf of a deleted slot on disk when its
// sibling leaf exists; the new backend's head reader reads leaves by path): a head read on the new backend
// that should be zero and is not. The handler model takes the state reader's answers from the abstract
// state (C03's truth), so this is not a model mismatch of C08.
func staleHeadSlot(be string, r Req, want, got string) bool {
	head := r.ID != nil && (r.ID.K == "latest" || (r.ID.K == "h" && r.ID.H == "0"))
	return be == "new" && r.M == "storageAt" && head && want == "felt:0" && strings.HasPrefix(got, "felt:") && got != want
}

// block_hash 0x0 names no block; the state methods answer from an empty state (legacy) or from the head
// state (new backend) instead of BLOCK_NOT_FOUND.
func zeroHashClass(be, got string) string {
	if strings.HasPrefix(got, "err:") {
		return "state-by-zero-block-hash:wrong-error:" + be
	}
	if got == "felt:0" || got == "feltat:0:0" {
		return "state-by-zero-block-hash:answers-default-value:" + be
	}
	return "state-by-zero-block-hash:answers-head-data:" + be
}

// revertedDelivery: the request asks for a class hash whose definition a since reverted block had delivered for
// one of its deployed contracts (without declaring it).
func (e *env) revertedDelivery(be string, r Req) bool {
	switch r.M {
	case "class":
		return e.goneExtra[r.Hash]
	case "classAt":
		q := r
		q.M = "classHashAt"
		rep := e.or.Ask("q "+be+" "+q.line(), 7)
		return e.goneExtra[strings.TrimPrefix(rep[0], "spec felt:")]
	}
	return false
}

// A class definition that a reverted block had delivered for the class hash of one of its deployed contracts
// without declaring it stayed in juno's class table before /repo 007ff78 (RevertHead walked only the block's
// declared lists). These classes name the three ways it showed.
func orphanClass(exp, got string) string {
	switch {
	case strings.HasPrefix(exp, "err:") && strings.HasPrefix(got, "class:"):
		return "orphan-class:served-after-revert"
	case strings.HasPrefix(exp, "class:") && strings.HasPrefix(got, "class:"):
		return "orphan-class:stale-definition"
	case strings.HasPrefix(exp, "class:") && strings.HasPrefix(got, "err:"):
		return "orphan-class:hidden-by-stale-declared-at"
	}
	return "orphan-class:other"
}

// explain adds, for an answer carrying a payload that equals no registered rendering, the returned object and
// the closest rendering.
func explain(got string) string {
	if !strings.Contains(got, "?") {
		return ""
	}
	if e := pay.explain(got); e != "" {
		if len(e) > 900 {
			e = e[:900] + "..."
		}
		return " {" + e + "}"
	}
	return ""
}

// payloadKind: which kind of object of the answer matched no rendering (tx, rc, hdr, class), or "".
func payloadKind(got string) string {
	for _, k := range []string{"tx", "rc", "hdr", "class"} {
		if strings.Contains(got, "?"+k+".") {
			return k
		}
	}
	return ""
}

func (o *outcome) add(class, what string, noInput bool) {
	if _, dup := o.whatByCl[class]; dup {
		return
	}
	o.Classes = append(o.Classes, class)
	o.whatByCl[class] = what
	o.noInput[class] = noInput
}

// agree records the (transaction hash, payload), (transaction hash, receipt payload) and (block hash, header
// payload) pairs of a projected answer and reports the first disagreement with an earlier observation.
// Transaction and receipt payloads are version independent wherever the specifications coincide (they do for
// every stored transaction / receipt, see render.go); headers are compared per version (v0.10 has more members).
func (e *env) agree(v, be string, r Req, got string) (string, string) {
	if e.seen == nil {
		e.seen = map[string][2]string{}
	}
	where := v + " " + r.line() + " (" + be + ")"
	note := func(kind, key, p string) (string, string) {
		// an unmatched payload is compared by its digest marker; a matched one by its id
		k := kind + "|" + key
		if old, ok := e.seen[k]; ok {
			if old[0] != p {
				return "payload-disagree:" + kind + ":" + r.M, fmt.Sprintf("%s of %s: %s has payload %s, %s had %s%s", kind, key, where, p, old[1], old[0], explain(p+" "+old[0]))
			}
			return "", ""
		}
		e.seen[k] = [2]string{p, where}
		return "", ""
	}
	f := strings.Split(got, ":")
	first := func(a, b [2]string) (string, string) {
		if a[0] != "" {
			return a[0], a[1]
		}
		return b[0], b[1]
	}
	var res [2]string
	keep := func(c, w string) { res[0], res[1] = first(res, [2]string{c, w}) }
	switch f[0] {
	case "blk", "blkt", "blkr":
		if len(f) < 7 {
			return "", ""
		}
		keep(note("header", v+"/"+f[2]+"/"+f[4], f[5]))
		if f[6] == "-" {
			break
		}
		for _, it := range strings.Split(f[6], ",") {
			x := strings.Split(it, "/")
			switch {
			case f[0] == "blkt" && len(x) == 2:
				keep(note("tx", x[0], x[1]))
			case f[0] == "blkr" && len(x) == 6:
				keep(note("tx", x[0], x[4]))
				keep(note("receipt", x[0], x[5]))
			}
		}
	case "tx":
		if len(f) == 3 {
			keep(note("tx", f[1], f[2]))
		}
	case "rc":
		if len(f) == 8 {
			keep(note("receipt", f[1], f[7]))
		}
	}
	return res[0], res[1]
}

func runOps(or *hx.Oracle, ops []Op) (*env, string) {
	e := newEnv(or)
	for _, o := range ops {
		if msg := e.apply(o); msg != "" {
			return e, msg
		}
	}
	return e, ""
}

func has(l []string, x string) bool {
	for _, y := range l {
		if y == x {
			return true
		}
	}
	return false
}

// shrink removes ops while the request (re-bound to the new hashes) still fails with the same class.
func shrink(or *hx.Oracle, ops []Op, be string, r Req, class string) ([]Op, Req) {
	for changed := true; changed; {
		changed = false
		for i := len(ops) - 1; i >= 0; i-- {
			cand := append(append([]Op{}, ops[:i]...), ops[i+1:]...)
			e, msg := runOps(or, cand)
			if msg != "" {
				continue
			}
			r2, ok := e.reresolve(r)
			if !ok {
				continue
			}
			if o := e.evalReq(be, r2); has(o.Classes, class) {
				ops, r, changed = cand, r2, true
			}
		}
	}
	return ops, r
}

type replay struct {
	Ops     []Op     `json:"ops"`
	Backend string   `json:"backend"`
	Req     Req      `json:"req"`
	Lines   []string `json:"oracle_ops,omitempty"`
	Out     *outcome `json:"outcome,omitempty"`
}

func main() {
	c := hx.NewCtx("C08")
	or := hx.StartOracle(c.OraclePath)
	defer or.Close()

	reported := map[string]bool{}
	var live *env // the environment of the running scenario: the oracle is re-synchronised to it after shrinking
	report := func(ops []Op, be string, r Req, o *outcome) {
		defer func() {
			if live != nil {
				or.Ask("reset", 1)
				for _, l := range live.lines {
					or.Ask(l, 1)
				}
			}
		}()
		for _, cl := range o.Classes {
			if reported[cl] {
				continue // one (shrunk) replay per class per run
			}
			reported[cl] = true
			sops, sr := shrink(or, ops, be, r, cl)
			e, _ := runOps(or, sops)
			so := e.evalReq(be, sr)
			what := so.whatByCl[cl]
			if what == "" {
				sops, sr, so, what, e = ops, r, o, o.whatByCl[cl], nil
			}
			var lines []string
			if e != nil {
				lines = e.lines
			}
			c.Violation(cl, what+fmt.Sprintf(" [after %d ops]", len(sops)), replay{Ops: sops, Backend: be, Req: sr, Lines: lines, Out: so}, so.noInput[cl])
		}
	}

	if c.ReplayIn != "" {
		var rp replay
		c.LoadReplay(&rp)
		e, msg := runOps(or, rp.Ops)
		if msg != "" {
			c.Violation("op-failed", msg, rp, true)
			c.Finish("replay of one recorded case")
		}
		r, _ := e.reresolve(rp.Req)
		o := e.evalReq(rp.Backend, r)
		fmt.Printf("replay: %s\n  request: %s (%s backend)\n  expected %s\n", strings.Join(e.lines, " ; "), r.line(), rp.Backend, o.Spec)
		for _, v := range versions {
			fmt.Printf("  %-3s impl %s | model %s\n", v, o.Impl[v], o.Model[v])
		}
		c.Count(r.line(), true)
		if len(o.Classes) > 0 {
			report(rp.Ops, rp.Backend, r, o)
		}
		c.Finish("replay of one recorded case")
	}

	nscen, nops, sample := 20, 9, 40
	if c.Thorough() {
		nscen, nops, sample = 300, 16, 120
	}
	r := hx.NewRNG(c.Seed)
	if os.Getenv("C08_SCENARIOS") != "" {
		fmt.Sscanf(os.Getenv("C08_SCENARIOS"), "%d", &nscen)
	}
	sweep := func(e *env, ops []Op, rr *hx.RNG, l1Only bool, keep int) {
		for _, t := range e.universe(l1Only) {
			if keep < 100 && !rr.Chance(keep) {
				continue
			}
			t.Pos = rr.Chance(20)
			for _, be := range backends {
				o := e.evalReq(be, t.Req)
				c.Hist["method:"+t.M]++
				c.Hist["id:"+t.kind]++
				c.Hist[e.l1Kind()]++
				ak := strings.SplitN(o.Spec, ":", 2)[0]
				if ak == "err" {
					ak = o.Spec
				}
				c.Hist["expected:"+ak]++
				if o.Dev == "orphan-class" {
					c.Hist["misuse-delivery:model-only"]++
				}
				nontrivial := ak != "num" && ak != "hn" && (strings.HasPrefix(ak, "err") || t.kind != "number-existing" || strings.Contains(o.Spec, "L1"))
				c.Count(e.stateKey()+"|"+be+"|"+t.line(), nontrivial)
				if c.Evaluations%997 == 1 {
					c.Sample(map[string]any{"chain_ops": len(e.lines), "backend": be, "request": t.line(), "expected": o.Spec, "impl": o.Impl})
				}
				if len(o.Classes) > 0 {
					report(ops, be, t.Req, o)
				}
			}
		}
	}
	// corpus: recorded minimal cases (regressions of repaired defects: they must pass)
	if files, _ := filepath.Glob("/verif/corpus/C08/*.json"); len(files) > 0 {
		sort.Strings(files)
		for _, f := range files {
			b, err := os.ReadFile(f)
			hx.Must(err)
			var w struct {
				Class  string `json:"class"`
				Replay replay `json:"replay"`
			}
			hx.Must(json.Unmarshal(b, &w))
			e, msg := runOps(or, w.Replay.Ops)
			if msg != "" {
				c.Violation("op-failed:corpus", filepath.Base(f)+": "+msg, w.Replay, true)
				continue
			}
			rq, _ := e.reresolve(w.Replay.Req)
			o := e.evalReq(w.Replay.Backend, rq)
			c.Hist["corpus"]++
			c.Count("corpus|"+filepath.Base(f), true)
			if len(o.Classes) > 0 {
				report(w.Replay.Ops, w.Replay.Backend, rq, o)
			}
		}
	}
	directed := directedScenarios()
	for s := 0; s < nscen+len(directed); s++ {
		rr := r.Fork(uint64(s))
		var ops []Op
		if s < len(directed) {
			ops = directed[s]
			c.Hist["scenario:directed"]++
		} else {
			ops = genScenario(rr, 3+rr.Intn(nops))
			c.Hist["scenario:random"]++
		}
		e := newEnv(or)
		live = e
		failed := false
		for i, o := range ops {
			c.Hist["op:"+o.K]++
			if msg := e.apply(o); msg != "" {
				if strings.HasPrefix(msg, "invalid:") {
					hx.Fatalf("generator produced an invalid block: %s", msg)
				}
				c.Violation("op-failed:"+o.K, msg, replay{Ops: ops[:i+1]}, true)
				failed = true
				break
			}
			if i < len(ops)-1 { // a sample of the universe after every op
				u := len(e.universe(false))
				k := 1 + sample*100/(u+1)
				if s < len(directed) {
					k *= 4 // the directed histories are short: look closer after every step
				}
				sweep(e, ops[:i+1], rr, false, k)
			}
		}
		if failed {
			continue
		}
		// full universe in the final state, then every L1-head position around the chain
		sweep(e, ops, rr, false, 100)
		all := append([]Op{}, ops...)
		for n := uint64(0); n <= uint64(len(e.cur))+1; n++ {
			o := Op{K: "l1", N: n}
			all = append(all, o)
			e.apply(o)
			sweep(e, all, rr, true, 100)
		}
	}
	for m, t := range pay.misses {
		if strings.HasPrefix(m, "ambiguous:") {
			c.Extra[m] = t // two different stored objects render identically in one version (never with the generated content)
		}
	}
	c.Extra["payloads_registered"] = pay.next - 1
	c.Extra["scenarios"] = nscen
	c.Extra["oracle_s"] = tOracle.Seconds()
	c.Extra["rpc_s"] = tRPC.Seconds()
	c.Extra["api_versions"] = versions
	c.Extra["state_backends"] = backends
	c.Finish("requests of every modelled read method through Server.HandleReader (named and positional params) over store/revert/set-L1 histories; " +
		"identifiers: every existing / absent number, every current, reverted, unknown and zero hash, latest, l1_accepted; every tx hash (current, reverted, unknown) " +
		"and index -1..max; contracts 0xa..0xf x slots 5..8, getStorageAt also with INCLUDE_LAST_UPDATE_BLOCK; class hashes 0x384..0x388 (Cairo-0) and three Sierra hashes; every answer carries the complete transaction / receipt / header / class objects as payload ids (canonical JSON = independent rendering of what was stored); non-trivial = expected answer is an error, or the identifier is not an existing number, " +
		"or finality is ACCEPTED_ON_L1; distinct by (op list, backend, request)")
}
