// C08: projection of JSON-RPC responses onto the observables the model speaks about.
package main

import (
	"bytes"
	"encoding/json"
	"fmt"
	"strings"
)

func project(v, m string, out []byte) string {
	dec := json.NewDecoder(bytes.NewReader(out))
	dec.UseNumber()
	var resp map[string]any
	if err := dec.Decode(&resp); err != nil {
		return "badjson:" + string(out)
	}
	if resp["jsonrpc"] != "2.0" || num(resp["id"]) != "7" {
		return "badenvelope:" + string(out)
	}
	if e, ok := resp["error"]; ok {
		code, _ := obj(e)["code"].(json.Number)
		c, _ := code.Int64()
		if n, ok := errName[int(c)]; ok {
			return "err:" + n
		}
		return fmt.Sprintf("err:code%d:%v", c, obj(e)["message"])
	}
	res, ok := resp["result"]
	if !ok {
		return "noresult:" + string(out)
	}
	switch m {
	case "blockNumber", "txCount":
		return "num:" + num(res)
	case "blockHashAndNumber":
		return "hn:" + hx0(obj(res)["block_hash"]) + ":" + num(obj(res)["block_number"])
	case "blockWithTxHashes":
		o := obj(res)
		var hs []string
		for _, t := range arr(o["transactions"]) {
			hs = append(hs, hx0(t))
		}
		return "blk:" + blockHead(v, o) + ":" + joinOr(hs)
	case "blockWithTxs":
		o := obj(res)
		var hs []string
		for _, t := range arr(o["transactions"]) {
			hs = append(hs, hx0(obj(t)["transaction_hash"])+"/"+pay.find("tx", v, stripped(obj(t), "transaction_hash")))
		}
		return "blkt:" + blockHead(v, o) + ":" + joinOr(hs)
	case "blockWithReceipts":
		o := obj(res)
		var hs []string
		for _, t := range arr(o["transactions"]) {
			rc := obj(obj(t)["receipt"])
			tx := obj(obj(t)["transaction"])
			if _, has := tx["transaction_hash"]; has {
				hs = append(hs, "?tx-carries-hash")
			}
			hs = append(hs, fmt.Sprintf("%s/%s/%s/%d/%s/%s", hx0(rc["transaction_hash"]), fin(rc["finality_status"]),
				exe(rc["execution_status"]), len(arr(rc["events"])), pay.find("tx", v, tx), receiptPayload(v, rc)))
		}
		return "blkr:" + blockHead(v, o) + ":" + joinOr(hs)
	case "txByHash", "txByIdx":
		o := obj(res)
		return "tx:" + hx0(o["transaction_hash"]) + ":" + pay.find("tx", v, stripped(o, "transaction_hash"))
	case "receipt":
		o := obj(res)
		return fmt.Sprintf("rc:%s:%s:%s:%s:%s:%d:%s", hx0(o["transaction_hash"]), num(o["block_number"]), hx0(o["block_hash"]),
			fin(o["finality_status"]), exe(o["execution_status"]), len(arr(o["events"])), receiptPayload(v, o))
	case "txStatus":
		o := obj(res)
		return "st:" + fin(o["finality_status"]) + ":" + exe(o["execution_status"])
	case "stateUpdate":
		return projectStateUpdate(obj(res))
	case "storageAt", "nonce", "classHashAt":
		return "felt:" + hx0(res)
	case "storageAtLU":
		o := obj(res)
		if len(o) != 2 {
			return "feltat:?" + string(out)
		}
		return "feltat:" + hx0(o["value"]) + ":" + num(o["last_update_block"])
	case "classAt", "class":
		return "class:" + pay.find("class", v, res)
	}
	return "unprojected:" + string(out)
}

// number : hash : parent : status : payload of the whole header
func blockHead(v string, o map[string]any) string {
	return fmt.Sprintf("%s:%s:%s:%s:%s", num(o["block_number"]), hx0(o["block_hash"]), hx0(o["parent_hash"]), fin(o["status"]),
		pay.find("hdr", v, stripped(o, "status", "transactions")))
}

func receiptPayload(v string, rc map[string]any) string {
	return pay.find("rc", v, stripped(rc, "finality_status", "block_hash", "block_number"))
}

func projectStateUpdate(o map[string]any) string {
	d := obj(o["state_diff"])
	var dep, rep, non, sto, decl []string
	for _, x := range arr(d["deployed_contracts"]) {
		dep = append(dep, hx0(obj(x)["address"])+">"+hx0(obj(x)["class_hash"]))
	}
	for _, x := range arr(d["replaced_classes"]) {
		rep = append(rep, hx0(obj(x)["contract_address"])+">"+hx0(obj(x)["class_hash"]))
	}
	for _, x := range arr(d["nonces"]) {
		non = append(non, hx0(obj(x)["contract_address"])+">"+hx0(obj(x)["nonce"]))
	}
	for _, x := range arr(d["storage_diffs"]) {
		var es []string
		for _, e := range arr(obj(x)["storage_entries"]) {
			es = append(es, hx0(obj(e)["key"])+"="+hx0(obj(e)["value"]))
		}
		sortNumHex(es)
		sto = append(sto, hx0(obj(x)["address"])+"["+strings.Join(es, ",")+"]")
	}
	for _, x := range arr(d["deprecated_declared_classes"]) {
		decl = append(decl, hx0(x))
	}
	var decl1 []string
	for _, x := range arr(d["declared_classes"]) {
		decl1 = append(decl1, hx0(obj(x)["class_hash"])+">"+hx0(obj(x)["compiled_class_hash"]))
	}
	sortNumHex(decl1)
	sortNumHex(dep)
	sortNumHex(rep)
	sortNumHex(non)
	sortNumHex(sto)
	sortNumHex(decl)
	return fmt.Sprintf("su:%s:dep=%s;rep=%s;non=%s;sto=%s;decl=%s;decl1=%s", hx0(o["block_hash"]),
		joinOr(dep), joinOr(rep), joinOr(non), joinOr(sto), joinOr(decl), joinOr(decl1))
}
