// C08: projection of JSON-RPC responses onto the observables the model speaks about.
package main

import (
	"bytes"
	"encoding/json"
	"fmt"
	"strings"
)

func project(m string, out []byte) string {
	dec := json.NewDecoder(bytes.NewReader(out))
	dec.UseNumber()
	var resp map[string]any
	if err := dec.Decode(&resp); err != nil {
		return "badjson:" + string(out)
	}
	if resp["jsonrpc"] != "2.0" || num(resp["id"]) != "7" {
		return "badenvelope:" + string(out)
	}
	if e, ok := resp["error"]; ok {
		code, _ := obj(e)["code"].(json.Number)
		c, _ := code.Int64()
		if n, ok := errName[int(c)]; ok {
			return "err:" + n
		}
		return fmt.Sprintf("err:code%d:%v", c, obj(e)["message"])
	}
	res, ok := resp["result"]
	if !ok {
		return "noresult:" + string(out)
	}
	switch m {
	case "blockNumber", "txCount":
		return "num:" + num(res)
	case "blockHashAndNumber":
		return "hn:" + hx0(obj(res)["block_hash"]) + ":" + num(obj(res)["block_number"])
	case "blockWithTxHashes", "blockWithTxs":
		o := obj(res)
		var hs []string
		for _, t := range arr(o["transactions"]) {
			if m == "blockWithTxHashes" {
				hs = append(hs, hx0(t))
			} else {
				hs = append(hs, hx0(obj(t)["transaction_hash"]))
			}
		}
		return blockHead(o) + ":" + joinOr(hs)
	case "blockWithReceipts":
		o := obj(res)
		var hs []string
		for _, t := range arr(o["transactions"]) {
			rc := obj(obj(t)["receipt"])
			if _, has := obj(obj(t)["transaction"])["transaction_hash"]; has {
				hs = append(hs, "?tx-carries-hash")
			}
			hs = append(hs, fmt.Sprintf("%s/%s/%s/%d", hx0(rc["transaction_hash"]), fin(rc["finality_status"]),
				exe(rc["execution_status"]), len(arr(rc["events"]))))
		}
		return "blkr" + strings.TrimPrefix(blockHead(o), "blk") + ":" + joinOr(hs)
	case "txByHash", "txByIdx":
		o := obj(res)
		cd := arr(o["calldata"])
		ix := "?"
		if len(cd) == 1 {
			ix = hx0(cd[0])
		}
		return "tx:" + hx0(o["transaction_hash"]) + ":" + ix
	case "receipt":
		o := obj(res)
		return fmt.Sprintf("rc:%s:%s:%s:%s:%s:%d", hx0(o["transaction_hash"]), num(o["block_number"]), hx0(o["block_hash"]),
			fin(o["finality_status"]), exe(o["execution_status"]), len(arr(o["events"])))
	case "txStatus":
		o := obj(res)
		return "st:" + fin(o["finality_status"]) + ":" + exe(o["execution_status"])
	case "stateUpdate":
		return projectStateUpdate(obj(res))
	case "storageAt", "nonce", "classHashAt":
		return "felt:" + hx0(res)
	case "classAt", "class":
		p, _ := obj(res)["program"].(string)
		if !strings.HasPrefix(p, "p") {
			return "class:?" + p
		}
		var id uint64
		if _, err := fmt.Sscanf(p, "p%d", &id); err != nil {
			return "class:?" + p
		}
		return fmt.Sprintf("class:%x", id)
	}
	return "unprojected:" + string(out)
}

func blockHead(o map[string]any) string {
	return fmt.Sprintf("blk:%s:%s:%s:%s", num(o["block_number"]), hx0(o["block_hash"]), hx0(o["parent_hash"]), fin(o["status"]))
}

func projectStateUpdate(o map[string]any) string {
	d := obj(o["state_diff"])
	var dep, rep, non, sto, decl []string
	for _, x := range arr(d["deployed_contracts"]) {
		dep = append(dep, hx0(obj(x)["address"])+">"+hx0(obj(x)["class_hash"]))
	}
	for _, x := range arr(d["replaced_classes"]) {
		rep = append(rep, hx0(obj(x)["contract_address"])+">"+hx0(obj(x)["class_hash"]))
	}
	for _, x := range arr(d["nonces"]) {
		non = append(non, hx0(obj(x)["contract_address"])+">"+hx0(obj(x)["nonce"]))
	}
	for _, x := range arr(d["storage_diffs"]) {
		var es []string
		for _, e := range arr(obj(x)["storage_entries"]) {
			es = append(es, hx0(obj(e)["key"])+"="+hx0(obj(e)["value"]))
		}
		sortNumHex(es)
		sto = append(sto, hx0(obj(x)["address"])+"["+strings.Join(es, ",")+"]")
	}
	for _, x := range arr(d["deprecated_declared_classes"]) {
		decl = append(decl, hx0(x))
	}
	extra := ""
	if n := len(arr(d["declared_classes"])); n > 0 {
		extra += fmt.Sprintf(";?declared_classes=%d", n)
	}
	sortNumHex(dep)
	sortNumHex(rep)
	sortNumHex(non)
	sortNumHex(sto)
	sortNumHex(decl)
	return fmt.Sprintf("su:%s:dep=%s;rep=%s;non=%s;sto=%s;decl=%s%s", hx0(o["block_hash"]),
		joinOr(dep), joinOr(rep), joinOr(non), joinOr(sto), joinOr(decl), extra)
}
