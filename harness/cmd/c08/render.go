// C08: independent rendering of what the harness itself built, written from the field names of the Starknet
// JSON-RPC specification (starknet_api_openrpc.json v0.8 / v0.9 / v0.10: TXN, TXN_RECEIPT, BLOCK_HEADER,
// CONTRACT_CLASS, DEPRECATED_CONTRACT_CLASS) and NOT through juno's rpc adapters; plus the payload tables that
// turn a complete returned JSON object into the opaque payload id the model carries.
//
// Payload identity = canonical JSON equality (object keys sorted, numbers kept literally) of the COMPLETE
// object, after removing exactly the members the specification itself makes method-dependent or that the model
// carries separately:
//   transaction: transaction_hash (absent inside getBlockWithReceipts by specification);
//   receipt:     finality_status (modelled: derived from the L1 head), block_hash / block_number (only
//                TXN_RECEIPT_WITH_BLOCK_INFO of getTransactionReceipt has them; modelled);
//   header:      status (modelled), transactions (the body).
package main

import (
	"bytes"
	"crypto/sha256"
	"encoding/hex"
	"encoding/json"
	"fmt"
	"math/big"
	"sort"
	"strings"

	"github.com/NethermindEth/juno/core"
	"github.com/NethermindEth/juno/core/felt"
	"golang.org/x/crypto/sha3"
	"verifharness/chain"
)

type J = map[string]any

func fh(f *felt.Felt) string { // FELT: 0x-prefixed hex without leading zeros
	if f == nil {
		return "0x0"
	}
	return "0x" + f.Text(16)
}
func u64h(x uint64) string { return fmt.Sprintf("0x%x", x) }
func felts(l []felt.Felt) []any {
	out := make([]any, 0, len(l))
	for i := range l {
		out = append(out, fh(&l[i]))
	}
	return out
}
func daMode(m core.DataAvailabilityMode) string {
	if m == core.DAModeL2 {
		return "L2"
	}
	return "L1"
}
func bounds(m map[core.Resource]core.ResourceBounds) J {
	one := func(r core.Resource) J {
		b := m[r]
		return J{"max_amount": u64h(b.MaxAmount), "max_price_per_unit": fh(b.MaxPricePerUnit)}
	}
	return J{"l1_gas": one(core.ResourceL1Gas), "l2_gas": one(core.ResourceL2Gas), "l1_data_gas": one(core.ResourceL1DataGas)}
}

// renderTx: TXN of the specification (without transaction_hash). The three served versions specify the same
// members for stored transactions (v0.10's proof_facts appear only under the INCLUDE_PROOF_FACTS response flag).
func renderTx(tx core.Transaction, v string) J {
	switch t := tx.(type) {
	case *core.InvokeTransaction:
		switch {
		case t.Version.Is(0):
			return J{"type": "INVOKE", "version": "0x0", "max_fee": fh(t.MaxFee), "signature": felts(t.TransactionSignature),
				"contract_address": fh(t.ContractAddress), "entry_point_selector": fh(t.EntryPointSelector), "calldata": felts(t.CallData)}
		case t.Version.Is(1):
			return J{"type": "INVOKE", "version": "0x1", "max_fee": fh(t.MaxFee), "signature": felts(t.TransactionSignature),
				"sender_address": fh(t.SenderAddress), "nonce": fh(t.Nonce), "calldata": felts(t.CallData)}
		default:
			return J{"type": "INVOKE", "version": "0x3", "signature": felts(t.TransactionSignature), "sender_address": fh(t.SenderAddress),
				"nonce": fh(t.Nonce), "calldata": felts(t.CallData), "resource_bounds": bounds(t.ResourceBounds), "tip": u64h(t.Tip),
				"paymaster_data": felts(t.PaymasterData), "account_deployment_data": felts(t.AccountDeploymentData),
				"nonce_data_availability_mode": daMode(t.NonceDAMode), "fee_data_availability_mode": daMode(t.FeeDAMode)}
		}
	case *core.DeclareTransaction:
		switch {
		case t.Version.Is(0):
			return J{"type": "DECLARE", "version": "0x0", "max_fee": fh(t.MaxFee), "signature": felts(t.TransactionSignature),
				"sender_address": fh(t.SenderAddress), "class_hash": fh(t.ClassHash)}
		case t.Version.Is(1):
			return J{"type": "DECLARE", "version": "0x1", "max_fee": fh(t.MaxFee), "signature": felts(t.TransactionSignature),
				"sender_address": fh(t.SenderAddress), "nonce": fh(t.Nonce), "class_hash": fh(t.ClassHash)}
		case t.Version.Is(2):
			return J{"type": "DECLARE", "version": "0x2", "max_fee": fh(t.MaxFee), "signature": felts(t.TransactionSignature),
				"sender_address": fh(t.SenderAddress), "nonce": fh(t.Nonce), "class_hash": fh(t.ClassHash), "compiled_class_hash": fh(t.CompiledClassHash)}
		default:
			return J{"type": "DECLARE", "version": "0x3", "signature": felts(t.TransactionSignature), "sender_address": fh(t.SenderAddress),
				"nonce": fh(t.Nonce), "class_hash": fh(t.ClassHash), "compiled_class_hash": fh(t.CompiledClassHash),
				"resource_bounds": bounds(t.ResourceBounds), "tip": u64h(t.Tip), "paymaster_data": felts(t.PaymasterData),
				"account_deployment_data": felts(t.AccountDeploymentData),
				"nonce_data_availability_mode": daMode(t.NonceDAMode), "fee_data_availability_mode": daMode(t.FeeDAMode)}
		}
	case *core.DeployAccountTransaction:
		if t.Version.Is(1) {
			return J{"type": "DEPLOY_ACCOUNT", "version": "0x1", "max_fee": fh(t.MaxFee), "signature": felts(t.TransactionSignature),
				"nonce": fh(t.Nonce), "contract_address_salt": fh(t.ContractAddressSalt), "constructor_calldata": felts(t.ConstructorCallData),
				"class_hash": fh(t.ClassHash)}
		}
		return J{"type": "DEPLOY_ACCOUNT", "version": "0x3", "signature": felts(t.TransactionSignature), "nonce": fh(t.Nonce),
			"contract_address_salt": fh(t.ContractAddressSalt), "constructor_calldata": felts(t.ConstructorCallData), "class_hash": fh(t.ClassHash),
			"resource_bounds": bounds(t.ResourceBounds), "tip": u64h(t.Tip), "paymaster_data": felts(t.PaymasterData),
			"nonce_data_availability_mode": daMode(t.NonceDAMode), "fee_data_availability_mode": daMode(t.FeeDAMode)}
	case *core.DeployTransaction:
		return J{"type": "DEPLOY", "version": fh(t.Version.AsFelt()), "contract_address_salt": fh(t.ContractAddressSalt),
			"constructor_calldata": felts(t.ConstructorCallData), "class_hash": fh(t.ClassHash)}
	case *core.L1HandlerTransaction:
		return J{"type": "L1_HANDLER", "version": "0x0", "nonce": fh(t.Nonce), "contract_address": fh(t.ContractAddress),
			"entry_point_selector": fh(t.EntryPointSelector), "calldata": felts(t.CallData)}
	}
	panic("renderTx")
}

func txType(tx core.Transaction) string {
	switch tx.(type) {
	case *core.InvokeTransaction:
		return "INVOKE"
	case *core.DeclareTransaction:
		return "DECLARE"
	case *core.DeployAccountTransaction:
		return "DEPLOY_ACCOUNT"
	case *core.DeployTransaction:
		return "DEPLOY"
	case *core.L1HandlerTransaction:
		return "L1_HANDLER"
	}
	panic("txType")
}

// l1 handler message hash: keccak256 of the 32-byte words from, to, nonce, selector, len(payload), payload...
// (the L1 -> L2 message hash of the Starknet core contract); calldata[0] is the L1 sender.
func msgHash(t *core.L1HandlerTransaction) string {
	h := sha3.NewLegacyKeccak256()
	w := func(f *felt.Felt) { b := f.Bytes(); h.Write(b[:]) }
	w(&t.CallData[0])
	w(t.ContractAddress)
	w(t.Nonce)
	w(t.EntryPointSelector)
	w(F(uint64(len(t.CallData) - 1)))
	for i := 1; i < len(t.CallData); i++ {
		w(&t.CallData[i])
	}
	return "0x" + hex.EncodeToString(h.Sum(nil))
}

// renderReceipt: TXN_RECEIPT of the specification without finality_status (and without block info).
func renderReceipt(rc *core.TransactionReceipt, tx core.Transaction, v string) J {
	unit := "WEI"
	if rc.FeeUnit == core.STRK {
		unit = "FRI"
	}
	msgs := []any{}
	for _, m := range rc.L2ToL1Message {
		msgs = append(msgs, J{"from_address": fh(m.From), "to_address": "0x" + hex.EncodeToString(m.To[:]), "payload": felts(m.Payload)})
	}
	evs := []any{}
	for _, e := range rc.Events {
		evs = append(evs, J{"from_address": fh(e.From), "keys": felts(e.Keys), "data": felts(e.Data)})
	}
	g := rc.ExecutionResources.TotalGasConsumed
	o := J{"type": txType(tx), "transaction_hash": fh(tx.Hash()), "actual_fee": J{"amount": fh(rc.Fee), "unit": unit},
		"messages_sent": msgs, "events": evs,
		"execution_resources": J{"l1_gas": g.L1Gas, "l1_data_gas": g.L1DataGas, "l2_gas": g.L2Gas}}
	if rc.Reverted {
		o["execution_status"] = "REVERTED"
		o["revert_reason"] = rc.RevertReason
	} else {
		o["execution_status"] = "SUCCEEDED"
	}
	switch t := tx.(type) {
	case *core.DeployAccountTransaction:
		o["contract_address"] = fh(t.ContractAddress)
	case *core.DeployTransaction:
		o["contract_address"] = fh(t.ContractAddress)
	case *core.L1HandlerTransaction:
		o["message_hash"] = msgHash(t)
	}
	return o
}

// renderHeader: BLOCK_HEADER. v0.10 adds the four commitments, the two counts and state_diff_length.
func renderHeader(b *chain.Built, v string) J {
	h := b.Block.Header
	price := func(wei, fri *felt.Felt) J { return J{"price_in_wei": fh(wei), "price_in_fri": fh(fri)} }
	da := "BLOB"
	if h.L1DAMode == core.Calldata {
		da = "CALLDATA"
	}
	o := J{"block_hash": fh(h.Hash), "parent_hash": fh(h.ParentHash), "block_number": h.Number, "new_root": fh(h.GlobalStateRoot),
		"timestamp": h.Timestamp, "sequencer_address": fh(h.SequencerAddress),
		"l1_gas_price":      price(h.L1GasPriceETH, h.L1GasPriceSTRK),
		"l1_data_gas_price": price(h.L1DataGasPrice.PriceInWei, h.L1DataGasPrice.PriceInFri),
		"l2_gas_price":      price(h.L2GasPrice.PriceInWei, h.L2GasPrice.PriceInFri),
		"l1_da_mode":        da, "starknet_version": h.ProtocolVersion}
	if v == "v10" {
		o["transaction_commitment"] = fh(b.Commit.TransactionCommitment)
		o["event_commitment"] = fh(b.Commit.EventCommitment)
		o["receipt_commitment"] = fh(b.Commit.ReceiptCommitment)
		o["state_diff_commitment"] = fh(b.Commit.StateDiffCommitment)
		o["event_count"] = h.EventCount
		o["transaction_count"] = h.TransactionCount
		o["state_diff_length"] = b.Commit.StateDiffLength
	}
	return o
}

// renderClass0 / renderClassS: DEPRECATED_CONTRACT_CLASS / CONTRACT_CLASS.
func renderClass0(c *core.DeprecatedCairoClass) J {
	eps := func(l []core.DeprecatedEntryPoint) []any {
		out := []any{}
		for _, e := range l {
			out = append(out, J{"offset": fh(e.Offset), "selector": fh(e.Selector)})
		}
		return out
	}
	var abi any
	if err := json.Unmarshal(c.Abi, &abi); err != nil {
		panic(err)
	}
	return J{"program": c.Program, "abi": abi,
		"entry_points_by_type": J{"CONSTRUCTOR": eps(c.Constructors), "EXTERNAL": eps(c.Externals), "L1_HANDLER": eps(c.L1Handlers)}}
}
func renderClassS(c *core.SierraClass) J {
	eps := func(l []core.SierraEntryPoint) []any {
		out := []any{}
		for _, e := range l {
			out = append(out, J{"function_idx": e.Index, "selector": fh(e.Selector)})
		}
		return out
	}
	return J{"sierra_program": felts(c.Program), "contract_class_version": c.SemanticVersion, "abi": c.Abi,
		"entry_points_by_type": J{"CONSTRUCTOR": eps(c.EntryPoints.Constructor), "EXTERNAL": eps(c.EntryPoints.External), "L1_HANDLER": eps(c.EntryPoints.L1Handler)}}
}

// ---------- canonical form ----------
func canon(x any) string {
	b, err := json.Marshal(x) // map keys are sorted by encoding/json
	if err != nil {
		panic(err)
	}
	// round trip through a decoder that keeps numbers literally, so that uint64 members and decoded members agree
	dec := json.NewDecoder(bytes.NewReader(b))
	dec.UseNumber()
	var y any
	if err := dec.Decode(&y); err != nil {
		panic(err)
	}
	b, _ = json.Marshal(y)
	return string(b)
}

// stripped returns a copy of the decoded object without the given members.
func stripped(o map[string]any, drop ...string) map[string]any {
	c := make(map[string]any, len(o))
	for k, v := range o {
		c[k] = v
	}
	for _, k := range drop {
		delete(c, k)
	}
	return c
}

// ---------- payload tables ----------
// A payload is registered with its three renderings (v8, v9, v10); equal triples share one id. A returned
// object is looked up by (kind, version, canonical text).
type payloads struct {
	byKey  map[string]uint64 // kind|v8|v9|v10 -> id
	lookup map[string]uint64 // kind|version|text -> id
	text   map[string]string // kind|version|id -> text (for messages)
	next   uint64
	misses map[string]string // marker -> explanation (closest expected text)
}

var pay = &payloads{byKey: map[string]uint64{}, lookup: map[string]uint64{}, text: map[string]string{}, next: 1, misses: map[string]string{}}

func (p *payloads) register(kind string, render func(v string) any) uint64 {
	var texts []string
	for _, v := range versions {
		texts = append(texts, canon(render(v)))
	}
	key := kind + "|" + strings.Join(texts, "|")
	if id, ok := p.byKey[key]; ok {
		return id
	}
	id := p.next
	p.next++
	p.byKey[key] = id
	for i, v := range versions {
		lk := kind + "|" + v + "|" + texts[i]
		if other, dup := p.lookup[lk]; dup && other != id {
			// two different payloads render identically in this version: keep the first (never happens with
			// the generated content; recorded so that it is visible if it does)
			p.misses["ambiguous:"+kind+":"+v] = texts[i]
		} else {
			p.lookup[lk] = id
		}
		p.text[fmt.Sprintf("%s|%s|%d", kind, v, id)] = texts[i]
	}
	return id
}

// id of a returned object, or a marker "?<kind>.<digest>" when it equals no registered payload.
func (p *payloads) find(kind, v string, obj any) string {
	t := canon(obj)
	if id, ok := p.lookup[kind+"|"+v+"|"+t]; ok {
		return fmt.Sprintf("%x", id)
	}
	d := sha256.Sum256([]byte(t))
	m := fmt.Sprintf("?%s.%s", kind, hex.EncodeToString(d[:4]))
	p.misses[m] = t
	return m
}

// explain describes an unknown payload marker: the returned text and the registered text closest to it.
func (p *payloads) explain(s string) string {
	var out []string
	for m, t := range p.misses {
		if !strings.Contains(s, m) {
			continue
		}
		kind := strings.SplitN(strings.TrimPrefix(m, "?"), ".", 2)[0]
		best, bestD := "", -1
		var keys []string
		for k := range p.text {
			if strings.HasPrefix(k, kind+"|") {
				keys = append(keys, k)
			}
		}
		sort.Strings(keys)
		for _, k := range keys {
			if d := commonPrefix(p.text[k], t) + commonSuffix(p.text[k], t); d > bestD {
				best, bestD = p.text[k], d
			}
		}
		out = append(out, fmt.Sprintf("%s returned %s ; closest rendering %s", m, t, best))
	}
	sort.Strings(out)
	return strings.Join(out, " || ")
}
func commonPrefix(a, b string) int {
	i := 0
	for i < len(a) && i < len(b) && a[i] == b[i] {
		i++
	}
	return i
}
func commonSuffix(a, b string) int {
	i := 0
	for i < len(a) && i < len(b) && a[len(a)-1-i] == b[len(b)-1-i] {
		i++
	}
	return i
}

var _ = big.NewInt
