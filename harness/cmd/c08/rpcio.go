// C08: mounting the real method tables on real jsonrpc servers, sending requests, projecting responses.
package main

import (
	"bytes"
	"context"
	"encoding/json"
	"fmt"
	"sort"
	"strconv"
	"strings"

	"github.com/NethermindEth/juno/blockchain"
	"github.com/NethermindEth/juno/blockchain/networks"
	"github.com/NethermindEth/juno/jsonrpc"
	"github.com/NethermindEth/juno/rpc"
	rpcv10 "github.com/NethermindEth/juno/rpc/v10"
	rpcv8 "github.com/NethermindEth/juno/rpc/v8"
	rpcv9 "github.com/NethermindEth/juno/rpc/v9"
	"github.com/NethermindEth/juno/sync"
	"github.com/NethermindEth/juno/utils/log"
	"verifharness/hx"
)

// fakeSync: no sync in progress, no pending / pre_confirmed data.
type fakeSync struct{ sync.NoopSynchronizer }

var versions = []string{"v8", "v9", "v10"}

type servers struct{ srv map[string]*jsonrpc.Server }

func mount(bc *blockchain.Blockchain) *servers {
	logger := log.NewNopZapLogger()
	h := rpc.New(bc, &fakeSync{}, nil, "c08", logger, &networks.Sepolia)
	s := &servers{srv: map[string]*jsonrpc.Server{}}
	reg := func(v string, val jsonrpc.Validator, ms []jsonrpc.Method) {
		srv := jsonrpc.NewServer(4, logger).WithValidator(val)
		hx.Must(srv.RegisterMethods(ms...))
		s.srv[v] = srv
	}
	m10, _ := h.MethodsV0_10()
	m9, _ := h.MethodsV0_9()
	m8, _ := h.MethodsV0_8()
	reg("v10", rpcv10.Validator(), m10)
	reg("v9", rpcv9.Validator(), m9)
	reg("v8", rpcv8.Validator(), m8)
	return s
}

// ---------- requests ----------
// BlockID kinds: "n" number, "h" hash, "latest", "l1".
type BID struct {
	K string `json:"k"`
	N uint64 `json:"n,omitempty"`
	H string `json:"h,omitempty"` // hex without 0x
}

func (b BID) json() any {
	switch b.K {
	case "n":
		return map[string]any{"block_number": b.N}
	case "h":
		return map[string]any{"block_hash": "0x" + b.H}
	case "latest":
		return "latest"
	case "l1":
		return "l1_accepted"
	}
	panic("bid")
}
func (b BID) line() string {
	switch b.K {
	case "n":
		return "n:" + strconv.FormatUint(b.N, 16)
	case "h":
		return "h:" + b.H
	}
	return b.K
}

// Req is one request of the modelled universe. M is the model's name of the method.
type Req struct {
	M    string `json:"m"`
	ID   *BID   `json:"id,omitempty"`
	Hash string `json:"hash,omitempty"` // tx hash or class hash (hex)
	Idx  int    `json:"idx,omitempty"`
	Addr string `json:"addr,omitempty"`
	Key  string `json:"key,omitempty"`
	Pos  bool   `json:"pos,omitempty"` // positional parameters
	// symbolic references, re-bound when the op list is shrunk: "b<store op id>" / "t<store op id>.<index>"
	IDRef   string `json:"idref,omitempty"`
	HashRef string `json:"hashref,omitempty"`
}

var methodName = map[string]string{
	"blockNumber": "starknet_blockNumber", "blockHashAndNumber": "starknet_blockHashAndNumber",
	"blockWithTxHashes": "starknet_getBlockWithTxHashes", "blockWithTxs": "starknet_getBlockWithTxs",
	"blockWithReceipts": "starknet_getBlockWithReceipts", "txCount": "starknet_getBlockTransactionCount",
	"txByHash": "starknet_getTransactionByHash", "txByIdx": "starknet_getTransactionByBlockIdAndIndex",
	"receipt": "starknet_getTransactionReceipt", "txStatus": "starknet_getTransactionStatus",
	"stateUpdate": "starknet_getStateUpdate", "storageAt": "starknet_getStorageAt", "nonce": "starknet_getNonce",
	"storageAtLU": "starknet_getStorageAt", // with response_flags ["INCLUDE_LAST_UPDATE_BLOCK"] (v0.10)
	"classHashAt": "starknet_getClassHashAt", "classAt": "starknet_getClassAt", "class": "starknet_getClass",
}

type kv struct {
	k string
	v any
}

func (r Req) params() []kv {
	switch r.M {
	case "blockNumber", "blockHashAndNumber":
		return nil
	case "blockWithTxHashes", "blockWithTxs", "blockWithReceipts", "txCount", "stateUpdate":
		return []kv{{"block_id", r.ID.json()}}
	case "txByHash", "receipt", "txStatus":
		return []kv{{"transaction_hash", "0x" + r.Hash}}
	case "txByIdx":
		return []kv{{"block_id", r.ID.json()}, {"index", r.Idx}}
	case "storageAt":
		return []kv{{"contract_address", "0x" + r.Addr}, {"key", "0x" + r.Key}, {"block_id", r.ID.json()}}
	case "storageAtLU":
		return []kv{{"contract_address", "0x" + r.Addr}, {"key", "0x" + r.Key}, {"block_id", r.ID.json()},
			{"response_flags", []string{"INCLUDE_LAST_UPDATE_BLOCK"}}}
	case "nonce", "classHashAt", "classAt":
		return []kv{{"block_id", r.ID.json()}, {"contract_address", "0x" + r.Addr}}
	case "class":
		return []kv{{"block_id", r.ID.json()}, {"class_hash", "0x" + r.Hash}}
	}
	panic("method " + r.M)
}

func (r Req) body() []byte {
	ps := r.params()
	var params any
	if r.Pos {
		l := make([]any, len(ps))
		for i, p := range ps {
			l[i] = p.v
		}
		params = l
	} else {
		m := map[string]any{}
		for _, p := range ps {
			m[p.k] = p.v
		}
		params = m
	}
	msg := map[string]any{"jsonrpc": "2.0", "id": 7, "method": methodName[r.M]}
	if len(ps) > 0 {
		msg["params"] = params
	}
	b, err := json.Marshal(msg)
	hx.Must(err)
	return b
}

// line is the oracle's form of the request.
func (r Req) line() string {
	switch r.M {
	case "blockNumber", "blockHashAndNumber":
		return r.M
	case "blockWithTxHashes", "blockWithTxs", "blockWithReceipts", "txCount", "stateUpdate":
		return r.M + " " + r.ID.line()
	case "txByHash", "receipt", "txStatus":
		return r.M + " " + r.Hash
	case "txByIdx":
		return fmt.Sprintf("%s %s %d", r.M, r.ID.line(), r.Idx)
	case "storageAt", "storageAtLU":
		return fmt.Sprintf("%s %s %s %s", r.M, r.ID.line(), r.Addr, r.Key)
	case "nonce", "classHashAt", "classAt":
		return fmt.Sprintf("%s %s %s", r.M, r.ID.line(), r.Addr)
	case "class":
		return fmt.Sprintf("%s %s %s", r.M, r.ID.line(), r.Hash)
	}
	panic("method " + r.M)
}

// call sends the request through Server.HandleReader and returns the canonical projection.
func (s *servers) call(v string, r Req) (string, string) {
	out, _, err := s.srv[v].HandleReader(context.Background(), bytes.NewReader(r.body()))
	if err != nil {
		return "transport:" + err.Error(), string(out)
	}
	return project(v, r.M, out), string(out)
}

var errName = map[int]string{24: "BLOCK_NOT_FOUND", 29: "TXN_HASH_NOT_FOUND", 20: "CONTRACT_NOT_FOUND",
	27: "INVALID_TXN_INDEX", 28: "CLASS_HASH_NOT_FOUND", 32: "NO_BLOCKS", -32602: "INVALID_PARAMS"}

func hx0(s any) string { // "0x00ab" -> "ab"
	str, ok := s.(string)
	if !ok || !strings.HasPrefix(str, "0x") {
		return fmt.Sprintf("?%v", s)
	}
	t := strings.TrimLeft(strings.ToLower(str[2:]), "0")
	if t == "" {
		return "0"
	}
	return t
}
func num(x any) string {
	switch n := x.(type) {
	case json.Number:
		return n.String()
	}
	return fmt.Sprintf("?%v", x)
}
func fin(x any) string {
	switch x {
	case "ACCEPTED_ON_L2":
		return "L2"
	case "ACCEPTED_ON_L1":
		return "L1"
	}
	return fmt.Sprintf("?%v", x)
}
func exe(x any) string {
	switch x {
	case "SUCCEEDED":
		return "S"
	case "REVERTED":
		return "R"
	}
	return fmt.Sprintf("?%v", x)
}
func obj(x any) map[string]any { m, _ := x.(map[string]any); return m }
func arr(x any) []any          { a, _ := x.([]any); return a }
func joinOr(l []string) string {
	if len(l) == 0 {
		return "-"
	}
	return strings.Join(l, ",")
}
func sortNumHex(l []string) { // sort hex strings numerically (by length then lexicographic), on the first field
	key := func(s string) string {
		return strings.FieldsFunc(s, func(r rune) bool { return r == '>' || r == '[' || r == '=' })[0]
	}
	sort.Slice(l, func(i, j int) bool {
		a, b := key(l[i]), key(l[j])
		if len(a) != len(b) {
			return len(a) < len(b)
		}
		return a < b
	})
}
