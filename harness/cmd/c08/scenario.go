// C08: scenarios (store / revert / set-L1-head op lists), their generator, and the environment that keeps
// the real nodes (both state backends), the JSON-RPC servers and the oracle in lock step.
package main

import (
	"fmt"
	"hash/fnv"
	"sort"
	"strconv"
	"strings"

	"github.com/NethermindEth/juno/core"
	"verifharness/chain"
	"verifharness/hx"
)

type Op struct {
	K    string `json:"k"` // store | revert | l1
	ID   int    `json:"id,omitempty"`
	Spec *BSpec `json:"spec,omitempty"`
	N    uint64 `json:"n,omitempty"`
}

var backends = []string{"legacy", "new"}

type blockInfo struct {
	id     int
	number uint64
	hash   string
	txs    []string
}

type env struct {
	seq    *chain.Node
	nodes  map[string]*chain.Node
	srv    map[string]*servers
	or     *hx.Oracle
	cur    []blockInfo       // current chain, genesis first
	byID   map[int]blockInfo // every block ever stored (by store-op id; last one wins)
	gone   map[string]bool   // block hashes stored once and not in the current chain
	goneTx map[string]bool
	l1     *uint64
	lines  []string // oracle lines of the ops performed
	key    string
	keyN   int
}

// stateKey is a short stable digest of the op list performed so far (distinctness key of a case).
func (e *env) stateKey() string {
	if e.keyN != len(e.lines) {
		h := fnv.New64a()
		for _, l := range e.lines {
			h.Write([]byte(l))
			h.Write([]byte{'\n'})
		}
		e.key, e.keyN = fmt.Sprintf("%016x/%d", h.Sum64(), len(e.lines)), len(e.lines)
	}
	return e.key
}

func newEnv(or *hx.Oracle) *env {
	e := &env{seq: chain.NewNode(nil, true), nodes: map[string]*chain.Node{}, srv: map[string]*servers{}, or: or,
		byID: map[int]blockInfo{}, gone: map[string]bool{}, goneTx: map[string]bool{}}
	e.nodes["legacy"] = chain.NewNode(nil, false)
	e.nodes["new"] = chain.NewNode(nil, true)
	for _, b := range backends {
		e.srv[b] = mount(e.nodes[b].BC)
	}
	or.Ask("reset", 1)
	return e
}

func h16(x uint64) string { return strconv.FormatUint(x, 16) }

func sortedKeys[V any](m map[uint64]V) []uint64 {
	ks := make([]uint64, 0, len(m))
	for k := range m {
		ks = append(ks, k)
	}
	sort.Slice(ks, func(i, j int) bool { return ks[i] < ks[j] })
	return ks
}

func pairsLine(m map[uint64]uint64) string {
	var l []string
	for _, k := range sortedKeys(m) {
		l = append(l, h16(k)+">"+h16(m[k]))
	}
	return joinOr(l)
}

// storeLine is the oracle's form of a stored block: the hashes are the ones juno computed.
func storeLine(b *chain.Built, s *BSpec) string {
	var txs []string
	for i, t := range b.Block.Transactions {
		r := "0"
		if s.Txs[i].Reverted {
			r = "1"
		}
		txs = append(txs, fmt.Sprintf("%s/%s/%d", hx0(t.Hash().String()), r, s.Txs[i].Events))
	}
	var sto []string
	for _, a := range sortedKeys(s.Storage) {
		var kvs []string
		for _, k := range sortedKeys(s.Storage[a]) {
			kvs = append(kvs, h16(k)+"="+h16(s.Storage[a][k]))
		}
		sto = append(sto, h16(a)+":"+strings.Join(kvs, ","))
	}
	stoS := "-"
	if len(sto) > 0 {
		stoS = strings.Join(sto, "|")
	}
	var decl []string
	for _, c := range s.Declare {
		decl = append(decl, h16(c))
	}
	return fmt.Sprintf("store %s %s %s %s %s %s %s", hx0(b.Block.Hash.String()), joinOr(txs),
		pairsLine(s.Deploy), pairsLine(s.Replace), pairsLine(s.Nonces), stoS, joinOr(decl))
}

func (e *env) tell(line string) {
	e.lines = append(e.lines, line)
	if rep := e.or.Ask(line, 1); rep[0] != "ok 1" {
		hx.Fatalf("oracle refused op %q (%s): the generator produced an inadmissible op sequence", line, rep[0])
	}
}

// apply performs one op on the sequencer, on both follower nodes and in the oracle. It returns an error text
// when the real nodes disagree with the op's expected effect (a correspondence failure of the op itself).
func (e *env) apply(o Op) string {
	switch o.K {
	case "store":
		b, err := finalise(e.seq, o.Spec)
		if err != nil {
			// not a valid block on top of this chain (only happens for shrink candidates)
			return fmt.Sprintf("invalid: finalise: %v (spec %+v) after %s", err, o.Spec, strings.Join(e.lines, " ; "))
		}
		for _, be := range backends {
			if err := e.nodes[be].Store(b); err != nil {
				return fmt.Sprintf("%s follower rejected a block finalised by the sequencer: %v", be, err)
			}
		}
		bi := blockInfo{id: o.ID, number: b.Block.Number, hash: hx0(b.Block.Hash.String())}
		for _, t := range b.Block.Transactions {
			bi.txs = append(bi.txs, hx0(t.Hash().String()))
		}
		e.cur = append(e.cur, bi)
		e.byID[o.ID] = bi
		delete(e.gone, bi.hash)
		for _, t := range bi.txs {
			delete(e.goneTx, t)
		}
		e.tell(storeLine(b, o.Spec))
	case "revert":
		errSeq := e.seq.BC.RevertHead()
		for _, be := range backends {
			err := e.nodes[be].BC.RevertHead()
			if (err == nil) != (errSeq == nil) || (err == nil) != (len(e.cur) > 0) {
				return fmt.Sprintf("RevertHead on %s: %v (sequencer: %v, chain length %d)", be, err, errSeq, len(e.cur))
			}
		}
		if len(e.cur) > 0 {
			last := e.cur[len(e.cur)-1]
			e.cur = e.cur[:len(e.cur)-1]
			e.gone[last.hash] = true
			for _, t := range last.txs {
				e.goneTx[t] = true
			}
		}
		e.tell("revert")
	case "l1":
		for _, be := range backends {
			hx.Must(e.nodes[be].BC.SetL1Head(&core.L1Head{BlockNumber: o.N, BlockHash: F(0xbeef00 + o.N), StateRoot: F(0xfeed)}))
		}
		n := o.N
		e.l1 = &n
		e.tell("l1 " + h16(o.N))
	default:
		hx.Fatalf("op kind %q", o.K)
	}
	return ""
}

// ---------- generator ----------
type gstate struct {
	class    map[uint64]uint64
	slots    map[uint64]map[uint64]uint64
	declared map[uint64]bool
	nonce    map[uint64]uint64
}

func (g *gstate) clone() *gstate {
	n := &gstate{class: map[uint64]uint64{}, slots: map[uint64]map[uint64]uint64{}, declared: map[uint64]bool{}, nonce: map[uint64]uint64{}}
	for k, v := range g.class {
		n.class[k] = v
	}
	for k, v := range g.nonce {
		n.nonce[k] = v
	}
	for k := range g.declared {
		n.declared[k] = true
	}
	for a, m := range g.slots {
		n.slots[a] = map[uint64]uint64{}
		for k, v := range m {
			n.slots[a][k] = v
		}
	}
	return n
}

var (
	addrU  = []uint64{10, 11, 12, 13, 14}
	slotU  = []uint64{5, 6, 7}
	classU = []uint64{900, 901, 902, 903}
)

// genSpec draws a block that respects what juno requires of a valid state diff (writes only to deployed
// contracts, zero writes only to slots holding a value — the C04 legacy finding is not this check's business —,
// classes declared once) and returns the generator state after it.
func genSpec(r *hx.RNG, g *gstate, salt uint64) (*BSpec, *gstate) {
	s := &BSpec{Salt: salt, Deploy: map[uint64]uint64{}, Replace: map[uint64]uint64{}, Nonces: map[uint64]uint64{}, Storage: map[uint64]map[uint64]uint64{}}
	n := g.clone()
	for _, c := range classU {
		if !n.declared[c] && r.Chance(30) {
			s.Declare = append(s.Declare, c)
			n.declared[c] = true
		}
	}
	for _, a := range addrU {
		if _, dep := n.class[a]; !dep {
			if r.Chance(30) {
				c := classU[r.Intn(len(classU))] // possibly a class that is not declared
				s.Deploy[a] = c
				n.class[a] = c
				n.slots[a] = map[uint64]uint64{}
			}
		} else if r.Chance(15) {
			c := classU[r.Intn(len(classU))]
			s.Replace[a] = c
			n.class[a] = c
		}
		if _, dep := n.class[a]; !dep {
			continue
		}
		if r.Chance(35) {
			n.nonce[a]++
			s.Nonces[a] = n.nonce[a]
		}
		for _, k := range slotU {
			if !r.Chance(35) {
				continue
			}
			v := uint64(1 + r.Intn(200))
			if n.slots[a][k] != 0 && r.Chance(30) {
				v = 0
			}
			if s.Storage[a] == nil {
				s.Storage[a] = map[uint64]uint64{}
			}
			s.Storage[a][k] = v
			n.slots[a][k] = v
		}
	}
	for i, nt := 0, r.Intn(4); i < nt; i++ {
		s.Txs = append(s.Txs, TxSpec{Reverted: r.Chance(30), Events: r.Intn(3)})
	}
	return s, n
}

func genScenario(r *hx.RNG, nops int) []Op {
	var ops []Op
	stack := []*gstate{{class: map[uint64]uint64{}, slots: map[uint64]map[uint64]uint64{}, declared: map[uint64]bool{}, nonce: map[uint64]uint64{}}}
	var specs []*BSpec // specs of the current chain
	var lastReverted *BSpec
	id := 0
	noL1 := r.Chance(30)
	for len(ops) < nops {
		p := r.Intn(100)
		switch {
		case p < 58 || len(specs) == 0 && p < 90:
			id++
			var s *BSpec
			var g *gstate
			if lastReverted != nil && r.Chance(35) {
				// re-store exactly the block that was just reverted: its hash is in the chain again
				rr := hx.NewRNG(lastReverted.Salt)
				s, g = genSpec(rr, stack[len(stack)-1], lastReverted.Salt)
			} else {
				salt := r.U64()%1_000_000*1000 + uint64(id)
				s, g = genSpec(hx.NewRNG(salt), stack[len(stack)-1], salt)
			}
			lastReverted = nil
			ops = append(ops, Op{K: "store", ID: id, Spec: s})
			stack = append(stack, g)
			specs = append(specs, s)
		case p < 80:
			ops = append(ops, Op{K: "revert"})
			if len(specs) > 0 {
				lastReverted = specs[len(specs)-1]
				specs = specs[:len(specs)-1]
				stack = stack[:len(stack)-1]
			}
		default:
			if noL1 {
				continue
			}
			ops = append(ops, Op{K: "l1", N: uint64(r.Intn(len(specs) + 3))})
		}
	}
	return ops
}
