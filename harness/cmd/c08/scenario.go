// C08: scenarios (store / revert / set-L1-head op lists), their generator, and the environment that keeps
// the real nodes (both state backends), the JSON-RPC servers and the oracle in lock step.
package main

import (
	"fmt"
	"hash/fnv"
	"sort"
	"strconv"
	"strings"

	"github.com/NethermindEth/juno/core"
	"verifharness/chain"
	"verifharness/hx"
)

type Op struct {
	K    string `json:"k"` // store | revert | l1
	ID   int    `json:"id,omitempty"`
	Spec *BSpec `json:"spec,omitempty"`
	N    uint64 `json:"n,omitempty"`
}

var backends = []string{"legacy", "new"}

type blockInfo struct {
	id     int
	number uint64
	hash   string
	txs    []string
}

type env struct {
	seq    *chain.Node
	nodes  map[string]*chain.Node
	srv    map[string]*servers
	or     *hx.Oracle
	cur    []blockInfo       // current chain, genesis first
	byID   map[int]blockInfo // every block ever stored (by store-op id; last one wins)
	gone   map[string]bool   // block hashes stored once and not in the current chain
	goneTx map[string]bool
	l1     *uint64
	lines  []string // oracle lines of the ops performed
	key    string
	keyN   int
	seen   map[string][2]string // payload agreement bookkeeping (main.go agree)
	extras    [][]string         // per block of the current chain: class hashes it delivered for deployed contracts
	goneExtra map[string]bool    // ... of blocks that were reverted
}

// stateKey is a short stable digest of the op list performed so far (distinctness key of a case).
func (e *env) stateKey() string {
	if e.keyN != len(e.lines) {
		h := fnv.New64a()
		for _, l := range e.lines {
			h.Write([]byte(l))
			h.Write([]byte{'\n'})
		}
		e.key, e.keyN = fmt.Sprintf("%016x/%d", h.Sum64(), len(e.lines)), len(e.lines)
	}
	return e.key
}

func newEnv(or *hx.Oracle) *env {
	e := &env{seq: chain.NewNode(nil, true), nodes: map[string]*chain.Node{}, srv: map[string]*servers{}, or: or,
		byID: map[int]blockInfo{}, gone: map[string]bool{}, goneTx: map[string]bool{}, goneExtra: map[string]bool{}}
	e.nodes["legacy"] = chain.NewNode(nil, false)
	e.nodes["new"] = chain.NewNode(nil, true)
	for _, b := range backends {
		e.srv[b] = mount(e.nodes[b].BC)
	}
	or.Ask("reset", 1)
	return e
}

func h16(x uint64) string { return strconv.FormatUint(x, 16) }

func sortedKeys[V any](m map[uint64]V) []uint64 {
	ks := make([]uint64, 0, len(m))
	for k := range m {
		ks = append(ks, k)
	}
	sort.Slice(ks, func(i, j int) bool { return ks[i] < ks[j] })
	return ks
}

func pairsLine(m map[uint64]uint64) string {
	var l []string
	for _, k := range sortedKeys(m) {
		l = append(l, h16(k)+">"+h16(m[k]))
	}
	return joinOr(l)
}

// address > class hash (class references resolved to the real hash)
func classPairsLine(m map[uint64]uint64) string {
	var l []string
	for _, k := range sortedKeys(m) {
		l = append(l, h16(k)+">"+hx0(classHashOf(m[k]).String()))
	}
	return joinOr(l)
}

// the definition id the model carries = the payload id of the independent rendering of the class
func defID0(def uint64) uint64 {
	return pay.register("class", func(string) any { return renderClass0(classDef0(def)) })
}
func defIDS(id uint64) uint64 {
	return pay.register("class", func(string) any { return renderClassS(sierraClass(id)) })
}

// storeLine is the oracle's form of a stored block: the hashes are the ones juno computed.
func storeLine(b *chain.Built, s *BSpec) string {
	var txs []string
	for i, t := range b.Block.Transactions {
		r := "0"
		if s.Txs[i].Reverted {
			r = "1"
		}
		t, rc := t, b.Block.Receipts[i]
		tp := pay.register("tx", func(v string) any { return renderTx(t, v) })
		rp := pay.register("rc", func(v string) any { return renderReceipt(rc, t, v) })
		txs = append(txs, fmt.Sprintf("%s/%s/%d/%x/%x", hx0(t.Hash().String()), r, s.Txs[i].Events, tp, rp))
	}
	hp := pay.register("hdr", func(v string) any { return renderHeader(b, v) })
	var sto []string
	for _, a := range sortedKeys(s.Storage) {
		var kvs []string
		for _, k := range sortedKeys(s.Storage[a]) {
			kvs = append(kvs, h16(k)+"="+h16(s.Storage[a][k]))
		}
		sto = append(sto, h16(a)+":"+strings.Join(kvs, ","))
	}
	stoS := "-"
	if len(sto) > 0 {
		stoS = strings.Join(sto, "|")
	}
	var decl, decl1, extra []string
	for _, c := range s.Declare {
		decl = append(decl, fmt.Sprintf("%x>%x", c.Hash, defID0(c.Def)))
	}
	for _, id := range s.DeclareS {
		decl1 = append(decl1, fmt.Sprintf("%s>%x>%x", hx0(sierraHash(id).String()), sierraCasmHash(id), defIDS(id)))
	}
	for _, c := range s.Extra {
		extra = append(extra, fmt.Sprintf("%x>%x", c.Hash, defID0(c.Def)))
	}
	return fmt.Sprintf("store %s %x %s %s %s %s %s %s %s %s", hx0(b.Block.Hash.String()), hp, joinOr(txs),
		classPairsLine(s.Deploy), classPairsLine(s.Replace), pairsLine(s.Nonces), stoS, joinOr(decl), joinOr(decl1), joinOr(extra))
}

func (e *env) tell(line string) {
	e.lines = append(e.lines, line)
	if rep := e.or.Ask(line, 1); rep[0] != "ok 1" {
		hx.Fatalf("oracle refused op %q (%s): the generator produced an inadmissible op sequence", line, rep[0])
	}
}

// apply performs one op on the sequencer, on both follower nodes and in the oracle. It returns an error text
// when the real nodes disagree with the op's expected effect (a correspondence failure of the op itself).
func (e *env) apply(o Op) string {
	switch o.K {
	case "store":
		b, err := finalise(e.seq, o.Spec)
		if err != nil {
			// not a valid block on top of this chain (only happens for shrink candidates)
			return fmt.Sprintf("invalid: finalise: %v (spec %+v) after %s", err, o.Spec, strings.Join(e.lines, " ; "))
		}
		for _, be := range backends {
			if err := e.nodes[be].Store(b); err != nil {
				return fmt.Sprintf("%s follower rejected a block finalised by the sequencer: %v", be, err)
			}
		}
		bi := blockInfo{id: o.ID, number: b.Block.Number, hash: hx0(b.Block.Hash.String())}
		for _, t := range b.Block.Transactions {
			bi.txs = append(bi.txs, hx0(t.Hash().String()))
		}
		e.cur = append(e.cur, bi)
		var ex []string
		for _, c := range o.Spec.Extra {
			for _, d := range o.Spec.Deploy {
				if d == c.Hash {
					ex = append(ex, h16(c.Hash))
					break
				}
			}
		}
		e.extras = append(e.extras, ex)
		e.byID[o.ID] = bi
		delete(e.gone, bi.hash)
		for _, t := range bi.txs {
			delete(e.goneTx, t)
		}
		e.tell(storeLine(b, o.Spec))
	case "revert":
		errSeq := e.seq.BC.RevertHead()
		for _, be := range backends {
			err := e.nodes[be].BC.RevertHead()
			if (err == nil) != (errSeq == nil) || (err == nil) != (len(e.cur) > 0) {
				return fmt.Sprintf("RevertHead on %s: %v (sequencer: %v, chain length %d)", be, err, errSeq, len(e.cur))
			}
		}
		if len(e.cur) > 0 {
			last := e.cur[len(e.cur)-1]
			e.cur = e.cur[:len(e.cur)-1]
			for _, h := range e.extras[len(e.extras)-1] {
				e.goneExtra[h] = true
			}
			e.extras = e.extras[:len(e.extras)-1]
			e.gone[last.hash] = true
			for _, t := range last.txs {
				e.goneTx[t] = true
			}
		}
		e.tell("revert")
	case "l1":
		for _, be := range backends {
			hx.Must(e.nodes[be].BC.SetL1Head(&core.L1Head{BlockNumber: o.N, BlockHash: F(0xbeef00 + o.N), StateRoot: F(0xfeed)}))
		}
		n := o.N
		e.l1 = &n
		e.tell("l1 " + h16(o.N))
	default:
		hx.Fatalf("op kind %q", o.K)
	}
	return ""
}

// ---------- generator ----------
type gstate struct {
	class    map[uint64]uint64
	slots    map[uint64]map[uint64]uint64
	declared map[uint64]bool
	nonce    map[uint64]uint64
}

func (g *gstate) clone() *gstate {
	n := &gstate{class: map[uint64]uint64{}, slots: map[uint64]map[uint64]uint64{}, declared: map[uint64]bool{}, nonce: map[uint64]uint64{}}
	for k, v := range g.class {
		n.class[k] = v
	}
	for k, v := range g.nonce {
		n.nonce[k] = v
	}
	for k := range g.declared {
		n.declared[k] = true
	}
	for a, m := range g.slots {
		n.slots[a] = map[uint64]uint64{}
		for k, v := range m {
			n.slots[a][k] = v
		}
	}
	return n
}

var (
	addrU   = []uint64{10, 11, 12, 13, 14}
	slotU   = []uint64{5, 6, 7}
	class0U = []uint64{900, 901, 902, 903}                                 // Cairo-0 class hashes (904 is never declared)
	sierraU = []uint64{1, 2}                                                // Sierra class numbers (3 is never declared)
	classU  = []uint64{900, 901, 902, 903, sierraRef + 1, sierraRef + 2} // what deployments / replacements reference
)


// genSpec draws a block that respects what juno requires of a valid state diff (writes only to deployed
// contracts, zero writes only to slots holding a value — the C04 legacy finding is not this check's business —,
// classes declared once) and returns the generator state after it.
func genSpec(r *hx.RNG, g *gstate, salt uint64) (*BSpec, *gstate) {
	s := &BSpec{Salt: salt, Deploy: map[uint64]uint64{}, Replace: map[uint64]uint64{}, Nonces: map[uint64]uint64{}, Storage: map[uint64]map[uint64]uint64{}}
	n := g.clone()
	for _, c := range class0U {
		if !n.declared[c] && r.Chance(28) {
			// the definition depends on the salt: a re-declaration on another branch brings another definition
			s.Declare = append(s.Declare, CDecl{Hash: c, Def: c*10 + salt%7})
			n.declared[c] = true
		}
	}
	for _, id := range sierraU {
		if !n.declared[sierraRef+id] && r.Chance(25) {
			s.DeclareS = append(s.DeclareS, id)
			n.declared[sierraRef+id] = true
		}
	}
	for _, a := range addrU {
		if _, dep := n.class[a]; !dep {
			if r.Chance(30) {
				c := classU[r.Intn(len(classU))] // possibly a class that is not declared
				s.Deploy[a] = c
				n.class[a] = c
				n.slots[a] = map[uint64]uint64{}
				if c < sierraRef && !n.declared[c] && r.Chance(45) {
					// as the synchroniser's data source does (fetchUnknownClasses): deliver the definition of the
					// undeclared class of a deployed contract
					s.Extra = append(s.Extra, CDecl{Hash: c, Def: c*10 + 7 + salt%2})
					n.declared[c] = true
				}
			}
		} else if r.Chance(15) {
			c := classU[r.Intn(len(classU))]
			s.Replace[a] = c
			n.class[a] = c
		}
		if _, dep := n.class[a]; !dep {
			continue
		}
		if r.Chance(35) {
			n.nonce[a]++
			s.Nonces[a] = n.nonce[a]
		}
		for _, k := range slotU {
			if !r.Chance(35) {
				continue
			}
			v := uint64(1 + r.Intn(200))
			if n.slots[a][k] != 0 && r.Chance(30) {
				v = 0
			}
			if s.Storage[a] == nil {
				s.Storage[a] = map[uint64]uint64{}
			}
			s.Storage[a][k] = v
			n.slots[a][k] = v
		}
	}
	for i, nt := 0, r.Intn(4); i < nt; i++ {
		s.Txs = append(s.Txs, TxSpec{Kind: txKinds[r.Intn(len(txKinds))], Reverted: r.Chance(30), Events: r.Intn(3), Msgs: r.Intn(5) / 3})
	}
	return s, n
}

func genScenario(r *hx.RNG, nops int) []Op {
	var ops []Op
	stack := []*gstate{{class: map[uint64]uint64{}, slots: map[uint64]map[uint64]uint64{}, declared: map[uint64]bool{}, nonce: map[uint64]uint64{}}}
	var specs []*BSpec // specs of the current chain
	var lastReverted *BSpec
	id := 0
	noL1 := r.Chance(30)
	for len(ops) < nops {
		p := r.Intn(100)
		switch {
		case p < 58 || len(specs) == 0 && p < 90:
			id++
			var s *BSpec
			var g *gstate
			if lastReverted != nil && r.Chance(35) {
				// re-store exactly the block that was just reverted: its hash is in the chain again
				rr := hx.NewRNG(lastReverted.Salt)
				s, g = genSpec(rr, stack[len(stack)-1], lastReverted.Salt)
			} else {
				salt := r.U64()%1_000_000*1000 + uint64(id)
				s, g = genSpec(hx.NewRNG(salt), stack[len(stack)-1], salt)
			}
			lastReverted = nil
			ops = append(ops, Op{K: "store", ID: id, Spec: s})
			stack = append(stack, g)
			specs = append(specs, s)
		case p < 80:
			ops = append(ops, Op{K: "revert"})
			if len(specs) > 0 {
				lastReverted = specs[len(specs)-1]
				specs = specs[:len(specs)-1]
				stack = stack[:len(stack)-1]
			}
		default:
			if noL1 {
				continue
			}
			ops = append(ops, Op{K: "l1", N: uint64(r.Intn(len(specs) + 3))})
		}
	}
	return ops
}

// directedScenarios: histories that make the class and payload cases certain instead of likely.
func directedScenarios() [][]Op {
	st := func(id int, s BSpec) Op { s.Salt = uint64(7000 + id); return Op{K: "store", ID: id, Spec: &s} }
	var all []TxSpec
	for i, k := range txKinds {
		all = append(all, TxSpec{Kind: k, Reverted: i%4 == 1, Events: i % 3, Msgs: i % 2})
	}
	classes := []Op{
		// block 0: Cairo-0 class 900 and Sierra class 1 declared and instantiated
		st(1, BSpec{Declare: []CDecl{{900, 9001}}, DeclareS: []uint64{1}, Deploy: map[uint64]uint64{10: 900, 11: sierraRef + 1}}),
		// block 1: 901 declared, 10 moves to it, 12 instantiates it; 13 instantiates the never declared 903
		st(2, BSpec{Declare: []CDecl{{901, 9011}}, Deploy: map[uint64]uint64{12: 901, 13: 903}, Replace: map[uint64]uint64{10: 901},
			Txs: all[:4]}),
		// block 2: Sierra 2 declared; reverted below
		st(3, BSpec{DeclareS: []uint64{2}, Deploy: map[uint64]uint64{14: sierraRef + 2}, Txs: all[4:8]}),
		{K: "revert"},
		{K: "revert"},
		// the replacing block 1 declares 901 with ANOTHER definition and Sierra 2 one block earlier than before
		st(4, BSpec{Declare: []CDecl{{901, 9012}}, DeclareS: []uint64{2}, Deploy: map[uint64]uint64{12: sierraRef + 2, 13: 901}}),
		{K: "l1", N: 0},
		st(5, BSpec{Declare: []CDecl{{902, 9021}}, Replace: map[uint64]uint64{11: 902, 12: 900}, Txs: all[8:]}),
		{K: "revert"},
		st(6, BSpec{Declare: []CDecl{{902, 9022}}, Replace: map[uint64]uint64{11: sierraRef + 2}}),
	}
	kinds := []Op{
		st(11, BSpec{Txs: all}),
		st(12, BSpec{Txs: []TxSpec{{Kind: "l1_handler", Reverted: true, Events: 2, Msgs: 1}, {Kind: "deploy_account3", Msgs: 1}}}),
		{K: "l1", N: 0},
		{K: "revert"},
		st(13, BSpec{Txs: []TxSpec{{Kind: "declare3"}, {Kind: "invoke1", Reverted: true}}}),
	}
	// a definition delivered for a deployed contract's undeclared class behaves like a declaration, also when its
	// block is reverted and the hash is declared (lower, with another definition) on the replacing branch
	implicit := []Op{
		st(21, BSpec{}),
		st(22, BSpec{}),
		st(23, BSpec{Extra: []CDecl{{902, 9028}}, Deploy: map[uint64]uint64{13: 902}}),
		st(24, BSpec{Declare: []CDecl{{903, 9031}}}),
		{K: "revert"},
		st(25, BSpec{Declare: []CDecl{{903, 9032}}, Deploy: map[uint64]uint64{14: 902}}),
		{K: "revert"},
		{K: "revert"},
		{K: "revert"},
		st(26, BSpec{Declare: []CDecl{{902, 9026}}}),
		st(27, BSpec{Deploy: map[uint64]uint64{13: 902}}),
	}
	// MISUSE of Blockchain.Store (never done by the synchroniser): a definition delivered for a class hash that the
	// block only uses in a replace_class; Revert does not visit it. Requests for that hash are compared with the
	// handler model only (deviation orphan-class of the model), they produce no violation.
	misuse := []Op{
		st(31, BSpec{Declare: []CDecl{{900, 9001}}, Deploy: map[uint64]uint64{10: 900}}),
		st(32, BSpec{Extra: []CDecl{{902, 9028}}, Replace: map[uint64]uint64{10: 902}}),
		{K: "revert"},
		st(33, BSpec{Declare: []CDecl{{902, 9026}}}),
	}
	return [][]Op{classes, kinds, implicit, misuse}
}
