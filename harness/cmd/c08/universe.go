// C08: the request universe of a chain state, and classification of requests for the input histogram.
package main

import (
	"fmt"
	"math"
	"sort"
)

const unknownHash = "3c0ffee0000000000000000000000000000000000000000000000000000abcd"

type ident struct {
	bid  BID
	ref  string // "b<id>" when the hash is the one of store op <id>
	kind string
}

func (e *env) idents() []ident {
	var l []ident
	h := uint64(len(e.cur))
	for n := uint64(0); n < h; n++ {
		l = append(l, ident{BID{K: "n", N: n}, "", "number-existing"})
	}
	for _, n := range []uint64{h, h + 1, math.MaxUint64} {
		l = append(l, ident{BID{K: "n", N: n}, "", "number-absent"})
	}
	for _, b := range e.cur {
		l = append(l, ident{BID{K: "h", H: b.hash}, fmt.Sprintf("b%d", b.id), "hash-current"})
	}
	var gone []string
	for g := range e.gone {
		gone = append(gone, g)
	}
	sort.Strings(gone)
	for _, g := range gone {
		ref := ""
		for id, b := range e.byID {
			if b.hash == g {
				ref = fmt.Sprintf("b%d", id)
			}
		}
		l = append(l, ident{BID{K: "h", H: g}, ref, "hash-reverted"})
	}
	l = append(l, ident{BID{K: "h", H: unknownHash}, "", "hash-unknown"}, ident{BID{K: "h", H: "0"}, "", "hash-zero"},
		ident{BID{K: "latest"}, "", "latest"}, ident{BID{K: "l1"}, "", "l1_accepted"})
	return l
}

type treq struct {
	Req
	kind string // identifier kind, for the histogram
}

// universe enumerates every request of the modelled universe for the current state. l1Only restricts to
// the requests whose answer can depend on the L1 head.
func (e *env) universe(l1Only bool) []treq {
	var out []treq
	add := func(r Req, kind string) { out = append(out, treq{r, kind}) }
	if !l1Only {
		add(Req{M: "blockNumber"}, "none")
		add(Req{M: "blockHashAndNumber"}, "none")
	}
	maxTx := 0
	for _, b := range e.cur {
		if len(b.txs) > maxTx {
			maxTx = len(b.txs)
		}
	}
	addrs := []string{"a", "b", "c", "d", "e", "f"} // 0xf is never deployed
	slots := []string{"5", "6", "7", "8"}           // 0x8 is never written
	classes := []string{"384", "385", "386", "387", "388"} // Cairo-0 hashes 900..904
	for id := uint64(1); id <= 3; id++ {
		classes = append(classes, hx0(sierraHash(id).String()))
	}
	for _, id := range e.idents() {
		id := id
		bid := &id.bid
		for _, m := range []string{"blockWithTxHashes", "blockWithTxs", "blockWithReceipts"} {
			add(Req{M: m, ID: bid, IDRef: id.ref}, id.kind)
		}
		if l1Only && id.kind != "l1_accepted" {
			continue
		}
		add(Req{M: "txCount", ID: bid, IDRef: id.ref}, id.kind)
		add(Req{M: "stateUpdate", ID: bid, IDRef: id.ref}, id.kind)
		for i := -1; i <= maxTx; i++ {
			add(Req{M: "txByIdx", ID: bid, IDRef: id.ref, Idx: i}, id.kind)
		}
		for _, a := range addrs {
			for _, k := range slots {
				add(Req{M: "storageAt", ID: bid, IDRef: id.ref, Addr: a, Key: k}, id.kind)
				add(Req{M: "storageAtLU", ID: bid, IDRef: id.ref, Addr: a, Key: k}, id.kind)
			}
			for _, m := range []string{"nonce", "classHashAt", "classAt"} {
				add(Req{M: m, ID: bid, IDRef: id.ref, Addr: a}, id.kind)
			}
		}
		for _, c := range classes {
			add(Req{M: "class", ID: bid, IDRef: id.ref, Hash: c}, id.kind)
		}
	}
	txReqs := func(h, ref, kind string) {
		if !l1Only {
			add(Req{M: "txByHash", Hash: h, HashRef: ref}, kind)
		}
		add(Req{M: "receipt", Hash: h, HashRef: ref}, kind)
		add(Req{M: "txStatus", Hash: h, HashRef: ref}, kind)
	}
	for _, b := range e.cur {
		for i, t := range b.txs {
			txReqs(t, fmt.Sprintf("t%d.%d", b.id, i), "tx-current")
		}
	}
	var gone []string
	for g := range e.goneTx {
		gone = append(gone, g)
	}
	sort.Strings(gone)
	for _, g := range gone {
		txReqs(g, "", "tx-reverted")
	}
	txReqs(unknownHash, "", "tx-unknown")
	return out
}

func (e *env) l1Kind() string {
	switch {
	case e.l1 == nil:
		return "l1head:none"
	case len(e.cur) == 0:
		return "l1head:empty-chain"
	case *e.l1 > uint64(len(e.cur)-1):
		return "l1head:above-height"
	case *e.l1 == uint64(len(e.cur)-1):
		return "l1head:at-height"
	}
	return "l1head:below-height"
}

// reresolve re-binds the symbolic references of a request in another environment (used while shrinking).
func (e *env) reresolve(r Req) (Req, bool) {
	if r.IDRef != "" {
		var id int
		fmt.Sscanf(r.IDRef, "b%d", &id)
		b, ok := e.byID[id]
		if !ok {
			return r, false
		}
		nb := *r.ID
		nb.H = b.hash
		r.ID = &nb
	}
	if r.HashRef != "" {
		var id, i int
		fmt.Sscanf(r.HashRef, "t%d.%d", &id, &i)
		b, ok := e.byID[id]
		if !ok || i >= len(b.txs) {
			return r, false
		}
		r.Hash = b.txs[i]
	}
	return r, true
}
